#!/bin/sh
# regenerate _CoqProject and Makefile from the files present
cd "$(dirname "$0")"
{ echo "-Q theories WP"; echo "-Q gen WPGen"; echo "-arg -w -arg -notation-overridden,-deprecated-hint-without-locality,-deprecated-instance-without-locality";
  find gen -name '*.v' | sort; find theories -name '*.v' | sort; } > _CoqProject.new
if ! cmp -s _CoqProject.new _CoqProject; then mv _CoqProject.new _CoqProject; coq_makefile -f _CoqProject -o Makefile >/dev/null; else rm _CoqProject.new; [ -f Makefile ] || coq_makefile -f _CoqProject -o Makefile >/dev/null; fi
