From Coq Require Import List NArith Lia Bool Arith.
Import ListNotations.

(* ---------- locations, views, messages *)
Inductive loc := Seq | T (p : bool) | V (p : bool).
Definition loc_eqb (a b : loc) : bool :=
  match a, b with
  | Seq, Seq => true | T p, T q => Bool.eqb p q | V p, V q => Bool.eqb p q | _, _ => false end.
Lemma loc_eqb_spec a b : reflect (a = b) (loc_eqb a b).
Proof. destruct a, b; cbn; try (constructor; congruence); destruct p, p0; cbn; constructor; congruence. Qed.

Definition view := loc -> nat.
Definition vjoin (a b : view) : view := fun x => Nat.max (a x) (b x).
Definition vset (a : view) (x : loc) (n : nat) : view := fun y => if loc_eqb y x then n else a y.
Definition vle (a b : view) := forall x, a x <= b x.

Inductive ord := Rlx | Acq | Rel.
Definition is_acq o := match o with Acq => true | _ => false end.
Definition is_rel o := match o with Rel => true | _ => false end.

Record msg := { val : N; mview : view; mrel : bool; upd : nat (* ghost: update number *) }.
Definition mem := loc -> list msg.

(* load: thread view vw reads index i of location x with ordering o *)
Definition load (m : mem) (vw : view) (x : loc) (o : ord) (i : nat) : option (N * view * msg) :=
  if vw x <=? i then
    match nth_error (m x) i with
    | Some ms =>
      let vw1 := vset vw x i in
      let vw2 := if is_acq o && mrel ms then vjoin vw1 (mview ms) else vw1 in
      Some (val ms, vw2, ms)
    | None => None
    end
  else None.

(* store: append *)
Definition store (m : mem) (vw : view) (x : loc) (o : ord) (v : N) (u : nat) : mem * view :=
  let i := length (m x) in
  let vw1 := vset vw x i in
  let ms := {| val := v; mview := vw1; mrel := is_rel o; upd := u |} in
  (fun y => if loc_eqb y x then m y ++ [ms] else m y, vw1).

(* ---------- orderings used by the program (in the real development: generated from the source) *)
Record orderings := {
  o_r_seq1 : ord; o_r_v : ord; o_r_t : ord; o_r_seq2 : ord;      (* snapshot *)
  o_w_seq : ord; o_w_v : ord; o_w_t : ord;                        (* advance_once loads *)
  o_s_t : ord; o_s_v : ord; o_s_seq : ord }.                      (* stores *)
Definition code_orderings := {| o_r_seq1 := Acq; o_r_v := Acq; o_r_t := Acq; o_r_seq2 := Acq;
  o_w_seq := Rlx; o_w_v := Acq; o_w_t := Acq; o_s_t := Rel; o_s_v := Rel; o_s_seq := Rel |}.

Definition par (n : nat) : bool := Nat.odd n.

(* ---------- thread programs *)
Inductive pc :=
| Idle
| R1 (s : nat)                       (* snapshot: read seq = s; next: load V *)
| R2 (s : nat) (v : N) (kv : nat)    (* kv: ghost, update number of the V message read *)
| R3 (s : nat) (v : N) (kv : nat) (t : N) (kt : nat)
| RDone (s : nat) (t v : N)
| W1 (ut uv : N)                     (* holds lock; next: load seq *)
| W2 (ut uv : N) (cur : nat)         (* next: load V[cur] *)
| W3 (ut uv : N) (cur : nat)         (* next: load T[cur] *)
| W4 (ut uv : N) (cur : nat) (tc : N)(* next: compare, maybe store T *)
| W5 (ut uv : N) (n : nat)           (* next: store V *)
| W6 (ut uv : N) (n : nat)           (* next: store Seq *)
| W7 (b : bool)                      (* next: unlock *)
| WDone (b : bool).

Record thread := { tview : view; tpc : pc }.

Record state := {
  smem : mem;
  lock_held : option nat;
  lock_view : view;
  threads : nat -> thread;
  acc : list (N * N)    (* ghost: accepted updates, acc[0] = initial pair *)
}.

Definition upd_thread (st : state) (tid : nat) (th : thread) : nat -> thread :=
  fun j => if Nat.eqb j tid then th else threads st j.

Section Step.
Variable O : orderings.
Variable check : N -> N -> bool.

(* actions chosen by the scheduler/environment for thread tid *)
Inductive action :=
| ASnapStart (i : nat)        (* begin snapshot: load Seq at index i *)
| ALoad (i : nat)             (* perform the pending load at index i *)
| AStep                       (* perform the pending non-load step *)
| AUpdStart (ut uv : N)       (* begin update: acquire lock (blocking: enabled only if free) *)
| ATryStart (ut uv : N)       (* begin try_update *)
| AReset.                     (* Done -> Idle *)

Definition step (st : state) (tid : nat) (a : action) : option state :=
  let th := threads st tid in
  let vw := tview th in
  let m := smem st in
  let set th' := {| smem := smem st; lock_held := lock_held st; lock_view := lock_view st;
                    threads := upd_thread st tid th'; acc := acc st |} in
  match tpc th, a with
  | Idle, ASnapStart i =>
      match load m vw Seq (o_r_seq1 O) i with
      | Some (s, vw', _) => Some (set {| tview := vw'; tpc := R1 (N.to_nat s) |})
      | None => None end
  | R1 s, ALoad i =>
      match load m vw (V (par s)) (o_r_v O) i with
      | Some (v, vw', ms) => Some (set {| tview := vw'; tpc := R2 s v (upd ms) |})
      | None => None end
  | R2 s v kv, ALoad i =>
      match load m vw (T (par s)) (o_r_t O) i with
      | Some (t, vw', ms) => Some (set {| tview := vw'; tpc := R3 s v kv t (upd ms) |})
      | None => None end
  | R3 s v kv t kt, ALoad i =>
      match load m vw Seq (o_r_seq2 O) i with
      | Some (s2, vw', _) =>
          if Nat.eqb s (N.to_nat s2) then Some (set {| tview := vw'; tpc := RDone s t v |})
          else Some (set {| tview := vw'; tpc := R1 (N.to_nat s2) |})
      | None => None end
  | RDone _ _ _, AReset => Some (set {| tview := vw; tpc := Idle |})
  | WDone _, AReset => Some (set {| tview := vw; tpc := Idle |})
  | Idle, AUpdStart ut uv =>
      match lock_held st with
      | None => Some {| smem := m; lock_held := Some tid; lock_view := lock_view st;
                        threads := upd_thread st tid {| tview := vjoin vw (lock_view st); tpc := W1 ut uv |};
                        acc := acc st |}
      | Some _ => None end
  | Idle, ATryStart ut uv =>
      match lock_held st with
      | None => Some {| smem := m; lock_held := Some tid; lock_view := lock_view st;
                        threads := upd_thread st tid {| tview := vjoin vw (lock_view st); tpc := W1 ut uv |};
                        acc := acc st |}
      | Some _ => Some (set {| tview := vw; tpc := WDone false |}) end
  | W1 ut uv, ALoad i =>
      match load m vw Seq (o_w_seq O) i with
      | Some (c, vw', _) => Some (set {| tview := vw'; tpc := W2 ut uv (N.to_nat c) |})
      | None => None end
  | W2 ut uv cur, ALoad i =>
      match load m vw (V (par cur)) (o_w_v O) i with
      | Some (_, vw', _) => Some (set {| tview := vw'; tpc := W3 ut uv cur |})
      | None => None end
  | W3 ut uv cur, ALoad i =>
      match load m vw (T (par cur)) (o_w_t O) i with
      | Some (tc, vw', _) => Some (set {| tview := vw'; tpc := W4 ut uv cur tc |})
      | None => None end
  | W4 ut uv cur tc, AStep =>
      if (ut <? tc)%N then Some (set {| tview := vw; tpc := W7 false |})
      else
        let n := S cur in
        let '(m', vw') := store m vw (T (par n)) (o_s_t O) ut n in
        Some {| smem := m'; lock_held := lock_held st; lock_view := lock_view st;
                threads := upd_thread st tid {| tview := vw'; tpc := W5 ut uv n |}; acc := acc st |}
  | W5 ut uv n, AStep =>
      let '(m', vw') := store m vw (V (par n)) (o_s_v O) uv n in
      Some {| smem := m'; lock_held := lock_held st; lock_view := lock_view st;
              threads := upd_thread st tid {| tview := vw'; tpc := W6 ut uv n |}; acc := acc st |}
  | W6 ut uv n, AStep =>
      let '(m', vw') := store m vw Seq (o_s_seq O) (N.of_nat n) n in
      Some {| smem := m'; lock_held := lock_held st; lock_view := lock_view st;
              threads := upd_thread st tid {| tview := vw'; tpc := W7 true |}; acc := acc st ++ [(ut, uv)] |}
  | W7 b, AStep =>
      Some {| smem := m; lock_held := None; lock_view := vjoin (lock_view st) vw;
              threads := upd_thread st tid {| tview := vw; tpc := WDone b |}; acc := acc st |}
  | _, _ => None
  end.
End Step.

(* ---------- initial state *)
Definition vbot : view := fun _ => 0.
Definition init_msg (v : N) : msg := {| val := v; mview := vbot; mrel := false; upd := 0 |}.
Definition init (t0 v0 : N) : state :=
  {| smem := fun x => match x with Seq => [init_msg 0] | T _ => [init_msg t0] | V _ => [init_msg v0] end;
     lock_held := None; lock_view := vbot;
     threads := fun _ => {| tview := vbot; tpc := Idle |};
     acc := [(t0, v0)] |}.

(* ---------- sanity: the model exhibits a torn read when the slot loads are Relaxed *)
Definition relaxed_orderings := {| o_r_seq1 := Acq; o_r_v := Rlx; o_r_t := Rlx; o_r_seq2 := Acq;
  o_w_seq := Rlx; o_w_v := Acq; o_w_t := Acq; o_s_t := Rel; o_s_v := Rel; o_s_seq := Rel |}.

Fixpoint run O (st : state) (sched : list (nat * action)) : option state :=
  match sched with
  | [] => Some st
  | (tid, a) :: rest => match step O st tid a with Some st' => run O st' rest | None => None end
  end.

Definition upd_sched (tid : nat) (ut uv : N) (iseq iv it : nat) :=
  [(tid, AUpdStart ut uv); (tid, ALoad iseq); (tid, ALoad iv); (tid, ALoad it); (tid, AStep); (tid, AStep); (tid, AStep); (tid, AStep); (tid, AReset)].

(* writer 0 performs two updates; reader 1 reads seq=0 first, then new V0, old T0, old seq *)
Definition torn_sched :=
  [(1, ASnapStart 0)] ++ upd_sched 0 10 110 0 0 0 ++ upd_sched 0 20 120 1 1 1 ++
  [(1, ALoad 1); (1, ALoad 0); (1, ALoad 0)].

Definition final_pc O := option_map (fun st => tpc (threads st 1)) (run O (init 0 100) torn_sched).
Eval vm_compute in final_pc relaxed_orderings.  (* expect RDone 0 0 120 : torn *)
Eval vm_compute in final_pc code_orderings.     (* expect None: the stale seq read is not allowed *)
