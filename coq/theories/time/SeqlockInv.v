From Coq Require Import List NArith Lia Bool Arith.
Import ListNotations.
From WP Require Import time.RA.

(* ===== basic facts about load / store / views ===== *)
Lemma vset_same vw x n : vset vw x n x = n.
Proof. unfold vset. destruct (loc_eqb_spec x x); congruence. Qed.
Lemma vset_other vw x n y : y <> x -> vset vw x n y = vw y.
Proof. unfold vset. destruct (loc_eqb_spec y x); congruence. Qed.

Lemma load_spec m vw x o i v vw' ms :
  load m vw x o i = Some (v, vw', ms) ->
  vw x <= i /\ nth_error (m x) i = Some ms /\ v = val ms /\
  vw' = (if is_acq o && mrel ms then vjoin (vset vw x i) (mview ms) else vset vw x i).
Proof.
  unfold load. destruct (vw x <=? i) eqn:L; [|discriminate]. apply Nat.leb_le in L.
  destruct (nth_error (m x) i) eqn:E; [|discriminate]. intros H; inversion H; subst. auto.
Qed.

Definition vvalid (m : mem) (vw : view) := forall x, vw x < length (m x).
Definition lastidx (m : mem) x := length (m x) - 1.
Definition complete (m : mem) (vw : view) := forall x, vw x = lastidx m x.
Definition msgs_valid (m : mem) := forall x i ms, nth_error (m x) i = Some ms -> vvalid m (mview ms).

Lemma load_valid m vw x o i v vw' ms :
  msgs_valid m -> vvalid m vw -> load m vw x o i = Some (v, vw', ms) -> vvalid m vw'.
Proof.
  intros MV V H. apply load_spec in H as (L & E & _ & ->).
  assert (i < length (m x)) by (apply nth_error_Some; congruence).
  assert (vvalid m (vset vw x i)).
  { intros y. unfold vset. destruct (loc_eqb_spec y x); subst; auto. }
  destruct (is_acq o && mrel ms); auto.
  intros y. unfold vjoin. pose proof (MV _ _ _ E y). specialize (H0 y). lia.
Qed.

Lemma load_mono m vw x o i v vw' ms :
  load m vw x o i = Some (v, vw', ms) -> forall y, vw y <= vw' y.
Proof.
  intros H. apply load_spec in H as (L & E & _ & ->). intros y.
  assert (vw y <= vset vw x i y). { unfold vset. destruct (loc_eqb_spec y x); subst; lia. }
  destruct (is_acq o && mrel ms); auto. unfold vjoin. lia.
Qed.

(* a thread with a complete view can only read the last message *)
Lemma load_complete m vw x o i v vw' ms :
  msgs_valid m -> complete m vw -> (forall y, 1 <= length (m y)) ->
  load m vw x o i = Some (v, vw', ms) ->
  i = lastidx m x /\ complete m vw'.
Proof.
  intros MV C NE H. pose proof H as H'. apply load_spec in H as (L & E & _ & ->).
  assert (i < length (m x)) by (apply nth_error_Some; congruence).
  assert (i = lastidx m x) as Hi by (unfold lastidx; rewrite C in L; unfold lastidx in L; lia).
  split; auto.
  assert (complete m (vset vw x i)).
  { intros y. unfold vset. destruct (loc_eqb_spec y x); subst; auto. }
  destruct (is_acq o && mrel ms); auto.
  intros y. unfold vjoin. pose proof (MV _ _ _ E y). rewrite H0. unfold lastidx. lia.
Qed.

(* ===== the invariant ===== *)
Section Inv.
Variable O : orderings.
Hypothesis H_seq1_acq : is_acq (o_r_seq1 O) = true.
Hypothesis H_seq2_acq : is_acq (o_r_seq2 O) = true.
Hypothesis H_v_acq : is_acq (o_r_v O) = true.
Hypothesis H_t_acq : is_acq (o_r_t O) = true.
Hypothesis H_st_rel : is_rel (o_s_t O) = true.
Hypothesis H_sv_rel : is_rel (o_s_v O) = true.
Hypothesis H_sseq_rel : is_rel (o_s_seq O) = true.

Definition nacc (st : state) := length (acc st) - 1.
Definition covers (m : mem) (x : loc) (i k : nat) :=
  forall j ms, i <= j -> nth_error (m x) j = Some ms -> k <= upd ms.

Definition is_w (p : pc) : bool :=
  match p with W1 _ _ | W2 _ _ _ | W3 _ _ _ | W4 _ _ _ _ | W5 _ _ _ | W6 _ _ _ | W7 _ => true | _ => false end.

(* pending (not yet published) update: who, what, and how far *)
Definition pending_T (st : state) (ut : N) : Prop :=
  exists h uv, lock_held st = Some h /\
    (tpc (threads st h) = W5 ut uv (S (nacc st)) \/ tpc (threads st h) = W6 ut uv (S (nacc st))).
Definition pending_V (st : state) (uv : N) : Prop :=
  exists h ut, lock_held st = Some h /\ tpc (threads st h) = W6 ut uv (S (nacc st)).

Record MemInv (st : state) : Prop := {
  m_acc : 1 <= length (acc st);
  m_ne : forall x, 1 <= length (smem st x);
  m_valid : msgs_valid (smem st);
  m_seqlen : length (smem st Seq) = length (acc st);
  m_seq : forall k ms, nth_error (smem st Seq) k = Some ms ->
      val ms = N.of_nat k /\ (1 <= k -> mrel ms = true) /\
      covers (smem st) (T (par k)) (mview ms (T (par k))) k /\
      covers (smem st) (V (par k)) (mview ms (V (par k))) k;
  m_T : forall p j ms, nth_error (smem st (T p)) j = Some ms ->
      (upd ms <= nacc st -> exists tv, nth_error (acc st) (upd ms) = Some tv /\ val ms = fst tv) /\
      (upd ms = 0 \/ par (upd ms) = p) /\
      (1 <= upd ms -> mrel ms = true /\ upd ms <= S (mview ms Seq)) /\
      upd ms <= S (nacc st) /\
      (upd ms = S (nacc st) -> pending_T st (val ms));
  m_V : forall p j ms, nth_error (smem st (V p)) j = Some ms ->
      (upd ms <= nacc st -> exists tv, nth_error (acc st) (upd ms) = Some tv /\ val ms = snd tv) /\
      (upd ms = 0 \/ par (upd ms) = p) /\
      (1 <= upd ms -> mrel ms = true /\ upd ms <= S (mview ms Seq)) /\
      upd ms <= S (nacc st) /\
      (upd ms = S (nacc st) -> pending_V st (val ms));
  m_lastT : forall ms, nth_error (smem st (T (par (nacc st)))) (lastidx (smem st) (T (par (nacc st)))) = Some ms -> upd ms = nacc st;
  m_lastV : forall ms, nth_error (smem st (V (par (nacc st)))) (lastidx (smem st) (V (par (nacc st)))) = Some ms -> upd ms = nacc st
}.

Definition good (st : state) (vw : view) (s k : nat) (P : N * N -> Prop) :=
  (k = s /\ exists tv, nth_error (acc st) s = Some tv /\ P tv) \/ s < vw Seq.

Definition last_upd (st : state) (x : loc) (u : nat) :=
  forall ms, nth_error (smem st x) (lastidx (smem st) x) = Some ms -> upd ms = u.

Definition ThreadOK (st : state) (j : nat) : Prop :=
  let th := threads st j in
  let vw := tview th in
  vvalid (smem st) vw /\
  match tpc th with
  | Idle => True
  | R1 s => s <= nacc st /\ s <= vw Seq /\
            covers (smem st) (T (par s)) (vw (T (par s))) s /\ covers (smem st) (V (par s)) (vw (V (par s))) s
  | R2 s v kv => s <= nacc st /\ s <= vw Seq /\
            covers (smem st) (T (par s)) (vw (T (par s))) s /\ good st vw s kv (fun tv => v = snd tv)
  | R3 s v kv t kt => s <= nacc st /\ s <= vw Seq /\
            good st vw s kv (fun tv => v = snd tv) /\ good st vw s kt (fun tv => t = fst tv)
  | RDone s t v => nth_error (acc st) s = Some (t, v)
  | W1 _ _ => lock_held st = Some j /\ complete (smem st) vw
  | W2 _ _ cur | W3 _ _ cur => lock_held st = Some j /\ complete (smem st) vw /\ cur = nacc st
  | W4 _ _ cur tc => lock_held st = Some j /\ complete (smem st) vw /\ cur = nacc st /\
                     exists tv, nth_error (acc st) (nacc st) = Some tv /\ tc = fst tv
  | W5 ut uv n => lock_held st = Some j /\ complete (smem st) vw /\ n = S (nacc st) /\
                  last_upd st (T (par n)) n
  | W6 ut uv n => lock_held st = Some j /\ complete (smem st) vw /\ n = S (nacc st) /\
                  last_upd st (T (par n)) n /\ last_upd st (V (par n)) n
  | W7 _ => lock_held st = Some j /\ complete (smem st) vw
  | WDone _ => True
  end.

Record Inv (st : state) : Prop := {
  i_mem : MemInv st;
  i_thr : forall j, ThreadOK st j;
  i_lock_valid : vvalid (smem st) (lock_view st);
  i_lock_free : lock_held st = None -> complete (smem st) (lock_view st);
  i_lock_held : forall h, lock_held st = Some h -> is_w (tpc (threads st h)) = true
}.

(* ---- the safety statement *)
Definition snapshot_sound (st : state) : Prop :=
  forall j s t v, tpc (threads st j) = RDone s t v -> nth_error (acc st) s = Some (t, v).

Lemma inv_sound st : Inv st -> snapshot_sound st.
Proof. intros I j s t v E. pose proof (i_thr st I j) as (_ & H). rewrite E in H. exact H. Qed.

(* ---- initial state *)
Lemma init_inv t0 v0 : Inv (init t0 v0).
Proof.
  constructor.
  - constructor; cbn.
    + lia.
    + intros [| |]; cbn; lia.
    + intros x i ms H y. destruct x; destruct i as [|[|]]; cbn in H; try discriminate; inversion H; subst; cbn;
        destruct y; cbn; unfold vbot; lia.
    + reflexivity.
    + intros k ms H. destruct k as [|[|]]; cbn in H; try discriminate. inversion H; subst. cbn.
      repeat split; try lia; intros j ms' _ _; lia.
    + intros p j ms H. destruct j as [|[|]]; cbn in H; try discriminate. inversion H; subst. cbn.
      repeat split; auto; try lia. intros _. exists (t0, v0). auto.
    + intros p j ms H. destruct j as [|[|]]; cbn in H; try discriminate. inversion H; subst. cbn.
      repeat split; auto; try lia. intros _. exists (t0, v0). auto.
    + intros ms H. cbn in H. inversion H; subst. reflexivity.
    + intros ms H. cbn in H. inversion H; subst. reflexivity.
  - intros j. unfold ThreadOK. cbn. split; auto. intros x. destruct x; cbn; unfold vbot; lia.
  - intros x. destruct x; cbn; unfold vbot; lia.
  - intros _ x. destruct x; cbn; reflexivity.
  - cbn. discriminate.
Qed.

(* ===== frame lemma: a step that only changes one thread's local state ===== *)
Definition not_w56 (p : pc) : Prop := match p with W5 _ _ _ | W6 _ _ _ => False | _ => True end.

Definition with_thread (st : state) (tid : nat) (th' : thread) : state :=
  {| smem := smem st; lock_held := lock_held st; lock_view := lock_view st;
     threads := upd_thread st tid th'; acc := acc st |}.

Lemma upd_thread_same st tid th' : upd_thread st tid th' tid = th'.
Proof. unfold upd_thread. now rewrite Nat.eqb_refl. Qed.
Lemma upd_thread_other st tid th' j : j <> tid -> upd_thread st tid th' j = threads st j.
Proof. unfold upd_thread. intros H. apply Nat.eqb_neq in H. now rewrite H. Qed.

Lemma pending_T_frame st tid th' ut :
  not_w56 (tpc (threads st tid)) -> pending_T st ut -> pending_T (with_thread st tid th') ut.
Proof.
  intros NW (h & uv & Hh & Hp). exists h, uv. cbn. split; auto.
  destruct (Nat.eq_dec h tid) as [->|Hne].
  - destruct Hp as [Hp|Hp]; rewrite Hp in NW; destruct NW.
  - unfold nacc in *. cbn. rewrite upd_thread_other by auto. exact Hp.
Qed.
Lemma pending_V_frame st tid th' uv :
  not_w56 (tpc (threads st tid)) -> pending_V st uv -> pending_V (with_thread st tid th') uv.
Proof.
  intros NW (h & ut & Hh & Hp). exists h, ut. cbn. split; auto.
  destruct (Nat.eq_dec h tid) as [->|Hne].
  - rewrite Hp in NW; destruct NW.
  - unfold nacc in *. cbn. rewrite upd_thread_other by auto. exact Hp.
Qed.

Lemma meminv_with_thread st tid th' :
  not_w56 (tpc (threads st tid)) -> MemInv st -> MemInv (with_thread st tid th').
Proof.
  intros NW M. destruct M. constructor; cbn; auto.
  - intros p j ms H. destruct (m_T0 p j ms H) as (A & B & C & D & E).
    split; [exact A|]. split; [exact B|]. split; [exact C|]. split; [exact D|].
    intros Hu. apply pending_T_frame; auto.
  - intros p j ms H. destruct (m_V0 p j ms H) as (A & B & C & D & E).
    split; [exact A|]. split; [exact B|]. split; [exact C|]. split; [exact D|].
    intros Hu. apply pending_V_frame; auto.
Qed.

Lemma threadok_other st tid th' j : j <> tid -> ThreadOK st j -> ThreadOK (with_thread st tid th') j.
Proof.
  intros Hne H. unfold ThreadOK, good, last_upd, nacc in *. cbn. rewrite upd_thread_other by auto. exact H.
Qed.

Lemma inv_thread_update st tid th' :
  Inv st ->
  not_w56 (tpc (threads st tid)) ->
  ThreadOK (with_thread st tid th') tid ->
  (lock_held st = Some tid -> is_w (tpc th') = true) ->
  Inv (with_thread st tid th').
Proof.
  intros I NW OK HL. destruct I. constructor; cbn.
  - now apply meminv_with_thread.
  - intros j. destruct (Nat.eq_dec j tid) as [->|Hne]; auto. now apply threadok_other.
  - exact i_lock_valid0.
  - exact i_lock_free0.
  - intros h Hh. destruct (Nat.eq_dec h tid) as [->|Hne].
    + rewrite upd_thread_same. auto.
    + rewrite upd_thread_other by auto. auto.
Qed.

(* ===== reader-side lemmas (ported from the crux probe) ===== *)
Lemma covers_mono m x i i' k : covers m x i k -> i <= i' -> covers m x i' k.
Proof. unfold covers; intros H L j ms Hj E. eapply H; [|exact E]. lia. Qed.

Lemma par_same_gt s k : par k = par s -> s < k -> S (S s) <= k.
Proof.
  unfold par. intros E L. destruct (Nat.eq_dec k (S s)) as [->|]; [|lia].
  rewrite Nat.odd_succ in E. rewrite <- Nat.negb_odd in E. destruct (Nat.odd s); discriminate.
Qed.

Lemma seq_load_R1 st vw o i s vw' ms :
  MemInv st -> is_acq o = true ->
  load (smem st) vw Seq o i = Some (s, vw', ms) ->
  N.to_nat s = i /\ i <= nacc st /\ i <= vw' Seq /\
  covers (smem st) (T (par i)) (vw' (T (par i))) i /\ covers (smem st) (V (par i)) (vw' (V (par i))) i.
Proof.
  intros M Ha H. apply load_spec in H as (L & E & -> & ->).
  destruct (m_seq st M _ _ E) as (Hv & Hrel & CT & CV).
  assert (i < length (smem st Seq)) by (apply nth_error_Some; congruence).
  rewrite (m_seqlen st M) in H. rewrite Hv, Nat2N.id, Ha. cbn [andb].
  split; [reflexivity|]. split; [unfold nacc; lia|].
  destruct (Nat.eq_dec i 0) as [->|Hi].
  - destruct (mrel ms); unfold vjoin; rewrite ?vset_same; repeat split; try lia; intros j ms' _ _; lia.
  - rewrite Hrel by lia. unfold vjoin. rewrite vset_same.
    repeat split; try lia; (eapply covers_mono; [eassumption|lia]).
Qed.

Lemma slot_load_V st vw s i v vw' ms :
  MemInv st -> s <= nacc st -> s <= vw Seq -> covers (smem st) (V (par s)) (vw (V (par s))) s ->
  load (smem st) vw (V (par s)) (o_r_v O) i = Some (v, vw', ms) ->
  good st vw' s (upd ms) (fun tv => v = snd tv) /\ s <= vw' Seq /\ (forall x, x <> V (par s) -> vw x <= vw' x).
Proof.
  intros M Hs Hseq Cov H. apply load_spec in H as (Le & E & -> & ->).
  pose proof (Cov _ _ Le E) as Hk.
  destruct (m_V st M _ _ _ E) as (Hval & Hpar & Hrel & _).
  rewrite H_v_acq. cbn [andb].
  destruct (Nat.eq_dec (upd ms) s) as [Es|Ns].
  - split; [left; split; auto; destruct (Hval ltac:(lia)) as (tv & A & B); rewrite Es in A; eauto|].
    destruct (mrel ms); unfold vjoin; rewrite ?vset_other by discriminate; split; try lia;
      intros x Hx; rewrite ?vset_other by auto; lia.
  - assert (S (S s) <= upd ms) as Hgt.
    { destruct Hpar as [Z|P]; [lia|]. apply par_same_gt; auto. lia. }
    destruct (Hrel ltac:(lia)) as (R & Hv). rewrite R. unfold vjoin.
    split; [right; rewrite vset_other by discriminate; lia|].
    split; [rewrite vset_other by discriminate; lia|].
    intros x Hx; rewrite vset_other by auto; lia.
Qed.

Lemma slot_load_T st vw s i t vw' ms :
  MemInv st -> s <= nacc st -> s <= vw Seq -> covers (smem st) (T (par s)) (vw (T (par s))) s ->
  load (smem st) vw (T (par s)) (o_r_t O) i = Some (t, vw', ms) ->
  good st vw' s (upd ms) (fun tv => t = fst tv) /\ s <= vw' Seq /\ (forall x, x <> T (par s) -> vw x <= vw' x).
Proof.
  intros M Hs Hseq Cov H. apply load_spec in H as (Le & E & -> & ->).
  pose proof (Cov _ _ Le E) as Hk.
  destruct (m_T st M _ _ _ E) as (Hval & Hpar & Hrel & _).
  rewrite H_t_acq. cbn [andb].
  destruct (Nat.eq_dec (upd ms) s) as [Es|Ns].
  - split; [left; split; auto; destruct (Hval ltac:(lia)) as (tv & A & B); rewrite Es in A; eauto|].
    destruct (mrel ms); unfold vjoin; rewrite ?vset_other by discriminate; split; try lia;
      intros x Hx; rewrite ?vset_other by auto; lia.
  - assert (S (S s) <= upd ms) as Hgt.
    { destruct Hpar as [Z|P]; [lia|]. apply par_same_gt; auto. lia. }
    destruct (Hrel ltac:(lia)) as (R & Hv). rewrite R. unfold vjoin.
    split; [right; rewrite vset_other by discriminate; lia|].
    split; [rewrite vset_other by discriminate; lia|].
    intros x Hx; rewrite vset_other by auto; lia.
Qed.

Lemma good_mono st vw vw' s k P : good st vw s k P -> vw Seq <= vw' Seq -> good st vw' s k P.
Proof. intros [H|H] L; [left; exact H|right; lia]. Qed.

(* ===== reader steps preserve the invariant ===== *)
Lemma threadok_set st tid th' :
  ThreadOK (with_thread st tid th') tid =
  (vvalid (smem st) (tview th') /\
   match tpc th' with
   | Idle => True
   | R1 s => s <= nacc st /\ s <= tview th' Seq /\
        covers (smem st) (T (par s)) (tview th' (T (par s))) s /\ covers (smem st) (V (par s)) (tview th' (V (par s))) s
   | R2 s v kv => s <= nacc st /\ s <= tview th' Seq /\
        covers (smem st) (T (par s)) (tview th' (T (par s))) s /\ good st (tview th') s kv (fun tv => v = snd tv)
   | R3 s v kv t kt => s <= nacc st /\ s <= tview th' Seq /\
        good st (tview th') s kv (fun tv => v = snd tv) /\ good st (tview th') s kt (fun tv => t = fst tv)
   | RDone s t v => nth_error (acc st) s = Some (t, v)
   | W1 _ _ => lock_held st = Some tid /\ complete (smem st) (tview th')
   | W2 _ _ cur | W3 _ _ cur => lock_held st = Some tid /\ complete (smem st) (tview th') /\ cur = nacc st
   | W4 _ _ cur tc => lock_held st = Some tid /\ complete (smem st) (tview th') /\ cur = nacc st /\
                     exists tv, nth_error (acc st) (nacc st) = Some tv /\ tc = fst tv
   | W5 ut uv n => lock_held st = Some tid /\ complete (smem st) (tview th') /\ n = S (nacc st) /\
                  last_upd st (T (par n)) n
   | W6 ut uv n => lock_held st = Some tid /\ complete (smem st) (tview th') /\ n = S (nacc st) /\
                  last_upd st (T (par n)) n /\ last_upd st (V (par n)) n
   | W7 _ => lock_held st = Some tid /\ complete (smem st) (tview th')
   | WDone _ => True
   end).
Proof. unfold ThreadOK. cbn. rewrite upd_thread_same. reflexivity. Qed.

Lemma reader_steps st tid a st' :
  Inv st -> is_w (tpc (threads st tid)) = false -> step O st tid a = Some st' ->
  (forall ut uv, a <> AUpdStart ut uv) -> (forall ut uv, a <> ATryStart ut uv) -> Inv st'.
Proof.
  intros I NW H NA NT. pose proof (i_mem st I) as M. pose proof (i_thr st I tid) as (VV & TO).
  assert (NL : lock_held st = Some tid -> False).
  { intros Hh. pose proof (i_lock_held st I _ Hh). congruence. }
  unfold step in H.
  destruct (tpc (threads st tid)) eqn:Epc; destruct a; try discriminate; try (exfalso; eapply NA; reflexivity); try (exfalso; eapply NT; reflexivity).
  - (* Idle, ASnapStart *)
    destruct (load (smem st) (tview (threads st tid)) Seq (o_r_seq1 O) i) as [[[s vw'] ms]|] eqn:L; [|discriminate].
    inversion H; subst st'; clear H.
    apply inv_thread_update; [exact I|rewrite Epc; exact Logic.I| |intros Hh; destruct (NL Hh)].
    rewrite threadok_set. cbn [tview tpc].
    split; [eapply load_valid; eauto; apply (m_valid st M)|].
    destruct (seq_load_R1 st _ _ _ _ _ _ M H_seq1_acq L) as (Es & A & B & C & D). rewrite Es. auto.
  - (* R1, ALoad : load V *)
    destruct (load (smem st) (tview (threads st tid)) (V (par s)) (o_r_v O) i) as [[[v vw'] ms]|] eqn:L; [|discriminate].
    inversion H; subst st'; clear H. destruct TO as (Hs & Hq & CT & CV).
    apply inv_thread_update; [exact I|rewrite Epc; exact Logic.I| |intros Hh; destruct (NL Hh)].
    rewrite threadok_set. cbn [tview tpc].
    split; [eapply load_valid; eauto; apply (m_valid st M)|].
    destruct (slot_load_V st _ _ _ _ _ _ M Hs Hq CV L) as (G & Q & Mono).
    repeat split; auto. eapply covers_mono; [exact CT|]. apply Mono. destruct (par s); discriminate.
  - (* R2, ALoad : load T *)
    destruct (load (smem st) (tview (threads st tid)) (T (par s)) (o_r_t O) i) as [[[t vw'] ms]|] eqn:L; [|discriminate].
    inversion H; subst st'; clear H. destruct TO as (Hs & Hq & CT & GV).
    apply inv_thread_update; [exact I|rewrite Epc; exact Logic.I| |intros Hh; destruct (NL Hh)].
    rewrite threadok_set. cbn [tview tpc].
    split; [eapply load_valid; eauto; apply (m_valid st M)|].
    destruct (slot_load_T st _ _ _ _ _ _ M Hs Hq CT L) as (G & Q & Mono).
    repeat split; auto. eapply good_mono; [exact GV|]. apply Mono. discriminate.
  - (* R3, ALoad : second Seq load *)
    destruct (load (smem st) (tview (threads st tid)) Seq (o_r_seq2 O) i) as [[[s2 vw'] ms]|] eqn:L; [|discriminate].
    destruct TO as (Hs & Hq & GV & GT).
    destruct (seq_load_R1 st _ _ _ _ _ _ M H_seq2_acq L) as (Es & A & B & C & D).
    destruct (Nat.eqb s (N.to_nat s2)) eqn:Eq; inversion H; subst st'; clear H;
      (apply inv_thread_update; [exact I|rewrite Epc; exact Logic.I| |intros Hh; destruct (NL Hh)]);
      rewrite threadok_set; cbn [tview tpc];
      (split; [eapply load_valid; eauto; apply (m_valid st M)|]).
    + (* same sequence: the pair is acc[s] *)
      apply Nat.eqb_eq in Eq. rewrite Es in Eq. subst i.
      apply load_spec in L as (Le & _).
      destruct GV as [(_ & tv & A1 & B1)|]; [|lia].
      destruct GT as [(_ & tv' & A2 & B2)|]; [|lia].
      rewrite A1 in A2. inversion A2; subst tv'. rewrite A1. destruct tv; cbn in *; subst; reflexivity.
    + rewrite Es. auto.
  - (* RDone, AReset *)
    inversion H; subst st'; clear H.
    apply inv_thread_update; [exact I|rewrite Epc; exact Logic.I| |intros Hh; destruct (NL Hh)].
    rewrite threadok_set. cbn [tview tpc]. auto.
  - (* WDone, AReset *)
    inversion H; subst st'; clear H.
    apply inv_thread_update; [exact I|rewrite Epc; exact Logic.I| |intros Hh; destruct (NL Hh)].
    rewrite threadok_set. cbn [tview tpc]. auto.
Qed.
(* ===== appending a message ===== *)
Definition mem_app (m : mem) (x : loc) (ms' : msg) : mem := fun y => if loc_eqb y x then m y ++ [ms'] else m y.

Lemma store_eq m vw x o v u :
  store m vw x o v u =
  (mem_app m x {| val := v; mview := vset vw x (length (m x)); mrel := is_rel o; upd := u |}, vset vw x (length (m x))).
Proof. reflexivity. Qed.

Lemma mem_app_same m x ms' : mem_app m x ms' x = m x ++ [ms'].
Proof. unfold mem_app. destruct (loc_eqb_spec x x); congruence. Qed.
Lemma mem_app_other m x ms' y : y <> x -> mem_app m x ms' y = m y.
Proof. unfold mem_app. destruct (loc_eqb_spec y x); congruence. Qed.

Lemma mem_app_len m x ms' y : length (m y) <= length (mem_app m x ms' y).
Proof. unfold mem_app. destruct (loc_eqb y x); rewrite ?app_length; cbn; lia. Qed.

Lemma mem_app_nth m x ms' y j ms :
  nth_error (mem_app m x ms' y) j = Some ms ->
  nth_error (m y) j = Some ms \/ (y = x /\ j = length (m x) /\ ms = ms').
Proof.
  unfold mem_app. destruct (loc_eqb_spec y x) as [->|]; auto. intros H.
  destruct (Nat.lt_ge_cases j (length (m x))).
  - rewrite nth_error_app1 in H by lia. auto.
  - rewrite nth_error_app2 in H by lia. destruct (j - length (m x)) as [|[|]] eqn:E; cbn in H; try discriminate.
    inversion H. right. repeat split; auto. lia.
Qed.

Lemma mem_app_nth_old m x ms' y j ms : nth_error (m y) j = Some ms -> nth_error (mem_app m x ms' y) j = Some ms.
Proof.
  intros H. unfold mem_app. destruct (loc_eqb y x); auto.
  rewrite nth_error_app1; auto. apply nth_error_Some. congruence.
Qed.

Lemma vvalid_app m x ms' vw : vvalid m vw -> vvalid (mem_app m x ms') vw.
Proof. intros V y. pose proof (mem_app_len m x ms' y). specialize (V y). lia. Qed.

Lemma covers_app m x ms' y i k :
  covers m y i k -> (y = x -> k <= upd ms') -> covers (mem_app m x ms') y i k.
Proof.
  intros C Hn j ms Hj E. apply mem_app_nth in E as [E|(-> & _ & ->)]; [eapply C; eauto|auto].
Qed.

Lemma msgs_valid_app m x ms' :
  msgs_valid m -> vvalid (mem_app m x ms') (mview ms') -> msgs_valid (mem_app m x ms').
Proof.
  intros MV Vn y i ms E. apply mem_app_nth in E as [E|(-> & _ & ->)]; auto.
  apply vvalid_app. eapply MV; eauto.
Qed.

Lemma lastidx_app_same m x ms' : lastidx (mem_app m x ms') x = length (m x).
Proof. unfold lastidx. rewrite mem_app_same, app_length. cbn. lia. Qed.
Lemma lastidx_app_other m x ms' y : y <> x -> lastidx (mem_app m x ms') y = lastidx m y.
Proof. intros H. unfold lastidx. now rewrite mem_app_other. Qed.

Lemma complete_app m x ms' vw :
  complete m vw -> complete (mem_app m x ms') (vset vw x (length (m x))).
Proof.
  intros C y. destruct (loc_eqb_spec y x) as [->|Hne].
  - now rewrite vset_same, lastidx_app_same.
  - rewrite vset_other, lastidx_app_other by auto. apply C.
Qed.

Lemma nth_last_app m x ms' : nth_error (mem_app m x ms' x) (lastidx (mem_app m x ms') x) = Some ms'.
Proof. rewrite lastidx_app_same, mem_app_same, nth_error_app2, Nat.sub_diag by lia. reflexivity. Qed.

Lemma par_succ n : par (S n) <> par n.
Proof. unfold par. rewrite Nat.odd_succ, <- Nat.negb_odd. destruct (Nat.odd n); discriminate. Qed.

(* no unpublished message exists unless the lock holder is between its first store and its Seq store *)
Lemma no_pending_T st p j ms :
  MemInv st -> (forall ut, ~ pending_T st ut) -> nth_error (smem st (T p)) j = Some ms -> upd ms <= nacc st.
Proof.
  intros M NP E. destruct (m_T st M _ _ _ E) as (_ & _ & _ & D & P).
  destruct (Nat.eq_dec (upd ms) (S (nacc st))) as [Eq|]; [|lia]. exfalso. eapply NP. eauto.
Qed.
Lemma no_pending_V st p j ms :
  MemInv st -> (forall uv, ~ pending_V st uv) -> nth_error (smem st (V p)) j = Some ms -> upd ms <= nacc st.
Proof.
  intros M NP E. destruct (m_V st M _ _ _ E) as (_ & _ & _ & D & P).
  destruct (Nat.eq_dec (upd ms) (S (nacc st))) as [Eq|]; [|lia]. exfalso. eapply NP. eauto.
Qed.

(* threads other than the lock holder are not in a writer state *)
Lemma only_holder_is_w st j : Inv st -> is_w (tpc (threads st j)) = true -> lock_held st = Some j.
Proof.
  intros I W. pose proof (i_thr st I j) as (_ & H). destruct (tpc (threads st j)); try discriminate; tauto.
Qed.

(* ThreadOK of a non-writer thread depends only on memory, acc and its own state, and is stable under growth *)
Definition grows (st st' : state) : Prop :=
  (forall y, length (smem st y) <= length (smem st' y)) /\
  (forall y j ms, nth_error (smem st y) j = Some ms -> nth_error (smem st' y) j = Some ms) /\
  (forall p j ms, nth_error (smem st' (T p)) j = Some ms -> nth_error (smem st (T p)) j = Some ms \/ nacc st < upd ms) /\
  (forall p j ms, nth_error (smem st' (V p)) j = Some ms -> nth_error (smem st (V p)) j = Some ms \/ nacc st < upd ms) /\
  (exists ext, acc st' = acc st ++ ext).

Lemma threadok_grows st st' j :
  1 <= length (acc st) ->
  grows st st' -> threads st' j = threads st j -> is_w (tpc (threads st j)) = false ->
  ThreadOK st j -> ThreadOK st' j.
Proof.
  intros HA (GL & GO & GT & GV & (ext & GA)) ET NW (VV & H).
  assert (NN : nacc st <= nacc st') by (unfold nacc; rewrite GA, app_length; lia).
  assert (ACC : forall s tv, nth_error (acc st) s = Some tv -> nth_error (acc st') s = Some tv).
  { intros s tv E. rewrite GA, nth_error_app1; auto. apply nth_error_Some. congruence. }
  assert (CT : forall p i k, k <= nacc st -> covers (smem st) (T p) i k -> covers (smem st') (T p) i k).
  { intros p i k Hk C jj ms Hj E. apply GT in E as [E|E]; [eapply C; eauto|lia]. }
  assert (CV : forall p i k, k <= nacc st -> covers (smem st) (V p) i k -> covers (smem st') (V p) i k).
  { intros p i k Hk C jj ms Hj E. apply GV in E as [E|E]; [eapply C; eauto|lia]. }
  assert (GG : forall vw s k P, good st vw s k P -> good st' vw s k P).
  { intros vw s k P [(A & tv & B & C)|B]; [left; split; auto; exists tv; split; auto|right; auto]. }
  unfold ThreadOK in *. rewrite ET. split.
  - intros y. specialize (VV y). specialize (GL y). lia.
  - destruct (tpc (threads st j)); try discriminate; auto.
    + destruct H as (A & B & C & D). repeat split; auto; try lia.
    + destruct H as (A & B & C & D). repeat split; auto; try lia.
    + destruct H as (A & B & C & D). repeat split; auto; try lia.
Qed.
(* ===== writer steps that only change the writer's local state ===== *)
Lemma writer_local_steps st tid a st' :
  Inv st -> step O st tid a = Some st' ->
  match tpc (threads st tid), a with
  | W1 _ _, ALoad _ | W2 _ _ _, ALoad _ | W3 _ _ _, ALoad _ => True
  | W4 ut _ _ tc, AStep => (ut <? tc)%N = true
  | Idle, ATryStart _ _ => lock_held st <> None
  | _, _ => False
  end -> Inv st'.
Proof.
  intros I H Hc. pose proof (i_mem st I) as M. pose proof (i_thr st I tid) as (VV & TO).
  unfold step in H.
  destruct (tpc (threads st tid)) eqn:Epc; destruct a; try (exfalso; exact Hc).
  - (* Idle, try_update on a held lock: returns false without waiting *)
    destruct (lock_held st) as [h|] eqn:Eh; [|congruence].
    inversion H; subst st'; clear H. rewrite <- Eh.
    apply inv_thread_update; [exact I|rewrite Epc; exact Logic.I| |].
    + rewrite threadok_set. cbn [tview tpc]. auto.
    + intros Hh. rewrite Eh in Hh. inversion Hh; subst h. pose proof (i_lock_held st I _ Eh) as W. rewrite Epc in W. discriminate.
  - (* W1: load Seq *)
    destruct TO as (Hl & C).
    destruct (load (smem st) (tview (threads st tid)) Seq (o_w_seq O) i) as [[[c vw'] ms]|] eqn:L; [|discriminate].
    inversion H; subst st'; clear H.
    destruct (load_complete _ _ _ _ _ _ _ _ (m_valid st M) C (m_ne st M) L) as (Ei & C').
    apply load_spec in L as (_ & E & -> & _).
    destruct (m_seq st M _ _ E) as (Hv & _).
    apply inv_thread_update; [exact I|rewrite Epc; exact Logic.I| |reflexivity].
    rewrite threadok_set. cbn [tview tpc]. split; [intros y; rewrite C'; unfold lastidx; pose proof (m_ne st M y); lia|].
    repeat split; auto. rewrite Hv, Nat2N.id, Ei. unfold lastidx, nacc. now rewrite (m_seqlen st M).
  - (* W2: load V (value unused) *)
    destruct TO as (Hl & C & Ec).
    destruct (load (smem st) (tview (threads st tid)) (V (par cur)) (o_w_v O) i) as [[[c vw'] ms]|] eqn:L; [|discriminate].
    inversion H; subst st'; clear H.
    destruct (load_complete _ _ _ _ _ _ _ _ (m_valid st M) C (m_ne st M) L) as (Ei & C').
    apply inv_thread_update; [exact I|rewrite Epc; exact Logic.I| |reflexivity].
    rewrite threadok_set. cbn [tview tpc]. split; [intros y; rewrite C'; unfold lastidx; pose proof (m_ne st M y); lia|].
    repeat split; auto.
  - (* W3: load T: the current base time *)
    destruct TO as (Hl & C & Ec).
    destruct (load (smem st) (tview (threads st tid)) (T (par cur)) (o_w_t O) i) as [[[c vw'] ms]|] eqn:L; [|discriminate].
    inversion H; subst st'; clear H.
    destruct (load_complete _ _ _ _ _ _ _ _ (m_valid st M) C (m_ne st M) L) as (Ei & C').
    apply load_spec in L as (_ & E & -> & _). subst cur i.
    pose proof (m_lastT st M _ E) as Hu.
    destruct (m_T st M _ _ _ E) as (Hval & _). destruct (Hval ltac:(lia)) as (tv & A & B). rewrite Hu in A.
    apply inv_thread_update; [exact I|rewrite Epc; exact Logic.I| |reflexivity].
    rewrite threadok_set. cbn [tview tpc]. split; [intros y; rewrite C'; unfold lastidx; pose proof (m_ne st M y); lia|].
    repeat split; auto. eauto.
  - (* W4: stale update is ignored *)
    destruct TO as (Hl & C & Ec & _). rewrite Hc in H.
    inversion H; subst st'; clear H.
    apply inv_thread_update; [exact I|rewrite Epc; exact Logic.I| |reflexivity].
    rewrite threadok_set. cbn [tview tpc]. split; auto.
Qed.
(* ===== lock acquisition and release ===== *)
Lemma grows_refl st st' : smem st' = smem st -> acc st' = acc st -> grows st st'.
Proof.
  intros Em Ea. unfold grows. rewrite Em, Ea. repeat split; auto.
  exists []. now rewrite app_nil_r.
Qed.

Lemma vjoin_complete_l m a b : (forall y, 1 <= length (m y)) -> complete m a -> vvalid m b -> complete m (vjoin a b).
Proof. intros NE C V y. unfold vjoin. rewrite C. specialize (V y). unfold lastidx. specialize (NE y). lia. Qed.
Lemma vjoin_complete_r m a b : (forall y, 1 <= length (m y)) -> vvalid m a -> complete m b -> complete m (vjoin a b).
Proof. intros NE V C y. unfold vjoin. rewrite C. specialize (V y). unfold lastidx. specialize (NE y). lia. Qed.
Lemma vjoin_valid m a b : vvalid m a -> vvalid m b -> vvalid m (vjoin a b).
Proof. intros A B y. unfold vjoin. specialize (A y). specialize (B y). lia. Qed.
Lemma complete_valid m a : (forall y, 1 <= length (m y)) -> complete m a -> vvalid m a.
Proof. intros NE C y. rewrite C. unfold lastidx. specialize (NE y). lia. Qed.

(* memory and acc unchanged, nothing pending before or after: MemInv carries over *)
Lemma meminv_nopending st st' :
  smem st' = smem st -> acc st' = acc st ->
  (forall ut, ~ pending_T st ut) -> (forall uv, ~ pending_V st uv) ->
  MemInv st -> MemInv st'.
Proof.
  intros Em Ea NT NV M. pose proof M as M0. destruct M.
  assert (En : nacc st' = nacc st) by (unfold nacc; now rewrite Ea).
  constructor; rewrite ?Em, ?Ea, ?En; auto.
  - intros p j ms H. destruct (m_T0 p j ms H) as (A & B & C & D & E).
    split; [exact A|]. split; [exact B|]. split; [exact C|]. split; [exact D|].
    intros Hu. pose proof (no_pending_T st p j ms M0 NT H). lia.
  - intros p j ms H. destruct (m_V0 p j ms H) as (A & B & C & D & E).
    split; [exact A|]. split; [exact B|]. split; [exact C|]. split; [exact D|].
    intros Hu. pose proof (no_pending_V st p j ms M0 NV H). lia.
Qed.

Lemma lock_acquire_step st tid ut uv :
  Inv st -> tpc (threads st tid) = Idle -> lock_held st = None ->
  Inv {| smem := smem st; lock_held := Some tid; lock_view := lock_view st;
         threads := upd_thread st tid {| tview := vjoin (tview (threads st tid)) (lock_view st); tpc := W1 ut uv |};
         acc := acc st |}.
Proof.
  intros I Epc Hf. pose proof (i_mem st I) as M. pose proof (i_thr st I tid) as (VV & _).
  assert (NT : forall ut, ~ pending_T st ut) by (intros ? (h & ? & Hh & _); congruence).
  assert (NV : forall uv, ~ pending_V st uv) by (intros ? (h & ? & Hh & _); congruence).
  constructor; cbn [smem lock_held lock_view threads acc].
  - apply (meminv_nopending st); auto.
  - intros j. destruct (Nat.eq_dec j tid) as [->|Hne].
    + unfold ThreadOK. cbn. rewrite upd_thread_same. cbn. split.
      * apply vjoin_valid; auto. apply (i_lock_valid st I).
      * split; auto. apply vjoin_complete_r; auto; [apply (m_ne st M)|apply (i_lock_free st I Hf)].
    + apply (threadok_grows st); [apply (m_acc st M)|apply grows_refl; reflexivity|cbn; now rewrite upd_thread_other| |apply (i_thr st I)].
      destruct (is_w (tpc (threads st j))) eqn:W; auto. pose proof (only_holder_is_w st j I W). congruence.
  - apply (i_lock_valid st I).
  - discriminate.
  - intros h Hh. inversion Hh; subst h. rewrite upd_thread_same. reflexivity.
Qed.

Lemma unlock_step st tid b :
  Inv st -> tpc (threads st tid) = W7 b ->
  Inv {| smem := smem st; lock_held := None; lock_view := vjoin (lock_view st) (tview (threads st tid));
         threads := upd_thread st tid {| tview := tview (threads st tid); tpc := WDone b |};
         acc := acc st |}.
Proof.
  intros I Epc. pose proof (i_mem st I) as M. pose proof (i_thr st I tid) as (VV & TO). rewrite Epc in TO. destruct TO as (Hl & C).
  assert (NT : forall ut, ~ pending_T st ut).
  { intros ? (h & ? & Hh & [Hp|Hp]); rewrite Hl in Hh; inversion Hh; subst h; rewrite Epc in Hp; discriminate. }
  assert (NV : forall uv, ~ pending_V st uv).
  { intros ? (h & ? & Hh & Hp); rewrite Hl in Hh; inversion Hh; subst h; rewrite Epc in Hp; discriminate. }
  constructor; cbn [smem lock_held lock_view threads acc].
  - apply (meminv_nopending st); auto.
  - intros j. destruct (Nat.eq_dec j tid) as [->|Hne].
    + unfold ThreadOK. cbn. rewrite upd_thread_same. cbn. auto.
    + apply (threadok_grows st); [apply (m_acc st M)|apply grows_refl; reflexivity|cbn; now rewrite upd_thread_other| |apply (i_thr st I)].
      destruct (is_w (tpc (threads st j))) eqn:W; auto. pose proof (only_holder_is_w st j I W). congruence.
  - apply vjoin_valid; auto. apply (i_lock_valid st I).
  - intros _. apply vjoin_complete_r; auto; [apply (m_ne st M)|apply (i_lock_valid st I)].
  - discriminate.
Qed.
(* ===== the three stores of an accepted update ===== *)
Lemma others_not_w st tid j : Inv st -> lock_held st = Some tid -> j <> tid -> is_w (tpc (threads st j)) = false.
Proof.
  intros I Hl Hne. destruct (is_w (tpc (threads st j))) eqn:W; auto.
  pose proof (only_holder_is_w st j I W). congruence.
Qed.

Lemma holder_pending_T st tid ut0 :
  lock_held st = Some tid -> pending_T st ut0 ->
  exists uv, tpc (threads st tid) = W5 ut0 uv (S (nacc st)) \/ tpc (threads st tid) = W6 ut0 uv (S (nacc st)).
Proof. intros Hl (h & uv & Hh & Hp). rewrite Hl in Hh. inversion Hh; subst h. eauto. Qed.
Lemma holder_pending_V st tid uv0 :
  lock_held st = Some tid -> pending_V st uv0 -> exists ut, tpc (threads st tid) = W6 ut uv0 (S (nacc st)).
Proof. intros Hl (h & ut & Hh & Hp). rewrite Hl in Hh. inversion Hh; subst h. eauto. Qed.

Lemma nacc_mk m lh lv th a :
  nacc {| smem := m; lock_held := lh; lock_view := lv; threads := th; acc := a |} = length a - 1.
Proof. reflexivity. Qed.

Lemma store_T_step st tid ut uv cur tc :
  Inv st -> tpc (threads st tid) = W4 ut uv cur tc ->
  let vw := tview (threads st tid) in
  let n := S cur in
  let x := T (par n) in
  let vw' := vset vw x (length (smem st x)) in
  let ms' := {| val := ut; mview := vw'; mrel := is_rel (o_s_t O); upd := n |} in
  Inv {| smem := mem_app (smem st) x ms'; lock_held := lock_held st; lock_view := lock_view st;
         threads := upd_thread st tid {| tview := vw'; tpc := W5 ut uv n |}; acc := acc st |}.
Proof.
  intros I Epc vw n x vw' ms'. pose proof (i_mem st I) as M. pose proof (i_thr st I tid) as (VV & TO).
  rewrite Epc in TO. destruct TO as (Hl & C & Ec & _). subst cur.
  assert (NE' : forall y, 1 <= length (mem_app (smem st) x ms' y)).
  { intros y. pose proof (mem_app_len (smem st) x ms' y). pose proof (m_ne st M y). lia. }
  assert (C' : complete (mem_app (smem st) x ms') vw') by (apply complete_app; exact C).
  assert (NPT : forall u, ~ pending_T st u).
  { intros u P. destruct (holder_pending_T st tid u Hl P) as (? & [E|E]); rewrite Epc in E; discriminate. }
  assert (NPV : forall u, ~ pending_V st u).
  { intros u P. destruct (holder_pending_V st tid u Hl P) as (? & E); rewrite Epc in E; discriminate. }
  assert (Hseq : vw Seq = nacc st).
  { rewrite C. unfold lastidx, nacc. now rewrite (m_seqlen st M). }
  constructor; cbn [smem lock_held lock_view threads acc].
  - (* MemInv *)
    constructor; cbn [smem lock_held lock_view threads acc]; fold (nacc st) in *.
    + apply (m_acc st M).
    + exact NE'.
    + apply msgs_valid_app; [apply (m_valid st M)|]. cbn [mview]. apply complete_valid; auto.
    + rewrite mem_app_other by discriminate. apply (m_seqlen st M).
    + intros k ms E. rewrite mem_app_other in E by discriminate.
      destruct (m_seq st M _ _ E) as (A & B & CT & CV).
      assert (k <= nacc st).
      { assert (k < length (smem st Seq)) by (apply nth_error_Some; congruence). rewrite (m_seqlen st M) in H. unfold nacc. lia. }
      repeat split; auto; apply covers_app; auto; intros _; unfold ms', n; cbn [upd]; lia.
    + intros p j ms E. rewrite ?nacc_mk. fold (nacc st).
      apply mem_app_nth in E as [E|(Ep & Ej & ->)].
      * destruct (m_T st M _ _ _ E) as (A & B & Cc & D & _).
        split; [exact A|]. split; [exact B|]. split; [exact Cc|]. split; [exact D|].
        intros Hu. pose proof (no_pending_T st p j ms M NPT E). lia.
      * inversion Ep; subst p. unfold ms'. cbn [upd val mrel mview].
        split; [intros; unfold n in *; lia|]. split; [right; reflexivity|].
        split; [intros _; split; [exact H_st_rel|]|].
        { unfold vw'. rewrite vset_other by discriminate. rewrite Hseq. unfold n. lia. }
        split; [unfold n; lia|]. intros _.
        exists tid, uv. cbn. split; auto. left. rewrite upd_thread_same. reflexivity.
    + intros p j ms E. rewrite ?nacc_mk. fold (nacc st).
      rewrite mem_app_other in E by discriminate.
      destruct (m_V st M _ _ _ E) as (A & B & Cc & D & _).
      split; [exact A|]. split; [exact B|]. split; [exact Cc|]. split; [exact D|].
      intros Hu. pose proof (no_pending_V st p j ms M NPV E). lia.
    + rewrite ?nacc_mk. fold (nacc st). intros ms.
      assert (T (par (nacc st)) <> x) by (unfold x, n; intros Q; inversion Q as [Q']; symmetry in Q'; revert Q'; apply par_succ).
      rewrite lastidx_app_other, mem_app_other by auto. apply (m_lastT st M).
    + rewrite ?nacc_mk. fold (nacc st). intros ms.
      rewrite lastidx_app_other, mem_app_other by discriminate. apply (m_lastV st M).
  - (* threads *)
    intros j. destruct (Nat.eq_dec j tid) as [->|Hne].
    + unfold ThreadOK. cbn. rewrite upd_thread_same. cbn [tview tpc].
      split; [apply complete_valid; auto|]. split; auto. split; auto. split; [reflexivity|].
      intros ms E. cbn [smem] in E. fold x in E. rewrite nth_last_app in E. inversion E. reflexivity.
    + apply (threadok_grows st); [apply (m_acc st M)| |cbn; now rewrite upd_thread_other|eapply others_not_w; eauto|apply (i_thr st I)].
      unfold grows. cbn [smem acc]. split; [intros y; apply mem_app_len|].
      split; [intros y jj ms E; now apply mem_app_nth_old|].
      split.
      { intros p jj ms E. apply mem_app_nth in E as [E|(_ & _ & ->)]; [left; exact E|right; unfold ms', n; cbn; lia]. }
      split; [intros p jj ms E; rewrite mem_app_other in E by discriminate; left; exact E|].
      exists []. now rewrite app_nil_r.
  - apply vvalid_app. apply (i_lock_valid st I).
  - intros Hf. congruence.
  - intros h Hh. rewrite Hl in Hh. inversion Hh; subst h. rewrite upd_thread_same. reflexivity.
Qed.
Lemma store_V_step st tid ut uv n :
  Inv st -> tpc (threads st tid) = W5 ut uv n ->
  let vw := tview (threads st tid) in
  let x := V (par n) in
  let vw' := vset vw x (length (smem st x)) in
  let ms' := {| val := uv; mview := vw'; mrel := is_rel (o_s_v O); upd := n |} in
  Inv {| smem := mem_app (smem st) x ms'; lock_held := lock_held st; lock_view := lock_view st;
         threads := upd_thread st tid {| tview := vw'; tpc := W6 ut uv n |}; acc := acc st |}.
Proof.
  intros I Epc vw x vw' ms'. pose proof (i_mem st I) as M. pose proof (i_thr st I tid) as (VV & TO).
  rewrite Epc in TO. destruct TO as (Hl & C & En & LT).
  assert (NE' : forall y, 1 <= length (mem_app (smem st) x ms' y)).
  { intros y. pose proof (mem_app_len (smem st) x ms' y). pose proof (m_ne st M y). lia. }
  assert (C' : complete (mem_app (smem st) x ms') vw') by (apply complete_app; exact C).
  assert (NPV : forall u, ~ pending_V st u).
  { intros u P. destruct (holder_pending_V st tid u Hl P) as (? & E); rewrite Epc in E; discriminate. }
  assert (Hseq : vw Seq = nacc st).
  { rewrite C. unfold lastidx, nacc. now rewrite (m_seqlen st M). }
  constructor; cbn [smem lock_held lock_view threads acc].
  - constructor; cbn [smem lock_held lock_view threads acc]; fold (nacc st) in *.
    + apply (m_acc st M).
    + exact NE'.
    + apply msgs_valid_app; [apply (m_valid st M)|]. cbn [mview]. apply complete_valid; auto.
    + rewrite mem_app_other by discriminate. apply (m_seqlen st M).
    + intros k ms E. rewrite mem_app_other in E by discriminate.
      destruct (m_seq st M _ _ E) as (A & B & CT & CV).
      assert (k <= nacc st).
      { assert (k < length (smem st Seq)) by (apply nth_error_Some; congruence). rewrite (m_seqlen st M) in H. unfold nacc. lia. }
      repeat split; auto; apply covers_app; auto; intros _; unfold ms'; cbn [upd]; lia.
    + intros p j ms E. rewrite ?nacc_mk. fold (nacc st).
      rewrite mem_app_other in E by discriminate.
      destruct (m_T st M _ _ _ E) as (A & B & Cc & D & P).
      split; [exact A|]. split; [exact B|]. split; [exact Cc|]. split; [exact D|].
      intros Hu. destruct (holder_pending_T st tid _ Hl (P Hu)) as (uv0 & [Q|Q]); rewrite Epc in Q; inversion Q; subst.
      exists tid. eexists. cbn. split; [exact Hl|]. right. rewrite upd_thread_same. reflexivity.
    + intros p j ms E. rewrite ?nacc_mk. fold (nacc st).
      apply mem_app_nth in E as [E|(Ep & Ej & ->)].
      * destruct (m_V st M _ _ _ E) as (A & B & Cc & D & _).
        split; [exact A|]. split; [exact B|]. split; [exact Cc|]. split; [exact D|].
        intros Hu. pose proof (no_pending_V st p j ms M NPV E). lia.
      * inversion Ep; subst p. unfold ms'. cbn [upd val mrel mview].
        split; [intros; lia|]. split; [right; reflexivity|].
        split; [intros _; split; [exact H_sv_rel|]|].
        { unfold vw'. rewrite vset_other by discriminate. rewrite Hseq. lia. }
        split; [lia|]. intros _.
        exists tid, ut. cbn. split; auto. rewrite upd_thread_same. cbn [tpc]. rewrite En. reflexivity.
    + rewrite ?nacc_mk. fold (nacc st). intros ms.
      rewrite lastidx_app_other, mem_app_other by discriminate. apply (m_lastT st M).
    + rewrite ?nacc_mk. fold (nacc st). intros ms.
      assert (V (par (nacc st)) <> x) by (unfold x; rewrite En; intros Q; inversion Q as [Q']; symmetry in Q'; revert Q'; apply par_succ).
      rewrite lastidx_app_other, mem_app_other by auto. apply (m_lastV st M).
  - intros j. destruct (Nat.eq_dec j tid) as [->|Hne].
    + unfold ThreadOK. cbn. rewrite upd_thread_same. cbn [tview tpc].
      split; [apply complete_valid; auto|]. split; auto. split; auto. split; [exact En|]. split.
      * intros ms E. cbn [smem] in E. rewrite lastidx_app_other, mem_app_other in E by discriminate. apply LT; exact E.
      * intros ms E. cbn [smem] in E. fold x in E. rewrite nth_last_app in E. inversion E. reflexivity.
    + apply (threadok_grows st); [apply (m_acc st M)| |cbn; now rewrite upd_thread_other|eapply others_not_w; eauto|apply (i_thr st I)].
      unfold grows. cbn [smem acc]. split; [intros y; apply mem_app_len|].
      split; [intros y jj ms E; now apply mem_app_nth_old|].
      split; [intros p jj ms E; rewrite mem_app_other in E by discriminate; left; exact E|].
      split.
      { intros p jj ms E. apply mem_app_nth in E as [E|(_ & _ & ->)]; [left; exact E|right; unfold ms'; cbn; lia]. }
      exists []. now rewrite app_nil_r.
  - apply vvalid_app. apply (i_lock_valid st I).
  - intros Hf. congruence.
  - intros h Hh. rewrite Hl in Hh. inversion Hh; subst h. rewrite upd_thread_same. reflexivity.
Qed.
(* publication: the Seq store commits the update *)
Lemma store_Seq_step st tid ut uv n :
  Inv st -> tpc (threads st tid) = W6 ut uv n ->
  let vw := tview (threads st tid) in
  let vw' := vset vw Seq (length (smem st Seq)) in
  let ms' := {| val := N.of_nat n; mview := vw'; mrel := is_rel (o_s_seq O); upd := n |} in
  Inv {| smem := mem_app (smem st) Seq ms'; lock_held := lock_held st; lock_view := lock_view st;
         threads := upd_thread st tid {| tview := vw'; tpc := W7 true |}; acc := acc st ++ [(ut, uv)] |}.
Proof.
  intros I Epc vw vw' ms'. pose proof (i_mem st I) as M. pose proof (i_thr st I tid) as (VV & TO).
  rewrite Epc in TO. destruct TO as (Hl & C & En & LT & LV).
  assert (NE' : forall y, 1 <= length (mem_app (smem st) Seq ms' y)).
  { intros y. pose proof (mem_app_len (smem st) Seq ms' y). pose proof (m_ne st M y). lia. }
  assert (C' : complete (mem_app (smem st) Seq ms') vw') by (apply complete_app; exact C).
  assert (HA : 1 <= length (acc st)) by apply (m_acc st M).
  assert (Hlen : length (smem st Seq) = n).
  { rewrite (m_seqlen st M), En. unfold nacc. lia. }
  assert (Nn : length (acc st ++ [(ut, uv)]) - 1 = n).
  { rewrite app_length. cbn. rewrite En. unfold nacc. lia. }
  assert (PT : forall p j ms, nth_error (smem st (T p)) j = Some ms -> upd ms = n -> val ms = ut).
  { intros p j ms E Hu. destruct (m_T st M _ _ _ E) as (_ & _ & _ & _ & P).
    rewrite En in Hu. destruct (holder_pending_T st tid _ Hl (P Hu)) as (uv0 & [Q|Q]); rewrite Epc in Q; inversion Q; auto. }
  assert (PV : forall p j ms, nth_error (smem st (V p)) j = Some ms -> upd ms = n -> val ms = uv).
  { intros p j ms E Hu. destruct (m_V st M _ _ _ E) as (_ & _ & _ & _ & P).
    rewrite En in Hu. destruct (holder_pending_V st tid _ Hl (P Hu)) as (ut0 & Q); rewrite Epc in Q; inversion Q; auto. }
  assert (ACCn : nth_error (acc st ++ [(ut, uv)]) n = Some (ut, uv)).
  { rewrite nth_error_app2 by (rewrite En; unfold nacc; lia). replace (n - length (acc st)) with 0 by (rewrite En; unfold nacc; lia). reflexivity. }
  assert (ACCo : forall k tv, nth_error (acc st) k = Some tv -> nth_error (acc st ++ [(ut, uv)]) k = Some tv).
  { intros k tv E. rewrite nth_error_app1; auto. apply nth_error_Some. congruence. }
  constructor; cbn [smem lock_held lock_view threads acc].
  - constructor; cbn [smem lock_held lock_view threads acc]; rewrite ?nacc_mk, ?Nn.
    + rewrite app_length. cbn. lia.
    + exact NE'.
    + apply msgs_valid_app; [apply (m_valid st M)|]. cbn [mview]. apply complete_valid; auto.
    + rewrite mem_app_same, !app_length. cbn. now rewrite (m_seqlen st M).
    + intros k ms E. apply mem_app_nth in E as [E|(_ & Ek & ->)].
      * destruct (m_seq st M _ _ E) as (A & B & CT & CV).
        repeat split; auto.
      * rewrite Hlen in Ek. subst k. unfold ms'. cbn [val mrel mview].
        split; [reflexivity|]. split; [intros _; exact H_sseq_rel|].
        split; intros j ms0 Hj E0; rewrite mem_app_other in E0 by discriminate;
          unfold vw' in Hj; rewrite vset_other in Hj by discriminate; rewrite C in Hj.
        -- assert (j < length (smem st (T (par n)))) by (apply nth_error_Some; congruence).
           assert (j = lastidx (smem st) (T (par n))) by (unfold lastidx in *; lia). subst j.
           rewrite (LT _ E0). lia.
        -- assert (j < length (smem st (V (par n)))) by (apply nth_error_Some; congruence).
           assert (j = lastidx (smem st) (V (par n))) by (unfold lastidx in *; lia). subst j.
           rewrite (LV _ E0). lia.
    + intros p j ms E. rewrite mem_app_other in E by discriminate.
      destruct (m_T st M _ _ _ E) as (A & B & Cc & D & _).
      split.
      { intros Hu. destruct (Nat.eq_dec (upd ms) n) as [Eq|Ne].
        - exists (ut, uv). rewrite Eq. split; [exact ACCn|]. cbn. eapply PT; eauto.
        - destruct (A ltac:(rewrite En in *; lia)) as (tv & A1 & A2). exists tv. split; auto. }
      split; [exact B|]. split; [exact Cc|]. split; [rewrite <- En in D; lia|].
      intros Hu. rewrite <- En in D. lia.
    + intros p j ms E. rewrite mem_app_other in E by discriminate.
      destruct (m_V st M _ _ _ E) as (A & B & Cc & D & _).
      split.
      { intros Hu. destruct (Nat.eq_dec (upd ms) n) as [Eq|Ne].
        - exists (ut, uv). rewrite Eq. split; [exact ACCn|]. cbn. eapply PV; eauto.
        - destruct (A ltac:(rewrite En in *; lia)) as (tv & A1 & A2). exists tv. split; auto. }
      split; [exact B|]. split; [exact Cc|]. split; [rewrite <- En in D; lia|].
      intros Hu. rewrite <- En in D. lia.
    + intros ms E. rewrite lastidx_app_other, mem_app_other in E by discriminate. apply LT; exact E.
    + intros ms E. rewrite lastidx_app_other, mem_app_other in E by discriminate. apply LV; exact E.
  - intros j. destruct (Nat.eq_dec j tid) as [->|Hne].
    + unfold ThreadOK. cbn. rewrite upd_thread_same. cbn [tview tpc].
      split; [apply complete_valid; auto|]. split; auto.
    + apply (threadok_grows st); [exact HA| |cbn; now rewrite upd_thread_other|eapply others_not_w; eauto|apply (i_thr st I)].
      unfold grows. cbn [smem acc]. split; [intros y; apply mem_app_len|].
      split; [intros y jj ms E; now apply mem_app_nth_old|].
      split; [intros p jj ms E; rewrite mem_app_other in E by discriminate; left; exact E|].
      split; [intros p jj ms E; rewrite mem_app_other in E by discriminate; left; exact E|].
      eexists; reflexivity.
  - apply vvalid_app. apply (i_lock_valid st I).
  - intros Hf. congruence.
  - intros h Hh. rewrite Hl in Hh. inversion Hh; subst h. rewrite upd_thread_same. reflexivity.
Qed.

(* ===== every step preserves the invariant ===== *)
Theorem step_inv st tid a st' : Inv st -> step O st tid a = Some st' -> Inv st'.
Proof.
  intros I H.
  destruct (tpc (threads st tid)) eqn:Epc.
  - (* Idle *)
    destruct a; try (unfold step in H; rewrite Epc in H; discriminate).
    + eapply reader_steps; eauto; [rewrite Epc; reflexivity|discriminate|discriminate].
    + unfold step in H. rewrite Epc in H. destruct (lock_held st) eqn:Hf; [discriminate|].
      inversion H; subst st'. apply lock_acquire_step; auto.
    + destruct (lock_held st) eqn:Hf.
      * eapply writer_local_steps; eauto. rewrite Epc. congruence.
      * unfold step in H. rewrite Epc, Hf in H. inversion H; subst st'. apply lock_acquire_step; auto.
  - eapply reader_steps; eauto; [rewrite Epc; reflexivity|intros ? ? ->; unfold step in H; rewrite Epc in H; discriminate|intros ? ? ->; unfold step in H; rewrite Epc in H; discriminate].
  - eapply reader_steps; eauto; [rewrite Epc; reflexivity|intros ? ? ->; unfold step in H; rewrite Epc in H; discriminate|intros ? ? ->; unfold step in H; rewrite Epc in H; discriminate].
  - eapply reader_steps; eauto; [rewrite Epc; reflexivity|intros ? ? ->; unfold step in H; rewrite Epc in H; discriminate|intros ? ? ->; unfold step in H; rewrite Epc in H; discriminate].
  - eapply reader_steps; eauto; [rewrite Epc; reflexivity|intros ? ? ->; unfold step in H; rewrite Epc in H; discriminate|intros ? ? ->; unfold step in H; rewrite Epc in H; discriminate].
  - destruct a; try (unfold step in H; rewrite Epc in H; discriminate). eapply writer_local_steps; eauto. now rewrite Epc.
  - destruct a; try (unfold step in H; rewrite Epc in H; discriminate). eapply writer_local_steps; eauto. now rewrite Epc.
  - destruct a; try (unfold step in H; rewrite Epc in H; discriminate). eapply writer_local_steps; eauto. now rewrite Epc.
  - (* W4 *)
    destruct a; try (unfold step in H; rewrite Epc in H; discriminate).
    destruct (ut <? tc)%N eqn:Lt.
    + eapply writer_local_steps; eauto. now rewrite Epc.
    + unfold step in H. rewrite Epc, Lt in H. rewrite store_eq in H. inversion H; subst st'.
      apply (store_T_step st tid ut uv cur tc); auto.
  - (* W5 *)
    destruct a; try (unfold step in H; rewrite Epc in H; discriminate).
    unfold step in H. rewrite Epc in H. rewrite store_eq in H. inversion H; subst st'.
    apply (store_V_step st tid ut uv n); auto.
  - (* W6 *)
    destruct a; try (unfold step in H; rewrite Epc in H; discriminate).
    unfold step in H. rewrite Epc in H. rewrite store_eq in H. inversion H; subst st'.
    apply (store_Seq_step st tid ut uv n); auto.
  - (* W7 *)
    destruct a; try (unfold step in H; rewrite Epc in H; discriminate).
    unfold step in H. rewrite Epc in H. inversion H; subst st'. apply unlock_step; auto.
  - eapply reader_steps; eauto; [rewrite Epc; reflexivity|intros ? ? ->; unfold step in H; rewrite Epc in H; discriminate|intros ? ? ->; unfold step in H; rewrite Epc in H; discriminate].
Qed.

(* ===== the theorem: every execution, every schedule, every reads-from choice ===== *)
Theorem run_inv sched : forall st st', Inv st -> run O st sched = Some st' -> Inv st'.
Proof.
  induction sched as [|[tid a] rest IH]; intros st st' I H; cbn in H.
  - inversion H; subst; auto.
  - destruct (step O st tid a) as [st1|] eqn:E; [|discriminate]. eapply IH; [|exact H]. eapply step_inv; eauto.
Qed.

Theorem C13_no_tear t0 v0 sched st :
  run O (init t0 v0) sched = Some st ->
  forall j s t v, tpc (threads st j) = RDone s t v -> nth_error (acc st) s = Some (t, v).
Proof. intros H. apply inv_sound. eapply run_inv; [apply init_inv|exact H]. Qed.
End Inv.

(* the orderings found in the source satisfy the hypotheses *)
Theorem C13_no_tear_code t0 v0 sched st :
  run code_orderings (init t0 v0) sched = Some st ->
  forall j s t v, tpc (threads st j) = RDone s t v -> nth_error (acc st) s = Some (t, v).
Proof. apply C13_no_tear; reflexivity. Qed.
Print Assumptions C13_no_tear_code.
