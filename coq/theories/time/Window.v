(* C14: faithful model of VouchedTime::check / check_vouched_time (vouched_time/src/lib.rs) and its
   specification.  The two window constants are the values translated from the source (WPGen.Params). *)
From Coq Require Import ZArith NArith Lia Bool.
From WPGen Require Import Params.
Open Scope Z_scope.

Definition FWD : Z := Z.of_N MAX_FORWARD_DISCREPANCY_MS.
Definition BWD : Z := Z.of_N MAX_BACKWARD_DISCREPANCY_MS.
Definition U64 : Z := 18446744073709551616.   (* 2^64 *)
Lemma U64_pow : U64 = 2 ^ 64. Proof. reflexivity. Qed.

Definition wrap (x : Z) : Z := x mod U64.

(* outcome of check_vouched_time, error kinds by message *)
Inductive wres := WOk | WBeforeEpoch | WOutOfRange | WAhead | WBehind.

(* the pinned (pre-fix) code: local_time_ms.wrapping_sub(base).wrapping_add(BWD) <= BWD + FWD *)
Definition window_pinned (local_ms base : Z) : bool :=
  if local_ms <? 0 then false
  else if U64 - 1 <? local_ms then false
  else wrap (wrap (local_ms - base) + BWD) <=? BWD + FWD.

(* the current code: delta computed in i128, membership in -BWD ..= FWD; branch by branch *)
Definition check_vouched_time (local_ms base : Z) : wres :=
  if local_ms <? 0 then WBeforeEpoch
  else if U64 - 1 <? local_ms then WOutOfRange
  else let delta := local_ms - base in
       if (- BWD <=? delta) && (delta <=? FWD) then WOk
       else if base <? local_ms then WAhead else WBehind.

Definition window_fixed (local_ms base : Z) : bool :=
  match check_vouched_time local_ms base with WOk => true | _ => false end.

Definition window_spec (local_ms base : Z) : Prop := 0 <= local_ms /\ - BWD <= local_ms - base <= FWD.

(* i128 `/` truncates toward zero *)
Definition local_ms_of (nanos : Z) : Z := Z.quot nanos 1000000.

(* result of VouchedTime::check / ::new: 0 ok, 1 bad voucher, 2.. window errors *)
Inductive cres := COk | CBadVoucher | CWindow (w : wres).

Section Check.
Variable vch : Z -> Z -> bool.                 (* raffle's BASE_TIME_CHECK.check, an oracle *)

Definition check (nanos base voucher : Z) : cres :=
  if vch base voucher then
    match check_vouched_time (local_ms_of nanos) base with WOk => COk | w => CWindow w end
  else CBadVoucher.

(* VouchedTime::new = check; construct; check_or_die (panics iff the second check fails) *)
Inductive nres := NOk (local_nanos : Z) | NErr (c : cres) | NPanic.
Definition new (nanos base voucher : Z) : nres :=
  match check nanos base voucher with
  | COk => match check nanos base voucher with COk => NOk nanos | _ => NPanic end
  | c => NErr c
  end.
(* get_local_time re-checks and returns the stored field *)
Definition get_local_time (nanos base voucher : Z) : option Z :=
  match check nanos base voucher with COk => Some nanos | _ => None end.
End Check.
