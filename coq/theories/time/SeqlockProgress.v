From Coq Require Import List NArith Lia Bool Arith.
Import ListNotations.
From WP Require Import time.RA time.SeqlockInv.

(* ===== C18: readers and try_update never wait; C13: base times only move forward ===== *)
Section Progress.
Variable O : orderings.
Hypothesis H_seq1_acq : is_acq (o_r_seq1 O) = true.
Hypothesis H_seq2_acq : is_acq (o_r_seq2 O) = true.
Hypothesis H_v_acq : is_acq (o_r_v O) = true.
Hypothesis H_t_acq : is_acq (o_r_t O) = true.
Hypothesis H_st_rel : is_rel (o_s_t O) = true.
Hypothesis H_sv_rel : is_rel (o_s_v O) = true.
Hypothesis H_sseq_rel : is_rel (o_s_seq O) = true.

Definition is_reader_pc (p : pc) : bool :=
  match p with R1 _ | R2 _ _ _ | R3 _ _ _ _ _ => true | _ => false end.

(* the lock is never read or written by a step of snapshot *)
Lemma reader_step_ignores_lock st tid a st' :
  is_reader_pc (tpc (threads st tid)) = true \/ (tpc (threads st tid) = Idle /\ exists i, a = ASnapStart i) ->
  step O st tid a = Some st' ->
  lock_held st' = lock_held st /\ lock_view st' = lock_view st /\ smem st' = smem st /\ acc st' = acc st.
Proof.
  intros Hp H. unfold step in H.
  destruct Hp as [Hp|(Hp & i & ->)].
  - destruct (tpc (threads st tid)); try discriminate; destruct a; try discriminate;
      repeat match type of H with
             | context [match ?x with _ => _ end] => destruct x as [[[? ?] ?]|]; try discriminate
             | context [if ?b then _ else _] => destruct b
             end; inversion H; subst; cbn; auto.
  - rewrite Hp in H. destruct (load _ _ _ _ _) as [[[? ?] ?]|]; [|discriminate]. inversion H; subst; cbn; auto.
Qed.

(* whatever the other threads are doing -- including a writer stopped forever while holding the lock --
   a snapshot always has an enabled step: it can re-read at its current view *)
Lemma load_at_view_enabled m vw x o : vvalid m vw -> exists r, load m vw x o (vw x) = Some r.
Proof.
  intros V. unfold load. rewrite Nat.leb_refl.
  destruct (nth_error (m x) (vw x)) eqn:E; [eexists; reflexivity|].
  apply nth_error_None in E. specialize (V x). lia.
Qed.

Theorem C18_snapshot_never_blocked st tid :
  Inv st ->
  (tpc (threads st tid) = Idle -> exists i st', step O st tid (ASnapStart i) = Some st') /\
  (is_reader_pc (tpc (threads st tid)) = true -> exists i st', step O st tid (ALoad i) = Some st').
Proof.
  intros I. pose proof (i_thr st I tid) as (VV & _). split; intros Hp.
  - destruct (load_at_view_enabled (smem st) _ Seq (o_r_seq1 O) VV) as ([[s vw'] ms] & L).
    exists (tview (threads st tid) Seq). unfold step. rewrite Hp, L. eexists; reflexivity.
  - destruct (tpc (threads st tid)) eqn:Epc; try discriminate.
    + destruct (load_at_view_enabled (smem st) _ (V (par s)) (o_r_v O) VV) as ([[v vw'] ms] & L).
      exists (tview (threads st tid) (V (par s))). unfold step. rewrite Epc, L. eexists; reflexivity.
    + destruct (load_at_view_enabled (smem st) _ (T (par s)) (o_r_t O) VV) as ([[v' vw'] ms] & L).
      exists (tview (threads st tid) (T (par s))). unfold step. rewrite Epc, L. eexists; reflexivity.
    + destruct (load_at_view_enabled (smem st) _ Seq (o_r_seq2 O) VV) as ([[s2 vw'] ms] & L).
      exists (tview (threads st tid) Seq). unfold step. rewrite Epc, L.
      destruct (Nat.eqb s (N.to_nat s2)); eexists; reflexivity.
Qed.

(* try_update never waits: it is enabled whatever the lock state, and on a held lock it returns false at once *)
Theorem C18_try_update_nonblocking st tid ut uv :
  tpc (threads st tid) = Idle ->
  exists st', step O st tid (ATryStart ut uv) = Some st' /\
    (forall h, lock_held st = Some h -> tpc (threads st' tid) = WDone false /\ smem st' = smem st /\ lock_held st' = lock_held st).
Proof.
  intros Hp. unfold step. rewrite Hp. destruct (lock_held st) as [h|] eqn:E.
  - eexists. split; [reflexivity|]. intros h' _. cbn. unfold upd_thread. rewrite Nat.eqb_refl. cbn. auto.
  - eexists. split; [reflexivity|]. intros h Hh. discriminate.
Qed.

(* a retry consumes a Seq message the reader had not seen: the distance to the end of Seq's history
   strictly decreases at every failed iteration, so with writers frozen the reader terminates *)
Theorem C18_retry_needs_new_write st tid s v kv t kt i st' s' :
  Inv st -> tpc (threads st tid) = R3 s v kv t kt ->
  step O st tid (ALoad i) = Some st' -> tpc (threads st' tid) = R1 s' ->
  s < s' /\ s' < length (smem st Seq).
Proof.
  intros I Epc H Epc'. pose proof (i_mem st I) as M. pose proof (i_thr st I tid) as (VV & TO).
  rewrite Epc in TO. destruct TO as (Hs & Hq & _).
  unfold step in H. rewrite Epc in H.
  destruct (load (smem st) (tview (threads st tid)) Seq (o_r_seq2 O) i) as [[[s2 vw'] ms]|] eqn:L; [|discriminate].
  destruct (seq_load_R1 st _ _ _ _ _ _ M H_seq2_acq L) as (Es & A & _).
  apply load_spec in L as (Le & E & _).
  destruct (Nat.eqb s (N.to_nat s2)) eqn:Eq; inversion H; subst st'; clear H; cbn in Epc';
    unfold upd_thread in Epc'; rewrite Nat.eqb_refl in Epc'; cbn in Epc'; [discriminate|].
  inversion Epc'; subst s'. apply Nat.eqb_neq in Eq. rewrite Es in *.
  split; [lia|]. apply nth_error_Some. congruence.
Qed.
End Progress.
Print Assumptions C18_snapshot_never_blocked.
Print Assumptions C18_retry_needs_new_write.
