From Coq Require Import List NArith Lia Bool Arith.
Import ListNotations.
From WP Require Import time.RA time.SeqlockInv.

(* C13, second half: a thread's successive snapshots never go backwards, and accepted base times are
   non-decreasing, so the base times a thread observes never decrease. *)
Section Mono.
Variable O : orderings.

Definition snap_index (p : pc) : option nat :=
  match p with R1 s | R2 s _ _ | R3 s _ _ _ _ | RDone s _ _ => Some s | _ => None end.

(* for a fixed thread j and bound L: its view of Seq is at least L, and any sequence number it holds is at least L *)
Definition Q (j L : nat) (st : state) : Prop :=
  L <= tview (threads st j) Seq /\ (forall s, snap_index (tpc (threads st j)) = Some s -> L <= s).

Lemma load_seq_index m vw o i v vw' ms : load m vw Seq o i = Some (v, vw', ms) -> vw Seq <= i /\ i <= vw' Seq.
Proof.
  intros H. apply load_spec in H as (L & _ & _ & ->). split; auto.
  destruct (is_acq o && mrel ms); unfold vjoin; rewrite ?vset_same; lia.
Qed.

Lemma upd_same st tid th : upd_thread st tid th tid = th.
Proof. unfold upd_thread. now rewrite Nat.eqb_refl. Qed.
Lemma upd_other st tid th j : j <> tid -> upd_thread st tid th j = threads st j.
Proof. intros H. unfold upd_thread. apply Nat.eqb_neq in H. now rewrite H. Qed.

(* values read from Seq are their own index (memory invariant) *)
Lemma seq_val st i ms : MemInv st -> nth_error (smem st Seq) i = Some ms -> N.to_nat (val ms) = i.
Proof. intros M E. destruct (m_seq st M _ _ E) as (Hv & _). now rewrite Hv, Nat2N.id. Qed.

Lemma step_other_thread st tid a st' j : step O st tid a = Some st' -> j <> tid -> threads st' j = threads st j.
Proof.
  intros H Hne. unfold step in H.
  destruct (tpc (threads st tid)); destruct a; try discriminate; rewrite ?store_eq in H;
    try (destruct (load _ _ _ _ _) as [[[? ?] ?]|]; [|discriminate]);
    try (destruct (lock_held st));
    try (destruct (Nat.eqb _ _));
    try (destruct (N.ltb _ _));
    try discriminate; cbv beta iota in H; inversion H; subst; cbn [threads]; apply upd_other; auto.
Qed.

Theorem Q_step j L st tid a st' : Inv st -> Q j L st -> step O st tid a = Some st' -> Q j L st'.
Proof.
  intros I (Qv & Qs) H. pose proof (i_mem st I) as M.
  destruct (Nat.eq_dec j tid) as [->|Hne].
  2:{ unfold Q. now rewrite (step_other_thread _ _ _ _ _ H Hne). }
  unfold step in H. unfold Q in *.
  destruct (tpc (threads st tid)) eqn:Epc; destruct a; try discriminate.
  - (* snapshot start *)
    destruct (load (smem st) (tview (threads st tid)) Seq (o_r_seq1 O) i) as [[[s vw'] ms]|] eqn:Ld; [|discriminate].
    inversion H; subst st'; clear H. cbn [threads]. rewrite upd_same. cbn [tview tpc snap_index].
    destruct (load_seq_index _ _ _ _ _ _ _ Ld) as (A & B). pose proof Ld as Ld'. apply load_spec in Ld' as (_ & E & -> & _).
    rewrite (seq_val st i ms M E). split; [lia|]. intros s0 Hs. inversion Hs; subst. lia.
  - destruct (lock_held st); [discriminate|]. inversion H; subst; cbn [threads]; rewrite upd_same; cbn [tview tpc snap_index].
    split; [unfold vjoin; lia|intros; discriminate].
  - destruct (lock_held st); inversion H; subst; cbn [threads]; rewrite upd_same; cbn [tview tpc snap_index];
      (split; [try (unfold vjoin); lia|intros; discriminate]).
  - (* R1: load V *)
    destruct (load (smem st) (tview (threads st tid)) (V (par s)) (o_r_v O) i) as [[[v vw'] ms]|] eqn:Ld; [|discriminate].
    inversion H; subst st'; clear H. cbn [threads]. rewrite upd_same. cbn [tview tpc snap_index].
    pose proof (load_mono _ _ _ _ _ _ _ _ Ld Seq). split; [lia|]. intros s0 Hs. inversion Hs; subst. apply Qs. reflexivity.
  - destruct (load (smem st) (tview (threads st tid)) (T (par s)) (o_r_t O) i) as [[[t vw'] ms]|] eqn:Ld; [|discriminate].
    inversion H; subst st'; clear H. cbn [threads]. rewrite upd_same. cbn [tview tpc snap_index].
    pose proof (load_mono _ _ _ _ _ _ _ _ Ld Seq). split; [lia|]. intros s0 Hs. inversion Hs; subst. apply Qs. reflexivity.
  - (* R3: second Seq load *)
    destruct (load (smem st) (tview (threads st tid)) Seq (o_r_seq2 O) i) as [[[s2 vw'] ms]|] eqn:Ld; [|discriminate].
    destruct (load_seq_index _ _ _ _ _ _ _ Ld) as (A & B). pose proof Ld as Ld'. apply load_spec in Ld' as (_ & E & -> & _).
    pose proof (seq_val st i ms M E) as Ev.
    destruct (Nat.eqb s (N.to_nat (val ms))); inversion H; subst st'; clear H; cbn [threads]; rewrite upd_same; cbn [tview tpc snap_index].
    + split; [lia|]. intros s0 Hs. inversion Hs; subst. apply Qs. reflexivity.
    + split; [lia|]. intros s0 Hs. inversion Hs; subst. lia.
  - inversion H; subst; cbn [threads]; rewrite upd_same; cbn [tview tpc snap_index]. split; [auto|intros; discriminate].
  - destruct (load (smem st) (tview (threads st tid)) Seq (o_w_seq O) i) as [[[c vw'] ms]|] eqn:Ld; [|discriminate].
    inversion H; subst st'; clear H. cbn [threads]. rewrite upd_same. cbn [tview tpc snap_index].
    pose proof (load_mono _ _ _ _ _ _ _ _ Ld Seq). split; [lia|intros; discriminate].
  - destruct (load (smem st) (tview (threads st tid)) (V (par cur)) (o_w_v O) i) as [[[c vw'] ms]|] eqn:Ld; [|discriminate].
    inversion H; subst st'; clear H. cbn [threads]. rewrite upd_same. cbn [tview tpc snap_index].
    pose proof (load_mono _ _ _ _ _ _ _ _ Ld Seq). split; [lia|intros; discriminate].
  - destruct (load (smem st) (tview (threads st tid)) (T (par cur)) (o_w_t O) i) as [[[c vw'] ms]|] eqn:Ld; [|discriminate].
    inversion H; subst st'; clear H. cbn [threads]. rewrite upd_same. cbn [tview tpc snap_index].
    pose proof (load_mono _ _ _ _ _ _ _ _ Ld Seq). split; [lia|intros; discriminate].
  - destruct (ut <? tc)%N; [inversion H; subst; cbn [threads]; rewrite upd_same; cbn [tview tpc snap_index]; split; [auto|intros; discriminate]|].
    rewrite store_eq in H. inversion H; subst; cbn [threads]; rewrite upd_same; cbn [tview tpc snap_index].
    split; [rewrite vset_other by discriminate; auto|intros; discriminate].
  - rewrite store_eq in H. inversion H; subst; cbn [threads]; rewrite upd_same; cbn [tview tpc snap_index].
    split; [rewrite vset_other by discriminate; auto|intros; discriminate].
  - rewrite store_eq in H. inversion H; subst; cbn [threads]; rewrite upd_same; cbn [tview tpc snap_index].
    split; [rewrite vset_same|intros; discriminate].
    pose proof (i_thr st I tid) as (VV & _). specialize (VV Seq). lia.
  - inversion H; subst; cbn [threads]; rewrite upd_same; cbn [tview tpc snap_index]. split; [auto|intros; discriminate].
  - inversion H; subst; cbn [threads]; rewrite upd_same; cbn [tview tpc snap_index]. split; [auto|intros; discriminate].
Qed.
Ltac not_rdone H Hpc := inversion H; subst; cbn [threads] in Hpc; rewrite upd_same in Hpc; cbn [tpc] in Hpc; discriminate.

(* a finished snapshot has seen the sequence number it returns *)
Definition Rv (st : state) : Prop := forall j s t v, tpc (threads st j) = RDone s t v -> s <= tview (threads st j) Seq.

Lemma Rv_init t0 v0 : Rv (init t0 v0).
Proof. intros j s t v H. cbn in H. discriminate. Qed.

Theorem Rv_step st tid a st' : Inv st -> Rv st -> step O st tid a = Some st' -> Rv st'.
Proof.
  intros I R H j s t v Hpc. pose proof (i_mem st I) as M.
  destruct (Nat.eq_dec j tid) as [->|Hne].
  2:{ rewrite (step_other_thread _ _ _ _ _ H Hne) in *. eapply R; eauto. }
  unfold step in H.
  destruct (tpc (threads st tid)) eqn:Epc; destruct a; try discriminate.
  - destruct (load _ _ _ _ _) as [[[x vw'] ms]|]; [|discriminate]. not_rdone H Hpc.
  - destruct (lock_held st); [discriminate|]. not_rdone H Hpc.
  - destruct (lock_held st); not_rdone H Hpc.
  - destruct (load _ _ _ _ _) as [[[x vw'] ms]|]; [|discriminate]. not_rdone H Hpc.
  - destruct (load _ _ _ _ _) as [[[x vw'] ms]|]; [|discriminate]. not_rdone H Hpc.
  - (* R3: the only step that can produce RDone *)
    destruct (load (smem st) (tview (threads st tid)) Seq (o_r_seq2 O) i) as [[[x vw'] ms]|] eqn:Ld; [|discriminate].
    destruct (load_seq_index _ _ _ _ _ _ _ Ld) as (A & B). pose proof Ld as Ld'. apply load_spec in Ld' as (_ & E & -> & _).
    pose proof (seq_val st i ms M E) as Ev.
    destruct (Nat.eqb s0 (N.to_nat (val ms))) eqn:Eq; [|not_rdone H Hpc].
    inversion H; subst st'. cbn [threads] in Hpc. rewrite upd_same in Hpc. cbn [tpc] in Hpc. inversion Hpc; subst.
    cbn [threads]. rewrite upd_same. cbn [tview]. apply Nat.eqb_eq in Eq. lia.
  - not_rdone H Hpc.
  - destruct (load _ _ _ _ _) as [[[x vw'] ms]|]; [|discriminate]. not_rdone H Hpc.
  - destruct (load _ _ _ _ _) as [[[x vw'] ms]|]; [|discriminate]. not_rdone H Hpc.
  - destruct (load _ _ _ _ _) as [[[x vw'] ms]|]; [|discriminate]. not_rdone H Hpc.
  - destruct (N.ltb _ _); [not_rdone H Hpc|]. rewrite store_eq in H. not_rdone H Hpc.
  - rewrite store_eq in H. not_rdone H Hpc.
  - rewrite store_eq in H. not_rdone H Hpc.
  - not_rdone H Hpc.
  - not_rdone H Hpc.
Qed.

(* ---- C13_monotone (indices): successive snapshots of one thread return non-decreasing sequence numbers ---- *)
Hypothesis H_seq1_acq : is_acq (o_r_seq1 O) = true.
Hypothesis H_seq2_acq : is_acq (o_r_seq2 O) = true.
Hypothesis H_v_acq : is_acq (o_r_v O) = true.
Hypothesis H_t_acq : is_acq (o_r_t O) = true.
Hypothesis H_st_rel : is_rel (o_s_t O) = true.
Hypothesis H_sv_rel : is_rel (o_s_v O) = true.
Hypothesis H_sseq_rel : is_rel (o_s_seq O) = true.

Lemma run_Q j L : forall sched st st', Inv st -> Q j L st -> run O st sched = Some st' -> Q j L st' /\ Inv st'.
Proof.
  induction sched as [|[tid a] rest IH]; intros st st' I HQ H; cbn [run] in H.
  - inversion H; subst; auto.
  - destruct (step O st tid a) as [st1|] eqn:E; [|discriminate].
    apply (IH st1 st'); auto.
    + eapply (step_inv O); eauto.
    + eapply Q_step; eauto.
Qed.

Theorem C13_monotone_index j sched st st' s1 t1 v1 s2 t2 v2 :
  Inv st -> Rv st -> run O st sched = Some st' ->
  tpc (threads st j) = RDone s1 t1 v1 -> tpc (threads st' j) = RDone s2 t2 v2 -> s1 <= s2.
Proof.
  intros I R H P1 P2.
  assert (HQ : Q j s1 st).
  { split; [eapply R; eauto|]. intros s Hs. rewrite P1 in Hs. inversion Hs; subst. lia. }
  destruct (run_Q j s1 sched st st' I HQ H) as ((_ & Q2) & _).
  apply Q2. rewrite P2. reflexivity.
Qed.

(* recency: whatever a thread has already seen of Seq (because an update happened-before), its next results are at least that *)
Theorem C13_recent j sched st st' k s t v :
  Inv st -> run O st sched = Some st' ->
  tpc (threads st j) = Idle -> k <= tview (threads st j) Seq ->
  tpc (threads st' j) = RDone s t v -> k <= s.
Proof.
  intros I H P1 Hk P2.
  assert (HQ : Q j k st) by (split; [exact Hk|intros s0 Hs; rewrite P1 in Hs; discriminate]).
  destruct (run_Q j k sched st st' I HQ H) as ((_ & Q2) & _).
  apply Q2. rewrite P2. reflexivity.
Qed.
(* ---- accepted base times never decrease ---- *)
Definition sorted_acc (l : list (N * N)) : Prop :=
  forall i a b, nth_error l i = Some a -> nth_error l (S i) = Some b -> (fst a <= fst b)%N.
Definition Pend (st : state) : Prop :=
  forall j ut uv n, tpc (threads st j) = W5 ut uv n \/ tpc (threads st j) = W6 ut uv n ->
    exists tv, nth_error (acc st) (nacc st) = Some tv /\ (fst tv <= ut)%N.
Definition SInv (st : state) : Prop := sorted_acc (acc st) /\ Pend st.

Lemma SInv_init t0 v0 : SInv (init t0 v0).
Proof.
  split.
  - intros i a b Ha Hb. destruct i as [|[|]]; cbn in Hb; discriminate.
  - intros j ut uv n [H|H]; cbn in H; discriminate.
Qed.

Lemma sorted_app l x : sorted_acc l -> (forall tv, nth_error l (length l - 1) = Some tv -> (fst tv <= fst x)%N) -> sorted_acc (l ++ [x]).
Proof.
  intros Hso L i a b Ha Hb.
  destruct (Nat.lt_ge_cases (S i) (length l)).
  - rewrite nth_error_app1 in Ha, Hb by lia. eapply Hso; eauto.
  - assert (S i < length (l ++ [x])) by (apply nth_error_Some; congruence). rewrite app_length in H0. cbn in H0.
    assert (S i = length l) by lia. rewrite nth_error_app1 in Ha by lia.
    rewrite nth_error_app2 in Hb by lia. replace (S i - length l) with 0 in Hb by lia. cbn in Hb. inversion Hb; subst b.
    apply L. replace (length l - 1) with i by lia. exact Ha.
Qed.

Ltac same_acc_other H Hne Hp P j :=
  let E := fresh in
  pose proof (step_other_thread _ _ _ _ j H Hne) as E; rewrite E in Hp; exact (P j _ _ _ Hp).

Theorem SInv_step st tid a st' : Inv st -> SInv st -> step O st tid a = Some st' -> SInv st'.
Proof.
  intros I (So & P) H. pose proof (i_thr st I tid) as (_ & TO).
  unfold step in H.
  destruct (tpc (threads st tid)) eqn:Epc; destruct a; try discriminate.
  (* every case except the three stores leaves acc unchanged and does not create W5/W6 *)
  all: try (destruct (load _ _ _ _ _) as [[[x vw'] ms]|]; [|discriminate]).
  all: try match type of H with context [match lock_held ?s with _ => _ end] => destruct (lock_held s) eqn:Hl; try discriminate end.
  all: try match type of H with context [Nat.eqb ?a ?b] => destruct (Nat.eqb a b) end.
  all: try match type of H with context [N.ltb ?a ?b] => destruct (N.ltb a b) eqn:Elt end.
  all: rewrite ?store_eq in H; cbv beta iota in H; inversion H; subst st'; clear H.
  all: split; cbn [acc]; try exact So.
  all: try (intros j ut0 uv0 n0 Hp; cbn [threads] in Hp; destruct (Nat.eq_dec j tid) as [->|Hne];
            [rewrite upd_same in Hp; cbn [tpc] in Hp; destruct Hp; discriminate
            |rewrite upd_other in Hp by auto; unfold nacc; cbn [acc]; exact (P j _ _ _ Hp)]).
  - (* W4 -> W5: the filter guarantees the new time is not older *)
    intros j ut0 uv0 n0 Hp. cbn [threads] in Hp. unfold nacc. cbn [acc]. destruct (Nat.eq_dec j tid) as [->|Hne].
    + rewrite upd_same in Hp. cbn [tpc] in Hp. destruct Hp as [Hp|Hp]; [|discriminate]. inversion Hp; subst.
      destruct TO as (_ & _ & _ & tv & A & B). exists tv. split; auto. subst tc. apply N.ltb_ge in Elt. exact Elt.
    + rewrite upd_other in Hp by auto. exact (P j _ _ _ Hp).
  - (* W5 -> W6: carried over *)
    intros j ut0 uv0 n0 Hp. cbn [threads] in Hp. unfold nacc. cbn [acc]. destruct (Nat.eq_dec j tid) as [->|Hne].
    + rewrite upd_same in Hp. cbn [tpc] in Hp. destruct Hp as [Hp|Hp]; [discriminate|]. inversion Hp; subst.
      apply (P tid ut0 uv0 n0). left. exact Epc.
    + rewrite upd_other in Hp by auto. exact (P j _ _ _ Hp).
  - (* W6 -> W7: the pair is appended after a pair that is not newer *)
    apply sorted_app; auto. intros tv Htv. destruct (P tid ut uv n (or_intror Epc)) as (tv' & A & B).
    unfold nacc in A. rewrite A in Htv. inversion Htv; subst. exact B.
  - intros j ut0 uv0 n0 Hp. cbn [threads] in Hp. destruct (Nat.eq_dec j tid) as [->|Hne].
    + rewrite upd_same in Hp. cbn [tpc] in Hp. destruct Hp; discriminate.
    + rewrite upd_other in Hp by auto. exfalso.
      destruct TO as (Hlk & _).
      assert (W : is_w (tpc (threads st j)) = true) by (destruct Hp as [Hp|Hp]; rewrite Hp; reflexivity).
      pose proof (only_holder_is_w st j I W). congruence.
Qed.

Lemma run_SInv : forall sched st st', Inv st -> SInv st -> run O st sched = Some st' -> SInv st' /\ Inv st'.
Proof.
  induction sched as [|[tid a] rest IH]; intros st st' I Hs H; cbn [run] in H.
  - inversion H; subst; auto.
  - destruct (step O st tid a) as [st1|] eqn:E; [|discriminate]. apply (IH st1 st'); auto.
    + eapply (step_inv O); eauto.
    + eapply SInv_step; eauto.
Qed.

Lemma sorted_le l : sorted_acc l -> forall i k a b, nth_error l i = Some a -> nth_error l (i + k) = Some b -> (fst a <= fst b)%N.
Proof.
  intros Hso i k. induction k as [|k IH]; intros a b Ha Hb.
  - rewrite Nat.add_0_r in Hb. rewrite Ha in Hb. inversion Hb. lia.
  - assert (exists c, nth_error l (i + k) = Some c) as (c & Hc).
    { destruct (nth_error l (i + k)) eqn:E; eauto. apply nth_error_None in E.
      assert (i + S k < length l) by (apply nth_error_Some; congruence). lia. }
    specialize (IH a c Ha Hc). replace (i + S k) with (S (i + k)) in Hb by lia. pose proof (Hso _ _ _ Hc Hb). lia.
Qed.

(* ---- C13_monotone: base times observed by successive snapshots of one thread never decrease ---- *)
Theorem C13_monotone t0 v0 sched1 sched2 st1 st2 j s1 t1 v1 s2 t2 v2 :
  run O (init t0 v0) sched1 = Some st1 -> run O st1 sched2 = Some st2 ->
  tpc (threads st1 j) = RDone s1 t1 v1 -> tpc (threads st2 j) = RDone s2 t2 v2 -> (t1 <= t2)%N.
Proof.
  intros R1 R2 P1 P2.
  assert (I0 : Inv (init t0 v0)) by apply init_inv.
  destruct (run_SInv sched1 _ _ I0 (SInv_init t0 v0) R1) as (S1 & I1).
  assert (Rv1 : Rv st1).
  { clear - R1 I0 H_seq1_acq H_seq2_acq H_v_acq H_t_acq H_st_rel H_sv_rel H_sseq_rel.
    assert (G : forall sched st st', Inv st -> Rv st -> run O st sched = Some st' -> Rv st').
    { induction sched as [|[tid a] rest IH]; intros st st' I R H; cbn [run] in H; [inversion H; subst; auto|].
      destruct (step O st tid a) as [sx|] eqn:E; [|discriminate]. apply (IH sx st'); auto.
      - eapply (step_inv O); eauto. - eapply Rv_step; eauto. }
    eapply G; eauto. apply Rv_init. }
  destruct (run_SInv sched2 _ _ I1 S1 R2) as ((So2 & _) & I2).
  pose proof (C13_monotone_index j sched2 st1 st2 s1 t1 v1 s2 t2 v2 I1 Rv1 R2 P1 P2) as Hle.
  (* both pairs are entries of the final acc *)
  pose proof (inv_sound st2 I2 j s2 t2 v2 P2) as A2.
  assert (A1 : nth_error (acc st2) s1 = Some (t1, v1)).
  { pose proof (inv_sound st1 I1 j s1 t1 v1 P1) as A1.
    clear - A1 R2. revert st1 A1 R2. induction sched2 as [|[tid a] rest IH]; intros st1 A1 R2; cbn [run] in R2; [inversion R2; subst; auto|].
    destruct (step O st1 tid a) as [sx|] eqn:E; [|discriminate]. apply (IH sx); auto.
    (* acc only grows *)
    unfold step in E. destruct (tpc (threads st1 tid)); destruct a; try discriminate;
      try (destruct (load _ _ _ _ _) as [[[? ?] ?]|]; [|discriminate]);
      try (destruct (lock_held st1));
      try (destruct (Nat.eqb _ _));
      try (destruct (N.ltb _ _));
      try discriminate; rewrite ?store_eq in E; cbv beta iota in E; inversion E; subst; cbn [acc]; auto.
    all: rewrite nth_error_app1; auto; apply nth_error_Some; congruence. }
  replace s2 with (s1 + (s2 - s1)) in A2 by lia.
  pose proof (sorted_le _ So2 s1 (s2 - s1) _ _ A1 A2). exact H.
Qed.
End Mono.
Print Assumptions C13_monotone.
Print Assumptions C13_recent.
