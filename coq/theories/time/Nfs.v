(* Faithful model of vouched_time/src/nfs_voucher.rs as a sequential state machine over
   (trusted devices, base time).  The filesystem is an oracle: every stat the module looks at is a
   (dev, ctime, ctime_nsec) triple or an I/O error supplied by the history; the wall-clock refresh
   policy of the calls without an explicit `now` is an arbitrary boolean supplied by the history;
   with an explicit `now` the decision is the code's.  The process-wide AtomicBaseTime is used by
   one thread here (its concurrent behaviour is C13): update / try_update accept a pair iff it is
   not older than the current base time. *)
From Coq Require Import List NArith ZArith Lia Bool.
From WPGen Require Import Params.
Import ListNotations.
Open Scope N_scope.

Definition U64MAX : N := 18446744073709551615.
Definition sat_mul (a b : N) : N := N.min (a * b) U64MAX.
Definition sat_add (a b : N) : N := N.min (a + b) U64MAX.
Definition as_u64 (z : Z) : N := Z.to_N (z mod 18446744073709551616).
(* (stat.ctime() as u64).saturating_mul(1000).saturating_add((stat.ctime_nsec() as u64) / 1_000_000) *)
Definition millis_of (ctime nsec : Z) : N := sat_add (sat_mul (as_u64 ctime) 1000) (as_u64 nsec / 1000000).

Inductive stat := StatOk (dev : N) (ctime nsec : Z) | StatErr.

Record st := { trusted : list N; base : N }.
Definition init : st := {| trusted := []; base := 0 |}.

Section Nfs.
Variable vouch : N -> N.                 (* raffle VOUCH_PARAMS.vouch *)

(* AtomicBaseTime::update / try_update from a single thread *)
Definition advance (s : st) (t : N) : st := if t <? base s then s else {| trusted := trusted s; base := t |}.

Definition is_trusted (s : st) (dev : N) : bool := existsb (N.eqb dev) (trusted s).
Definition insert_dev (l : list N) (d : N) : list N := if existsb (N.eqb d) l then l else d :: l.

Inductive res := RErr | RNone | RSome (t v : N) | RUnit | RPanic.

(* update_base_time(file, opts) after the optional touch *)
Definition update_base_time (s : st) (f : stat) (extra : option N) : st * res :=
  match f with
  | StatErr => (s, RErr)
  | StatOk dev ctime nsec =>
    if negb (is_trusted s dev) && negb (match extra with Some d => N.eqb d dev | None => false end)
    then (s, RNone)
    else let t := millis_of ctime nsec in (advance s t, RSome t (vouch t))
  end.

(* scan_for_base_time_impl: one stat per trusted path, stops at the first success *)
Fixpoint scan_files (s : st) (files : list stat) : st * res :=
  match files with
  | [] => (s, RErr)
  | f :: r => match update_base_time s f None with
              | (s', RSome a b) => (s', RSome a b)
              | (s', _) => scan_files s' r
              end
  end.
Definition scan_impl (s : st) (files : list stat) : st * res :=
  scan_files s (firstn (length (trusted s)) files).

(* should_refresh_base_time(None, Some(now)) *)
Definition wanted_ms (now_nanos : Z) : N := if (now_nanos <? 0)%Z then 0 else N.min (Z.to_N (now_nanos / 1000000)) U64MAX.
Definition should_refresh (s : st) (leeway : N) (now_nanos : Z) : bool :=
  (leeway <? wanted_ms now_nanos - base s) && negb (match trusted s with [] => true | _ => false end).

Inductive op :=
| AddTrusted (f1 f2 : stat)              (* add_trusted_path: its own stat, then update_base_time's *)
| Observe (f : stat)                     (* observe_file_time *)
| MaybeObserve (refresh : bool) (f : stat)
| Scan (refresh : bool) (files : list stat)
| GetBase (now_nanos : Z) (files : list stat)
| GetUnlocked.

Definition step (s : st) (o : op) : st * res :=
  match o with
  | AddTrusted f1 f2 =>
      match f1 with
      | StatErr => (s, RErr)
      | StatOk dev _ _ =>
        match update_base_time s f2 (Some dev) with
        | (s', RSome _ _) => ({| trusted := insert_dev (trusted s') dev; base := base s' |}, RUnit)
        | (s', RNone) => (s', RPanic)           (* .expect("Path is trusted.") *)
        | r => r
        end
      end
  | Observe f => update_base_time s f None
  | MaybeObserve refresh f => if refresh then (fst (update_base_time s f None), RUnit) else (s, RUnit)
  | Scan refresh files =>
      if refresh then match scan_impl s files with (s', RSome _ _) => (s', RUnit) | r => r end else (s, RUnit)
  | GetBase now files =>
      if should_refresh s DEFAULT_LEEWAY_MS now then scan_impl s files else (s, RSome (base s) (vouch (base s)))
  | GetUnlocked => (s, RSome (base s) (vouch (base s)))
  end.

(* a history stops at a panic *)
Fixpoint run (s : st) (ops : list op) : st * list res :=
  match ops with
  | [] => (s, [])
  | o :: r => let '(s', x) := step s o in
              match x with RPanic => (s', [x]) | _ => let '(s'', xs) := run s' r in (s'', x :: xs) end
  end.
End Nfs.
