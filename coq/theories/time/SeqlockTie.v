(* Ties the seqlock model (RA.v) to vouched_time/src/atomic_base_time.rs as it is now: the atomic
   accesses, lock operations, calls and control keywords of every function of that file are
   translated into coq/gen/Orderings.v on every run; `extract` matches them against the skeleton
   the model implements and reads the memory orderings off them.  A changed ordering yields a
   different record (and the acquire/release lemmas below stop being provable by computation); a
   changed access sequence, an added lock operation or a removed re-check makes `extract` return
   None.  SeqCst is mapped to the weaker ordering the model needs (Acquire for loads, Release for
   stores), which is sound. *)
From Coq Require Import List String Bool.
From WPGen Require Import Orderings.
From WP Require Import time.RA.
Import ListNotations.
Open Scope string_scope.

Definition load_ord (s : string) : option ord :=
  if String.eqb s "Relaxed" then Some Rlx
  else if String.eqb s "Acquire" then Some Acq
  else if String.eqb s "SeqCst" then Some Acq
  else None.
Definition store_ord (s : string) : option ord :=
  if String.eqb s "Relaxed" then Some Rlx
  else if String.eqb s "Release" then Some Rel
  else if String.eqb s "SeqCst" then Some Rel
  else None.

Definition extract : option orderings :=
  match fn_snapshot, fn_update, fn_snapshot_2, fn_advance_once, fn_update_2, fn_try_update with
  | [Load "self.voucher" lv; Load "self.base_time_ms" lt],
    [Store "self.base_time_ms" st; Store "self.voucher" sv],
    [Load "self.sequence" l1; Kw "loop"; Call "snapshot"; Load "self.sequence" l2; Kw "return"],
    [Load "self.sequence" lw; Call "snapshot"; Kw "return"; Call "update"; Store "self.sequence" ss],
    [Kw "loop"; LockOp "lock"; Kw "break"; Call "clear_poison"; Call "advance_once"],
    [LockOp "try_lock"; Call "clear_poison"; Kw "return"; Kw "return"; Call "advance_once"] =>
    match load_ord lv, load_ord lt, store_ord st, store_ord sv, load_ord l1, load_ord l2, load_ord lw, store_ord ss with
    | Some ov, Some ot, Some ost, Some osv, Some o1, Some o2, Some ow, Some oss =>
      Some {| o_r_seq1 := o1; o_r_v := ov; o_r_t := ot; o_r_seq2 := o2;
              o_w_seq := ow; o_w_v := ov; o_w_t := ot;
              o_s_t := ost; o_s_v := osv; o_s_seq := oss |}
    | _, _, _, _, _, _, _, _ => None
    end
  | _, _, _, _, _, _ => None
  end.

(* the orderings of the code as it is now *)
Definition source_orderings : orderings :=
  match extract with Some o => o | None => code_orderings end.
