From Coq Require Import List NArith ZArith Lia Bool.
From WPGen Require Import Params.
From WP Require Import time.Nfs.
Import ListNotations.
Open Scope N_scope.

Section NfsProofs.
Variable vouch : N -> N.                 (* raffle VOUCH_PARAMS.vouch *)
Variable check : N -> N -> bool.         (* BASE_TIME_CHECK.check *)
Hypothesis vouch_checks : forall t, check t (vouch t) = true.

Notation update_base_time := (update_base_time vouch).
Notation scan_files := (scan_files vouch).
Notation scan_impl := (scan_impl vouch).
Notation step := (step vouch).
Notation run := (run vouch).

(* (dev, change-time in ms) pairs presented by an operation *)
Definition of_stat (f : stat) : list (N * N) :=
  match f with StatOk d c n => [(d, millis_of c n)] | StatErr => [] end.
Definition evidence (o : op) : list (N * N) :=
  match o with
  | AddTrusted _ f | Observe f | MaybeObserve _ f => of_stat f
  | Scan _ fs | GetBase _ fs => flat_map of_stat fs
  | GetUnlocked => []
  end.
Definition registers (o : op) (dev : N) : Prop := exists c n f2, o = AddTrusted (StatOk dev c n) f2.

(* the change-time formula is exact on every stat a kernel produces after 1970 *)
Lemma millis_exact c n : (0 <= c < 18446744073709551)%Z -> (0 <= n < 1000000000)%Z ->
  millis_of c n = Z.to_N (c * 1000 + n / 1000000).
Proof.
  intros Hc Hn. unfold millis_of, sat_add, sat_mul, as_u64, U64MAX.
  rewrite !Z.mod_small by lia.
  assert (Z.to_N n / 1000000 = Z.to_N (n / 1000000)) as ->.
  { rewrite <- (Z2N.id n) at 2 by lia. change 1000000%Z with (Z.of_N 1000000). rewrite <- N2Z.inj_div, N2Z.id. reflexivity. }
  assert (0 <= n / 1000000 < 1000)%Z by (split; [apply Z.div_pos; lia|apply Z.div_lt_upper_bound; lia]).
  rewrite Z2N.inj_add, Z2N.inj_mul by lia. change (Z.to_N 1000) with 1000.
  assert (Z.to_N c < 18446744073709551) by lia.
  assert (Z.to_N (n / 1000000) < 1000) by lia.
  rewrite !N.min_l by lia. reflexivity.
Qed.

Lemma advance_props s t :
  base s <= base (advance s t) /\ (base (advance s t) = base s \/ base (advance s t) = t) /\
  trusted (advance s t) = trusted s /\ (t < base s -> advance s t = s).
Proof.
  unfold advance. destruct (t <? base s) eqn:E; cbn [base trusted].
  - repeat split; auto. lia.
  - apply N.ltb_ge in E. repeat split; auto. lia.
Qed.

Lemma update_props s f extra s' r : update_base_time s f extra = (s', r) ->
  base s <= base s' /\ trusted s' = trusted s /\
  (base s' <> base s -> exists dev, In (dev, base s') (of_stat f) /\ (is_trusted s dev = true \/ extra = Some dev)) /\
  (forall dev c n, f = StatOk dev c n -> is_trusted s dev = false -> extra <> Some dev -> s' = s /\ r = RNone) /\
  (forall t v, r = RSome t v -> check t v = true) /\ r <> RPanic /\ r <> RUnit.
Proof.
  unfold Nfs.update_base_time. destruct f as [dev ctime nsec|].
  2:{ intros H; inversion H; subst. repeat split; try congruence; try lia; intros; discriminate. }
  destruct (negb (is_trusted s dev) && _) eqn:E.
  - intros H; inversion H; subst. repeat split; try congruence; try lia; intros; discriminate.
  - intros H; inversion H; subst. destruct (advance_props s (millis_of ctime nsec)) as (A & B & C & _).
    split; [exact A|]. split; [exact C|]. split; [|split; [|split; [|split; congruence]]].
    + intros Hne. exists dev. destruct B as [B|B]; [congruence|]. rewrite B. split; [cbn; auto|].
      apply andb_false_iff in E as [E|E]; apply negb_false_iff in E; auto.
      right. destruct extra; [apply N.eqb_eq in E; now subst|discriminate].
    + intros d c0 n0 Hf Hnt Hne. inversion Hf; subst. rewrite Hnt in E. cbn [negb andb] in E.
      apply negb_false_iff in E. destruct extra; [apply N.eqb_eq in E; congruence|discriminate].
    + intros t v Hr. inversion Hr; subst. apply vouch_checks.
Qed.

Lemma scan_files_props : forall files s s' r, scan_files s files = (s', r) ->
  base s <= base s' /\ trusted s' = trusted s /\
  (base s' <> base s -> exists dev, In (dev, base s') (flat_map of_stat files) /\ is_trusted s dev = true) /\
  (forall t v, r = RSome t v -> check t v = true) /\ r <> RPanic /\ r <> RUnit /\ r <> RNone.
Proof.
  induction files as [|f fs IH]; intros s s' r H; cbn [Nfs.scan_files] in H.
  - inversion H; subst. repeat split; try congruence; try lia; intros; discriminate.
  - destruct (update_base_time s f None) as [s1 r1] eqn:U.
    destruct (update_props _ _ _ _ _ U) as (A & B & C & D & E & _).
    assert (Hfirst : base s1 <> base s -> exists dev, In (dev, base s1) (flat_map of_stat (f :: fs)) /\ is_trusted s dev = true).
    { intros Hne. destruct (C Hne) as (d & Hd & [T|X]); [|discriminate]. exists d. split; [cbn [flat_map]; apply in_or_app; now left|auto]. }
    assert (Hrest : forall s2 r2, scan_files s1 fs = (s2, r2) ->
              base s <= base s2 /\ trusted s2 = trusted s /\
              (base s2 <> base s -> exists dev, In (dev, base s2) (flat_map of_stat (f :: fs)) /\ is_trusted s dev = true) /\
              (forall t v, r2 = RSome t v -> check t v = true) /\ r2 <> RPanic /\ r2 <> RUnit /\ r2 <> RNone).
    { intros s2 r2 H2. destruct (IH _ _ _ H2) as (A2 & B2 & C2 & E2 & F2). split; [lia|]. split; [congruence|]. split; auto.
      intros Hne. destruct (N.eq_dec (base s2) (base s1)) as [Eq|Ne].
      - rewrite Eq in *. apply Hfirst. exact Hne.
      - destruct (C2 Ne) as (d & Hin & Ht). exists d. split; [cbn [flat_map]; apply in_or_app; right; exact Hin|].
        unfold is_trusted in *. now rewrite <- B. }
    destruct r1; try (apply Hrest; exact H).
    inversion H; subst. split; [exact A|]. split; [exact B|]. split; [exact Hfirst|]. split; [exact E|].
    repeat split; congruence.
Qed.

Lemma firstn_flat_incl {A B} (g : A -> list B) n (l : list A) x : In x (flat_map g (firstn n l)) -> In x (flat_map g l).
Proof.
  intros H. apply in_flat_map in H as (a & Ha & Hx). apply in_flat_map. exists a. split; auto.
  rewrite <- (firstn_skipn n l). apply in_or_app. now left.
Qed.

Lemma scan_props files s s' r : scan_impl s files = (s', r) ->
  base s <= base s' /\ trusted s' = trusted s /\
  (base s' <> base s -> exists dev, In (dev, base s') (flat_map of_stat files) /\ is_trusted s dev = true) /\
  (forall t v, r = RSome t v -> check t v = true) /\ r <> RPanic /\ r <> RUnit /\ r <> RNone.
Proof.
  unfold Nfs.scan_impl. intros H. destruct (scan_files_props _ _ _ _ H) as (A & B & C & D).
  split; [exact A|]. split; [exact B|]. split; [|exact D].
  intros Hne. destruct (C Hne) as (d & Hin & Ht). exists d. split; [eapply firstn_flat_incl; eauto|auto].
Qed.

(* One step: the base time never decreases; it changes only to the change-time of a presented file
   whose device is trusted at that moment or is being registered by this very call; the trusted
   set changes only by that registration; every pair handed back passes the voucher check. *)
Theorem nfs_step s o s' r : step s o = (s', r) ->
  base s <= base s' /\
  (forall t v, r = RSome t v -> check t v = true) /\
  (base s' <> base s -> exists dev, In (dev, base s') (evidence o) /\ (is_trusted s dev = true \/ registers o dev)) /\
  (forall d, is_trusted s' d = true -> is_trusted s d = true \/ registers o d) /\
  (forall d, is_trusted s d = true -> is_trusted s' d = true).
Proof.
  assert (Hsame : forall s1, trusted s1 = trusted s -> (forall d, is_trusted s1 d = true -> is_trusted s d = true \/ registers o d) /\
                                                       (forall d, is_trusted s d = true -> is_trusted s1 d = true)).
  { intros s1 E. unfold is_trusted. rewrite E. auto. }
  destruct o as [f1 f2|f|refresh f|refresh files|now files|]; cbn [Nfs.step evidence].
  - destruct f1 as [dev c1 n1|].
    2:{ intros H; inversion H; subst. split; [lia|]. split; [intros; discriminate|]. split; [congruence|]. apply Hsame; reflexivity. }
    destruct (update_base_time s f2 (Some dev)) as [s1 r1] eqn:U.
    destruct (update_props _ _ _ _ _ U) as (A & B & C & D & E & _).
    assert (Hev : base s1 <> base s -> exists dev0, In (dev0, base s1) (of_stat f2) /\
                    (is_trusted s dev0 = true \/ registers (AddTrusted (StatOk dev c1 n1) f2) dev0)).
    { intros Hne. destruct (C Hne) as (d & Hd & [T|X]); exists d; (split; [exact Hd|]); [left; exact T|].
      inversion X; subst. right. unfold registers. eauto. }
    destruct r1; intros H; inversion H; subst; cbn [base trusted];
      (split; [exact A|]; split; [try exact E; intros; discriminate|]; split; [exact Hev|]);
      try (apply Hsame; exact B).
    (* success: dev is inserted *)
    split.
    + intros d Hd. unfold is_trusted in Hd. cbn [trusted] in Hd. unfold insert_dev in Hd.
      destruct (existsb (N.eqb dev) (trusted s1)) eqn:Ex.
      * left. unfold is_trusted. now rewrite <- B.
      * cbn [existsb] in Hd. apply orb_prop in Hd as [Hd|Hd].
        -- apply N.eqb_eq in Hd. subst d. right. unfold registers. eauto.
        -- left. unfold is_trusted. now rewrite <- B.
    + intros d Hd. unfold is_trusted in *. cbn [trusted]. unfold insert_dev.
      destruct (existsb (N.eqb dev) (trusted s1)) eqn:Ex; [now rewrite B|].
      cbn [existsb]. rewrite B, Hd. apply orb_true_r.
  - intros U. destruct (update_props _ _ _ _ _ U) as (A & B & C & D & E & _). split; [exact A|]. split; [exact E|].
    split; [|apply Hsame; exact B].
    intros Hne. destruct (C Hne) as (d & Hd & [T|X]); [|discriminate]. exists d. auto.
  - destruct refresh.
    2:{ intros H; inversion H; subst. split; [lia|]. split; [intros; discriminate|]. split; [congruence|]. apply Hsame; reflexivity. }
    destruct (update_base_time s f None) as [s1 r1] eqn:U. destruct (update_props _ _ _ _ _ U) as (A & B & C & D & E & _).
    intros H; inversion H; subst. cbn [fst]. split; [exact A|]. split; [intros; discriminate|].
    split; [|apply Hsame; exact B].
    intros Hne. destruct (C Hne) as (d & Hd & [T|X]); [|discriminate]. exists d. auto.
  - destruct refresh.
    2:{ intros H; inversion H; subst. split; [lia|]. split; [intros; discriminate|]. split; [congruence|]. apply Hsame; reflexivity. }
    destruct (scan_impl s files) as [s1 r1] eqn:U. destruct (scan_props _ _ _ _ U) as (A & B & C & E & _).
    assert (G : base s <= base s1 /\ (base s1 <> base s -> exists dev, In (dev, base s1) (flat_map of_stat files) /\ (is_trusted s dev = true \/ registers (Scan true files) dev))).
    { split; [exact A|]. intros Hne. destruct (C Hne) as (d & Hin & Ht). exists d. auto. }
    destruct G as (G1 & G2).
    destruct r1; intros H; inversion H; subst; (split; [exact G1|]; split; [try exact E; intros; discriminate|]; split; [exact G2|apply Hsame; exact B]).
  - destruct (should_refresh s DEFAULT_LEEWAY_MS now).
    2:{ intros H; inversion H; subst. split; [lia|]. split; [intros t v Hr; inversion Hr; subst; apply vouch_checks|]. split; [congruence|]. apply Hsame; reflexivity. }
    intros U. destruct (scan_props _ _ _ _ U) as (A & B & C & E & _).
    split; [exact A|]. split; [exact E|]. split; [|apply Hsame; exact B].
    intros Hne. destruct (C Hne) as (d & Hin & Ht). exists d. auto.
  - intros H; inversion H; subst. split; [lia|]. split; [intros t v Hr; inversion Hr; subst; apply vouch_checks|]. split; [congruence|]. apply Hsame; reflexivity.
Qed.

(* observing a file on a device that is not trusted reports nothing and changes nothing *)
Theorem observe_untrusted s dev c n :
  is_trusted s dev = false ->
  step s (Observe (StatOk dev c n)) = (s, RNone) /\
  (forall b, fst (step s (MaybeObserve b (StatOk dev c n))) = s).
Proof.
  intros Ht. cbn [Nfs.step]. unfold Nfs.update_base_time. rewrite Ht. cbn [negb andb]. split; [reflexivity|].
  intros [|]; reflexivity.
Qed.

(* before any path is trusted nothing but add_trusted_path can move the base time *)
Theorem nothing_trusted_nothing_moves s o s' r :
  trusted s = [] -> (forall f1 f2, o <> AddTrusted f1 f2) -> step s o = (s', r) -> base s' = base s.
Proof.
  intros Ht Hna H. destruct (nfs_step _ _ _ _ H) as (_ & _ & C & _).
  destruct (N.eq_dec (base s') (base s)) as [E|Ne]; auto.
  destruct (C Ne) as (d & _ & [T|(c & n & f2 & X)]).
  - unfold is_trusted in T. rewrite Ht in T. discriminate.
  - exfalso. eapply Hna; eauto.
Qed.

(* histories *)
Lemma run_cons s o ops : run s (o :: ops) =
  let '(s', x) := step s o in match x with RPanic => (s', [x]) | _ => let '(s'', xs) := run s' ops in (s'', x :: xs) end.
Proof. reflexivity. Qed.

Theorem nfs_monotone : forall ops s, base s <= base (fst (run s ops)).
Proof.
  induction ops as [|o ops IH]; intros s; [cbn; lia|]. rewrite run_cons.
  destruct (step s o) as [s1 r1] eqn:E. destruct (nfs_step _ _ _ _ E) as (A & _).
  specialize (IH s1). destruct (run s1 ops) as [s2 xs] eqn:R. cbn [fst] in IH.
  destruct r1; cbn [fst]; lia.
Qed.

Theorem nfs_results_check : forall ops s t v, In (RSome t v) (snd (run s ops)) -> check t v = true.
Proof.
  induction ops as [|o ops IH]; intros s t v H; [cbn in H; contradiction|]. rewrite run_cons in H.
  destruct (step s o) as [s1 r1] eqn:E. destruct (nfs_step _ _ _ _ E) as (_ & B & _).
  specialize (IH s1 t v). destruct (run s1 ops) as [s2 xs] eqn:R. cbn [snd] in IH.
  destruct r1; cbn [snd] in H; destruct H as [H|H]; try discriminate; try contradiction; auto.
Qed.

(* the panic of add_trusted_path needs the two stats of one open file to disagree on the device *)
Theorem add_trusted_panics_only_on_device_change s f1 f2 s' :
  step s (AddTrusted f1 f2) = (s', RPanic) ->
  exists d1 c1 n1 d2 c2 n2, f1 = StatOk d1 c1 n1 /\ f2 = StatOk d2 c2 n2 /\ d1 <> d2.
Proof.
  cbn [Nfs.step]. destruct f1 as [d1 c1 n1|]; [|discriminate].
  destruct (update_base_time s f2 (Some d1)) as [s1 r1] eqn:U. unfold Nfs.update_base_time in U.
  destruct f2 as [d2 c2 n2|]; [|inversion U; subst; discriminate].
  destruct (negb (is_trusted s d2) && negb (d1 =? d2)) eqn:E; inversion U; subst; try discriminate.
  intros _. exists d1, c1, n1, d2, c2, n2. repeat split; auto.
  apply andb_true_iff in E as (_ & E). apply negb_true_iff in E. now apply N.eqb_neq in E.
Qed.

Theorem no_other_panic s o s' : step s o = (s', RPanic) -> exists f1 f2, o = AddTrusted f1 f2.
Proof.
  destruct o as [f1 f2|f|refresh f|refresh files|now files|]; cbn [Nfs.step]; eauto.
  - intros U. destruct (update_props _ _ _ _ _ U) as (_ & _ & _ & _ & _ & P & _). congruence.
  - destruct refresh; intros H; inversion H.
  - destruct refresh; [|intros H; inversion H].
    destruct (scan_impl s files) as [s1 r1] eqn:U. destruct (scan_props _ _ _ _ U) as (_ & _ & _ & _ & P & _).
    destruct r1; intros H; inversion H; congruence.
  - destruct (should_refresh s DEFAULT_LEEWAY_MS now); [|intros H; inversion H].
    intros U. destruct (scan_props _ _ _ _ U) as (_ & _ & _ & _ & P & _). congruence.
  - intros H; inversion H.
Qed.
End NfsProofs.
