(* What the proofs need from the orderings and access sequences of the current source, discharged
   by computation on the translated source (coq/gen/Orderings.v). *)
From Coq Require Import List String Bool.
From WPGen Require Import Orderings.
From WP Require Import time.RA time.SeqlockTie.
Import ListNotations.
Open Scope string_scope.

Lemma extract_ok : extract = Some source_orderings.
Proof. vm_compute. reflexivity. Qed.

(* what the proofs need from them, discharged by computation on the translated source *)
Lemma src_seq1_acq : is_acq (o_r_seq1 source_orderings) = true. Proof. vm_compute. reflexivity. Qed.
Lemma src_seq2_acq : is_acq (o_r_seq2 source_orderings) = true. Proof. vm_compute. reflexivity. Qed.
Lemma src_v_acq : is_acq (o_r_v source_orderings) = true. Proof. vm_compute. reflexivity. Qed.
Lemma src_t_acq : is_acq (o_r_t source_orderings) = true. Proof. vm_compute. reflexivity. Qed.
Lemma src_st_rel : is_rel (o_s_t source_orderings) = true. Proof. vm_compute. reflexivity. Qed.
Lemma src_sv_rel : is_rel (o_s_v source_orderings) = true. Proof. vm_compute. reflexivity. Qed.
Lemma src_sseq_rel : is_rel (o_s_seq source_orderings) = true. Proof. vm_compute. reflexivity. Qed.

(* snapshot (and get_base_time_unlocked, which only calls it) performs no lock operation *)
Definition has_lock_op (l : list tok) : bool := existsb (fun t => match t with LockOp _ => true | _ => false end) l.
Lemma snapshot_lock_free : has_lock_op fn_snapshot_2 = false /\ has_lock_op fn_snapshot = false.
Proof. split; reflexivity. Qed.
(* try_update's only lock operation is try_lock; update's is lock *)
Lemma try_update_uses_try_lock :
  filter (fun t => match t with LockOp _ => true | _ => false end) fn_try_update = [LockOp "try_lock"] /\
  filter (fun t => match t with LockOp _ => true | _ => false end) fn_update_2 = [LockOp "lock"] /\
  has_lock_op fn_advance_once = false.
Proof. repeat split; reflexivity. Qed.
