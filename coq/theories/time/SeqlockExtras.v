From Coq Require Import List NArith Lia Bool Arith.
Import ListNotations.
From WP Require Import time.RA time.SeqlockInv time.SeqlockMono time.SeqlockProgress.

(* Remaining clauses of C13 and C18 on the seqlock model:
   - provenance: every accepted pair was handed, as a unit, to some update / try_update call;
   - a stale update (older than the current base time) is dropped without touching shared state;
   - recency, for any program point of the observing thread;
   - a snapshot run alone finishes within a number of its own steps bounded by the Seq messages
     it has not seen yet, wherever the other threads are stopped. *)

(* ---- provenance ---- *)
Definition call_pair (a : action) : list (N * N) :=
  match a with AUpdStart ut uv | ATryStart ut uv => [(ut, uv)] | _ => [] end.
Fixpoint calls (sched : list (nat * action)) : list (N * N) :=
  match sched with [] => [] | (_, a) :: r => call_pair a ++ calls r end.

Definition wpair (p : pc) : option (N * N) :=
  match p with
  | W1 ut uv | W2 ut uv _ | W3 ut uv _ | W4 ut uv _ _ | W5 ut uv _ | W6 ut uv _ => Some (ut, uv)
  | _ => None
  end.
Definition Prov (L : list (N * N)) (st : state) : Prop :=
  (forall p, In p (acc st) -> In p L) /\ (forall j p, wpair (tpc (threads st j)) = Some p -> In p L).

Section Extras.
Variable O : orderings.

Lemma Prov_weaken L L' st : Prov L st -> incl L L' -> Prov L' st.
Proof. intros (A & B) I. split; intros; apply I; eauto. Qed.

Lemma Prov_step L st tid a st' : Prov L st -> step O st tid a = Some st' -> Prov (L ++ call_pair a) st'.
Proof.
  intros (A & B) H.
  assert (Bt := B tid).
  unfold step in H.
  destruct (tpc (threads st tid)) eqn:Epc; destruct a; try discriminate.
  all: try (destruct (load _ _ _ _ _) as [[[x vw'] ms]|]; [|discriminate]).
  all: try match type of H with context [match lock_held ?s with _ => _ end] => destruct (lock_held s) eqn:Hl; try discriminate end.
  all: try match type of H with context [Nat.eqb ?a ?b] => destruct (Nat.eqb a b) end.
  all: try match type of H with context [N.ltb ?a ?b] => destruct (N.ltb a b) eqn:Elt end.
  all: rewrite ?store_eq in H; cbv beta iota in H; inversion H; subst st'; clear H.
  all: split; cbn [acc threads].
  all: try (intros p Hp; apply in_or_app; left; apply A; exact Hp).
  all: try (intros j p Hp; destruct (Nat.eq_dec j tid) as [->|Hne];
            [rewrite upd_same in Hp; cbn [tpc wpair] in Hp; try discriminate;
             try (apply in_or_app; left; apply Bt; cbn [wpair]; exact Hp);
             try (inversion Hp; subst; apply in_or_app; right; cbn; auto)
            |rewrite upd_other in Hp by auto; apply in_or_app; left; eapply B; eauto]).
  (* W6: the pair is appended to acc *)
  intros p Hp. apply in_app_or in Hp as [Hp|Hp]; apply in_or_app; left; [apply A; exact Hp|].
  destruct Hp as [<-|[]]. apply Bt. reflexivity.
Qed.

Lemma Prov_run : forall sched L st st', Prov L st -> run O st sched = Some st' -> Prov (L ++ calls sched) st'.
Proof.
  induction sched as [|[tid a] rest IH]; intros L st st' P H; cbn [run calls] in *.
  - inversion H; subst. now rewrite app_nil_r.
  - destruct (step O st tid a) as [st1|] eqn:E; [|discriminate].
    rewrite app_assoc. eapply IH; [|exact H]. eapply Prov_step; eauto.
Qed.

Theorem accepted_from_calls t0 v0 sched st p :
  run O (init t0 v0) sched = Some st -> In p (acc st) -> p = (t0, v0) \/ In p (calls sched).
Proof.
  intros H Hp.
  assert (P0 : Prov [(t0, v0)] (init t0 v0)).
  { split; cbn; auto. intros j q Hq. discriminate. }
  destruct (Prov_run sched _ _ _ P0 H) as (A & _). specialize (A p Hp).
  cbn in A. destruct A as [A|A]; auto.
Qed.

(* ---- a stale update is ignored: no store, no change of the accepted history ---- *)
Hypothesis H_seq1_acq : is_acq (o_r_seq1 O) = true.
Hypothesis H_seq2_acq : is_acq (o_r_seq2 O) = true.
Hypothesis H_v_acq : is_acq (o_r_v O) = true.
Hypothesis H_t_acq : is_acq (o_r_t O) = true.
Hypothesis H_st_rel : is_rel (o_s_t O) = true.
Hypothesis H_sv_rel : is_rel (o_s_v O) = true.
Hypothesis H_sseq_rel : is_rel (o_s_seq O) = true.

Theorem stale_update_ignored st tid ut uv cur tc :
  Inv st -> tpc (threads st tid) = W4 ut uv cur tc ->
  (exists tv, nth_error (acc st) (length (acc st) - 1) = Some tv /\ tc = fst tv) /\
  ((ut < tc)%N -> exists st', step O st tid AStep = Some st' /\
      smem st' = smem st /\ acc st' = acc st /\ tpc (threads st' tid) = W7 false).
Proof.
  intros I Epc. pose proof (i_thr st I tid) as (_ & TO). rewrite Epc in TO.
  destruct TO as (_ & _ & _ & tv & A & B). split; [exists tv; auto|].
  intros Hlt. unfold step. rewrite Epc. apply N.ltb_lt in Hlt. rewrite Hlt.
  eexists. split; [reflexivity|]. cbn. rewrite upd_same. auto.
Qed.

(* the decision is taken against the latest accepted base time, and W7 false leads to `false` *)
Theorem refused_update_returns_false st tid :
  tpc (threads st tid) = W7 false ->
  exists st', step O st tid AStep = Some st' /\ tpc (threads st' tid) = WDone false /\
              smem st' = smem st /\ acc st' = acc st.
Proof.
  intros Epc. unfold step. rewrite Epc. eexists. split; [reflexivity|]. cbn. rewrite upd_same. auto.
Qed.

(* ---- recency from any program point that is not a finished snapshot ---- *)
Theorem recent_from_view j sched st st' k s t v :
  Inv st -> run O st sched = Some st' ->
  k <= tview (threads st j) Seq -> snap_index (tpc (threads st j)) = None ->
  tpc (threads st' j) = RDone s t v -> k <= s.
Proof.
  intros I H Hk Hp P2.
  assert (HQ : Q j k st) by (split; [exact Hk|intros s0 Hs; rewrite Hp in Hs; discriminate]).
  destruct (run_Q O H_seq1_acq H_seq2_acq H_v_acq H_t_acq H_st_rel H_sv_rel H_sseq_rel j k sched st st' I HQ H) as ((_ & Q2) & _).
  apply Q2. rewrite P2. reflexivity.
Qed.

(* publishing update number n puts n into the publisher's view: its later snapshots return >= n *)
Theorem publish_enters_view st tid ut uv n st' :
  Inv st -> tpc (threads st tid) = W6 ut uv n -> step O st tid AStep = Some st' ->
  tview (threads st' tid) Seq = length (acc st) /\ acc st' = acc st ++ [(ut, uv)].
Proof.
  intros I Epc H. pose proof (i_mem st I) as M.
  unfold step in H. rewrite Epc in H. rewrite store_eq in H. inversion H; subst st'; clear H.
  cbn [threads acc]. rewrite upd_same. cbn [tview]. rewrite vset_same. split; auto.
  apply (m_seqlen st M).
Qed.

(* ---- bounded solo completion of snapshot ---- *)
Definition mu (p : pc) (L : nat) : nat :=
  match p with
  | R1 s => 3 * (L - 1 - s) + 3
  | R2 s _ _ => 3 * (L - 1 - s) + 2
  | R3 s _ _ _ _ => 3 * (L - 1 - s) + 1
  | _ => 0
  end.

Lemma reader_step_mu st tid i st' :
  Inv st -> is_reader_pc (tpc (threads st tid)) = true -> step O st tid (ALoad i) = Some st' ->
  smem st' = smem st /\ lock_held st' = lock_held st /\
  mu (tpc (threads st' tid)) (length (smem st Seq)) < mu (tpc (threads st tid)) (length (smem st Seq)).
Proof.
  intros I Hp H.
  destruct (reader_step_ignores_lock O st tid (ALoad i) st' (or_introl Hp) H) as (Hl & _ & Hm & _).
  split; auto. split; auto.
  destruct (tpc (threads st tid)) eqn:Epc; try discriminate.
  - unfold step in H. rewrite Epc in H. destruct (load _ _ _ _ _) as [[[x vw'] ms]|]; [|discriminate].
    inversion H; subst st'. cbn [threads]. rewrite upd_same. cbn [tpc mu]. lia.
  - unfold step in H. rewrite Epc in H. destruct (load _ _ _ _ _) as [[[x vw'] ms]|]; [|discriminate].
    inversion H; subst st'. cbn [threads]. rewrite upd_same. cbn [tpc mu]. lia.
  - destruct (tpc (threads st' tid)) eqn:Epc'; cbn [mu]; try lia.
    + destruct (C18_retry_needs_new_write O H_seq2_acq st tid s v kv t kt i st' s0 I Epc H Epc') as (A & B). lia.
    + exfalso. unfold step in H. rewrite Epc in H. destruct (load _ _ _ _ _) as [[[x vw'] ms]|]; [|discriminate].
      destruct (Nat.eqb _ _); inversion H; subst st'; cbn [threads] in Epc'; rewrite upd_same in Epc'; discriminate.
    + exfalso. unfold step in H. rewrite Epc in H. destruct (load _ _ _ _ _) as [[[x vw'] ms]|]; [|discriminate].
      destruct (Nat.eqb _ _); inversion H; subst st'; cbn [threads] in Epc'; rewrite upd_same in Epc'; discriminate.
Qed.

Lemma reader_step_next st tid i st' :
  is_reader_pc (tpc (threads st tid)) = true -> step O st tid (ALoad i) = Some st' ->
  is_reader_pc (tpc (threads st' tid)) = true \/ exists s t v, tpc (threads st' tid) = RDone s t v.
Proof.
  intros Hp H. unfold step in H.
  destruct (tpc (threads st tid)) eqn:Epc; try discriminate;
    (destruct (load _ _ _ _ _) as [[[x vw'] ms]|]; [|discriminate]);
    try (destruct (Nat.eqb _ _)); inversion H; subst st'; cbn [threads]; rewrite upd_same; cbn [tpc is_reader_pc]; eauto.
Qed.

(* any run made only of thread tid's snapshot loads, from a point inside snapshot, is no longer
   than mu: 3 steps per Seq message the reader has not seen yet, plus the current pass *)
Theorem solo_snapshot_bounded : forall (is : list nat) st tid st',
  Inv st -> is_reader_pc (tpc (threads st tid)) = true ->
  run O st (map (fun i => (tid, ALoad i)) is) = Some st' ->
  length is <= mu (tpc (threads st tid)) (length (smem st Seq)).
Proof.
  induction is as [|i rest IH]; intros st tid st' I Hp H; cbn [map run length] in *; [lia|].
  destruct (step O st tid (ALoad i)) as [st1|] eqn:E; [|discriminate].
  destruct (reader_step_mu st tid i st1 I Hp E) as (Hm & _ & Hlt).
  assert (I1 : Inv st1) by (eapply (step_inv O); eauto).
  destruct rest as [|i2 rest2]; [cbn; lia|].
  assert (Hp1 : is_reader_pc (tpc (threads st1 tid)) = true).
  { destruct (reader_step_next st tid i st1 Hp E) as [R|(s0 & t0 & v0 & R)]; [exact R|].
    cbn [map run] in H. unfold step in H at 1. rewrite R in H. discriminate. }
  specialize (IH st1 tid st' I1 Hp1 H). rewrite Hm in IH. lia.
Qed.
End Extras.
