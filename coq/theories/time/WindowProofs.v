From Coq Require Import ZArith NArith Lia Bool.
From WPGen Require Import Params.
From WP Require Import time.Window.
Open Scope Z_scope.

(* The constants the property names are the ones in the source. *)
Lemma window_constants_pinned : FWD = 2990 /\ BWD = 59900.
Proof. split; reflexivity. Qed.

Ltac Zify.zify_post_hook ::= Z.div_mod_to_equations.

(* F4 (fixed in /repo by ff8e5ab): the pre-fix form accepts a local time one second after the epoch
   with a base time of 2^64 - 1. *)
Lemma window_wrapping_refuted : exists l b, 0 <= b < U64 /\ window_pinned l b = true /\ ~ window_spec l b.
Proof. exists 1000, (U64 - 1). split; [unfold U64; lia|]. split; [vm_compute; reflexivity|].
  unfold window_spec. destruct window_constants_pinned as [-> ->]. unfold U64. lia. Qed.

(* exactly which pairs the pre-fix form accepts *)
Lemma window_pinned_char l b : 0 <= b < U64 ->
  window_pinned l b = true <-> (0 <= l < U64 /\ (- BWD <= l - b <= FWD \/ U64 - FWD <= b - l \/ U64 - BWD <= l - b)).
Proof.
  intros Hb. unfold window_pinned, wrap. destruct window_constants_pinned as [-> ->]. unfold U64 in *.
  destruct (l <? 0) eqn:E1; [apply Z.ltb_lt in E1; split; [discriminate|lia]|]. apply Z.ltb_ge in E1.
  destruct (18446744073709551616 - 1 <? l) eqn:E2; [apply Z.ltb_lt in E2; split; [discriminate|lia]|]. apply Z.ltb_ge in E2.
  rewrite Z.leb_le. Z.div_mod_to_equations. lia.
Qed.

(* the current form is the specification, on the whole range *)
Theorem window_fixed_iff l b :
  window_fixed l b = true <-> (window_spec l b /\ l < U64).
Proof.
  unfold window_fixed, check_vouched_time, window_spec. destruct window_constants_pinned as [-> ->]. unfold U64 in *.
  destruct (l <? 0) eqn:E1; [apply Z.ltb_lt in E1; split; [discriminate|lia]|]. apply Z.ltb_ge in E1.
  destruct (18446744073709551616 - 1 <? l) eqn:E2; [apply Z.ltb_lt in E2; split; [discriminate|lia]|]. apply Z.ltb_ge in E2.
  match goal with |- context[if ?c then WOk else _] => destruct c eqn:E3 end.
  - apply andb_true_iff in E3. rewrite !Z.leb_le in E3. split; [lia|reflexivity].
  - apply andb_false_iff in E3. rewrite !Z.leb_gt in E3.
    destruct (b <? l); split; try discriminate; lia.
Qed.

(* error kinds: which error is reported outside the window *)
Lemma check_vouched_time_kinds l b :
  match check_vouched_time l b with
  | WOk => window_spec l b /\ l < U64
  | WBeforeEpoch => l < 0
  | WOutOfRange => U64 <= l
  | WAhead => 0 <= l < U64 /\ FWD < l - b
  | WBehind => 0 <= l < U64 /\ l - b < - BWD
  end.
Proof.
  unfold check_vouched_time, window_spec. destruct window_constants_pinned as [-> ->]. unfold U64 in *.
  destruct (l <? 0) eqn:E1; [apply Z.ltb_lt in E1; lia|]. apply Z.ltb_ge in E1.
  destruct (18446744073709551616 - 1 <? l) eqn:E2; [apply Z.ltb_lt in E2; lia|]. apply Z.ltb_ge in E2.
  match goal with |- context[if ?c then WOk else _] => destruct c eqn:E3 end.
  - apply andb_true_iff in E3. rewrite !Z.leb_le in E3. lia.
  - apply andb_false_iff in E3. rewrite !Z.leb_gt in E3.
    destruct (b <? l) eqn:E4; [apply Z.ltb_lt in E4|apply Z.ltb_ge in E4]; lia.
Qed.

Section Check.
Variable vch : Z -> Z -> bool.

(* representable local times are far below 2^64 ms (year 9999 is about 2.5e14 ms) *)
Theorem new_ok_iff nanos base voucher :
  local_ms_of nanos < U64 ->
  (exists t, new vch nanos base voucher = NOk t) <->
  (vch base voucher = true /\ window_spec (local_ms_of nanos) base).
Proof.
  intros Hn. unfold new, check.
  pose proof (window_fixed_iff (local_ms_of nanos) base) as W. unfold window_fixed in W.
  destruct (vch base voucher).
  - destruct (check_vouched_time (local_ms_of nanos) base) eqn:E; split.
    all: try (intros [t Ht]; discriminate).
    all: try (intros [_ Hs]; exfalso; assert (false = true) by (apply W; split; assumption); discriminate).
    + intros _. split; [reflexivity|]. apply W. reflexivity.
    + intros _. eexists; reflexivity.
  - split; [intros [t Ht]; discriminate | intros [Hf _]; discriminate].
Qed.

Theorem new_never_panics nanos base voucher : new vch nanos base voucher <> NPanic.
Proof. unfold new. destruct (check vch nanos base voucher) eqn:E; try discriminate. Qed.

Theorem new_reports_local nanos base voucher t :
  new vch nanos base voucher = NOk t -> t = nanos /\ get_local_time vch nanos base voucher = Some nanos.
Proof.
  unfold new, get_local_time. destruct (check vch nanos base voucher) eqn:E; try discriminate.
  intros H; inversion H; auto.
Qed.

(* now() is new() applied to whatever the clock and the provider returned *)
Definition now (clock_nanos : Z) (provider : Z -> option (Z * Z)) : option (nres) :=
  match provider clock_nanos with Some (b, v) => Some (new vch clock_nanos b v) | None => None end.
Theorem now_same_rule clock provider b v :
  provider clock = Some (b, v) -> now clock provider = Some (new vch clock b v).
Proof. unfold now. intros ->. reflexivity. Qed.
End Check.

(* O1: instants in the last millisecond before the epoch truncate to 0 ms *)
Lemma submillisecond_before_epoch nanos : -1000000 < nanos < 0 -> local_ms_of nanos = 0.
Proof. intros H. unfold local_ms_of. apply Z.quot_small_iff; lia. Qed.
Lemma before_epoch_rejected nanos b : nanos <= -1000000 -> check_vouched_time (local_ms_of nanos) b = WBeforeEpoch.
Proof.
  intros H. unfold check_vouched_time, local_ms_of.
  assert (Z.quot nanos 1000000 < 0).
  { assert (Z.quot nanos 1000000 <= Z.quot (-1000000) 1000000) by (apply Z.quot_le_mono; lia).
    change (Z.quot (-1000000) 1000000) with (-1) in H0. lia. }
  destruct (Z.quot nanos 1000000 <? 0) eqn:E; [reflexivity|]. apply Z.ltb_ge in E. lia.
Qed.
