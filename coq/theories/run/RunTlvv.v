(* Executable entry point for the correspondence check of family `tlvv` (C12). *)
From Coq Require Import NArith ZArith List Bool.
From WP Require Import tlv.View.
Import ListNotations.
Open Scope N_scope.

Inductive probe := Ix (i : N) | Tg (t : N) (j : option N).

Definition z (n : N) : Z := Z.of_N n.
Definition zs (l : list N) : list Z := map z l.

Definition verr_code (e : verr) : Z :=
  match e with ImpossibleHeader => 1 | TruncatedHeader => 2 | NonMonotonicOffsets => 3
             | NonMonotonicTags => 4 | TruncatedPayload => 5 end.

Definition enc_val (r : res (option (list N))) : list Z :=
  match r with Panic => [99%Z] | Ok None => [0%Z] | Ok (Some v) => 1%Z :: zs v end.
Definition enc_get (r : res (option (N * list N))) : list Z :=
  match r with Panic => [99%Z] | Ok None => [0%Z] | Ok (Some (t, v)) => 1%Z :: z t :: zs v end.

Definition bsearch_okb (tgs : list N) (t : N) (j : option N) : bool :=
  match j with
  | Some j => match nthN tgs j with Some t' => t' =? t | None => false end
  | None => negb (existsb (N.eqb t) tgs)
  end.

Definition run_probe (d : list N) (p : probe) : list (list Z) :=
  match p with
  | Ix i => [enc_val (get_value d i); enc_get (get d i)]
  | Tg t j =>
    match tags d with
    | Panic => [[99%Z]; [99%Z]]
    | Ok tgs => [ (if bsearch_okb tgs t j then match j with Some j => [z j] | None => [] end else [77%Z]);
                  enc_val (find d j) ]
    end
  end.

Definition run_tlvv (c : list N * list probe) : list (list Z) :=
  let '(d, ps) := c in
  match view_new d with
  | Panic => [[99%Z]]
  | Ok (Some e) => [[verr_code e]]
  | Ok None =>
    [0%Z] ::
    match num_values d, tags d, iter d with
    | Ok n, Ok tgs, Ok its =>
      [z n] :: zs tgs :: flat_map (fun tv => z (fst tv) :: z (lenN (snd tv)) :: zs (snd tv)) its
      :: flat_map (run_probe d) ps
    | _, _, _ => [[99%Z]]
    end
  end.
