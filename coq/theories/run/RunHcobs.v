(* Executable entry point for the correspondence check of family `hcobs` (C01, C02, C07, C09). *)
From Coq Require Import NArith ZArith List Bool.
From WP Require Import hcobs.Stuffing hcobs.EncChunks hcobs.Dec hcobs.EncSink.
Import ListNotations.

Definition zn (n : nat) : Z := Z.of_nat n.
Definition zb (l : list byte) : list Z := map Z.of_N l.

(* encoder history on the sink-level faithful model; records (cur, mid, max) after every piece *)
Fixpoint enc_hist (ms : nat) (e : enc) (s : sink) (ops : list eop) (acc : list Z) : res (enc * sink * list Z) :=
  match ops with
  | [] => Ok (e, s, acc)
  | EPiece p :: r =>
    match encode_piece_s ms e s p with
    | Panic => Panic
    | Ok (e', s') => enc_hist ms e' s' r (acc ++ [zn (cur e'); if mid e' then 1%Z else 0%Z; zn (maxc e')])
    end
  | EDrain k :: r => enc_hist ms e (s_drain s k) r acc
  end.

Definition enc_all (mi ms : nat) (ops : list eop) : res (list byte * list Z) :=
  let '(e0, s0) := enc_new s_empty mi in
  match enc_hist ms e0 s0 ops [] with
  | Panic => Panic
  | Ok (e, s, st) =>
    match terminate_s e s with
    | Panic => Panic
    | Ok s' => match all_bytes (cells s') with Some r => Ok (taken s' ++ r, st) | None => Panic end
    end
  end.

Fixpoint split_sizes (sizes : list nat) (l : list byte) : list (list byte) :=
  match sizes with
  | [] => match l with [] => [] | _ => [l] end
  | n :: r => firstn n l :: split_sizes r (skipn n l)
  end.

(* decoder history on the faithful decoder; Some out = accepted *)
Definition dec_all (mi ms : nat) (bytes : list byte) (sizes : list nat) : option (list byte) :=
  decode_pieces mi ms (split_sizes sizes bytes).

(* case: limits, encoder history, optional explicit decoder input (else the encoder's output), decoder split sizes *)
Definition run_hcobs (c : N * N * list eop * option (list byte) * list nat) : list (list Z) :=
  let '(mi, ms, ops, explicit, sizes) := c in
  let mi := N.to_nat mi in let ms := N.to_nat ms in
  match enc_all mi ms ops with
  | Panic => [[99%Z]]
  | Ok (out, st) =>
    let input := match explicit with Some b => b | None => out end in
    [1%Z] :: zb out :: st ::
    match dec_all mi ms input sizes with
    | Some m => [[0%Z]; zb m]
    | None => [[1%Z]; []]
    end
  end.
