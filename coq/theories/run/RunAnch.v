(* Executable entry point for the correspondence check of family `iovw`, ownership level (C05, C10):
   the anchor deque of every object, driven by the operation sequence derived from the harness run. *)
From Coq Require Import NArith ZArith List Bool Arith.
From WP Require Import iovec.Anchors.
Import ListNotations.

Inductive aop := ANew | ADrop | AClone (j : nat) | ATake (j : nat) | AOps (l : list op).
Definition world := list (option gd).
Definition zn (n : nat) : Z := Z.of_nat n.

Fixpoint set_nth {A} (i : nat) (x : A) (l : list A) : list A :=
  match l, i with
  | [], _ => []
  | _ :: t, O => x :: t
  | h :: t, S j => h :: set_nth j x t
  end.

(* boolean version of Inv, evaluated on every reachable state as a sanity check of the run *)
Definition protectedb (g : gd) (p c : nat) : bool :=
  existsb (fun q => match nth_error (anchors g) q with
                    | Some a => match achunk a with Some c' => Nat.eqb c' c | None => false end && (p <? psum (anchors g) (S q))
                    | None => false end) (seq 0 (length (anchors g))).
Definition inv_okb (g : gd) : bool :=
  Nat.eqb (total (anchors g)) (length (slices g)) &&
  forallb (fun ps => match snd ps with Some c => protectedb g (fst ps) c | None => true end)
          (combine (seq 0 (length (slices g))) (slices g)).

Definition obs_obj (o : option gd) : list (list Z) :=
  match o with
  | None => [[]; []; []]
  | Some g => [ flat_map (fun a => [zn (acount a); match achunk a with Some c => zn c | None => 0%Z end]) (anchors g);
                map (fun s => match s with Some c => zn c | None => 0%Z end) (slices g);
                [if inv_okb g then 1%Z else 0%Z] ]
  end.

Definition astep (w : world) (i : nat) (o : aop) : world :=
  match o with
  | ANew => set_nth i (Some {| slices := []; anchors := [] |}) w
  | ADrop => set_nth i None w
  | AClone j => match nth i w None with Some g => set_nth j (Some g) w | None => w end
  | ATake j => match nth i w None with Some g => set_nth j (Some g) (set_nth i (Some {| slices := []; anchors := [] |}) w) | None => w end
  | AOps l => match nth i w None with Some g => set_nth i (Some (fold_left (fun g o => apply_op o g) l g)) w | None => w end
  end.

Fixpoint arun (w : world) (ops : list (nat * aop)) : list (list Z) :=
  match ops with
  | [] => []
  | (i, o) :: r => let w' := astep w i o in flat_map obs_obj w' ++ arun w' r
  end.
Definition run_anch (ops : list (nat * aop)) : list (list Z) := arun [None; None; None; None] ops.
