(* Executable entry point for the correspondence check of family `iovw`, value level (C03, C04, C20):
   a world of up to four pipes; clone copies the value, take moves it. *)
From Coq Require Import NArith ZArith List Bool.
From WP Require Import iovec.Pipe.
Import ListNotations.

Inductive wop := WNew | WDrop | WClone (j : nat) | WTake (j : nat)
  | WPush (merged : bool) (bs : list N) | WExtend (items : list (list N))
  | WRegister (merged : bool) (p : list N) | WBackfill (slot : nat) (src : list N)
  | WConsume (k : N) | WAdvance (n : N) | WPop | WRead (n : N) | WClear | WNop.

(* counts come as N (they may be usize::MAX); clamping to what is buffered changes nothing *)
Definition clamp (k : N) (s : st) : nat := N.to_nat (N.min k (N.of_nat (length (concat (slices s)) + length (slices s) + 1))).

Definition obj := (st * list (option nat))%type.       (* state, backref handles held by the harness *)
Definition world := list (option obj).

Definition zn (n : nat) : Z := Z.of_nat n.
Definition zb (l : list N) : list Z := map Z.of_N l.

Fixpoint set_nth {A} (i : nat) (x : A) (l : list A) : list A :=
  match l, i with
  | [], _ => []
  | _ :: t, O => x :: t
  | h :: t, S j => h :: set_nth j x t
  end.

(* buffered bytes are reported as a digest (length, sum of (b+1), position-weighted sum): printing
   them in full after every operation makes coqc spend its time pretty-printing, and only the
   objects an operation touches are reported (the others are unchanged by construction) *)
Fixpoint digest (l : list N) (i s1 s2 : N) : N * N * N :=
  match l with
  | [] => (i, s1, s2)
  | b :: t => digest t (i + 1)%N (s1 + b + 1)%N (s2 + (i + 1) * (b + 1))%N
  end.

Definition obs_obj (o : option obj) : list (list Z) :=
  match o with
  | None => [[]; []; []; []]
  | Some (s, _) =>
    let '(n, s1, s2) := digest (map fst (concat (slices s))) 0%N 0%N 0%N in
    [ [zn (total_size s); zn (num_slices s); if iovs_ok s then 1%Z else 0%Z; zn (stable_count s)];
      map (fun sl => zn (length sl)) (slices s);
      [Z.of_N n; Z.of_N s1; Z.of_N s2];
      [zn (length (stable_cells (abs s)))] ]
  end.
Definition skip_obj : list (list Z) := [[(-1)%Z]; []; []; []].
Definition obs_world (w : world) (touched : list nat) : list (list Z) :=
  flat_map (fun p => if existsb (Nat.eqb (fst p)) touched then obs_obj (snd p) else skip_obj)
           (combine (seq 0 (length w)) w).
(* one op on object i: new world and the return field; None = panic *)
Definition wstep (w : world) (i : nat) (o : wop) : option (world * list Z) :=
  match o with
  | WNew => Some (set_nth i (Some (empty_st, [])) w, [1%Z])
  | WDrop => Some (set_nth i None w, [1%Z])
  | _ =>
    match nth i w None with
    | None => None
    | Some (s, slots) =>
      match o with
      | WClone j => Some (set_nth j (Some (s, [])) w, [1%Z])
      | WTake j => Some (set_nth j (Some (s, slots)) (set_nth i (Some (empty_st, [])) w), [1%Z])
      | WPush m bs => Some (set_nth i (Some (push m bs s, slots)) w, [1%Z])
      | WExtend items => Some (set_nth i (Some (fold_left (fun acc bs => push false bs acc) items s, slots)) w, [1%Z])
      | WRegister m p => let '(s', id) := register m p s in
                         Some (set_nth i (Some (s', slots ++ [id])) w, [1%Z; zn (length p)])
      | WBackfill k src =>
        match nth k slots None with
        | None => match src with [] => Some (w, [1%Z]) | _ => None end      (* the empty Backref accepts only the empty source *)
        | Some id => match backfill id src s with
                     | Some s' => Some (set_nth i (Some (s', set_nth k None slots)) w, [1%Z])
                     | None => None
                     end
        end
      | WConsume k => let '(s', n) := consume (clamp k s) s in Some (set_nth i (Some (s', slots)) w, [1%Z; zn n])
      | WAdvance n => let '(s', c) := advance (clamp n s) s in Some (set_nth i (Some (s', slots)) w, [1%Z; zn c])
      | WPop => let '(s', n) := consume 1 s in
                if Nat.eqb n 1 then Some (set_nth i (Some (s', slots)) w, [1%Z]) else None   (* assert_eq!(consumed, 1) *)
      | WRead n => let '(s', bs) := read (clamp n s) s in Some (set_nth i (Some (s', slots)) w, 1%Z :: zn (length bs) :: zb bs)
      | WClear => Some (set_nth i (Some (clear s, [])) w, [1%Z])
      | _ => Some (w, [1%Z])
      end
    end
  end.

Fixpoint wrun (w : world) (ops : list (nat * wop)) : list (list Z) :=
  match ops with
  | [] => []
  | (i, o) :: r =>
    match wstep w i o with
    | None => [[99%Z]]
    | Some (w', ret) => ret :: obs_world w' (i :: match o with WClone j | WTake j => [j] | _ => [] end) ++ wrun w' r
    end
  end.
Definition run_iovw (ops : list (nat * wop)) : list (list Z) := wrun [None; None; None; None] ops.
