(* Executable entry point for family `genc` (C01, C03, C05, C09): the Encoder writing into its OwningIovec at memory level
   (hcobs/GeoEnc.v over iovec/Geo.v).  The model predicts, after every call, the encoder state and the complete structural
   state of the iovec (slice pointers, anchors, cache, pending backrefs, bytes) and the live chunk / byte counters. *)
From Coq Require Import NArith ZArith List Bool Arith.
From WP Require Import hcobs.Stuffing iovec.Geo hcobs.GeoEnc run.RunGeo.
Import ListNotations.
Open Scope N_scope.

(* long byte strings are printed as [length, sum of (b+1), sum of (i+1)(b+1)] *)
Definition dig3 (bs : list N) : list Z := let '(n, s1, s2) := digest bs 0 0 0 in [zn n; zn s1; zn s2].

Inductive xop := XOp (o : geop) | XFin.

Definition obs_enc (e : option genc) : list Z :=
  match e with Some e => [znat (gmaxc e); znat (gcur e); if gmid e then 1%Z else 0%Z] | None => [] end.
Definition obs_all (e : option genc) (h : heap) (g : giov) : list (list Z) :=
  obs_enc e :: obs_obj h (Some (g, [])) ++
  [let l := nodup Nat.eq_dec (holders g) in
   [znat (length l); zn (fold_left (fun acc c => acc + ccap (chunk_at h c)) l 0)]].

Fixpoint xrun (ms : nat) (e : option genc) (h : heap) (g : giov) (ops : list xop) : list (list Z) :=
  match ops with
  | [] => []
  | XFin :: r =>
    match e with
    | None => [[99%Z]]
    | Some e0 => match ge_terminate e0 h g with
                 | None => [[99%Z]]
                 | Some (h', g') => [1%Z] :: obs_all None h' g' ++ xrun ms None h' g' r
                 end
    end
  | XOp o :: r =>
    match e with
    | None =>
      (* after finish only the consumer side is left *)
      match o with
      | GEConsume k => match consume k g with
                       | Some (g', n) => [1%Z; zn n] :: obs_all None h g' ++ xrun ms None h g' r
                       | None => [[99%Z]] end
      | GERd n => match read h n g with
                  | Some (g', bs) => (1%Z :: dig3 bs) :: obs_all None h g' ++ xrun ms None h g' r
                  | None => [[99%Z]] end
      | _ => [[99%Z]]
      end
    | Some e0 => match ge_step ms e0 h g o with
                 | None => [[99%Z]]
                 | Some (e', h', g', ret) => (1%Z :: match o with GERd _ => dig3 ret | _ => map zn ret end) :: obs_all (Some e') h' g' ++ xrun ms (Some e') h' g' r
                 end
    end
  end.

Definition run_genc (c : N * N * list xop) : list (list Z) :=
  let '(mi, ms, ops) := c in
  match ge_new [] empty_iov (N.to_nat mi) with
  | None => [[99%Z]]
  | Some (e, h, g) => [1%Z] :: obs_all (Some e) h g ++ xrun (N.to_nat ms) (Some e) h g ops
  end.
