(* Executable entry point for the correspondence check of family `seq` (C13, C18): the seqlock
   model of time/RA.v, run at the orderings read off the current source (SeqlockTie.source_orderings),
   on a schedule of calls and per-thread steps.  Each op yields one observation, the same the harness
   scheduler reports for the implementation:
     call      [0; tid; kind; t; view of Seq]      (kind 0 snapshot, 1 update, 2 try_update; -1 busy)
     load      [1; loc; ord; index read; value]
     store     [2; loc; ord; index written; value]
     lock      [3; granted]   try_lock [4; granted]   unlock [5]
   followed, on the step at which the call returns, by [10; t; v] (snapshot), [11] (update) or
   [12; b] (try_update).  Locations: 0 sequence, 1/2 base_time/voucher of slot 0, 3/4 of slot 1.
   Vouchers are represented by t + K.  A load choice c reads index len-1 - (c mod (len - view)). *)
From Coq Require Import List NArith ZArith Bool Arith.
From WP Require Import time.RA time.SeqlockTie.
Import ListNotations.

Definition K : N := 1000003.
Inductive call := CSnap | CUpd (t : N) | CTry (t : N).
Inductive sop := OCall (tid : nat) (kind : N) (t : N) | OStep (tid : nat) (c : N).

Definition lid (x : loc) : Z :=
  match x with Seq => 0 | T false => 1 | V false => 2 | T true => 3 | V true => 4 end%Z.
Definition oid (o : ord) : Z := match o with Rlx => 0 | Acq => 1 | Rel => 2 end%Z.
Definition SO := source_orderings.

(* views, memories and thread maps are functions; flatten them after every step so that
   evaluation does not re-run the whole history at each lookup (extensionally the identity) *)
Definition nview (vw : view) : view :=
  let a := vw Seq in let b := vw (T false) in let c := vw (V false) in
  let d := vw (T true) in let e := vw (V true) in
  fun x => match x with Seq => a | T false => b | V false => c | T true => d | V true => e end.
Definition nmem (m : mem) : mem :=
  let a := m Seq in let b := m (T false) in let c := m (V false) in
  let d := m (T true) in let e := m (V true) in
  fun x => match x with Seq => a | T false => b | V false => c | T true => d | V true => e end.
Definition nthread (th : thread) : thread := {| tview := nview (tview th); tpc := tpc th |}.
Definition nthreads (f : nat -> thread) : nat -> thread :=
  let t0 := nthread (f 0) in let t1 := nthread (f 1) in let t2 := nthread (f 2) in let t3 := nthread (f 3) in
  let d := {| tview := vbot; tpc := Idle |} in
  fun j => match j with 0 => t0 | 1 => t1 | 2 => t2 | 3 => t3 | _ => d end.
Definition normalize (st : state) : state :=
  {| smem := nmem (smem st); lock_held := lock_held st; lock_view := nview (lock_view st);
     threads := nthreads (threads st); acc := acc st |}.

Lemma nview_ext vw x : nview vw x = vw x.
Proof. destruct x as [|[|]|[|]]; reflexivity. Qed.
Lemma nmem_ext m x : nmem m x = m x.
Proof. destruct x as [|[|]|[|]]; reflexivity. Qed.

Definition choose (lo len : nat) (c : N) : nat :=
  let span := len - lo in
  if Nat.eqb span 0 then lo else len - 1 - N.to_nat (c mod N.of_nat span).

(* the W4 -> W7 false transition (stale update refused) touches no shared state: fold it into
   the step that precedes it, as the implementation performs no atomic operation there *)
Definition settle (st : state) (tid : nat) : state :=
  match tpc (threads st tid) with
  | W4 ut uv cur tc =>
      if (ut <? tc)%N then match step SO st tid AStep with Some s => s | None => st end else st
  | _ => st
  end.

Definition completion (cl : option call) (p : pc) : list Z :=
  match p with
  | RDone s t v => [10; Z.of_N t; Z.of_N v]%Z
  | WDone b => match cl with Some (CUpd _) => [11]%Z | _ => [12; if b then 1 else 0]%Z end
  | _ => []
  end.

Fixpoint set_nth {A} (l : list A) (n : nat) (x : A) : list A :=
  match l, n with
  | [], _ => []
  | _ :: r, 0 => x :: r
  | y :: r, S k => y :: set_nth r k x
  end.

Definition rstate := (state * list (option call))%type.

Definition rstep (rs : rstate) (tid : nat) (c : N) : rstate * list Z :=
  let '(st, calls) := rs in
  let th := threads st tid in
  let vw := tview th in
  let m := smem st in
  let cl := nth tid calls None in
  let fin (st' : state) (obs : list Z) : rstate * list Z :=
    let st'' := normalize (settle st' tid) in
    let comp := completion cl (tpc (threads st'' tid)) in
    ((st'', match comp with [] => calls | _ => set_nth calls tid None end), obs ++ comp) in
  let doload (x : loc) (o : ord) : rstate * list Z :=
    let i := choose (vw x) (length (m x)) c in
    let v := match nth_error (m x) i with Some ms => val ms | None => 0%N end in
    match step SO st tid (match tpc th with Idle => ASnapStart i | _ => ALoad i end) with
    | Some st' => fin st' [1; lid x; oid o; Z.of_nat i; Z.of_N v]%Z
    | None => (rs, [-2]%Z)
    end in
  let dostore (x : loc) (o : ord) (v : N) : rstate * list Z :=
    match step SO st tid AStep with
    | Some st' => fin st' [2; lid x; oid o; Z.of_nat (length (m x)); Z.of_N v]%Z
    | None => (rs, [-2]%Z)
    end in
  match tpc th with
  | Idle =>
      match cl with
      | Some CSnap => doload Seq (o_r_seq1 SO)
      | Some (CUpd t) =>
          match step SO st tid (AUpdStart t (t + K)) with
          | Some st' => fin st' [3; 1]%Z
          | None => (rs, [3; 0]%Z)
          end
      | Some (CTry t) =>
          match step SO st tid (ATryStart t (t + K)) with
          | Some st' => fin st' [4; match lock_held st with Some _ => 0 | None => 1 end]%Z
          | None => (rs, [-2]%Z)
          end
      | None => (rs, [-1]%Z)
      end
  | R1 s => doload (V (par s)) (o_r_v SO)
  | R2 s _ _ => doload (T (par s)) (o_r_t SO)
  | R3 _ _ _ _ _ => doload Seq (o_r_seq2 SO)
  | W1 _ _ => doload Seq (o_w_seq SO)
  | W2 _ _ cur => doload (V (par cur)) (o_w_v SO)
  | W3 _ _ cur => doload (T (par cur)) (o_w_t SO)
  | W4 ut _ cur _ => dostore (T (par (S cur))) (o_s_t SO) ut
  | W5 _ uv n => dostore (V (par n)) (o_s_v SO) uv
  | W6 _ _ n => dostore Seq (o_s_seq SO) (N.of_nat n)
  | W7 _ => match step SO st tid AStep with Some st' => fin st' [5]%Z | None => (rs, [-2]%Z) end
  | RDone _ _ _ | WDone _ => (rs, [-1]%Z)
  end.

Definition rcall (rs : rstate) (tid : nat) (kind t : N) : rstate * list Z :=
  let '(st, calls) := rs in
  let st1 := match tpc (threads st tid) with
             | RDone _ _ _ | WDone _ => match step SO st tid AReset with Some s => normalize s | None => st end
             | _ => st end in
  let busy := match tpc (threads st1 tid), nth tid calls None with Idle, None => false | _, _ => true end in
  if busy then (rs, [0; Z.of_nat tid; -1]%Z)
  else
    let cl := match kind with 0%N => CSnap | 1%N => CUpd t | _ => CTry t end in
    ((st1, set_nth calls tid (Some cl)),
     [0; Z.of_nat tid; Z.of_N kind; Z.of_N t; Z.of_nat (tview (threads st1 tid) Seq)]%Z).

Fixpoint rrun (rs : rstate) (ops : list sop) : list (list Z) :=
  match ops with
  | [] =>
      let st := fst rs in
      [[match lock_held st with Some h => Z.of_nat h | None => -1 end;
        Z.of_nat (length (smem st Seq)); Z.of_nat (length (smem st (T false)));
        Z.of_nat (length (smem st (V false))); Z.of_nat (length (smem st (T true)));
        Z.of_nat (length (smem st (V true)))]%Z]
  | OCall tid k t :: rest => let '(rs', o) := rcall rs tid k t in o :: rrun rs' rest
  | OStep tid c :: rest => let '(rs', o) := rstep rs tid c in o :: rrun rs' rest
  end.

Definition run_seq (ops : list sop) : list (list Z) :=
  rrun (normalize (init 0 K), [None; None; None; None]) ops.

