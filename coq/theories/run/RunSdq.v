(* Executable entry point for the correspondence check of family `sdq` (C15). *)
From Coq Require Import ZArith NArith List.
From WP Require Import deque.Sliding.
Import ListNotations.
Open Scope Z_scope.

Definition enc_out (o : out Z) : list Z :=
  match o with
  | OUnit => []
  | OItem None => [0]
  | OItem (Some x) => [1; x]
  | ONat n => [Z.of_nat n]
  | OBool true => [1]
  | OBool false => [0]
  end.

(* per operation three fields: result, view, (consumed, container length); a panic ends the run *)
Fixpoint obs (d : sd Z) (ops : list (op Z)) : list (list Z) :=
  match ops with
  | [] => []
  | o :: r => match step d o with
              | Panic => [[99]]
              | Ok d' x => enc_out x :: view d' :: [Z.of_nat (consumed d'); Z.of_nat (length (cont d'))] :: obs d' r
              end
  end.

Definition run_sdq (c : list Z * list (op Z)) : list (list Z) := obs (from_container (fst c)) (snd c).
