(* Executable entry point for family `hint` (C10): the arena chunk size policy. *)
From Coq Require Import NArith ZArith List.
From WP Require Import iovec.Arena.
Import ListNotations.
Definition run_hint (c : N * N) : list (list Z) :=
  match find_hint_size (fst c) (snd c) with HOk h => [[Z.of_N h]] | HPanic => [[99%Z]] end.
