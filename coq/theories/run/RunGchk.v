(* Executable entry point for family `gchk` (C05, C08): StreamChunker::pump at memory level (hcobs/GeoChunker.v) over the
   geometry-faithful arena (iovec/Geo.v).  The model predicts where every Data chunk lies (chunk creation number, offset,
   length), which chunk its anchor holds, the arena's cache after every pump, and the live chunk / byte counters at the end. *)
From Coq Require Import NArith ZArith List Bool Arith.
From WP Require Import hcobs.Stuffing hcobs.Chunker iovec.Geo hcobs.GeoChunker.
Import ListNotations.
Open Scope N_scope.

Definition zn (n : N) : Z := Z.of_N n.
Definition znat (n : nat) : Z := Z.of_nat n.
Definition zb (l : list N) : list Z := map Z.of_N l.

Definition cache_field (h : heap) (k : option gcache) : list Z :=
  match k with Some k => [znat (S (kchunk k)); zn (kcap h k); zn (kbump k)] | None => [] end.
Definition anchor_no (a : aslice) : Z := match achunk (as_anchor a) with Some c => znat (S c) | None => 0%Z end.
Definition chunk_field (h : heap) (c : gchunk) : list Z :=
  match c with
  | GData o a =>
    match as_sl a with
    | SArena c off len => [0%Z; znat o; znat (S c); zn off; zn len; anchor_no a]
    | SExt bs => [0%Z; znat o; 0%Z; 0%Z; zn (nlen bs); anchor_no a]
    end ++ zb (sl_bytes h (as_sl a))
  | GSentinel o => [1%Z; znat o]
  | GEof => [2%Z]
  end.

(* the arena the caller hands in: 0 = fresh, 1 = three bytes allocated, S (S k) = k bytes of room left *)
Definition pre_arena (pre : N) : option (heap * option gcache) :=
  if pre =? 0 then Some ([], None)
  else match as_read_n [] None [120; 121; 122] 3 with
       | None => None
       | Some (h, k, _) =>
         if pre =? 1 then Some (h, k)
         else let want := pre - 2 in
              let r := remaining h k in
              if want <? r then
                match as_read_n h k (repeat 7 (N.to_nat (r - want))) (r - want) with
                | Some (h', k', _) => Some (h', k')
                | None => None
                end
              else Some (h, k)
       end.

Definition held_chunks (k : option gcache) (s : gcst) (kept : list aslice) : list nat :=
  nodup Nat.eq_dec (flat_map (fun a => match achunk (as_anchor a) with Some c => [c] | None => [] end) (gbuf s :: kept)
                    ++ match k with Some k => [kchunk k] | None => [] end).

Fixpoint gloop (fuel bs : nat) (h : heap) (k : option gcache) (s : gcst) (kept : list aslice) : list (list Z) :=
  let finish h1 k1 s1 :=
    (* one more pump: Eof is sticky *)
    match gpump bs h1 k1 s1 with
    | None => [[99%Z]]
    | Some (h2, k2, c2, s2) =>
      (match c2 with GEof => [] | _ => [[98%Z]] end) ++
      [cache_field h2 k2;
       let l := held_chunks k2 s2 kept in
       [znat (length l); zn (fold_left (fun acc c => acc + ccap (chunk_at h2 c)) l 0); 1%Z]]
    end in
  match fuel with
  | O => finish h k s
  | S fuel =>
    match gpump bs h k s with
    | None => [[99%Z]]
    | Some (h1, k1, c, s1) =>
      chunk_field h1 c :: cache_field h1 k1 ::
      match c with
      | GEof => finish h1 k1 s1
      | GData _ a => gloop fuel bs h1 k1 s1 (a :: kept)
      | GSentinel _ => gloop fuel bs h1 k1 s1 kept
      end
    end
  end.

Definition run_gchk (c : N * N * list byte) : list (list Z) :=
  let '(bs, pre, stream) := c in
  match pre_arena pre with
  | None => [[99%Z]]
  | Some (h, k) => gloop (length stream + 3) (N.to_nat bs) h k {| gbuf := as_default; goffset := 0; grest := stream |} []
  end.
