(* Executable entry point for the correspondence check of family `sod` (C16). *)
From Coq Require Import ZArith List.
From WP Require Import deque.Sorted.
Import ListNotations.
Open Scope Z_scope.

Definition enc_item (it : item) : list Z :=
  match snd it with Some v => [1; fst it; v] | None => [2; fst it] end.
Definition enc_out (o : out) : list Z :=
  match o with
  | OUnit => []
  | OItem None => [0]
  | OItem (Some it) => enc_item it
  | OList l => flat_map (fun it => match snd it with Some v => [fst it; v] | None => [fst it; -1] end) l
  | OBool true => [1]
  | OBool false => [0]
  end.

(* after every operation every key of the universe 0..8 is looked up *)
Definition universe : list Z := [0; 1; 2; 3; 4; 5; 6; 7; 8].
Definition lookups (l : list item) : list Z :=
  flat_map (fun k => match find k l with
                     | Some (_, OItem (Some (_, Some v))) => [v]
                     | Some (_, OItem _) => [-1]
                     | _ => [-99]
                     end) universe.

Fixpoint obs (l : list item) (ops : list op) : list (list Z) :=
  match ops with
  | [] => []
  | o :: r => match step l o with
              | None => [[99]]
              | Some (l', x) => enc_out x :: lookups l' :: obs l' r
              end
  end.
Definition run_sod (ops : list op) : list (list Z) := obs [] ops.
