(* Executable entry points for the correspondence checks of families `chunk` (C08) and `reader` (C06). *)
From Coq Require Import NArith ZArith List Bool.
From WP Require Import hcobs.Stuffing hcobs.Dec hcobs.Chunker hcobs.Reader.
Import ListNotations.

Definition zn (n : nat) : Z := Z.of_nat n.
Definition zb (l : list byte) : list Z := map Z.of_N l.

Definition enc_chunk (c : chunk) : list Z :=
  match c with
  | Data o d => 0%Z :: zn o :: zb d
  | Sentinel o => [1%Z; zn o]
  | Eof => [2%Z]
  end.
Definition run_chunk (c : N * list byte) : list (list Z) :=
  let '(bs, s) := c in map enc_chunk (chunks_of (N.to_nat bs) s).

(* (mi, ms, block size, max, limit, stream) *)
Definition run_reader (c : N * N * N * N * N * list byte) : list (list Z) :=
  let '(mi, ms, bs, max, limit, s) := c in
  let cs := chunks_of (N.to_nat bs) s in
  let '(rs, ended, lso) := all_records (N.to_nat mi) (N.to_nat ms) max limit (S (length cs)) cs 0 in
  map (fun r => let '(m, st, en) := r in zn st :: zn en :: zb m) rs ++ [[if ended then 1%Z else 0%Z; zn lso]].
