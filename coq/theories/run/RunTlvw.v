(* Executable entry point for the correspondence check of family `tlvw` (C11). *)
From Coq Require Import NArith ZArith List Bool.
From WP Require Import tlv.View tlv.Wrapper run.RunTlvv.
Import ListNotations.
Open Scope N_scope.

(* harness values: bytes, size-only (reports a length, never encoded), nested message *)
Inductive hv := HB (b : list N) | HL (len : N) | HN (ps : list (N * hv)).

Fixpoint has_sized (v : hv) : bool :=
  match v with HB _ => false | HL _ => true | HN ps => existsb (fun p => has_sized (snd p)) ps end.

(* bytes of a value; nested messages are built with MessageWrapper::new *)
Fixpoint hbytes (v : hv) : list N :=
  match v with
  | HB b => b
  | HL _ => []
  | HN ps => match encode (sort (map (fun p => (fst p, hbytes (snd p))) ps)) with Ok b => b | Panic => [] end
  end.
Definition hlen (v : hv) : N := match v with HL n => n | _ => lenN (hbytes v) end.

Definition eerr_code (e : eerr) : Z :=
  match e with NonMonotonicTagsE => 1 | TooManyElements => 2 | ValueTooLarge => 3 | TotalTooLarge => 4 end.

Definition run_tlvw (c : ctor * list (N * hv)) : list (list Z) :=
  let '(k, es) := c in
  if existsb (fun p => has_sized (snd p)) es then
    match wrap hlen k es with
    | inl e => [[eerr_code e]]
    | inr (n, _) => [[0%Z]; [z n]]
    end
  else
    let bs := map (fun p => (fst p, hbytes (snd p))) es in
    match wrap (@lenN N) k bs with
    | inl e => [[eerr_code e]]
    | inr (n, sorted) =>
      match encode sorted with
      | Panic => [[0%Z]; [z n]; [99%Z]]
      | Ok bytes =>
        [0%Z] :: [z n] :: zs bytes ::
        match view_new bytes with
        | Panic => [[99%Z]]
        | Ok (Some e) => [[verr_code e]]
        | Ok None =>
          match iter bytes with
          | Ok its => [[0%Z]; flat_map (fun tv => z (fst tv) :: z (lenN (snd tv)) :: zs (snd tv)) its]
          | Panic => [[0%Z]; [99%Z]]
          end
        end
      end
    end.
