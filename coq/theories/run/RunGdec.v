(* Executable entry point for family `gdec` (C02 C03 C05 C07): the Decoder writing into its OwningIovec at memory level
   (hcobs/GeoDec.v over iovec/Geo.v): after every call the decoder state and the complete structural state of the iovec. *)
From Coq Require Import NArith ZArith List Bool Arith.
From WP Require Import hcobs.Stuffing hcobs.Dec iovec.Geo hcobs.GeoDec run.RunGeo.
Import ListNotations.
Open Scope N_scope.

(* long byte strings are printed as [length, sum of (b+1), sum of (i+1)(b+1)] *)
Definition dig3 (bs : list N) : list Z := let '(n, s1, s2) := digest bs 0 0 0 in [zn n; zn s1; zn s2].

Inductive yop := YOp (o : gdop) | YFin.

(* (tag, remaining / first header byte, flag) as DecoderState::verif_state reports it *)
Definition obs_dec (st : option dstate) : list Z :=
  match st with
  | None => []
  | Some DInit => [0%Z; 0%Z; 0%Z]
  | Some (DBefore ins) => [1%Z; 0%Z; if ins then 1%Z else 0%Z]
  | Some (DMid b0) => [2%Z; zn b0; 0%Z]
  | Some (DIn rem term) => [3%Z; znat rem; if term then 1%Z else 0%Z]
  end.
Definition obs_all (st : option dstate) (h : heap) (g : option giov) : list (list Z) :=
  obs_dec st :: obs_obj h (match g with Some g => Some (g, []) | None => None end) ++
  [let l := match g with Some g => nodup Nat.eq_dec (holders g) | None => [] end in
   [znat (length l); zn (fold_left (fun acc c => acc + ccap (chunk_at h c)) l 0)]].

Fixpoint yrun (mi ms : nat) (st : option dstate) (h : heap) (g : option giov) (ops : list yop) : list (list Z) :=
  match ops, g with
  | [], _ => []
  | _, None => [[99%Z]]
  | YFin :: r, Some g0 =>
    match st with
    | None => [[99%Z]]
    | Some st0 => if dterminate st0 then [1%Z; 1%Z] :: obs_all None h (Some g0) ++ yrun mi ms None h (Some g0) r
                  else [1%Z; 0%Z] :: obs_all None h None ++ yrun mi ms None h None r       (* the iovec is dropped with the decoder *)
    end
  | YOp o :: r, Some g0 =>
    match st with
    | None =>
      match o with
      | GDConsume k => match consume k g0 with
                       | Some (g', n) => [1%Z; zn n] :: obs_all None h (Some g') ++ yrun mi ms None h (Some g') r
                       | None => [[99%Z]] end
      | GDRd n => match read h n g0 with
                  | Some (g', bs) => (1%Z :: dig3 bs) :: obs_all None h (Some g') ++ yrun mi ms None h (Some g') r
                  | None => [[99%Z]] end
      | _ => [[99%Z]]
      end
    | Some st0 => match gd_step mi ms st0 h g0 o with
                  | None => [[99%Z]]
                  | Some (st', h', g', ret) => (1%Z :: match o with GDRd _ => dig3 ret | _ => map zn ret end) :: obs_all (Some st') h' (Some g') ++ yrun mi ms (Some st') h' (Some g') r
                  end
    end
  end.

Definition run_gdec (c : N * N * list yop) : list (list Z) :=
  let '(mi, ms, ops) := c in
  [1%Z] :: obs_all (Some DInit) [] (Some empty_iov) ++ yrun (N.to_nat mi) (N.to_nat ms) (Some DInit) [] (Some empty_iov) ops.
