(* Executable entry point for the correspondence check of family `win` (C14). *)
From Coq Require Import ZArith List.
From WP Require Import time.Window.
Import ListNotations.
Open Scope Z_scope.

Definition wres_code (w : wres) : Z :=
  match w with WOk => 0 | WBeforeEpoch => 2 | WOutOfRange => 3 | WAhead => 4 | WBehind => 5 end.

(* case = (nanos, base, does the voucher vouch for base under the crate's parameters) *)
Definition run_win (c : Z * Z * bool) : list (list Z) :=
  let '(nanos, base, v) := c in
  match new (fun _ _ => v) nanos base 0 with
  | NOk t => [[0]; [t]]
  | NErr COk => [[90]; []]
  | NErr CBadVoucher => [[1]; []]
  | NErr (CWindow w) => [[wres_code w]; []]
  | NPanic => [[99]; []]
  end.
