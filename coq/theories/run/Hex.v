(* Byte strings in case files are written as one hexadecimal N numeral (a leading 1 as sentinel,
   then the bytes, last byte first): coqc reads one numeral much faster than a list of numerals. *)
From Coq Require Import NArith List.
Import ListNotations.
Fixpoint pos_bytes (p : positive) (cur w : N) : list N :=
  match p with
  | xH => []
  | xO q => if (w =? 128)%N then cur :: pos_bytes q 0%N 1%N else pos_bytes q cur (2 * w)%N
  | xI q => if (w =? 128)%N then (cur + w)%N :: pos_bytes q 0%N 1%N else pos_bytes q (cur + w)%N (2 * w)%N
  end.
Definition hx (n : N) : list N := match n with N0 => [] | Npos p => pos_bytes p 0%N 1%N end.
Example hx_ok : hx 0x17afe00%N = [0; 254; 122]%N. Proof. reflexivity. Qed.
Example hx_empty : hx 0x1%N = []. Proof. reflexivity. Qed.

(* compact generators for the byte patterns the case generators use *)
Fixpoint ramp_aux (n : nat) (b : N) : list N :=
  match n with O => [] | S n' => b :: ramp_aux n' ((b + 1) mod 256)%N end.
Definition ramp (b n : N) : list N := ramp_aux (N.to_nat n) b.
Definition rep (b n : N) : list N := repeat b (N.to_nat n).
