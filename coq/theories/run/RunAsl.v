(* Executable entry point for family `asl` (C05, C17): one ByteArena and up to six AnchoredSlices over the heap of the
   geometry-faithful model (iovec/Geo.v). *)
From Coq Require Import NArith ZArith List Bool Arith.
From WP Require Import iovec.Geo.
Import ListNotations.
Open Scope N_scope.

Inductive aop := ARead (slot : nat) (bs : list N) (count : N) | ASkip (slot : nat) (n : N) | ADropSuffix (slot : nat) (n : N)
  | ASplit (slot : nat) (mid : N) (slot2 : nat) | ATake (slot slot2 : nat) | AClone (slot slot2 : nat) | ADrop (slot : nat)
  | AFlush | AEnsure (n : N).

Record aworld := { aheap : heap; acache : option gcache; aslots : list (option aslice) }.

Fixpoint set_nth {A} (i : nat) (x : A) (l : list A) : list A :=
  match l, i with
  | [], _ => []
  | _ :: t, O => x :: t
  | h :: t, S j => h :: set_nth j x t
  end.
Definition zn (n : N) : Z := Z.of_N n.
Definition znat (n : nat) : Z := Z.of_nat n.
Fixpoint digest (l : list N) (i s1 s2 : N) : N * N * N :=
  match l with
  | [] => (i, s1, s2)
  | b :: t => digest t (i + 1) (s1 + b + 1) (s2 + (i + 1) * (b + 1))
  end.

Definition obs_slot (h : heap) (o : option aslice) : list Z :=
  match o with
  | None => []
  | Some a =>
    let '(n, s1, s2) := digest (sl_bytes h (as_sl a)) 0 0 0 in
    match as_sl a with
    | SArena c off len => [znat (S c); zn off; zn len]
    | SExt bs => [0%Z; 0%Z; zn (nlen bs)]
    end ++ [match achunk (as_anchor a) with Some c => znat (S c) | None => 0%Z end; zn n; zn s1; zn s2]
  end.
Definition held (w : aworld) : list nat :=
  nodup Nat.eq_dec (flat_map (fun o => match o with
                                       | Some a => match achunk (as_anchor a) with Some c => [c] | None => [] end
                                       | None => [] end) (aslots w) ++
                    match acache w with Some k => [kchunk k] | None => [] end).
Definition obs_world (w : aworld) : list (list Z) :=
  map (obs_slot (aheap w)) (aslots w) ++
  [match acache w with Some k => [znat (S (kchunk k)); zn (kcap (aheap w) k); zn (kbump k)] | None => [] end;
   [znat (length (held w)); zn (fold_left (fun acc c => acc + ccap (chunk_at (aheap w) c)) (held w) 0)]].

Definition astep (w : aworld) (o : aop) : option (aworld * list Z) :=
  let slots := aslots w in
  match o with
  | ARead i bs count =>
    match as_read_n (aheap w) (acache w) bs count with
    | Some (h', k', a) => Some ({| aheap := h'; acache := k'; aslots := set_nth i (Some a) slots |}, [1%Z; zn (as_len a)])
    | None => None
    end
  | ASkip i n => match nth i slots None with
                 | Some a => let '(a', k) := as_skip_prefix a n in
                             Some ({| aheap := aheap w; acache := acache w; aslots := set_nth i (Some a') slots |}, [1%Z; zn k])
                 | None => None end
  | ADropSuffix i n => match nth i slots None with
                 | Some a => let '(a', k) := as_drop_suffix a n in
                             Some ({| aheap := aheap w; acache := acache w; aslots := set_nth i (Some a') slots |}, [1%Z; zn k])
                 | None => None end
  | ASplit i mid j => match nth i slots None with
                 | Some a => let '(l, r) := as_split_at a mid in
                             Some ({| aheap := aheap w; acache := acache w; aslots := set_nth j (Some r) (set_nth i (Some l) slots) |}, [1%Z])
                 | None => None end
  | ATake i j => match nth i slots None with
                 | Some a => let '(t, lft) := as_take a in
                             Some ({| aheap := aheap w; acache := acache w; aslots := set_nth j (Some t) (set_nth i (Some lft) slots) |}, [1%Z])
                 | None => None end
  | AClone i j => match nth i slots None with
                 | Some a => Some ({| aheap := aheap w; acache := acache w; aslots := set_nth j (Some a) slots |}, [1%Z])
                 | None => None end
  | ADrop i => Some ({| aheap := aheap w; acache := acache w; aslots := set_nth i None slots |}, [1%Z])
  | AFlush => Some ({| aheap := aheap w; acache := None; aslots := slots |}, [1%Z])
  | AEnsure n => match ensure_capacity (aheap w) (acache w) n with
                 | Some (h', k') => Some ({| aheap := h'; acache := Some k'; aslots := slots |}, [1%Z])
                 | None => None end
  end.

Fixpoint arun (w : aworld) (ops : list aop) : list (list Z) :=
  match ops with
  | [] => []
  | o :: r => match astep w o with
              | None => [[99%Z]]
              | Some (w', ret) => ret :: obs_world w' ++ arun w' r
              end
  end.
Definition run_asl (ops : list aop) : list (list Z) :=
  arun {| aheap := []; acache := None; aslots := [None; None; None; None; None; None] |} ops.
