(* Executable entry point for the correspondence check of family `geo` (C03 C04 C05 C10 C20):
   a world of up to four OwningIovecs of the geometry-faithful model (iovec/Geo.v) over one heap.
   Nothing is taken from the implementation's observation: the model predicts slice pointers, anchors,
   the allocation cache, pending backrefs and the process-wide live chunk / byte counters. *)
From Coq Require Import NArith ZArith List Bool Arith.
From WP Require Import iovec.Geo.
Import ListNotations.
Open Scope N_scope.

Inductive gop := GNew | GDrop | GClone (j : nat) | GTake (j : nat)
  | GPush (bs : list N) | GPushCopy (bs : list N) | GPushBorrowed (bs : list N) | GExtend (items : list (list N))
  | GAnchored (bs : list N) (count : N) | GRegister (p : list N) | GBackfill (slot : nat) (src : list N)
  | GConsume (k : N) | GAdvance (n : N) | GPop | GRead (n : N) | GClear
  | GFlush | GEnsure (n : N) | GTakeArena | GSwapArena.

(* an object and the Backref handles the harness holds for it (None = already used) *)
Definition obj := (giov * list (option (option gbackref)))%type.
Record world := { wheap : heap; wobjs : list (option obj) }.

Fixpoint set_nth {A} (i : nat) (x : A) (l : list A) : list A :=
  match l, i with
  | [], _ => []
  | _ :: t, O => x :: t
  | h :: t, S j => h :: set_nth j x t
  end.

Definition zn (n : N) : Z := Z.of_N n.
Definition znat (n : nat) : Z := Z.of_nat n.

Fixpoint digest (l : list N) (i s1 s2 : N) : N * N * N :=
  match l with
  | [] => (i, s1, s2)
  | b :: t => digest t (i + 1) (s1 + b + 1) (s2 + (i + 1) * (b + 1))
  end.

Definition chunk_no (c : option nat) : Z := match c with Some c => znat (S c) | None => 0%Z end.

Definition obs_obj (h : heap) (o : option obj) : list (list Z) :=
  match o with
  | None => [[]; []; []; []; []; []; []]
  | Some (g, _) =>
    let '(n, s1, s2) := digest (all_bytes h g) 0 0 0 in
    [ [zn (total_size g); zn (nlen (gslices g)); if has_pending g then 0%Z else 1%Z;
       match stable_count g with Some k => zn k | None => (-1)%Z end];
      map (fun s => zn (sl_len s)) (gslices g);
      [zn n; zn s1; zn s2];
      flat_map (fun a => [zn (acount a); chunk_no (achunk a)]) (ganchors g);
      flat_map (fun s => match s with SArena c off _ => [znat (S c); zn off] | SExt _ => [0%Z; 0%Z] end) (gslices g);
      match gcache_ g with Some k => [znat (S (kchunk k)); zn (kcap h k); zn (kbump k)] | None => [] end;
      flat_map (fun b => [zn (bend b); zn (bidx b); zn (bbegin b); zn (blen b)]) (gbackrefs g) ]
  end.

Definition live_chunks (w : world) : list nat :=
  nodup Nat.eq_dec (flat_map (fun o => match o with Some (g, _) => holders g | None => [] end) (wobjs w)).
Definition obs_glob (w : world) : list Z :=
  let l := live_chunks w in
  [znat (length l); zn (fold_left (fun acc c => acc + ccap (chunk_at (wheap w) c)) l 0)].
Definition obs_world (w : world) : list (list Z) :=
  flat_map (obs_obj (wheap w)) (wobjs w) ++ [obs_glob w].

Definition put (w : world) (h : heap) (i : nat) (o : obj) : world :=
  {| wheap := h; wobjs := set_nth i (Some o) (wobjs w) |}.

(* one op on object i: new world and the return field; None = panic *)
Definition gstep (w : world) (i : nat) (o : gop) : option (world * list Z) :=
  let h := wheap w in
  match o with
  | GNew => Some (put w h i (empty_iov, []), [1%Z])
  | GDrop => Some ({| wheap := h; wobjs := set_nth i None (wobjs w) |}, [1%Z])
  | _ =>
    match nth i (wobjs w) None with
    | None => None
    | Some (g, slots) =>
      match o with
      | GClone j => Some (put w h j (clone g, []), [1%Z])
      | GTake j => Some (put (put w h i (empty_iov, [])) h j (g, slots), [1%Z])
      | GPush bs => match push h (SExt bs) g with Some (h', g') => Some (put w h' i (g', slots), [1%Z]) | None => None end
      | GPushCopy bs => match push_copy h bs g with Some (h', g') => Some (put w h' i (g', slots), [1%Z]) | None => None end
      | GPushBorrowed bs => match push_borrowed (SExt bs) g with Some g' => Some (put w h i (g', slots), [1%Z]) | None => None end
      | GExtend items => match extend (map SExt items) g with Some g' => Some (put w h i (g', slots), [1%Z]) | None => None end
      | GAnchored bs count =>
        match anchored_n h bs count g, anchored_slice h bs count g with
        | Some (h2, g2), Some s =>
          if sl_len s =? 0 then Some (put w h2 i (g2, slots), [1%Z])
          else
            (* did push() borrow the anchored memory (0) or copy it (1)? *)
            let copied := match s, back (removelast (ganchors g2)), back (gslices g2) with
                          | SArena c off len, _, Some (SArena c' off' len') =>
                            if Nat.eqb c c' && (off' + len' =? off + len) then 0%Z else 1%Z
                          | _, _, _ => 1%Z
                          end in
            Some (put w h2 i (g2, slots), [1%Z; copied])
        | _, _ => None
        end
      | GRegister p =>
        match register_patch h p g with
        | Some (h', g', b) => Some (put w h' i (g', slots ++ [Some b]), [1%Z; zn (nlen p)])
        | None => None
        end
      | GBackfill k src =>
        match nth k slots None with
        | None => None                                              (* expect("slot pending") in the harness *)
        | Some b => match backfill h b src g with
                    | Some (h', g') => Some (put w h' i (g', set_nth k None slots), [1%Z])
                    | None => None
                    end
        end
      | GConsume k => match consume k g with Some (g', n) => Some (put w h i (g', slots), [1%Z; zn n]) | None => None end
      | GAdvance n => match advance_slices n g with Some (g', c) => Some (put w h i (g', slots), [1%Z; zn c]) | None => None end
      | GPop => match pop_front g with Some g' => Some (put w h i (g', slots), [1%Z]) | None => None end
      | GRead n => match read h n g with
                   | Some (g', bs) => Some (put w h i (g', slots), 1%Z :: zn (nlen bs) :: map zn bs)
                   | None => None
                   end
      | GClear => Some (put w h i (clear g, []), [1%Z])
      | GFlush | GTakeArena | GSwapArena => Some (put w h i (set_cache None g, slots), [1%Z])
      | GEnsure n => match ensure_capacity h (gcache_ g) n with
                     | Some (h', k') => Some (put w h' i (set_cache (Some k') g, slots), [1%Z])
                     | None => None
                     end
      | _ => Some (w, [1%Z])
      end
    end
  end.

Fixpoint grun (w : world) (ops : list (nat * gop)) : list (list Z) :=
  match ops with
  | [] => []
  | (i, o) :: r =>
    match gstep w i o with
    | None => [[99%Z]]
    | Some (w', ret) => ret :: obs_world w' ++ grun w' r
    end
  end.
Definition run_geo (ops : list (nat * gop)) : list (list Z) :=
  grun {| wheap := []; wobjs := [None; None; None; None] |} ops.
