(* Executable entry point for the correspondence check of family `nfs` (C19).  The voucher is
   represented by t + K (the harness maps the real voucher of t to the same number).  Per op:
   [code; t; v; base after; number of trusted devices], code 0 Ok(Some(t,v)) / 1 Ok(None) / 2 Err /
   3 Ok(()) / 9 panic. *)
From Coq Require Import List NArith ZArith.
From WP Require Import time.Nfs.
Import ListNotations.

Definition K : N := 1000003.
Definition vouchK (t : N) : N := t + K.

Definition res_obs (r : res) : list Z :=
  match r with
  | RSome t v => [0; Z.of_N t; Z.of_N v]
  | RNone => [1; 0; 0]
  | RErr => [2; 0; 0]
  | RUnit => [3; 0; 0]
  | RPanic => [9; 0; 0]
  end%Z.

Fixpoint run_ops (s : st) (ops : list op) : list (list Z) :=
  match ops with
  | [] => []
  | o :: r =>
      let '(s', x) := step vouchK s o in
      let ob := (res_obs x ++ [Z.of_N (base s'); Z.of_nat (length (trusted s'))])%list in
      match x with RPanic => [ob] | _ => ob :: run_ops s' r end
  end.

Definition run_nfs (ops : list op) : list (list Z) := run_ops init ops.
