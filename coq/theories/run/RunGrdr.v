(* Executable entry point for family `grdr` (C05 C06): StreamReader::next_record_bytes at memory level (hcobs/GeoReader.v):
   for every record returned, its range and the complete structural state of the iovec handed out (slice pointers into
   the arena chunks the chunker read into, anchors, cache, bytes) and the live chunk / byte counters. *)
From Coq Require Import NArith ZArith List Bool Arith.
From WP Require Import hcobs.Stuffing hcobs.Dec iovec.Geo hcobs.GeoChunker hcobs.GeoReader run.RunGeo.
Import ListNotations.
Open Scope N_scope.

From WPGen Require Params.
(* the production limits, translated from the source on every run *)
Definition prod_mi : nat := N.to_nat WPGen.Params.PROD_MAX_INITIAL.
Definition prod_ms : nat := N.to_nat WPGen.Params.PROD_MAX_SUBSEQUENT.

Definition glob (h : heap) (r : grd) : list Z :=
  let l := nodup Nat.eq_dec (holders (riov r) ++ match achunk (as_anchor (gbuf (rchunker r))) with Some c => [c] | None => [] end) in
  [znat (length l); zn (fold_left (fun acc c => acc + ccap (chunk_at h c)) l 0)].

Fixpoint calls (n fuel : nat) (max limit : N) (bs : nat) (h : heap) (r : grd) : list (list Z) * heap * grd :=
  match n with
  | O => ([], h, r)
  | S n =>
    match gnext_record prod_mi prod_ms max limit bs fuel h r with
    | (GRecord rs re, h', r', _) =>
      let '(rest, hf, rf) := calls n fuel max limit bs h' r' in
      (([1%Z; znat rs; znat re] :: obs_obj h' (Some (riov r', [])) ++ [glob h' r']) ++ rest, hf, rf)
    | (GNone, h', r', _) => ([], h', r')
    | (_, h', r', _) => ([[99%Z]], h', r')
    end
  end.

(* (block size, max, limit, stream) *)
Definition run_grdr (c : N * N * N * list byte) : list (list Z) :=
  let '(bs, max, limit, stream) := c in
  let fuel := (length stream + 4)%nat in
  let r0 := {| rchunker := {| gbuf := as_default; goffset := 0; grest := stream |}; riov := empty_iov; rlso := 0 |} in
  let '(obs, h1, r1) := calls (length stream + 3) fuel max limit (N.to_nat bs) [] r0 in
  match obs with
  | [[99%Z]] => obs
  | _ =>
    if existsb (fun f => match f with [99%Z] => true | _ => false end) obs then obs
    else
      (* the stream stays ended *)
      match gnext_record prod_mi prod_ms max limit (N.to_nat bs) fuel h1 r1 with
      | (GNone, h2, r2, _) =>
        match gnext_record prod_mi prod_ms max limit (N.to_nat bs) fuel h2 r2 with
        | (GNone, h3, r3, _) => obs ++ [[1%Z; znat (rlso r3)]; glob h3 r3]
        | (_, h3, r3, _) => obs ++ [[0%Z; znat (rlso r3)]; glob h3 r3]
        end
      | (_, h2, r2, _) => obs ++ [[0%Z; znat (rlso r2)]; glob h2 r2]
      end
  end.
