(* Executable entry point for the correspondence check of family `readn` (C17). *)
From Coq Require Import NArith ZArith List.
From WP Require Import io.ReadN.
Import ListNotations.
Open Scope N_scope.

Definition z (n : N) : Z := Z.of_N n.
(* fields: result; bytes; request sizes; number of events consumed *)
Definition run_readn (c : N * N * list ev * list N) : list (list Z) :=
  let '(count, max, script, stream) := c in
  let o := read_n count max script stream in
  [ match res o with ROk g => [0%Z; z g] | RErr EIntr => [1%Z; 1%Z] | RErr (EOther _) => [1%Z; 2%Z] end;
    map z (data o); map z (calls o); [Z.of_nat (length (used o))] ].
