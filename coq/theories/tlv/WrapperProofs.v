From Coq Require Import List NArith ZArith Bool Lia ZifyBool ZifyNat ZifyN Permutation.
From WP Require Import tlv.View tlv.ViewProofs tlv.Wrapper.
Import ListNotations.
Open Scope N_scope.
Ltac Zify.zify_post_hook ::= Z.div_mod_to_equations.

Definition sumN (l : list N) : N := fold_right N.add 0 l.
Definition U32 : N := 4294967296.

Lemma inr_inj {A B} (a b : B) : @inr A B a = inr b -> a = b. Proof. congruence. Qed.
Lemma inl_inj {A B} (a b : A) : @inl A B a = inl b -> a = b. Proof. congruence. Qed.

(* ---- compute_len: the acceptance condition ---- *)
Lemma sum_lens_ok lens : forall acc, acc <= USIZE_MAX -> Forall (fun l => l <= I32MAX) lens ->
  sum_lens lens acc = Some (N.min (acc + sumN lens) USIZE_MAX).
Proof.
  induction lens as [|l r IH]; intros acc Ha H; cbn [sum_lens sumN fold_right].
  - f_equal. lia.
  - inversion H as [|? ? Hl Hr]; subst. assert (I32MAX <? l = false) as -> by lia.
    rewrite IH; [|unfold sat_add; lia|exact Hr]. f_equal. unfold sat_add, sumN. lia.
Qed.
Lemma sum_lens_none lens acc : ~ Forall (fun l => l <= I32MAX) lens -> sum_lens lens acc = None.
Proof.
  revert acc. induction lens as [|l r IH]; intros acc H; [exfalso; apply H; constructor|]. cbn [sum_lens].
  destruct (I32MAX <? l) eqn:E; [reflexivity|]. apply IH. intros Hr. apply H. constructor; [lia|exact Hr].
Qed.
Lemma Forall_dec_le lens : Forall (fun l => l <= I32MAX) lens \/ ~ Forall (fun l => l <= I32MAX) lens.
Proof.
  induction lens as [|l r [IH|IH]]; [left; constructor| |right; intros H; inversion H; auto].
  destruct (N.le_gt_cases l I32MAX); [left; constructor; auto|right; intros H'; inversion H'; lia].
Qed.

(* accepted exactly when the pair count, every value length and the total encoded size are within
   i32::MAX; the stored length is the size the layout needs *)
Theorem compute_len_accepts lens n :
  compute_len lens = inr n <->
  (lenN lens <= I32MAX /\ Forall (fun l => l <= I32MAX) lens /\ layout_size lens <= I32MAX /\ n = layout_size lens).
Proof.
  unfold compute_len, layout_size. fold (sumN lens). destruct (I32MAX <? lenN lens) eqn:En.
  { split; [discriminate|]. intros (H & _). lia. }
  apply N.ltb_ge in En. destruct (Forall_dec_le lens) as [F|F].
  - pose proof (sum_lens_ok lens 0 ltac:(unfold USIZE_MAX; lia) F) as E. rewrite E.
    unfold sat_add, sat_mul, sat_sub, USIZE_MAX, I32MAX in *.
    match goal with |- context[if ?c then _ else _] => destruct c eqn:Et end.
    + apply N.ltb_lt in Et. split; [discriminate|]. intros (_ & _ & H & _). lia.
    + split.
      * intros H. apply inr_inj in H. apply N.ltb_ge in Et. repeat split; auto; lia.
      * intros (_ & _ & H & ->). apply N.ltb_ge in Et. f_equal. lia.
  - rewrite (sum_lens_none lens 0 F). split; [discriminate|]. intros (_ & H & _). contradiction.
Qed.

(* which error: in the code's order *)
Lemma sat_total a s : a <= I32MAX ->
  sat_add (sat_add (sat_add 4 (sat_mul (sat_sub a 1) 4)) (sat_mul a 4)) (N.min (0 + s) USIZE_MAX)
  = N.min (4 + 4 * (a - 1) + 4 * a + s) USIZE_MAX.
Proof. intros H. unfold sat_add, sat_mul, sat_sub, USIZE_MAX, I32MAX in *. lia. Qed.

Lemma compute_len_closed lens : lenN lens <= I32MAX -> Forall (fun l => l <= I32MAX) lens ->
  compute_len lens = if I32MAX <? N.min (layout_size lens) USIZE_MAX then inl TotalTooLarge else inr (N.min (layout_size lens) USIZE_MAX).
Proof.
  intros En F. unfold compute_len. assert (I32MAX <? lenN lens = false) as -> by lia.
  rewrite (sum_lens_ok lens 0 ltac:(unfold USIZE_MAX; lia) F). rewrite (sat_total _ _ En). reflexivity.
Qed.

Theorem compute_len_errors lens :
  match compute_len lens with
  | inl TooManyElements => I32MAX < lenN lens
  | inl ValueTooLarge => lenN lens <= I32MAX /\ ~ Forall (fun l => l <= I32MAX) lens
  | inl TotalTooLarge => lenN lens <= I32MAX /\ Forall (fun l => l <= I32MAX) lens /\ I32MAX < layout_size lens
  | inl NonMonotonicTagsE => False
  | inr n => n = layout_size lens
  end.
Proof.
  destruct (N.lt_ge_cases I32MAX (lenN lens)) as [En|En].
  { unfold compute_len. assert (I32MAX <? lenN lens = true) as -> by lia. exact En. }
  destruct (Forall_dec_le lens) as [F|F].
  - rewrite (compute_len_closed lens En F).
    destruct (I32MAX <? N.min (layout_size lens) USIZE_MAX) eqn:Et.
    + apply N.ltb_lt in Et. split; [exact En|]. split; [exact F|]. unfold USIZE_MAX, I32MAX in *. lia.
    + apply N.ltb_ge in Et. unfold USIZE_MAX, I32MAX in *. lia.
  - unfold compute_len. assert (I32MAX <? lenN lens = false) as -> by lia. rewrite (sum_lens_none lens 0 F). split; assumption.
Qed.

(* ---- the stable sort ---- *)
Section SortFacts.
Variable V : Type.
Notation ent := (N * V)%type.

Fixpoint sorted (l : list ent) : Prop :=
  match l with a :: (b :: _) as t => fst a <= fst b /\ sorted t | _ => True end.

Lemma tags_decrease_false (l : list ent) : tags_decrease l = false <-> sorted l.
Proof.
  induction l as [|a t IH]; cbn [tags_decrease sorted]; [tauto|]. destruct t as [|b t']; [tauto|].
  rewrite orb_false_iff, IH. split; [intros (H & ?); split; [lia|auto]|intros (H & ?); split; [lia|auto]].
Qed.

Lemma insert_perm a (l : list ent) : Permutation (insert a l) (a :: l).
Proof.
  induction l as [|q r IH]; cbn [insert]; [reflexivity|]. destruct (fst a <=? fst q); [reflexivity|].
  rewrite IH. apply perm_swap.
Qed.
Lemma sort_perm (l : list ent) : Permutation (sort l) l.
Proof. induction l as [|a t IH]; cbn [sort fold_right]; [reflexivity|]. fold (sort t). rewrite insert_perm. now constructor. Qed.

Lemma sorted_tail a (l : list ent) : sorted (a :: l) -> sorted l.
Proof. destruct l; cbn; tauto. Qed.
Lemma insert_sorted a (l : list ent) : sorted l -> sorted (insert a l).
Proof.
  induction l as [|q r IH]; intros H; cbn [insert]; [exact I|]. destruct (fst a <=? fst q) eqn:E.
  - cbn [sorted]. split; [lia|exact H].
  - specialize (IH (sorted_tail q r H)). destruct r as [|q2 r2]; cbn [insert] in *.
    + cbn [sorted]. split; [lia|exact I].
    + destruct (fst a <=? fst q2) eqn:E2; cbn [sorted] in *; [split; [lia|exact IH]|split; [tauto|exact IH]].
Qed.
Lemma sort_sorted (l : list ent) : sorted (sort l).
Proof. induction l as [|a t IH]; cbn [sort fold_right]; [exact I|]. apply insert_sorted. exact IH. Qed.

(* stability: pairs with equal tags keep their insertion order *)
Lemma insert_filter a (l : list ent) t : sorted l ->
  filter (fun e => fst e =? t) (insert a l) = filter (fun e => fst e =? t) (a :: l).
Proof.
  induction l as [|q r IH]; intros H; cbn [insert]; [reflexivity|]. destruct (fst a <=? fst q) eqn:E; [reflexivity|].
  cbn [filter]. rewrite (IH (sorted_tail q r H)). cbn [filter].
  destruct (fst a =? t) eqn:Ea; destruct (fst q =? t) eqn:Eq; try reflexivity. lia.
Qed.
Theorem sort_stable (l : list ent) t : filter (fun e => fst e =? t) (sort l) = filter (fun e => fst e =? t) l.
Proof.
  induction l as [|a r IH]; [reflexivity|]. cbn [sort fold_right]. fold (sort r).
  rewrite insert_filter by apply sort_sorted. cbn [filter]. now rewrite IH.
Qed.
Lemma insert_sorted_id a (l : list ent) : sorted (a :: l) -> insert a l = a :: l.
Proof. destruct l as [|q r]; [reflexivity|]. cbn [sorted insert]. intros (H & _). assert (fst a <=? fst q = true) as -> by lia. reflexivity. Qed.
Theorem sort_sorted_id (l : list ent) : sorted l -> sort l = l.
Proof.
  induction l as [|a r IH]; intros H; [reflexivity|]. cbn [sort fold_right]. fold (sort r).
  rewrite IH by (eapply sorted_tail; eauto). apply insert_sorted_id. exact H.
Qed.
Lemma sort_length (l : list ent) : length (sort l) = length l.
Proof. apply Permutation_length, sort_perm. Qed.
End SortFacts.
Arguments sorted {V}.

(* ---- le32 ---- *)
Lemma le32_bytes_length x : length (le32_bytes x) = 4%nat. Proof. reflexivity. Qed.
Lemma le32_roundtrip x : x < U32 -> match le32_bytes x with [a; b; c; d] => le32 a b c d = x | _ => False end.
Proof. intros H. unfold le32_bytes, le32, U32 in *. lia. Qed.
Lemma words_le32s xs r : Forall (fun x => x < U32) xs -> (length r < 4)%nat -> words (flat_map le32_bytes xs ++ r) = xs.
Proof.
  intros H Hr. induction H as [|x t Hx Ht IH]; cbn [flat_map app].
  - destruct r as [|a [|b [|c [|d r']]]]; try reflexivity. cbn [length] in Hr. lia.
  - pose proof (le32_roundtrip x Hx) as E. unfold le32_bytes in *. cbn [app]. rewrite words_app4, E, IH. reflexivity.
Qed.
Lemma flat_map_le32_length xs : length (flat_map le32_bytes xs) = (4 * length xs)%nat.
Proof. induction xs as [|x t IH]; [reflexivity|]. cbn [flat_map]. rewrite app_length, IH. cbn [le32_bytes length]. lia. Qed.

(* ---- the offsets loop writes the cumulative ends ---- *)
Fixpoint cums (s : N) (lens : list N) : list N :=
  match lens with [] => [] | l :: r => s :: cums (s + l) r end.
Lemma ends_from_cums acc l r : ends_from acc (l :: r) = cums (acc + l) r.
Proof.
  revert acc l. induction r as [|l2 r2 IH]; intros acc l; [reflexivity|].
  change (ends_from acc (l :: l2 :: r2)) with ((acc + l) :: ends_from (acc + l) (l2 :: r2)). now rewrite IH.
Qed.
Lemma enc_offsets_some lens : forall s, Forall (fun l => l <= I32MAX) lens -> s + sumN lens <= I32MAX ->
  enc_offsets lens (Some s) = Ok (flat_map le32_bytes (cums s lens)).
Proof.
  induction lens as [|l r IH]; intros s F H; cbn [enc_offsets cums flat_map]; [reflexivity|].
  inversion F as [|? ? Hl Hr]; subst. assert (I32MAX <? l = false) as -> by lia.
  cbn [sumN fold_right] in H. fold (sumN r) in H.
  assert (N.min (s + l) 4294967295 = s + l) as -> by (unfold I32MAX in *; lia).
  assert (I32MAX <? s + l = false) as -> by lia.
  rewrite IH by (auto; lia). reflexivity.
Qed.
Lemma enc_offsets_none lens : Forall (fun l => l <= I32MAX) lens -> sumN lens <= I32MAX ->
  enc_offsets lens None = Ok (flat_map le32_bytes (ends_from 0 lens)).
Proof.
  intros F H. destruct lens as [|l r]; [reflexivity|]. cbn [enc_offsets]. inversion F as [|? ? Hl Hr]; subst.
  assert (I32MAX <? l = false) as -> by lia. rewrite ends_from_cums. cbn [sumN fold_right] in H. fold (sumN r) in H.
  rewrite enc_offsets_some by (auto; lia). reflexivity.
Qed.

Definition lens_of (es : list entry) : list N := map (fun e => lenN (snd e)) es.
Lemma lens_of_length es : lenN (lens_of es) = lenN es.
Proof. unfold lens_of, lenN. now rewrite map_length. Qed.

(* encode never trips an assertion once construction succeeded, and writes exactly the layout *)
Theorem encode_is_layout es n : compute_len (lens_of es) = inr n -> encode es = Ok (layout es).
Proof.
  intros H. apply compute_len_accepts in H as (Hn & F & HT & _). rewrite lens_of_length in Hn.
  unfold encode. assert (I32MAX <? lenN es = false) as -> by lia.
  fold (lens_of es). rewrite enc_offsets_none; [reflexivity|exact F|].
  unfold layout_size in HT. fold (sumN (lens_of es)) in HT. lia.
Qed.

Lemma cums_length s lens : length (cums s lens) = length lens.
Proof. revert s. induction lens as [|l r IH]; intros s; cbn [cums length]; [reflexivity|]. now rewrite IH. Qed.
Lemma ends_from_length lens : length (ends_from 0 lens) = (length lens - 1)%nat.
Proof. destruct lens as [|l r]; [reflexivity|]. rewrite ends_from_cums, cums_length. cbn [length]. lia. Qed.
Lemma flat_map_snd_length (es : list entry) : lenN (flat_map snd es) = sumN (lens_of es).
Proof.
  induction es as [|e t IH]; [reflexivity|]. cbn [flat_map lens_of map sumN fold_right]. rewrite lenN_app.
  unfold lens_of, sumN in IH. rewrite IH. reflexivity.
Qed.
Lemma flat_map_tags_length (es : list entry) : length (flat_map (fun e => le32_bytes (fst e)) es) = (4 * length es)%nat.
Proof. induction es as [|e t IH]; [reflexivity|]. cbn [flat_map]. rewrite app_length, IH. cbn [le32_bytes length]. lia. Qed.

(* the emitted length equals rough_tlv_len *)
Lemma lenN_flat_le32 xs : lenN (flat_map le32_bytes xs) = 4 * lenN xs.
Proof. unfold lenN. rewrite flat_map_le32_length. lia. Qed.
Lemma lenN_ends lens : lenN (ends_from 0 lens) = lenN lens - 1.
Proof. unfold lenN. rewrite ends_from_length. lia. Qed.
Lemma lenN_flat_tags (es : list entry) : lenN (flat_map (fun e => le32_bytes (fst e)) es) = 4 * lenN es.
Proof. unfold lenN. rewrite flat_map_tags_length. lia. Qed.
Theorem layout_length es : lenN (layout es) = layout_size (lens_of es).
Proof.
  unfold layout, layout_size. fold (lens_of es). fold (sumN (lens_of es)).
  rewrite !lenN_app, flat_map_snd_length, lenN_flat_le32, lenN_ends, lenN_flat_tags, lens_of_length.
  change (lenN (le32_bytes (lenN es))) with 4. lia.
Qed.
Corollary encode_length es n bytes : compute_len (lens_of es) = inr n -> encode es = Ok bytes -> lenN bytes = n.
Proof.
  intros H E. rewrite (encode_is_layout es n H) in E. inversion E; subst bytes.
  rewrite layout_length. apply compute_len_accepts in H. symmetry. tauto.
Qed.

(* ---- reading the layout back with MessageView (C12's model) ---- *)
Lemma firstn_app_exact {A} (a b : list A) k : k = length a -> firstn k (a ++ b) = a.
Proof. intros ->. rewrite firstn_app, Nat.sub_diag, firstn_all. cbn [firstn]. apply app_nil_r. Qed.
Lemma skipn_app_exact {A} (a b : list A) k : k = length a -> skipn k (a ++ b) = b.
Proof. intros ->. rewrite skipn_app, Nat.sub_diag, skipn_all. reflexivity. Qed.

Lemma nondecr_cums lens : forall s, nondecr (cums s lens).
Proof.
  induction lens as [|l r IH]; intros s; cbn [cums]; [exact I|]. specialize (IH (s + l)).
  destruct r as [|l2 r2]; cbn [cums] in *; [exact I|]. split; [lia|exact IH].
Qed.
Lemma cums_bound lens : forall s x, In x (cums s lens) -> x <= s + sumN lens.
Proof.
  induction lens as [|l r IH]; intros s x H; cbn [cums] in H; [destruct H|]. cbn [sumN fold_right]. fold (sumN r).
  destruct H as [<-|H]; [lia|]. specialize (IH _ _ H). lia.
Qed.
Lemma cums_lt lens s x : In x (cums s lens) -> s <= x.
Proof. revert s. induction lens as [|l r IH]; intros s H; cbn [cums] in H; [destruct H|]. destruct H as [<-|H]; [lia|]. specialize (IH _ H). lia. Qed.

Lemma last_opt_in {A} (l : list A) x : last_opt l = Some x -> In x l.
Proof.
  unfold last_opt. intros H. destruct (rev l) as [|y r] eqn:E; [discriminate|]. inversion H; subst y.
  apply in_rev. rewrite E. now left.
Qed.

Lemma pieces_values r : forall v P,
  pieces (P ++ v ++ concat r) (lenN P) (cums (lenN P + lenN v) (map (@lenN N) r)) = v :: r.
Proof.
  induction r as [|v2 r2 IH]; intros v P; cbn [map cums pieces concat].
  - rewrite app_nil_r. rewrite skipn_app_exact by (unfold lenN; lia). reflexivity.
  - f_equal.
    + rewrite skipn_app_exact by (unfold lenN; lia). apply firstn_app_exact. unfold lenN. lia.
    + specialize (IH v2 (P ++ v)). rewrite lenN_app in IH. rewrite <- app_assoc in IH. exact IH.
Qed.

Lemma sorted_nondecr_tags (es : list entry) : sorted es -> nondecr (map fst es).
Proof.
  induction es as [|a t IH]; intros H; [exact I|]. destruct t as [|b t']; [exact I|]. cbn [map nondecr sorted] in *.
  destruct H as (H1 & H2). split; [exact H1|apply IH; exact H2].
Qed.

Lemma flat_map_tags_eq (es : list entry) : flat_map (fun e => le32_bytes (fst e)) es = flat_map le32_bytes (map fst es).
Proof. induction es as [|e t IH]; [reflexivity|]. cbn [flat_map map]. now rewrite IH. Qed.
Lemma lens_of_map (es : list entry) : lens_of es = map (@lenN N) (map snd es).
Proof. unfold lens_of. now rewrite map_map. Qed.

Theorem view_of_layout es n :
  compute_len (lens_of es) = inr n -> sorted es -> Forall (fun e => fst e < U32) es ->
  Wf (layout es) /\ hdr_n (layout es) = lenN es /\ hdr_tags (layout es) = map fst es /\
  spec_values (layout es) = map snd es.
Proof.
  intros HC HS HT. pose proof (layout_length es) as LL.
  apply compute_len_accepts in HC as (Hn & F & HTot & _). rewrite lens_of_length in Hn.
  unfold layout_size in HTot, LL. fold (sumN (lens_of es)) in HTot, LL. rewrite lens_of_length in HTot, LL.
  set (k := lenN es) in *. set (Sm := sumN (lens_of es)) in *.
  assert (Hk : k < U32) by (unfold I32MAX, U32 in *; lia).
  (* the field count *)
  assert (EN : hdr_n (layout es) = k).
  { unfold layout. fold k. pose proof (le32_roundtrip k Hk) as E. unfold le32_bytes in *. exact E. }
  destruct es as [|e0 es'].
  { (* the empty message *)
    subst k. cbn in EN |- *. repeat split; try reflexivity; try (vm_compute; discriminate); try exact I;
    try (intros lo H; discriminate). }
  assert (K1 : 1 <= k) by (unfold k, lenN; cbn [length]; lia).
  set (es := e0 :: es') in *.
  set (ends := ends_from 0 (lens_of es)).
  set (A := le32_bytes k). set (B := flat_map le32_bytes ends).
  set (C := flat_map (fun e => le32_bytes (fst e)) es). set (D := flat_map snd es).
  assert (ED : layout es = A ++ B ++ C ++ D) by reflexivity.
  assert (LA : length A = 4%nat) by reflexivity.
  assert (LB : length B = N.to_nat (4 * (k - 1))).
  { unfold B. rewrite flat_map_le32_length. unfold ends. rewrite ends_from_length. unfold lens_of. rewrite map_length. unfold k, lenN. unfold entry. lia. }
  assert (LC : length C = N.to_nat (4 * k)) by (unfold C; rewrite flat_map_tags_length; unfold k, lenN; unfold entry; lia).
  assert (LD : lenN D = Sm) by apply flat_map_snd_length.
  assert (Eends : ends = cums (lenN (snd e0)) (lens_of es')).
  { unfold ends, es. cbn [lens_of map]. rewrite ends_from_cums. reflexivity. }
  assert (Bends : forall x, In x ends -> x <= Sm).
  { intros x Hx. rewrite Eends in Hx. apply cums_bound in Hx. unfold Sm, es. cbn [lens_of map sumN fold_right]. exact Hx. }
  (* the offsets *)
  assert (EO : hdr_offs (layout es) = ends).
  { unfold hdr_offs. rewrite EN, ED. rewrite (skipn_app_exact A) by (symmetry; exact LA).
    rewrite (firstn_app_exact B) by (symmetry; exact LB). unfold B.
    rewrite <- (app_nil_r (flat_map le32_bytes ends)). apply words_le32s; [|cbn; lia].
    apply Forall_forall. intros x Hx. specialize (Bends x Hx). unfold I32MAX, U32 in *. lia. }
  (* the tags *)
  assert (ETg : hdr_tags (layout es) = map fst es).
  { unfold hdr_tags. rewrite EN, ED. rewrite app_assoc. rewrite (skipn_app_exact (A ++ B)) by (rewrite app_length; lia).
    rewrite (firstn_app_exact C) by (symmetry; exact LC). unfold C. rewrite flat_map_tags_eq.
    rewrite <- (app_nil_r (flat_map le32_bytes (map fst es))). apply words_le32s; [|cbn; lia].
    apply Forall_forall. intros x Hx. apply in_map_iff in Hx as (e & <- & He). rewrite Forall_forall in HT. auto. }
  assert (ETail : tail_of (layout es) = D).
  { unfold tail_of. rewrite EN, ED. rewrite !app_assoc. apply skipn_app_exact. rewrite !app_length. lia. }
  assert (W : Wf (layout es)).
  { unfold Wf. rewrite EN, EO, ETg, LL. repeat split; try lia.
    - rewrite Eends. apply nondecr_cums.
    - apply sorted_nondecr_tags. exact HS.
    - intros lo Hlo. apply last_opt_in in Hlo. specialize (Bends lo Hlo). lia. }
  split; [exact W|]. split; [exact EN|]. split; [exact ETg|].
  unfold spec_values. rewrite EN. assert (k =? 0 = false) as -> by lia. rewrite ETail, EO, Eends.
  unfold D, es. cbn [flat_map map]. rewrite flat_map_concat_map, lens_of_map.
  pose proof (pieces_values (map snd es') (snd e0) []) as P. cbn [app] in P. rewrite lenN_nil in P.
  replace (0 + lenN (snd e0)) with (lenN (snd e0)) in P by lia. exact P.
Qed.

Lemma combine_fst_snd {A B} (l : list (A * B)) : combine (map fst l) (map snd l) = l.
Proof. induction l as [|[a b] t IH]; [reflexivity|]. cbn. now rewrite IH. Qed.

(* encode then view: accepted, and iteration / indexing return the same pairs in the same order *)
Theorem view_round_trip es n :
  compute_len (lens_of es) = inr n -> sorted es -> Forall (fun e => fst e < U32) es ->
  view_new (layout es) = Ok None /\ iter (layout es) = Ok es /\
  (forall i, get (layout es) i = Ok (nthN es i)) /\
  (forall t j, bsearch_ok (map fst es) t j ->
     match j with
     | Some j => exists v, find (layout es) (Some j) = Ok (Some v) /\ nthN es j = Some (t, v)
     | None => find (layout es) None = Ok None /\ ~ In t (map fst es)
     end).
Proof.
  intros HC HS HT. destruct (view_of_layout es n HC HS HT) as (W & EN & ETg & EV).
  split; [apply view_new_accepts_iff; exact W|]. split.
  - rewrite iter_spec by exact W. rewrite ETg, EV, combine_fst_snd. reflexivity.
  - split.
    + intros i. rewrite get_spec by exact W. rewrite ETg, EV. f_equal. unfold nthN, lenN, entry in *. rewrite !map_length.
      destruct (i <? N.of_nat (length es)); [|reflexivity]. rewrite !nth_error_map.
      destruct (nth_error es (N.to_nat i)) as [[t v]|]; reflexivity.
    + intros t j HB. rewrite <- ETg in HB. pose proof (find_spec (layout es) t j W HB) as H. destruct j as [j|].
      * destruct H as (v & H1 & H2 & H3). exists v. split; [exact H1|]. rewrite ETg in H2. rewrite EV in H3.
        unfold nthN, lenN, entry in *. rewrite map_length in H2, H3. destruct (j <? N.of_nat (length es)); [|discriminate].
        rewrite nth_error_map in H2, H3. destruct (nth_error es (N.to_nat j)) as [[t' v']|]; [|discriminate].
        cbn in H2, H3. inversion H2; inversion H3; subst. reflexivity.
      * rewrite ETg in H. exact H.
Qed.

(* nested messages: the bytes of a nested value are the layout of its own sorted pairs, and its
   reported length is their number (the ToRoughTLV contract for MessageWrapper values) *)
Theorem nested_value_len ps n :
  compute_len (lens_of (sort (map (fun p => (fst p, vbytes (snd p))) ps))) = inr n ->
  lenN (vbytes (VMsg ps)) = n.
Proof.
  intros H. cbn [vbytes]. rewrite layout_length. apply compute_len_accepts in H. symmetry. tauto.
Qed.
