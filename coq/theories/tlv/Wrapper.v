(* C11: faithful model of rough_tlv/src/encoder.rs (MessageWrapper) and the layout specification.
   A value is modelled by the bytes its to_rough_tlv writes; rough_tlv_len is their number (the
   trait's contract; for nested messages it is theorem encode_length).  `compute_len` takes the
   list of reported lengths alone, so that the limit theorem also covers values far too large to
   materialise.  usize arithmetic is 64-bit and saturating exactly where the code saturates. *)
From Coq Require Import List NArith Bool.
From WP Require Import tlv.View.
Import ListNotations.
Open Scope N_scope.

Definition I32MAX : N := 2147483647.
Definition USIZE_MAX : N := 18446744073709551615.
Definition sat_add (a b : N) : N := N.min (a + b) USIZE_MAX.
Definition sat_mul (a b : N) : N := N.min (a * b) USIZE_MAX.
Definition sat_sub (a b : N) : N := a - b.     (* N subtraction truncates at 0 like saturating_sub *)

Inductive eerr := NonMonotonicTagsE | TooManyElements | ValueTooLarge | TotalTooLarge.

(* the values loop of compute_len: None = some value is larger than i32::MAX *)
Fixpoint sum_lens (lens : list N) (acc : N) : option N :=
  match lens with
  | [] => Some acc
  | l :: r => if I32MAX <? l then None else sum_lens r (sat_add acc l)
  end.

Definition compute_len (lens : list N) : eerr + N :=
  let n := lenN lens in
  if I32MAX <? n then inl TooManyElements
  else
    let ret := 4 in
    let ret := sat_add ret (sat_mul (sat_sub n 1) 4) in
    let ret := sat_add ret (sat_mul n 4) in
    match sum_lens lens 0 with
    | None => inl ValueTooLarge
    | Some tot =>
      let ret := sat_add ret tot in
      if I32MAX <? ret then inl TotalTooLarge else inr ret
    end.

Definition le32_bytes (x : N) : list N :=
  [x mod 256; (x / 256) mod 256; (x / 65536) mod 256; (x / 16777216) mod 256].

Inductive ctor := New | NewFromSlice | NewFromSorted.

Section Generic.
(* V: whatever a value is; vlen: its rough_tlv_len *)
Variable V : Type.
Variable vlen : V -> N.

(* slice::sort_by_key is a stable sort; modelled as insertion sort *)
Fixpoint insert (a : N * V) (l : list (N * V)) : list (N * V) :=
  match l with
  | [] => [a]
  | q :: r => if fst a <=? fst q then a :: l else q :: insert a r
  end.
Definition sort (l : list (N * V)) : list (N * V) := fold_right insert [] l.

(* some adjacent pair has cur > next *)
Fixpoint tags_decrease (l : list (N * V)) : bool :=
  match l with
  | a :: (b :: _) as t => (fst b <? fst a) || tags_decrease t
  | _ => false
  end.

(* a constructed wrapper: (len, entries in encoding order) *)
Definition wrap (c : ctor) (es : list (N * V)) : eerr + (N * list (N * V)) :=
  match c with
  | NewFromSorted =>
    if tags_decrease es then inl NonMonotonicTagsE
    else match compute_len (map (fun e => vlen (snd e)) es) with inl e => inl e | inr n => inr (n, es) end
  | _ =>
    let s := sort es in
    match compute_len (map (fun e => vlen (snd e)) s) with inl e => inl e | inr n => inr (n, s) end
  end.
End Generic.
Arguments insert {V}. Arguments sort {V}. Arguments tags_decrease {V}. Arguments wrap {V}.

Definition entry := (N * list N)%type.     (* (tag, value bytes) *)

(* the offsets loop of encode: `acc: Option<u32>`; Panic = one of its assert!s *)
Fixpoint enc_offsets (lens : list N) (acc : option N) : res (list N) :=
  match lens with
  | [] => Ok []
  | l :: r =>
    if I32MAX <? l then Panic
    else match acc with
         | None => enc_offsets r (Some l)
         | Some sum =>
           let sum' := N.min (sum + l) 4294967295 in      (* u32 saturating_add *)
           if I32MAX <? sum' then Panic
           else rest <- enc_offsets r (Some sum') ;; Ok (le32_bytes sum ++ rest)
         end
  end.

Definition encode (es : list entry) : res (list N) :=
  if I32MAX <? lenN es then Panic
  else
    offs <- enc_offsets (map (fun e => lenN (snd e)) es) None ;;
    Ok (le32_bytes (lenN es) ++ offs ++ flat_map (fun e => le32_bytes (fst e)) es ++ flat_map snd es).

(* ---- the Roughtime layout, as a specification ---- *)
(* cumulative end offsets of all values but the last *)
Fixpoint ends_from (acc : N) (lens : list N) : list N :=
  match lens with
  | [] => []
  | [_] => []
  | l :: r => (acc + l) :: ends_from (acc + l) r
  end.
Definition layout (es : list entry) : list N :=
  le32_bytes (lenN es)
  ++ flat_map le32_bytes (ends_from 0 (map (fun e => lenN (snd e)) es))
  ++ flat_map (fun e => le32_bytes (fst e)) es
  ++ flat_map snd es.

(* total encoded size according to the format: 4 + 4(n-1) + 4n + sum of value sizes *)
Definition layout_size (lens : list N) : N :=
  4 + 4 * (lenN lens - 1) + 4 * lenN lens + fold_right N.add 0 lens.

(* nested messages: a value that is itself a message is the layout of its (sorted) entries *)
Inductive value := VBytes (b : list N) | VMsg (ps : list (N * value)).
Fixpoint vbytes (v : value) : list N :=
  match v with
  | VBytes b => b
  | VMsg ps => layout (sort (map (fun p => (fst p, vbytes (snd p))) ps))
  end.
