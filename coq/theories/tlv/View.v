(* C12: faithful model of rough_tlv/src/decoder.rs (MessageView) at byte level.
   Bytes are N; sizes and indices are N (usize / u32 / u64 arithmetic never overflows here: the
   field count is a u32 and every product is at most 8 * 2^32).  Every slice expression
   `storage[a..b]` is `sub`, whose failure is the Panic outcome.  No proofs in this file. *)
From Coq Require Import List NArith Bool.
Import ListNotations.
Open Scope N_scope.

Inductive res (T : Type) := Ok (x : T) | Panic.
Arguments Ok {T}. Arguments Panic {T}.
Definition bind {A B} (r : res A) (f : A -> res B) : res B := match r with Ok x => f x | Panic => Panic end.
Notation "x <- r ;; k" := (bind r (fun x => k)) (at level 61, r at next level, right associativity).

Definition lenN {A} (d : list A) : N := N.of_nat (length d).

(* storage[a..b]: panics unless a <= b <= len *)
Definition sub (d : list N) (a b : N) : res (list N) :=
  if (a <=? b) && (b <=? lenN d) then Ok (firstn (N.to_nat (b - a)) (skipn (N.to_nat a) d)) else Panic.

Definition le32 (b0 b1 b2 b3 : N) : N := b0 + 256 * b1 + 65536 * b2 + 16777216 * b3.

(* slice_as_tags: groups of four bytes, a trailing partial group is dropped *)
Fixpoint words (l : list N) : list N :=
  match l with
  | b0 :: b1 :: b2 :: b3 :: r => le32 b0 b1 b2 b3 :: words r
  | _ => []
  end.

(* u32::from_le_bytes(storage[0..4].try_into().unwrap()) *)
Definition num_values (d : list N) : res N :=
  s <- sub d 0 4 ;; match s with [b0; b1; b2; b3] => Ok (le32 b0 b1 b2 b3) | _ => Panic end.

Definition offsets (d : list N) : res (list N) :=
  n <- num_values d ;; s <- sub d 4 (N.max (4 * n) 4) ;; Ok (words s).
Definition tags (d : list N) : res (list N) :=
  n <- num_values d ;; s <- sub d (4 * n) (8 * n) ;; Ok (words s).

(* first adjacent pair (rank, left, right) with left > right *)
Fixpoint nonmonotonic (idx : N) (xs : list N) : option (N * N * N) :=
  match xs with
  | a :: (b :: _) as t => if b <? a then Some (idx, a, b) else nonmonotonic (idx + 1) t
  | _ => None
  end.

Inductive verr := ImpossibleHeader | TruncatedHeader | NonMonotonicOffsets | NonMonotonicTags | TruncatedPayload.

Definition last_opt {A} (l : list A) : option A := hd_error (rev l).

(* MessageView::new: Ok None = accepted *)
Definition view_new (d : list N) : res (option verr) :=
  if lenN d <? 4 then Ok (Some ImpossibleHeader)
  else
    n <- num_values d ;;
    if lenN d <? 8 * n then Ok (Some TruncatedHeader)
    else
      offs <- offsets d ;;
      match nonmonotonic 0 offs with
      | Some _ => Ok (Some NonMonotonicOffsets)
      | None =>
        tgs <- tags d ;;
        match nonmonotonic 0 tgs with
        | Some _ => Ok (Some NonMonotonicTags)
        | None =>
          match last_opt offs with
          | Some lo => if lenN d <? 8 * n + lo then Ok (Some TruncatedPayload) else Ok None
          | None => Ok None
          end
        end
      end.

Definition nthN {A} (l : list A) (i : N) : option A :=
  if i <? lenN l then nth_error l (N.to_nat i) else None.

(* get_value (current code, with the index guard of commit 2065279) *)
Definition get_value (d : list N) (index : N) : res (option (list N)) :=
  n <- num_values d ;;
  if n <=? index then Ok None
  else
    let header := 8 * n in
    offs <- offsets d ;;
    match (if index =? lenN offs then Some (lenN d)
           else match nthN offs index with Some o => Some (o + header) | None => None end) with
    | None => Ok None
    | Some end_ =>
      match (if index =? 0 then Some 0 else nthN offs (index - 1)) with
      | None => Ok None
      | Some start => s <- sub d (header + start) end_ ;; Ok (Some s)
      end
    end.

(* the code before commit 2065279 (finding F3): no index guard *)
Definition get_value_prefix (d : list N) (index : N) : res (option (list N)) :=
  n <- num_values d ;;
  let header := 8 * n in
  offs <- offsets d ;;
  match (if index =? lenN offs then Some (lenN d)
         else match nthN offs index with Some o => Some (o + header) | None => None end) with
  | None => Ok None
  | Some end_ =>
    match (if index =? 0 then Some 0 else nthN offs (index - 1)) with
    | None => Ok None
    | Some start => s <- sub d (header + start) end_ ;; Ok (Some s)
    end
  end.

Definition get (d : list N) (index : N) : res (option (N * list N)) :=
  tgs <- tags d ;;
  match nthN tgs index with
  | None => Ok None
  | Some t => v <- get_value d index ;; match v with Some v => Ok (Some (t, v)) | None => Ok None end
  end.

(* iter(): tags.zip(starts.zip(ends)).map(slice) *)
Fixpoint zip3 (ts ss es : list N) : list (N * N * N) :=
  match ts, ss, es with
  | t :: ts', s :: ss', e :: es' => (t, s, e) :: zip3 ts' ss' es'
  | _, _, _ => []
  end.
Fixpoint slices (d : list N) (header : N) (l : list (N * N * N)) : res (list (N * list N)) :=
  match l with
  | [] => Ok []
  | (t, s, e) :: r => v <- sub d (header + s) (header + e) ;; vs <- slices d header r ;; Ok ((t, v) :: vs)
  end.
Definition iter (d : list N) : res (list (N * list N)) :=
  n <- num_values d ;;
  let header := 8 * n in
  offs <- offsets d ;;
  tgs <- tags d ;;
  if lenN d <? header then Panic     (* self.storage.len() - header underflows *)
  else slices d header (zip3 tgs (0 :: offs) (offs ++ [lenN d - header])).

(* find_tag: binary_search on the tag array.  With repeated tags std returns *some* matching
   index; the choice is an oracle argument constrained by `bsearch_ok`. *)
Definition bsearch_ok (tgs : list N) (t : N) (j : option N) : Prop :=
  match j with Some j => nthN tgs j = Some t | None => ~ In t tgs end.
Definition find (d : list N) (j : option N) : res (option (list N)) :=
  match j with None => Ok None | Some j => get_value d j end.

Definition tags_match_exactly (d : list N) (expected : list N) : res bool :=
  tgs <- tags d ;; Ok (if list_eq_dec N.eq_dec tgs expected then true else false).

(* ---- the format, as total functions of the byte string ---- *)
Definition hdr_n (d : list N) : N := match d with b0 :: b1 :: b2 :: b3 :: _ => le32 b0 b1 b2 b3 | _ => 0 end.
Definition hdr_offs (d : list N) : list N := words (firstn (N.to_nat (4 * (hdr_n d - 1))) (skipn 4 d)).
Definition hdr_tags (d : list N) : list N := words (firstn (N.to_nat (4 * hdr_n d)) (skipn (N.to_nat (4 * hdr_n d)) d)).
