From Coq Require Import List NArith ZArith Bool Lia ZifyBool ZifyNat ZifyN.
From WP Require Import tlv.View.
Import ListNotations.
Open Scope N_scope.
Ltac Zify.zify_post_hook ::= Z.div_mod_to_equations.

(* ---- list / slice basics ---- *)
Lemma lenN_nat {A} (l : list A) : N.to_nat (lenN l) = length l.
Proof. unfold lenN. lia. Qed.
Lemma lenN_app {A} (l1 l2 : list A) : lenN (l1 ++ l2) = lenN l1 + lenN l2.
Proof. unfold lenN. rewrite app_length. lia. Qed.
Lemma lenN_cons {A} (a : A) l : lenN (a :: l) = 1 + lenN l.
Proof. unfold lenN. cbn [length]. lia. Qed.
Lemma lenN_nil {A} : lenN (@nil A) = 0. Proof. reflexivity. Qed.
Lemma lenN_firstn {A} k (l : list A) : lenN (firstn k l) = N.min (N.of_nat k) (lenN l).
Proof. unfold lenN. rewrite firstn_length. lia. Qed.
Lemma lenN_skipn {A} k (l : list A) : lenN (skipn k l) = lenN l - N.of_nat k.
Proof. unfold lenN. rewrite skipn_length. lia. Qed.

Lemma skipn_skipn' {A} x y (l : list A) : skipn x (skipn y l) = skipn (y + x) l.
Proof. revert l. induction y as [|y IH]; intros l; [reflexivity|]. destruct l; [now destruct x|]. cbn. apply IH. Qed.

Lemma sub_ok d a b : a <= b -> b <= lenN d -> sub d a b = Ok (firstn (N.to_nat (b - a)) (skipn (N.to_nat a) d)).
Proof. intros H1 H2. unfold sub. assert ((a <=? b) && (b <=? lenN d) = true) as -> by lia. reflexivity. Qed.
Lemma sub_not_panic d a b : a <= b -> b <= lenN d -> sub d a b <> Panic.
Proof. intros H1 H2. rewrite sub_ok by assumption. discriminate. Qed.

(* words: four bytes at a time *)
Lemma list_ind4 {A} (P : list A -> Prop) :
  P [] -> (forall a, P [a]) -> (forall a b, P [a; b]) -> (forall a b c, P [a; b; c]) ->
  (forall a b c d r, P r -> P (a :: b :: c :: d :: r)) -> forall l, P l.
Proof.
  intros H0 H1 H2 H3 H4. fix IH 1. intros [|a [|b [|c [|d r]]]];
  [exact H0|apply H1|apply H2|apply H3|apply H4; apply IH].
Qed.
Lemma words_length (l : list N) : lenN (words l) = lenN l / 4.
Proof.
  induction l as [| | | |a b c d r IH] using list_ind4; try reflexivity.
  cbn [words]. rewrite !lenN_cons, IH. lia.
Qed.
Lemma words_app4 a b c d r : words (a :: b :: c :: d :: r) = le32 a b c d :: words r.
Proof. reflexivity. Qed.

Lemma firstn4 {A} (d : list A) : 4 <= lenN d -> exists b0 b1 b2 b3 r, d = b0 :: b1 :: b2 :: b3 :: r.
Proof.
  unfold lenN. destruct d as [|b0 [|b1 [|b2 [|b3 r]]]]; cbn [length]; intros H; try lia. eauto 6.
Qed.

Lemma num_values_ok d : 4 <= lenN d -> num_values d = Ok (hdr_n d).
Proof.
  intros H. destruct (firstn4 d H) as (b0 & b1 & b2 & b3 & r & ->). unfold num_values.
  rewrite sub_ok by lia. reflexivity.
Qed.

Lemma offsets_ok d : 4 <= lenN d -> 8 * hdr_n d <= lenN d -> offsets d = Ok (hdr_offs d).
Proof.
  intros H4 H8. unfold offsets. rewrite num_values_ok by exact H4. cbn [bind].
  rewrite sub_ok by lia. cbn [bind]. unfold hdr_offs. do 3 f_equal. lia.
Qed.
Lemma tags_ok d : 4 <= lenN d -> 8 * hdr_n d <= lenN d -> tags d = Ok (hdr_tags d).
Proof.
  intros H4 H8. unfold tags. rewrite num_values_ok by exact H4. cbn [bind].
  rewrite sub_ok by lia. cbn [bind]. unfold hdr_tags. do 3 f_equal. lia.
Qed.

Lemma hdr_offs_length d : 8 * hdr_n d <= lenN d -> 4 <= lenN d -> lenN (hdr_offs d) = hdr_n d - 1.
Proof.
  intros H8 H4. unfold hdr_offs. rewrite words_length, lenN_firstn, lenN_skipn. lia.
Qed.
Lemma hdr_tags_length d : 8 * hdr_n d <= lenN d -> lenN (hdr_tags d) = hdr_n d.
Proof.
  intros H8. unfold hdr_tags. rewrite words_length, lenN_firstn, lenN_skipn. lia.
Qed.

(* ---- non-decreasing sequences ---- *)
Fixpoint nondecr (l : list N) : Prop :=
  match l with a :: (b :: _) as t => a <= b /\ nondecr t | _ => True end.
Lemma nonmonotonic_none idx l : nonmonotonic idx l = None <-> nondecr l.
Proof.
  revert idx. induction l as [|a t IH]; intros idx; cbn [nonmonotonic nondecr]; [tauto|].
  destruct t as [|b t']; [tauto|]. destruct (b <? a) eqn:E.
  - split; [discriminate|]. intros (H & _). lia.
  - rewrite IH. split; [intros H; split; [lia|exact H]|tauto].
Qed.

(* ---- MessageView::new ---- *)
Definition Wf (d : list N) : Prop :=
  4 <= lenN d /\ 8 * hdr_n d <= lenN d /\ nondecr (hdr_offs d) /\ nondecr (hdr_tags d) /\
  (forall lo, last_opt (hdr_offs d) = Some lo -> 8 * hdr_n d + lo <= lenN d).

Theorem view_new_total d : view_new d <> Panic.
Proof.
  unfold view_new. destruct (lenN d <? 4) eqn:E4; [discriminate|]. apply N.ltb_ge in E4.
  rewrite num_values_ok by exact E4. cbn [bind].
  destruct (lenN d <? 8 * hdr_n d) eqn:E8; [discriminate|]. apply N.ltb_ge in E8.
  rewrite offsets_ok by assumption. cbn [bind].
  destruct (nonmonotonic 0 (hdr_offs d)); [discriminate|].
  rewrite tags_ok by assumption. cbn [bind].
  destruct (nonmonotonic 0 (hdr_tags d)); [discriminate|].
  destruct (last_opt (hdr_offs d)); [|discriminate].
  destruct (lenN d <? 8 * hdr_n d + n); discriminate.
Qed.

Theorem view_new_accepts_iff d : view_new d = Ok None <-> Wf d.
Proof.
  unfold view_new, Wf. destruct (lenN d <? 4) eqn:E4.
  { apply N.ltb_lt in E4. split; [discriminate|]. intros (H & _). lia. }
  apply N.ltb_ge in E4. rewrite num_values_ok by exact E4. cbn [bind].
  destruct (lenN d <? 8 * hdr_n d) eqn:E8.
  { apply N.ltb_lt in E8. split; [discriminate|]. intros (_ & H & _). lia. }
  apply N.ltb_ge in E8. rewrite offsets_ok by assumption. cbn [bind].
  destruct (nonmonotonic 0 (hdr_offs d)) eqn:EO.
  { split; [discriminate|]. intros (_ & _ & H & _). apply (nonmonotonic_none 0) in H. congruence. }
  apply nonmonotonic_none in EO. rewrite tags_ok by assumption. cbn [bind].
  destruct (nonmonotonic 0 (hdr_tags d)) eqn:ET.
  { split; [discriminate|]. intros (_ & _ & _ & H & _). apply (nonmonotonic_none 0) in H. congruence. }
  apply nonmonotonic_none in ET.
  destruct (last_opt (hdr_offs d)) as [lo|] eqn:EL.
  - destruct (lenN d <? 8 * hdr_n d + lo) eqn:EP.
    + apply N.ltb_lt in EP. split; [discriminate|]. intros (_ & _ & _ & _ & H). specialize (H lo eq_refl). lia.
    + apply N.ltb_ge in EP. split; [|reflexivity]. intros _. repeat split; auto. intros lo' H. inversion H; subst. exact EP.
  - split; [|reflexivity]. intros _. repeat split; auto. intros lo' H. discriminate.
Qed.

(* ---- the values of an accepted message: consecutive pieces of the bytes after the header ---- *)
Fixpoint pieces (t : list N) (s : N) (cs : list N) : list (list N) :=
  match cs with
  | [] => [skipn (N.to_nat s) t]
  | c :: r => firstn (N.to_nat (c - s)) (skipn (N.to_nat s) t) :: pieces t c r
  end.

Definition tail_of (d : list N) : list N := skipn (N.to_nat (8 * hdr_n d)) d.
Definition spec_values (d : list N) : list (list N) :=
  if hdr_n d =? 0 then [] else pieces (tail_of d) 0 (hdr_offs d).

Lemma pieces_length t s cs : length (pieces t s cs) = S (length cs).
Proof. revert s. induction cs as [|c r IH]; intros s; cbn [pieces length]; [reflexivity|]. now rewrite IH. Qed.

Lemma pieces_concat t cs : forall s, nondecr (s :: cs) -> concat (pieces t s cs) = skipn (N.to_nat s) t.
Proof.
  induction cs as [|c r IH]; intros s H; cbn [pieces concat].
  - now rewrite app_nil_r.
  - destruct H as (H1 & H2). rewrite IH by exact H2.
    replace (N.to_nat c) with (N.to_nat s + N.to_nat (c - s))%nat by lia.
    rewrite <- skipn_skipn'. apply firstn_skipn.
Qed.

(* start of piece i: s for the first, otherwise the previous cut *)
Definition start_at (s : N) (cs : list N) (i : nat) : N := match i with O => s | S j => nth j cs 0 end.
Definition piece_at (t : list N) (s : N) (cs : list N) (i : nat) : list N :=
  if (i =? length cs)%nat then skipn (N.to_nat (start_at s cs i)) t
  else firstn (N.to_nat (nth i cs 0 - start_at s cs i)) (skipn (N.to_nat (start_at s cs i)) t).

Lemma pieces_nth t cs : forall s i, (i <= length cs)%nat -> nth_error (pieces t s cs) i = Some (piece_at t s cs i).
Proof.
  induction cs as [|c r IH]; intros s i Hi; cbn [pieces length] in *.
  - assert (i = O) by lia. subst i. reflexivity.
  - destruct i as [|j]; [reflexivity|]. cbn [nth_error]. rewrite IH by lia. f_equal;
    try (unfold piece_at; cbn [length Nat.eqb]; destruct j as [|k]; reflexivity).
Qed.

Lemma nondecr_tail a l : nondecr (a :: l) -> nondecr l.
Proof. destruct l; cbn; tauto. Qed.
Lemma nondecr_nth l : nondecr l -> forall i j, (i <= j < length l)%nat -> nth i l 0 <= nth j l 0.
Proof.
  induction l as [|a t IH]; intros H i j Hij; [cbn in Hij; lia|].
  destruct j as [|j]; [assert (i = O) by lia; subst; lia|].
  destruct i as [|i].
  - cbn [nth]. destruct t as [|b t']; [cbn in Hij; lia|]. destruct H as (H1 & H2).
    specialize (IH H2 O j ltac:(cbn [length] in *; lia)). change (nth 0 (b :: t') 0) with b in IH. lia.
  - cbn [nth]. apply IH; [eapply nondecr_tail; eauto|cbn [length] in Hij; lia].
Qed.
Lemma last_opt_nth {A} (l : list A) (x : A) dflt : last_opt l = Some x -> nth (length l - 1) l dflt = x /\ (0 < length l)%nat.
Proof.
  unfold last_opt. intros H. destruct (rev l) as [|y r] eqn:E; [discriminate|]. inversion H; subst y.
  apply (f_equal (@rev A)) in E. rewrite rev_involutive in E. cbn [rev] in E. subst l.
  rewrite app_length. cbn [length]. split; [|lia]. rewrite app_nth2 by lia. replace (length (rev r) + 1 - 1 - length (rev r))%nat with O by lia. reflexivity.
Qed.
Lemma last_opt_none {A} (l : list A) : last_opt l = None -> l = [].
Proof. unfold last_opt. destruct (rev l) eqn:E; [|discriminate]. intros _. apply (f_equal (@rev A)) in E. now rewrite rev_involutive in E. Qed.

Lemma nondecr_bounded l T : nondecr l -> (forall lo, last_opt l = Some lo -> lo <= T) -> forall i, (i < length l)%nat -> nth i l 0 <= T.
Proof.
  intros H HL i Hi. destruct (last_opt l) as [lo|] eqn:E.
  - destruct (last_opt_nth l lo 0 E) as (E1 & E2). specialize (HL lo eq_refl).
    pose proof (nondecr_nth l H i (length l - 1)%nat ltac:(lia)). lia.
  - apply last_opt_none in E. subst l. cbn in Hi. lia.
Qed.

Lemma nthN_nth (l : list N) (i : N) : nthN l i = if i <? lenN l then Some (nth (N.to_nat i) l 0) else None.
Proof.
  unfold nthN. destruct (i <? lenN l) eqn:E; [|reflexivity]. apply N.ltb_lt in E.
  apply nth_error_nth'. unfold lenN in E. lia.
Qed.

Lemma firstn_all3 {A} k (l : list A) : (length l <= k)%nat -> firstn k l = l.
Proof. intros H. apply firstn_all2. exact H. Qed.

(* ---- get_value ---- *)
Theorem get_value_spec d i : Wf d ->
  get_value d i = Ok (if i <? hdr_n d then Some (piece_at (tail_of d) 0 (hdr_offs d) (N.to_nat i)) else None).
Proof.
  intros (H4 & H8 & HO & HT & HL). unfold get_value. rewrite num_values_ok by exact H4. cbn [bind].
  destruct (hdr_n d <=? i) eqn:E.
  { apply N.leb_le in E. assert (i <? hdr_n d = false) as -> by lia. reflexivity. }
  apply N.leb_gt in E. assert (i <? hdr_n d = true) as -> by lia.
  rewrite offsets_ok by assumption. cbn [bind].
  pose proof (hdr_offs_length d H8 H4) as LO. set (L := hdr_offs d) in *. set (n := hdr_n d) in *.
  assert (HB : forall k, (k < length L)%nat -> nth k L 0 <= lenN d - 8 * n).
  { apply nondecr_bounded; auto. intros lo Hlo. specialize (HL lo Hlo). lia. }
  assert (LL : length L = N.to_nat (n - 1)) by (unfold lenN in LO; lia).
  unfold piece_at, tail_of. fold n.
  destruct (i =? lenN L) eqn:EI.
  - (* the last value runs to the end of the buffer *)
    apply N.eqb_eq in EI. assert ((N.to_nat i =? length L)%nat = true) as -> by (apply Nat.eqb_eq; unfold lenN in EI; lia).
    destruct (i =? 0) eqn:E0.
    + apply N.eqb_eq in E0. rewrite E0 in *. clear E0. cbn [N.to_nat start_at]. rewrite sub_ok by lia. cbn [bind]. do 2 f_equal.
      rewrite firstn_all3 by (rewrite skipn_length; unfold lenN; lia).
      rewrite skipn_skipn'. f_equal. lia.
    + apply N.eqb_neq in E0. rewrite nthN_nth. assert (i - 1 <? lenN L = true) as -> by lia.
      assert (HS : nth (N.to_nat (i - 1)) L 0 <= lenN d - 8 * n) by (apply HB; unfold lenN in EI; lia).
      rewrite sub_ok by lia. cbn [bind]. do 2 f_equal.
      destruct (N.to_nat i) as [|k] eqn:EK; [lia|]. cbn [start_at]. replace (N.to_nat (i - 1)) with k in * by lia.
      rewrite firstn_all3 by (rewrite skipn_length; unfold lenN; lia).
      rewrite skipn_skipn'. f_equal. lia.
  - apply N.eqb_neq in EI. assert ((N.to_nat i =? length L)%nat = false) as -> by (apply Nat.eqb_neq; unfold lenN in EI; lia).
    rewrite nthN_nth. assert (i <? lenN L = true) as -> by lia. cbn iota.
    assert (HE : nth (N.to_nat i) L 0 <= lenN d - 8 * n) by (apply HB; unfold lenN in *; lia).
    destruct (i =? 0) eqn:E0.
    + apply N.eqb_eq in E0. rewrite E0 in *. clear E0. cbn [N.to_nat start_at] in *. rewrite sub_ok by lia. cbn [bind]. do 2 f_equal.
      rewrite skipn_skipn'. f_equal; [lia|f_equal; lia].
    + apply N.eqb_neq in E0. rewrite nthN_nth. assert (i - 1 <? lenN L = true) as -> by lia.
      pose proof (nondecr_nth L HO (N.to_nat (i - 1)) (N.to_nat i) ltac:(unfold lenN in *; lia)) as HM.
      rewrite sub_ok by lia. cbn [bind]. do 2 f_equal.
      destruct (N.to_nat i) as [|k] eqn:EK; [lia|]. cbn [start_at]. replace (N.to_nat (i - 1)) with k in * by lia.
      rewrite skipn_skipn'. f_equal; [lia|f_equal; lia].
Qed.

Lemma spec_values_length d : Wf d -> lenN (spec_values d) = hdr_n d.
Proof.
  intros (H4 & H8 & _). unfold spec_values. destruct (hdr_n d =? 0) eqn:E; [apply N.eqb_eq in E; now rewrite E|].
  apply N.eqb_neq in E. unfold lenN. rewrite pieces_length. pose proof (hdr_offs_length d H8 H4) as LO. unfold lenN in LO. lia.
Qed.

Corollary get_value_is_spec_value d i : Wf d -> get_value d i = Ok (nthN (spec_values d) i).
Proof.
  intros W. rewrite get_value_spec by exact W. f_equal. unfold nthN. rewrite (spec_values_length d W).
  destruct (i <? hdr_n d) eqn:E; [|reflexivity]. apply N.ltb_lt in E. unfold spec_values.
  assert (hdr_n d =? 0 = false) as -> by lia. destruct W as (H4 & H8 & _).
  pose proof (hdr_offs_length d H8 H4) as LO. unfold lenN in LO. symmetry. apply pieces_nth. lia.
Qed.

(* every index >= N yields nothing -- in particular every index of an empty message (F3) *)
Corollary get_value_out_of_range d i : Wf d -> hdr_n d <= i -> get_value d i = Ok None.
Proof. intros W H. rewrite get_value_spec by exact W. assert (i <? hdr_n d = false) as -> by lia. reflexivity. Qed.

(* the values tile the bytes after the header, exactly and in order *)
Theorem values_tile d : Wf d -> 1 <= hdr_n d -> concat (spec_values d) = tail_of d.
Proof.
  intros (H4 & H8 & HO & _) H1. unfold spec_values. assert (hdr_n d =? 0 = false) as -> by lia.
  rewrite pieces_concat; [reflexivity|]. destruct (hdr_offs d); cbn [nondecr]; [exact I|split; [lia|exact HO]].
Qed.
Lemma values_empty d : hdr_n d = 0 -> spec_values d = [].
Proof. intros H. unfold spec_values. now rewrite H. Qed.

(* ---- get / iter / tags agree ---- *)
Theorem get_spec d i : Wf d ->
  get d i = Ok (match nthN (hdr_tags d) i, nthN (spec_values d) i with Some t, Some v => Some (t, v) | _, _ => None end).
Proof.
  intros W. pose proof W as (H4 & H8 & _). unfold get. rewrite tags_ok by assumption. cbn [bind].
  destruct (nthN (hdr_tags d) i) as [t|] eqn:ET; [|reflexivity].
  rewrite get_value_is_spec_value by exact W. cbn [bind]. destruct (nthN (spec_values d) i); reflexivity.
Qed.

Lemma slices_pieces d h T : h <= lenN d -> T = lenN d - h ->
  forall cs s tgs, length tgs = S (length cs) -> nondecr (s :: cs) -> s <= T -> (forall k, (k < length cs)%nat -> nth k cs 0 <= T) ->
  slices d h (zip3 tgs (s :: cs) (cs ++ [T])) = Ok (combine tgs (pieces (skipn (N.to_nat h) d) s cs)).
Proof.
  intros Hh HT. induction cs as [|c r IH]; intros s tgs HL HN Hs HB.
  - destruct tgs as [|t [|t' tgs']]; cbn [length] in HL; try lia. cbn [zip3 app slices pieces combine].
    rewrite sub_ok by lia. cbn [bind]. do 3 f_equal.
    rewrite firstn_all3 by (rewrite skipn_length; unfold lenN in *; lia). rewrite skipn_skipn'. f_equal. lia.
  - destruct tgs as [|t tgs']; cbn [length] in HL; [lia|]. cbn [zip3 app slices pieces combine].
    destruct HN as (HN1 & HN2). assert (Hc : c <= T) by (apply (HB O); cbn [length]; lia).
    rewrite sub_ok by lia. cbn [bind].
    rewrite (IH c tgs'); [|lia|exact HN2|exact Hc|intros k Hk; apply (HB (S k)); cbn [length]; lia].
    cbn [bind]. do 3 f_equal. rewrite skipn_skipn'. f_equal; [lia|f_equal; lia].
Qed.

Theorem iter_spec d : Wf d -> iter d = Ok (combine (hdr_tags d) (spec_values d)).
Proof.
  intros (H4 & H8 & HO & HT & HL). unfold iter. rewrite num_values_ok by exact H4. cbn [bind].
  rewrite offsets_ok, tags_ok by assumption. cbn [bind].
  assert (lenN d <? 8 * hdr_n d = false) as -> by lia.
  pose proof (hdr_offs_length d H8 H4) as LO. pose proof (hdr_tags_length d H8) as LT.
  unfold spec_values. destruct (hdr_n d =? 0) eqn:E0.
  - apply N.eqb_eq in E0. rewrite E0 in LT. destruct (hdr_tags d); [reflexivity|unfold lenN in LT; cbn [length] in LT; lia].
  - apply N.eqb_neq in E0. unfold tail_of. apply slices_pieces; try lia.
    + unfold lenN in *. lia.
    + destruct (hdr_offs d); cbn [nondecr]; [exact I|split; [lia|exact HO]].
    + apply nondecr_bounded; auto. intros lo Hlo. specialize (HL lo Hlo). lia.
Qed.

(* iteration is indexed access at 0, 1, ..., N-1 *)
Lemma combine_nth_error {A B} (l1 : list A) (l2 : list B) i :
  nth_error (combine l1 l2) i = match nth_error l1 i, nth_error l2 i with Some a, Some b => Some (a, b) | _, _ => None end.
Proof.
  revert l2 i. induction l1 as [|a t IH]; intros l2 i; [destruct i; reflexivity|].
  destruct l2 as [|b r]; [destruct i; cbn; [reflexivity|destruct (nth_error t i); reflexivity]|].
  destruct i; [reflexivity|]. cbn. apply IH.
Qed.
Theorem iter_get_agree d i its : Wf d -> iter d = Ok its -> i < hdr_n d ->
  exists tv, nth_error its (N.to_nat i) = Some tv /\ get d i = Ok (Some tv).
Proof.
  intros W HI Hi. rewrite iter_spec in HI by exact W. inversion HI; subst its. rewrite get_spec by exact W.
  pose proof W as (H4 & H8 & _). pose proof (hdr_tags_length d H8) as LT. pose proof (spec_values_length d W) as LV.
  unfold nthN. rewrite LT, LV. assert (i <? hdr_n d = true) as -> by lia.
  rewrite combine_nth_error.
  destruct (nth_error (hdr_tags d) (N.to_nat i)) eqn:E1; [|apply nth_error_None in E1; unfold lenN in LT; lia].
  destruct (nth_error (spec_values d) (N.to_nat i)) eqn:E2; [|apply nth_error_None in E2; unfold lenN in LV; lia].
  eauto.
Qed.
Theorem iter_length d its : Wf d -> iter d = Ok its -> lenN its = hdr_n d.
Proof.
  intros W HI. rewrite iter_spec in HI by exact W. inversion HI. pose proof W as (H4 & H8 & _).
  pose proof (hdr_tags_length d H8) as LT. pose proof (spec_values_length d W) as LV.
  unfold lenN in *. rewrite combine_length. lia.
Qed.

(* ---- tag lookup ---- *)
Theorem find_spec d t j : Wf d -> bsearch_ok (hdr_tags d) t j ->
  match j with
  | Some j => exists v, find d (Some j) = Ok (Some v) /\ nthN (hdr_tags d) j = Some t /\ nthN (spec_values d) j = Some v
  | None => find d None = Ok None /\ ~ In t (hdr_tags d)
  end.
Proof.
  intros W HB. destruct j as [j|]; cbn [bsearch_ok find] in *; [|auto].
  pose proof W as (H4 & H8 & _). pose proof (hdr_tags_length d H8) as LT. pose proof (spec_values_length d W) as LV.
  rewrite get_value_is_spec_value by exact W.
  assert (Hj : j < hdr_n d). { unfold nthN in HB. rewrite LT in HB. destruct (j <? hdr_n d) eqn:E; [lia|discriminate]. }
  destruct (nthN (spec_values d) j) as [v|] eqn:E.
  - exists v. auto.
  - exfalso. unfold nthN in E. rewrite LV in E. assert (j <? hdr_n d = true) as Hb by lia. rewrite Hb in E.
    apply nth_error_None in E. unfold lenN in LV. lia.
Qed.

(* the accessors never panic on an accepted message *)
Theorem accessors_no_panic d i j : Wf d ->
  get_value d i <> Panic /\ get d i <> Panic /\ iter d <> Panic /\ tags d <> Panic /\ offsets d <> Panic /\ find d j <> Panic.
Proof.
  intros W. pose proof W as (H4 & H8 & _).
  rewrite get_value_spec, get_spec, iter_spec, tags_ok, offsets_ok by assumption.
  repeat split; try discriminate. destruct j as [j|]; cbn [find]; [rewrite get_value_spec by exact W|]; discriminate.
Qed.

(* F3 (fixed in /repo by 2065279): without the index guard, get_value(0) on an accepted empty
   message returns the whole buffer *)
Lemma get_value_empty_refuted :
  let d := [0; 0; 0; 0; 120; 121; 122] in
  view_new d = Ok None /\ hdr_n d = 0 /\ get_value_prefix d 0 = Ok (Some d) /\ get_value d 0 = Ok None.
Proof. vm_compute. repeat split; reflexivity. Qed.
