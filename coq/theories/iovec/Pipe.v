(* C03 / C04: value-level faithful model of OwningIovec as a byte pipe with placeholders
   (owning_iovec/src/implementation.rs + global_deque.rs), and the specification: a FIFO of cells,
   some of which are holes.

   A slice is the list of its bytes; each stored byte carries, as GHOST state, the id of the pending
   placeholder covering it.  No operation reads a ghost mark (they only appear in `abs`).  Whether a
   push lands in a new slice or is merged into the last one depends on arena geometry; it is an
   explicit argument (`merged`), and every theorem holds for every value of it.  The placeholder
   id is the logical byte index at which the placeholder ends (the key of the real backref table),
   which only grows between two `clear`s.  No proofs in this file. *)
From Coq Require Import List NArith Bool Arith.
Import ListNotations.

(* ---- specification ---- *)
Inductive cell := Byte (b : N) | Hole (id : nat).
Definition is_hole (c : cell) : bool := match c with Hole _ => true | _ => false end.
(* replace, left to right, the cells `Hole id` by the bytes of src *)
Fixpoint fill_cells (id : nat) (src : list N) (buf : list cell) : list cell :=
  match buf with
  | [] => []
  | Hole i :: t => if Nat.eqb i id then match src with s :: src' => Byte s :: fill_cells id src' t | [] => Hole i :: fill_cells id [] t end
                   else Hole i :: fill_cells id src t
  | c :: t => c :: fill_cells id src t
  end.
(* the longest hole-free prefix: all a consumer may ever see *)
Fixpoint stable_cells (buf : list cell) : list N :=
  match buf with Byte b :: t => b :: stable_cells t | _ => [] end.
Definition has_hole (buf : list cell) : bool := existsb is_hole buf.

(* ---- model ---- *)
Definition mbyte := (N * option nat)%type.
Record backref := { br_id : nat; br_idx : nat (* logical slice index *); br_begin : nat; br_len : nat }.
Record st := {
  slices : list (list mbyte);
  consumed : nat;            (* consumed_slices *)
  table : list backref;      (* pending backrefs, in registration order *)
  logical : nat;             (* logical_size: bytes appended since the last clear *)
  taken : nat }.             (* consumed_size *)

Definition empty_st : st := {| slices := []; consumed := 0; table := []; logical := 0; taken := 0 |}.

Definition abs_cell (m : mbyte) : cell := match snd m with Some id => Hole id | None => Byte (fst m) end.
Definition abs (s : st) : list cell := map abs_cell (concat (slices s)).

Definition plain (bs : list N) : list mbyte := map (fun b => (b, None)) bs.
Definition marked (id : nat) (bs : list N) : list mbyte := map (fun b => (b, Some id)) bs.

(* push `ms` as a new slice, or merged into the last one *)
Definition push_raw (merged : bool) (ms : list mbyte) (sl : list (list mbyte)) : list (list mbyte) :=
  if merged then match rev sl with
                 | last :: front => rev front ++ [last ++ ms]
                 | [] => [ms] end
  else sl ++ [ms].

(* push / push_copy / push_borrowed / one item of extend: empty input is a no-op *)
Definition push (merged : bool) (bs : list N) (s : st) : st :=
  match bs with
  | [] => s
  | _ => {| slices := push_raw merged (plain bs) (slices s); consumed := consumed s; table := table s;
            logical := logical s + length bs; taken := taken s |}
  end.

(* register_patch: None = the empty Backref *)
Definition register (merged : bool) (pattern : list N) (s : st) : st * option nat :=
  match pattern with
  | [] => (s, None)
  | _ =>
    let id := logical s + length pattern in
    let sl := push_raw merged (marked id pattern) (slices s) in
    let lastlen := length (last sl []) in
    ({| slices := sl; consumed := consumed s;
        table := table s ++ [{| br_id := id; br_idx := consumed s + length sl - 1;
                                br_begin := lastlen - length pattern; br_len := length pattern |}];
        logical := id; taken := taken s |}, Some id)
  end.

Definition write_at (begin : nat) (src : list N) (sl : list mbyte) : list mbyte :=
  firstn begin sl ++ plain src ++ skipn (begin + length src) sl.
Fixpoint update_nth {A} (n : nat) (f : A -> A) (l : list A) : list A :=
  match l, n with
  | [], _ => []
  | x :: t, O => f x :: t
  | x :: t, S n' => x :: update_nth n' f t
  end.

(* backfill_or_panic: None = one of its panics *)
Definition backfill (id : nat) (src : list N) (s : st) : option st :=
  match find (fun b => Nat.eqb (br_id b) id) (table s) with
  | None => None                                   (* expect("backref not found") *)
  | Some b =>
    if negb (Nat.eqb (br_len b) (length src)) then None          (* assert_eq!(len, src.len()) *)
    else if negb (consumed s <=? br_idx b) then None
    else match nth_error (slices s) (br_idx b - consumed s) with
         | None => None                            (* expect("must still be present") *)
         | Some sl =>
           if negb (br_begin b + length src <=? length sl) then None   (* assert!(begin + len <= slice len) *)
           else Some {| slices := update_nth (br_idx b - consumed s) (write_at (br_begin b) src) (slices s);
                        consumed := consumed s;
                        table := filter (fun b' => negb (Nat.eqb (br_id b') id)) (table s);
                        logical := logical s; taken := taken s |}
         end
  end.

(* stable_prefix: the slices before the one holding the first pending backref *)
Definition stable_count (s : st) : nat :=
  match table s with
  | [] => length (slices s)
  | b :: _ => Nat.min (br_idx b - consumed s) (length (slices s))
  end.
Definition stable_slices (s : st) : list (list mbyte) := firstn (stable_count s) (slices s).
Definition stable_bytes (s : st) : list N := map fst (concat (stable_slices s)).
Definition total_size (s : st) : nat := logical s - taken s.
Definition num_slices (s : st) : nat := length (slices s).
Definition iovs_ok (s : st) : bool := match table s with [] => true | _ => false end.

(* ConsumingIovec::consume(count): whole slices *)
Definition consume (k : nat) (s : st) : st * nat :=
  let k' := Nat.min k (stable_count s) in
  ({| slices := skipn k' (slices s); consumed := consumed s + k'; table := table s; logical := logical s;
      taken := taken s + length (concat (firstn k' (slices s))) |}, k').

(* consume_by_bytes: whole leading slices, then the front slice is advanced in place *)
Fixpoint drop_bytes (c : nat) (sl : list (list mbyte)) : list (list mbyte) * nat :=
  match sl with
  | [] => ([], 0)
  | x :: t =>
    match c with
    | O => (sl, 0)
    | _ => if length x <=? c then let '(r, k) := drop_bytes (c - length x) t in (r, S k)
           else (skipn c x :: t, 0)
    end
  end.
(* advance_slices(count) *)
Definition advance (n : nat) (s : st) : st * nat :=
  let c := Nat.min n (length (stable_bytes s)) in
  let '(sl, k) := drop_bytes c (slices s) in
  ({| slices := sl; consumed := consumed s + k; table := table s; logical := logical s; taken := taken s + c |}, c).
(* Read::read into a buffer of n bytes *)
Definition read (n : nat) (s : st) : st * list N :=
  let c := Nat.min n (length (stable_bytes s)) in
  (fst (advance n s), firstn c (stable_bytes s)).

Definition clear (s : st) : st := empty_st.

(* ---- histories ---- *)
Inductive op := OPush (merged : bool) (bs : list N) | ORegister (merged : bool) (pattern : list N)
              | OBackfill (id : nat) (src : list N) | OConsume (k : nat) | OAdvance (n : nat) | ORead (n : nat) | OClear.
Inductive out := UUnit | UId (id : option nat) | UCount (n : nat) | UBytes (bs : list N).

Definition step (s : st) (o : op) : option (st * out) :=
  match o with
  | OPush m bs => Some (push m bs s, UUnit)
  | ORegister m p => let '(s', id) := register m p s in Some (s', UId id)
  | OBackfill id src => match backfill id src s with Some s' => Some (s', UUnit) | None => None end
  | OConsume k => let '(s', n) := consume k s in Some (s', UCount n)
  | OAdvance n => let '(s', c) := advance n s in Some (s', UCount c)
  | ORead n => let '(s', bs) := read n s in Some (s', UBytes bs)
  | OClear => Some (clear s, UUnit)
  end.
