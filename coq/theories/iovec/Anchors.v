From Coq Require Import List Lia Arith Bool.
Import ListNotations.

(* Reduced model of GlobalDeque's ownership protocol (the heart of C05).
   A slice is represented by the arena chunk it points into (None = plain borrowed memory);
   an anchor by its slice count and the chunk it keeps alive. *)
Definition slice := option nat.
Record anchor := { acount : nat; achunk : option nat }.
Record gd := { slices : list slice; anchors : list anchor }.

Fixpoint psum (l : list anchor) (q : nat) {struct q} : nat :=   (* sum of the counts of the first q anchors *)
  match q with
  | O => 0
  | S q' => match l with [] => 0 | a :: t => acount a + psum t q' end
  end.
Definition total (l : list anchor) := psum l (length l).

(* --- operations, following global_deque.rs --- *)

(* push((slice, anchor)) as produced by arena.copy: merge into the back anchor if same chunk *)
Definition push_owned (c : nat) (g : gd) : gd :=
  match rev (anchors g) with
  | a :: r =>
    if match achunk a with Some c' => Nat.eqb c' c | None => false end
    then {| slices := slices g ++ [Some c]; anchors := rev r ++ [{| acount := S (acount a); achunk := achunk a |}] |}
    else {| slices := slices g ++ [Some c]; anchors := anchors g ++ [{| acount := 1; achunk := Some c |}] |}
  | [] => {| slices := slices g ++ [Some c]; anchors := [{| acount := 1; achunk := Some c |}] |}
  end.

(* push_borrowed: counted by the back anchor (a default one if there is none) *)
Definition push_borrowed (s : slice) (g : gd) : gd :=
  match rev (anchors g) with
  | a :: r => {| slices := slices g ++ [s]; anchors := rev r ++ [{| acount := S (acount a); achunk := achunk a |}] |}
  | [] => {| slices := slices g ++ [s]; anchors := [{| acount := 1; achunk := None |}] |}
  end.

Definition push_anchor (c : nat) (g : gd) : gd :=
  {| slices := slices g; anchors := anchors g ++ [{| acount := 0; achunk := Some c |}] |}.

(* maybe_collapse_last_pair when the merge is taken: one slice fewer, back count - 1 (needs count >= 2) *)
Definition collapse (g : gd) : gd :=
  match rev (anchors g) with
  | a :: r => if 2 <=? acount a
              then {| slices := removelast (slices g); anchors := rev r ++ [{| acount := acount a - 1; achunk := achunk a |}] |}
              else g
  | [] => g
  end.

(* consume: drain counts from the front, pop exhausted anchors, then pop zero-count anchors *)
Fixpoint drain (n : nat) (l : list anchor) : list anchor :=
  match l with
  | [] => []
  | a :: t => if acount a <=? n then drain (n - acount a) t   (* count reaches 0 (or is 0): popped *)
              else {| acount := acount a - n; achunk := achunk a |} :: t
  end.
Definition consume (k : nat) (g : gd) : gd :=
  {| slices := skipn k (slices g); anchors := drain k (anchors g) |}.

(* --- the invariant --- *)
(* slice p of chunk c is protected by anchor q if q holds c and is not popped before p is consumed *)
Definition protected (g : gd) (p c : nat) : Prop :=
  exists q a, nth_error (anchors g) q = Some a /\ achunk a = Some c /\ p < psum (anchors g) (S q).

Record Inv (g : gd) : Prop := {
  inv_total : total (anchors g) = length (slices g);
  inv_prot : forall p c, nth_error (slices g) p = Some (Some c) -> protected g p c
}.

(* What C05 needs from it: after consuming, every remaining slice's chunk is still held by a remaining anchor.
   (chunks referenced = chunks of the anchors list; a chunk with no holder is freed) *)
Definition held (g : gd) (c : nat) : Prop := exists a, In a (anchors g) /\ achunk a = Some c.

Lemma inv_held g : Inv g -> forall p c, nth_error (slices g) p = Some (Some c) -> held g c.
Proof.
  intros I p c H. destruct (inv_prot g I p c H) as (q & a & Hq & Hc & _).
  exists a. split; auto. eapply nth_error_In; eauto.
Qed.

(* --- psum / drain facts --- *)
Lemma psum_app l1 l2 q : q <= length l1 -> psum (l1 ++ l2) q = psum l1 q.
Proof.
  revert q. induction l1 as [|a l1 IH]; intros q Hq.
  - assert (q = 0) by (cbn in Hq; lia). subst. reflexivity.
  - destruct q; [reflexivity|]. cbn in *. rewrite IH by lia. reflexivity.
Qed.
Lemma psum_app_ge l1 l2 q : length l1 <= q -> psum (l1 ++ l2) q = total l1 + psum l2 (q - length l1).
Proof.
  revert q. unfold total. induction l1 as [|a l1 IH]; intros q Hq; cbn [app length psum].
  - now rewrite Nat.sub_0_r.
  - destruct q; [cbn in Hq; lia|]. cbn [psum]. rewrite IH by (cbn in Hq; lia). cbn. lia.
Qed.
Lemma psum_mono l q : psum l q <= psum l (S q).
Proof. revert q. induction l as [|a l IH]; intros q; destruct q; cbn; try lia. specialize (IH q). cbn in IH. lia. Qed.
Lemma psum_le_total l q : psum l q <= total l.
Proof.
  unfold total. revert q. induction l as [|a l IH]; intros q; destruct q; cbn; try lia. specialize (IH q). lia.
Qed.
Lemma total_app l1 l2 : total (l1 ++ l2) = total l1 + total l2.
Proof. unfold total. rewrite app_length, psum_app_ge by lia. f_equal. f_equal. lia. Qed.

Lemma total_cons a l : total (a :: l) = acount a + total l.
Proof. reflexivity. Qed.
Lemma psum_S_cons a l q : psum (a :: l) (S q) = acount a + psum l q.
Proof. reflexivity. Qed.

(* after draining k slices, anchor q of the new list is some anchor q0+q of the old one, with prefix sums shifted by k *)
Lemma drain_spec : forall l k, k <= total l ->
  total (drain k l) = total l - k /\
  forall q a, nth_error l q = Some a -> k < psum l (S q) ->
    exists q' a', nth_error (drain k l) q' = Some a' /\ achunk a' = achunk a /\
                  psum (drain k l) (S q') = psum l (S q) - k.
Proof.
  induction l as [|a0 l IH]; intros k Hk.
  - cbn in *. split; [reflexivity|]. intros q a H. destruct q; discriminate.
  - cbn [drain]. destruct (acount a0 <=? k) eqn:E.
    + apply Nat.leb_le in E.
      rewrite total_cons in Hk.
      assert (Hk' : k - acount a0 <= total l) by lia.
      destruct (IH _ Hk') as (T & P). split.
      * rewrite T, total_cons. lia.
      * intros q a H Hlt. destruct q as [|q].
        -- cbn in H. inversion H; subst a. rewrite psum_S_cons in Hlt. cbn in Hlt. lia.
        -- cbn [nth_error] in H. rewrite psum_S_cons in Hlt.
           destruct (P q a H ltac:(lia)) as (q' & a' & A & B & C). exists q', a'. repeat split; auto.
           rewrite C, psum_S_cons. lia.
    + apply Nat.leb_gt in E. split.
      * rewrite !total_cons. cbn [acount]. lia.
      * intros q a H Hlt. destruct q as [|q].
        -- cbn in H. inversion H; subst a. exists 0, {| acount := acount a0 - k; achunk := achunk a0 |}.
           repeat split; auto. rewrite !psum_S_cons. cbn. lia.
        -- cbn [nth_error] in H. exists (S q), a. cbn [nth_error]. repeat split; auto.
           rewrite !psum_S_cons in *. cbn [acount]. lia.
Qed.

(* --- consume preserves the invariant: no slice loses its protector --- *)
Theorem consume_inv g k : Inv g -> k <= length (slices g) -> Inv (consume k g).
Proof.
  intros I Hk. pose proof (inv_total g I) as T.
  destruct (drain_spec (anchors g) k ltac:(lia)) as (T' & P).
  constructor; cbn [slices anchors consume].
  - rewrite T', skipn_length. lia.
  - intros p c H.
    assert (H' : nth_error (slices g) (k + p) = Some (Some c)).
    { rewrite <- H. clear. revert k. generalize (slices g). intros l k. revert l. induction k; intros l; [reflexivity|]. destruct l; [now destruct p|]. cbn. apply IHk. }
    destruct (inv_prot g I _ _ H') as (q & a & Hq & Hc & Hlt).
    destruct (P q a Hq ltac:(lia)) as (q' & a' & A & B & C).
    exists q', a'. unfold consume; cbn [anchors]. repeat split; auto; [congruence|]. rewrite C. lia.
Qed.

(* --- pushes preserve it --- *)
Lemma rev_cons_inv {A} (l : list A) a r : rev l = a :: r -> l = rev r ++ [a].
Proof. intros H. apply (f_equal (@rev A)) in H. rewrite rev_involutive in H. cbn in H. exact H. Qed.

Lemma protected_app_slices g s p c :  (* adding a slice at the end keeps protectors *)
  protected g p c -> protected {| slices := slices g ++ [s]; anchors := anchors g |} p c.
Proof. intros H; exact H. Qed.

(* bumping the back anchor's count keeps all prefix sums of earlier anchors and increases the last *)
Lemma protected_bump r a n g' p c :
  anchors g' = rev r ++ [{| acount := n; achunk := achunk a |}] -> acount a <= n ->
  (exists q a0, nth_error (rev r ++ [a]) q = Some a0 /\ achunk a0 = Some c /\ p < psum (rev r ++ [a]) (S q)) ->
  protected g' p c.
Proof.
  intros E Hn (q & a0 & Hq & Hc & Hlt). unfold protected. rewrite E.
  destruct (Nat.lt_ge_cases q (length (rev r))) as [Hlt'|Hge].
  - exists q, a0. rewrite nth_error_app1 in * by lia. repeat split; auto.
    rewrite psum_app in * by lia. exact Hlt.
  - assert (q = length (rev r)).
    { assert (q < length (rev r ++ [a])) by (apply nth_error_Some; congruence). rewrite app_length in H. cbn in H. lia. }
    subst q. rewrite nth_error_app2, Nat.sub_diag in Hq by lia. cbn in Hq. inversion Hq; subst a0.
    exists (length (rev r)), {| acount := n; achunk := achunk a |}.
    rewrite nth_error_app2, Nat.sub_diag by lia. repeat split; auto.
    rewrite psum_app_ge in * by lia. replace (S (length (rev r)) - length (rev r)) with 1 in * by lia. cbn in *. lia.
Qed.

(* generic: replacing the back anchor by one with a count at least as large keeps every protector *)
Lemma protected_bump_back g g' r a n p c :
  rev (anchors g) = a :: r -> anchors g' = rev r ++ [{| acount := n; achunk := achunk a |}] -> acount a <= n ->
  protected g p c -> protected g' p c.
Proof.
  intros E E' Hn (q & a0 & Hq & Hc & Hlt). apply rev_cons_inv in E.
  eapply protected_bump; eauto. exists q, a0. rewrite <- E. auto.
Qed.

Lemma protected_append_anchor g g' a' p c :
  anchors g' = anchors g ++ [a'] -> protected g p c -> protected g' p c.
Proof.
  intros E (q & a0 & Hq & Hc & Hlt). unfold protected. rewrite E.
  assert (q < length (anchors g)) by (apply nth_error_Some; congruence).
  exists q, a0. rewrite nth_error_app1 by lia. repeat split; auto. rewrite psum_app by lia. exact Hlt.
Qed.

Lemma total_bump r a n : total (rev r ++ [{| acount := n; achunk := achunk a |}]) = total (rev r ++ [a]) + n - acount a.
Proof. rewrite !total_app. unfold total at 2 4. cbn. lia. Qed.

Lemma nth_error_app_last {A} (l : list A) x p y : nth_error (l ++ [x]) p = Some y -> (p < length l /\ nth_error l p = Some y) \/ (p = length l /\ y = x).
Proof.
  intros H. destruct (Nat.lt_ge_cases p (length l)).
  - left. rewrite nth_error_app1 in H by lia. auto.
  - right. rewrite nth_error_app2 in H by lia. destruct (p - length l) as [|[|]] eqn:E; cbn in H; try discriminate. inversion H. split; auto. lia.
Qed.

(* 1. a copied slice: covered by the back anchor if it holds the same chunk, else by a fresh anchor *)
Theorem push_owned_inv g c : Inv g -> Inv (push_owned c g).
Proof.
  intros I. pose proof (inv_total g I) as T. unfold push_owned.
  destruct (rev (anchors g)) as [|a r] eqn:E.
  - (* no anchor yet *)
    assert (anchors g = []) by (destruct (anchors g); auto; cbn in E; destruct (rev l); discriminate).
    rewrite H in T. cbn in T. assert (slices g = []) by (destruct (slices g); auto; discriminate). 
    constructor; cbn [slices anchors]; rewrite ?H0; cbn; auto.
    intros p c' Hp. destruct p as [|[|]]; cbn in Hp; try discriminate. inversion Hp; subst c'.
    exists 0, {| acount := 1; achunk := Some c |}. cbn. auto.
  - pose proof (rev_cons_inv _ _ _ E) as EA.
    destruct (match achunk a with Some c' => Nat.eqb c' c | None => false end) eqn:Same.
    + (* same chunk: bump the back anchor *)
      assert (Hc : achunk a = Some c) by (destruct (achunk a); [apply Nat.eqb_eq in Same; now subst|discriminate]).
      constructor; cbn [slices anchors].
      * rewrite total_bump, <- EA, T, app_length. cbn. lia.
      * intros p c' Hp. apply nth_error_app_last in Hp as [(Hl & Hp)|(Hl & Hp)].
        -- apply (protected_bump_back g _ r a (S (acount a))); [exact E|reflexivity|lia|apply (inv_prot g I); auto].
        -- inversion Hp; subst c'. exists (length (rev r)), {| acount := S (acount a); achunk := achunk a |}.
           cbn [anchors]. rewrite nth_error_app2, Nat.sub_diag by lia. repeat split; auto.
           rewrite psum_app_ge by lia. replace (S (length (rev r)) - length (rev r)) with 1 by lia. cbn.
           rewrite EA, total_app in T. unfold total at 2 in T. cbn in T. lia.
    + (* different chunk: a fresh anchor with count 1 *)
      constructor; cbn [slices anchors].
      * rewrite total_app, T, app_length. unfold total. cbn. lia.
      * intros p c' Hp. apply nth_error_app_last in Hp as [(Hl & Hp)|(Hl & Hp)].
        -- eapply protected_append_anchor; [reflexivity|]. apply (inv_prot g I); auto.
        -- inversion Hp; subst c'. exists (length (anchors g)), {| acount := 1; achunk := Some c |}.
           cbn [anchors]. rewrite nth_error_app2, Nat.sub_diag by lia. repeat split; auto.
           rewrite psum_app_ge by lia. replace (S (length (anchors g)) - length (anchors g)) with 1 by lia. cbn. lia.
Qed.

(* 2. borrowed slices: only the counts move; slices that were protected stay protected *)
Lemma push_borrowed_counts g s :
  total (anchors g) = length (slices g) ->
  total (anchors (push_borrowed s g)) = length (slices (push_borrowed s g)) /\
  (forall p c, protected g p c -> protected (push_borrowed s g) p c) /\
  slices (push_borrowed s g) = slices g ++ [s].
Proof.
  intros T. unfold push_borrowed. destruct (rev (anchors g)) as [|a r] eqn:E.
  - assert (anchors g = []) by (destruct (anchors g); auto; cbn in E; destruct (rev l); discriminate).
    rewrite H in T. cbn in T. cbn [slices anchors]. rewrite app_length, <- T. cbn. repeat split; auto.
    intros p c (q & a0 & Hq & _). rewrite H in Hq. destruct q; discriminate.
  - pose proof (rev_cons_inv _ _ _ E) as EA. cbn [slices anchors]. repeat split; auto.
    + rewrite total_bump, <- EA, T, app_length. cbn. lia.
    + intros p c Hp. apply (protected_bump_back g _ r a (S (acount a))); [exact E|reflexivity|lia|exact Hp].
Qed.

Theorem push_plain_inv g : Inv g -> Inv (push_borrowed None g).
Proof.
  intros I. destruct (push_borrowed_counts g None (inv_total g I)) as (T & P & S).
  constructor; auto. intros p c Hp. rewrite S in Hp.
  apply nth_error_app_last in Hp as [(Hl & Hp)|(Hl & Hp)]; [|discriminate].
  apply P. apply (inv_prot g I); auto.
Qed.

(* 3. anchored input (encode_anchored / decode_anchored): the slices first, their anchor afterwards *)
Lemma push_anchor_protects g c p :
  total (anchors g) = length (slices g) -> p < length (slices g) -> protected (push_anchor c g) p c.
Proof.
  intros T Hp. exists (length (anchors g)), {| acount := 0; achunk := Some c |}. cbn [anchors push_anchor].
  rewrite nth_error_app2, Nat.sub_diag by lia. repeat split; auto.
  rewrite psum_app_ge by lia. replace (S (length (anchors g)) - length (anchors g)) with 1 by lia. cbn. lia.
Qed.

(* 4. merging the last two slices (same chunk, back count >= 2) *)
Theorem collapse_inv g : Inv g -> Inv (collapse g).
Proof.
  intros I. pose proof (inv_total g I) as T. unfold collapse.
  destruct (rev (anchors g)) as [|a r] eqn:E; auto.
  destruct (2 <=? acount a) eqn:C; auto. apply Nat.leb_le in C.
  pose proof (rev_cons_inv _ _ _ E) as EA.
  assert (TL : total (rev r) + acount a = length (slices g)).
  { rewrite EA, total_app in T. unfold total at 2 in T. cbn in T. lia. }
  assert (Lr : length (removelast (slices g)) = length (slices g) - 1).
  { destruct (slices g) as [|s0 l] eqn:Es; [reflexivity|]. 
    assert (s0 :: l <> []) by discriminate. destruct (exists_last H) as (l' & x & ->).
    rewrite removelast_last, app_length. cbn. lia. }
  constructor; cbn [slices anchors].
  - rewrite total_app, Lr. unfold total at 2. cbn. lia.
  - intros p c Hp.
    assert (Hlt : p < length (slices g) - 1) by (rewrite <- Lr; apply nth_error_Some; congruence).
    assert (Hp' : nth_error (slices g) p = Some (Some c)).
    { destruct (slices g) as [|s0 l] eqn:Es; [cbn in Hlt; lia|].
      assert (s0 :: l <> []) by discriminate. destruct (exists_last H) as (l' & x & Ex). rewrite Ex in *.
      rewrite removelast_last in Hp. rewrite nth_error_app1; auto. apply nth_error_Some. congruence. }
    destruct (inv_prot g I p c Hp') as (q & a0 & Hq & Hc & Hl).
    rewrite EA in Hq, Hl. unfold protected. cbn [anchors].
    destruct (Nat.lt_ge_cases q (length (rev r))) as [Hq'|Hq'].
    + exists q, a0. rewrite nth_error_app1 in * by lia. repeat split; auto. rewrite psum_app in * by lia. exact Hl.
    + assert (q = length (rev r)).
      { assert (q < length (rev r ++ [a])) by (apply nth_error_Some; congruence). rewrite app_length in H. cbn in H. lia. }
      subst q. rewrite nth_error_app2, Nat.sub_diag in Hq by lia. cbn in Hq. inversion Hq; subst a0.
      exists (length (rev r)), {| acount := acount a - 1; achunk := achunk a |}.
      rewrite nth_error_app2, Nat.sub_diag by lia. repeat split; auto.
      rewrite psum_app_ge by lia. replace (S (length (rev r)) - length (rev r)) with 1 by lia. cbn. lia.
Qed.


(* ===== anchored input, in general =====
   Between the moment slices that point into an anchored buffer of chunk c are pushed and the
   moment its anchor is pushed (encode_anchored / decode_anchored / push + push_anchor), the deque
   may see copies, merges of the last pair and further pieces of the same buffer.  During that
   window the weaker invariant WInv c holds: every arena slice is protected, or belongs to c (which
   the caller's AnchoredSlice still keeps alive).  push_anchor c then re-establishes Inv. *)
Record WInv (c : nat) (g : gd) : Prop := {
  w_total : total (anchors g) = length (slices g);
  w_prot : forall p c', nth_error (slices g) p = Some (Some c') -> protected g p c' \/ c' = c
}.
Lemma Inv_WInv c g : Inv g -> WInv c g.
Proof. intros I. constructor; [exact (inv_total g I)|]. intros p c' H. left. exact (inv_prot g I p c' H). Qed.

Lemma winv_push_borrowed c g s : (s = None \/ s = Some c) -> WInv c g -> WInv c (push_borrowed s g).
Proof.
  intros Hs W. destruct (push_borrowed_counts g s (w_total c g W)) as (T & P & S).
  constructor; [exact T|]. intros p c' Hp. rewrite S in Hp.
  apply nth_error_app_last in Hp as [(Hl & Hp)|(Hl & Hp)].
  - destruct (w_prot c g W p c' Hp) as [Pr|E]; [left; apply P; exact Pr|right; exact E].
  - destruct Hs as [->| ->]; [discriminate|]. inversion Hp. now right.
Qed.

Lemma winv_push_owned c g c1 : WInv c g -> WInv c (push_owned c1 g).
Proof.
  intros W. pose proof (w_total c g W) as T. unfold push_owned.
  destruct (rev (anchors g)) as [|a r] eqn:E.
  - assert (anchors g = []) by (destruct (anchors g); auto; cbn in E; destruct (rev l); discriminate).
    rewrite H in T. cbn in T. assert (slices g = []) by (destruct (slices g); auto; discriminate).
    constructor; cbn [slices anchors]; rewrite ?H0; cbn; auto.
    intros p c' Hp. destruct p as [|[|]]; cbn in Hp; try discriminate. inversion Hp; subst c'. left.
    exists 0, {| acount := 1; achunk := Some c1 |}. cbn. auto.
  - pose proof (rev_cons_inv _ _ _ E) as EA.
    destruct (match achunk a with Some c' => Nat.eqb c' c1 | None => false end) eqn:Same.
    + assert (Hc : achunk a = Some c1) by (destruct (achunk a); [apply Nat.eqb_eq in Same; now subst|discriminate]).
      constructor; cbn [slices anchors].
      * rewrite total_bump, <- EA, T, app_length. cbn. lia.
      * intros p c' Hp. apply nth_error_app_last in Hp as [(Hl & Hp)|(Hl & Hp)].
        -- destruct (w_prot c g W p c' Hp) as [Pr|Ec]; [left|right; exact Ec].
           apply (protected_bump_back g _ r a (S (acount a))); [exact E|reflexivity|lia|exact Pr].
        -- inversion Hp; subst c'. left. exists (length (rev r)), {| acount := S (acount a); achunk := achunk a |}.
           cbn [anchors]. rewrite nth_error_app2, Nat.sub_diag by lia. repeat split; auto.
           rewrite psum_app_ge by lia. replace (S (length (rev r)) - length (rev r)) with 1 by lia. cbn.
           rewrite EA, total_app in T. unfold total at 2 in T. cbn in T. lia.
    + constructor; cbn [slices anchors].
      * rewrite total_app, T, app_length. unfold total. cbn. lia.
      * intros p c' Hp. apply nth_error_app_last in Hp as [(Hl & Hp)|(Hl & Hp)].
        -- destruct (w_prot c g W p c' Hp) as [Pr|Ec]; [left|right; exact Ec].
           eapply protected_append_anchor; [reflexivity|exact Pr].
        -- inversion Hp; subst c'. left. exists (length (anchors g)), {| acount := 1; achunk := Some c1 |}.
           cbn [anchors]. rewrite nth_error_app2, Nat.sub_diag by lia. repeat split; auto.
           rewrite psum_app_ge by lia. replace (S (length (anchors g)) - length (anchors g)) with 1 by lia. cbn. lia.
Qed.

Lemma winv_collapse c g : WInv c g -> WInv c (collapse g).
Proof.
  intros W. pose proof (w_total c g W) as T. unfold collapse.
  destruct (rev (anchors g)) as [|a r] eqn:E; auto.
  destruct (2 <=? acount a) eqn:C; auto. apply Nat.leb_le in C.
  pose proof (rev_cons_inv _ _ _ E) as EA.
  assert (TL : total (rev r) + acount a = length (slices g)).
  { rewrite EA, total_app in T. unfold total at 2 in T. cbn in T. lia. }
  assert (Lr : length (removelast (slices g)) = length (slices g) - 1).
  { destruct (slices g) as [|s0 l] eqn:Es; [reflexivity|].
    assert (s0 :: l <> []) by discriminate. destruct (exists_last H) as (l' & x & ->).
    rewrite removelast_last, app_length. cbn. lia. }
  constructor; cbn [slices anchors].
  - rewrite total_app, Lr. unfold total at 2. cbn. lia.
  - intros p c' Hp.
    assert (Hlt : p < length (slices g) - 1) by (rewrite <- Lr; apply nth_error_Some; congruence).
    assert (Hp' : nth_error (slices g) p = Some (Some c')).
    { destruct (slices g) as [|s0 l] eqn:Es; [cbn in Hlt; lia|].
      assert (s0 :: l <> []) by discriminate. destruct (exists_last H) as (l' & x & Ex). rewrite Ex in *.
      rewrite removelast_last in Hp. rewrite nth_error_app1; auto. apply nth_error_Some. congruence. }
    destruct (w_prot c g W p c' Hp') as [(q & a0 & Hq & Hc & Hl)|Ec]; [left|right; exact Ec].
    rewrite EA in Hq, Hl. unfold protected. cbn [anchors].
    destruct (Nat.lt_ge_cases q (length (rev r))) as [Hq'|Hq'].
    + exists q, a0. rewrite nth_error_app1 in * by lia. repeat split; auto. rewrite psum_app in * by lia. exact Hl.
    + assert (q = length (rev r)).
      { assert (q < length (rev r ++ [a])) by (apply nth_error_Some; congruence). rewrite app_length in H. cbn in H. lia. }
      subst q. rewrite nth_error_app2, Nat.sub_diag in Hq by lia. cbn in Hq. inversion Hq; subst a0.
      exists (length (rev r)), {| acount := acount a - 1; achunk := achunk a |}.
      rewrite nth_error_app2, Nat.sub_diag by lia. repeat split; auto.
      rewrite psum_app_ge by lia. replace (S (length (rev r)) - length (rev r)) with 1 by lia. cbn. lia.
Qed.

Lemma winv_push_anchor c g : WInv c g -> Inv (push_anchor c g).
Proof.
  intros W. pose proof (w_total c g W) as T. constructor.
  - cbn [push_anchor slices anchors]. rewrite total_app, T. unfold total. cbn. lia.
  - intros p c' Hp. cbn [push_anchor slices] in Hp.
    destruct (w_prot c g W p c' Hp) as [Pr| ->].
    + eapply protected_append_anchor; [reflexivity|exact Pr].
    + apply push_anchor_protects; auto. apply nth_error_Some. congruence.
Qed.

(* ===== histories ===== *)
Inductive sub := SubBorrow | SubCopy (c1 : nat) | SubCollapse.
Inductive op := OpCopy (c : nat) | OpBorrow | OpCollapse | OpConsume (k : nat) | OpClear
              | OpAnchored (c : nat) (subs : list sub)      (* pieces of an anchored buffer of chunk c, then its anchor *)
              | OpIdle.                                   (* push_anchor of a default anchor (anchored input of zero bytes asked for) *)
Definition apply_sub (c : nat) (g : gd) (s : sub) : gd :=
  match s with
  | SubBorrow => push_borrowed (Some c) g
  | SubCopy c1 => push_owned c1 g
  | SubCollapse => collapse g
  end.
Definition apply_op (o : op) (g : gd) : gd :=
  match o with
  | OpCopy c => push_owned c g
  | OpBorrow => push_borrowed None g
  | OpCollapse => collapse g
  | OpConsume k => consume (Nat.min k (length (slices g))) g
  | OpClear => {| slices := []; anchors := [] |}
  | OpAnchored c subs => push_anchor c (fold_left (apply_sub c) subs g)
  | OpIdle => {| slices := slices g; anchors := anchors g ++ [{| acount := 0; achunk := None |}] |}
  end.

Lemma empty_inv : Inv {| slices := []; anchors := [] |}.
Proof. constructor; cbn; auto. intros p c H. destruct p; discriminate. Qed.

Lemma apply_op_inv o g : Inv g -> Inv (apply_op o g).
Proof.
  intros I. destruct o as [c| | |k| |c subs|]; cbn [apply_op].
  - now apply push_owned_inv.
  - now apply push_plain_inv.
  - now apply collapse_inv.
  - apply consume_inv; auto. lia.
  - exact empty_inv.
  - apply winv_push_anchor. generalize (Inv_WInv c g I). generalize g. clear.
    induction subs as [|s subs IH]; intros g W; cbn [fold_left]; [exact W|]. apply IH.
    destruct s; cbn [apply_sub]; [apply winv_push_borrowed; auto|apply winv_push_owned; auto|apply winv_collapse; auto].
  - constructor; cbn [slices anchors].
    + rewrite total_app, (inv_total g I). unfold total. cbn. lia.
    + intros p c Hp. eapply protected_append_anchor; [reflexivity|apply (inv_prot g I p c Hp)].
Qed.

(* C05, core: in every state reachable by these operations a chunk referenced by a remaining slice
   is referenced by a remaining anchor, i.e. (Arc semantics) it has not been released *)
Theorem C05_core ops :
  let g := fold_left (fun g o => apply_op o g) ops {| slices := []; anchors := [] |} in
  Inv g /\ forall p c, nth_error (slices g) p = Some (Some c) -> held g c.
Proof.
  cbn zeta. assert (forall g, Inv g -> Inv (fold_left (fun g o => apply_op o g) ops g)) as H.
  { induction ops as [|o ops IH]; intros g I; cbn [fold_left]; auto. apply IH. now apply apply_op_inv. }
  specialize (H _ empty_inv). split; [exact H|]. now apply inv_held.
Qed.
