From Coq Require Import List NArith ZArith Bool Lia ZifyBool ZifyN.
From WPGen Require Import Params.
From WP Require Import iovec.Arena.
Import ListNotations.
Open Scope N_scope.
Ltac Zify.zify_post_hook ::= Z.div_mod_to_equations.

(* facts about the translated sequence, by computation: non-empty, strictly increasing, its last
   element is the 1 MiB cap, all multiples of the rounding factor *)
Lemma seq_facts :
  max_seq = 1048576 /\ BUMP_REGION_SIZE_FACTOR = 4096 /\
  forallb (fun s => (s <=? max_seq) && (0 <? s)) BUMP_REGION_SIZE_SEQUENCE = true /\
  existsb (N.eqb max_seq) BUMP_REGION_SIZE_SEQUENCE = true.
Proof. repeat split; vm_compute; reflexivity. Qed.

Lemma pick_spec wanted : wanted <= max_seq -> wanted <= pick wanted <= max_seq /\ In (pick wanted) BUMP_REGION_SIZE_SEQUENCE.
Proof.
  intros H. destruct seq_facts as (_ & _ & HF & HE). unfold pick.
  destruct (find (fun s => wanted <=? s) BUMP_REGION_SIZE_SEQUENCE) as [s|] eqn:F.
  - apply find_some in F as (Hin & Hle). rewrite forallb_forall in HF. specialize (HF s Hin).
    apply andb_true_iff in HF as (HF & _). split; [lia|exact Hin].
  - exfalso. apply existsb_exists in HE as (x & Hin & Hx). apply N.eqb_eq in Hx. subst x.
    pose proof (find_none _ _ F max_seq Hin) as Hn. cbn beta in Hn. lia.
Qed.

(* no assertion of find_hint_size can fire; the hint covers the request; below the cap the chunks of
   one arena grow strictly and never exceed the cap; at or above the cap the hint is the request
   rounded up to the factor *)
Theorem find_hint_size_spec len prev : len <= USIZE_MAX -> prev <= USIZE_MAX ->
  exists h, find_hint_size len prev = HOk h /\ len <= h /\
    (len < max_seq -> h <= max_seq /\ (prev < max_seq -> prev < h) /\ (max_seq <= prev -> h = max_seq)) /\
    (max_seq <= len -> h < len + BUMP_REGION_SIZE_FACTOR \/ h = USIZE_MAX).
Proof.
  intros Hl Hp. destruct seq_facts as (EM & EF & _). unfold find_hint_size.
  destruct (max_seq <=? len) eqn:E1.
  - apply N.leb_le in E1. set (hint := sat_mul (div_ceil len BUMP_REGION_SIZE_FACTOR) BUMP_REGION_SIZE_FACTOR).
    assert (Hh : len <= hint /\ (hint < len + BUMP_REGION_SIZE_FACTOR \/ hint = USIZE_MAX)).
    { unfold hint, sat_mul, div_ceil, USIZE_MAX in *. rewrite EF. lia. }
    destruct Hh as (Hh1 & Hh2). assert (hint <? len = false) as -> by lia.
    exists hint. split; [reflexivity|]. split; [exact Hh1|]. split; [lia|auto].
  - apply N.leb_gt in E1. destruct (max_seq <=? prev) eqn:E2.
    + apply N.leb_le in E2. exists max_seq. split; [reflexivity|]. split; [lia|]. split; [intros _; repeat split; lia|lia].
    + apply N.leb_gt in E2. set (wanted := N.max (sat_add prev 1) len).
      assert (Hw : wanted <= max_seq /\ prev < wanted /\ len <= wanted) by (unfold wanted, sat_add, USIZE_MAX in *; lia).
      destruct Hw as (Hw1 & Hw2 & Hw3). assert (max_seq <? wanted = false) as -> by lia.
      destruct (pick_spec wanted Hw1) as ((P1 & P2) & _).
      assert (pick wanted <? len = false) as -> by lia. assert (pick wanted <=? prev = false) as -> by lia.
      exists (pick wanted). split; [reflexivity|]. split; [lia|]. split; [intros _; repeat split; lia|lia].
Qed.

Corollary find_hint_size_no_panic len prev : len <= USIZE_MAX -> prev <= USIZE_MAX -> find_hint_size len prev <> HPanic.
Proof. intros Hl Hp. destruct (find_hint_size_spec len prev Hl Hp) as (h & -> & _). discriminate. Qed.
