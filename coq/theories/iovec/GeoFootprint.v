(* C10 on the geometry-faithful model: what an OwningIovec still holds once the consumer has drained it.
   In every state a history reaches, an iovec with no buffered slice has no anchor left: the only chunk it
   can still hold is the one in its allocation cache (and `flush_cache` / dropping the arena releases that
   one too).  With the size policy (Arena.find_hint_size: a capacity of at most max(1 MiB, request rounded
   up to 4 KiB)) this bounds the live arena memory of a drained producer by one chunk, whatever amount of
   data was streamed through it. *)
From Coq Require Import List NArith Bool Arith Lia.
From WP Require Import iovec.Arena iovec.Geo iovec.GeoMem iovec.GeoProofs iovec.GeoRefine iovec.GeoHistory iovec.GeoAnchors.
From WP Require iovec.Pipe iovec.PipeProofs2.
Import ListNotations.
Open Scope N_scope.

Lemma gd_consume_clean c g g' k : gd_consume c g = Some (g', k) -> gslices g' = [] -> ganchors g' = [].
Proof.
  unfold gd_consume. destruct (drain _ (ganchors g)) as [an|]; [|discriminate].
  destruct (Bool.eqb (is_nil (nskipn (N.min c (nlen (gslices g))) (gslices g))) (is_nil (drop_zero an))) eqn:Eq; cbn [negb]; [|discriminate].
  intros E. inversion E; subst g' k. cbn [gslices ganchors]. intros Hnil.
  rewrite Hnil in Eq. cbn [is_nil] in Eq. apply Bool.eqb_prop in Eq. destruct (drop_zero an); [reflexivity|discriminate].
Qed.

(* a consume call (of any count, zero included) that leaves no slice behind leaves no anchor *)
Theorem consume_releases k g g' n : consume k g = Some (g', n) -> gslices g' = [] ->
  ganchors g' = [] /\ holders g' = match gcache_ g' with Some k => [kchunk k] | None => [] end.
Proof.
  intros E Hnil. unfold consume in E. destruct (stable_count g); [|discriminate].
  pose proof (gd_consume_clean _ _ _ _ E Hnil) as J. split; [exact J|]. unfold holders. now rewrite J.
Qed.

Lemma total_zero l : Anchors.total l = 0%nat -> Forall (fun a => Anchors.acount a = 0%nat) l.
Proof.
  induction l as [|a l IH]; intros H; [constructor|]. rewrite Anchors.total_cons in H. constructor; [lia|apply IH; lia].
Qed.

(* in every reachable state without a buffered slice, the anchors that are left count no slice: they are the anchors of
   anchored inputs that contributed nothing since the last consume call, which releases them *)
Theorem geo_drained_footprint ops h' g' xs :
  g1run [] empty_iov ops = Some (h', g', xs) -> gslices g' = [] -> Forall (fun a => acount a = 0) (ganchors g').
Proof.
  intros E Hnil. destruct (geo_ownership ops h' g' xs E) as (AI & _).
  pose proof (Anchors.inv_total _ AI) as T. unfold proj in T. cbn [Anchors.slices Anchors.anchors] in T.
  rewrite Hnil in T. cbn in T. apply total_zero in T. rewrite Forall_forall in *. intros a Ha.
  specialize (T (panchor a) (in_map panchor _ _ Ha)). cbn [panchor Anchors.acount] in T. lia.
Qed.
