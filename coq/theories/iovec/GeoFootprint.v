(* C10 on the geometry-faithful model: what an OwningIovec still holds once the consumer has drained it.
   In every state a history reaches, an iovec with no buffered slice has no anchor left: the only chunk it
   can still hold is the one in its allocation cache (and `flush_cache` / dropping the arena releases that
   one too).  With the size policy (Arena.find_hint_size: a capacity of at most max(1 MiB, request rounded
   up to 4 KiB)) this bounds the live arena memory of a drained producer by one chunk, whatever amount of
   data was streamed through it. *)
From Coq Require Import List NArith Bool Arith Lia.
From WP Require Import iovec.Arena iovec.Geo iovec.GeoMem iovec.GeoProofs iovec.GeoRefine iovec.GeoHistory iovec.GeoAnchors.
From WP Require iovec.Pipe iovec.PipeProofs2.
Import ListNotations.
Open Scope N_scope.

Definition drained_clean (g : giov) : Prop := gslices g = [] -> ganchors g = [].

Lemma pipe_push_nonempty merged bs (s : Pipe.st) : bs <> [] -> Pipe.slices (Pipe.push merged bs s) <> [].
Proof.
  intros Hne. unfold Pipe.push. destruct bs as [|b0 bs0]; [congruence|]. cbn [Pipe.slices].
  pose proof (PipeProofs2.push_raw_length merged (Pipe.plain (b0 :: bs0)) (Pipe.slices s)) as (_ & H1).
  intros Hnil. rewrite Hnil in H1. cbn in H1. lia.
Qed.

Lemma related_nonempty h g s : R h g s -> Pipe.slices s <> [] -> gslices g <> [].
Proof.
  intros Rs Hne Hnil. pose proof (R_lengths _ _ _ Rs) as HL. rewrite Hnil in HL. destruct (Pipe.slices s); [congruence|discriminate].
Qed.

Lemma gd_consume_clean c g g' k : gd_consume c g = Some (g', k) -> drained_clean g'.
Proof.
  unfold gd_consume. destruct (drain _ (ganchors g)) as [an|]; [|discriminate].
  destruct (Bool.eqb (is_nil (nskipn (N.min c (nlen (gslices g))) (gslices g))) (is_nil (drop_zero an))) eqn:Eq; cbn [negb]; [|discriminate].
  intros E. inversion E; subst g' k. unfold drained_clean. cbn [gslices ganchors]. intros Hnil.
  rewrite Hnil in Eq. cbn [is_nil] in Eq. apply Bool.eqb_prop in Eq. destruct (drop_zero an); [reflexivity|discriminate].
Qed.

Lemma cbb_clean : forall fuel c g g', drained_clean g -> consume_by_bytes fuel c g = Some g' -> drained_clean g'.
Proof.
  induction fuel as [|fuel IH]; intros c g g' J E; cbn [consume_by_bytes] in E.
  - destruct (c =? 0); [|discriminate]. now inversion E; subst.
  - destruct (c =? 0); [now inversion E; subst|].
    destruct (gslices g) as [|s0 t] eqn:Esl; [discriminate|].
    destruct (N.min c (sl_len s0) =? sl_len s0).
    + destruct (gd_consume 1 g) as [[g1 k1]|] eqn:EG; [|discriminate].
      eapply IH; [eapply gd_consume_clean; exact EG|exact E].
    + inversion E; subst g'. unfold drained_clean. cbn [gslices]. discriminate.
Qed.

Lemma advance_clean n g g' k : drained_clean g -> advance_slices n g = Some (g', k) -> drained_clean g'.
Proof.
  intros J. unfold advance_slices. destruct (stable_slices g) as [st|]; [|discriminate].
  match goal with |- context [consume_by_bytes ?f ?c g] => destruct (consume_by_bytes f c g) as [gx|] eqn:EC; [|discriminate] end.
  intros E. inversion E; subst gx. eapply cbb_clean; eauto.
Qed.

Lemma read_loop_clean h : forall fuel n g acc g' out, drained_clean g -> read_loop fuel h n g acc = Some (g', out) -> drained_clean g'.
Proof.
  induction fuel as [|fuel IH]; intros n g acc g' out J E; cbn [read_loop] in E.
  - destruct (n =? 0); inversion E; now subst.
  - destruct (n =? 0); [inversion E; now subst|].
    destruct (stable_slices g) as [[|s0 rest]|]; [inversion E; now subst| |discriminate].
    destruct (advance_slices (N.min (sl_len s0) n) g) as [[g1 k1]|] eqn:EA; [|discriminate].
    eapply IH; [eapply advance_clean; eauto|exact E].
Qed.

(* producers leave a slice behind (or change nothing) *)
Lemma produced_clean g (s : Pipe.st) h' g' bs merged :
  drained_clean g -> R h' g' (Pipe.push merged bs s) -> (bs = [] -> g' = g) -> drained_clean g'.
Proof.
  intros J R' Hnil. destruct bs as [|b0 bs0] eqn:Eb; [rewrite (Hnil eq_refl); exact J|].
  intros Hsl. exfalso. revert Hsl. eapply related_nonempty; [exact R'|]. apply pipe_push_nonempty. discriminate.
Qed.

Theorem g1step_clean h g o h' g' x : GInv h g -> drained_clean g -> g1step h g o = Some (h', g', x) -> drained_clean g'.
Proof.
  intros I J E. pose proof (R_pipe_of h g) as Rs.
  destruct o as [bs|bs|bs|items|bs|p|b src|k|k| |k| | |k|bs count]; cbn [g1step] in E.
  - destruct (push h (SExt bs) g) as [[h1 g1]|] eqn:EP; [|discriminate]. inversion E; subst h1 g1 x.
    destruct (push_refines _ _ _ _ _ _ I Rs EP) as (_ & m & R'). eapply produced_clean; eauto.
    intros ->. cbn in EP. now inversion EP.
  - destruct (push_copy h bs g) as [[h1 g1]|] eqn:EP; [|discriminate]. inversion E; subst h1 g1 x.
    destruct (push_copy_refines _ _ _ _ _ _ I Rs EP) as (_ & m & R'). eapply produced_clean; eauto.
    intros ->. cbn in EP. now inversion EP.
  - destruct (push_borrowed (SExt bs) g) as [g1|] eqn:EP; [|discriminate]. inversion E; subst h' g1 x.
    destruct (push_borrowed_refines _ _ _ _ _ I Rs EP) as (_ & m & R'). eapply produced_clean; eauto.
    intros ->. cbn in EP. now inversion EP.
  - destruct (extend (map SExt items) g) as [g1|] eqn:EP; [|discriminate]. inversion E; subst h' g1 x. clear E.
    revert g I J Rs EP. induction items as [|bs items IH]; intros g I J Rs EP; cbn [map extend] in EP; [inversion EP; now subst|].
    destruct (push_borrowed (SExt bs) g) as [g1|] eqn:EB; [|discriminate].
    destruct (push_borrowed_refines _ _ _ _ _ I Rs EB) as (I1 & m & R1).
    apply (IH g1 I1); [|apply R_pipe_of|exact EP].
    eapply produced_clean; eauto. intros ->. cbn in EB. now inversion EB.
  - destruct (anchored h bs g) as [[h1 g1]|] eqn:EP; [|discriminate]. inversion E; subst h1 g1 x.
    destruct (anchored_refines _ _ _ _ _ _ I Rs EP) as (_ & m & R'). eapply produced_clean; eauto.
    intros ->. cbn in EP. inversion EP. now destruct g.
  - destruct (register_patch h p g) as [[[h1 g1] b]|] eqn:EP; [|discriminate]. inversion E; subst h1 g1 x.
    destruct (register_refines _ _ _ _ _ _ _ I Rs EP) as (_ & m & R' & _).
    destruct p as [|p0 pr] eqn:Ep; [cbn in EP; inversion EP; now subst|].
    intros Hsl. exfalso. revert Hsl. eapply related_nonempty; [exact R'|].
    unfold Pipe.register. cbn [fst Pipe.slices].
    pose proof (PipeProofs2.push_raw_length m (Pipe.marked (Pipe.logical (pipe_of h g) + length (p0 :: pr)) (p0 :: pr)) (Pipe.slices (pipe_of h g))) as (_ & H1).
    intros Hnil. rewrite Hnil in H1. cbn in H1. lia.
  - destruct (backfill h b src g) as [[h1 g1]|] eqn:EP; [|discriminate]. inversion E; subst h1 g1 x.
    pose proof (proj_backfill _ _ _ _ _ _ EP) as Hp. unfold proj in Hp. inversion Hp as [[H1 H2]].
    unfold drained_clean. intros Hnil. rewrite Hnil in H1. cbn in H1.
    assert (gslices g = []) by (destruct (gslices g); [reflexivity|discriminate]).
    specialize (J H). rewrite J in H2. cbn in H2. destruct (ganchors g'); [reflexivity|discriminate].
  - destruct (consume k g) as [[g1 n]|] eqn:EP; [|discriminate]. inversion E; subst h' g1 x.
    unfold consume in EP. destruct (stable_count g); [|discriminate]. eapply gd_consume_clean; eauto.
  - destruct (advance_slices k g) as [[g1 c]|] eqn:EP; [|discriminate]. inversion E; subst h' g1 x. eapply advance_clean; eauto.
  - destruct (pop_front g) as [g1|] eqn:EP; [|discriminate]. inversion E; subst h' g1 x.
    unfold pop_front in EP. destruct (consume 1 g) as [[g2 n]|] eqn:EC; [|discriminate].
    destruct n as [|[q|q|]]; try discriminate. inversion EP; subst g2.
    unfold consume in EC. destruct (stable_count g); [|discriminate]. eapply gd_consume_clean; eauto.
  - destruct (read h k g) as [[g1 bs]|] eqn:EP; [|discriminate]. inversion E; subst h' g1 x. eapply read_loop_clean; eauto.
  - inversion E; subst h' g' x. unfold drained_clean. reflexivity.
  - inversion E; subst h' g' x. exact J.
  - destruct (ensure_capacity h (gcache_ g) k) as [[h1 k1]|]; [|discriminate]. inversion E; subst h1 g' x. exact J.
  - destruct (nlen bs <=? count) eqn:Ec; [|discriminate]. apply N.leb_le in Ec.
    destruct (anchored_n h bs count g) as [[h1 g1]|] eqn:EP; [|discriminate]. inversion E; subst h1 g1 x.
    destruct (anchored_n_refines _ _ _ _ _ _ _ I Rs Ec EP) as (_ & m & R').
    destruct bs as [|b0 bs0] eqn:Eb.
    + (* nothing delivered: only the cache may move *)
      unfold anchored_n in EP. destruct (arena_read_n h (gcache_ g) [] count) as [[[[hp kp] sp] ap]|] eqn:EA; [|discriminate].
      assert (Hs : sl_len sp = 0).
      { unfold arena_read_n in EA. destruct (count =? 0); [inversion EA; reflexivity|].
        destruct (count <? nlen []); [discriminate|]. destruct (alloc_cache h (gcache_ g) count) as [[h1 k1]|]; [|discriminate].
        inversion EA. reflexivity. }
      rewrite Hs in EP. cbn in EP. inversion EP; subst h' g'. exact J.
    + intros Hsl. exfalso. revert Hsl. eapply related_nonempty; [exact R'|]. apply pipe_push_nonempty. discriminate.
Qed.

Theorem g1run_clean ops : forall h g h' g' xs, GInv h g -> drained_clean g -> g1run h g ops = Some (h', g', xs) -> drained_clean g'.
Proof.
  induction ops as [|o ops IH]; intros h g h' g' xs I J E; cbn [g1run] in E.
  - inversion E; now subst.
  - destruct (g1step h g o) as [[[h1 g1] x]|] eqn:ES; [|discriminate].
    destruct (g1run h1 g1 ops) as [[[h2 g2] xs2]|] eqn:ER; [|discriminate]. inversion E; subst h2 g2 xs.
    destruct (g1step_refines h g (pipe_of h g) o h1 g1 x I (R_pipe_of h g) ES) as (I1 & _).
    exact (IH h1 g1 h' g' xs2 I1 (g1step_clean h g o h1 g1 x I J ES) ER).
Qed.

(* the statement: a drained iovec holds at most the chunk of its allocation cache *)
Theorem geo_drained_footprint ops h' g' xs :
  g1run [] empty_iov ops = Some (h', g', xs) -> gslices g' = [] ->
  ganchors g' = [] /\ holders g' = match gcache_ g' with Some k => [kchunk k] | None => [] end.
Proof.
  intros E Hnil.
  assert (H0 : heap_ok []) by (intros c Hc; cbn in Hc; lia).
  assert (J : drained_clean g').
  { eapply (g1run_clean ops [] empty_iov); [apply GInv_empty; exact H0|intros _; reflexivity|exact E]. }
  specialize (J Hnil). split; [exact J|]. unfold holders. rewrite J. reflexivity.
Qed.
