(* C20: backfills, consumption and the history-level independence theorem on top of World.v. *)
From Coq Require Import List NArith Lia Bool Arith.
From WP Require Import iovec.World.
Import ListNotations.

Lemma skipn_skipn2 {A} x y (l : list A) : skipn x (skipn y l) = skipn (y + x) l.
Proof. revert l. induction y as [|y IH]; intros l; [reflexivity|]. destruct l; [now destruct x|]. cbn. apply IH. Qed.

(* ---- writes disjoint from a slice do not change it ---- *)
Definition disjoint_from (s : pslice) (c off len : nat) : Prop :=
  pc s <> c \/ poff s + plen s <= off \/ off + len <= poff s.

Lemma deref_write_after h c off bs s :
  pc s = c -> off + length bs <= poff s -> off + length bs <= length (chunk_data h c) ->
  deref (write h c off bs) s = deref h s.
Proof.
  intros E H Hb. unfold deref. rewrite E.
  destruct (Nat.lt_ge_cases c (length h)) as [Hc|Hc].
  - rewrite chunk_data_write_same by exact Hc. unfold write_chunk. set (d := chunk_data h c) in *.
    f_equal. rewrite app_assoc, skipn_app.
    assert (L : length (firstn off d ++ bs) = off + length bs) by (rewrite app_length, firstn_length; lia).
    rewrite L. rewrite skipn_all2 by lia. cbn [app].
    rewrite skipn_skipn2. f_equal. lia.
  - unfold write. now rewrite update_nth_overflow.
Qed.

Lemma deref_write_disjoint h c off bs s :
  disjoint_from s c off (length bs) -> off + length bs <= length (chunk_data h c) ->
  deref (write h c off bs) s = deref h s.
Proof.
  intros [H|[H|H]] Hb.
  - apply deref_write_frame; auto.
  - apply deref_write_frame; auto.
  - destruct (Nat.eq_dec (pc s) c) as [E|E]; [apply deref_write_after; auto|apply deref_write_frame; auto].
Qed.

(* ---- pending placeholders (ghost): owner, chunk, offset, length ---- *)
Definition hole := (nat * nat * nat * nat)%type.
Definition HI (w : world) (hs : list hole) : Prop :=
  forall i c off len, In (i, c, off, len) hs ->
    0 < len /\
    (exists oi s, nth_error (objs w) i = Some oi /\ In s (osl oi) /\ pc s = c /\ poff s <= off /\ off + len <= poff s + plen s) /\
    (forall j oj s, j <> i -> nth_error (objs w) j = Some oj -> In s (osl oj) -> disjoint_from s c off len).

(* backfill: an in-place write into one of the owner's pending placeholders *)
Definition backfill (w : world) (c off : nat) (bs : list byte) : world :=
  {| heap := write (heap w) c off bs; objs := objs w |}.

Lemma bytes_of_ext w w' o : (forall s, In s (osl o) -> deref (heap w') s = deref (heap w) s) -> bytes_of w' o = bytes_of w o.
Proof. intros H. unfold bytes_of. apply concat_map_ext. exact H. Qed.

Theorem backfill_frame w hs i c off bs :
  WI w -> HI w hs -> In (i, c, off, length bs) hs ->
  let w' := backfill w c off bs in
  WI w' /\ objs w' = objs w /\
  (forall j oj, j <> i -> nth_error (objs w) j = Some oj -> bytes_of w' oj = bytes_of w oj) /\
  HI w' (filter (fun h => negb (let '(i', c', off', _) := h in Nat.eqb i' i && Nat.eqb c' c && Nat.eqb off' off)) hs).
Proof.
  intros I H Hin w'. destruct (H i c off (length bs) Hin) as (Hlen & (oi & s0 & Hoi & Hs0 & Hpc & Hlo & Hhi) & Hdis).
  destruct (wi_slices w I i oi s0 Hoi Hs0) as (Hc & Hb & _). rewrite Hpc in *.
  assert (Hfit : off + length bs <= length (chunk_data (heap w) c)) by lia.
  unfold w', backfill in *. clear w'.
  assert (Hlen' : forall c', length (chunk_data (write (heap w) c off bs) c') = length (chunk_data (heap w) c')) by (intros c'; apply chunk_len_write; exact Hfit).
  assert (Hheap : length (write (heap w) c off bs) = length (heap w)) by (unfold write; apply length_update_nth).
  split; [|split; [reflexivity|split]].
  - constructor; cbn [objs heap].
    + apply (wi_distinct w I).
    + intros a o c' b Ha Hc'. destruct (wi_bump w I a o c' b Ha Hc') as (A & B). rewrite Hheap, Hlen'. auto.
    + intros j oj s Hj Hs. destruct (wi_slices w I j oj s Hj Hs) as (A & B & C). rewrite Hheap, Hlen'. auto.
  - intros j oj Hne Hj. apply bytes_of_ext. intros s Hs. cbn [heap].
    apply deref_write_disjoint; [|exact Hfit]. exact (Hdis j oj s Hne Hj Hs).
  - intros i' c' off' len' Hin'. apply filter_In in Hin' as (Hin' & _). exact (H i' c' off' len' Hin').
Qed.

(* ---- consume / clear / drop only forget slices ---- *)
Definition shrink (w : world) (i : nat) (keep : list pslice) : world :=
  match nth_error (objs w) i with
  | None => w
  | Some o => set_obj w i {| osl := keep; ocache := ocache o |} (heap w)
  end.

Lemma nth_error_update_cases {A} (l : list A) i x j y : nth_error (update_nth i (fun _ => x) l) j = Some y ->
  (j <> i /\ nth_error l j = Some y) \/ (j = i /\ y = x /\ i < length l).
Proof.
  intros H. destruct (Nat.eq_dec j i) as [-> | Hne].
  - right. destruct (nth_error l i) as [z|] eqn:E.
    + rewrite (nth_error_update_nth_same i (fun _ => x) l z E) in H. inversion H. repeat split; auto. apply nth_error_Some. congruence.
    + exfalso. assert (length l <= i) by (apply nth_error_None; exact E). rewrite update_nth_overflow in H by lia. congruence.
  - left. rewrite nth_error_update_nth_other in H by auto. auto.
Qed.

Theorem shrink_frame w hs i o keep :
  WI w -> HI w hs -> nth_error (objs w) i = Some o -> (forall s, In s keep -> In s (osl o)) ->
  (forall c off len, In (i, c, off, len) hs -> exists s, In s keep /\ pc s = c /\ poff s <= off /\ off + len <= poff s + plen s) ->
  let w' := shrink w i keep in
  WI w' /\ HI w' hs /\ heap w' = heap w /\
  (forall j oj, j <> i -> nth_error (objs w) j = Some oj -> nth_error (objs w') j = Some oj /\ bytes_of w' oj = bytes_of w oj).
Proof.
  intros I H Ho Hsub Hkeep w'. unfold w', shrink. rewrite Ho. unfold set_obj.
  set (o' := {| osl := keep; ocache := ocache o |}).
  assert (Hcases : forall j oj, nth_error (update_nth i (fun _ => o') (objs w)) j = Some oj ->
            (j <> i /\ nth_error (objs w) j = Some oj) \/ (j = i /\ oj = o')).
  { intros j oj Hj. apply nth_error_update_cases in Hj as [?|(? & ? & _)]; auto. }
  split; [|split; [|split; [reflexivity|]]].
  - constructor; cbn [heap objs].
    + intros a b oa ob ca ba cb bb Hne Ha Hb Hca Hcb.
      apply Hcases in Ha as [(Na & Ha)|(-> & ->)]; apply Hcases in Hb as [(Nb & Hb)|(-> & ->)]; cbn [ocache o'] in *.
      * eapply (wi_distinct w I a b); eauto.
      * eapply (wi_distinct w I a i); eauto.
      * eapply (wi_distinct w I i b); eauto.
      * congruence.
    + intros a oa c b Ha Hc. apply Hcases in Ha as [(Na & Ha)|(-> & ->)]; [eapply (wi_bump w I); eauto|eapply (wi_bump w I i o); eauto].
    + intros j oj s Hj Hs.
      assert (Hs' : exists j' oj', nth_error (objs w) j' = Some oj' /\ In s (osl oj')).
      { apply Hcases in Hj as [(Nj & Hj)|(-> & ->)]; [eauto|]. exists i, o. split; auto. }
      destruct Hs' as (j' & oj' & Hj' & Hin'). destruct (wi_slices w I j' oj' s Hj' Hin') as (A & B & C).
      split; auto. split; auto. intros a oa c b Ha Hc Hpc.
      apply Hcases in Ha as [(Na & Ha)|(-> & ->)]; [eapply C; eauto|eapply (C i o); eauto].
  - intros i0 c off len Hin. destruct (H i0 c off len Hin) as (Hl & (oi & s & Hoi & Hs & Hr) & Hd). split; [exact Hl|]. cbn [objs]. split.
    + destruct (Nat.eq_dec i0 i) as [-> | Hne].
      * destruct (Hkeep c off len Hin) as (s' & Hs' & Hr'). exists o', s'. split; [apply nth_error_update_nth_same with (x := o); exact Ho|]. auto.
      * exists oi, s. rewrite nth_error_update_nth_other by auto. auto.
    + intros j oj s' Hne Hj Hs'. apply Hcases in Hj as [(Nj & Hj)|(-> & ->)]; [eapply Hd; eauto|].
      eapply (Hd i o); eauto.
  - intros j oj Hne Hj. cbn [objs heap]. rewrite nth_error_update_nth_other by auto. split; [exact Hj|reflexivity].
Qed.

(* ---- HI under a change of one object's slice list ---- *)
Lemma HI_update w hs k ok o' h' :
  HI w hs -> nth_error (objs w) k = Some ok ->
  (forall c off len, In (k, c, off, len) hs -> exists s, In s (osl o') /\ pc s = c /\ poff s <= off /\ off + len <= poff s + plen s) ->
  (forall i0 c off len s, i0 <> k -> In (i0, c, off, len) hs -> In s (osl o') -> disjoint_from s c off len) ->
  HI (set_obj w k o' h') hs.
Proof.
  intros H Hk H1 H2 i0 c off len Hin. destruct (H i0 c off len Hin) as (Hl & (oi & s & Hoi & Hs & Hr) & Hd).
  split; [exact Hl|]. unfold set_obj. cbn [objs]. split.
  - destruct (Nat.eq_dec i0 k) as [-> | Hne].
    + destruct (H1 c off len Hin) as (s' & Hs' & Hr'). exists o', s'. split; [apply nth_error_update_nth_same with (x := ok); exact Hk|auto].
    + exists oi, s. rewrite nth_error_update_nth_other by auto. auto.
  - intros j oj s' Hne Hj Hs'. apply nth_error_update_cases in Hj as [(Nj & Hj) | (-> & -> & _)]; [eapply Hd; eauto|].
    eapply H2; eauto.
Qed.

Lemma in_app_last {A} (l : list A) x y : In y (l ++ [x]) -> In y l \/ y = x.
Proof. intros H. apply in_app_or in H as [H|[H|[]]]; auto. Qed.

(* a copy pushed by object k keeps every pending placeholder of every object intact *)
Theorem push_copy_HI w hs k o bs :
  WI w -> HI w hs -> nth_error (objs w) k = Some o -> HI (push_copy w k bs) hs.
Proof.
  intros I H Ho. unfold push_copy. rewrite Ho.
  (* facts about holes of other objects relative to chunk indices and k's bump pointer *)
  assert (Hchunk : forall i0 c off len, In (i0, c, off, len) hs -> c < length (heap w)).
  { intros i0 c off len Hin. destruct (H i0 c off len Hin) as (_ & (oi & s & Hoi & Hs & Hpc & _) & _).
    destruct (wi_slices w I i0 oi s Hoi Hs) as (A & _). now rewrite <- Hpc. }
  assert (Hbelow : forall i0 c off len bump, In (i0, c, off, len) hs -> ocache o = Some (c, bump) -> off + len <= bump).
  { intros i0 c off len bump Hin Hc. destruct (H i0 c off len Hin) as (_ & (oi & s & Hoi & Hs & Hpc & Hlo & Hhi) & _).
    destruct (wi_slices w I i0 oi s Hoi Hs) as (_ & _ & C). specialize (C k o c bump Ho Hc Hpc). lia. }
  (* appending a slice that lies in a fresh chunk, or at/after the bump pointer of k's cache chunk *)
  assert (Happend : forall nc noff h' cache', (nc = length (heap w) \/ ocache o = Some (nc, noff)) ->
            HI (set_obj w k {| osl := osl o ++ [{| pc := nc; poff := noff; plen := length bs |}]; ocache := cache' |} h') hs).
  { intros nc noff h' cache' Hnc. apply (HI_update w hs k o _ h' H Ho); cbn [osl].
    - intros c off len Hin. destruct (H k c off len Hin) as (_ & (oi & s & Hoi & Hs & Hr) & _). rewrite Ho in Hoi. inversion Hoi; subst oi.
      exists s. split; [apply in_or_app; now left|exact Hr].
    - intros i0 c off len s Hne Hin Hs. apply in_app_last in Hs as [Hs | ->].
      + destruct (H i0 c off len Hin) as (_ & _ & Hd). exact (Hd k o s ltac:(auto) Ho Hs).
      + unfold disjoint_from. cbn [pc poff plen]. destruct Hnc as [-> | Hc].
        * left. specialize (Hchunk i0 c off len Hin). lia.
        * destruct (Nat.eq_dec nc c) as [-> | E]; [|left; exact E]. right. right. exact (Hbelow i0 c off len noff Hin Hc). }
  destruct (ocache o) as [[c bump]|] eqn:Ec; [|apply Happend; left; reflexivity].
  destruct (bump + length bs <=? length (chunk_data (heap w) c)) eqn:Efit; [|apply Happend; left; reflexivity].
  destruct (rev (osl o)) as [|l r] eqn:Er.
  - assert (osl o = []) by (destruct (osl o) as [|x t]; auto; cbn in Er; destruct (rev t); discriminate).
    specialize (Happend c bump (write (heap w) c bump bs) (Some (c, bump + length bs)) (or_intror eq_refl)). rewrite H0 in Happend. exact Happend.
  - destruct (Nat.eqb (pc l) c && Nat.eqb (poff l + plen l) bump)%bool eqn:Em; [|apply Happend; right; reflexivity].
    apply andb_true_iff in Em as (Em1 & Em2). apply Nat.eqb_eq in Em1, Em2.
    assert (Eo : osl o = rev r ++ [l]) by (apply (f_equal (@rev _)) in Er; rewrite rev_involutive in Er; exact Er).
    apply (HI_update w hs k o _ _ H Ho); cbn [osl].
    + intros c0 off len Hin. destruct (H k c0 off len Hin) as (_ & (oi & s & Hoi & Hs & Hr) & _). rewrite Ho in Hoi. inversion Hoi; subst oi.
      rewrite Eo in Hs. apply in_app_last in Hs as [Hs | ->].
      * exists s. split; [apply in_or_app; now left|exact Hr].
      * exists {| pc := c; poff := poff l; plen := plen l + length bs |}. split; [apply in_or_app; right; now left|]. cbn [pc poff plen]. lia.
    + intros i0 c0 off len s Hne Hin Hs. apply in_app_last in Hs as [Hs | ->].
      * destruct (H i0 c0 off len Hin) as (_ & _ & Hd). apply (Hd k o s ltac:(auto) Ho). rewrite Eo. apply in_or_app. now left.
      * destruct (H i0 c0 off len Hin) as (Hlen & _ & Hd).
        assert (Dl : disjoint_from l c0 off len) by (apply (Hd k o l ltac:(auto) Ho); rewrite Eo; apply in_or_app; right; now left).
        unfold disjoint_from in *. cbn [pc poff plen]. destruct (Nat.eq_dec c c0) as [-> | E]; [|left; exact E].
        pose proof (Hbelow i0 c0 off len bump Hin eq_refl) as Hb. right. right.
        destruct Dl as [Dl|[Dl|Dl]]; [congruence|lia|lia].
Qed.

(* a clone of an object that owns no pending placeholder keeps HI *)
Theorem clone_HI w hs i o :
  HI w hs -> nth_error (objs w) i = Some o -> (forall c off len, ~ In (i, c, off, len) hs) ->
  (forall i0 c off len, In (i0, c, off, len) hs -> i0 < length (objs w)) ->
  HI (clone w i) hs.
Proof.
  intros H Ho Hnone Hlt i0 c off len Hin. unfold clone. rewrite Ho. cbn [objs].
  destruct (H i0 c off len Hin) as (Hl & (oi & s & Hoi & Hs & Hr) & Hd). split; [exact Hl|]. split.
  - exists oi, s. split; [rewrite nth_error_app1; [exact Hoi|apply nth_error_Some; congruence]|auto].
  - intros j oj s' Hne Hj Hs'. destruct (Nat.lt_ge_cases j (length (objs w))) as [Hj'|Hj'].
    + rewrite nth_error_app1 in Hj by exact Hj'. eapply Hd; eauto.
    + rewrite nth_error_app2 in Hj by lia. destruct (j - length (objs w)) as [|[|]] eqn:E; cbn in Hj; try discriminate.
      inversion Hj; subst oj. cbn [osl] in Hs'.
      (* the clone's slices are i's slices; i owns no hole, so i <> i0 *)
      assert (i <> i0) by (intros ->; exact (Hnone c off len Hin)). eapply (Hd i o); eauto.
Qed.

(* ---- register_patch: a copy whose bytes become a pending placeholder of the pusher ---- *)
Definition fresh_range (w : world) (k : nat) (bs : list byte) : nat * nat :=
  match nth_error (objs w) k with
  | Some o => match ocache o with
              | Some (c, bump) => if bump + length bs <=? length (chunk_data (heap w) c) then (c, bump) else (length (heap w), 0)
              | None => (length (heap w), 0)
              end
  | None => (0, 0)
  end.

Theorem register_HI w hs k o bs :
  WI w -> HI w hs -> nth_error (objs w) k = Some o -> bs <> [] ->
  let '(c, off) := fresh_range w k bs in
  HI (push_copy w k bs) (hs ++ [(k, c, off, length bs)]).
Proof.
  intros I H Ho Hne. pose proof (push_copy_HI w hs k o bs I H Ho) as Hold.
  destruct (fresh_range w k bs) as [c off] eqn:EF.
  intros i0 c0 off0 len0 Hin. apply in_app_or in Hin as [Hin|[Hin|[]]]; [exact (Hold i0 c0 off0 len0 Hin)|].
  inversion Hin; subst i0 c0 off0 len0; clear Hin.
  split; [destruct bs; [congruence|cbn; lia]|].
  unfold fresh_range in EF. rewrite Ho in EF. unfold push_copy in *. rewrite Ho in *.
  (* other objects are untouched by set_obj; their slices stay clear of the fresh range *)
  assert (Hothers : forall h' o', (c = length (heap w) \/ (exists bump, ocache o = Some (c, bump) /\ off = bump)) ->
            forall j oj s, j <> k -> nth_error (objs (set_obj w k o' h')) j = Some oj -> In s (osl oj) -> disjoint_from s c off (length bs)).
  { intros h' o' Hc j oj s Hj Hoj Hs. unfold set_obj in Hoj. cbn [objs] in Hoj. rewrite nth_error_update_nth_other in Hoj by auto.
    destruct (wi_slices w I j oj s Hoj Hs) as (A & _ & C). unfold disjoint_from.
    destruct Hc as [-> | (bump & Hcb & ->)]; [left; lia|].
    destruct (Nat.eq_dec (pc s) c) as [E|E]; [|left; exact E]. right. left. exact (C k o c bump Ho Hcb E). }
  assert (Hnew : forall h' cache', c = length (heap w) \/ (exists bump, ocache o = Some (c, bump) /\ off = bump) ->
            let o' := {| osl := osl o ++ [{| pc := c; poff := off; plen := length bs |}]; ocache := cache' |} in
            (exists oi s, nth_error (objs (set_obj w k o' h')) k = Some oi /\ In s (osl oi) /\ pc s = c /\ poff s <= off /\ off + length bs <= poff s + plen s) /\
            (forall j oj s, j <> k -> nth_error (objs (set_obj w k o' h')) j = Some oj -> In s (osl oj) -> disjoint_from s c off (length bs))).
  { intros h' cache' Hc o'. split; [|apply Hothers; exact Hc].
    exists o', {| pc := c; poff := off; plen := length bs |}. unfold set_obj. cbn [objs].
    split; [apply nth_error_update_nth_same with (x := o); exact Ho|]. split; [cbn [osl o']; apply in_or_app; right; now left|]. cbn [pc poff plen]. lia. }
  destruct (ocache o) as [[cc bump]|] eqn:Ec.
  - destruct (bump + length bs <=? length (chunk_data (heap w) cc)) eqn:Efit.
    + inversion EF; subst c off. destruct (rev (osl o)) as [|l r] eqn:Er.
      * assert (osl o = []) by (destruct (osl o) as [|x t]; auto; cbn in Er; destruct (rev t); discriminate).
        pose proof (Hnew (write (heap w) cc bump bs) (Some (cc, bump + length bs)) (or_intror (ex_intro _ bump (conj eq_refl eq_refl)))) as N.
        cbn zeta in N. rewrite H0 in N. exact N.
      * destruct (Nat.eqb (pc l) cc && Nat.eqb (poff l + plen l) bump)%bool eqn:Em.
        -- apply andb_true_iff in Em as (Em1 & Em2). apply Nat.eqb_eq in Em1, Em2. split.
           ++ eexists _, {| pc := cc; poff := poff l; plen := plen l + length bs |}. unfold set_obj. cbn [objs].
              split; [apply nth_error_update_nth_same with (x := o); exact Ho|]. split; [cbn [osl]; apply in_or_app; right; now left|]. cbn [pc poff plen]. lia.
           ++ apply Hothers. right. eauto.
        -- apply Hnew. right. eauto.
    + inversion EF; subst c off. apply Hnew. left. reflexivity.
  - inversion EF; subst c off. apply Hnew. left. reflexivity.
Qed.
