(* Invariants of the geometry-faithful model (iovec/Geo.v): the arena never hands out memory that a live
   slice still reads, writes at the bump offset leave every existing slice's bytes unchanged, merged
   slices read as the concatenation of their parts. *)
From Coq Require Import List NArith Bool Arith Lia.
From WP Require Import iovec.Arena iovec.Geo iovec.GeoMem.
Import ListNotations.
Open Scope N_scope.

(* the allocation cache points at an existing chunk whose written bytes end exactly at the bump offset *)
Definition cache_ok (h : heap) (k : option gcache) : Prop :=
  match k with
  | Some k => (kchunk k < length h)%nat /\ nlen (cdata (chunk_at h (kchunk k))) = kbump k /\ kbump k <= kcap h k
  | None => True
  end.

(* every written byte lies inside its chunk's capacity *)
Definition heap_ok (h : heap) : Prop := forall c, (c < length h)%nat -> nlen (cdata (chunk_at h c)) <= ccap (chunk_at h c).

Definition sl_chunk (s : gsl) : option nat := match s with SArena c _ _ => Some c | SExt _ => None end.
Definition sl_end (s : gsl) : N := match s with SArena _ off len => off + len | SExt _ => 0 end.

(* ---- ensure_capacity / alloc_cache ---- *)
Lemma ensure_capacity_spec h k len h' k' :
  cache_ok h k -> heap_ok h -> ensure_capacity h k len = Some (h', k') ->
  cache_ok h' (Some k') /\ heap_ok h' /\ len <= kcap h' k' - kbump k' /\
  ((h' = h /\ k = Some k') \/
   (exists cap, h' = h ++ [{| ccap := cap; cdata := [] |}] /\ k' = {| kchunk := length h; kbump := 0 |} /\ len <= cap)).
Proof.
  intros Hk Hh E. unfold ensure_capacity in E.
  assert (New : forall hint, Some (h ++ [{| ccap := N.max hint len; cdata := [] |}], {| kchunk := length h; kbump := 0 |}) = Some (h', k') ->
     cache_ok h' (Some k') /\ heap_ok h' /\ len <= kcap h' k' - kbump k' /\
     ((h' = h /\ k = Some k') \/
      (exists cap, h' = h ++ [{| ccap := cap; cdata := [] |}] /\ k' = {| kchunk := length h; kbump := 0 |} /\ len <= cap))).
  { intros hint E'. inversion E'; subst h' k'. clear E'.
    assert (C : chunk_at (h ++ [{| ccap := N.max hint len; cdata := [] |}]) (length h) = {| ccap := N.max hint len; cdata := [] |}) by apply chunk_at_new.
    split; [|split; [|split]].
    - cbn [cache_ok kchunk kbump]. unfold kcap. cbn [kchunk]. rewrite C. cbn [cdata ccap]. rewrite app_length. cbn [length]. repeat split; try lia. 
    - intros c Hc. rewrite app_length in Hc. cbn [length] in Hc.
      destruct (Nat.eq_dec c (length h)) as [->|Ne]; [rewrite C; cbn [cdata ccap]; rewrite nlen_nil; lia|].
      rewrite chunk_at_app_l by lia. apply Hh. lia.
    - unfold kcap. cbn [kchunk kbump]. rewrite C. cbn [ccap]. lia.
    - right. exists (N.max hint len). repeat split; auto. lia. }
  destruct k as [k0|].
  - destruct (len <=? kcap h k0 - kbump k0) eqn:Efit.
    + inversion E; subst h' k'. apply N.leb_le in Efit. split; [exact Hk|split; [exact Hh|split; [exact Efit|left; auto]]].
    + destruct (find_hint_size len (kcap h k0)) as [hint|]; [|discriminate]. eapply New; exact E.
  - destruct (find_hint_size len 0) as [hint|]; [|discriminate]. eapply New; exact E.
Qed.

Lemma alloc_cache_spec h k len h' k' :
  cache_ok h k -> heap_ok h -> alloc_cache h k len = Some (h', k') ->
  cache_ok h' (Some k') /\ heap_ok h' /\ len <= kcap h' k' - kbump k' /\
  ((h' = h /\ k = Some k') \/
   (exists cap, h' = h ++ [{| ccap := cap; cdata := [] |}] /\ k' = {| kchunk := length h; kbump := 0 |} /\ len <= cap)).
Proof.
  intros Hk Hh E. unfold alloc_cache in E. destruct k as [k0|]; [|eapply ensure_capacity_spec; eauto].
  destruct (len <=? kcap h k0 - kbump k0) eqn:Efit; [|eapply ensure_capacity_spec; eauto].
  inversion E; subst h' k'. apply N.leb_le in Efit. split; [exact Hk|split; [exact Hh|split; [exact Efit|left; auto]]].
Qed.

(* ---- arena.copy ---- *)
Lemma arena_copy_spec h k src old h' k' s old' fresh :
  cache_ok h k -> heap_ok h -> arena_copy h k src old = Some (h', k', s, old', fresh) ->
  src <> [] /\ cache_ok h' (Some k') /\ heap_ok h' /\ (length h <= length h')%nat /\
  (forall s0, sl_ok h s0 -> sl_bytes h' s0 = sl_bytes h s0 /\ sl_ok h' s0) /\
  sl_ok h' s /\ sl_bytes h' s = src /\
  nlen src <= kbump k' /\ s = SArena (kchunk k') (kbump k' - nlen src) (nlen src) /\
  (forall s0, sl_ok h s0 -> sl_chunk s0 = Some (kchunk k') -> sl_end s0 <= kbump k' - nlen src) /\
  (old', fresh) = merge_ref_or_create old (kchunk k') /\
  (k = Some {| kchunk := kchunk k'; kbump := kbump k' - nlen src |} \/ (kchunk k' = length h /\ kbump k' = nlen src)).
Proof.
  intros Hk Hh E. unfold arena_copy in E.
  destruct src as [|b0 src0] eqn:Esrc; [discriminate|]. rewrite <- Esrc in *.
  assert (Hne : src <> []) by (rewrite Esrc; discriminate).
  assert (Hpos : 0 < nlen src) by (rewrite Esrc, nlen_cons; lia).
  clear Esrc b0 src0.
  destruct (alloc_cache h k (nlen src)) as [[h1 k1]|] eqn:EA; [|discriminate].
  destruct (merge_ref_or_create old (kchunk k1)) as [o' f'] eqn:EM.
  inversion E; subst h' k' s old' fresh. clear E.
  destruct (alloc_cache_spec _ _ _ _ _ Hk Hh EA) as (Hk1 & Hh1 & Hfit & Hcase).
  destruct Hk1 as (Hc1 & Hd1 & Hb1). cbn [kchunk kbump].
  assert (Hframe1 : forall s0, sl_ok h s0 -> sl_bytes h1 s0 = sl_bytes h s0 /\ sl_ok h1 s0).
  { destruct Hcase as [(-> & _)|(cap & -> & _ & _)]; [auto|]. intros s0 H0. now apply sl_bytes_new_chunk. }
  assert (Hlen1 : (length h <= length h1)%nat).
  { destruct Hcase as [(-> & _)|(cap & -> & _ & _)]; [lia|]. rewrite app_length. lia. }
  replace (kbump k1 + nlen src - nlen src) with (kbump k1) by lia.
  split; [exact Hne|]. split; [|split; [|split; [|split; [|split; [|split; [|split; [|split; [|split; [|split]]]]]]]]].
  - (* cache_ok *)
    cbn [cache_ok kchunk kbump]. rewrite length_heap_poke. split; [exact Hc1|].
    unfold kcap. cbn [kchunk]. rewrite ccap_heap_poke. rewrite <- Hd1.
    rewrite chunk_at_poke_same by exact Hc1. cbn [cdata]. rewrite poke_append, nlen_app.
    unfold kcap in Hfit, Hb1. lia.
  - (* heap_ok *)
    intros c Hc. rewrite length_heap_poke in Hc. rewrite ccap_heap_poke.
    destruct (Nat.eq_dec c (kchunk k1)) as [->|Ne].
    + rewrite chunk_at_poke_same by exact Hc1. cbn [cdata]. rewrite <- Hd1, poke_append, nlen_app.
      unfold kcap in Hfit, Hb1. lia.
    + rewrite chunk_at_poke_other by exact Ne. apply Hh1. exact Hc.
  - rewrite length_heap_poke. exact Hlen1.
  - (* frame *)
    intros s0 H0. destruct (Hframe1 s0 H0) as (B1 & O1). rewrite <- Hd1.
    destruct (sl_bytes_append h1 (kchunk k1) src s0 Hc1 O1) as (B2 & O2). split; [congruence|exact O2].
  - (* the new slice is in bounds *)
    cbn [sl_ok]. rewrite length_heap_poke. split; [exact Hc1|]. split; [exact Hpos|].
    rewrite chunk_at_poke_same by exact Hc1. cbn [cdata]. rewrite <- Hd1, poke_append, nlen_app. lia.
  - rewrite <- Hd1. apply sl_bytes_fresh. exact Hc1.
  - lia.
  - reflexivity.
  - (* every older slice of that chunk ends at or below the old bump offset *)
    intros s0 H0 Hch. destruct s0 as [c off len|bs]; [|discriminate]. cbn [sl_chunk] in Hch. inversion Hch; subst c.
    cbn [sl_end]. destruct Hcase as [(-> & _)|(cap & -> & -> & _)].
    + cbn [sl_ok] in H0. lia.
    + cbn [sl_ok kchunk] in H0. lia.
  - symmetry. exact EM.
  - destruct Hcase as [(-> & ->)|(cap & -> & -> & _)]; [left|right].
    + destruct k1; reflexivity.
    + cbn [kchunk kbump]. split; [reflexivity|lia].
Qed.

(* ---- pairwise relations over a list, by position ---- *)
Definition pairwise {A} (P : A -> A -> Prop) (l : list A) : Prop :=
  forall i j a b, (i < j)%nat -> nth_error l i = Some a -> nth_error l j = Some b -> P a b.
Lemma pairwise_nil {A} (P : A -> A -> Prop) : pairwise P [].
Proof. intros i j a b _ H. destruct i; discriminate. Qed.
Lemma pairwise_snoc {A} (P : A -> A -> Prop) l x : pairwise P l -> (forall a, In a l -> P a x) -> pairwise P (l ++ [x]).
Proof.
  intros H Hx i j a b Hij Hi Hj.
  destruct (Nat.lt_ge_cases j (length l)) as [Hjl|Hjl].
  - rewrite nth_error_app1 in Hi, Hj by lia. exact (H i j a b Hij Hi Hj).
  - assert (j = length l).
    { assert (j < length (l ++ [x]))%nat by (apply nth_error_Some; congruence). rewrite app_length in *. cbn in *. lia. }
    subst j. rewrite nth_error_app2, Nat.sub_diag in Hj by lia. cbn in Hj. inversion Hj; subst b.
    rewrite nth_error_app1 in Hi by lia. apply Hx. eapply nth_error_In; eauto.
Qed.
Lemma pairwise_prefix {A} (P : A -> A -> Prop) l r : pairwise P (l ++ r) -> pairwise P l.
Proof.
  intros H i j a b Hij Hi Hj. apply (H i j a b Hij).
  - rewrite nth_error_app1; auto. apply nth_error_Some. congruence.
  - rewrite nth_error_app1; auto. apply nth_error_Some. congruence.
Qed.
Lemma nth_error_skipn'' {A} k (l : list A) i : nth_error (skipn k l) i = nth_error l (k + i).
Proof. revert l. induction k as [|k IH]; intros l; [reflexivity|]. destruct l; [now destruct i|]. apply IH. Qed.
Lemma pairwise_skipn {A} (P : A -> A -> Prop) k l : pairwise P l -> pairwise P (skipn k l).
Proof.
  intros H i j a b Hij Hi Hj. rewrite nth_error_skipn'' in Hi, Hj. apply (H (k + i)%nat (k + j)%nat); auto. lia.
Qed.
Lemma pairwise_last_in {A} (P : A -> A -> Prop) l x a : pairwise P (l ++ [x]) -> In a l -> P a x.
Proof.
  intros H Hin. destruct (In_nth_error _ _ Hin) as (i & Hi).
  apply (H i (length l) a x).
  - apply nth_error_Some. congruence.
  - rewrite nth_error_app1; auto. apply nth_error_Some. congruence.
  - rewrite nth_error_app2, Nat.sub_diag by lia. reflexivity.
Qed.
Lemma pairwise_head_change {A} (P : A -> A -> Prop) a a' t :
  pairwise P (a :: t) -> (forall b, P a b -> P a' b) -> pairwise P (a' :: t).
Proof.
  intros H Himp i j x y Hij Hi Hj. destruct i as [|i].
  - cbn in Hi. inversion Hi; subst x. destruct j as [|j]; [lia|]. apply Himp. apply (H 0%nat (S j) a y); auto.
  - destruct j as [|j]; [lia|]. apply (H (S i) (S j) x y); auto.
Qed.

(* ---- the state invariant ---- *)
(* two slices of one chunk never overlap (the name is historical: slices pushed by push / push_copy appear in address
   order, but sub-slices of an anchored input pushed piecewise -- Encoder::encode_anchored, Decoder::decode_anchored --
   interleave with copies allocated after the input was read, so only disjointness is an invariant) *)
Definition sl_before (a b : gsl) : Prop :=
  match a, b with SArena c o l, SArena c' o' l' => c = c' -> o + l <= o' \/ o' + l' <= o | _, _ => True end.

Record GInv (h : heap) (g : giov) : Prop := {
  gi_heap : heap_ok h;
  gi_cache : cache_ok h (gcache_ g);
  gi_slices : Forall (sl_ok h) (gslices g);
  gi_sorted : pairwise sl_before (gslices g) }.

Lemma GInv_empty h : heap_ok h -> GInv h empty_iov.
Proof. intros H. constructor; cbn; auto. apply pairwise_nil. Qed.

(* ---- try_join / optimize ---- *)
Lemma try_join_spec k l r m : try_join k l r = Some m ->
  exists c lo ll rl, l = SArena c lo ll /\ r = SArena c (lo + ll) rl /\ m = SArena c lo (ll + rl).
Proof.
  unfold try_join, in_cache. destruct k as [k|]; [|discriminate].
  destruct l as [c lo ll|]; [|discriminate]. destruct (Nat.eqb c (kchunk k)) eqn:E1; [|discriminate].
  destruct r as [c' ro rl|]; [|discriminate]. destruct (Nat.eqb c' (kchunk k)) eqn:E2; [|discriminate].
  destruct (lo + ll =? ro) eqn:E3; [|discriminate]. intros H. inversion H; subst m.
  apply Nat.eqb_eq in E1, E2. apply N.eqb_eq in E3. subst. exists (kchunk k), lo, ll, rl. auto.
Qed.

Lemma rev_two {A} (l : list A) r x front : rev l = r :: x :: front -> l = rev front ++ [x; r].
Proof.
  intros H. rewrite <- (rev_involutive l), H. cbn [rev]. rewrite <- app_assoc. reflexivity.
Qed.

(* optimize either leaves the state alone or replaces the last two slices by their concatenation *)
Lemma optimize_spec g g' : optimize g = Some g' ->
  gcache_ g' = gcache_ g /\ glogical g' = glogical g /\ gcsize g' = gcsize g /\ gcslices g' = gcslices g /\
  gbackrefs g' = gbackrefs g /\
  (gslices g' = gslices g \/
   exists front c lo ll rl, gslices g = front ++ [SArena c lo ll; SArena c (lo + ll) rl] /\
                            gslices g' = front ++ [SArena c lo (ll + rl)]).
Proof.
  unfold optimize. intros H.
  destruct (rev (gslices g)) as [|r [|l front]] eqn:ER; try (inversion H; subst g'; repeat split; auto; fail).
  destruct (back (ganchors g)) as [a|]; [|discriminate].
  destruct (acount a =? 0); [discriminate|].
  destruct (acount a <? 2); [inversion H; subst g'; repeat split; auto|].
  destruct (try_join (gcache_ g) l r) as [m|] eqn:EJ; [|inversion H; subst g'; repeat split; auto].
  inversion H; subst g'. cbn [gcache_ glogical gcsize gcslices gbackrefs gslices]. repeat split; auto.
  right. destruct (try_join_spec _ _ _ _ EJ) as (c & lo & ll & rl & -> & -> & ->).
  exists (rev front), c, lo, ll, rl. split; [apply rev_two; exact ER|reflexivity].
Qed.

(* ---- arena.read_n: the allocation, the delivered bytes, the remainder given back ---- *)
Lemma update_nth_id {A} (f : A -> A) c l d : f (nth c l d) = nth c l d -> update_nth c f l = l.
Proof.
  revert c. induction l as [|x l IH]; intros c H; [destruct c; reflexivity|].
  destruct c; cbn [update_nth nth] in *; [now rewrite H|now rewrite IH].
Qed.
Lemma heap_truncate_id h c top : nlen (cdata (chunk_at h c)) <= top -> heap_truncate h c top = h.
Proof.
  intros H. unfold heap_truncate. apply (update_nth_id _ c h no_chunk). fold (chunk_at h c).
  rewrite nfirstn_all by exact H. now destruct (chunk_at h c).
Qed.

Lemma arena_read_n_as_copy h k got : cache_ok h k -> heap_ok h -> got <> [] ->
  arena_read_n h k got (nlen got) =
  match arena_copy h k got None with
  | Some (hp, kp, sp, _, _) => Some (hp, Some kp, sp, {| acount := 1; achunk := Some (kchunk kp) |})
  | None => None
  end.
Proof.
  intros Hk Hh Hne. unfold arena_read_n, arena_copy.
  assert (Hpos : 0 < nlen got) by (destruct got; [congruence|rewrite nlen_cons; lia]).
  destruct (nlen got =? 0) eqn:E0; [apply N.eqb_eq in E0; lia|].
  rewrite N.ltb_irrefl. destruct got as [|b0 got0] eqn:Eg; [congruence|]. rewrite <- Eg in *.
  destruct (alloc_cache h k (nlen got)) as [[h1 k1]|] eqn:EA; [|reflexivity].
  destruct (alloc_cache_spec _ _ _ _ _ Hk Hh EA) as ((Hc1 & Hd1 & _) & _ & _ & _).
  cbn [merge_ref_or_create kchunk]. f_equal. f_equal. f_equal. f_equal.
  apply heap_truncate_id. rewrite chunk_at_poke_same by exact Hc1. cbn [cdata].
  rewrite <- Hd1, poke_append, nlen_app. lia.
Qed.

(* ---- arena.read_n in general: count bytes are allocated, `got` (at most count) are kept, the rest is given back ---- *)
Lemma arena_read_n_spec h k got count h' k' s a :
  cache_ok h k -> heap_ok h -> 0 < count -> nlen got <= count ->
  arena_read_n h k got count = Some (h', k', s, a) ->
  exists k1, k' = Some k1 /\ cache_ok h' (Some k1) /\ heap_ok h' /\ (length h <= length h')%nat /\
    (forall s0, sl_ok h s0 -> sl_bytes h' s0 = sl_bytes h s0 /\ sl_ok h' s0) /\
    sl_bytes h' s = got /\ s = SArena (kchunk k1) (kbump k1 - nlen got) (nlen got) /\ nlen got <= kbump k1 /\
    (got <> [] -> sl_ok h' s) /\
    (forall s0, sl_ok h s0 -> sl_chunk s0 = Some (kchunk k1) -> sl_end s0 <= kbump k1 - nlen got) /\
    a = {| acount := 1; achunk := Some (kchunk k1) |} /\
    (* remaining() accounting: only the delivered bytes are charged *)
    ((k = Some {| kchunk := kchunk k1; kbump := kbump k1 - nlen got |} /\ h' = heap_poke h (kchunk k1) (kbump k1 - nlen got) got) \/
     (kchunk k1 = length h /\ kbump k1 = nlen got /\ count <= kcap h' k1)).
Proof.
  intros Hk Hh Hpos Hle E. unfold arena_read_n in E.
  destruct (count =? 0) eqn:E0; [apply N.eqb_eq in E0; lia|].
  destruct (count <? nlen got) eqn:E1; [apply N.ltb_lt in E1; lia|].
  destruct (alloc_cache h k count) as [[h1 k1]|] eqn:EA; [|discriminate].
  inversion E; subst h' k' s a. clear E.
  destruct (alloc_cache_spec _ _ _ _ _ Hk Hh EA) as (Hk1 & Hh1 & Hfit & Hcase).
  destruct Hk1 as (Hc1 & Hd1 & Hb1).
  assert (Htr : heap_truncate (heap_poke h1 (kchunk k1) (kbump k1) got) (kchunk k1) (kbump k1 + nlen got) = heap_poke h1 (kchunk k1) (kbump k1) got).
  { apply heap_truncate_id. rewrite chunk_at_poke_same by exact Hc1. cbn [cdata]. rewrite <- Hd1, poke_append, nlen_app. lia. }
  rewrite Htr.
  assert (Hframe1 : forall s0, sl_ok h s0 -> sl_bytes h1 s0 = sl_bytes h s0 /\ sl_ok h1 s0).
  { destruct Hcase as [(-> & _)|(cap & -> & _ & _)]; [auto|]. intros s0 H0. now apply sl_bytes_new_chunk. }
  assert (Hlen1 : (length h <= length h1)%nat).
  { destruct Hcase as [(-> & _)|(cap & -> & _ & _)]; [lia|]. rewrite app_length. lia. }
  exists {| kchunk := kchunk k1; kbump := kbump k1 + nlen got |}. cbn [kchunk kbump].
  replace (kbump k1 + nlen got - nlen got) with (kbump k1) by lia.
  split; [reflexivity|]. split; [|split; [|split; [|split; [|split; [|split; [|split; [|split; [|split; [|split]]]]]]]]].
  - cbn [cache_ok kchunk kbump]. rewrite length_heap_poke. split; [exact Hc1|].
    unfold kcap. cbn [kchunk]. rewrite ccap_heap_poke. rewrite <- Hd1.
    rewrite chunk_at_poke_same by exact Hc1. cbn [cdata]. rewrite poke_append, nlen_app.
    unfold kcap in Hfit, Hb1. lia.
  - intros c Hc. rewrite length_heap_poke in Hc. rewrite ccap_heap_poke.
    destruct (Nat.eq_dec c (kchunk k1)) as [->|Ne].
    + rewrite chunk_at_poke_same by exact Hc1. cbn [cdata]. rewrite <- Hd1, poke_append, nlen_app.
      unfold kcap in Hfit, Hb1. lia.
    + rewrite chunk_at_poke_other by exact Ne. apply Hh1. exact Hc.
  - rewrite length_heap_poke. exact Hlen1.
  - intros s0 H0. destruct (Hframe1 s0 H0) as (B1 & O1). rewrite <- Hd1.
    destruct (sl_bytes_append h1 (kchunk k1) got s0 Hc1 O1) as (B2 & O2). split; [congruence|exact O2].
  - rewrite <- Hd1. apply sl_bytes_fresh. exact Hc1.
  - reflexivity.
  - lia.
  - intros Hne. cbn [sl_ok]. rewrite length_heap_poke. split; [exact Hc1|]. split.
    + destruct got; [congruence|rewrite nlen_cons; lia].
    + rewrite chunk_at_poke_same by exact Hc1. cbn [cdata]. rewrite <- Hd1, poke_append, nlen_app. lia.
  - intros s0 H0 Hch. destruct s0 as [c off len|bs]; [|discriminate]. cbn [sl_chunk] in Hch. inversion Hch; subst c.
    cbn [sl_end]. destruct Hcase as [(-> & _)|(cap & -> & -> & _)].
    + cbn [sl_ok] in H0. lia.
    + cbn [sl_ok kchunk] in H0. lia.
  - reflexivity.
  - destruct Hcase as [(-> & ->)|(cap & -> & -> & Hcap)]; [left|right].
    + split; [destruct k1; reflexivity|reflexivity].
    + cbn [kchunk kbump]. split; [reflexivity|]. split; [lia|].
      unfold kcap. cbn [kchunk]. rewrite ccap_heap_poke, chunk_at_new. cbn [ccap]. exact Hcap.
Qed.
