From Coq Require Import List NArith Lia Bool Arith Sorting.Sorted.
From WP Require Import iovec.Pipe iovec.PipeProofs iovec.PipeProofs2.
Import ListNotations.

(* ---- the marks of one table entry ---- *)
Lemma entry_unique s b b' : Inv s -> In b (table s) -> In b' (table s) -> br_id b = br_id b' -> b = b'.
Proof.
  intros I Hb Hb' Hid. pose proof (inv_ids_nodup s I) as ND. clear - ND Hb Hb' Hid.
  induction (table s) as [|x t IH]; [destruct Hb|]. cbn in ND. inversion ND as [|? ? Hnin ND']; subst.
  destruct Hb as [->|Hb], Hb' as [->|Hb']; auto.
  - exfalso. apply Hnin. apply in_map_iff. exists b'. split; [congruence|assumption].
  - exfalso. apply Hnin. apply in_map_iff. exists b. split; [congruence|assumption].
Qed.
Lemma marks_of_entry s b i j : Inv s -> In b (table s) -> (mark_at s i j = Some (br_id b) <-> covers s b i j).
Proof.
  intros I Hb. rewrite (inv_marks s I). split.
  - intros (b' & Hb' & Hid & Hc). now rewrite (entry_unique s b b' I Hb Hb' (eq_sym Hid)).
  - intros Hc. exists b. auto.
Qed.

Lemma nth_error_update_nth {A} (f : A -> A) l k i : nth_error (update_nth k f l) i = if Nat.eqb i k then option_map f (nth_error l i) else nth_error l i.
Proof.
  revert k i. induction l as [|x t IH]; intros k i.
  - destruct k; cbn [update_nth]; destruct (Nat.eqb i _); destruct i; reflexivity.
  - destruct k as [|k]; destruct i as [|i]; cbn [update_nth nth_error Nat.eqb option_map]; try reflexivity. apply IH.
Qed.
Lemma update_nth_length {A} (f : A -> A) l k : length (update_nth k f l) = length l.
Proof. revert k. induction l as [|x t IH]; intros [|k]; cbn; auto. Qed.

Lemma nth_error_firstn_lt' {A} k (l : list A) j : j < k -> nth_error (firstn k l) j = nth_error l j.
Proof.
  revert l j. induction k as [|k IH]; intros l j H; [lia|]. destruct l as [|a t]; [destruct j; reflexivity|].
  destruct j as [|j]; cbn; [reflexivity|]. apply IH. lia.
Qed.

Lemma write_at_length begin src sl : begin + length src <= length sl -> length (write_at begin src sl) = length sl.
Proof. intros H. unfold write_at, plain. rewrite !app_length, map_length, firstn_length, skipn_length. lia. Qed.
Lemma nth_error_write_at begin src sl j : begin + length src <= length sl ->
  nth_error (write_at begin src sl) j =
  if (begin <=? j) && (j <? begin + length src) then option_map (fun b => (b, None)) (nth_error src (j - begin)) else nth_error sl j.
Proof.
  intros H. unfold write_at.
  destruct (begin <=? j) eqn:E1; cbn [andb].
  - apply Nat.leb_le in E1. rewrite nth_error_app2 by (rewrite firstn_length; lia). rewrite firstn_length.
    replace (Nat.min begin (length sl)) with begin by lia.
    destruct (j <? begin + length src) eqn:E2.
    + apply Nat.ltb_lt in E2. rewrite nth_error_app1 by (unfold plain; rewrite map_length; lia). unfold plain. now rewrite nth_error_map.
    + apply Nat.ltb_ge in E2. rewrite nth_error_app2 by (unfold plain; rewrite map_length; lia). unfold plain. rewrite map_length.
      rewrite nth_error_skipn'. f_equal. lia.
  - apply Nat.leb_gt in E1. rewrite nth_error_app1 by (rewrite firstn_length; lia). apply nth_error_firstn_lt'. exact E1.
Qed.

(* ---- backfill keeps the invariant ---- *)
Lemma filter_StronglySorted {A} (R : A -> A -> Prop) f l : StronglySorted R l -> StronglySorted R (filter f l).
Proof.
  induction 1 as [|a l SS IH HF]; cbn [filter]; [constructor|]. destruct (f a); [|exact IH].
  constructor; [exact IH|]. rewrite Forall_forall in *. intros x Hx. apply filter_In in Hx as (Hx & _). auto.
Qed.
Lemma filter_NoDup_map {A B} (g : A -> B) f l : NoDup (map g l) -> NoDup (map g (filter f l)).
Proof.
  induction l as [|a l IH]; cbn [map filter]; intros ND; [constructor|]. inversion ND as [|? ? Hn ND']; subst.
  destruct (f a); cbn [map]; [constructor; auto|auto].
  intros Hin. apply Hn. apply in_map_iff in Hin as (x & E & Hx). apply filter_In in Hx as (Hx & _). apply in_map_iff. eauto.
Qed.

Theorem backfill_inv s id src s' : Inv s -> backfill id src s = Some s' -> Inv s'.
Proof.
  intros I. unfold backfill.
  destruct (find _ (table s)) as [b|] eqn:F; [|discriminate].
  apply find_some in F as (Hb & Hid). apply Nat.eqb_eq in Hid.
  destruct (Nat.eqb (br_len b) (length src)) eqn:El; [|discriminate]. apply Nat.eqb_eq in El. cbn [negb].
  destruct (consumed s <=? br_idx b) eqn:Ec; [|discriminate]. apply Nat.leb_le in Ec. cbn [negb].
  destruct (nth_error (slices s) (br_idx b - consumed s)) as [sl|] eqn:En; [|discriminate].
  destruct (br_begin b + length src <=? length sl) eqn:Er; [|discriminate]. apply Nat.leb_le in Er. cbn [negb].
  intros H; inversion H; subst s'; clear H. set (k := br_idx b - consumed s) in *.
  (* marks after the write *)
  assert (Hm : forall i j, mark_at {| slices := update_nth k (write_at (br_begin b) src) (slices s); consumed := consumed s;
                                      table := filter (fun b' => negb (Nat.eqb (br_id b') id)) (table s); logical := logical s; taken := taken s |} i j
                           = if (Nat.eqb i k) && (br_begin b <=? j) && (j <? br_begin b + length src) then None else mark_at s i j).
  { intros i j. unfold mark_at. cbn [slices]. rewrite nth_error_update_nth. destruct (Nat.eqb i k) eqn:Ei; cbn [andb]; [|reflexivity].
    apply Nat.eqb_eq in Ei. subst i. rewrite En. cbn [option_map]. rewrite nth_error_write_at by exact Er.
    destruct ((br_begin b <=? j) && (j <? br_begin b + length src)); [|reflexivity].
    destruct (nth_error src (j - br_begin b)); reflexivity. }
  assert (Hreg : forall i j, (Nat.eqb i k) && (br_begin b <=? j) && (j <? br_begin b + length src) = true <-> covers s b i j).
  { intros i j. unfold covers. rewrite !andb_true_iff, Nat.eqb_eq, Nat.leb_le, Nat.ltb_lt. unfold k. rewrite El. split; intros; lia. }
  constructor; cbn [slices consumed table logical taken].
  - intros i j id'. rewrite Hm. destruct ((Nat.eqb i k) && (br_begin b <=? j) && (j <? br_begin b + length src)) eqn:R.
    + apply Hreg in R. split; [discriminate|]. intros (b' & Hb' & Hid' & Hc'). exfalso.
      apply filter_In in Hb' as (Hb' & Hne). apply negb_true_iff, Nat.eqb_neq in Hne.
      assert (M1 : mark_at s i j = Some (br_id b)) by (apply marks_of_entry; auto).
      assert (M2 : mark_at s i j = Some (br_id b')) by (apply marks_of_entry; auto). congruence.
    + rewrite (inv_marks s I). split.
      * intros (b' & Hb' & Hid' & Hc'). exists b'. split; [|auto]. apply filter_In. split; [exact Hb'|].
        apply negb_true_iff, Nat.eqb_neq. intros E. assert (b' = b) by (apply (entry_unique s); auto; congruence). subst b'.
        apply Hreg in Hc'. congruence.
      * intros (b' & Hb' & Hid' & Hc'). apply filter_In in Hb' as (Hb' & _). eauto.
  - intros b' Hb'. apply filter_In in Hb' as (Hb' & _). destruct (inv_range s I b' Hb') as (Hc & sl' & Hn & Hr & Hl). split; [exact Hc|].
    rewrite nth_error_update_nth. destruct (Nat.eqb (br_idx b' - consumed s) k) eqn:Ek.
    + rewrite Hn. cbn [option_map]. eexists. split; [reflexivity|]. apply Nat.eqb_eq in Ek. rewrite Ek in Hn. rewrite En in Hn. inversion Hn; subst sl'.
      rewrite write_at_length by exact Er. auto.
    + eauto.
  - apply filter_StronglySorted. exact (inv_sorted s I).
  - intros b' Hb'. apply filter_In in Hb' as (Hb' & _). exact (inv_ids s I b' Hb').
  - apply filter_NoDup_map. exact (inv_ids_nodup s I).
  - intros x Hx. apply In_nth_error in Hx as (i & Hi). rewrite nth_error_update_nth in Hi. destruct (Nat.eqb i k) eqn:Ei.
    + apply Nat.eqb_eq in Ei. subst i. rewrite En in Hi. cbn in Hi. inversion Hi; subst x. intros E0.
      apply (f_equal (@length _)) in E0. rewrite write_at_length in E0 by exact Er. cbn in E0.
      assert (sl <> []) by (apply (inv_nonempty s I); eapply nth_error_In; eauto). destruct sl; [congruence|cbn in E0; lia].
    + apply (inv_nonempty s I). eapply nth_error_In; eauto.
  - pose proof (inv_size s I) as Hs. rewrite <- Hs. f_equal.
    apply nth_error_split in En as (S1 & S2 & ES & LS1). rewrite ES. rewrite <- LS1, update_nth_app.
    rewrite !concat_app, !app_length. cbn [concat]. rewrite !app_length, write_at_length by exact Er. reflexivity.
Qed.
