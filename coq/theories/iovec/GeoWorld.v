(* C20 on the geometry-faithful model: several OwningIovecs over one heap.  Clones copy slice pointers and
   anchors and get an empty allocation cache; every operation of one object leaves the bytes of every other
   object unchanged. *)
From Coq Require Import List NArith Bool Arith Lia Sorting.Sorted.
From WP Require Import iovec.Arena iovec.Geo iovec.GeoMem iovec.GeoProofs iovec.GeoRefine iovec.GeoHistory iovec.GeoAnchors.
From WP Require iovec.Pipe iovec.PipeProofs.
Import ListNotations.
Open Scope N_scope.

(* ---- pending placeholders have a target slice ---- *)
Definition tgt (g : giov) (b : gbackref) : option gsl := nth_error (gslices g) (N.to_nat (bidx b - gcslices g)).
Record BInv (g : giov) : Prop := {
  bi_target : forall b, In b (gbackrefs g) -> gcslices g <= bidx b /\
      exists t, tgt g b = Some t /\ bbegin b + blen b <= sl_len t /\ 0 < blen b;
  bi_first : forall b0 rest b, gbackrefs g = b0 :: rest -> In b rest -> bidx b0 <= bidx b;
  bi_keys : NoDup (map bend (gbackrefs g)) }.

Lemma conv_inj_bend a b : N.to_nat (bend a) = N.to_nat (bend b) -> bend a = bend b.
Proof. lia. Qed.

Lemma BInv_of_pipe h g s : GInv h g -> R h g s -> PipeProofs.Inv s -> BInv g.
Proof.
  intros I Rs PI. constructor.
  - intros b Hb.
    assert (Hin : In (conv b) (Pipe.table s)) by (rewrite (r_table _ _ _ Rs); now apply in_map).
    destruct (PipeProofs.inv_range s PI (conv b) Hin) as (Hc & sl & Hsl & Hlen & Hpos).
    cbn [conv Pipe.br_idx Pipe.br_begin Pipe.br_len] in *. rewrite (r_consumed _ _ _ Rs) in *.
    split; [lia|].
    assert (Hi : (N.to_nat (bidx b) - N.to_nat (gcslices g))%nat = N.to_nat (bidx b - gcslices g)) by lia.
    rewrite Hi in Hsl.
    assert (Hex : exists t, nth_error (gslices g) (N.to_nat (bidx b - gcslices g)) = Some t).
    { destruct (nth_error (gslices g) (N.to_nat (bidx b - gcslices g))) as [t|] eqn:E; [eauto|].
      apply nth_error_None in E. assert (nth_error (Pipe.slices s) (N.to_nat (bidx b - gcslices g)) <> None) by congruence.
      apply nth_error_Some in H. rewrite (R_lengths _ _ _ Rs) in H. lia. }
    destruct Hex as (t & Ht). exists t. split; [exact Ht|].
    destruct (nth_error_map_eq _ _ _ _ _ t (r_bytes _ _ _ Rs) Ht) as (x & Hx & Hfx).
    assert (Hxs : Some x = Some sl) by (rewrite <- Hx; exact Hsl). inversion Hxs; subst x.
    assert (Ok : sl_ok h t).
    { pose proof (gi_slices h g I) as F. rewrite Forall_forall in F. apply F. eapply nth_error_In; eauto. }
    pose proof (sl_len_bytes h t Ok) as HL. unfold nlen in HL.
    pose proof (f_equal (@length _) Hfx) as HF. rewrite map_length in HF.
    assert (length sl = N.to_nat (sl_len t)) by (transitivity (length (sl_bytes h t)); [exact HF|lia]). lia.
  - intros b0 rest b Eg Hb.
    pose proof (PipeProofs.inv_sorted s PI) as SS. rewrite (r_table _ _ _ Rs), Eg in SS. cbn [map] in SS.
    inversion SS as [|? ? _ HF]; subst. rewrite Forall_forall in HF.
    specialize (HF (conv b) (in_map conv _ _ Hb)). cbn [conv Pipe.br_idx] in HF. lia.
  - pose proof (PipeProofs.inv_ids_nodup s PI) as ND. rewrite (r_table _ _ _ Rs), map_map in ND. cbn [conv Pipe.br_id] in ND.
    remember (gbackrefs g) as l eqn:El. clear El. induction l as [|a l IH]; [constructor|].
    cbn [map] in *. inversion ND as [|? ? Hn Hr]; subst. constructor; [|now apply IH].
    intros Hin. apply Hn. apply in_map_iff in Hin as (x & Hx & Hxin). apply in_map_iff. exists x. split; [now rewrite Hx|exact Hxin].
Qed.

(* ---- absolute byte ranges ---- *)
Definition prange := (nat * N * N)%type.                 (* chunk, start offset, length *)
Definition babs (g : giov) (b : gbackref) : option prange :=
  match tgt g b with Some (SArena c off _) => Some (c, off + bbegin b, blen b) | _ => None end.
Definition rdisj (r : prange) (s : gsl) : Prop :=
  match r, s with
  | (c, lo, len), SArena c' o' l' => c = c' -> lo + len <= o' \/ o' + l' <= lo
  | _, SExt _ => True
  end.
Definition in_data (h : heap) (r : prange) : Prop :=
  let '(c, lo, len) := r in (c < length h)%nat /\ 0 < len /\ lo + len <= nlen (cdata (chunk_at h c)).
Definition fresh_range (h : heap) (r : prange) : Prop :=
  let '(c, lo, len) := r in (length h <= c)%nat \/ nlen (cdata (chunk_at h c)) <= lo.

(* the heap only grows: new chunks, and bytes appended to chunk c0 *)
Record heap_ext (h h' : heap) (c0 : option nat) : Prop := {
  he_len : (length h <= length h')%nat;
  he_same : forall c, (c < length h)%nat -> Some c <> c0 -> chunk_at h' c = chunk_at h c;
  he_grow : forall c, (c < length h)%nat -> ccap (chunk_at h' c) = ccap (chunk_at h c) /\
                      exists tail, cdata (chunk_at h' c) = cdata (chunk_at h c) ++ tail }.

Lemma heap_ext_refl h c0 : heap_ext h h c0.
Proof. constructor; auto. intros c _. split; [reflexivity|]. exists []. now rewrite app_nil_r. Qed.
Lemma heap_ext_trans h h1 h2 c0 c1 : heap_ext h h1 c0 -> heap_ext h1 h2 c1 ->
  (c1 = c0 \/ c1 = None \/ exists c, c1 = Some c /\ (length h <= c)%nat) -> heap_ext h h2 c0.
Proof.
  intros A B Hc. constructor.
  - pose proof (he_len _ _ _ A). pose proof (he_len _ _ _ B). lia.
  - intros c Hl Hne. rewrite (he_same _ _ _ B c); [apply (he_same _ _ _ A c Hl Hne)|pose proof (he_len _ _ _ A); lia|].
    destruct Hc as [->|[->|(c' & -> & Hc')]]; [exact Hne|discriminate|]. intros E. inversion E. lia.
  - intros c Hl. destruct (he_grow _ _ _ A c Hl) as (C1 & t1 & D1).
    destruct (he_grow _ _ _ B c ltac:(pose proof (he_len _ _ _ A); lia)) as (C2 & t2 & D2).
    split; [congruence|]. exists (t1 ++ t2). rewrite D2, D1, app_assoc. reflexivity.
Qed.

Lemma heap_ext_sl h h' c0 s : heap_ext h h' c0 -> sl_ok h s -> sl_bytes h' s = sl_bytes h s /\ sl_ok h' s.
Proof.
  intros E Hs. destruct s as [c off len|bs]; cbn [sl_bytes sl_ok] in *; [|auto].
  destruct Hs as (Hc & Hl & Hb). destruct (he_grow _ _ _ E c Hc) as (_ & tail & D). rewrite D. split.
  - now apply read_app_l.
  - pose proof (he_len _ _ _ E). repeat split; try lia. rewrite nlen_app. lia.
Qed.
Lemma heap_ext_in_data h h' c0 r : heap_ext h h' c0 -> in_data h r -> in_data h' r.
Proof.
  intros E. destruct r as [[c lo] len]. cbn [in_data]. intros (Hc & Hp & Hb).
  destruct (he_grow _ _ _ E c Hc) as (_ & tail & D). rewrite D, nlen_app. pose proof (he_len _ _ _ E). repeat split; lia.
Qed.
Lemma heap_ext_fresh h h' c0 r : heap_ext h h' c0 -> fresh_range h' r -> fresh_range h r.
Proof.
  intros E. destruct r as [[c lo] len]. cbn [fresh_range]. pose proof (he_len _ _ _ E) as HL.
  intros [Hc|Hd]; [left; lia|]. destruct (Nat.lt_ge_cases c (length h)) as [Hlt|Hge]; [|now left].
  right. destruct (he_grow _ _ _ E c Hlt) as (_ & tail & D). rewrite D, nlen_app in Hd. lia.
Qed.

(* a fresh range cannot meet a slice that was in bounds before *)
Lemma fresh_disjoint h r s : fresh_range h r -> sl_ok h s -> rdisj r s.
Proof.
  destruct r as [[c lo] len]. destruct s as [c' o' l'|bs]; cbn [fresh_range sl_ok rdisj]; [|auto].
  intros [Hc|Hd] (Hc' & _ & Hb) ->; [lia|]. right. lia.
Qed.

(* ---- the local effect of a step that does not backfill ---- *)
Definition cache_chunk (g : giov) : option nat := match gcache_ g with Some k => Some (kchunk k) | None => None end.
Record effect (h : heap) (g : giov) (h' : heap) (g' : giov) : Prop := {
  ef_heap : heap_ext h h' (cache_chunk g);
  ef_cache : cache_chunk g' = None \/ cache_chunk g' = cache_chunk g \/ exists c, cache_chunk g' = Some c /\ (length h <= c)%nat;
  ef_cover : forall r, in_data h r -> (forall s, In s (gslices g) -> rdisj r s) -> forall s', In s' (gslices g') -> rdisj r s';
  ef_pend : forall b r, In b (gbackrefs g') -> babs g' b = Some r -> (In b (gbackrefs g) /\ babs g b = Some r) \/ fresh_range h r }.

Lemma effect_refl h g : effect h g h g.
Proof. constructor; auto. apply heap_ext_refl. Qed.
Lemma effect_trans h g h1 g1 h2 g2 : effect h g h1 g1 -> effect h1 g1 h2 g2 -> effect h g h2 g2.
Proof.
  intros A B. constructor.
  - eapply heap_ext_trans; [apply (ef_heap _ _ _ _ A)|apply (ef_heap _ _ _ _ B)|].
    destruct (ef_cache _ _ _ _ A) as [E|[E|(c & E & Hc)]]; rewrite E; auto. right. right. eauto.
  - pose proof (he_len _ _ _ (ef_heap _ _ _ _ A)) as HL.
    destruct (ef_cache _ _ _ _ B) as [E|[E|(c & E & Hc)]]; [now left|rewrite E; apply (ef_cache _ _ _ _ A)|].
    right. right. exists c. split; [exact E|lia].
  - intros r Hr Hd s' Hs'. apply (ef_cover _ _ _ _ B r); [eapply heap_ext_in_data; [apply (ef_heap _ _ _ _ A)|exact Hr]| |exact Hs'].
    intros s1 Hs1. apply (ef_cover _ _ _ _ A r Hr Hd s1 Hs1).
  - intros b r Hb Hr. destruct (ef_pend _ _ _ _ B b r Hb Hr) as [(Hb1 & Hr1)|Hf].
    + apply (ef_pend _ _ _ _ A b r Hb1 Hr1).
    + right. eapply heap_ext_fresh; [apply (ef_heap _ _ _ _ A)|exact Hf].
Qed.

(* ---- primitives ---- *)
Definition sl_fresh (h : heap) (s : gsl) : Prop :=
  match s with SArena c off _ => (length h <= c)%nat \/ nlen (cdata (chunk_at h c)) <= off | SExt _ => True end.

Lemma rdisj_fresh h r s : in_data h r -> sl_fresh h s -> rdisj r s.
Proof.
  destruct r as [[c lo] len]. destruct s as [c' o' l'|bs]; cbn [in_data sl_fresh rdisj]; [|auto].
  intros (Hc & Hp & Hb) [Hf|Hf] ->; [lia|]. left. lia.
Qed.
Lemma rdisj_join c lo ll rl r : (let '(_, _, len) := r in 0 < len) ->
  rdisj r (SArena c lo ll) -> rdisj r (SArena c (lo + ll) rl) -> rdisj r (SArena c lo (ll + rl)).
Proof. destruct r as [[c' a] n]. cbn [rdisj]. intros Hp H1 H2 E. specialize (H1 E). specialize (H2 E). lia. Qed.

Lemma tgt_lt g b t : tgt g b = Some t -> (N.to_nat (bidx b - gcslices g) < length (gslices g))%nat.
Proof. unfold tgt. intros H. apply nth_error_Some. congruence. Qed.

(* a slice appended at the end, then optimize: pending targets keep their address *)
Lemma effect_append_opt h g h' g1 g' snew :
  BInv g -> heap_ext h h' (cache_chunk g) ->
  (cache_chunk g1 = None \/ cache_chunk g1 = cache_chunk g \/ exists c, cache_chunk g1 = Some c /\ (length h <= c)%nat) ->
  gslices g1 = gslices g ++ [snew] -> gbackrefs g1 = gbackrefs g -> gcslices g1 = gcslices g ->
  sl_fresh h snew -> optimize g1 = Some g' -> effect h g h' g'.
Proof.
  intros B E Hc Esl Ebr Ecs Hf EO.
  destruct (optimize_spec _ _ EO) as (Ec' & _ & _ & Ecs' & Ebr' & Hshape).
  assert (Hcc : cache_chunk g' = cache_chunk g1) by (unfold cache_chunk; now rewrite Ec').
  constructor.
  - exact E.
  - rewrite Hcc. exact Hc.
  - intros r Hr Hd s' Hs'.
    destruct Hshape as [Esame|(front & c & lo & ll & rl & Eg1 & Eg')].
    + rewrite Esame, Esl in Hs'. apply in_app_or in Hs' as [Hin|[<-|[]]]; [now apply Hd|now apply (rdisj_fresh h)].
    + rewrite Esl in Eg1.
      assert (Eg : gslices g = front ++ [SArena c lo ll] /\ snew = SArena c (lo + ll) rl).
      { change (front ++ [SArena c lo ll; SArena c (lo + ll) rl]) with (front ++ [SArena c lo ll] ++ [SArena c (lo + ll) rl]) in Eg1.
        rewrite app_assoc in Eg1. apply app_inj_tail in Eg1. tauto. }
      destruct Eg as (Eg & Enew). rewrite Eg' in Hs'. apply in_app_or in Hs' as [Hin|[<-|[]]].
      * apply Hd. rewrite Eg. apply in_or_app. now left.
      * apply rdisj_join.
        -- destruct r as [[? ?] ?]. cbn in Hr. tauto.
        -- apply Hd. rewrite Eg. apply in_or_app. right. now left.
        -- rewrite <- Enew. now apply (rdisj_fresh h).
  - intros b r Hb Hr. left. rewrite Ebr', Ebr in Hb. split; [exact Hb|].
    destruct (bi_target g B b Hb) as (_ & t & Ht & _). pose proof (tgt_lt _ _ _ Ht) as Hlt.
    unfold babs, tgt in *. rewrite Ecs', Ecs in Hr.
    destruct Hshape as [Esame|(front & c & lo & ll & rl & Eg1 & Eg')].
    + rewrite Esame, Esl, nth_error_app1 in Hr by exact Hlt. exact Hr.
    + rewrite Esl in Eg1.
      assert (Eg : gslices g = front ++ [SArena c lo ll]).
      { change (front ++ [SArena c lo ll; SArena c (lo + ll) rl]) with (front ++ [SArena c lo ll] ++ [SArena c (lo + ll) rl]) in Eg1.
        rewrite app_assoc in Eg1. apply app_inj_tail in Eg1. tauto. }
      rewrite Eg' in Hr. rewrite Eg in Hlt |- *. rewrite app_length in Hlt. cbn [length] in Hlt.
      destruct (Nat.lt_ge_cases (N.to_nat (bidx b - gcslices g)) (length front)) as [Hl|Hge].
      * rewrite nth_error_app1 in Hr |- * by exact Hl. exact Hr.
      * assert (Hk : N.to_nat (bidx b - gcslices g) = length front) by lia.
        rewrite Hk in Hr |- *. rewrite nth_error_app2, Nat.sub_diag in Hr |- * by lia. cbn [nth_error] in *. exact Hr.
Qed.

Lemma effect_same_slices h g h' g' :
  heap_ext h h' (cache_chunk g) ->
  (cache_chunk g' = None \/ cache_chunk g' = cache_chunk g \/ exists c, cache_chunk g' = Some c /\ (length h <= c)%nat) ->
  gslices g' = gslices g -> gbackrefs g' = gbackrefs g -> gcslices g' = gcslices g -> effect h g h' g'.
Proof.
  intros E Hc Esl Ebr Ecs. constructor; auto.
  - intros r _ Hd s' Hs'. rewrite Esl in Hs'. now apply Hd.
  - intros b r Hb Hr. left. rewrite Ebr in Hb. split; [exact Hb|]. unfold babs, tgt in *. now rewrite Esl, Ecs in Hr.
Qed.

Lemma effect_gd_consume h g c g' k :
  (forall b, In b (gbackrefs g) -> N.min c (nlen (gslices g)) <= bidx b - gcslices g) ->
  gd_consume c g = Some (g', k) -> effect h g h g'.
Proof.
  intros Hb E. unfold gd_consume in E.
  destruct (drain (N.min c (nlen (gslices g))) (ganchors g)) as [an|]; [|discriminate].
  match type of E with (if ?x then _ else _) = _ => destruct x; [discriminate|] end.
  inversion E; subst g' k. clear E. set (k := N.min c (nlen (gslices g))) in *.
  constructor; cbn [gslices gbackrefs gcslices gcache_ cache_chunk].
  - apply heap_ext_refl.
  - right. left. reflexivity.
  - intros r _ Hd s' Hs'. apply Hd. unfold nskipn in Hs'. eapply PipeProofs.In_skipn'; eauto.
  - intros b r Hin Hr. left. split; [exact Hin|]. specialize (Hb b Hin).
    unfold babs, tgt in *. cbn [gslices gcslices] in Hr. unfold nskipn in Hr. rewrite nth_error_skipn'' in Hr.
    replace (N.to_nat k + N.to_nat (bidx b - (gcslices g + k)))%nat with (N.to_nat (bidx b - gcslices g)) in Hr by lia. exact Hr.
Qed.

Lemma rdisj_advance r s n : n < sl_len s -> rdisj r s -> rdisj r (sl_advance s n).
Proof.
  destruct r as [[c a] m]. destruct s as [c' o l|bs]; cbn [rdisj sl_advance sl_len]; [|auto].
  intros Hn H E. specialize (H E). lia.
Qed.

(* how many leading slices consuming c bytes touches (entirely or partly) *)
Fixpoint touched (c : N) (l : list gsl) : nat :=
  match l with
  | [] => 0
  | s :: t => if c =? 0 then 0 else if c <? sl_len s then 1 else S (touched (c - sl_len s) t)
  end.

Lemma effect_cbb h : forall fuel c g g',
  (forall b, In b (gbackrefs g) -> N.of_nat (touched c (gslices g)) <= bidx b - gcslices g) ->
  consume_by_bytes fuel c g = Some g' -> effect h g h g'.
Proof.
  induction fuel as [|fuel IH]; intros c g g' Hb E; cbn [consume_by_bytes] in E.
  - destruct (c =? 0); [|discriminate]. inversion E. apply effect_refl.
  - destruct (c =? 0) eqn:E0; [inversion E; apply effect_refl|].
    destruct (gslices g) as [|s0 t] eqn:Esl; [discriminate|]. cbn [touched] in Hb. rewrite E0 in Hb.
    destruct (N.min c (sl_len s0) =? sl_len s0) eqn:Ew.
    + apply N.eqb_eq in Ew. assert (Hge : sl_len s0 <= c) by lia.
      replace (c <? sl_len s0) with false in Hb by (symmetry; apply N.ltb_ge; exact Hge).
      destruct (gd_consume 1 g) as [[g1 k1]|] eqn:EG; [|discriminate].
      assert (E1 : effect h g h g1).
      { eapply effect_gd_consume; [|exact EG]. intros b Hin. specialize (Hb b Hin). rewrite Esl, nlen_cons. lia. }
      eapply effect_trans; [exact E1|]. apply (IH (c - N.min c (sl_len s0)) g1 g'); [|exact E].
      (* the state after consuming one slice *)
      unfold gd_consume in EG. destruct (drain (N.min 1 (nlen (gslices g))) (ganchors g)) as [an|]; [|discriminate].
      match type of EG with (if ?x then _ else _) = _ => destruct x; [discriminate|] end.
      inversion EG; subst g1 k1. cbn [gbackrefs gslices gcslices]. intros b Hin. specialize (Hb b Hin).
      rewrite Esl, nlen_cons. replace (N.min 1 (1 + nlen t)) with 1 by lia. change (nskipn 1 (s0 :: t)) with t.
      rewrite Ew. lia.
    + apply N.eqb_neq in Ew. assert (Hlt : c < sl_len s0) by lia.
      replace (c <? sl_len s0) with true in Hb by (symmetry; apply N.ltb_lt; exact Hlt).
      replace (N.min c (sl_len s0)) with c in E by lia. inversion E; subst g'. clear E.
      constructor; cbn [gslices gbackrefs gcslices gcache_ cache_chunk].
      * apply heap_ext_refl.
      * right. left. reflexivity.
      * intros r _ Hd s' [<-|Hin]; [apply rdisj_advance; [exact Hlt|apply Hd; rewrite Esl; now left]|apply Hd; rewrite Esl; now right].
      * intros b r Hin Hr. left. split; [exact Hin|]. specialize (Hb b Hin).
        unfold babs, tgt in *. cbn [gslices gcslices] in Hr. rewrite Esl.
        destruct (N.to_nat (bidx b - gcslices g)) as [|k] eqn:Ek; [lia|]. cbn [nth_error] in *. exact Hr.
Qed.

Lemma touched_le : forall l c k, c <= fold_len (firstn k l) -> (touched c l <= k)%nat.
Proof.
  induction l as [|s t IH]; intros c k H; cbn [touched]; [lia|].
  destruct (c =? 0) eqn:E0; [lia|]. apply N.eqb_neq in E0.
  destruct k as [|k]; [cbn [firstn] in H; rewrite fold_len_nil in H; lia|]. cbn [firstn] in H. rewrite fold_len_cons in H.
  destruct (c <? sl_len s) eqn:El; [lia|]. apply N.ltb_ge in El. specialize (IH (c - sl_len s) k ltac:(lia)). lia.
Qed.

Lemma stable_count_pending g sc b : BInv g -> stable_count g = Some sc -> In b (gbackrefs g) -> sc <= bidx b - gcslices g.
Proof.
  intros B E Hb. unfold stable_count in E. destruct (gbackrefs g) as [|b0 rest] eqn:Eg; [destruct Hb|].
  destruct (bidx b0 <? gcslices g); [discriminate|]. inversion E.
  destruct Hb as [<-|Hin]; [lia|]. pose proof (bi_first g B b0 rest b Eg Hin).
  destruct (bi_target g B b0 ltac:(rewrite Eg; now left)) as (Hb0 & _). lia.
Qed.

Lemma effect_advance h n g g' k : BInv g -> advance_slices n g = Some (g', k) -> effect h g h g'.
Proof.
  intros B E. unfold advance_slices, stable_slices in E. destruct (stable_count g) as [sc|] eqn:ES; [|discriminate].
  match type of E with context [consume_by_bytes ?f ?c g] => destruct (consume_by_bytes f c g) as [gx|] eqn:EC; [|discriminate] end.
  inversion E; subst gx k. eapply effect_cbb; [|exact EC].
  intros b Hb. rewrite stable_bytes_upto_spec by lia. rewrite N.add_0_l.
  pose proof (stable_count_pending g sc b B ES Hb) as Hsc.
  pose proof (touched_le (gslices g) (N.min n (fold_len (nfirstn sc (gslices g)))) (N.to_nat sc) ltac:(unfold nfirstn; lia)). lia.
Qed.

Lemma effect_consume h n g g' k : BInv g -> consume n g = Some (g', k) -> effect h g h g'.
Proof.
  intros B E. unfold consume in E. destruct (stable_count g) as [sc|] eqn:ES; [|discriminate].
  eapply effect_gd_consume; [|exact E]. intros b Hb. pose proof (stable_count_pending g sc b B ES Hb). lia.
Qed.

(* ---- allocation: the heap grows at the cache chunk or by a new chunk ---- *)
Lemma heap_ext_alloc_poke h k len h1 k1 bytes :
  cache_ok h k -> heap_ok h -> alloc_cache h k len = Some (h1, k1) ->
  heap_ext h (heap_poke h1 (kchunk k1) (kbump k1) bytes) (match k with Some k0 => Some (kchunk k0) | None => None end) /\
  (k = Some k1 \/ (length h <= kchunk k1)%nat).
Proof.
  intros Hk Hh EA. destruct (alloc_cache_spec _ _ _ _ _ Hk Hh EA) as ((Hc1 & Hd1 & _) & _ & _ & Hcase).
  destruct Hcase as [(-> & ->)|(cap & -> & -> & _)].
  - split; [|now left]. constructor.
    + rewrite length_heap_poke. lia.
    + intros c Hc Hne. apply chunk_at_poke_other. intros ->. apply Hne. reflexivity.
    + intros c Hc. rewrite ccap_heap_poke. split; [reflexivity|].
      destruct (Nat.eq_dec c (kchunk k1)) as [->|Ne].
      * rewrite chunk_at_poke_same by exact Hc1. cbn [cdata]. rewrite <- Hd1, poke_append. eauto.
      * rewrite chunk_at_poke_other by exact Ne. exists []. now rewrite app_nil_r.
  - cbn [kchunk kbump]. split; [|right; lia]. constructor.
    + rewrite length_heap_poke, app_length. lia.
    + intros c Hc _. rewrite chunk_at_poke_other by lia. now apply chunk_at_app_l.
    + intros c Hc. rewrite ccap_heap_poke, chunk_at_poke_other by lia. rewrite chunk_at_app_l by exact Hc.
      split; [reflexivity|]. exists []. now rewrite app_nil_r.
Qed.

Lemma effect_push_copy h g src h' g' : GInv h g -> BInv g -> push_copy h src g = Some (h', g') -> effect h g h' g'.
Proof.
  intros I B E. destruct src as [|b0 src0] eqn:Es; [cbn in E; inversion E; apply effect_refl|]. rewrite <- Es in *.
  assert (Hne : src <> []) by (rewrite Es; discriminate).
  destruct (push_copy_inv2 _ _ _ _ _ Hne E) as (k1 & snew & old' & fresh & EA & EO).
  pose proof EA as EA'. unfold arena_copy in EA'. destruct src as [|x xs] eqn:Es2; [congruence|]. rewrite <- Es2 in *.
  destruct (alloc_cache h (gcache_ g) (nlen src)) as [[h1 ka]|] eqn:EAl; [|discriminate].
  destruct (merge_ref_or_create (back (ganchors g)) (kchunk ka)) as [o' f'] eqn:EM.
  inversion EA'; subst h' k1 snew old' fresh. clear EA'.
  destruct (heap_ext_alloc_poke h (gcache_ g) (nlen src) h1 ka src (gi_cache h g I) (gi_heap h g I) EAl) as (HE & Hck).
  destruct (alloc_cache_spec _ _ _ _ _ (gi_cache h g I) (gi_heap h g I) EAl) as ((Hc1 & Hd1 & _) & _ & _ & Hcase).
  eapply effect_append_opt; [exact B| | | | | | |exact EO]; cbn [gslices gbackrefs gcslices].
  - exact HE.
  - destruct Hck as [Ek|Hn]; [right; left|right; right; exists (kchunk ka); split; [reflexivity|exact Hn]].
    unfold cache_chunk. cbn [gcache_ kchunk]. now rewrite Ek.
  - reflexivity.
  - reflexivity.
  - reflexivity.
  - cbn [sl_fresh]. destruct Hcase as [(-> & _)|(cap & -> & -> & _)]; [right; lia|left; cbn [kchunk]; lia].
Qed.

Lemma BInv_same g g' : gslices g' = gslices g -> gbackrefs g' = gbackrefs g -> gcslices g' = gcslices g -> BInv g -> BInv g'.
Proof.
  intros E1 E2 E3 B. constructor.
  - intros b Hb. rewrite E2 in Hb. destruct (bi_target g B b Hb) as (H1 & t & Ht & H2). rewrite E3. split; [exact H1|].
    exists t. split; [|exact H2]. unfold tgt in *. now rewrite E1, E3.
  - intros b0 rest b Eg Hb. rewrite E2 in Eg. exact (bi_first g B b0 rest b Eg Hb).
  - rewrite E2. apply (bi_keys g B).
Qed.

Lemma effect_push_borrowed h g snew g' : BInv g -> sl_fresh h snew -> push_borrowed snew g = Some g' -> effect h g h g'.
Proof.
  intros B Hf E. unfold push_borrowed in E. destruct (sl_len snew =? 0); [inversion E; apply effect_refl|].
  match type of E with context [back ?L] => destruct (back L) as [a|]; [|discriminate] end.
  eapply effect_append_opt; [exact B|apply heap_ext_refl| | | | |exact Hf|exact E]; cbn [gslices gbackrefs gcslices gcache_]; auto.
Qed.

Lemma effect_push h g bs h' g' : GInv h g -> BInv g -> push h (SExt bs) g = Some (h', g') -> effect h g h' g'.
Proof.
  intros I B E. unfold push in E.
  match type of E with (if ?c then _ else _) = _ => destruct c end.
  - eapply effect_push_copy; eauto.
  - destruct (push_borrowed (SExt bs) g) as [gx|] eqn:EB; [|discriminate]. inversion E; subst h' gx.
    eapply effect_push_borrowed; eauto. exact Logic.I.
Qed.

Lemma effect_register h p g h' g' b : GInv h g -> BInv g -> register_patch h p g = Some (h', g', b) -> effect h g h' g'.
Proof.
  intros I B E. unfold register_patch in E. destruct p as [|p0 pr] eqn:Ep; [inversion E; apply effect_refl|]. rewrite <- Ep in *.
  assert (Hne : p <> []) by (rewrite Ep; discriminate).
  destruct (push_copy h p g) as [[h1 g1]|] eqn:EP; [|discriminate].
  pose proof (effect_push_copy h g p h1 g1 I B EP) as E1.
  destruct (back (gslices g1)) as [l|] eqn:EB; [|discriminate].
  destruct (glogical g1 =? 0); [discriminate|].
  set (bb := {| bend := glogical g1; bidx := gcslices g1 + nlen (gslices g1) - 1; bbegin := sl_len l - nlen p; blen := nlen p |}) in *.
  assert (Hres : h' = h1 /\ gslices g' = gslices g1 /\ gcslices g' = gcslices g1 /\ gcache_ g' = gcache_ g1 /\ gbackrefs g' = gbackrefs g1 ++ [bb]).
  { destruct (back (gbackrefs g1)) as [pp|] eqn:EBB.
    - destruct (bend bb <=? bend pp); [discriminate|]. inversion E; subst h' g' b. cbn. repeat split; auto.
    - apply back_none in EBB. inversion E; subst h' g' b. cbn. rewrite EBB. repeat split; auto. }
  destruct Hres as (-> & Esl & Ecs & Ec & Ebr).
  (* where the placeholder landed: the bytes just copied, at the old bump offset *)
  destruct (push_copy_inv2 _ _ _ _ _ Hne EP) as (k1 & snew & old' & fresh & EA & EO).
  destruct (arena_copy_spec _ _ _ _ _ _ _ _ _ (gi_cache h g I) (gi_heap h g I) EA)
    as (_ & _ & _ & _ & _ & _ & _ & Hle & Enew & _ & _ & Hwhere).
  assert (Hfreshnew : sl_fresh h snew).
  { rewrite Enew. cbn [sl_fresh]. destruct Hwhere as [Ek|(Ec1 & _)]; [right|left; lia].
    pose proof (gi_cache h g I) as Ck. rewrite Ek in Ck. cbn [cache_ok kchunk kbump] in Ck. lia. }
  assert (Hl : exists c off len, l = SArena c off len /\ snew = SArena c (off + len - nlen p) (nlen p) /\ nlen p <= len).
  { destruct (optimize_spec _ _ EO) as (_ & _ & _ & _ & _ & [Esame|(front & c & lo & ll & rl & Eg1 & Eg')]); cbn [gslices] in *.
    - rewrite Esame in EB. unfold back in EB. rewrite rev_app_distr in EB. cbn in EB. inversion EB; subst l.
      rewrite Enew. do 3 eexists. split; [reflexivity|]. split; [f_equal; lia|lia].
    - rewrite Eg' in EB. unfold back in EB. rewrite rev_app_distr in EB. cbn in EB. inversion EB; subst l.
      assert (snew = SArena c (lo + ll) rl).
      { change (front ++ [SArena c lo ll; SArena c (lo + ll) rl]) with (front ++ [SArena c lo ll] ++ [SArena c (lo + ll) rl]) in Eg1.
        rewrite app_assoc in Eg1. apply app_inj_tail in Eg1. tauto. }
      assert (Hrl : rl = nlen p) by (rewrite Enew in H; now inversion H).
      exists c, lo, (ll + rl). split; [reflexivity|]. split; [rewrite H, Hrl; f_equal; lia|lia]. }
  destruct Hl as (cl & offl & lenl & -> & Esn & Hlen).
  constructor.
  - apply (ef_heap _ _ _ _ E1).
  - unfold cache_chunk. rewrite Ec. apply (ef_cache _ _ _ _ E1).
  - intros r Hr Hd s' Hs'. rewrite Esl in Hs'. apply (ef_cover _ _ _ _ E1 r Hr Hd s' Hs').
  - intros b' r Hb' Hr. rewrite Ebr in Hb'. apply in_app_or in Hb' as [Hold|[<-|[]]].
    + assert (Hr1 : babs g1 b' = Some r) by (unfold babs, tgt in *; now rewrite Esl, Ecs in Hr).
      apply (ef_pend _ _ _ _ E1 b' r Hold Hr1).
    + right. unfold babs, tgt in Hr. rewrite Esl, Ecs in Hr. unfold bb in Hr. cbn [bidx bbegin blen] in Hr.
      destruct (back_snoc _ _ EB) as (front & Ef). rewrite Ef in Hr.
      replace (N.to_nat (gcslices g1 + nlen (front ++ [SArena cl offl lenl]) - 1 - gcslices g1)) with (length front) in Hr
        by (unfold nlen; rewrite app_length; cbn [length]; lia).
      rewrite nth_error_app2, Nat.sub_diag in Hr by lia. cbn [nth_error sl_len] in Hr. inversion Hr; subst r.
      rewrite Esn in Hfreshnew. cbn [sl_fresh] in Hfreshnew. cbn [fresh_range].
      destruct Hfreshnew as [Hf|Hf]; [left; exact Hf|right]. replace (offl + (lenl - nlen p)) with (offl + lenl - nlen p) by lia. exact Hf.
Qed.

Lemma effect_anchored_n h bs count g h' g' : GInv h g -> BInv g -> nlen bs <= count -> anchored_n h bs count g = Some (h', g') -> effect h g h' g'.
Proof.
  intros I B Hcount E. unfold anchored_n in E.
  destruct (N.eq_dec count 0) as [Hz|Hnz].
  { subst count. assert (bs = []) by (apply nlen_zero; lia). subst bs. cbn in E. inversion E; subst h' g'.
    apply effect_same_slices; cbn [push_anchor set_cache gslices gbackrefs gcslices gcache_]; auto. apply heap_ext_refl. }
  assert (Hcpos : 0 < count) by lia.
  pose proof E as E'. unfold arena_read_n in E'.
  destruct (count =? 0) eqn:E0; [apply N.eqb_eq in E0; lia|].
  destruct (count <? nlen bs) eqn:E1; [apply N.ltb_lt in E1; lia|].
  destruct (alloc_cache h (gcache_ g) count) as [[h1 ka]|] eqn:EAl; [|discriminate].
  destruct (heap_ext_alloc_poke h (gcache_ g) count h1 ka bs (gi_cache h g I) (gi_heap h g I) EAl) as (HE & Hck).
  destruct (alloc_cache_spec _ _ _ _ _ (gi_cache h g I) (gi_heap h g I) EAl) as ((Hc1 & Hd1 & Hb1) & Hh1 & Hfit & Hcase).
  assert (Htr : heap_truncate (heap_poke h1 (kchunk ka) (kbump ka) bs) (kchunk ka) (kbump ka + nlen bs) = heap_poke h1 (kchunk ka) (kbump ka) bs).
  { apply heap_truncate_id. rewrite chunk_at_poke_same by exact Hc1. cbn [cdata]. rewrite <- Hd1, poke_append, nlen_app. lia. }
  rewrite Htr in E'. clear E.
  set (hp := heap_poke h1 (kchunk ka) (kbump ka) bs) in *.
  set (kp := {| kchunk := kchunk ka; kbump := kbump ka + nlen bs |}) in *.
  set (g1 := set_cache (Some kp) g) in *.
  assert (Hcc1 : cache_chunk g1 = None \/ cache_chunk g1 = cache_chunk g \/ exists c, cache_chunk g1 = Some c /\ (length h <= c)%nat).
  { unfold cache_chunk, g1, kp. cbn [set_cache gcache_ kchunk].
    destruct Hck as [Ek|Hn]; [right; left; now rewrite Ek|right; right; eauto]. }
  assert (E01 : effect h g hp g1).
  { apply effect_same_slices; auto; try (unfold cache_chunk; destruct (gcache_ g); exact HE). }
  (* the state after read_n is again good *)
  assert (ERN : arena_read_n h (gcache_ g) bs count = Some (hp, Some kp, SArena (kchunk ka) (kbump ka) (nlen bs), {| acount := 1; achunk := Some (kchunk ka) |})).
  { unfold arena_read_n. rewrite E0, E1, EAl. fold hp. rewrite Htr. reflexivity. }
  destruct (arena_read_n_spec _ _ _ _ _ _ _ _ (gi_cache h g I) (gi_heap h g I) Hcpos Hcount ERN) as (k1 & Ek1 & Hk' & Hh' & _ & Hframe & _).
  assert (I1 : GInv hp g1).
  { inversion Ek1; subst k1. constructor; cbn [g1 set_cache gslices gcache_]; [exact Hh'|exact Hk'| |apply (gi_sorted h g I)].
    pose proof (gi_slices h g I) as F. rewrite Forall_forall in *. intros s0 Hin. apply Hframe. now apply F. }
  assert (B1 : BInv g1) by (apply (BInv_same g g1); auto).
  assert (Hfresh : sl_fresh h (SArena (kchunk ka) (kbump ka) (nlen bs))).
  { cbn [sl_fresh]. destruct Hcase as [(-> & _)|(cap & -> & -> & _)]; [right; lia|left; cbn [kchunk]; lia]. }
  cbn [sl_len] in E'.
  destruct (nlen bs =? 0) eqn:Eb0.
  - inversion E'; subst h' g'. eapply effect_trans; [exact E01|].
    apply effect_same_slices; cbn [push_anchor gslices gbackrefs gcslices gcache_]; auto. apply heap_ext_refl.
  - destruct (push hp (SArena (kchunk ka) (kbump ka) (nlen bs)) g1) as [[h2 g2]|] eqn:EP; [|discriminate].
    inversion E'; subst h' g'. clear E'.
    assert (E02 : effect h g h2 g2).
    { unfold push in EP. match type of EP with (if ?c then _ else _) = _ => destruct c end.
      - eapply effect_trans; [exact E01|]. eapply effect_push_copy; eauto.
      - destruct (push_borrowed (SArena (kchunk ka) (kbump ka) (nlen bs)) g1) as [gx|] eqn:EB; [|discriminate]. inversion EP; subst h2 gx.
        unfold push_borrowed in EB. cbn [sl_len] in EB. rewrite Eb0 in EB.
        match type of EB with context [back ?L] => destruct (back L) as [a|]; [|discriminate] end.
        eapply (effect_append_opt h g hp _ g2 (SArena (kchunk ka) (kbump ka) (nlen bs)) B); [| | | | |exact Hfresh|exact EB];
          cbn [gslices gbackrefs gcslices gcache_ g1 set_cache]; auto; try (unfold cache_chunk; destruct (gcache_ g); exact HE). }
    eapply effect_trans; [exact E02|].
    apply effect_same_slices; cbn [push_anchor gslices gbackrefs gcslices gcache_]; auto. apply heap_ext_refl.
Qed.

(* ---- the per-object invariant carried through histories ---- *)
Definition Good (h : heap) (g : giov) : Prop := GInv h g /\ exists s, R h g s /\ PipeProofs.Inv s.
Lemma Good_BInv h g : Good h g -> BInv g.
Proof. intros (I & s & Rs & PI). eapply BInv_of_pipe; eauto. Qed.
Lemma Good_step h g o h' g' x : Good h g -> g1step h g o = Some (h', g', x) -> Good h' g'.
Proof.
  intros (I & s & Rs & PI) E. destruct (g1step_refines h g s o h' g' x I Rs E) as (I' & s' & M & R').
  split; [exact I'|]. exists s'. split; [exact R'|]. eapply matches_inv; eauto.
Qed.
Lemma Good_empty h : heap_ok h -> Good h empty_iov.
Proof. intros H. split; [now apply GInv_empty|]. exists Pipe.empty_st. split; [apply R_empty|apply PipeProofs4.Inv_empty]. Qed.

Lemma effect_extend h : forall items g g', Good h g -> extend (map SExt items) g = Some g' -> effect h g h g'.
Proof.
  induction items as [|bs items IH]; intros g g' G E; cbn [map extend] in E; [inversion E; apply effect_refl|].
  destruct (push_borrowed (SExt bs) g) as [g1|] eqn:EB; [|discriminate].
  eapply effect_trans; [exact (effect_push_borrowed h g (SExt bs) g1 (Good_BInv h g G) Logic.I EB)|].
  apply IH; [|exact E].
  apply (Good_step h g (HPushBorrowed bs) h g1 GUnit G). cbn [g1step]. now rewrite EB.
Qed.

Lemma effect_read_loop h : forall fuel n g acc g' out, Good h g -> read_loop fuel h n g acc = Some (g', out) -> effect h g h g'.
Proof.
  induction fuel as [|fuel IH]; intros n g acc g' out G E; cbn [read_loop] in E.
  - destruct (n =? 0); inversion E; apply effect_refl.
  - destruct (n =? 0); [inversion E; apply effect_refl|].
    destruct (stable_slices g) as [[|s0 rest]|]; [inversion E; apply effect_refl| |discriminate].
    destruct (advance_slices (N.min (sl_len s0) n) g) as [[g1 k1]|] eqn:EA; [|discriminate].
    eapply effect_trans; [exact (effect_advance h _ g g1 k1 (Good_BInv h g G) EA)|].
    eapply IH; [|exact E].
    apply (Good_step h g (HAdvance (N.min (sl_len s0) n)) h g1 (GCount k1) G). cbn [g1step]. now rewrite EA.
Qed.

(* every operation except backfill *)
Theorem g1step_effect h g o h' g' x :
  Good h g -> (forall b src, o <> HBackfill (Some b) src) -> g1step h g o = Some (h', g', x) -> effect h g h' g'.
Proof.
  intros G Hnb E. pose proof (Good_BInv h g G) as B. destruct G as (I & sp & Rs & PI).
  assert (G : Good h g) by (split; eauto).
  destruct o as [bs|bs|bs|items|bs|p|b src|k|k| |k| | |k|bs count]; cbn [g1step] in E.
  - destruct (push h (SExt bs) g) as [[h1 g1]|] eqn:EP; [|discriminate]. inversion E; subst h1 g1 x. eapply effect_push; eauto.
  - destruct (push_copy h bs g) as [[h1 g1]|] eqn:EP; [|discriminate]. inversion E; subst h1 g1 x. eapply effect_push_copy; eauto.
  - destruct (push_borrowed (SExt bs) g) as [g1|] eqn:EP; [|discriminate]. inversion E; subst h' g1 x.
    exact (effect_push_borrowed h g (SExt bs) g' B Logic.I EP).
  - destruct (extend (map SExt items) g) as [g1|] eqn:EP; [|discriminate]. inversion E; subst h' g1 x. eapply effect_extend; eauto.
  - destruct (anchored h bs g) as [[h1 g1]|] eqn:EP; [|discriminate]. inversion E; subst h1 g1 x.
    apply (effect_anchored_n h bs (nlen bs) g h' g' I B (N.le_refl _) EP).
  - destruct (register_patch h p g) as [[[h1 g1] b]|] eqn:EP; [|discriminate]. inversion E; subst h1 g1 x. eapply effect_register; eauto.
  - destruct b as [b|]; [exfalso; eapply Hnb; reflexivity|].
    cbn [backfill] in E. destruct src; [|discriminate]. inversion E; subst h' g' x. apply effect_refl.
  - destruct (consume k g) as [[g1 n]|] eqn:EP; [|discriminate]. inversion E; subst h' g1 x. eapply effect_consume; eauto.
  - destruct (advance_slices k g) as [[g1 c]|] eqn:EP; [|discriminate]. inversion E; subst h' g1 x. eapply effect_advance; eauto.
  - destruct (pop_front g) as [g1|] eqn:EP; [|discriminate]. inversion E; subst h' g1 x.
    unfold pop_front in EP. destruct (consume 1 g) as [[g2 n]|] eqn:EC; [|discriminate].
    destruct n as [|[q|q|]]; try discriminate. inversion EP; subst g2. eapply effect_consume; eauto.
  - destruct (read h k g) as [[g1 bs]|] eqn:EP; [|discriminate]. inversion E; subst h' g1 x. eapply effect_read_loop; eauto.
  - inversion E; subst h' g' x. constructor; cbn [clear gslices gbackrefs cache_chunk gcache_].
    + apply heap_ext_refl.
    + right. left. reflexivity.
    + intros r _ _ s' [].
    + intros b r [].
  - inversion E; subst h' g' x. apply effect_same_slices; cbn [set_cache gslices gbackrefs gcslices gcache_ cache_chunk]; auto. apply heap_ext_refl.
  - destruct (ensure_capacity h (gcache_ g) k) as [[h1 k1]|] eqn:EP; [|discriminate]. inversion E; subst h1 g' x.
    destruct (ensure_capacity_spec _ _ _ _ _ (gi_cache h g I) (gi_heap h g I) EP) as (_ & _ & _ & Hcase).
    apply effect_same_slices; cbn [set_cache gslices gbackrefs gcslices gcache_]; auto.
    + destruct Hcase as [(-> & _)|(cap & -> & _ & _)]; [apply heap_ext_refl|]. constructor.
      * rewrite app_length. lia.
      * intros c Hc _. now apply chunk_at_app_l.
      * intros c Hc. rewrite chunk_at_app_l by exact Hc. split; [reflexivity|]. exists []. now rewrite app_nil_r.
    + unfold cache_chunk. cbn [set_cache gcache_]. destruct Hcase as [(_ & ->)|(cap & _ & -> & _)]; [right; left; reflexivity|].
      right. right. exists (length h). cbn [kchunk]. split; [reflexivity|lia].
  - destruct (nlen bs <=? count) eqn:Ec; [|discriminate]. apply N.leb_le in Ec.
    destruct (anchored_n h bs count g) as [[h1 g1]|] eqn:EP; [|discriminate]. inversion E; subst h1 g1 x. eapply effect_anchored_n; eauto.
Qed.

(* ---- backfill: an in-place write into a pending placeholder's own range ---- *)
Lemma sl_poke_disjoint h c lo src s : sl_ok h s -> (c < length h)%nat -> lo + nlen src <= nlen (cdata (chunk_at h c)) ->
  rdisj (c, lo, nlen src) s -> sl_bytes (heap_poke h c lo src) s = sl_bytes h s /\ sl_ok (heap_poke h c lo src) s.
Proof.
  intros Hs Hc Hb Hd. destruct s as [c' o l|bs]; cbn [sl_bytes sl_ok rdisj] in *; [|auto].
  rewrite length_heap_poke. destruct (Nat.eq_dec c' c) as [->|Ne].
  - rewrite chunk_at_poke_same by exact Hc. cbn [cdata]. rewrite nlen_poke by exact Hb. split; [|exact Hs].
    destruct (Hd eq_refl) as [H|H].
    + f_equal. apply read_poke_after; lia.
    + apply read_poke_before; lia.
  - rewrite chunk_at_poke_other by exact Ne. auto.
Qed.
Lemma poke_keeps_shape h c lo src : (c < length h)%nat -> lo + nlen src <= nlen (cdata (chunk_at h c)) ->
  forall c', nlen (cdata (chunk_at (heap_poke h c lo src) c')) = nlen (cdata (chunk_at h c')) /\
             ccap (chunk_at (heap_poke h c lo src) c') = ccap (chunk_at h c').
Proof.
  intros Hc Hb c'. rewrite ccap_heap_poke. split; [|reflexivity].
  destruct (Nat.eq_dec c' c) as [->|Ne]; [|now rewrite chunk_at_poke_other].
  rewrite chunk_at_poke_same by exact Hc. cbn [cdata]. now apply nlen_poke.
Qed.

Lemma babs_in_data h g b r : Good h g -> In b (gbackrefs g) -> babs g b = Some r -> in_data h r.
Proof.
  intros G Hb Hr. pose proof (Good_BInv h g G) as B. destruct G as (I & _).
  destruct (bi_target g B b Hb) as (_ & t & Ht & Hlen & Hpos). unfold babs in Hr. rewrite Ht in Hr.
  destruct t as [c off len|bs]; [|discriminate]. inversion Hr; subst r. cbn [in_data sl_len] in *.
  pose proof (gi_slices h g I) as F. rewrite Forall_forall in F.
  assert (Ok : sl_ok h (SArena c off len)) by (apply F; unfold tgt in Ht; eapply nth_error_In; eauto).
  cbn [sl_ok] in Ok. repeat split; try tauto; lia.
Qed.

(* what a backfill does *)
Lemma backfill_shape h b src g h' g' : backfill h (Some b) src g = Some (h', g') ->
  In b (gbackrefs g) /\ blen b = nlen src /\ gcache_ g' = gcache_ g /\ gcslices g' = gcslices g /\
  gbackrefs g' = filter (fun p => negb (bend p =? bend b)) (gbackrefs g) /\
  ((exists c lo, babs g b = Some (c, lo, nlen src) /\ h' = heap_poke h c lo src /\ gslices g' = gslices g) \/
   (exists bs i, tgt g b = Some (SExt bs) /\ i = N.to_nat (bidx b - gcslices g) /\ h' = h /\
                 gslices g' = Geo.update_nth i (fun _ => SExt (poke bs (bbegin b) src)) (gslices g))).
Proof.
  unfold backfill. destruct (negb (blen b =? nlen src)) eqn:E1; [discriminate|]. apply negb_false_iff, N.eqb_eq in E1.
  destruct (find (fun p => bend p =? bend b) (gbackrefs g)) as [p|] eqn:EF; [|discriminate].
  destruct (negb (backref_eqb p b)) eqn:E2; [discriminate|]. apply negb_false_iff, backref_eqb_eq in E2. subst p.
  destruct (bidx b <? gcslices g); [discriminate|].
  destruct (nth_error (gslices g) (N.to_nat (bidx b - gcslices g))) as [target|] eqn:ET; [|discriminate].
  destruct (sl_len target <? bbegin b + nlen src); [discriminate|].
  apply find_some in EF as (Hin & _).
  destruct target as [c off len|bs]; intros E; inversion E; subst h' g'; cbn [gcache_ gcslices gbackrefs gslices];
    (split; [exact Hin|split; [exact E1|split; [reflexivity|split; [reflexivity|split; [reflexivity|]]]]]).
  - left. exists c, (off + bbegin b). unfold babs, tgt. rewrite ET, E1. auto.
  - right. exists bs, (N.to_nat (bidx b - gcslices g)). unfold tgt. auto.
Qed.

(* ---- the world: any number of iovecs over one heap ---- *)
Record world := { wh : heap; wo : nat -> option giov }.
Definition upd (f : nat -> option giov) (i : nat) (v : option giov) : nat -> option giov :=
  fun k => if Nat.eqb k i then v else f k.
Lemma upd_same f i v : upd f i v i = v. Proof. unfold upd. now rewrite Nat.eqb_refl. Qed.
Lemma upd_other f i v k : k <> i -> upd f i v k = f k.
Proof. intros H. unfold upd. destruct (Nat.eqb k i) eqn:E; [apply Nat.eqb_eq in E; congruence|reflexivity]. Qed.

Inductive wop := WOp (i : nat) (o : g1op) | WClone (i j : nat) | WTake (i j : nat) | WDrop (i : nat) | WNew (i : nat).

Definition wstep (w : world) (op : wop) : option world :=
  match op with
  | WOp i o => match wo w i with
               | Some g => match g1step (wh w) g o with
                           | Some (h', g', _) => Some {| wh := h'; wo := upd (wo w) i (Some g') |}
                           | None => None
                           end
               | None => None
               end
  | WClone i j => match wo w i with
                  | Some g => if Nat.eqb i j then None
                              else match gbackrefs g with
                                   | [] => Some {| wh := wh w; wo := upd (wo w) j (Some (clone g)) |}
                                   | _ => None          (* the property is about hole-free clones *)
                                   end
                  | None => None
                  end
  | WTake i j => match wo w i with
                 | Some g => if Nat.eqb i j then None
                             else Some {| wh := wh w; wo := upd (upd (wo w) i (Some empty_iov)) j (Some g) |}
                 | None => None
                 end
  | WDrop i => Some {| wh := wh w; wo := upd (wo w) i None |}
  | WNew i => Some {| wh := wh w; wo := upd (wo w) i (Some empty_iov) |}
  end.
Definition targets (op : wop) (k : nat) : Prop :=
  match op with WOp i _ | WDrop i | WNew i => k = i | WClone _ j => k = j | WTake i j => k = i \/ k = j end.

Record WInv (w : world) : Prop := {
  wi_heap : heap_ok (wh w);
  wi_good : forall i g, wo w i = Some g -> Good (wh w) g;
  wi_cache : forall i j gi gj c, i <> j -> wo w i = Some gi -> wo w j = Some gj ->
      cache_chunk gi = Some c -> cache_chunk gj <> Some c;
  wi_pend : forall i j gi gj b r, i <> j -> wo w i = Some gi -> wo w j = Some gj ->
      In b (gbackrefs gi) -> babs gi b = Some r -> forall s, In s (gslices gj) -> rdisj r s }.

Lemma WInv_init : WInv {| wh := []; wo := fun _ => None |}.
Proof. constructor; cbn; try discriminate. intros c Hc. cbn in Hc. lia. Qed.

(* an object that was not operated on stays good over a heap that only grew elsewhere *)
Lemma Good_frame h h' g c0 : Good h g -> heap_ok h' -> heap_ext h h' c0 -> cache_chunk g <> c0 \/ cache_chunk g = None -> Good h' g.
Proof.
  intros (I & s & Rs & PI) Hh E Hc.
  assert (Hfr : forall s0, sl_ok h s0 -> sl_bytes h' s0 = sl_bytes h s0 /\ sl_ok h' s0) by (intros s0; apply (heap_ext_sl h h' c0 s0 E)).
  assert (Hk : cache_ok h' (gcache_ g)).
  { pose proof (gi_cache h g I) as K. destruct (gcache_ g) as [k|] eqn:Ek; [|exact Logic.I]. cbn [cache_ok] in *.
    destruct K as (K1 & K2 & K3).
    assert (Hsame : chunk_at h' (kchunk k) = chunk_at h (kchunk k)).
    { apply (he_same _ _ _ E (kchunk k) K1). unfold cache_chunk in Hc. rewrite Ek in Hc. destruct Hc as [Hc|Hc]; [exact Hc|discriminate]. }
    pose proof (he_len _ _ _ E). unfold kcap in *. rewrite Hsame. repeat split; auto; lia. }
  destruct (frame_refines h h' g s (gcache_ g) I Rs Hh Hk Hfr) as (I' & R').
  assert (Eg : set_cache (gcache_ g) g = g) by (destruct g; reflexivity). rewrite Eg in *.
  split; [exact I'|]. exists s. auto.
Qed.

Lemma all_bytes_frame h h' g : GInv h g -> (forall s0, sl_ok h s0 -> sl_bytes h' s0 = sl_bytes h s0 /\ sl_ok h' s0) ->
  all_bytes h' g = all_bytes h g.
Proof.
  intros I Hfr. unfold all_bytes. f_equal. apply map_ext_in. intros s0 Hin. apply Hfr.
  pose proof (gi_slices h g I) as F. rewrite Forall_forall in F. now apply F.
Qed.

Lemma cache_lt h g c : Good h g -> cache_chunk g = Some c -> (c < length h)%nat.
Proof.
  intros (I & _) Hc. pose proof (gi_cache h g I) as K. unfold cache_chunk in Hc. destruct (gcache_ g) as [k|]; [|discriminate].
  inversion Hc; subst c. cbn [cache_ok] in K. tauto.
Qed.

(* an operation other than backfill on object i *)
Lemma wstep_op_effect w i g o h' g' x :
  WInv w -> wo w i = Some g -> (forall b src, o <> HBackfill (Some b) src) -> g1step (wh w) g o = Some (h', g', x) ->
  WInv {| wh := h'; wo := upd (wo w) i (Some g') |} /\
  forall j gj, j <> i -> wo w j = Some gj -> all_bytes h' gj = all_bytes (wh w) gj.
Proof.
  intros W Hi Hnb E. set (h := wh w) in *.
  pose proof (wi_good w W i g Hi) as G.
  pose proof (Good_step h g o h' g' x G E) as G'.
  pose proof (g1step_effect h g o h' g' x G Hnb E) as Ef.
  assert (Hh' : heap_ok h') by (destruct G' as (I' & _); apply (gi_heap h' g' I')).
  assert (Hother : forall j gj, j <> i -> wo w j = Some gj -> Good h' gj).
  { intros j gj Hne Hj. apply (Good_frame h h' gj (cache_chunk g) (wi_good w W j gj Hj) Hh' (ef_heap _ _ _ _ Ef)).
    destruct (cache_chunk g) as [c|] eqn:Ec; [left|destruct (cache_chunk gj); [left; discriminate|right; reflexivity]].
    apply (wi_cache w W i j g gj c (not_eq_sym Hne) Hi Hj Ec). }
  split.
  - constructor; cbn [wh wo].
    + exact Hh'.
    + intros k gk Hk. destruct (Nat.eq_dec k i) as [->|Ne]; [rewrite upd_same in Hk; inversion Hk; subst gk; exact G'|].
      rewrite upd_other in Hk by exact Ne. now apply (Hother k gk Ne).
    + intros a b ga gb c Hab Ha Hb Hc.
      destruct (Nat.eq_dec a i) as [->|Na]; destruct (Nat.eq_dec b i) as [->|Nb]; try congruence.
      * rewrite upd_same in Ha. inversion Ha; subst ga. rewrite upd_other in Hb by exact Nb.
        pose proof (wi_good w W b gb Hb) as Gb.
        destruct (ef_cache _ _ _ _ Ef) as [En|[Es|(c' & Ec' & Hl)]]; [congruence| |].
        -- rewrite Es in Hc. apply (wi_cache w W i b g gb c (not_eq_sym Nb) Hi Hb Hc).
        -- rewrite Ec' in Hc. inversion Hc; subst c'. intros Hcb. pose proof (cache_lt h gb c Gb Hcb). lia.
      * rewrite upd_other in Ha by exact Na. rewrite upd_same in Hb. inversion Hb; subst gb.
        pose proof (wi_good w W a ga Ha) as Ga. pose proof (cache_lt h ga c Ga Hc) as Hlt.
        destruct (ef_cache _ _ _ _ Ef) as [En|[Es|(c' & Ec' & Hl)]]; [congruence| |].
        -- rewrite Es. intros Hcg. exact (wi_cache w W i a g ga c (not_eq_sym Na) Hi Ha Hcg Hc).
        -- rewrite Ec'. intros Heq. inversion Heq. lia.
      * rewrite upd_other in Ha, Hb by assumption. exact (wi_cache w W a b ga gb c Hab Ha Hb Hc).
    + intros a b ga gb pb r Hab Ha Hb Hin Hr s Hs.
      destruct (Nat.eq_dec a i) as [->|Na]; destruct (Nat.eq_dec b i) as [->|Nb]; try congruence.
      * (* pending of the operated object against another object's slices *)
        rewrite upd_same in Ha. inversion Ha; subst ga. rewrite upd_other in Hb by exact Nb.
        destruct (ef_pend _ _ _ _ Ef pb r Hin Hr) as [(Hold & Hrold)|Hfresh].
        -- exact (wi_pend w W i b g gb pb r (not_eq_sym Nb) Hi Hb Hold Hrold s Hs).
        -- apply (fresh_disjoint h); [exact Hfresh|].
           destruct (wi_good w W b gb Hb) as (Ib & _). pose proof (gi_slices h gb Ib) as F. rewrite Forall_forall in F. now apply F.
      * (* another object's pending against the new slices of the operated object *)
        rewrite upd_other in Ha by exact Na. rewrite upd_same in Hb. inversion Hb; subst gb.
        apply (ef_cover _ _ _ _ Ef r); [|intros s0 Hs0; exact (wi_pend w W a i ga g pb r Na Ha Hi Hin Hr s0 Hs0)|exact Hs].
        apply (babs_in_data h ga pb r (wi_good w W a ga Ha) Hin Hr).
      * rewrite upd_other in Ha, Hb by assumption. exact (wi_pend w W a b ga gb pb r Hab Ha Hb Hin Hr s Hs).
  - intros j gj Hne Hj. destruct (wi_good w W j gj Hj) as (Ij & _).
    apply (all_bytes_frame h h' gj Ij). intros s0. apply (heap_ext_sl h h' (cache_chunk g) s0 (ef_heap _ _ _ _ Ef)).
Qed.

(* a backfill on object i *)
Lemma wstep_backfill w i g b src h' g' x :
  WInv w -> wo w i = Some g -> g1step (wh w) g (HBackfill (Some b) src) = Some (h', g', x) ->
  WInv {| wh := h'; wo := upd (wo w) i (Some g') |} /\
  forall j gj, j <> i -> wo w j = Some gj -> all_bytes h' gj = all_bytes (wh w) gj.
Proof.
  intros W Hi E. set (h := wh w) in *.
  pose proof (wi_good w W i g Hi) as G.
  pose proof (Good_step h g _ h' g' x G E) as G'.
  cbn [g1step] in E. destruct (backfill h (Some b) src g) as [[h1 g1]|] eqn:EB; [|discriminate]. inversion E; subst h1 g1 x. clear E.
  destruct (backfill_shape _ _ _ _ _ _ EB) as (Hin & Hlen & Ec & Ecs & Ebr & Hshape).
  assert (Hh' : heap_ok h') by (destruct G' as (I' & _); apply (gi_heap h' g' I')).
  (* the other objects read the same bytes and stay good *)
  assert (Hfr : forall j gj, j <> i -> wo w j = Some gj ->
            forall s0, In s0 (gslices gj) -> sl_bytes h' s0 = sl_bytes h s0 /\ sl_ok h' s0).
  { intros j gj Hne Hj s0 Hs0. destruct (wi_good w W j gj Hj) as (Ij & _).
    pose proof (gi_slices h gj Ij) as F. rewrite Forall_forall in F. specialize (F s0 Hs0).
    destruct Hshape as [(c & lo & Hb & -> & _)|(bs & k & _ & _ & -> & _)]; [|auto].
    pose proof (babs_in_data h g b _ G Hin Hb) as (Hc & _ & Hd).
    apply sl_poke_disjoint; auto. exact (wi_pend w W i j g gj b _ (not_eq_sym Hne) Hi Hj Hin Hb s0 Hs0). }
  assert (Hshape' : forall c', nlen (cdata (chunk_at h' c')) = nlen (cdata (chunk_at h c')) /\ ccap (chunk_at h' c') = ccap (chunk_at h c')).
  { destruct Hshape as [(c & lo & Hb & -> & _)|(bs & k & _ & _ & -> & _)]; [|auto].
    pose proof (babs_in_data h g b _ G Hin Hb) as (Hc & _ & Hd). now apply poke_keeps_shape. }
  assert (Hlen' : length h' = length h).
  { destruct Hshape as [(c & lo & _ & -> & _)|(bs & k & _ & _ & -> & _)]; [apply length_heap_poke|reflexivity]. }
  assert (Hother : forall j gj, j <> i -> wo w j = Some gj -> Good h' gj).
  { intros j gj Hne Hj. destruct (wi_good w W j gj Hj) as (Ij & s & Rs & PI).
    assert (Hk : cache_ok h' (gcache_ gj)).
    { pose proof (gi_cache h gj Ij) as K. destruct (gcache_ gj) as [k|]; [|exact Logic.I]. cbn [cache_ok] in *.
      unfold kcap in *. destruct (Hshape' (kchunk k)) as (-> & ->). rewrite Hlen'. exact K. }
    split.
    - constructor; [exact Hh'|exact Hk| |apply (gi_sorted h gj Ij)].
      rewrite Forall_forall. intros s0 Hs0. apply (Hfr j gj Hne Hj s0 Hs0).
    - exists s. split; [|exact PI]. eapply R_same_fields; eauto. apply map_ext_in. intros s0 Hs0. apply (Hfr j gj Hne Hj s0 Hs0). }
  (* pending placeholders of the operated object keep their addresses *)
  assert (Hbabs : forall b', In b' (gbackrefs g') -> In b' (gbackrefs g) /\ babs g' b' = babs g b').
  { intros b' Hb'. rewrite Ebr in Hb'. apply filter_In in Hb' as (Hb' & _). split; [exact Hb'|].
    destruct Hshape as [(c & lo & _ & _ & Esl)|(bs & k & Ht & Ek & _ & Esl)].
    - unfold babs, tgt. now rewrite Esl, Ecs.
    - unfold babs, tgt. rewrite Esl, Ecs, nth_error_gupdate.
      destruct (Nat.eqb (N.to_nat (bidx b' - gcslices g)) k) eqn:Ei; [|reflexivity].
      apply Nat.eqb_eq in Ei. rewrite Ei. unfold tgt in Ht. rewrite <- Ek in Ht. rewrite Ht. reflexivity. }
  assert (Hsl' : forall s', In s' (gslices g') -> In s' (gslices g) \/ exists bs, s' = SExt bs).
  { intros s' Hs'. destruct Hshape as [(c & lo & _ & _ & Esl)|(bs & k & _ & _ & _ & Esl)]; [rewrite Esl in Hs'; now left|].
    rewrite Esl in Hs'. destruct (In_nth_error _ _ Hs') as (q & Hq). rewrite nth_error_gupdate in Hq.
    destruct (Nat.eqb q k); [|left; eapply nth_error_In; eauto].
    destruct (nth_error (gslices g) q); cbn [option_map] in Hq; [|discriminate]. inversion Hq. right. eauto. }
  split.
  - constructor; cbn [wh wo].
    + exact Hh'.
    + intros k gk Hk. destruct (Nat.eq_dec k i) as [->|Ne]; [rewrite upd_same in Hk; inversion Hk; subst gk; exact G'|].
      rewrite upd_other in Hk by exact Ne. now apply (Hother k gk Ne).
    + intros a b0 ga gb c Hab Ha Hb Hc.
      assert (Hcc : cache_chunk g' = cache_chunk g) by (unfold cache_chunk; now rewrite Ec).
      destruct (Nat.eq_dec a i) as [->|Na]; destruct (Nat.eq_dec b0 i) as [->|Nb]; try congruence.
      * rewrite upd_same in Ha. inversion Ha; subst ga. rewrite upd_other in Hb by exact Nb. rewrite Hcc in Hc.
        exact (wi_cache w W i b0 g gb c (not_eq_sym Nb) Hi Hb Hc).
      * rewrite upd_other in Ha by exact Na. rewrite upd_same in Hb. inversion Hb; subst gb. rewrite Hcc.
        exact (wi_cache w W a i ga g c Na Ha Hi Hc).
      * rewrite upd_other in Ha, Hb by assumption. exact (wi_cache w W a b0 ga gb c Hab Ha Hb Hc).
    + intros a b0 ga gb pb r Hab Ha Hb Hinb Hr s Hs.
      destruct (Nat.eq_dec a i) as [->|Na]; destruct (Nat.eq_dec b0 i) as [->|Nb]; try congruence.
      * rewrite upd_same in Ha. inversion Ha; subst ga. rewrite upd_other in Hb by exact Nb.
        destruct (Hbabs pb Hinb) as (Hold & Eq). rewrite Eq in Hr.
        exact (wi_pend w W i b0 g gb pb r (not_eq_sym Nb) Hi Hb Hold Hr s Hs).
      * rewrite upd_other in Ha by exact Na. rewrite upd_same in Hb. inversion Hb; subst gb.
        destruct (Hsl' s Hs) as [Hold|(bs & ->)]; [|destruct r as [[? ?] ?]; exact Logic.I].
        exact (wi_pend w W a i ga g pb r Na Ha Hi Hinb Hr s Hold).
      * rewrite upd_other in Ha, Hb by assumption. exact (wi_pend w W a b0 ga gb pb r Hab Ha Hb Hinb Hr s Hs).
  - intros j gj Hne Hj. unfold all_bytes. f_equal. apply map_ext_in. intros s0 Hs0. apply (Hfr j gj Hne Hj s0 Hs0).
Qed.

Lemma Good_clone h g : Good h g -> Good h (clone g).
Proof.
  intros (I & s & Rs & PI). destruct (set_cache_refines h g s None I Rs Logic.I) as (I' & R'). split; [exact I'|]. eauto.
Qed.

(* ---- every world step keeps the invariant and leaves untargeted objects' bytes alone ---- *)
Theorem wstep_independent w op w' :
  WInv w -> wstep w op = Some w' ->
  WInv w' /\
  forall j gj, ~ targets op j -> wo w j = Some gj -> wo w' j = Some gj /\ all_bytes (wh w') gj = all_bytes (wh w) gj.
Proof.
  intros W E. destruct op as [i o|i j|i j|i|i]; cbn [wstep targets] in *.
  - destruct (wo w i) as [g|] eqn:Hi; [|discriminate].
    destruct (g1step (wh w) g o) as [[[h' g'] x]|] eqn:ES; [|discriminate]. inversion E; subst w'. clear E. cbn [wh wo].
    assert (H : WInv {| wh := h'; wo := upd (wo w) i (Some g') |} /\
                forall j gj, j <> i -> wo w j = Some gj -> all_bytes h' gj = all_bytes (wh w) gj).
    { destruct (match o with HBackfill (Some _) _ => true | _ => false end) eqn:Ebk.
      - destruct o as [bs|bs|bs|items|bs|p|ob src|k|k| |k| | |k|bs count]; try discriminate.
        destruct ob as [b1|]; [|discriminate]. exact (wstep_backfill w i g b1 src h' g' x W Hi ES).
      - apply (wstep_op_effect w i g o h' g' x W Hi); [|exact ES]. intros b1 src ->. discriminate. }
    destruct H as (W' & Hb). split; [exact W'|]. intros j gj Hne Hj. rewrite upd_other by exact Hne. split; [exact Hj|exact (Hb j gj Hne Hj)].
  - destruct (wo w i) as [g|] eqn:Hi; [|discriminate]. destruct (Nat.eqb i j) eqn:Eij; [discriminate|]. apply Nat.eqb_neq in Eij.
    destruct (gbackrefs g) as [|b0 rest] eqn:Ebr; [|discriminate]. inversion E; subst w'. clear E. cbn [wh wo]. split.
    + constructor; cbn [wh wo].
      * apply (wi_heap w W).
      * intros k gk Hk. destruct (Nat.eq_dec k j) as [->|Ne]; [rewrite upd_same in Hk; inversion Hk; apply Good_clone; apply (wi_good w W i g Hi)|].
        rewrite upd_other in Hk by exact Ne. apply (wi_good w W k gk Hk).
      * intros a b ga gb c Hab Ha Hb Hc.
        destruct (Nat.eq_dec a j) as [->|Na]; [rewrite upd_same in Ha; inversion Ha; subst ga; discriminate|].
        rewrite upd_other in Ha by exact Na.
        destruct (Nat.eq_dec b j) as [->|Nb]; [rewrite upd_same in Hb; inversion Hb; subst gb; discriminate|].
        rewrite upd_other in Hb by exact Nb. exact (wi_cache w W a b ga gb c Hab Ha Hb Hc).
      * intros a b ga gb pb r Hab Ha Hb Hin Hr s Hs.
        destruct (Nat.eq_dec a j) as [->|Na]; [rewrite upd_same in Ha; inversion Ha; subst ga; cbn [clone set_cache gbackrefs] in Hin; rewrite Ebr in Hin; destruct Hin|].
        rewrite upd_other in Ha by exact Na.
        destruct (Nat.eq_dec b j) as [->|Nb].
        -- rewrite upd_same in Hb. inversion Hb; subst gb. cbn [clone set_cache gslices] in Hs.
           destruct (Nat.eq_dec a i) as [->|Nai]; [rewrite Hi in Ha; inversion Ha; subst ga; rewrite Ebr in Hin; destruct Hin|].
           exact (wi_pend w W a i ga g pb r Nai Ha Hi Hin Hr s Hs).
        -- rewrite upd_other in Hb by exact Nb. exact (wi_pend w W a b ga gb pb r Hab Ha Hb Hin Hr s Hs).
    + intros k gk Hne Hk. rewrite upd_other by exact Hne. auto.
  - destruct (wo w i) as [g|] eqn:Hi; [|discriminate]. destruct (Nat.eqb i j) eqn:Eij; [discriminate|]. apply Nat.eqb_neq in Eij.
    inversion E; subst w'. clear E. cbn [wh wo]. split.
    + assert (Hlook : forall k gk, upd (upd (wo w) i (Some empty_iov)) j (Some g) k = Some gk ->
                (k = j /\ gk = g) \/ (k = i /\ gk = empty_iov) \/ (k <> i /\ k <> j /\ wo w k = Some gk)).
      { intros k gk Hk. destruct (Nat.eq_dec k j) as [->|Nj]; [rewrite upd_same in Hk; inversion Hk; auto|].
        rewrite upd_other in Hk by exact Nj. destruct (Nat.eq_dec k i) as [->|Ni]; [rewrite upd_same in Hk; inversion Hk; auto|].
        rewrite upd_other in Hk by exact Ni. auto. }
      constructor; cbn [wh wo].
      * apply (wi_heap w W).
      * intros k gk Hk. destruct (Hlook k gk Hk) as [(-> & ->)|[(-> & ->)|(_ & _ & Hw)]];
          [apply (wi_good w W i g Hi)|apply Good_empty; apply (wi_heap w W)|apply (wi_good w W k gk Hw)].
      * intros a b ga gb c Hab Ha Hb Hc.
        destruct (Hlook a ga Ha) as [(-> & ->)|[(-> & ->)|(Nai & Naj & Hwa)]]; [| discriminate |];
        destruct (Hlook b gb Hb) as [(-> & ->)|[(-> & ->)|(Nbi & Nbj & Hwb)]]; try congruence; try discriminate.
        -- exact (wi_cache w W i b g gb c (not_eq_sym Nbi) Hi Hwb Hc).
        -- exact (wi_cache w W a i ga g c Nai Hwa Hi Hc).
        -- exact (wi_cache w W a b ga gb c Hab Hwa Hwb Hc).
      * intros a b ga gb pb r Hab Ha Hb Hin Hr s Hs.
        destruct (Hlook a ga Ha) as [(-> & ->)|[(-> & ->)|(Nai & Naj & Hwa)]]; [| destruct Hin |];
        destruct (Hlook b gb Hb) as [(-> & ->)|[(-> & ->)|(Nbi & Nbj & Hwb)]]; try congruence; try (destruct Hs; fail).
        -- exact (wi_pend w W i b g gb pb r (not_eq_sym Nbi) Hi Hwb Hin Hr s Hs).
        -- exact (wi_pend w W a i ga g pb r Nai Hwa Hi Hin Hr s Hs).
        -- exact (wi_pend w W a b ga gb pb r Hab Hwa Hwb Hin Hr s Hs).
    + intros k gk Hne Hk. assert (k <> i /\ k <> j) as (Ni & Nj) by tauto. rewrite !upd_other by assumption. auto.
  - inversion E; subst w'. clear E. cbn [wh wo]. split.
    + constructor; cbn [wh wo].
      * apply (wi_heap w W).
      * intros k gk Hk. destruct (Nat.eq_dec k i) as [->|Ne]; [rewrite upd_same in Hk; discriminate|]. rewrite upd_other in Hk by exact Ne. apply (wi_good w W k gk Hk).
      * intros a b ga gb c Hab Ha Hb Hc.
        destruct (Nat.eq_dec a i) as [->|Na]; [rewrite upd_same in Ha; discriminate|]. rewrite upd_other in Ha by exact Na.
        destruct (Nat.eq_dec b i) as [->|Nb]; [rewrite upd_same in Hb; discriminate|]. rewrite upd_other in Hb by exact Nb.
        exact (wi_cache w W a b ga gb c Hab Ha Hb Hc).
      * intros a b ga gb pb r Hab Ha Hb Hin Hr s Hs.
        destruct (Nat.eq_dec a i) as [->|Na]; [rewrite upd_same in Ha; discriminate|]. rewrite upd_other in Ha by exact Na.
        destruct (Nat.eq_dec b i) as [->|Nb]; [rewrite upd_same in Hb; discriminate|]. rewrite upd_other in Hb by exact Nb.
        exact (wi_pend w W a b ga gb pb r Hab Ha Hb Hin Hr s Hs).
    + intros k gk Hne Hk. rewrite upd_other by exact Hne. auto.
  - inversion E; subst w'. clear E. cbn [wh wo]. split.
    + constructor; cbn [wh wo].
      * apply (wi_heap w W).
      * intros k gk Hk. destruct (Nat.eq_dec k i) as [->|Ne]; [rewrite upd_same in Hk; inversion Hk; apply Good_empty; apply (wi_heap w W)|].
        rewrite upd_other in Hk by exact Ne. apply (wi_good w W k gk Hk).
      * intros a b ga gb c Hab Ha Hb Hc.
        destruct (Nat.eq_dec a i) as [->|Na]; [rewrite upd_same in Ha; inversion Ha; subst ga; discriminate|]. rewrite upd_other in Ha by exact Na.
        destruct (Nat.eq_dec b i) as [->|Nb]; [rewrite upd_same in Hb; inversion Hb; subst gb; discriminate|]. rewrite upd_other in Hb by exact Nb.
        exact (wi_cache w W a b ga gb c Hab Ha Hb Hc).
      * intros a b ga gb pb r Hab Ha Hb Hin Hr s Hs.
        destruct (Nat.eq_dec a i) as [->|Na]; [rewrite upd_same in Ha; inversion Ha; subst ga; destruct Hin|]. rewrite upd_other in Ha by exact Na.
        destruct (Nat.eq_dec b i) as [->|Nb]; [rewrite upd_same in Hb; inversion Hb; subst gb; destruct Hs|]. rewrite upd_other in Hb by exact Nb.
        exact (wi_pend w W a b ga gb pb r Hab Ha Hb Hin Hr s Hs).
    + intros k gk Hne Hk. rewrite upd_other by exact Hne. auto.
Qed.

(* ---- histories ---- *)
Fixpoint wrun (w : world) (ops : list wop) : option world :=
  match ops with
  | [] => Some w
  | op :: r => match wstep w op with Some w1 => wrun w1 r | None => None end
  end.

Theorem wrun_independent ops : forall w w', WInv w -> wrun w ops = Some w' ->
  WInv w' /\
  forall j gj, (forall op, In op ops -> ~ targets op j) -> wo w j = Some gj ->
               wo w' j = Some gj /\ all_bytes (wh w') gj = all_bytes (wh w) gj.
Proof.
  induction ops as [|op ops IH]; intros w w' W E; cbn [wrun] in E.
  - inversion E; subst w'. split; [exact W|]. auto.
  - destruct (wstep w op) as [w1|] eqn:ES; [|discriminate].
    destruct (wstep_independent w op w1 W ES) as (W1 & H1). destruct (IH w1 w' W1 E) as (W' & H').
    split; [exact W'|]. intros j gj Hnt Hj.
    destruct (H1 j gj (Hnt op (or_introl eq_refl)) Hj) as (Hj1 & B1).
    destruct (H' j gj (fun o Ho => Hnt o (or_intror Ho)) Hj1) as (Hj' & B'). split; [exact Hj'|congruence].
Qed.

(* C20: a hole-free clone holds the bytes the original held at that moment, and afterwards whatever is done to the
   original (or to any other object) leaves the clone's bytes unchanged, and whatever is done to the clone leaves the
   original's unchanged *)
Theorem clone_snapshot_independent w i j g w1 ops w' :
  WInv w -> wo w i = Some g -> wstep w (WClone i j) = Some w1 ->
  wo w1 j = Some (clone g) /\ all_bytes (wh w1) (clone g) = all_bytes (wh w) g /\ wo w1 i = Some g /\
  (wrun w1 ops = Some w' ->
   ((forall op, In op ops -> ~ targets op j) -> wo w' j = Some (clone g) /\ all_bytes (wh w') (clone g) = all_bytes (wh w) g) /\
   ((forall op, In op ops -> ~ targets op i) -> wo w' i = Some g /\ all_bytes (wh w') g = all_bytes (wh w) g)).
Proof.
  intros W Hi E. destruct (wstep_independent w (WClone i j) w1 W E) as (W1 & _).
  cbn [wstep] in E. rewrite Hi in E.
  destruct (Nat.eqb i j) eqn:Eij; [discriminate|]. apply Nat.eqb_neq in Eij.
  destruct (gbackrefs g); [|discriminate]. inversion E; subst w1. clear E. cbn [wh wo] in *.
  assert (Hj1 : upd (wo w) j (Some (clone g)) j = Some (clone g)) by apply upd_same.
  assert (Hi1 : upd (wo w) j (Some (clone g)) i = Some g) by (rewrite upd_other by exact Eij; exact Hi).
  split; [exact Hj1|]. split; [reflexivity|]. split; [exact Hi1|]. intros ER.
  destruct (wrun_independent ops _ w' W1 ER) as (_ & H'). cbn [wh wo] in H'. split.
  - intros Hnt. destruct (H' j (clone g) Hnt Hj1) as (A & B). split; [exact A|]. rewrite B. reflexivity.
  - intros Hnt. destruct (H' i g Hnt Hi1) as (A & B). split; [exact A|exact B].
Qed.

(* take() moves the whole state, pending placeholders included, and leaves an empty iovec behind *)
Theorem take_moves w i j g w1 : wo w i = Some g -> wstep w (WTake i j) = Some w1 ->
  wo w1 j = Some g /\ wo w1 i = Some empty_iov /\ wh w1 = wh w.
Proof.
  intros Hi E. cbn [wstep] in E. rewrite Hi in E. destruct (Nat.eqb i j) eqn:Eij; [discriminate|]. apply Nat.eqb_neq in Eij.
  inversion E; subst w1. cbn [wh wo]. rewrite upd_same, upd_other, upd_same by exact Eij. auto.
Qed.
