From Coq Require Import List NArith Lia Bool Arith Sorting.Sorted.
From WP Require Import iovec.Pipe iovec.PipeProofs iovec.PipeProofs2 iovec.PipeProofs3.
Import ListNotations.

(* ---- sizes ---- *)
Lemma abs_length s : length (abs s) = length (concat (slices s)).
Proof. unfold abs. apply map_length. Qed.
Theorem total_size_is_buffered s : Inv s -> total_size s = length (abs s).
Proof. intros I. unfold total_size. rewrite abs_length. pose proof (inv_size s I). lia. Qed.

(* ---- what is consumable is made of bytes only, and is a prefix of the buffer ---- *)
Lemma stable_count_le s : Inv s -> stable_count s <= length (slices s).
Proof. intros _. unfold stable_count. destruct (table s); lia. Qed.

Lemma stable_cells_bytes s : Inv s -> map abs_cell (concat (stable_slices s)) = map Byte (stable_bytes s).
Proof.
  intros I. unfold stable_bytes. rewrite map_map. apply map_ext_in. intros mb Hm.
  apply in_concat in Hm as (sl & Hsl & Hm). unfold stable_slices in Hsl.
  apply In_nth_error in Hsl as (i & Hi). apply In_nth_error in Hm as (j & Hj).
  apply nth_error_firstn_some in Hi as (Hik & Hi).
  pose proof (stable_unmarked s I i j Hik) as U. unfold mark_at in U. rewrite Hi, Hj in U. now apply abs_cell_unmarked.
Qed.
Theorem stable_is_prefix s : Inv s ->
  abs s = map Byte (stable_bytes s) ++ map abs_cell (concat (skipn (stable_count s) (slices s))).
Proof.
  intros I. rewrite <- stable_cells_bytes by exact I. unfold abs, stable_slices. rewrite <- map_app, <- concat_app, firstn_skipn. reflexivity.
Qed.

Lemma stable_cells_app a b : stable_cells (a ++ b) = stable_cells a ++ (if has_hole a then [] else stable_cells b).
Proof.
  induction a as [|c a IH]; cbn [app stable_cells has_hole existsb]; [reflexivity|]. destruct c as [x|id]; cbn [is_hole orb stable_cells app].
  - rewrite IH. reflexivity.
  - reflexivity.
Qed.
Lemma stable_cells_bytes_only bs : stable_cells (map Byte bs) = bs /\ has_hole (map Byte bs) = false.
Proof. induction bs as [|b t (IH1 & IH2)]; cbn; [auto|]. rewrite IH1. auto. Qed.

(* C04: no consumer-visible view includes a placeholder byte, nor any byte after the earliest one *)
Theorem stable_before_first_hole s : Inv s -> exists t, stable_cells (abs s) = stable_bytes s ++ t.
Proof.
  intros I. rewrite (stable_is_prefix s I), stable_cells_app. destruct (stable_cells_bytes_only (stable_bytes s)) as (-> & ->). eauto.
Qed.

(* C04: iovs / flatten / stable_consumer succeed exactly when no placeholder is pending *)
Lemma has_hole_false_iff buf : has_hole buf = false <-> forall c, In c buf -> is_hole c = false.
Proof.
  unfold has_hole. split.
  - intros H c Hc. destruct (is_hole c) eqn:E; [|reflexivity]. assert (existsb is_hole buf = true) by (apply existsb_exists; eauto). congruence.
  - intros H. destruct (existsb is_hole buf) eqn:E; [|reflexivity]. apply existsb_exists in E as (c & Hc & Hh). rewrite (H c Hc) in Hh. discriminate.
Qed.
Theorem iovs_ok_iff_no_hole s : Inv s -> (iovs_ok s = true <-> has_hole (abs s) = false).
Proof.
  intros I. unfold iovs_ok. destruct (table s) as [|b rest] eqn:T.
  - split; [intros _|reflexivity]. apply has_hole_false_iff. intros c Hc. unfold abs in Hc. apply in_map_iff in Hc as (mb & <- & Hm).
    apply in_concat in Hm as (sl & Hsl & Hm). apply In_nth_error in Hsl as (i & Hi). apply In_nth_error in Hm as (j & Hj).
    destruct (snd mb) as [id|] eqn:E; [|unfold abs_cell; now rewrite E].
    assert (M : mark_at s i j = Some id) by (unfold mark_at; rewrite Hi, Hj; exact E).
    apply (inv_marks s I) in M as (b & Hb & _). rewrite T in Hb. destruct Hb.
  - split; [discriminate|]. intros H. exfalso.
    destruct (inv_range s I b ltac:(rewrite T; now left)) as (Hc & sl & Hn & Hr & Hl).
    assert (M : mark_at s (br_idx b - consumed s) (br_begin b) = Some (br_id b)).
    { apply marks_of_entry; [exact I|rewrite T; now left|]. unfold covers. lia. }
    unfold mark_at in M. rewrite Hn in M. destruct (nth_error sl (br_begin b)) as [mb|] eqn:Hj; [|discriminate].
    assert (Hin : In (abs_cell mb) (abs s)).
    { unfold abs. apply in_map. apply in_concat. exists sl. split; [eapply nth_error_In; eauto|eapply nth_error_In; eauto]. }
    pose proof (proj1 (has_hole_false_iff (abs s)) H _ Hin) as Hh. unfold abs_cell in Hh. rewrite M in Hh. discriminate.
Qed.

(* C04: once every placeholder is backfilled, every buffered byte is consumable *)
Theorem all_filled_all_stable s : Inv s -> table s = [] -> abs s = map Byte (stable_bytes s).
Proof.
  intros I T. rewrite (stable_is_prefix s I) at 1. unfold stable_count. rewrite T, skipn_all. cbn. now rewrite app_nil_r.
Qed.

(* C04: a byte, once observable, never changes: producer steps only extend the hole-free prefix *)
Lemma stable_cells_fill id : forall buf src, exists t, stable_cells (fill_cells id src buf) = stable_cells buf ++ t.
Proof.
  induction buf as [|c buf IH]; intros src; cbn [fill_cells stable_cells]; [exists []; reflexivity|].
  destruct c as [b|i]; cbn [stable_cells].
  - destruct (IH src) as (t & ->). exists t. reflexivity.
  - eexists. reflexivity.
Qed.
Theorem producer_steps_extend_stable s o s' x : Inv s -> step s o = Some (s', x) ->
  match o with
  | OPush _ _ | ORegister _ _ | OBackfill _ _ => exists t, stable_cells (abs s') = stable_cells (abs s) ++ t
  | _ => True
  end.
Proof.
  intros I H. destruct o as [m bs|m p|id src|k|n|n|]; cbn [step] in H; try exact I0; auto.
  - inversion H; subst. rewrite push_refines, stable_cells_app. eauto.
  - destruct (register m p s) as [s1 idr] eqn:R. inversion H; subst. destruct p as [|b0 t].
    + cbn in R. inversion R; subst. exists []. now rewrite app_nil_r.
    + pose proof (register_refines m (b0 :: t) s ltac:(discriminate)) as (A & _). rewrite R in A. cbn [fst] in A.
      rewrite A, stable_cells_app. eauto.
  - destruct (backfill id src s) as [s1|] eqn:B; [|discriminate]. inversion H; subst.
    rewrite (backfill_refines s id src s' I B). apply stable_cells_fill.
Qed.

(* ---- advance_slices: whole leading slices, then an in-place trim of the front slice ---- *)
Definition trim (r : nat) (s : st) : st :=
  {| slices := match slices s with x :: t => skipn r x :: t | [] => [] end; consumed := consumed s; table := table s;
     logical := logical s; taken := taken s + r |}.

Lemma drop_bytes_decomp : forall sl c, (forall x, In x sl -> x <> []) -> c <= length (concat sl) ->
  let '(r, k) := drop_bytes c sl in
  exists rem, c = length (concat (firstn k sl)) + rem /\ k <= length sl /\
    ((rem = 0 /\ r = skipn k sl) \/ (exists x t, skipn k sl = x :: t /\ 0 < rem < length x /\ r = skipn rem x :: t)).
Proof.
  induction sl as [|x t IH]; intros c Hne Hc; cbn [drop_bytes].
  - exists 0. cbn in *. repeat split; auto; lia.
  - destruct c as [|c']; [exists 0; cbn; repeat split; auto; lia|]. set (c := S c') in *.
    destruct (length x <=? c) eqn:E.
    + apply Nat.leb_le in E. cbn [concat] in Hc. rewrite app_length in Hc.
      specialize (IH (c - length x) ltac:(intros y Hy; apply Hne; now right) ltac:(lia)).
      destruct (drop_bytes (c - length x) t) as [r k]. destruct IH as (rem & Hc' & Hk & Hr).
      exists rem. cbn [firstn concat skipn length]. rewrite app_length. split; [lia|]. split; [lia|exact Hr].
    + apply Nat.leb_gt in E. exists c. cbn [firstn concat skipn length]. split; [lia|]. split; [lia|]. right. exists x, t. repeat split; auto; lia.
Qed.

Lemma concat_firstn_mono {A} (sl : list (list A)) k1 k2 : k1 <= k2 -> length (concat (firstn k1 sl)) <= length (concat (firstn k2 sl)).
Proof.
  revert k1 k2. induction sl as [|x t IH]; intros k1 k2 H; [destruct k1, k2; cbn; lia|].
  destruct k1 as [|k1]; [cbn; lia|]. destruct k2 as [|k2]; [lia|]. cbn [firstn concat]. rewrite !app_length. specialize (IH k1 k2 ltac:(lia)). lia.
Qed.
Lemma concat_firstn_strict {A} (sl : list (list A)) k1 k2 : (forall x, In x sl -> x <> []) -> k1 < k2 <= length sl ->
  length (concat (firstn k1 sl)) < length (concat (firstn k2 sl)).
Proof.
  revert k1 k2. induction sl as [|x t IH]; intros k1 k2 Hne H; [cbn in H; lia|].
  destruct k2 as [|k2]; [lia|]. assert (Hx : x <> []) by (apply Hne; now left). destruct k1 as [|k1].
  - cbn [firstn concat]. rewrite app_length. destruct x; [congruence|cbn; lia].
  - cbn [firstn concat]. rewrite !app_length. specialize (IH k1 k2 ltac:(intros y Hy; apply Hne; now right) ltac:(cbn [length] in H; lia)). lia.
Qed.

Lemma firstn_concat_plus {A} (sl : list (list A)) k x t rem : skipn k sl = x :: t -> rem <= length x ->
  firstn (length (concat (firstn k sl)) + rem) (concat sl) = concat (firstn k sl) ++ firstn rem x.
Proof.
  intros E H. rewrite <- (firstn_skipn k sl) at 2. rewrite E, concat_app. cbn [concat].
  rewrite firstn_app, firstn_all2 by lia. replace (length (concat (firstn k sl)) + rem - length (concat (firstn k sl))) with rem by lia.
  f_equal. rewrite firstn_app. replace (rem - length x) with 0 by lia. cbn [firstn]. now rewrite app_nil_r.
Qed.
Lemma firstn_concat_exact {A} (sl : list (list A)) k : firstn (length (concat (firstn k sl))) (concat sl) = concat (firstn k sl).
Proof.
  rewrite <- (firstn_skipn k sl) at 2. rewrite concat_app, firstn_app, firstn_all, Nat.sub_diag. cbn [firstn]. now rewrite app_nil_r.
Qed.

Lemma stable_bytes_length s : length (stable_bytes s) = length (concat (firstn (stable_count s) (slices s))).
Proof. unfold stable_bytes, stable_slices. apply map_length. Qed.

(* consume of at most the stable count drops exactly that many slices *)
Lemma consume_exact k s : k <= stable_count s ->
  consume k s = ({| slices := skipn k (slices s); consumed := consumed s + k; table := table s; logical := logical s;
                    taken := taken s + length (concat (firstn k (slices s))) |}, k).
Proof. intros H. unfold consume. replace (Nat.min k (stable_count s)) with k by lia. reflexivity. Qed.

Lemma stable_count_consume k s : Inv s -> k <= stable_count s -> stable_count (fst (consume k s)) = stable_count s - k.
Proof.
  intros I H. rewrite consume_exact by exact H. cbn [fst]. unfold stable_count. cbn [table slices consumed]. rewrite skipn_length.
  destruct (table s) as [|b rest] eqn:T; [reflexivity|]. unfold stable_count in H. rewrite T in H.
  destruct (inv_range s I b ltac:(rewrite T; now left)) as (Hc & _).
  replace (br_idx b - (consumed s + k)) with (br_idx b - consumed s - k) by lia. now rewrite Nat.sub_min_distr_r.
Qed.

Theorem trim_spec r s x t : Inv s -> slices s = x :: t -> 0 < r < length x -> 1 <= stable_count s ->
  Inv (trim r s) /\ abs s = map Byte (map fst (firstn r x)) ++ abs (trim r s) /\ stable_count (trim r s) = stable_count s.
Proof.
  intros I Es Hr Hsc.
  assert (Hidx : forall b, In b (table s) -> consumed s + 1 <= br_idx b).
  { intros b Hb. unfold stable_count in Hsc. destruct (table s) as [|b0 rest] eqn:T; [destruct Hb|].
    assert (br_idx b0 <= br_idx b).
    { destruct Hb as [->|Hb]; [lia|]. pose proof (inv_sorted s I) as SS. rewrite T in SS. inversion SS as [|? ? _ HF]; subst. rewrite Forall_forall in HF. apply HF; exact Hb. }
    lia. }
  assert (Hm : forall i j, mark_at (trim r s) i j = match i with O => mark_at s 0 (r + j) | _ => mark_at s i j end).
  { intros i j. unfold mark_at, trim. cbn [slices]. rewrite Es. destruct i; cbn [nth_error]; [|reflexivity]. now rewrite nth_error_skipn'. }
  split; [|split].
  - constructor; unfold trim; cbn [slices consumed table logical taken]; fold (trim r s).
    + intros i j id. rewrite Hm. destruct i as [|i].
      * rewrite (stable_unmarked s I 0 (r + j) ltac:(lia)). split; [discriminate|]. intros (b & Hb & _ & (Hi & _)). unfold trim in Hi. cbn [consumed] in Hi. specialize (Hidx b Hb). lia.
      * rewrite (inv_marks s I). unfold covers, trim. cbn [consumed]. reflexivity.
    + intros b Hb. destruct (inv_range s I b Hb) as (Hc & sl & Hn & Hrg). specialize (Hidx b Hb). split; [exact Hc|].
      exists sl. rewrite Es in *. destruct (br_idx b - consumed s) as [|k] eqn:Ek; [lia|]. cbn [nth_error] in *. auto.
    + exact (inv_sorted s I).
    + exact (inv_ids s I).
    + exact (inv_ids_nodup s I).
    + rewrite Es. intros y [<-|Hy].
      * intros E0. apply (f_equal (@length _)) in E0. rewrite skipn_length in E0. cbn in E0. lia.
      * apply (inv_nonempty s I). rewrite Es. now right.
    + pose proof (inv_size s I) as Hs. rewrite Es in *. cbn [concat] in *. rewrite app_length in *. rewrite skipn_length. lia.
  - unfold abs, trim. cbn [slices]. rewrite Es. cbn [concat]. rewrite !map_app. rewrite app_assoc. f_equal.
    rewrite <- (firstn_skipn r x) at 1. rewrite map_app. f_equal.
    rewrite map_map. apply map_ext_in. intros mb Hmb. apply In_nth_error in Hmb as (j & Hj). apply nth_error_firstn_some in Hj as (Hjr & Hj).
    pose proof (stable_unmarked s I 0 j ltac:(lia)) as U. unfold mark_at in U. rewrite Es in U. cbn [nth_error] in U. unfold mbyte in *. rewrite Hj in U. now apply abs_cell_unmarked.
  - unfold stable_count, trim. cbn [table slices consumed]. rewrite Es. reflexivity.
Qed.

(* advance_slices removes exactly the first c consumable bytes, c = min(n, consumable) *)
Theorem advance_refines n s : Inv s ->
  let c := Nat.min n (length (stable_bytes s)) in
  snd (advance n s) = c /\ Inv (fst (advance n s)) /\ abs s = map Byte (firstn c (stable_bytes s)) ++ abs (fst (advance n s)).
Proof.
  intros I c. unfold advance. fold c.
  assert (Hc : c <= length (concat (slices s))).
  { unfold c. rewrite stable_bytes_length. pose proof (concat_firstn_mono (slices s) (stable_count s) (length (slices s)) (stable_count_le s I)). rewrite firstn_all in H. lia. }
  pose proof (drop_bytes_decomp (slices s) c (inv_nonempty s I) Hc) as D.
  destruct (drop_bytes c (slices s)) as [sl k]. destruct D as (rem & Ec & Hk & Hr). cbn [fst snd]. split; [reflexivity|].
  assert (Hcs : c <= length (concat (firstn (stable_count s) (slices s)))) by (unfold c; rewrite stable_bytes_length; lia).
  assert (Hks : k <= stable_count s /\ (0 < rem -> k < stable_count s)).
  { destruct (Nat.le_gt_cases k (stable_count s)) as [Hle|Hgt].
    - split; [exact Hle|]. intros Hrem. destruct (Nat.eq_dec k (stable_count s)) as [->|]; [lia|lia].
    - exfalso. pose proof (concat_firstn_strict (slices s) (stable_count s) k (inv_nonempty s I) ltac:(lia)). lia. }
  destruct Hks as (Hks & Hks').
  pose proof (consume_exact k s Hks) as CE. pose proof (consume_inv s k I) as CI. pose proof (consume_refines s k I) as (removed & CA & _ & CR).
  rewrite CE in CI, CA, CR. cbn [fst snd] in CI, CA, CR.
  set (s1 := {| slices := skipn k (slices s); consumed := consumed s + k; table := table s; logical := logical s;
                taken := taken s + length (concat (firstn k (slices s))) |}) in *.
  assert (Hstab : map Byte (firstn c (stable_bytes s)) = map abs_cell (firstn c (concat (slices s)))).
  { pose proof (stable_is_prefix s I) as P. unfold abs in P.
    assert (firstn c (map abs_cell (concat (slices s))) = firstn c (map Byte (stable_bytes s))).
    { rewrite P, firstn_app. rewrite map_length. replace (c - length (stable_bytes s)) with 0 by (unfold c; lia). cbn [firstn]. now rewrite app_nil_r. }
    rewrite <- !firstn_map. congruence. }
  destruct Hr as [(-> & ->)|(x & t & Esk & Hrem & ->)].
  - (* whole slices only *)
    assert (Es : {| slices := skipn k (slices s); consumed := consumed s + k; table := table s; logical := logical s; taken := taken s + c |} = s1)
      by (unfold s1; f_equal; lia).
    rewrite Es. split; [exact CI|]. rewrite Hstab, CA, CR. f_equal. f_equal.
    rewrite Ec, Nat.add_0_r. symmetry. apply firstn_concat_exact.
  - (* then the front slice is advanced in place *)
    assert (Hsc1 : 1 <= stable_count s1).
    { pose proof (stable_count_consume k s I Hks) as SC. rewrite CE in SC. cbn [fst] in SC. fold s1 in SC. specialize (Hks' ltac:(lia)). lia. }
    destruct (trim_spec rem s1 x t CI Esk Hrem Hsc1) as (TI & TA & _).
    assert (Es : {| slices := skipn rem x :: t; consumed := consumed s + k; table := table s; logical := logical s; taken := taken s + c |} = trim rem s1).
    { unfold trim, s1. cbn [slices consumed table logical taken]. rewrite Esk. f_equal. lia. }
    rewrite Es. split; [exact TI|]. rewrite Hstab, CA, CR, TA, app_assoc. f_equal.
    rewrite Ec, (firstn_concat_plus (slices s) k x t rem Esk ltac:(lia)), map_app. f_equal.
    rewrite map_map. apply map_ext_in. intros mb Hmb.
    (* these bytes are unmarked: they sit in a stable slice of s1 *)
    apply In_nth_error in Hmb as (j & Hj). apply nth_error_firstn_some in Hj as (_ & Hj).
    pose proof (stable_unmarked s1 CI 0 j Hsc1) as U. unfold mark_at in U. cbn [slices s1] in U. rewrite Esk in U. cbn [nth_error] in U. unfold mbyte in *. rewrite Hj in U.
    symmetry. now apply abs_cell_unmarked.
Qed.

Theorem read_refines n s : Inv s ->
  let c := Nat.min n (length (stable_bytes s)) in
  snd (read n s) = firstn c (stable_bytes s) /\ Inv (fst (read n s)) /\ abs s = map Byte (snd (read n s)) ++ abs (fst (read n s)).
Proof. intros I c. unfold read. fold c. cbn [fst snd]. destruct (advance_refines n s I) as (_ & A & B). auto. Qed.

Lemma Inv_empty : Inv empty_st.
Proof.
  constructor; cbn.
  - intros i j id. unfold mark_at. cbn. destruct i; cbn; split; try discriminate; intros (b & [] & _).
  - intros b [].
  - constructor.
  - intros b [].
  - constructor.
  - intros sl [].
  - reflexivity.
Qed.

(* ---- every history ---- *)
Theorem step_inv s o s' x : Inv s -> step s o = Some (s', x) -> Inv s'.
Proof.
  intros I H. destruct o as [m bs|m p|id src|k|n|n|]; cbn [step] in H.
  - inversion H; subst. now apply push_inv.
  - destruct (register m p s) as [s1 idr] eqn:R. inversion H; subst. pose proof (register_inv m p s I) as RI. now rewrite R in RI.
  - destruct (backfill id src s) as [s1|] eqn:B; [|discriminate]. inversion H; subst. eapply backfill_inv; eauto.
  - destruct (consume k s) as [s1 c] eqn:C. inversion H; subst. pose proof (consume_inv s k I) as CI. now rewrite C in CI.
  - destruct (advance n s) as [s1 c] eqn:A. inversion H; subst. destruct (advance_refines n s I) as (_ & AI & _). now rewrite A in AI.
  - destruct (read n s) as [s1 bs] eqn:R. inversion H; subst. destruct (read_refines n s I) as (_ & RI & _). now rewrite R in RI.
  - inversion H; subst. exact Inv_empty.
Qed.

Fixpoint run (s : st) (ops : list op) : option (st * list out) :=
  match ops with
  | [] => Some (s, [])
  | o :: r => match step s o with
              | None => None
              | Some (s', x) => match run s' r with Some (s'', xs) => Some (s'', x :: xs) | None => None end
              end
  end.
Theorem run_inv ops : forall s s' xs, Inv s -> run s ops = Some (s', xs) -> Inv s'.
Proof.
  induction ops as [|o r IH]; intros s s' xs I H; cbn [run] in H; [inversion H; subst; exact I|].
  destruct (step s o) as [[s1 x]|] eqn:S; [|discriminate]. destruct (run s1 r) as [[s2 ys]|] eqn:R; [|discriminate]. inversion H; subst.
  eapply IH; [eapply step_inv; eauto|exact R].
Qed.
