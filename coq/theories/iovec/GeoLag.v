(* C09 at slice level: how much buffered output is not consumable.  At cell level (hcobs/EncSinkProofs.v) the encoder keeps
   at most 2 + max(mi, ms) cells from its first pending header on.  An OwningIovec hands out whole slices only, so the
   bytes that precede the pending header inside the same slice are not consumable either; that excess is less than the
   length of that one slice, which, being an arena slice, fits in one arena chunk. *)
From Coq Require Import List NArith Bool Arith Lia.
From WP Require Import iovec.Geo iovec.GeoMem iovec.GeoProofs iovec.GeoRefine.
From WP Require Import iovec.Pipe iovec.PipeProofs iovec.PipeProofs2 iovec.PipeProofs3 iovec.PipeProofs4.
Import ListNotations.
Open Scope nat_scope.

Definition cell_lag (s : st) : nat := length (abs s) - length (stable_cells (abs s)).     (* cells from the first hole on *)
Definition slice_lag (s : st) : nat := length (abs s) - length (stable_bytes s).          (* cells not consumable *)

Lemma stable_cells_length l : length (stable_cells l) <= length l.
Proof. induction l as [|c l IH]; [cbn; lia|]. destruct c; cbn [stable_cells length]; lia. Qed.
Lemma has_hole_in l id : In (Hole id) l -> has_hole l = true.
Proof. intros H. unfold has_hole. apply existsb_exists. exists (Hole id). auto. Qed.

Theorem pipe_slice_lag s : Inv s ->
  match table s with
  | [] => slice_lag s = 0
  | _ => exists sl, nth_error (slices s) (stable_count s) = Some sl /\ slice_lag s < cell_lag s + length sl
  end.
Proof.
  intros I. unfold slice_lag, cell_lag. destruct (table s) as [|b0 rest] eqn:ET.
  - rewrite (all_filled_all_stable s I ET), map_length. lia.
  - assert (Hb0 : In b0 (table s)) by (rewrite ET; now left).
    destruct (inv_range s I b0 Hb0) as (Hc & sl & Hsl & Hlen & Hpos).
    assert (Hsc : stable_count s = br_idx b0 - consumed s).
    { unfold stable_count. rewrite ET. assert (br_idx b0 - consumed s < length (slices s)) by (apply nth_error_Some; congruence). lia. }
    exists sl. rewrite Hsc. split; [exact Hsl|].
    (* the slice holds a hole, so the hole-free prefix of the cells stops inside it *)
    assert (Hmark : mark_at s (br_idx b0 - consumed s) (br_begin b0) = Some (br_id b0)).
    { apply (inv_marks s I). exists b0. split; [exact Hb0|]. split; [reflexivity|]. unfold covers. lia. }
    unfold mark_at in Hmark. rewrite Hsl in Hmark.
    destruct (nth_error sl (br_begin b0)) as [mb|] eqn:Emb; [|discriminate].
    assert (Hhole : has_hole (map abs_cell sl) = true).
    { apply (has_hole_in _ (br_id b0)). apply in_map_iff. exists mb. split; [unfold abs_cell; now rewrite Hmark|eapply nth_error_In; eauto]. }
    pose proof (stable_is_prefix s I) as HP. rewrite Hsc in HP.
    destruct (nth_error_split' _ _ _ Hsl) as (l1 & l2 & El & Hl1).
    assert (Esk : skipn (br_idx b0 - consumed s) (slices s) = sl :: l2).
    { rewrite El, <- Hl1, skipn_app, skipn_all, Nat.sub_diag. reflexivity. }
    rewrite Esk in HP. cbn [concat] in HP. rewrite map_app in HP.
    assert (Hst : stable_cells (abs s) = stable_bytes s ++ stable_cells (map abs_cell sl)).
    { rewrite HP, stable_cells_app. destruct (stable_cells_bytes_only (stable_bytes s)) as (-> & ->).
      rewrite stable_cells_app, Hhole, app_nil_r. reflexivity. }
    assert (Hhl : length (stable_cells (map abs_cell sl)) < length sl).
    { (* a list with a hole has a strictly shorter hole-free prefix *)
      clear - Hhole. induction sl as [|m sl IH]; [discriminate|]. cbn [map has_hole existsb stable_cells length] in *.
      destruct (abs_cell m) eqn:Em; cbn [is_hole orb] in *; cbn [stable_cells length]; [specialize (IH Hhole); lia|lia]. }
    assert (A1 : length (abs s) = length (stable_bytes s) + length sl + length (concat l2)).
    { rewrite HP, !app_length, !map_length. lia. }
    assert (A2 : length (stable_cells (abs s)) = length (stable_bytes s) + length (stable_cells (map abs_cell sl))).
    { rewrite Hst, app_length. reflexivity. }
    lia.
Qed.

(* the same on the geometry-faithful model, through the refinement relation *)
Open Scope N_scope.
Theorem geo_slice_lag h g s : GInv h g -> R h g s -> Inv s ->
  match gbackrefs g with
  | [] => slice_lag s = 0%nat
  | _ => exists t, nth_error (gslices g) (stable_count s) = Some t /\
                   (slice_lag s < cell_lag s + N.to_nat (sl_len t))%nat /\
                   (forall c off len, t = SArena c off len -> len <= nlen (cdata (chunk_at h c)))
  end.
Proof.
  intros I Rs PI. pose proof (pipe_slice_lag s PI) as H. rewrite (r_table _ _ _ Rs) in H.
  destruct (gbackrefs g) as [|b0 rest]; [exact H|]. cbn [map] in H. destruct H as (sl & Hsl & Hlag).
  assert (Hex : exists t, nth_error (gslices g) (stable_count s) = Some t).
  { destruct (nth_error (gslices g) (stable_count s)) as [t|] eqn:E; [eauto|]. apply nth_error_None in E.
    assert (Hn : nth_error (slices s) (stable_count s) <> None) by congruence. apply nth_error_Some in Hn.
    rewrite (R_lengths _ _ _ Rs) in Hn. lia. }
  destruct Hex as (t & Ht). exists t. split; [exact Ht|].
  destruct (nth_error_map_eq _ _ _ _ _ t (r_bytes _ _ _ Rs) Ht) as (x & Hx & Hfx).
  assert (Hxs : Some x = Some sl) by (rewrite <- Hx; exact Hsl). inversion Hxs; subst x.
  assert (Ok : sl_ok h t).
  { pose proof (gi_slices h g I) as F. rewrite Forall_forall in F. apply F. eapply nth_error_In; eauto. }
  pose proof (sl_len_bytes h t Ok) as HL. unfold nlen in HL.
  pose proof (f_equal (@length _) Hfx) as HF. rewrite map_length in HF.
  assert (Hlen : length sl = N.to_nat (sl_len t)) by (transitivity (length (sl_bytes h t)); [exact HF|lia]).
  split; [rewrite <- Hlen; exact Hlag|].
  intros c off len ->. cbn [sl_ok] in Ok. lia.
Qed.
