(* The geometry-faithful model (iovec/Geo.v) follows the ownership protocol of iovec/Anchors.v: projecting
   a Geo state to (chunk of every slice, anchors with their counts), every Geo operation is a sequence of
   Anchors operations.  Hence the ownership invariant of C05 (every arena slice is protected by an anchor
   that holds its chunk and cannot be popped before the slice is consumed) holds in every state the
   geometry-faithful model reaches, with the chunks, counts and merge decisions computed, not given. *)
From Coq Require Import List NArith Bool Arith Lia.
From WP Require Import iovec.Arena iovec.Geo iovec.GeoMem iovec.GeoProofs iovec.GeoRefine iovec.GeoHistory.
From WP Require iovec.Anchors.
Import ListNotations.
Open Scope N_scope.

Definition panchor (a : ganchor) : Anchors.anchor := {| Anchors.acount := N.to_nat (acount a); Anchors.achunk := achunk a |}.
Definition proj (g : giov) : Anchors.gd :=
  {| Anchors.slices := map sl_chunk (gslices g); Anchors.anchors := map panchor (ganchors g) |}.

Definition arun (aops : list Anchors.op) (a : Anchors.gd) : Anchors.gd := fold_left (fun g o => Anchors.apply_op o g) aops a.
Definition steps_to (a b : Anchors.gd) : Prop := exists aops, b = arun aops a.
Lemma steps_refl a : steps_to a a. Proof. exists []. reflexivity. Qed.
Lemma steps_trans a b c : steps_to a b -> steps_to b c -> steps_to a c.
Proof. intros (l1 & ->) (l2 & ->). exists (l1 ++ l2). unfold arun. now rewrite fold_left_app. Qed.
Lemma steps_one o a : steps_to a (Anchors.apply_op o a). Proof. exists [o]. reflexivity. Qed.
Lemma steps_inv a b : Anchors.Inv a -> steps_to a b -> Anchors.Inv b.
Proof.
  intros I (l & ->). revert a I. induction l as [|o l IH]; intros a I; [exact I|]. cbn. apply IH. now apply Anchors.apply_op_inv.
Qed.

Lemma removelast_rev {A} (l : list A) a r : rev l = a :: r -> removelast l = rev r.
Proof.
  intros H. assert (E : l = rev r ++ [a]) by (rewrite <- (rev_involutive l), H; reflexivity).
  rewrite E. apply removelast_last.
Qed.
Lemma rev_map_cons {A B} (f : A -> B) l a r : rev l = a :: r -> rev (map f l) = f a :: map f r.
Proof. intros H. rewrite <- map_rev, H. reflexivity. Qed.

(* ---- optimize is the identity or a collapse ---- *)
Lemma proj_optimize g g' : optimize g = Some g' -> proj g' = proj g \/ proj g' = Anchors.collapse (proj g).
Proof.
  unfold optimize. intros H.
  destruct (rev (gslices g)) as [|r [|l front]] eqn:ER; try (inversion H; subst g'; now left).
  unfold back in H. destruct (rev (ganchors g)) as [|a ra] eqn:EA; [discriminate|].
  destruct (acount a =? 0) eqn:E0; [discriminate|]. apply N.eqb_neq in E0.
  destruct (acount a <? 2) eqn:E2; [inversion H; subst g'; now left|]. apply N.ltb_ge in E2.
  destruct (try_join (gcache_ g) l r) as [m|] eqn:EJ; [|inversion H; subst g'; now left].
  right. inversion H; subst g'. clear H.
  destruct (try_join_spec _ _ _ _ EJ) as (c & lo & ll & rl & -> & -> & ->).
  unfold proj, Anchors.collapse. cbn [gslices ganchors Anchors.slices Anchors.anchors].
  rewrite (rev_map_cons panchor _ _ _ EA). cbn [panchor Anchors.acount Anchors.achunk].
  replace (2 <=? N.to_nat (acount a))%nat with true by (symmetry; apply Nat.leb_le; lia).
  f_equal.
  - rewrite (rev_two _ _ _ _ ER), !map_app. cbn [map sl_chunk].
    change [Some c; Some c] with ([Some c] ++ [Some c]). rewrite app_assoc, removelast_last. reflexivity.
  - unfold set_back. rewrite (removelast_rev _ _ _ EA), map_app, map_rev. cbn [map]. unfold panchor at 2. cbn [acount achunk].
    repeat f_equal. lia.
Qed.
Lemma steps_optimize g g' : optimize g = Some g' -> steps_to (proj g) (proj g').
Proof. intros H. destruct (proj_optimize _ _ H) as [-> | ->]; [apply steps_refl|apply (steps_one Anchors.OpCollapse)]. Qed.

(* ---- push_copy: a copy joins the back anchor when it holds the same chunk, else opens a new one ---- *)
Lemma push_copy_inv2 h src g h' g' : src <> [] -> push_copy h src g = Some (h', g') ->
  exists k1 snew old' fresh,
    arena_copy h (gcache_ g) src (back (ganchors g)) = Some (h', k1, snew, old', fresh) /\
    optimize {| gslices := gslices g ++ [snew];
                ganchors := (let a1 := match old' with Some a => set_back (ganchors g) a | None => ganchors g end in
                             match fresh with Some a => a1 ++ [a] | None => a1 end);
                glogical := glogical g + nlen src;
                gcsize := gcsize g; gcslices := gcslices g; gcache_ := Some k1; gbackrefs := gbackrefs g |} = Some g'.
Proof.
  intros Hne E. unfold push_copy in E. destruct src as [|b0 src0]; [congruence|].
  destruct (arena_copy h (gcache_ g) (b0 :: src0) (back (ganchors g))) as [[[[[h1 k1] snew] old'] fresh]|] eqn:EA; [|discriminate].
  exists k1, snew, old', fresh.
  destruct fresh as [fa|].
  - match type of E with context [optimize ?G] => destruct (optimize G) as [gx|] eqn:EO; [|discriminate] end.
    inversion E; subst h1 gx. split; [reflexivity|first [exact EO|reflexivity]].
  - destruct (match old' with Some a => set_back (ganchors g) a | None => ganchors g end) as [|a0 al] eqn:EAn; [discriminate|].
    match type of E with context [optimize ?G] => destruct (optimize G) as [gx|] eqn:EO; [|discriminate] end.
    inversion E; subst h1 gx. split; [reflexivity|]. cbn zeta. first [exact EO|reflexivity|rewrite EAn; first [exact EO|reflexivity]].
Qed.

Lemma set_back_same {A} (l : list A) a : back l = Some a -> set_back l a = l.
Proof. intros H. destruct (back_snoc _ _ H) as (front & ->). unfold set_back. now rewrite removelast_last. Qed.
Lemma back_rev {A} (l : list A) : back l = match rev l with x :: _ => Some x | [] => None end.
Proof. reflexivity. Qed.

Lemma proj_push_copy h src g h' g' : GInv h g -> src <> [] -> push_copy h src g = Some (h', g') -> steps_to (proj g) (proj g').
Proof.
  intros I Hne E. destruct (push_copy_inv2 _ _ _ _ _ Hne E) as (k1 & snew & old' & fresh & EA & EO).
  destruct (arena_copy_spec _ _ _ _ _ _ _ _ _ (gi_cache h g I) (gi_heap h g I) EA)
    as (_ & _ & _ & _ & _ & _ & _ & _ & Enew & _ & EM & _).
  eapply steps_trans; [|eapply steps_optimize; exact EO].
  match goal with |- steps_to _ (proj ?G) => set (g1 := G) end.
  assert (Ep : proj g1 = Anchors.push_owned (kchunk k1) (proj g)); [|rewrite Ep; apply (steps_one (Anchors.OpCopy (kchunk k1)))].
  unfold proj, g1. cbn [gslices ganchors]. rewrite map_app, Enew. cbn [map sl_chunk].
  unfold Anchors.push_owned. cbn [Anchors.slices Anchors.anchors].
  unfold merge_ref_or_create in EM. rewrite back_rev in EM.
  destruct (rev (ganchors g)) as [|a ra] eqn:ER.
  - inversion EM; subst old' fresh. assert (ganchors g = []) by (rewrite <- (rev_involutive (ganchors g)), ER; reflexivity).
    rewrite H. reflexivity.
  - rewrite (rev_map_cons panchor _ _ _ ER). cbn [panchor Anchors.achunk Anchors.acount].
    unfold same_chunk in EM. destruct (achunk a) as [ca|] eqn:Eca.
    + destruct (Nat.eqb ca (kchunk k1)) eqn:Ec; inversion EM; subst old' fresh.
      * f_equal. unfold set_back. rewrite (removelast_rev _ _ _ ER), map_app, map_rev. cbn [map]. unfold panchor at 2. cbn [acount achunk].
        rewrite ?Eca. repeat f_equal. lia.
      * rewrite set_back_same by (rewrite back_rev, ER; reflexivity). rewrite map_app. reflexivity.
    + inversion EM; subst old' fresh.
      rewrite set_back_same by (rewrite back_rev, ER; reflexivity). rewrite map_app. reflexivity.
Qed.

(* ---- push_borrowed: counted by the back anchor (a default one if there is none) ---- *)
Lemma proj_push_borrowed snew g g' : 0 < sl_len snew -> push_borrowed snew g = Some g' ->
  steps_to (Anchors.push_borrowed (sl_chunk snew) (proj g)) (proj g').
Proof.
  intros Hpos E. unfold push_borrowed in E. destruct (sl_len snew =? 0) eqn:E0; [apply N.eqb_eq in E0; lia|].
  match type of E with context [back ?L] => destruct (back L) as [a|] eqn:EB; [|discriminate] end.
  eapply steps_trans; [|eapply steps_optimize; exact E].
  match goal with |- steps_to _ (proj ?G) => set (g1 := G) end.
  assert (Ep : proj g1 = Anchors.push_borrowed (sl_chunk snew) (proj g)); [|rewrite Ep; apply steps_refl].
  unfold proj, g1. cbn [gslices ganchors]. rewrite map_app. cbn [map].
  unfold Anchors.push_borrowed. cbn [Anchors.slices Anchors.anchors].
  destruct (ganchors g) as [|a0 al] eqn:EG.
  - cbn in EB. inversion EB; subst a. cbn. reflexivity.
  - rewrite <- EG in *. rewrite back_rev in EB. destruct (rev (ganchors g)) as [|x ra] eqn:ER; [discriminate|]. inversion EB; subst x.
    rewrite (rev_map_cons panchor _ _ _ ER). f_equal.
    unfold set_back. rewrite (removelast_rev _ _ _ ER), map_app, map_rev. cbn [map]. unfold panchor at 2. cbn [acount achunk panchor Anchors.acount Anchors.achunk].
    repeat f_equal. lia.
Qed.

(* ---- consume: the anchor bookkeeping ---- *)
Lemma drop_zero_drain0 l : map panchor (drop_zero l) = Anchors.drain 0 (map panchor l).
Proof.
  induction l as [|a l IH]; [reflexivity|]. cbn [drop_zero map Anchors.drain panchor Anchors.acount].
  destruct (acount a =? 0) eqn:E.
  - apply N.eqb_eq in E. rewrite E. cbn. exact IH.
  - apply N.eqb_neq in E. replace (N.to_nat (acount a) <=? 0)%nat with false by (symmetry; apply Nat.leb_gt; lia).
    cbn [map]. f_equal. unfold panchor. cbn [Anchors.achunk]. f_equal. lia.
Qed.
Lemma drain_related : forall l n l', drain n l = Some l' ->
  map panchor (drop_zero l') = Anchors.drain (N.to_nat n) (map panchor l).
Proof.
  induction l as [|a l IH]; intros n l' E; cbn [drain] in E.
  - destruct (n =? 0); [|discriminate]. inversion E. reflexivity.
  - destruct (n =? 0) eqn:E0.
    + apply N.eqb_eq in E0. subst n. inversion E; subst l'. apply drop_zero_drain0.
    + apply N.eqb_neq in E0. cbn [map Anchors.drain panchor Anchors.acount].
      destruct (acount a - N.min (acount a) n =? 0) eqn:E1.
      * apply N.eqb_eq in E1. replace (N.to_nat (acount a) <=? N.to_nat n)%nat with true by (symmetry; apply Nat.leb_le; lia).
        rewrite (IH _ _ E). f_equal. lia.
      * apply N.eqb_neq in E1. replace (N.to_nat (acount a) <=? N.to_nat n)%nat with false by (symmetry; apply Nat.leb_gt; lia).
        inversion E; subst l'. cbn [drop_zero acount].
        replace (acount a - N.min (acount a) n =? 0) with false by (symmetry; apply N.eqb_neq; exact E1).
        cbn [map]. f_equal. unfold panchor. cbn [acount achunk Anchors.achunk]. f_equal. lia.
Qed.

Lemma proj_gd_consume g c g' k : gd_consume c g = Some (g', k) -> steps_to (proj g) (proj g').
Proof.
  intros E. unfold gd_consume in E.
  destruct (drain (N.min c (nlen (gslices g))) (ganchors g)) as [an|] eqn:ED; [|discriminate].
  match type of E with (if ?c then _ else _) = _ => destruct c; [discriminate|] end.
  inversion E; subst g' k. clear E.
  assert (Ep : proj {| gslices := nskipn (N.min c (nlen (gslices g))) (gslices g); ganchors := drop_zero an; glogical := glogical g;
                       gcsize := gcsize g + fold_len (nfirstn (N.min c (nlen (gslices g))) (gslices g));
                       gcslices := gcslices g + N.min c (nlen (gslices g)); gcache_ := gcache_ g; gbackrefs := gbackrefs g |}
               = Anchors.apply_op (Anchors.OpConsume (N.to_nat c)) (proj g)); [|rewrite Ep; apply steps_one].
  unfold proj. cbn [gslices ganchors Anchors.apply_op Anchors.consume Anchors.slices Anchors.anchors].
  rewrite map_length. replace (Nat.min (N.to_nat c) (length (gslices g))) with (N.to_nat (N.min c (nlen (gslices g)))) by (unfold nlen; lia).
  unfold Anchors.consume. cbn [Anchors.slices Anchors.anchors]. f_equal.
  - unfold nskipn. now rewrite skipn_map.
  - apply drain_related. exact ED.
Qed.

Lemma sl_chunk_advance s n : sl_chunk (sl_advance s n) = sl_chunk s.
Proof. destruct s; reflexivity. Qed.

Lemma proj_cbb : forall fuel c g g', consume_by_bytes fuel c g = Some g' -> steps_to (proj g) (proj g').
Proof.
  induction fuel as [|fuel IH]; intros c g g' E; cbn [consume_by_bytes] in E.
  - destruct (c =? 0); [|discriminate]. inversion E. apply steps_refl.
  - destruct (c =? 0); [inversion E; apply steps_refl|].
    destruct (gslices g) as [|s0 t] eqn:Esl; [discriminate|].
    destruct (N.min c (sl_len s0) =? sl_len s0).
    + destruct (gd_consume 1 g) as [[g1 k1]|] eqn:EG; [|discriminate].
      eapply steps_trans; [eapply proj_gd_consume; exact EG|eapply IH; exact E].
    + inversion E; subst g'. unfold proj. cbn [gslices ganchors]. rewrite Esl. cbn [map]. rewrite sl_chunk_advance. apply steps_refl.
Qed.

Lemma proj_advance n g g' k : advance_slices n g = Some (g', k) -> steps_to (proj g) (proj g').
Proof.
  unfold advance_slices. destruct (stable_slices g) as [st|]; [|discriminate].
  match goal with |- context [consume_by_bytes ?f ?c g] => destruct (consume_by_bytes f c g) as [gx|] eqn:EC; [|discriminate] end.
  intros E. inversion E; subst gx. eapply proj_cbb; exact EC.
Qed.

Lemma proj_read_loop h : forall fuel n g acc g' out, read_loop fuel h n g acc = Some (g', out) -> steps_to (proj g) (proj g').
Proof.
  induction fuel as [|fuel IH]; intros n g acc g' out E; cbn [read_loop] in E.
  - destruct (n =? 0); inversion E; apply steps_refl.
  - destruct (n =? 0); [inversion E; apply steps_refl|].
    destruct (stable_slices g) as [[|s0 rest]|]; [inversion E; apply steps_refl| |discriminate].
    destruct (advance_slices (N.min (sl_len s0) n) g) as [[g1 k1]|] eqn:EA; [|discriminate].
    eapply steps_trans; [eapply proj_advance; exact EA|eapply IH; exact E].
Qed.

(* ---- the remaining operations ---- *)
Lemma proj_same g g' : map sl_chunk (gslices g') = map sl_chunk (gslices g) -> ganchors g' = ganchors g -> proj g' = proj g.
Proof. intros H1 H2. unfold proj. now rewrite H1, H2. Qed.

Lemma proj_push h s g h' g' : GInv h g -> sl_ok h s -> push h s g = Some (h', g') ->
  steps_to (proj g) (proj g') \/ steps_to (Anchors.push_borrowed (sl_chunk s) (proj g)) (proj g').
Proof.
  intros I Hok E. unfold push in E.
  pose proof (sl_len_pos h s Hok) as Hpos. pose proof (sl_len_bytes h s Hok) as Hlen.
  match type of E with (if ?c then _ else _) = _ => destruct c end.
  - left. eapply proj_push_copy; eauto. intros Hnil. rewrite Hnil, nlen_nil in Hlen. lia.
  - right. destruct (push_borrowed s g) as [gx|] eqn:EB; [|discriminate]. inversion E; subst h' gx.
    eapply proj_push_borrowed; eauto.
Qed.

Lemma proj_register h p g h' g' b : GInv h g -> register_patch h p g = Some (h', g', b) -> steps_to (proj g) (proj g').
Proof.
  intros I E. unfold register_patch in E. destruct p as [|p0 pr] eqn:Ep; [inversion E; apply steps_refl|]. rewrite <- Ep in *.
  destruct (push_copy h p g) as [[h1 g1]|] eqn:EP; [|discriminate].
  assert (S1 : steps_to (proj g) (proj g1)) by (eapply proj_push_copy; eauto; rewrite Ep; discriminate).
  destruct (back (gslices g1)) as [l|]; [|discriminate]. destruct (glogical g1 =? 0); [discriminate|].
  assert (Eg : proj g' = proj g1).
  { destruct (back (gbackrefs g1)) as [pp|].
    - match type of E with (if ?c then _ else _) = _ => destruct c; [discriminate|] end. inversion E; subst g'. reflexivity.
    - inversion E; subst g'. reflexivity. }
  now rewrite Eg.
Qed.

Lemma map_chunk_gupdate i f l : (forall x, sl_chunk (f x) = sl_chunk x) -> map sl_chunk (Geo.update_nth i f l) = map sl_chunk l.
Proof.
  intros H. revert i. induction l as [|x l IH]; intros i; [destruct i; reflexivity|].
  destruct i; cbn [Geo.update_nth map]; [now rewrite H|now rewrite IH].
Qed.

Lemma proj_backfill h b src g h' g' : backfill h b src g = Some (h', g') -> proj g' = proj g.
Proof.
  unfold backfill. destruct b as [b|]; [|destruct src; [intros E; now inversion E|discriminate]].
  destruct (negb (blen b =? nlen src)); [discriminate|].
  destruct (find _ (gbackrefs g)) as [p|]; [|discriminate].
  destruct (negb (backref_eqb p b)); [discriminate|].
  destruct (bidx b <? gcslices g); [discriminate|].
  destruct (nth_error (gslices g) (N.to_nat (bidx b - gcslices g))) as [target|] eqn:ET; [|discriminate].
  destruct (sl_len target <? bbegin b + nlen src); [discriminate|].
  destruct target as [c off len|bs]; intros E; inversion E; subst g'; apply proj_same; cbn [gslices ganchors]; auto.
  (* caller memory written by value: the slice still points to no chunk *)
  pose proof (f_equal (map sl_chunk) (eq_refl (gslices g))) as _.
  clear E. revert ET. generalize (N.to_nat (bidx b - gcslices g)) as i. generalize (gslices g) as l.
  induction l as [|x l IH]; intros i ET; [destruct i; reflexivity|].
  destruct i; cbn [Geo.update_nth map nth_error] in *; [inversion ET; subst x; reflexivity|]. f_equal. now apply IH.
Qed.

Lemma proj_anchored_n h bs count g h' g' : GInv h g -> nlen bs <= count -> anchored_n h bs count g = Some (h', g') -> steps_to (proj g) (proj g').
Proof.
  intros I Hcount E. unfold anchored_n in E.
  destruct (N.eq_dec count 0) as [Hz|Hnz].
  { subst count. assert (bs = []) by (apply nlen_zero; lia). subst bs. cbn in E. inversion E; subst h' g'.
    assert (Ep : proj (push_anchor {| acount := 0; achunk := None |} (set_cache (gcache_ g) g)) = Anchors.apply_op Anchors.OpIdle (proj g)).
    { unfold proj. cbn [push_anchor set_cache gslices ganchors Anchors.apply_op Anchors.slices Anchors.anchors achunk]. now rewrite map_app. }
    rewrite Ep. apply steps_one. }
  assert (Hcpos : 0 < count) by lia.
  destruct (arena_read_n h (gcache_ g) bs count) as [[[[hp kp'] sp] ap]|] eqn:EA; [|discriminate].
  destruct (arena_read_n_spec _ _ _ _ _ _ _ _ (gi_cache h g I) (gi_heap h g I) Hcpos Hcount EA)
    as (kp & -> & Hk' & Hh' & _ & Hframe & Hbytes & Enew & Hle & Hok & Hend & Ea & _).
  destruct bs as [|b0 bs0] eqn:Ebs.
  - rewrite Enew in E. cbn in E. inversion E; subst h' g'. subst ap.
    assert (Ep : proj (push_anchor {| acount := 1; achunk := Some (kchunk kp) |} (set_cache (Some kp) g)) = Anchors.apply_op (Anchors.OpAnchored (kchunk kp) []) (proj g)).
    { unfold proj, Anchors.push_anchor. cbn [push_anchor set_cache gslices ganchors Anchors.apply_op fold_left Anchors.slices Anchors.anchors achunk]. now rewrite map_app. }
    rewrite Ep. apply steps_one.
  - rewrite <- Ebs in *. assert (Hne : bs <> []) by (rewrite Ebs; discriminate). specialize (Hok Hne). subst ap.
    pose proof (sl_len_pos hp sp Hok) as Hpos.
    destruct (sl_len sp =? 0) eqn:E0; [apply N.eqb_eq in E0; lia|].
    destruct (push hp sp (set_cache (Some kp) g)) as [[h2 g2]|] eqn:EP; [|discriminate].
    inversion E; subst h' g'. clear E.
    (* the Rocq-side operation: OpAnchored c [SubCopy c1; SubCollapse?] or [SubBorrow; SubCollapse?] *)
    assert (I1 : GInv hp (set_cache (Some kp) g)).
    { constructor; cbn [set_cache gslices gcache_]; [exact Hh'|exact Hk'| |apply (gi_sorted h g I)].
      pose proof (gi_slices h g I) as F. rewrite Forall_forall in *. intros s0 Hin. apply Hframe. now apply F. }
    assert (Ep0 : proj (set_cache (Some kp) g) = proj g) by reflexivity.
    assert (Hsub : exists subs, proj g2 = fold_left (Anchors.apply_sub (kchunk kp)) subs (proj g)).
    { unfold push in EP.
      match type of EP with (if ?c then _ else _) = _ => destruct c end.
      - (* copied *)
        rewrite Hbytes in EP.
        destruct (push_copy_inv2 _ _ _ _ _ Hne EP) as (k1 & snew & old' & fresh & EA2 & EO).
        destruct (arena_copy_spec _ _ _ _ _ _ _ _ _ (gi_cache _ _ I1) (gi_heap _ _ I1) EA2)
          as (_ & _ & _ & _ & _ & _ & _ & _ & Enew2 & _ & EM & _).
        match type of EO with optimize ?G = _ => set (g1 := G) in * end.
        assert (Ep1 : proj g1 = Anchors.push_owned (kchunk k1) (proj g)).
        { unfold proj, g1. cbn [gslices ganchors set_cache]. rewrite map_app, Enew2. cbn [map sl_chunk].
          unfold Anchors.push_owned. cbn [Anchors.slices Anchors.anchors].
          unfold merge_ref_or_create in EM. cbn [set_cache ganchors] in EM. rewrite back_rev in EM.
          destruct (rev (ganchors g)) as [|a ra] eqn:ER.
          - inversion EM; subst old' fresh. assert (ganchors g = []) by (rewrite <- (rev_involutive (ganchors g)), ER; reflexivity).
            rewrite H. reflexivity.
          - rewrite (rev_map_cons panchor _ _ _ ER). cbn [panchor Anchors.achunk Anchors.acount].
            unfold same_chunk in EM. destruct (achunk a) as [ca|] eqn:Eca.
            + destruct (Nat.eqb ca (kchunk k1)) eqn:Ec; inversion EM; subst old' fresh.
              * f_equal. unfold set_back. rewrite (removelast_rev _ _ _ ER), map_app, map_rev. cbn [map]. unfold panchor at 2. cbn [acount achunk].
                rewrite ?Eca. repeat f_equal. lia.
              * rewrite set_back_same by (rewrite back_rev, ER; reflexivity). rewrite map_app. reflexivity.
            + inversion EM; subst old' fresh.
              rewrite set_back_same by (rewrite back_rev, ER; reflexivity). rewrite map_app. reflexivity. }
        destruct (proj_optimize _ _ EO) as [Eq|Eq]; rewrite Eq, Ep1.
        + exists [Anchors.SubCopy (kchunk k1)]. reflexivity.
        + exists [Anchors.SubCopy (kchunk k1); Anchors.SubCollapse]. reflexivity.
      - (* borrowed: the slice points into the anchored buffer *)
        destruct (push_borrowed sp (set_cache (Some kp) g)) as [gx|] eqn:EB; [|discriminate]. inversion EP; subst h2 gx.
        unfold push_borrowed in EB. rewrite E0 in EB.
        match type of EB with context [back ?L] => destruct (back L) as [a|] eqn:EBk; [|discriminate] end.
        match type of EB with optimize ?G = _ => set (g1 := G) in * end.
        assert (Ep1 : proj g1 = Anchors.push_borrowed (Some (kchunk kp)) (proj g)).
        { unfold proj, g1. cbn [gslices ganchors set_cache]. rewrite map_app, Enew. cbn [map sl_chunk].
          unfold Anchors.push_borrowed. cbn [Anchors.slices Anchors.anchors]. cbn [set_cache ganchors] in EBk.
          destruct (ganchors g) as [|a0 al] eqn:EG.
          - cbn in EBk. inversion EBk; subst a. cbn. reflexivity.
          - rewrite <- EG in *. rewrite back_rev in EBk. destruct (rev (ganchors g)) as [|x ra] eqn:ER; [discriminate|]. inversion EBk; subst x.
            rewrite (rev_map_cons panchor _ _ _ ER). f_equal.
            unfold set_back. rewrite (removelast_rev _ _ _ ER), map_app, map_rev. cbn [map]. unfold panchor at 2. cbn [acount achunk panchor Anchors.acount Anchors.achunk].
            repeat f_equal. lia. }
        destruct (proj_optimize _ _ EB) as [Eq|Eq]; rewrite Eq, Ep1.
        + exists [Anchors.SubBorrow]. reflexivity.
        + exists [Anchors.SubBorrow; Anchors.SubCollapse]. reflexivity. }
    destruct Hsub as (subs & Hsub).
    assert (Ef : proj (push_anchor {| acount := 1; achunk := Some (kchunk kp) |} g2) = Anchors.apply_op (Anchors.OpAnchored (kchunk kp) subs) (proj g)).
    { cbn [Anchors.apply_op]. rewrite <- Hsub. unfold proj, Anchors.push_anchor. cbn [push_anchor gslices ganchors Anchors.slices Anchors.anchors achunk].
      rewrite map_app. reflexivity. }
    rewrite Ef. apply steps_one.
Qed.
Lemma proj_anchored h bs g h' g' : GInv h g -> anchored h bs g = Some (h', g') -> steps_to (proj g) (proj g').
Proof. intros I E. apply (proj_anchored_n h bs (nlen bs) g h' g' I (N.le_refl _)). exact E. Qed.


(* some pipe state is always related to a Geo state (marks do not matter for R) *)
Definition pipe_of (h : heap) (g : giov) : Pipe.st :=
  {| Pipe.slices := map (fun sl => Pipe.plain (sl_bytes h sl)) (gslices g); Pipe.consumed := N.to_nat (gcslices g);
     Pipe.table := map conv (gbackrefs g); Pipe.logical := N.to_nat (glogical g); Pipe.taken := N.to_nat (gcsize g) |}.
Lemma R_pipe_of h g : R h g (pipe_of h g).
Proof.
  constructor; try reflexivity. cbn [pipe_of Pipe.slices]. rewrite map_map. apply map_ext. intros a. apply map_fst_plain.
Qed.

(* ---- every operation, every history ---- *)
Theorem g1step_anchors h g o h' g' x : GInv h g -> g1step h g o = Some (h', g', x) -> steps_to (proj g) (proj g').
Proof.
  intros I E. destruct o as [bs|bs|bs|items|bs|p|b src|k|k| |k| | |k|bs count]; cbn [g1step] in E.
  - destruct (push h (SExt bs) g) as [[h1 g1]|] eqn:EP; [|discriminate]. inversion E; subst h1 g1 x.
    destruct bs as [|b0 bs0] eqn:Eb.
    + cbn in EP. inversion EP. apply steps_refl.
    + rewrite <- Eb in *. assert (Hok : sl_ok h (SExt bs)) by (cbn; rewrite Eb; discriminate).
      destruct (proj_push _ _ _ _ _ I Hok EP) as [S|S]; [exact S|].
      eapply steps_trans; [apply (steps_one Anchors.OpBorrow)|exact S].
  - destruct (push_copy h bs g) as [[h1 g1]|] eqn:EP; [|discriminate]. inversion E; subst h1 g1 x.
    destruct bs as [|b0 bs0] eqn:Eb; [cbn in EP; inversion EP; apply steps_refl|]. rewrite <- Eb in *.
    eapply proj_push_copy; eauto. rewrite Eb; discriminate.
  - destruct (push_borrowed (SExt bs) g) as [g1|] eqn:EP; [|discriminate]. inversion E; subst h' g1 x.
    destruct bs as [|b0 bs0] eqn:Eb; [cbn in EP; inversion EP; apply steps_refl|]. rewrite <- Eb in *.
    eapply steps_trans; [apply (steps_one Anchors.OpBorrow)|].
    apply (proj_push_borrowed (SExt bs) g g'); [cbn [sl_len]; rewrite Eb, nlen_cons; lia|exact EP].
  - destruct (extend (map SExt items) g) as [g1|] eqn:EP; [|discriminate]. inversion E; subst h' g1 x. clear E.
    revert g I EP. induction items as [|bs items IH]; intros g I EP; cbn [map extend] in EP; [inversion EP; apply steps_refl|].
    destruct (push_borrowed (SExt bs) g) as [g1|] eqn:EB; [|discriminate].
    assert (S1 : steps_to (proj g) (proj g1)).
    { destruct bs as [|b0 bs0] eqn:Eb; [cbn in EB; inversion EB; apply steps_refl|]. rewrite <- Eb in *.
      eapply steps_trans; [apply (steps_one Anchors.OpBorrow)|].
      apply (proj_push_borrowed (SExt bs) g g1); [cbn [sl_len]; rewrite Eb, nlen_cons; lia|exact EB]. }
    eapply steps_trans; [exact S1|]. apply IH; [|exact EP].
    destruct (push_borrowed_refines h g (pipe_of h g) bs g1 I (R_pipe_of h g) EB) as (I1 & _). exact I1.
  - destruct (anchored h bs g) as [[h1 g1]|] eqn:EP; [|discriminate]. inversion E; subst h1 g1 x. eapply proj_anchored; eauto.
  - destruct (register_patch h p g) as [[[h1 g1] b]|] eqn:EP; [|discriminate]. inversion E; subst h1 g1 x. eapply proj_register; eauto.
  - destruct (backfill h b src g) as [[h1 g1]|] eqn:EP; [|discriminate]. inversion E; subst h1 g1 x.
    rewrite (proj_backfill _ _ _ _ _ _ EP). apply steps_refl.
  - destruct (consume k g) as [[g1 n]|] eqn:EP; [|discriminate]. inversion E; subst h' g1 x.
    unfold consume in EP. destruct (stable_count g); [|discriminate]. eapply proj_gd_consume; eauto.
  - destruct (advance_slices k g) as [[g1 c]|] eqn:EP; [|discriminate]. inversion E; subst h' g1 x. eapply proj_advance; eauto.
  - destruct (pop_front g) as [g1|] eqn:EP; [|discriminate]. inversion E; subst h' g1 x.
    unfold pop_front in EP. destruct (consume 1 g) as [[g2 n]|] eqn:EC; [|discriminate].
    destruct n as [|[q|q|]]; try discriminate. inversion EP; subst g2.
    unfold consume in EC. destruct (stable_count g); [|discriminate]. eapply proj_gd_consume; eauto.
  - destruct (read h k g) as [[g1 bs]|] eqn:EP; [|discriminate]. inversion E; subst h' g1 x. eapply proj_read_loop; eauto.
  - inversion E; subst h' g' x. apply (steps_one Anchors.OpClear).
  - inversion E; subst h' g' x. apply steps_refl.
  - destruct (ensure_capacity h (gcache_ g) k) as [[h1 k1]|]; [|discriminate]. inversion E; subst h1 g' x. apply steps_refl.
  - destruct (nlen bs <=? count) eqn:Ec; [|discriminate]. apply N.leb_le in Ec.
    destruct (anchored_n h bs count g) as [[h1 g1]|] eqn:EP; [|discriminate]. inversion E; subst h1 g1 x. eapply proj_anchored_n; eauto.
Qed.

Lemma proj_empty : proj empty_iov = {| Anchors.slices := []; Anchors.anchors := [] |}.
Proof. reflexivity. Qed.

Theorem g1run_anchors ops : forall h g h' g' xs, GInv h g -> g1run h g ops = Some (h', g', xs) -> steps_to (proj g) (proj g').
Proof.
  induction ops as [|o ops IH]; intros h g h' g' xs I E; cbn [g1run] in E.
  - inversion E. apply steps_refl.
  - destruct (g1step h g o) as [[[h1 g1] x]|] eqn:ES; [|discriminate].
    destruct (g1run h1 g1 ops) as [[[h2 g2] xs2]|] eqn:ER; [|discriminate]. inversion E; subst h2 g2 xs.
    destruct (g1step_refines h g (pipe_of h g) o h1 g1 x I (R_pipe_of h g) ES) as (I1 & _).
    eapply steps_trans; [eapply g1step_anchors; eauto|eapply IH; eauto].
Qed.

(* C05 on the geometry-faithful model: in every state reached from the empty iovec, the ownership invariant holds;
   every arena slice lies inside the bytes written to an existing chunk that one of the iovec's anchors still holds
   (so, Arc semantics, the chunk has not been released), and two slices of one chunk never overlap *)
Theorem geo_ownership ops h' g' xs :
  g1run [] empty_iov ops = Some (h', g', xs) ->
  Anchors.Inv (proj g') /\
  (forall p c off len, nth_error (gslices g') p = Some (SArena c off len) ->
     In c (holders g') /\ (c < length h')%nat /\ 0 < len /\ off + len <= nlen (cdata (chunk_at h' c)) /\
     nlen (cdata (chunk_at h' c)) <= ccap (chunk_at h' c)) /\
  (forall i j c oi li oj lj, (i < j)%nat -> nth_error (gslices g') i = Some (SArena c oi li) ->
     nth_error (gslices g') j = Some (SArena c oj lj) -> oi + li <= oj \/ oj + lj <= oi).
Proof.
  intros E.
  assert (H0 : heap_ok []) by (intros c Hc; cbn in Hc; lia).
  destruct (geo_refines_pipe ops h' g' xs E) as (I' & _).
  pose proof (g1run_anchors ops [] empty_iov h' g' xs (GInv_empty [] H0) E) as S.
  assert (AI : Anchors.Inv (proj g')) by (eapply steps_inv; [|exact S]; rewrite proj_empty; apply Anchors.empty_inv).
  split; [exact AI|]. split.
  - intros p c off len Hp.
    pose proof (gi_slices h' g' I') as F. rewrite Forall_forall in F.
    assert (Hok : sl_ok h' (SArena c off len)) by (apply F; eapply nth_error_In; eauto). cbn [sl_ok] in Hok.
    split; [|split; [tauto|split; [tauto|split; [tauto|apply (gi_heap h' g' I'); tauto]]]].
    assert (Hs : nth_error (Anchors.slices (proj g')) p = Some (Some c)).
    { unfold proj. cbn [Anchors.slices]. rewrite nth_error_map, Hp. reflexivity. }
    destruct (Anchors.inv_held _ AI p c Hs) as (a & Hin & Hc).
    unfold proj in Hin. cbn [Anchors.anchors] in Hin. apply in_map_iff in Hin as (ga & <- & Hga).
    unfold holders. apply in_or_app. left. apply in_flat_map. exists ga. split; [exact Hga|].
    cbn [panchor Anchors.achunk] in Hc. rewrite Hc. now left.
  - intros i j c oi li oj lj Hij Hi Hj. pose proof (gi_sorted h' g' I' i j _ _ Hij Hi Hj) as S'. cbn [sl_before] in S'. now apply S'.
Qed.
