From Coq Require Import List NArith Lia Bool Arith Sorting.Sorted.
From WP Require Import iovec.Pipe iovec.PipeProofs.
Import ListNotations.

Lemma NoDup_app_snoc' {A} (l : list A) x : NoDup l -> ~ In x l -> NoDup (l ++ [x]).
Proof.
  induction l as [|a l IH]; intros ND Hn; cbn [app]; [repeat constructor; auto|].
  inversion ND as [|? ? Ha ND']; subst. constructor.
  - intros Hin. apply in_app_or in Hin as [Hin|[->|[]]]; [auto|apply Hn; now left].
  - apply IH; auto. intros Hin. apply Hn. now right.
Qed.

(* ---- push_raw ---- *)
Lemma push_raw_concat m ms sl : concat (push_raw m ms sl) = concat sl ++ ms.
Proof.
  unfold push_raw. destruct m.
  - destruct (rev sl) as [|l f] eqn:E.
    + apply (f_equal (@rev _)) in E. rewrite rev_involutive in E. subst sl. cbn. now rewrite app_nil_r.
    + apply (f_equal (@rev _)) in E. rewrite rev_involutive in E. cbn [rev] in E. subst sl.
      rewrite !concat_app. cbn [concat]. rewrite !app_nil_r, app_assoc. reflexivity.
  - rewrite concat_app. cbn. now rewrite app_nil_r.
Qed.

(* every position of the old slices is still there, with the same content; all other positions
   belong to `ms` appended at the end of the last slice *)
Lemma push_raw_old m ms sl i x : nth_error sl i = Some x ->
  exists y, nth_error (push_raw m ms sl) i = Some y /\ (y = x \/ (y = x ++ ms /\ m = true /\ i = length sl - 1)).
Proof.
  intros H. unfold push_raw. destruct m.
  - destruct (rev sl) as [|l f] eqn:E.
    + apply (f_equal (@rev _)) in E. rewrite rev_involutive in E. subst sl. destruct i; discriminate.
    + apply (f_equal (@rev _)) in E. rewrite rev_involutive in E. cbn [rev] in E. subst sl.
      assert (Hi : i < length (rev f ++ [l])) by (apply nth_error_Some; congruence). rewrite app_length in Hi. cbn [length] in Hi.
      destruct (Nat.eq_dec i (length (rev f))) as [->|Hn].
      * rewrite nth_error_app2, Nat.sub_diag in H by lia. cbn in H. inversion H; subst x.
        exists (l ++ ms). rewrite nth_error_app2, Nat.sub_diag by lia. split; [reflexivity|]. right. rewrite app_length. cbn. repeat split; lia.
      * rewrite nth_error_app1 in H by lia. exists x. rewrite nth_error_app1 by lia. auto.
  - exists x. rewrite nth_error_app1; [auto|]. apply nth_error_Some. congruence.
Qed.
Lemma push_raw_length m ms sl : length sl <= length (push_raw m ms sl) <= S (length sl) /\ 1 <= length (push_raw m ms sl).
Proof.
  unfold push_raw. destruct m.
  - destruct (rev sl) as [|l f] eqn:E.
    + apply (f_equal (@rev _)) in E. rewrite rev_involutive in E. subst sl. cbn. lia.
    + apply (f_equal (@rev _)) in E. rewrite rev_involutive in E. cbn [rev] in E. subst sl. rewrite !app_length. cbn. lia.
  - rewrite app_length. cbn. lia.
Qed.
(* the last slice after the push ends with ms; what precedes ms in it is an old slice or nothing *)
Lemma push_raw_last m ms sl : exists pre, nth_error (push_raw m ms sl) (length (push_raw m ms sl) - 1) = Some (pre ++ ms) /\
  last (push_raw m ms sl) [] = pre ++ ms /\
  (forall i x, nth_error (push_raw m ms sl) i = Some x -> i <> length (push_raw m ms sl) - 1 -> nth_error sl i = Some x) /\
  (pre = [] /\ (forall i, nth_error sl i <> None -> i < length (push_raw m ms sl) - 1) \/
   (nth_error sl (length (push_raw m ms sl) - 1) = Some pre)).
Proof.
  unfold push_raw. destruct m.
  - destruct (rev sl) as [|l f] eqn:E.
    + apply (f_equal (@rev _)) in E. rewrite rev_involutive in E. subst sl. exists []. cbn. repeat split; auto.
      * intros i x H Hn. destruct i; [lia|destruct i; discriminate].
      * left. split; auto. intros i H. destruct i; cbn in H; congruence.
    + apply (f_equal (@rev _)) in E. rewrite rev_involutive in E. cbn [rev] in E. subst sl. exists l.
      rewrite !app_length. cbn [length]. replace (length (rev f) + 1 - 1) with (length (rev f)) by lia.
      split; [rewrite nth_error_app2, Nat.sub_diag by lia; reflexivity|]. split; [apply last_last|]. split.
      * intros i x H Hn. assert (i < length (rev f ++ [l ++ ms])) by (apply nth_error_Some; congruence).
        rewrite app_length in H0. cbn in H0. rewrite nth_error_app1 in H by lia. rewrite nth_error_app1 by lia. exact H.
      * right. rewrite nth_error_app2, Nat.sub_diag by lia. reflexivity.
  - exists []. rewrite app_length. cbn [length app]. replace (length sl + 1 - 1) with (length sl) by lia.
    split; [rewrite nth_error_app2, Nat.sub_diag by lia; reflexivity|]. split; [apply last_last|]. split.
    + intros i x H Hn. assert (i < length (sl ++ [ms])) by (apply nth_error_Some; congruence). rewrite app_length in H0. cbn in H0.
      rewrite nth_error_app1 in H by lia. exact H.
    + left. split; auto. intros i H. apply nth_error_Some in H. exact H.
Qed.

Lemma nth_error_app_l {A} (l1 l2 : list A) j y : nth_error l1 j = Some y -> nth_error (l1 ++ l2) j = Some y.
Proof. intros H. rewrite nth_error_app1; auto. apply nth_error_Some. congruence. Qed.

(* marks after a push: old positions keep their mark; new positions carry the mark of `ms` *)
Lemma mark_at_push_old s m ms s' i j id :
  slices s' = push_raw m ms (slices s) -> mark_at s i j = Some id -> mark_at s' i j = Some id.
Proof.
  intros E H. unfold mark_at in *. rewrite E. destruct (nth_error (slices s) i) as [x|] eqn:Hx; [|discriminate].
  destruct (push_raw_old m ms (slices s) i x Hx) as (y & Hy & [->|(-> & _)]); rewrite Hy; [exact H|].
  destruct (nth_error x j) as [mb|] eqn:Hm; [|discriminate]. now rewrite (nth_error_app_l x ms j mb Hm).
Qed.

(* ---- push ---- *)
Lemma plain_unmarked bs j : match nth_error (plain bs) j with Some mb => snd mb = None | None => True end.
Proof. unfold plain. rewrite nth_error_map. destruct (nth_error bs j); cbn; auto. Qed.

Lemma mark_at_new_pos s m ms s' i j :
  slices s' = push_raw m ms (slices s) -> mark_at s i j = None ->
  mark_at s' i j = None \/
  (i = length (slices s') - 1 /\ exists pre, last (slices s') [] = pre ++ ms /\ length pre <= j /\
     mark_at s' i j = match nth_error ms (j - length pre) with Some mb => snd mb | None => None end).
Proof.
  intros E H. destruct (push_raw_last m ms (slices s)) as (pre & Hl & Hlast & Hold & Hpre). rewrite <- E in *.
  destruct (Nat.eq_dec i (length (slices s') - 1)) as [->|Hn].
  - unfold mark_at. rewrite Hl. destruct (Nat.lt_ge_cases j (length pre)) as [Hj|Hj].
    + left. rewrite nth_error_app1 by exact Hj.
      destruct Hpre as [(-> & _)|Hp]; [cbn in Hj; lia|]. unfold mark_at in H. rewrite Hp in H. exact H.
    + right. split; [reflexivity|]. exists pre. split; [exact Hlast|]. split; [exact Hj|]. rewrite nth_error_app2 by exact Hj. reflexivity.
  - left. unfold mark_at in *. destruct (nth_error (slices s') i) as [x|] eqn:Hx; [|reflexivity].
    rewrite (Hold i x Hx Hn) in H. exact H.
Qed.

Theorem push_refines m bs s : abs (push m bs s) = abs s ++ map Byte bs.
Proof.
  unfold push. destruct bs as [|b t]; [cbn; now rewrite app_nil_r|]. unfold abs. cbn [slices].
  rewrite push_raw_concat, map_app. f_equal. unfold plain. rewrite map_map. reflexivity.
Qed.

Lemma nonempty_push m ms sl : ms <> [] -> (forall x, In x sl -> x <> []) -> forall x, In x (push_raw m ms sl) -> x <> [].
Proof.
  intros Hms H x Hx. apply In_nth_error in Hx as (i & Hi).
  destruct (push_raw_last m ms sl) as (pre & Hl & _ & Hold & _).
  destruct (Nat.eq_dec i (length (push_raw m ms sl) - 1)) as [->|Hn].
  - rewrite Hl in Hi. inversion Hi. destruct pre; [exact Hms|discriminate].
  - apply H. eapply nth_error_In. exact (Hold i x Hi Hn).
Qed.

Lemma range_push m ms s s' b : slices s' = push_raw m ms (slices s) -> consumed s' = consumed s ->
  (consumed s <= br_idx b /\ exists sl, nth_error (slices s) (br_idx b - consumed s) = Some sl /\ br_begin b + br_len b <= length sl /\ 0 < br_len b) ->
  consumed s' <= br_idx b /\ exists sl, nth_error (slices s') (br_idx b - consumed s') = Some sl /\ br_begin b + br_len b <= length sl /\ 0 < br_len b.
Proof.
  intros E Ec (Hc & sl & Hn & Hr & Hl). rewrite Ec. split; [exact Hc|]. rewrite E.
  destruct (push_raw_old m ms (slices s) _ sl Hn) as (y & Hy & [->|(-> & _)]).
  - exists sl. auto.
  - exists (sl ++ ms). split; [exact Hy|]. rewrite app_length. split; lia.
Qed.

Theorem push_inv m bs s : Inv s -> Inv (push m bs s).
Proof.
  intros I. unfold push. destruct bs as [|b0 t]; [exact I|]. set (bs := b0 :: t).
  set (s' := {| slices := push_raw m (plain bs) (slices s); consumed := consumed s; table := table s;
                logical := logical s + length bs; taken := taken s |}).
  assert (E : slices s' = push_raw m (plain bs) (slices s)) by reflexivity.
  constructor; cbn [slices consumed table logical taken].
  - intros i j id. fold s'.
    assert (Hcv : forall b, covers s' b i j <-> covers s b i j) by (intros; unfold covers; cbn [consumed s']; tauto).
    assert (Hm : mark_at s' i j = Some id <-> mark_at s i j = Some id).
    { split.
      - intros H. destruct (mark_at s i j) as [id'|] eqn:M.
        + pose proof (mark_at_push_old s m (plain bs) s' i j id' E M) as M'. congruence.
        + destruct (mark_at_new_pos s m (plain bs) s' i j E M) as [N|(_ & pre & _ & _ & N)]; [congruence|].
          exfalso. pose proof (plain_unmarked bs (j - length pre)) as P.
          destruct (nth_error (plain bs) (j - length pre)); [rewrite P in N|]; congruence.
      - intros H. exact (mark_at_push_old s m (plain bs) s' i j id E H). }
    rewrite Hm, (inv_marks s I i j id). split; intros (b & Hb & Hid & Hc); exists b; (split; [exact Hb|]); (split; [exact Hid|]); apply Hcv; exact Hc.
  - intros b Hb. apply (range_push m (plain bs) s s' b E eq_refl). exact (inv_range s I b Hb).
  - exact (inv_sorted s I).
  - intros b Hb. pose proof (inv_ids s I b Hb). unfold s'; cbn [logical]. lia.
  - exact (inv_ids_nodup s I).
  - unfold s'; cbn [slices]. apply nonempty_push; [discriminate|exact (inv_nonempty s I)].
  - unfold s'; cbn [slices logical taken]. rewrite push_raw_concat, app_length. unfold plain. rewrite map_length. pose proof (inv_size s I). lia.
Qed.

(* ---- register ---- *)
Lemma marked_marks id p j : match nth_error (marked id p) j with Some mb => snd mb = Some id | None => True end.
Proof. unfold marked. rewrite nth_error_map. destruct (nth_error p j); cbn; auto. Qed.

Lemma map_abs_marked id p : map abs_cell (marked id p) = repeat (Hole id) (length p).
Proof. induction p as [|a p IH]; cbn; [reflexivity|]. now f_equal. Qed.

Theorem register_refines m p s : p <> [] ->
  abs (fst (register m p s)) = abs s ++ repeat (Hole (logical s + length p)) (length p) /\
  snd (register m p s) = Some (logical s + length p).
Proof.
  intros Hp. unfold register. destruct p as [|b t]; [congruence|]. cbn [fst snd]. split; [|reflexivity].
  unfold abs. cbn [slices]. rewrite push_raw_concat, map_app, map_abs_marked. reflexivity.
Qed.
Lemma register_empty m s : register m [] s = (s, None). Proof. reflexivity. Qed.

Theorem register_inv m p s : Inv s -> Inv (fst (register m p s)).
Proof.
  intros I. unfold register. destruct p as [|b0 t]; [exact I|]. set (p := b0 :: t). cbn [fst].
  set (id := logical s + length p). set (sl' := push_raw m (marked id p) (slices s)).
  set (nb := {| br_id := id; br_idx := consumed s + length sl' - 1; br_begin := length (last sl' []) - length p; br_len := length p |}).
  set (s' := {| slices := sl'; consumed := consumed s; table := table s ++ [nb]; logical := id; taken := taken s |}).
  assert (E : slices s' = push_raw m (marked id p) (slices s)) by reflexivity.
  destruct (push_raw_last m (marked id p) (slices s)) as (pre & Hl & Hlast & Hold & Hpre). fold sl' in Hl, Hlast, Hold, Hpre.
  destruct (push_raw_length m (marked id p) (slices s)) as (HL1 & HL2). fold sl' in HL1, HL2.
  assert (Lm : length (marked id p) = length p) by (unfold marked; apply map_length).
  assert (Hbeg : br_begin nb = length pre) by (cbn [br_begin nb]; rewrite Hlast, app_length, Lm; lia).
  assert (Hfresh : forall b, In b (table s) -> br_id b < id) by (intros b Hb; pose proof (inv_ids s I b Hb); unfold id, p; cbn [length]; lia).
  constructor; cbn [slices consumed table logical taken].
  - intros i j id'. fold s'.
    assert (Hcv : forall b, covers s' b i j <-> covers s b i j) by (intros; unfold covers; cbn [consumed s']; tauto).
    split.
    + intros H. destruct (mark_at s i j) as [id0|] eqn:M.
      * pose proof (mark_at_push_old s m (marked id p) s' i j id0 E M) as M'. assert (id0 = id') by congruence. subst id0.
        apply (inv_marks s I) in M as (b & Hb & Hid & Hc). exists b. split; [apply in_or_app; now left|]. split; [exact Hid|apply Hcv; exact Hc].
      * destruct (mark_at_new_pos s m (marked id p) s' i j E M) as [N|(Hi & pre' & Hlast' & Hj & N)]; [congruence|].
        cbn [slices s'] in Hlast', Hi. rewrite Hlast in Hlast'. apply app_inv_tail in Hlast'. subst pre'.
        pose proof (marked_marks id p (j - length pre)) as Q.
        destruct (nth_error (marked id p) (j - length pre)) as [mb|] eqn:Q2; [|congruence].
        assert (Hj2 : j - length pre < length p) by (rewrite <- Lm; apply nth_error_Some; congruence).
        assert (id' = id) by congruence. subst id'.
        exists nb. split; [apply in_or_app; right; now left|]. split; [reflexivity|]. unfold covers. cbn [consumed s' br_idx br_len nb]. rewrite Hbeg. lia.
    + intros (b & Hb & Hid & Hc). apply in_app_or in Hb as [Hb|[<-|[]]].
      * apply Hcv in Hc. assert (M : mark_at s i j = Some id') by (apply (inv_marks s I); exists b; auto).
        exact (mark_at_push_old s m (marked id p) s' i j id' E M).
      * destruct Hc as (Hi & Hj). cbn [consumed s' br_idx br_len nb] in Hi, Hj. rewrite Hbeg in Hj. cbn [br_id nb] in Hid. subst id'.
        assert (i = length sl' - 1) by lia. subst i. unfold mark_at. cbn [slices s']. rewrite Hl, nth_error_app2 by lia.
        pose proof (marked_marks id p (j - length pre)) as Q. destruct (nth_error (marked id p) (j - length pre)) eqn:Q2; [exact Q|].
        apply nth_error_None in Q2. lia.
  - intros b Hb. apply in_app_or in Hb as [Hb|[<-|[]]].
    + apply (range_push m (marked id p) s s' b E eq_refl). exact (inv_range s I b Hb).
    + unfold s'; cbn [slices consumed]. cbn [br_idx br_len nb]. split; [lia|]. exists (pre ++ marked id p). replace (consumed s + length sl' - 1 - consumed s) with (length sl' - 1) by lia.
      split; [exact Hl|]. rewrite Hbeg, app_length, Lm. unfold p. cbn [length]. lia.
  - (* sorted by slice index: the new entry targets the last slice *)
    assert (G : forall l, StronglySorted (fun a b => br_idx a <= br_idx b) l -> (forall b, In b l -> br_idx b <= br_idx nb) ->
                StronglySorted (fun a b => br_idx a <= br_idx b) (l ++ [nb])).
    { induction l as [|a l IHl]; intros SS Hle; cbn [app]; [repeat constructor|].
      inversion SS as [|? ? SS' HF]; subst. constructor; [apply IHl; auto; intros; apply Hle; now right|].
      apply Forall_app. split; [exact HF|]. constructor; [apply Hle; now left|constructor]. }
    unfold s'; cbn [table]. apply G; [exact (inv_sorted s I)|]. intros b Hb. destruct (inv_range s I b Hb) as (Hc & sl & Hn & _).
    assert (br_idx b - consumed s < length (slices s)) by (apply nth_error_Some; congruence). cbn [br_idx nb]. lia.
  - unfold s'; cbn [logical]. intros b Hb. apply in_app_or in Hb as [Hb|[<-|[]]]; [specialize (Hfresh b Hb); lia|cbn; lia].
  - unfold s'; cbn [table]. rewrite map_app. cbn [map]. apply NoDup_app_snoc'.
    + exact (inv_ids_nodup s I).
    + intros Hin. apply in_map_iff in Hin as (b & Hid & Hb). specialize (Hfresh b Hb). cbn [br_id nb] in Hid. lia.
  - unfold s', sl'; cbn [slices]. apply nonempty_push; [unfold marked, p; discriminate|exact (inv_nonempty s I)].
  - unfold s', sl'; cbn [slices logical taken]. rewrite push_raw_concat, app_length, Lm. pose proof (inv_size s I). unfold id. lia.
Qed.
