From Coq Require Import List NArith Lia Bool Arith.
Import ListNotations.

(* Reduced *world* model for C20: several iovecs share arena chunks in one mutable heap; clones copy
   pointers, copies are written in place at the bump pointer of the writer's own cache.  Borrowed slices
   are values and cannot interfere, so only arena slices are modelled. *)
Definition byte := N.
Record pslice := { pc : nat; poff : nat; plen : nat }.
Record obj := { osl : list pslice; ocache : option (nat * nat) (* chunk, bump *) }.
Record world := { heap : list (list byte); objs : list obj }.

Definition chunk_data (h : list (list byte)) (c : nat) : list byte := nth c h [].
Definition deref (h : list (list byte)) (s : pslice) : list byte :=
  firstn (plen s) (skipn (poff s) (chunk_data h (pc s))).
Definition bytes_of (w : world) (o : obj) : list byte := concat (map (deref (heap w)) (osl o)).

(* in-place write of bs at offset off of chunk c *)
Definition write_chunk (d : list byte) (off : nat) (bs : list byte) : list byte :=
  firstn off d ++ bs ++ skipn (off + length bs) d.
Fixpoint update_nth {A} (n : nat) (f : A -> A) (l : list A) : list A :=
  match l, n with
  | [], _ => []
  | x :: t, O => f x :: t
  | x :: t, S n' => x :: update_nth n' f t
  end.
Definition write (h : list (list byte)) (c off : nat) (bs : list byte) : list (list byte) :=
  update_nth c (fun d => write_chunk d off bs) h.

Definition set_obj (w : world) (i : nat) (o : obj) (h : list (list byte)) : world :=
  {| heap := h; objs := update_nth i (fun _ => o) (objs w) |}.

Definition CAP := 4096.

(* push_copy on object i: in the cache's chunk if it fits (merging with an adjacent last slice), else a new chunk *)
Definition push_copy (w : world) (i : nat) (bs : list byte) : world :=
  match nth_error (objs w) i with
  | None => w
  | Some o =>
    match ocache o with
    | Some (c, bump) =>
      if bump + length bs <=? length (chunk_data (heap w) c) then
        let h' := write (heap w) c bump bs in
        let sl' := match rev (osl o) with
                   | l :: r => if (Nat.eqb (pc l) c && Nat.eqb (poff l + plen l) bump)%bool
                               then rev r ++ [{| pc := c; poff := poff l; plen := plen l + length bs |}]
                               else osl o ++ [{| pc := c; poff := bump; plen := length bs |}]
                   | [] => [{| pc := c; poff := bump; plen := length bs |}]
                   end in
        set_obj w i {| osl := sl'; ocache := Some (c, bump + length bs) |} h'
      else
        let c' := length (heap w) in
        let h' := heap w ++ [bs ++ repeat 0%N (CAP - length bs)] in
        set_obj w i {| osl := osl o ++ [{| pc := c'; poff := 0; plen := length bs |}]; ocache := Some (c', length bs) |} h'
    | None =>
        let c' := length (heap w) in
        let h' := heap w ++ [bs ++ repeat 0%N (CAP - length bs)] in
        set_obj w i {| osl := osl o ++ [{| pc := c'; poff := 0; plen := length bs |}]; ocache := Some (c', length bs) |} h'
    end
  end.

(* clone: same pointers, no allocation cache *)
Definition clone (w : world) (i : nat) : world :=
  match nth_error (objs w) i with
  | None => w
  | Some o => {| heap := heap w; objs := objs w ++ [{| osl := osl o; ocache := None |}] |}
  end.

Definition consume (w : world) (i k : nat) : world :=
  match nth_error (objs w) i with
  | None => w
  | Some o => set_obj w i {| osl := skipn k (osl o); ocache := ocache o |} (heap w)
  end.

(* ---- the frame invariant ---- *)
Record WI (w : world) : Prop := {
  wi_distinct : forall i j oi oj ci bi cj bj, i <> j ->
      nth_error (objs w) i = Some oi -> nth_error (objs w) j = Some oj ->
      ocache oi = Some (ci, bi) -> ocache oj = Some (cj, bj) -> ci <> cj;
  wi_bump : forall i o c b, nth_error (objs w) i = Some o -> ocache o = Some (c, b) ->
      c < length (heap w) /\ b <= length (chunk_data (heap w) c);
  wi_slices : forall j oj s, nth_error (objs w) j = Some oj -> In s (osl oj) ->
      pc s < length (heap w) /\ poff s + plen s <= length (chunk_data (heap w) (pc s)) /\
      (forall i oi c b, nth_error (objs w) i = Some oi -> ocache oi = Some (c, b) -> pc s = c -> poff s + plen s <= b)
}.

(* ---- writes beyond a slice do not change it ---- *)
Lemma nth_update_nth_same {A} n (f : A -> A) l d : n < length l -> nth n (update_nth n f l) d = f (nth n l d).
Proof. revert n. induction l as [|x l IH]; intros n H; [cbn in H; lia|]. destruct n; cbn; auto. apply IH. cbn in H. lia. Qed.
Lemma nth_update_nth_other {A} n m (f : A -> A) l d : n <> m -> nth m (update_nth n f l) d = nth m l d.
Proof. revert n m. induction l as [|x l IH]; intros n m H; [destruct n; reflexivity|]. destruct n, m; cbn; auto; try congruence. Qed.
Lemma length_update_nth {A} n (f : A -> A) l : length (update_nth n f l) = length l.
Proof. revert n. induction l as [|x l IH]; intros n; destruct n; cbn; auto. Qed.
Lemma nth_error_update_nth_same {A} n (f : A -> A) l x : nth_error l n = Some x -> nth_error (update_nth n f l) n = Some (f x).
Proof. revert n. induction l as [|y l IH]; intros n H; destruct n; cbn in *; try discriminate; auto. now inversion H. Qed.
Lemma nth_error_update_nth_other {A} n m (f : A -> A) l : n <> m -> nth_error (update_nth n f l) m = nth_error l m.
Proof. revert n m. induction l as [|y l IH]; intros n m H; [destruct n; reflexivity|]. destruct n, m; cbn; auto; try congruence. Qed.

Lemma update_nth_overflow {A} n (f : A -> A) l : length l <= n -> update_nth n f l = l.
Proof. revert n. induction l as [|x l IH]; intros n H; [destruct n; reflexivity|]. destruct n; cbn in *; [lia|]. f_equal. apply IH. lia. Qed.

Lemma deref_write_frame h c off bs s :
  (pc s <> c \/ poff s + plen s <= off) -> off + length bs <= length (chunk_data h c) ->
  deref (write h c off bs) s = deref h s.
Proof.
  intros H Hb. unfold deref, write, chunk_data in *.
  destruct (Nat.eq_dec (pc s) c) as [E|E].
  - destruct H as [H|H]; [congruence|]. rewrite E.
    destruct (Nat.lt_ge_cases c (length h)) as [Hc|Hc].
    + rewrite nth_update_nth_same by exact Hc. unfold write_chunk.
      set (d := nth c h []) in *.
      (* the slice lies inside firstn off d *)
      rewrite <- (firstn_skipn off d) at 3.
      assert (Lf : length (firstn off d) = off) by (rewrite firstn_length; lia).
      rewrite !skipn_app, Lf.
      replace (poff s - off) with 0 by lia. cbn [skipn].
      rewrite !firstn_app, skipn_length, Lf.
      replace (plen s - (off - poff s)) with 0 by lia. cbn [firstn]. now rewrite !app_nil_r.
    + rewrite update_nth_overflow by lia. reflexivity.
  - rewrite nth_update_nth_other by auto. reflexivity.
Qed.

Lemma write_chunk_length d off bs : off + length bs <= length d -> length (write_chunk d off bs) = length d.
Proof. intros H. unfold write_chunk. rewrite !app_length, firstn_length, skipn_length. lia. Qed.

Lemma chunk_data_write_same h c off bs : c < length h -> chunk_data (write h c off bs) c = write_chunk (chunk_data h c) off bs.
Proof. intros H. unfold chunk_data, write. now rewrite nth_update_nth_same. Qed.
Lemma chunk_data_write_other h c off bs c' : c' <> c -> chunk_data (write h c off bs) c' = chunk_data h c'.
Proof. intros H. unfold chunk_data, write. rewrite nth_update_nth_other; auto. Qed.
Lemma chunk_len_write h c off bs c' : off + length bs <= length (chunk_data h c) ->
  length (chunk_data (write h c off bs) c') = length (chunk_data h c').
Proof.
  intros H. destruct (Nat.eq_dec c' c) as [->|E]; [|now rewrite chunk_data_write_other].
  destruct (Nat.lt_ge_cases c (length h)).
  - rewrite chunk_data_write_same by auto. now apply write_chunk_length.
  - unfold write. now rewrite update_nth_overflow.
Qed.

(* the freshly written range reads back as written, also when it extends an adjacent slice *)
Lemma deref_write_extend h c off len bs :
  c < length h -> off + len + length bs <= length (chunk_data h c) ->
  deref (write h c (off + len) bs) {| pc := c; poff := off; plen := len + length bs |}
  = deref h {| pc := c; poff := off; plen := len |} ++ bs.
Proof.
  intros Hc Hb. unfold deref. cbn [pc poff plen]. rewrite chunk_data_write_same by auto.
  set (d := chunk_data h c) in *. unfold write_chunk.
  set (A := firstn off d). set (B := firstn len (skipn off d)).
  assert (LA : length A = off) by (unfold A; rewrite firstn_length; lia).
  assert (LB : length B = len) by (unfold B; rewrite firstn_length, skipn_length; lia).
  assert (EAB : firstn (off + len) d = A ++ B).
  { unfold A, B. rewrite <- (firstn_skipn off d) at 1. rewrite firstn_app, firstn_length.
    replace (Nat.min off (length d)) with off by lia. replace (off + len - off) with len by lia.
    f_equal. rewrite firstn_firstn. f_equal. lia. }
  rewrite EAB. set (X := skipn (off + len + length bs) d).
  rewrite <- app_assoc. rewrite skipn_app, LA, skipn_all2 by lia. replace (off - off) with 0 by lia. cbn [skipn app].
  rewrite firstn_app, LB. rewrite firstn_all2 by lia. replace (len + length bs - len) with (length bs) by lia.
  rewrite firstn_app, firstn_all, Nat.sub_diag. cbn [firstn]. now rewrite app_nil_r.
Qed.

Lemma deref_new_chunk h bs pad s : pc s < length h -> deref (h ++ [bs ++ pad]) s = deref h s.
Proof. intros H. unfold deref, chunk_data. now rewrite app_nth1. Qed.
Lemma deref_new_slice h bs pad : deref (h ++ [bs ++ pad]) {| pc := length h; poff := 0; plen := length bs |} = bs.
Proof.
  unfold deref, chunk_data. cbn [pc poff plen]. rewrite app_nth2, Nat.sub_diag by lia. cbn [nth skipn].
  now rewrite firstn_app, firstn_all, Nat.sub_diag, app_nil_r.
Qed.

Lemma concat_map_ext {A B} (f g : A -> list B) l : (forall x, In x l -> f x = g x) -> concat (map f l) = concat (map g l).
Proof. induction l as [|a l IH]; intros H; cbn; auto. rewrite H by now left. f_equal. apply IH. intros; apply H; now right. Qed.

(* ---- C20 core: a copy pushed on object i changes nobody else's bytes, and appends to i's ---- *)
Theorem push_copy_frame w i o bs :
  WI w -> nth_error (objs w) i = Some o ->
  let w' := push_copy w i bs in
  (forall j oj, j <> i -> nth_error (objs w) j = Some oj ->
       nth_error (objs w') j = Some oj /\ bytes_of w' oj = bytes_of w oj) /\
  (exists o', nth_error (objs w') i = Some o' /\ bytes_of w' o' = bytes_of w o ++ bs).
Proof.
  intros I Ho w'. subst w'. unfold push_copy. rewrite Ho.
  assert (Hframe_new : forall oj, (forall s, In s (osl oj) -> pc s < length (heap w)) ->
            forall pad, concat (map (deref (heap w ++ [bs ++ pad])) (osl oj)) = concat (map (deref (heap w)) (osl oj))).
  { intros oj Hs pad. apply concat_map_ext. intros s Hin. apply deref_new_chunk. auto. }
  assert (Hnew : forall (pad : list byte),
     (forall j oj, j <> i -> nth_error (objs w) j = Some oj ->
        nth_error (objs (set_obj w i {| osl := osl o ++ [{| pc := length (heap w); poff := 0; plen := length bs |}];
                                         ocache := Some (length (heap w), length bs) |} (heap w ++ [bs ++ pad]))) j = Some oj /\
        bytes_of (set_obj w i {| osl := osl o ++ [{| pc := length (heap w); poff := 0; plen := length bs |}];
                                 ocache := Some (length (heap w), length bs) |} (heap w ++ [bs ++ pad])) oj = bytes_of w oj) /\
     (exists o', nth_error (objs (set_obj w i {| osl := osl o ++ [{| pc := length (heap w); poff := 0; plen := length bs |}];
                                         ocache := Some (length (heap w), length bs) |} (heap w ++ [bs ++ pad]))) i = Some o' /\
        bytes_of (set_obj w i {| osl := osl o ++ [{| pc := length (heap w); poff := 0; plen := length bs |}];
                                 ocache := Some (length (heap w), length bs) |} (heap w ++ [bs ++ pad])) o' = bytes_of w o ++ bs)).
  { intros pad. split.
    - intros j oj Hne Hj. unfold set_obj. cbn [objs heap]. rewrite nth_error_update_nth_other by auto. split; auto.
      unfold bytes_of. cbn [heap]. apply Hframe_new. intros s Hin. apply (wi_slices w I j oj s Hj Hin).
    - eexists. unfold set_obj. cbn [objs heap]. split; [apply nth_error_update_nth_same; exact Ho|].
      unfold bytes_of. cbn [heap osl]. rewrite map_app, concat_app. cbn [map concat]. rewrite app_nil_r.
      rewrite deref_new_slice. f_equal. apply Hframe_new. intros s Hin. apply (wi_slices w I i o s Ho Hin). }
  destruct (ocache o) as [[c bump]|] eqn:Ec; [|apply Hnew].
  destruct (bump + length bs <=? length (chunk_data (heap w) c)) eqn:Efit; [|apply Hnew].
  apply Nat.leb_le in Efit. destruct (wi_bump w I i o c bump Ho Ec) as (Hc & Hb).
  (* every existing slice of every object lies outside the written range *)
  assert (Hframe : forall j oj, nth_error (objs w) j = Some oj ->
            concat (map (deref (write (heap w) c bump bs)) (osl oj)) = concat (map (deref (heap w)) (osl oj))).
  { intros j oj Hj. apply concat_map_ext. intros s Hin. apply deref_write_frame; auto.
    destruct (Nat.eq_dec (pc s) c) as [E|E]; [right|left; exact E].
    destruct (wi_slices w I j oj s Hj Hin) as (_ & _ & Hbound). apply (Hbound i o c bump Ho Ec E). }
  split.
  - intros j oj Hne Hj. unfold set_obj. cbn [objs heap]. rewrite nth_error_update_nth_other by auto. split; auto.
    unfold bytes_of. cbn [heap]. eapply Hframe; eauto.
  - eexists. unfold set_obj. cbn [objs heap]. split; [apply nth_error_update_nth_same; exact Ho|].
    unfold bytes_of. cbn [heap osl].
    destruct (rev (osl o)) as [|l r] eqn:Er.
    + assert (osl o = []) by (destruct (osl o) as [|x t]; auto; cbn in Er; destruct (rev t); discriminate).
      rewrite H. cbn [map concat app]. rewrite app_nil_r.
      change {| pc := c; poff := bump; plen := length bs |} with {| pc := c; poff := bump; plen := 0 + length bs |}.
      replace bump with (bump + 0) at 1 by lia. rewrite deref_write_extend by (auto; lia).
      unfold deref. cbn. reflexivity.
    + assert (Eo : osl o = rev r ++ [l]).
      { apply (f_equal (@rev _)) in Er. rewrite rev_involutive in Er. exact Er. }
      destruct (Nat.eqb (pc l) c && Nat.eqb (poff l + plen l) bump)%bool eqn:Em.
      * (* merged into the last slice *)
        apply andb_prop in Em as (E1 & E2). apply Nat.eqb_eq in E1, E2.
        rewrite Eo. rewrite !map_app, !concat_app. cbn [map concat]. rewrite !app_nil_r. rewrite <- app_assoc. f_equal.
        -- apply concat_map_ext. intros s Hin. apply deref_write_frame; auto.
           destruct (Nat.eq_dec (pc s) c) as [E|E]; [right|left; exact E].
           destruct (wi_slices w I i o s Ho ltac:(rewrite Eo; apply in_or_app; left; exact Hin)) as (_ & _ & Hbound). apply (Hbound i o c bump Ho Ec E).
        -- subst bump. destruct l as [lc lo ll]. cbn [pc poff plen] in *. subst lc. apply deref_write_extend; auto.
      * rewrite map_app, concat_app. cbn [map concat]. rewrite app_nil_r. f_equal; [eapply Hframe; eauto|].
        change {| pc := c; poff := bump; plen := length bs |} with {| pc := c; poff := bump; plen := 0 + length bs |}.
        replace bump with (bump + 0) at 1 by lia. rewrite deref_write_extend by (auto; lia).
        unfold deref. cbn. reflexivity.
Qed.

(* ---- clone: same bytes, and the invariant survives (a clone has no cache, so it never writes into shared chunks) ---- *)
Theorem clone_spec w i o :
  WI w -> nth_error (objs w) i = Some o ->
  let w' := clone w i in
  WI w' /\
  nth_error (objs w') (length (objs w)) = Some {| osl := osl o; ocache := None |} /\
  bytes_of w' {| osl := osl o; ocache := None |} = bytes_of w o /\
  (forall j oj, nth_error (objs w) j = Some oj -> nth_error (objs w') j = Some oj /\ bytes_of w' oj = bytes_of w oj).
Proof.
  intros I Ho w'. subst w'. unfold clone. rewrite Ho.
  assert (Hold : forall j oj, nth_error (objs w) j = Some oj -> nth_error (objs w ++ [{| osl := osl o; ocache := None |}]) j = Some oj).
  { intros j oj Hj. rewrite nth_error_app1; auto. apply nth_error_Some. congruence. }
  assert (Hcases : forall j oj, nth_error (objs w ++ [{| osl := osl o; ocache := None |}]) j = Some oj ->
            nth_error (objs w) j = Some oj \/ (j = length (objs w) /\ oj = {| osl := osl o; ocache := None |})).
  { intros j oj Hj. destruct (Nat.lt_ge_cases j (length (objs w))).
    - left. now rewrite nth_error_app1 in Hj.
    - right. rewrite nth_error_app2 in Hj by lia. destruct (j - length (objs w)) as [|[|]] eqn:E; cbn in Hj; try discriminate.
      inversion Hj. split; auto. lia. }
  split; [|split; [|split]].
  - constructor; cbn [heap objs].
    + intros a b oa ob ca ba cb bb Hne Ha Hb Hca Hcb.
      apply Hcases in Ha as [Ha|(_ & ->)]; [|discriminate]. apply Hcases in Hb as [Hb|(_ & ->)]; [|discriminate].
      eapply (wi_distinct w I); eauto.
    + intros a oa c b Ha Hc. apply Hcases in Ha as [Ha|(_ & ->)]; [|discriminate]. eapply (wi_bump w I); eauto.
    + intros j oj s Hj Hin.
      assert (Hs : exists j' oj', nth_error (objs w) j' = Some oj' /\ In s (osl oj')).
      { apply Hcases in Hj as [Hj|(_ & ->)]; [eauto|]. cbn in Hin. eauto. }
      destruct Hs as (j' & oj' & Hj' & Hin'). destruct (wi_slices w I j' oj' s Hj' Hin') as (A & B & C).
      split; auto. split; auto. intros a oa c b Ha Hc. apply Hcases in Ha as [Ha|(_ & ->)]; [|discriminate]. eapply C; eauto.
  - cbn [objs]. rewrite nth_error_app2, Nat.sub_diag by lia. reflexivity.
  - reflexivity.
  - intros j oj Hj. split; [cbn [objs]; auto|reflexivity].
Qed.

(* ---- the invariant survives push_copy ---- *)
Lemma in_rev_last {A} (l : list A) x r y : rev l = x :: r -> In y (rev r) -> In y l.
Proof. intros E H. apply in_rev. rewrite E. right. now apply in_rev in H. Qed.

Theorem push_copy_WI w i o bs :
  WI w -> nth_error (objs w) i = Some o -> length bs <= CAP -> WI (push_copy w i bs).
Proof.
  intros I Ho Hcap. unfold push_copy. rewrite Ho.
  (* new-chunk case, shared by the two fallbacks *)
  assert (Hnew : WI (set_obj w i {| osl := osl o ++ [{| pc := length (heap w); poff := 0; plen := length bs |}];
                                    ocache := Some (length (heap w), length bs) |}
                             (heap w ++ [bs ++ repeat 0%N (CAP - length bs)]))).
  { set (pad := repeat 0%N (CAP - length bs)).
    assert (Hobj : forall j oj, nth_error (update_nth i (fun _ => {| osl := osl o ++ [{| pc := length (heap w); poff := 0; plen := length bs |}];
                                    ocache := Some (length (heap w), length bs) |}) (objs w)) j = Some oj ->
              (j <> i /\ nth_error (objs w) j = Some oj) \/
              (j = i /\ oj = {| osl := osl o ++ [{| pc := length (heap w); poff := 0; plen := length bs |}]; ocache := Some (length (heap w), length bs) |})).
    { intros j oj Hj. destruct (Nat.eq_dec j i) as [->|Hne].
      - right. rewrite (nth_error_update_nth_same _ _ _ _ Ho) in Hj. inversion Hj. auto.
      - left. rewrite nth_error_update_nth_other in Hj by auto. auto. }
    assert (Hcd : forall c, c < length (heap w) -> chunk_data (heap w ++ [bs ++ pad]) c = chunk_data (heap w) c).
    { intros c Hc. unfold chunk_data. now rewrite app_nth1. }
    assert (Hcn : chunk_data (heap w ++ [bs ++ pad]) (length (heap w)) = bs ++ pad).
    { unfold chunk_data. now rewrite app_nth2, Nat.sub_diag by lia. }
    constructor; unfold set_obj; cbn [heap objs]; rewrite ?app_length; cbn [length].
    - intros a b oa ob ca ba cb bb Hne Ha Hb Hca Hcb.
      apply Hobj in Ha as [(Na & Ha)|(-> & ->)]; apply Hobj in Hb as [(Nb & Hb)|(-> & ->)]; try congruence.
      + apply (wi_distinct w I a b oa ob ca ba cb bb Hne Ha Hb Hca Hcb).
      + cbn in Hcb. inversion Hcb; subst. destruct (wi_bump w I a oa ca ba Ha Hca). lia.
      + cbn in Hca. inversion Hca; subst. destruct (wi_bump w I b ob cb bb Hb Hcb). lia.
    - intros a oa c b Ha Hc. apply Hobj in Ha as [(Na & Ha)|(-> & ->)].
      + destruct (wi_bump w I a oa c b Ha Hc). split; [lia|]. now rewrite Hcd.
      + cbn in Hc. inversion Hc; subst. split; [lia|]. rewrite Hcn, app_length. lia.
    - intros j oj s Hj Hin.
      assert (Hs : (exists j' oj', nth_error (objs w) j' = Some oj' /\ In s (osl oj')) \/ s = {| pc := length (heap w); poff := 0; plen := length bs |}).
      { apply Hobj in Hj as [(Nj & Hj)|(-> & ->)]; [left; eauto|]. cbn in Hin. apply in_app_or in Hin as [Hin|[<-|[]]]; eauto. }
      destruct Hs as [(j' & oj' & Hj' & Hin')| ->].
      + destruct (wi_slices w I j' oj' s Hj' Hin') as (A & B & C).
        split; [lia|]. split; [now rewrite Hcd|].
        intros a oa c b Ha Hc Hpc. apply Hobj in Ha as [(Na & Ha)|(-> & ->)]; [eapply C; eauto|].
        cbn in Hc. inversion Hc; subst. lia.
      + cbn [pc poff plen]. split; [lia|]. split; [rewrite Hcn, app_length; lia|].
        intros a oa c b Ha Hc Hpc. apply Hobj in Ha as [(Na & Ha)|(-> & ->)].
        * destruct (wi_bump w I a oa c b Ha Hc). lia.
        * cbn in Hc. inversion Hc; subst. lia. }
  destruct (ocache o) as [[c bump]|] eqn:Ec; [|exact Hnew].
  destruct (bump + length bs <=? length (chunk_data (heap w) c)) eqn:Efit; [|exact Hnew].
  apply Nat.leb_le in Efit. destruct (wi_bump w I i o c bump Ho Ec) as (HcL & HbL).
  set (sl' := match rev (osl o) with
              | l :: r => if (Nat.eqb (pc l) c && Nat.eqb (poff l + plen l) bump)%bool
                          then rev r ++ [{| pc := c; poff := poff l; plen := plen l + length bs |}]
                          else osl o ++ [{| pc := c; poff := bump; plen := length bs |}]
              | [] => [{| pc := c; poff := bump; plen := length bs |}]
              end).
  (* every slice of the new list is an old slice of o, or lies in chunk c and ends at the new bump, starting where an old
     slice started or at the old bump *)
  assert (Hsl : forall s, In s sl' -> In s (osl o) \/ (pc s = c /\ poff s + plen s = bump + length bs)).
  { intros s Hin. unfold sl' in Hin. destruct (rev (osl o)) as [|l r] eqn:Er.
    - destruct Hin as [<-|[]]. right. cbn. auto.
    - destruct (Nat.eqb (pc l) c && Nat.eqb (poff l + plen l) bump)%bool eqn:Em.
      + apply in_app_or in Hin as [Hin|[<-|[]]]; [left; eapply in_rev_last; eauto|].
        apply andb_prop in Em as (E1 & E2). apply Nat.eqb_eq in E1, E2. right. cbn. lia.
      + apply in_app_or in Hin as [Hin|[<-|[]]]; [left; exact Hin|right; cbn; auto]. }
  assert (Hobj : forall j oj, nth_error (update_nth i (fun _ => {| osl := sl'; ocache := Some (c, bump + length bs) |}) (objs w)) j = Some oj ->
            (j <> i /\ nth_error (objs w) j = Some oj) \/ (j = i /\ oj = {| osl := sl'; ocache := Some (c, bump + length bs) |})).
  { intros j oj Hj. destruct (Nat.eq_dec j i) as [->|Hne].
    - right. rewrite (nth_error_update_nth_same _ _ _ _ Ho) in Hj. inversion Hj. auto.
    - left. rewrite nth_error_update_nth_other in Hj by auto. auto. }
  assert (Hlen : forall c', length (chunk_data (write (heap w) c bump bs) c') = length (chunk_data (heap w) c')).
  { intros c'. now apply chunk_len_write. }
  assert (Hhl : length (write (heap w) c bump bs) = length (heap w)) by apply length_update_nth.
  constructor; unfold set_obj; cbn [heap objs]; rewrite ?Hhl.
  - intros a b oa ob ca ba cb bb Hne Ha Hb Hca Hcb.
    apply Hobj in Ha as [(Na & Ha)|(-> & ->)]; apply Hobj in Hb as [(Nb & Hb)|(-> & ->)]; try congruence.
    + apply (wi_distinct w I a b oa ob ca ba cb bb Hne Ha Hb Hca Hcb).
    + cbn in Hcb. inversion Hcb; subst. apply (wi_distinct w I a i oa o ca ba cb bump Hne Ha Ho Hca Ec).
    + cbn in Hca. inversion Hca; subst. apply (wi_distinct w I i b o ob ca bump cb bb Hne Ho Hb Ec Hcb).
  - intros a oa c' b Ha Hc'. rewrite Hlen. apply Hobj in Ha as [(Na & Ha)|(-> & ->)].
    + eapply (wi_bump w I); eauto.
    + cbn in Hc'. inversion Hc'; subst. split; auto.
  - intros j oj s Hj Hin. rewrite Hlen.
    assert (Hs : (exists j' oj', nth_error (objs w) j' = Some oj' /\ In s (osl oj')) \/ (pc s = c /\ poff s + plen s = bump + length bs)).
    { apply Hobj in Hj as [(Nj & Hj)|(-> & ->)]; [left; eauto|]. cbn in Hin. apply Hsl in Hin as [Hin|Hin]; eauto. }
    destruct Hs as [(j' & oj' & Hj' & Hin')|(Hpc & Hend)].
    + destruct (wi_slices w I j' oj' s Hj' Hin') as (A & B & C).
      split; auto. split; auto.
      intros a oa c' b Ha Hc' Hpc. apply Hobj in Ha as [(Na & Ha)|(-> & ->)]; [eapply C; eauto|].
      cbn in Hc'. inversion Hc'; subst. specialize (C i o (pc s) bump Ho Ec eq_refl). lia.
    + split; [rewrite Hpc; exact HcL|]. split; [rewrite Hpc; lia|].
      intros a oa c' b Ha Hc' Hpc'. apply Hobj in Ha as [(Na & Ha)|(-> & ->)].
      * exfalso. apply (wi_distinct w I a i oa o c' b c bump Na Ha Ho Hc' Ec). congruence.
      * cbn in Hc'. inversion Hc'; subst. lia.
Qed.
Print Assumptions push_copy_WI.
