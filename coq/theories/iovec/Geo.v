(* Geometry-faithful model of owning_iovec: OwningIovec (implementation.rs) over GlobalDeque
   (global_deque.rs), ByteArena (byte_arena/mod.rs), AllocCache (alloc_cache.rs) and Anchor (anchor.rs),
   function by function.  Unlike iovec/Pipe.v (bytes by value, merge decision given) and iovec/Anchors.v
   (chunk ids given), nothing here is taken from the implementation: slices are pointers (chunk, offset,
   length) into a heap of arena chunks or caller memory by value, the allocation cache has a capacity and
   a bump offset, chunk sizes follow find_hint_size over the translated size sequence (iovec/Arena.v), the
   copy / borrow / merge decisions of push and optimize are computed from SMALL_COPY,
   MAX_OPPORTUNISTIC_COPY, remaining() and is_last()/try_join() as in the source, anchors carry counts
   and the chunk they keep alive, and a chunk is live exactly while an anchor or a cache holds it
   (Arc semantics).  Every assert!/expect/unwrap/slice index is a None (panic) outcome.
   No proofs in this file. *)
From Coq Require Import List NArith Bool Arith.
From WPGen Require Import Params.
From WP Require Import iovec.Arena.
Import ListNotations.
Open Scope N_scope.

Definition nlen {A} (l : list A) : N := N.of_nat (length l).
Definition nfirstn {A} (n : N) (l : list A) : list A := firstn (N.to_nat n) l.
Definition nskipn {A} (n : N) (l : list A) : list A := skipn (N.to_nat n) l.

(* ---- memory ---- *)
(* a chunk: its capacity and the bytes written so far (offsets 0 .. length cdata); what lies beyond is
   uninitialised and never referenced *)
Record chunk := { ccap : N; cdata : list N }.
Definition heap := list chunk.
Definition no_chunk : chunk := {| ccap := 0; cdata := [] |}.
Definition chunk_at (h : heap) (c : nat) : chunk := nth c h no_chunk.

(* a slice: a pointer into arena chunk c, or caller memory (by value: the borrow checker keeps it
   immutable and alive, and it never lies inside an arena chunk) *)
Inductive gsl := SArena (c : nat) (off len : N) | SExt (bs : list N).
Definition sl_len (s : gsl) : N := match s with SArena _ _ l => l | SExt bs => nlen bs end.
Definition sl_bytes (h : heap) (s : gsl) : list N :=
  match s with
  | SArena c off len => nfirstn len (nskipn off (cdata (chunk_at h c)))
  | SExt bs => bs
  end.

(* in-place write of src at offset off (append when off = length d) *)
Definition poke (d : list N) (off : N) (src : list N) : list N :=
  nfirstn off d ++ src ++ nskipn (off + nlen src) d.
Fixpoint update_nth {A} (n : nat) (f : A -> A) (l : list A) : list A :=
  match l, n with
  | [], _ => []
  | x :: t, O => f x :: t
  | x :: t, S n' => x :: update_nth n' f t
  end.
Definition heap_poke (h : heap) (c : nat) (off : N) (src : list N) : heap :=
  update_nth c (fun k => {| ccap := ccap k; cdata := poke (cdata k) off src |}) h.
(* release_or_die: the bytes above the new bump are given back *)
Definition heap_truncate (h : heap) (c : nat) (top : N) : heap :=
  update_nth c (fun k => {| ccap := ccap k; cdata := nfirstn top (cdata k) |}) h.

(* ---- Anchor ---- *)
Record ganchor := { acount : N; achunk : option nat }.
Definition same_chunk (a : ganchor) (c : nat) : bool :=
  match achunk a with Some c' => Nat.eqb c' c | None => false end.

(* ---- AllocCache / ByteArena ---- *)
Record gcache := { kchunk : nat; kbump : N }.
Definition kcap (h : heap) (k : gcache) : N := ccap (chunk_at h (kchunk k)).
Definition remaining (h : heap) (k : option gcache) : N :=
  match k with Some k => kcap h k - kbump k | None => 0 end.

(* contains(): the slice lies inside the cache's chunk *)
Definition in_cache (k : option gcache) (s : gsl) : option (N * N) :=
  match k, s with
  | Some k, SArena c off len => if Nat.eqb c (kchunk k) then Some (off, len) else None
  | _, _ => None
  end.
Definition is_last (k : option gcache) (s : gsl) : bool :=
  match k, in_cache k s with
  | Some k', Some (off, len) => off + len =? kbump k'
  | _, _ => false
  end.
Definition try_join (k : option gcache) (l r : gsl) : option gsl :=
  match k, in_cache k l, in_cache k r with
  | Some k', Some (lo, ll), Some (ro, rl) => if lo + ll =? ro then Some (SArena (kchunk k') lo (ll + rl)) else None
  | _, _, _ => None
  end.

(* ensure_capacity_internal *)
Definition ensure_capacity (h : heap) (k : option gcache) (len : N) : option (heap * gcache) :=
  match k with
  | Some k' => if len <=? kcap h k' - kbump k' then Some (h, k') else
      match find_hint_size len (kcap h k') with
      | HPanic => None
      | HOk hint => Some (h ++ [{| ccap := N.max hint len; cdata := [] |}], {| kchunk := length h; kbump := 0 |})
      end
  | None =>
      match find_hint_size len 0 with
      | HPanic => None
      | HOk hint => Some (h ++ [{| ccap := N.max hint len; cdata := [] |}], {| kchunk := length h; kbump := 0 |})
      end
  end.

(* alloc(len > 0): the cache to allocate from (grown if needed) *)
Definition alloc_cache (h : heap) (k : option gcache) (len : N) : option (heap * gcache) :=
  match k with
  | Some k' => if len <=? kcap h k' - kbump k' then Some (h, k') else ensure_capacity h k len
  | None => ensure_capacity h k len
  end.

(* Anchor::merge_ref_or_create on the deque's back anchor: Some updated back anchor and no new anchor,
   or the back anchor untouched and a new one *)
Definition merge_ref_or_create (old : option ganchor) (c : nat) : option ganchor * option ganchor :=
  match old with
  | Some a => if same_chunk a c then (Some {| acount := acount a + 1; achunk := achunk a |}, None)
              else (old, Some {| acount := 1; achunk := Some c |})
  | None => (None, Some {| acount := 1; achunk := Some c |})
  end.

(* copy(src, old_anchor), src non-empty: heap, cache, the new slice, the back anchor as updated, a new anchor *)
Definition arena_copy (h : heap) (k : option gcache) (src : list N) (old : option ganchor)
  : option (heap * gcache * gsl * option ganchor * option ganchor) :=
  match src with
  | [] => None                                                    (* assert!(!src.is_empty()) *)
  | _ =>
    match alloc_cache h k (nlen src) with
    | None => None
    | Some (h1, k1) =>
      let c := kchunk k1 in
      let '(old', fresh) := merge_ref_or_create old c in
      Some (heap_poke h1 c (kbump k1) src, {| kchunk := c; kbump := kbump k1 + nlen src |},
            SArena c (kbump k1) (nlen src), old', fresh)
    end
  end.

(* read_n(reader, count, ..) where the reader delivered `got` (at most count bytes): the AnchoredSlice *)
Definition arena_read_n (h : heap) (k : option gcache) (got : list N) (count : N)
  : option (heap * option gcache * gsl * ganchor) :=
  if count =? 0 then Some (h, k, SExt [], {| acount := 0; achunk := None |})
  else if count <? nlen got then None                              (* assert!(got <= count) *)
  else match alloc_cache h k count with
       | None => None
       | Some (h1, k1) =>
         let c := kchunk k1 in
         Some (heap_truncate (heap_poke h1 c (kbump k1) got) c (kbump k1 + nlen got),
               Some {| kchunk := c; kbump := kbump k1 + nlen got |},
               SArena c (kbump k1) (nlen got), {| acount := 1; achunk := Some c |})
       end.

(* ---- AnchoredSlice: a slice together with the anchor that keeps its chunk alive ---- *)
Record aslice := { as_sl : gsl; as_anchor : ganchor }.
Definition as_default : aslice := {| as_sl := SExt []; as_anchor := {| acount := 0; achunk := None |} |}.
Definition as_len (a : aslice) : N := sl_len (as_sl a).
(* ByteArena::read_n as the user sees it *)
Definition as_read_n (h : heap) (k : option gcache) (got : list N) (count : N) : option (heap * option gcache * aslice) :=
  match arena_read_n h k got count with
  | Some (h', k', s, a) => Some (h', k', {| as_sl := s; as_anchor := a |})
  | None => None
  end.
Definition sl_skip (s : gsl) (n : N) : gsl :=
  match s with SArena c off len => SArena c (off + n) (len - n) | SExt bs => SExt (nskipn n bs) end.
Definition sl_keep (s : gsl) (n : N) : gsl :=
  match s with SArena c off len => SArena c off n | SExt bs => SExt (nfirstn n bs) end.
Definition as_skip_prefix (a : aslice) (count : N) : aslice * N :=
  let n := N.min count (as_len a) in ({| as_sl := sl_skip (as_sl a) n; as_anchor := as_anchor a |}, n).
Definition as_drop_suffix (a : aslice) (count : N) : aslice * N :=
  let n := N.min count (as_len a) in ({| as_sl := sl_keep (as_sl a) (as_len a - n); as_anchor := as_anchor a |}, n).
Definition as_split_at (a : aslice) (mid : N) : aslice * aslice :=
  if as_len a <=? mid then (a, as_default)
  else ({| as_sl := sl_keep (as_sl a) mid; as_anchor := as_anchor a |},
        {| as_sl := sl_skip (as_sl a) mid; as_anchor := as_anchor a |}).
Definition as_take (a : aslice) : aslice * aslice := (a, as_default).      (* (returned, left behind) *)

(* ---- GlobalDeque + OwningIovec ---- *)
Record gbackref := { bend : N; bidx : N; bbegin : N; blen : N }.
Record giov := {
  gslices : list gsl;
  ganchors : list ganchor;
  glogical : N;                  (* logical_size *)
  gcsize : N;                    (* consumed_size *)
  gcslices : N;                  (* consumed_slices *)
  gcache_ : option gcache;       (* arena.cache *)
  gbackrefs : list gbackref }.   (* pending backrefs, ascending by bend *)

Definition empty_iov : giov :=
  {| gslices := []; ganchors := []; glogical := 0; gcsize := 0; gcslices := 0; gcache_ := None; gbackrefs := [] |}.

Definition set_back {A} (l : list A) (x : A) : list A := removelast l ++ [x].
Definition back {A} (l : list A) : option A := match rev l with x :: _ => Some x | [] => None end.

(* GlobalDeque::maybe_collapse_last_pair with ByteArena::try_join (OwningIovec::optimize) *)
Definition optimize (g : giov) : option giov :=
  match rev (gslices g) with
  | r :: l :: front =>
    match back (ganchors g) with
    | None => None                                                 (* expect("must have anchor for slices") *)
    | Some a =>
      if acount a =? 0 then None                                   (* assert!(anchor.count() > 0) *)
      else if acount a <? 2 then Some g
      else match try_join (gcache_ g) l r with
           | None => Some g
           | Some m =>
             Some {| gslices := rev front ++ [m];
                     ganchors := set_back (ganchors g) {| acount := acount a - 1; achunk := achunk a |};
                     glogical := glogical g; gcsize := gcsize g; gcslices := gcslices g;
                     gcache_ := gcache_ g; gbackrefs := gbackrefs g |}
           end
    end
  | _ => Some g
  end.

(* GlobalDeque::push_borrowed, then optimize *)
Definition push_borrowed (s : gsl) (g : giov) : option giov :=
  if sl_len s =? 0 then Some g
  else
    let anchors := match ganchors g with [] => [{| acount := 0; achunk := None |}] | l => l end in
    match back anchors with
    | None => None
    | Some a =>
      optimize {| gslices := gslices g ++ [s];
                  ganchors := set_back anchors {| acount := acount a + 1; achunk := achunk a |};
                  glogical := glogical g + sl_len s; gcsize := gcsize g; gcslices := gcslices g;
                  gcache_ := gcache_ g; gbackrefs := gbackrefs g |}
    end.

(* OwningIovec::push_copy: arena.copy with the back anchor, GlobalDeque::push, optimize *)
Definition push_copy (h : heap) (src : list N) (g : giov) : option (heap * giov) :=
  match src with
  | [] => Some (h, g)
  | _ =>
    match arena_copy h (gcache_ g) src (back (ganchors g)) with
    | None => None
    | Some (h', k', s, old', fresh) =>
      let anchors1 := match old' with Some a => set_back (ganchors g) a | None => ganchors g end in
      match fresh, anchors1 with
      | None, [] => None                                           (* assert!(!self.anchors.is_empty()) *)
      | _, _ =>
        let anchors2 := match fresh with Some a => anchors1 ++ [a] | None => anchors1 end in
        match optimize {| gslices := gslices g ++ [s]; ganchors := anchors2;
                          glogical := glogical g + nlen src; gcsize := gcsize g; gcslices := gcslices g;
                          gcache_ := Some k'; gbackrefs := gbackrefs g |} with
        | None => None
        | Some g' => Some (h', g')
        end
      end
    end
  end.

(* OwningIovec::push: copy small slices, and medium ones that extend the last slice in place *)
Definition push (h : heap) (s : gsl) (g : giov) : option (heap * giov) :=
  let len := sl_len s in
  let small := len <=? SMALL_COPY in
  let appendable := (len <=? MAX_OPPORTUNISTIC_COPY) && (len <=? remaining h (gcache_ g)) &&
                    match back (gslices g) with Some l => is_last (gcache_ g) l | None => false end in
  if small || appendable then push_copy h (sl_bytes h s) g
  else match push_borrowed s g with Some g' => Some (h, g') | None => None end.

Fixpoint extend (items : list gsl) (g : giov) : option giov :=
  match items with
  | [] => Some g
  | s :: t => match push_borrowed s g with Some g' => extend t g' | None => None end
  end.

(* GlobalDeque::push_anchor: the count is zeroed *)
Definition push_anchor (a : ganchor) (g : giov) : giov :=
  {| gslices := gslices g; ganchors := ganchors g ++ [{| acount := 0; achunk := achunk a |}];
     glogical := glogical g; gcsize := gcsize g; gcslices := gcslices g; gcache_ := gcache_ g; gbackrefs := gbackrefs g |}.

(* the anchored-input idiom (Decoder::decode_anchored, StreamReader): bytes read into the iovec's own arena
   with ByteArena::read_n, the resulting slice pushed, then its anchor pushed *)
Definition anchored_slice (h : heap) (got : list N) (count : N) (g : giov) : option gsl :=
  match arena_read_n h (gcache_ g) got count with Some (_, _, s, _) => Some s | None => None end.

(* register_patch: the Backref handle (None = the empty one) *)
Definition register_patch (h : heap) (pattern : list N) (g : giov) : option (heap * giov * option gbackref) :=
  match pattern with
  | [] => Some (h, g, None)
  | _ =>
    match push_copy h pattern g with
    | None => None
    | Some (h', g') =>
      match back (gslices g') with
      | None => None                                               (* assert!(!self.is_empty()) *)
      | Some l =>
        if glogical g' =? 0 then None                              (* NonZeroU64::new(..).expect *)
        else
          let b := {| bend := glogical g'; bidx := gcslices g' + nlen (gslices g') - 1;
                      bbegin := sl_len l - nlen pattern; blen := nlen pattern |} in
          match back (gbackrefs g') with
          | Some p => if bend b <=? bend p then None               (* push_back_or_panic: keys ascend *)
                      else Some (h', {| gslices := gslices g'; ganchors := ganchors g'; glogical := glogical g';
                                        gcsize := gcsize g'; gcslices := gcslices g'; gcache_ := gcache_ g';
                                        gbackrefs := gbackrefs g' ++ [b] |}, Some b)
          | None => Some (h', {| gslices := gslices g'; ganchors := ganchors g'; glogical := glogical g';
                                 gcsize := gcsize g'; gcslices := gcslices g'; gcache_ := gcache_ g';
                                 gbackrefs := [b] |}, Some b)
          end
      end
    end
  end.

Definition backref_eqb (a b : gbackref) : bool :=
  (bend a =? bend b) && (bidx a =? bidx b) && (bbegin a =? bbegin b) && (blen a =? blen b).

(* backfill_or_panic *)
Definition backfill (h : heap) (b : option gbackref) (src : list N) (g : giov) : option (heap * giov) :=
  match b with
  | None => match src with [] => Some (h, g) | _ => None end       (* assert_eq!(src, &[]) *)
  | Some b =>
    if negb (blen b =? nlen src) then None                         (* assert_eq!(len, src.len()) *)
    else match find (fun p => bend p =? bend b) (gbackrefs g) with
         | None => None                                            (* expect("backref not found") *)
         | Some p =>
           if negb (backref_eqb p b) then None                     (* assert_eq!(found, (index, Some(info))) *)
           else if bidx b <? gcslices g then None                  (* get_logical_slice: expect("must still be present") *)
           else match nth_error (gslices g) (N.to_nat (bidx b - gcslices g)) with
                | None => None
                | Some target =>
                  if sl_len target <? bbegin b + nlen src then None  (* assert!(begin + len <= slice len) *)
                  else
                    let rest := filter (fun p => negb (bend p =? bend b)) (gbackrefs g) in
                    let g' (sl : list gsl) :=
                      {| gslices := sl; ganchors := ganchors g; glogical := glogical g; gcsize := gcsize g;
                         gcslices := gcslices g; gcache_ := gcache_ g; gbackrefs := rest |} in
                    match target with
                    | SArena c off _ => Some (heap_poke h c (off + bbegin b) src, g' (gslices g))
                    | SExt bs => Some (h, g' (update_nth (N.to_nat (bidx b - gcslices g))
                                                          (fun _ => SExt (poke bs (bbegin b) src)) (gslices g)))
                    end
                end
         end
  end.

(* stable_prefix().len(): None where get_logical_prefix would underflow *)
Definition stable_count (g : giov) : option N :=
  match gbackrefs g with
  | [] => Some (nlen (gslices g))
  | b :: _ => if bidx b <? gcslices g then None else Some (N.min (bidx b - gcslices g) (nlen (gslices g)))
  end.
Definition stable_slices (g : giov) : option (list gsl) :=
  match stable_count g with Some n => Some (nfirstn n (gslices g)) | None => None end.
Definition has_pending (g : giov) : bool := match gbackrefs g with [] => false | _ => true end.
Definition total_size (g : giov) : N := glogical g - gcsize g.

(* GlobalDeque::consume: the anchor bookkeeping *)
Fixpoint drain (n : N) (l : list ganchor) : option (list ganchor) :=
  match l with
  | [] => if n =? 0 then Some [] else None                         (* expect("must have front ...") *)
  | a :: t =>
    if n =? 0 then Some l
    else let take := N.min (acount a) n in
         if acount a - take =? 0 then drain (n - take) t
         else Some ({| acount := acount a - take; achunk := achunk a |} :: t)
  end.
Fixpoint drop_zero (l : list ganchor) : list ganchor :=
  match l with a :: t => if acount a =? 0 then drop_zero t else l | [] => [] end.
Definition is_nil {A} (l : list A) : bool := match l with [] => true | _ => false end.

Definition fold_len (l : list gsl) : N := fold_left (fun acc s => acc + sl_len s) l 0.

Definition gd_consume (count : N) (g : giov) : option (giov * N) :=
  let count := N.min count (nlen (gslices g)) in
  match drain count (ganchors g) with
  | None => None
  | Some anchors =>
    let anchors := drop_zero anchors in
    let rest := nskipn count (gslices g) in
    if negb (Bool.eqb (is_nil rest) (is_nil anchors)) then None   (* assert!(slices.is_empty() == anchors.is_empty()) *)
    else Some ({| gslices := rest; ganchors := anchors; glogical := glogical g;
                  gcsize := gcsize g + fold_len (nfirstn count (gslices g));
                  gcslices := gcslices g + count; gcache_ := gcache_ g; gbackrefs := gbackrefs g |}, count)
  end.

(* ConsumingIovec::consume *)
Definition consume (count : N) (g : giov) : option (giov * N) :=
  match stable_count g with
  | None => None
  | Some n => gd_consume (N.min count n) g
  end.
Definition pop_front (g : giov) : option giov :=
  match consume 1 g with
  | Some (g', 1) => Some g'
  | _ => None                                                      (* assert_eq!(consumed, 1) *)
  end.

Definition sl_advance (s : gsl) (n : N) : gsl :=
  match s with SArena c off len => SArena c (off + n) (len - n) | SExt bs => SExt (nskipn n bs) end.

(* GlobalDeque::consume_by_bytes: fuel = number of slices + 1 *)
Fixpoint consume_by_bytes (fuel : nat) (count : N) (g : giov) : option giov :=
  if count =? 0 then Some g else
  match fuel with
  | O => None
  | S fuel' =>
    match gslices g with
    | [] => None                                                   (* expect("OwningIovec bound-checks upstream") *)
    | s :: t =>
      let n := N.min count (sl_len s) in
      if n =? sl_len s then
        match gd_consume 1 g with
        | Some (g', _) => consume_by_bytes fuel' (count - n) g'
        | None => None
        end
      else                                                          (* n = count: the front slice is advanced in place *)
        Some {| gslices := sl_advance s n :: t; ganchors := ganchors g; glogical := glogical g;
                gcsize := gcsize g + n; gcslices := gcslices g; gcache_ := gcache_ g; gbackrefs := gbackrefs g |}
    end
  end.

(* advance_slices: the loop over the stable prefix *)
Fixpoint stable_bytes_upto (l : list gsl) (count acc : N) : N :=
  match l with
  | [] => acc
  | s :: t => if count - acc <=? sl_len s then count else stable_bytes_upto t count (acc + sl_len s)
  end.
Definition advance_slices (count : N) (g : giov) : option (giov * N) :=
  match stable_slices g with
  | None => None
  | Some st =>
    let n := stable_bytes_upto st count 0 in
    match consume_by_bytes (S (length (gslices g))) n g with
    | Some g' => Some (g', n)
    | None => None
    end
  end.

(* <ConsumingIovec as Read>::read into a buffer of n bytes: fuel = number of slices + 1 *)
Fixpoint read_loop (fuel : nat) (h : heap) (n : N) (g : giov) (acc : list N) : option (giov * list N) :=
  if n =? 0 then Some (g, acc) else
  match fuel with
  | O => Some (g, acc)
  | S fuel' =>
    match stable_slices g with
    | None => None
    | Some [] => Some (g, acc)
    | Some (s :: _) =>
      let w := N.min (sl_len s) n in
      match advance_slices w g with
      | None => None
      | Some (g', _) => read_loop fuel' h (n - w) g' (acc ++ nfirstn w (sl_bytes h s))
      end
    end
  end.
Definition read (h : heap) (n : N) (g : giov) : option (giov * list N) :=
  read_loop (S (length (gslices g))) h n g [].

Definition clear (g : giov) : giov :=
  {| gslices := []; ganchors := []; glogical := 0; gcsize := 0; gcslices := 0; gcache_ := gcache_ g; gbackrefs := [] |}.
Definition set_cache (k : option gcache) (g : giov) : giov :=
  {| gslices := gslices g; ganchors := ganchors g; glogical := glogical g; gcsize := gcsize g;
     gcslices := gcslices g; gcache_ := k; gbackrefs := gbackrefs g |}.
(* the same with a reader that delivers only a prefix `got` of the `count` bytes asked for (short read, end of file) *)
Definition anchored_n (h : heap) (got : list N) (count : N) (g : giov) : option (heap * giov) :=
  match arena_read_n h (gcache_ g) got count with
  | None => None
  | Some (h1, k1, s, a) =>
    let g1 := set_cache k1 g in
    (* decode_anchored / encode_anchored: whatever the input contributed, its anchor is queued afterwards *)
    if sl_len s =? 0 then Some (h1, push_anchor a g1)
    else match push h1 s g1 with
         | None => None
         | Some (h2, g2) => Some (h2, push_anchor a g2)
         end
  end.
Definition anchored (h : heap) (got : list N) (g : giov) : option (heap * giov) := anchored_n h got (nlen got) g.
(* Clone: ByteArena::clone is a fresh arena *)
Definition clone (g : giov) : giov := set_cache None g.

(* all bytes buffered, placeholders included *)
Definition all_bytes (h : heap) (g : giov) : list N := concat (map (sl_bytes h) (gslices g)).

(* ---- liveness (Arc<Chunk>) ---- *)
Definition holders (g : giov) : list nat :=
  flat_map (fun a => match achunk a with Some c => [c] | None => [] end) (ganchors g) ++
  match gcache_ g with Some k => [kchunk k] | None => [] end.
