From Coq Require Import List NArith Lia Bool Arith Sorting.Sorted.
From WP Require Import iovec.Pipe.
Import ListNotations.

(* ------------- invariant: the table and the ghost marks agree *)
Definition mark_at (s : st) (i j : nat) : option nat :=
  match nth_error (slices s) i with
  | Some sl => match nth_error sl j with Some m => snd m | None => None end
  | None => None
  end.

Definition covers (s : st) (b : backref) (i j : nat) : Prop :=
  br_idx b = consumed s + i /\ br_begin b <= j < br_begin b + br_len b.

Record Inv (s : st) : Prop := {
  inv_marks : forall i j id, mark_at s i j = Some id <-> exists b, In b (table s) /\ br_id b = id /\ covers s b i j;
  inv_range : forall b, In b (table s) -> consumed s <= br_idx b /\
       exists sl, nth_error (slices s) (br_idx b - consumed s) = Some sl /\ br_begin b + br_len b <= length sl /\ 0 < br_len b;
  inv_sorted : StronglySorted (fun a b => br_idx a <= br_idx b) (table s);
  inv_ids : forall b, In b (table s) -> br_id b <= logical s;
  inv_ids_nodup : NoDup (map br_id (table s));
  inv_nonempty : forall sl, In sl (slices s) -> sl <> [];
  inv_size : taken s + length (concat (slices s)) = logical s
}.

(* ------------- first consequences *)

(* slices in the stable prefix carry no mark *)
Lemma stable_unmarked s : Inv s -> forall i j, i < stable_count s -> mark_at s i j = None.
Proof.
  intros I i j Hi. destruct (mark_at s i j) as [id|] eqn:E; [|reflexivity]. exfalso.
  apply (inv_marks s I) in E as (b & Hb & _ & (Hidx & _)).
  unfold stable_count in Hi. destruct (table s) as [|b0 rest] eqn:T; [destruct Hb|].
  assert (br_idx b0 <= br_idx b).
  { destruct Hb as [->|Hb]; [lia|]. pose proof (inv_sorted s I) as SS. rewrite T in SS. inversion SS as [|? ? _ HF]; subst. rewrite Forall_forall in HF. apply HF; exact Hb. }
  lia.
Qed.

Lemma abs_cell_unmarked m : snd m = None -> abs_cell m = Byte (fst m).
Proof. unfold abs_cell. now intros ->. Qed.

Lemma nth_error_firstn_some {A} k (l : list A) i x :
  nth_error (firstn k l) i = Some x -> i < k /\ nth_error l i = Some x.
Proof.
  revert l i. induction k as [|k IH]; intros l i H; [destruct i; discriminate|].
  destruct l as [|a t]; [destruct i; discriminate|]. destruct i as [|i]; cbn in *.
  - split; [lia|assumption].
  - apply IH in H as [? ?]. split; [lia|assumption].
Qed.

Lemma nth_error_skipn' {A} k (l : list A) i : nth_error (skipn k l) i = nth_error l (k + i).
Proof. revert l. induction k as [|k IH]; intros l; [reflexivity|]. destruct l; [now destruct i|]. cbn. apply IH. Qed.
Lemma In_skipn' {A} k (l : list A) x : In x (skipn k l) -> In x l.
Proof. revert l. induction k as [|k IH]; intros l H; [exact H|]. destruct l; [exact H|]. right. now apply IH. Qed.

(* consume removes exactly the cells of the first k' slices, and they are all bytes *)
Theorem consume_refines s k : Inv s ->
  exists removed, abs s = removed ++ abs (fst (consume k s)) /\
                  Forall (fun c => is_hole c = false) removed /\
                  removed = map abs_cell (concat (firstn (snd (consume k s)) (slices s))).
Proof.
  intros I. cbn. set (k' := Nat.min k (stable_count s)).
  exists (map abs_cell (concat (firstn k' (slices s)))). split; [|split; [|reflexivity]].
  - unfold abs. cbn [slices]. rewrite <- map_app, <- concat_app, firstn_skipn. reflexivity.
  - apply Forall_forall. intros c Hc. apply in_map_iff in Hc as (m & <- & Hm).
    apply in_concat in Hm as (sl & Hsl & Hm).
    apply In_nth_error in Hsl as (i & Hi). apply In_nth_error in Hm as (j & Hj).
    apply nth_error_firstn_some in Hi as (Hik & Hi).
    pose proof (stable_unmarked s I i j ltac:(lia)) as U.
    unfold mark_at in U. rewrite Hi, Hj in U. rewrite abs_cell_unmarked by assumption. reflexivity.
Qed.

(* the invariant survives consume *)
Theorem consume_inv s k : Inv s -> Inv (fst (consume k s)).
Proof.
  intros I. cbn. set (k' := Nat.min k (stable_count s)).
  assert (Hk : k' <= stable_count s) by (unfold k'; lia).
  assert (Hlen : k' <= length (slices s)).
  { unfold stable_count in Hk. destruct (table s); lia. }
  assert (Hfirst : forall b, In b (table s) -> consumed s + k' <= br_idx b).
  { intros b Hb. unfold stable_count in Hk. destruct (table s) as [|b0 rest] eqn:T; [destruct Hb|].
    assert (br_idx b0 <= br_idx b).
    { destruct Hb as [->|Hb]; [lia|]. pose proof (inv_sorted s I) as SS. rewrite T in SS. inversion SS as [|? ? _ HF]; subst. rewrite Forall_forall in HF. apply HF; exact Hb. }
    destruct (inv_range s I b0 ltac:(rewrite T; now left)) as (? & _). lia. }
  constructor; cbn [slices consumed table logical taken].
  - intros i j id. unfold mark_at. cbn [slices]. rewrite nth_error_skipn'.
    pose proof (inv_marks s I (k' + i) j id) as M. unfold mark_at in M. rewrite M.
    split; intros (b & Hb & Hid & Hidx & Hr); exists b; repeat split; auto; cbn in *; lia.
  - intros b Hb. destruct (inv_range s I b Hb) as (Hc & sl & Hn & Hr). pose proof (Hfirst b Hb).
    split; [lia|]. exists sl. rewrite nth_error_skipn'. replace (k' + (br_idx b - (consumed s + k'))) with (br_idx b - consumed s) by lia. auto.
  - apply (inv_sorted s I).
  - apply (inv_ids s I).
  - apply (inv_ids_nodup s I).
  - intros sl Hsl. apply (inv_nonempty s I). eapply In_skipn'; eauto.
  - pose proof (inv_size s I) as Hs. rewrite <- (firstn_skipn k' (slices s)) in Hs at 1. rewrite concat_app, app_length in Hs. lia.
Qed.

Lemma skipn_skipn' {A} x y (l : list A) : skipn x (skipn y l) = skipn (y + x) l.
Proof. revert l. induction y as [|y IH]; intros l; [reflexivity|]. destruct l; [now destruct x|]. cbn. apply IH. Qed.
Lemma map_all_const {A B} (f : A -> B) (c : B) (l : list A) :
  (forall x, In x l -> f x = c) -> map f l = repeat c (length l).
Proof. induction l as [|a l IH]; intros H; [reflexivity|]. cbn. rewrite H by now left. f_equal. apply IH. intros; apply H; now right. Qed.
(* ------------- backfill *)
Definition fill := fill_cells.

Lemma fill_nohole_prefix id src pre rest :
  Forall (fun c => c <> Hole id) pre -> fill id src (pre ++ rest) = pre ++ fill id src rest.
Proof.
  induction 1 as [|c pre Hc _ IH]; [reflexivity|]. cbn [app]. unfold fill in *. cbn [fill_cells] in *.
  destruct c as [b|i]; cbn; [now rewrite <- IH|].
  destruct (Nat.eqb i id) eqn:E; [apply Nat.eqb_eq in E; subst; congruence|]. now rewrite <- IH.
Qed.

Lemma fill_nohole_id id post : Forall (fun c => c <> Hole id) post -> fill id [] post = post.
Proof.
  induction 1 as [|c post Hc _ IH]; [reflexivity|]. unfold fill in *. cbn [fill_cells] in *.
  destruct c as [b|i]; cbn; [now rewrite IH|].
  destruct (Nat.eqb i id) eqn:E; [apply Nat.eqb_eq in E; subst; congruence|]. now rewrite IH.
Qed.

Lemma fill_holes id src post :
  Forall (fun c => c <> Hole id) post ->
  fill id src (map (fun _ => Hole id) src ++ post) = map Byte src ++ post.
Proof.
  intros H. induction src as [|a src IH]; cbn [map app]; [now apply fill_nohole_id|].
  unfold fill in *. cbn [fill_cells] in *. rewrite Nat.eqb_refl. now rewrite IH.
Qed.

Lemma update_nth_app {A} (f : A -> A) l1 x l2 : update_nth (length l1) f (l1 ++ x :: l2) = l1 ++ f x :: l2.
Proof. induction l1 as [|a l1 IH]; cbn; [reflexivity|now rewrite IH]. Qed.

Lemma nth_error_split' {A} (l : list A) n x : nth_error l n = Some x -> exists l1 l2, l = l1 ++ x :: l2 /\ length l1 = n.
Proof. apply nth_error_split. Qed.

Lemma find_some_in {A} f (l : list A) x : find f l = Some x -> In x l /\ f x = true.
Proof. apply find_some. Qed.

Theorem backfill_refines s id src s' : Inv s -> backfill id src s = Some s' ->
  abs s' = fill id src (abs s).
Proof.
  intros I. unfold backfill.
  destruct (find _ (table s)) as [b|] eqn:F; [|discriminate].
  apply find_some in F as (Hb & Hid). apply Nat.eqb_eq in Hid.
  destruct (Nat.eqb (br_len b) (length src)) eqn:El; [|discriminate]. apply Nat.eqb_eq in El. cbn [negb].
  destruct (consumed s <=? br_idx b) eqn:Ec; [|discriminate]. apply Nat.leb_le in Ec. cbn [negb].
  destruct (nth_error (slices s) (br_idx b - consumed s)) as [sl|] eqn:En; [|discriminate].
  destruct (br_begin b + length src <=? length sl) eqn:Er; [|discriminate]. apply Nat.leb_le in Er. cbn [negb].
  intros H; inversion H; subst s'; clear H.
  apply nth_error_split in En as (S1 & S2 & ES & LS1).
  unfold abs. cbn [slices]. rewrite ES. rewrite <- LS1, update_nth_app.
  rewrite !concat_app. cbn [concat]. rewrite !map_app.
  (* characterise marks with this id *)
  assert (Hmark : forall i j, mark_at s i j = Some id <-> i = length S1 /\ br_begin b <= j < br_begin b + length src).
  { intros i j. rewrite (inv_marks s I). split.
    - intros (b' & Hb' & Hid' & Hidx & Hr).
      assert (b' = b) as ->.
      { pose proof (inv_ids_nodup s I) as ND. clear - ND Hb Hb' Hid Hid'.
        induction (table s) as [|x t IH]; [destruct Hb|]. cbn in ND. inversion ND as [|? ? Hnin ND']; subst.
        destruct Hb as [->|Hb], Hb' as [->|Hb']; auto.
        - exfalso. apply Hnin. apply in_map_iff. exists b'. split; [congruence|assumption].
        - exfalso. apply Hnin. apply in_map_iff. exists b. split; [congruence|assumption]. }
      rewrite El in Hr. split; [lia|assumption].
    - intros (-> & Hr). exists b. repeat split; auto; try lia. }
  set (pre := firstn (br_begin b) sl). set (mid := firstn (length src) (skipn (br_begin b) sl)).
  set (post := skipn (br_begin b + length src) sl).
  assert (Esl : sl = pre ++ mid ++ post).
  { unfold pre, mid, post. rewrite <- (firstn_skipn (br_begin b) sl) at 1. f_equal.
    rewrite <- (firstn_skipn (length src) (skipn (br_begin b) sl)) at 1. f_equal. now rewrite skipn_skipn'. }
  assert (Lmid : length mid = length src).
  { unfold mid. rewrite firstn_length, skipn_length. lia. }
  assert (Lpre : length pre = br_begin b) by (unfold pre; rewrite firstn_length; lia).
  (* helper: a position not marked with id is not Hole id *)
  assert (Hnot : forall i j sl' m, nth_error (slices s) i = Some sl' -> nth_error sl' j = Some m ->
                   ~ (i = length S1 /\ br_begin b <= j < br_begin b + length src) -> abs_cell m <> Hole id).
  { intros i j sl' m Hi Hj Hn Habs. apply Hn. apply Hmark. unfold mark_at. rewrite Hi, Hj.
    unfold abs_cell in Habs. destruct (snd m); congruence. }
  unfold write_at. fold pre post.
  rewrite Esl. rewrite !map_app. rewrite <- !app_assoc.
  rewrite fill_nohole_prefix.
  2:{ apply Forall_forall. intros c Hc. apply in_map_iff in Hc as (m & <- & Hm). apply in_concat in Hm as (sl' & Hsl' & Hm).
      apply In_nth_error in Hsl' as (i & Hi). apply In_nth_error in Hm as (j & Hj).
      assert (i < length S1) by (apply nth_error_Some; congruence).
      eapply (Hnot i j); eauto; [rewrite ES, nth_error_app1 by lia; exact Hi|lia]. }
  f_equal.
  rewrite fill_nohole_prefix.
  2:{ apply Forall_forall. intros c Hc. apply in_map_iff in Hc as (m & <- & Hm). apply In_nth_error in Hm as (j & Hj).
      assert (j < length pre) by (apply nth_error_Some; congruence).
      eapply (Hnot (length S1) j sl); eauto.
      - rewrite ES, nth_error_app2, Nat.sub_diag by lia. reflexivity.
      - rewrite Esl, nth_error_app1 by lia. exact Hj.
      - lia. }
  f_equal.
  (* the middle is exactly the holes *)
  assert (Emid : map abs_cell mid = map (fun _ => Hole id) src).
  { rewrite (map_all_const abs_cell (Hole id) mid), (map_all_const (fun _ : N => Hole id) (Hole id) src), Lmid; auto.
    intros m Hm. apply In_nth_error in Hm as (n & Hm).
    assert (n < length mid) as Hn by (apply nth_error_Some; congruence).
    assert (mark_at s (length S1) (br_begin b + n) = Some id) as Hm'. { apply Hmark. lia. }
    unfold mark_at in Hm'. rewrite ES, nth_error_app2, Nat.sub_diag in Hm' by lia. cbn [nth_error] in Hm'.
    rewrite Esl, nth_error_app2 in Hm' by lia. rewrite Lpre in Hm'. replace (br_begin b + n - br_begin b) with n in Hm' by lia.
    rewrite nth_error_app1 in Hm' by lia. rewrite Hm in Hm'. unfold abs_cell. now rewrite Hm'. }
  rewrite Emid.
  assert (Eplain : map abs_cell (plain src) = map Byte src).
  { unfold plain. rewrite map_map. reflexivity. }
  rewrite Eplain.
  rewrite fill_holes; [reflexivity|].
  apply Forall_app. split.
  - apply Forall_forall. intros c Hc. apply in_map_iff in Hc as (m & <- & Hm). apply In_nth_error in Hm as (j & Hj).
    eapply (Hnot (length S1) (br_begin b + length src + j) sl); eauto.
    + rewrite ES, nth_error_app2, Nat.sub_diag by lia. reflexivity.
    + rewrite Esl. rewrite nth_error_app2 by lia. rewrite nth_error_app2 by lia. rewrite Lpre, Lmid.
      replace (br_begin b + length src + j - br_begin b - length src) with j by lia. exact Hj.
    + lia.
  - apply Forall_forall. intros c Hc. apply in_map_iff in Hc as (m & <- & Hm). apply in_concat in Hm as (sl' & Hsl' & Hm).
    apply In_nth_error in Hsl' as (i & Hi). apply In_nth_error in Hm as (j & Hj).
    eapply (Hnot (S (length S1 + i)) j); eauto; [|lia].
    rewrite ES, nth_error_app2 by lia. replace (S (length S1 + i) - length S1) with (S i) by lia. exact Hi.
Qed.

