(* The geometry-faithful model never panics: in every state a history reaches, every operation whose documented
   precondition holds (pop_front needs a consumable slice, backfill needs a pending handle of the right length, sizes
   fit in usize) returns a result; none of the assert! / expect / unwrap / slice-index branches of the model is taken. *)
From Coq Require Import List NArith Bool Arith Lia.
From WP Require Import iovec.Arena iovec.ArenaProofs iovec.Geo iovec.GeoMem iovec.GeoProofs iovec.GeoRefine iovec.GeoHistory
  iovec.GeoAnchors iovec.GeoWorld.
From WP Require iovec.Pipe iovec.PipeProofs iovec.Anchors.
From WPGen Require Import Params.
Import ListNotations.
Open Scope N_scope.

Definition BIG : N := 4611686018427387904.          (* 2^62: requests this small cannot overflow the size arithmetic *)
Lemma BIG_le : BIG <= USIZE_MAX.
Proof. unfold BIG, USIZE_MAX. lia. Qed.

(* ---- the arena ---- *)
(* the size policy never trips its assertions on a request that fits in usize, whatever the previous capacity *)
Lemma find_hint_ok len prev : len <= USIZE_MAX -> exists hint, find_hint_size len prev = HOk hint.
Proof.
  intros Hl. destruct (N.le_gt_cases prev USIZE_MAX) as [Hp|Hp].
  - destruct (find_hint_size_spec len prev Hl Hp) as (hint & E & _). eauto.
  - destruct seq_facts as (EM & _). unfold find_hint_size.
    destruct (max_seq <=? len) eqn:E1.
    + destruct (find_hint_size_spec len 0 Hl ltac:(unfold USIZE_MAX; lia)) as (hint & E & _).
      unfold find_hint_size in E. rewrite E1 in E. eauto.
    + replace (max_seq <=? prev) with true by (symmetry; apply N.leb_le; rewrite EM; unfold USIZE_MAX in Hp; lia). eauto.
Qed.

Lemma ensure_no_panic h k len : len <= BIG -> exists h' k', ensure_capacity h k len = Some (h', k').
Proof.
  intros Hl. pose proof BIG_le as HB. unfold ensure_capacity.
  assert (Hlen : len <= USIZE_MAX) by lia.
  destruct k as [k0|].
  - destruct (len <=? kcap h k0 - kbump k0); [eauto|]. destruct (find_hint_ok len (kcap h k0) Hlen) as (hint & ->). eauto.
  - destruct (find_hint_ok len 0 Hlen) as (hint & ->). eauto.
Qed.
Lemma alloc_no_panic h k len : len <= BIG -> exists h' k', alloc_cache h k len = Some (h', k').
Proof.
  intros Hl. unfold alloc_cache. destruct k as [k0|]; [|now apply ensure_no_panic].
  destruct (len <=? kcap h k0 - kbump k0); [eauto|]. now apply ensure_no_panic.
Qed.
Lemma arena_copy_no_panic h k src old : src <> [] -> nlen src <= BIG -> exists r, arena_copy h k src old = Some r.
Proof.
  intros Hne Hl. unfold arena_copy. destruct src as [|b0 s0] eqn:Es; [congruence|]. rewrite <- Es in *.
  destruct (alloc_no_panic h k (nlen src) Hl) as (h1 & k1 & ->).
  destruct (merge_ref_or_create old (kchunk k1)) as [o' f']. eauto.
Qed.

(* ---- GlobalDeque ---- *)
Lemma optimize_no_panic g : (forall a, back (ganchors g) = Some a -> 0 < acount a) -> ganchors g <> [] ->
  exists g', optimize g = Some g'.
Proof.
  intros Hpos Hne. unfold optimize. destruct (rev (gslices g)) as [|r [|l front]]; eauto.
  destruct (back (ganchors g)) as [a|] eqn:EB.
  - specialize (Hpos a eq_refl). destruct (acount a =? 0) eqn:E0; [apply N.eqb_eq in E0; lia|].
    destruct (acount a <? 2); eauto. destruct (try_join (gcache_ g) l r); eauto.
  - apply back_none in EB. congruence.
Qed.

Lemma back_set_back {A} (l : list A) x : back (set_back l x) = Some x.
Proof. unfold back, set_back. now rewrite rev_app_distr. Qed.
Lemma back_app_one {A} (l : list A) x : back (l ++ [x]) = Some x.
Proof. unfold back. now rewrite rev_app_distr. Qed.
Lemma set_back_nonempty {A} (l : list A) x : set_back l x <> [].
Proof. unfold set_back. destruct (removelast l); discriminate. Qed.

Lemma push_borrowed_no_panic s g : exists g', push_borrowed s g = Some g'.
Proof.
  unfold push_borrowed. destruct (sl_len s =? 0); eauto.
  set (anchors := match ganchors g with [] => [{| acount := 0; achunk := None |}] | l => l end).
  assert (Hne : anchors <> []) by (unfold anchors; destruct (ganchors g); discriminate).
  destruct (back anchors) as [a|] eqn:EB; [|apply back_none in EB; congruence].
  apply optimize_no_panic; cbn [ganchors].
  - intros a' Ha'. rewrite back_set_back in Ha'. inversion Ha'. cbn [acount]. lia.
  - apply set_back_nonempty.
Qed.

Lemma push_copy_no_panic h src g : GInv h g -> nlen src <= BIG -> exists h' g', push_copy h src g = Some (h', g').
Proof.
  intros I Hl. unfold push_copy. destruct src as [|b0 s0] eqn:Es; [eauto|]. rewrite <- Es in *.
  assert (Hne : src <> []) by (rewrite Es; discriminate).
  destruct (arena_copy_no_panic h (gcache_ g) src (back (ganchors g)) Hne Hl) as ([[[[h1 k1] snew] old'] fresh] & EA).
  rewrite EA.
  destruct (arena_copy_spec _ _ _ _ _ _ _ _ _ (gi_cache h g I) (gi_heap h g I) EA) as (_ & _ & _ & _ & _ & _ & _ & _ & _ & _ & EM & _).
  unfold merge_ref_or_create in EM.
  destruct (back (ganchors g)) as [a|] eqn:EB.
  - destruct (same_chunk a (kchunk k1)); inversion EM; subst old' fresh.
    + (* joined the back anchor *)
      destruct (set_back (ganchors g) {| acount := acount a + 1; achunk := achunk a |}) as [|x xs] eqn:ESB; [exfalso; eapply set_back_nonempty; eauto|].
      rewrite <- ESB.
      match goal with |- context [optimize ?G] => destruct (optimize_no_panic G) as (g' & ->) end; cbn [ganchors].
      * intros a' Ha'. rewrite back_set_back in Ha'. inversion Ha'. cbn [acount]. lia.
      * apply set_back_nonempty.
      * eauto.
    + match goal with |- context [optimize ?G] => destruct (optimize_no_panic G) as (g' & ->) end; cbn [ganchors].
      * intros a' Ha'. rewrite back_app_one in Ha'. inversion Ha'. cbn [acount]. lia.
      * destruct (set_back (ganchors g) a); discriminate.
      * eauto.
  - inversion EM; subst old' fresh.
    match goal with |- context [optimize ?G] => destruct (optimize_no_panic G) as (g' & ->) end; cbn [ganchors].
    * intros a' Ha'. rewrite back_app_one in Ha'. inversion Ha'. cbn [acount]. lia.
    * destruct (ganchors g); discriminate.
    * eauto.
Qed.

Fixpoint asum (l : list ganchor) : N := match l with [] => 0 | a :: t => acount a + asum t end.
Lemma asum_total l : N.to_nat (asum l) = Anchors.total (map panchor l).
Proof. induction l as [|a l IH]; [reflexivity|]. cbn [asum map]. rewrite Anchors.total_cons. cbn [panchor Anchors.acount]. lia. Qed.

Lemma drain_some : forall l n, n <= asum l -> exists l', drain n l = Some l' /\ asum l' = asum l - n.
Proof.
  induction l as [|a l IH]; intros n Hn; cbn [drain asum] in *.
  - assert (n = 0) by lia. subst. cbn. eauto.
  - destruct (n =? 0) eqn:E0; [apply N.eqb_eq in E0; subst; eexists; split; [reflexivity|cbn [asum]; lia]|]. apply N.eqb_neq in E0.
    destruct (acount a - N.min (acount a) n =? 0) eqn:E1.
    + apply N.eqb_eq in E1. destruct (IH (n - N.min (acount a) n) ltac:(lia)) as (l' & -> & Hs). eexists. split; [reflexivity|lia].
    + apply N.eqb_neq in E1. eexists. split; [reflexivity|]. cbn [asum acount]. lia.
Qed.
Lemma drop_zero_sum l : asum (drop_zero l) = asum l.
Proof. induction l as [|a l IH]; [reflexivity|]. cbn [drop_zero asum]. destruct (acount a =? 0) eqn:E; [apply N.eqb_eq in E; rewrite IH; lia|reflexivity]. Qed.
Lemma drop_zero_nil l : asum l = 0 -> drop_zero l = [].
Proof. induction l as [|a l IH]; [reflexivity|]. cbn [drop_zero asum]. intros H. replace (acount a =? 0) with true by (symmetry; apply N.eqb_eq; lia). apply IH. lia. Qed.
Lemma sum_pos_nonnil l : 0 < asum l -> l <> [].
Proof. destruct l; [cbn; lia|discriminate]. Qed.

Lemma anchors_sum g : Anchors.Inv (proj g) -> asum (ganchors g) = nlen (gslices g).
Proof.
  intros AI. pose proof (Anchors.inv_total _ AI) as T. unfold proj in T. cbn [Anchors.anchors Anchors.slices] in T.
  rewrite <- asum_total, map_length in T. unfold nlen. lia.
Qed.

Lemma gd_consume_no_panic g c : Anchors.Inv (proj g) -> exists g' k, gd_consume c g = Some (g', k).
Proof.
  intros AI. pose proof (anchors_sum g AI) as Hs. unfold gd_consume.
  set (k := N.min c (nlen (gslices g))).
  destruct (drain_some (ganchors g) k ltac:(unfold k; lia)) as (an & -> & Han).
  assert (Hrest : nlen (nskipn k (gslices g)) = asum (drop_zero an)).
  { rewrite nlen_nskipn, drop_zero_sum, Han, Hs. reflexivity. }
  assert (Hnil : is_nil (nskipn k (gslices g)) = is_nil (drop_zero an)).
  { destruct (nskipn k (gslices g)) as [|x xs] eqn:E1.
    - rewrite nlen_nil in Hrest. rewrite drop_zero_sum in Hrest. rewrite (drop_zero_nil an) by lia. reflexivity.
    - rewrite nlen_cons in Hrest. destruct (drop_zero an) as [|y ys] eqn:E2; [cbn [asum] in Hrest; lia|reflexivity]. }
  rewrite Hnil, Bool.eqb_reflx. cbn [negb]. eauto.
Qed.

Lemma stable_count_some g : BInv g -> exists n, stable_count g = Some n /\ n <= nlen (gslices g).
Proof.
  intros B. unfold stable_count. destruct (gbackrefs g) as [|b0 rest] eqn:Eg; [eexists; split; [reflexivity|lia]|].
  destruct (bi_target g B b0 ltac:(rewrite Eg; now left)) as (H0 & _).
  replace (bidx b0 <? gcslices g) with false by (symmetry; apply N.ltb_ge; exact H0). eexists. split; [reflexivity|lia].
Qed.

Lemma consume_no_panic g c : BInv g -> Anchors.Inv (proj g) -> exists g' k, consume c g = Some (g', k).
Proof.
  intros B AI. unfold consume. destruct (stable_count_some g B) as (n & -> & _). now apply gd_consume_no_panic.
Qed.

(* consuming at most the buffered bytes, with enough fuel *)
Lemma cbb_no_panic : forall fuel c g, Anchors.Inv (proj g) -> c <= fold_len (gslices g) -> (length (gslices g) < fuel)%nat ->
  exists g', consume_by_bytes fuel c g = Some g'.
Proof.
  induction fuel as [|fuel IH]; intros c g AI Hc Hf; [lia|]. cbn [consume_by_bytes].
  destruct (c =? 0) eqn:E0; [eauto|]. apply N.eqb_neq in E0.
  destruct (gslices g) as [|s0 t] eqn:Esl; [rewrite fold_len_nil in Hc; lia|].
  destruct (N.min c (sl_len s0) =? sl_len s0) eqn:Ew; [|eauto]. apply N.eqb_eq in Ew.
  destruct (gd_consume_no_panic g 1 AI) as (g1 & k1 & EG). rewrite EG.
  assert (AI1 : Anchors.Inv (proj g1)) by (eapply steps_inv; [exact AI|eapply proj_gd_consume; exact EG]).
  assert (Esl1 : gslices g1 = t).
  { unfold gd_consume in EG. destruct (drain _ (ganchors g)); [|discriminate].
    match type of EG with (if ?x then _ else _) = _ => destruct x; [discriminate|] end. inversion EG. cbn [gslices].
    rewrite Esl, nlen_cons. replace (N.min 1 (1 + nlen t)) with 1 by lia. reflexivity. }
  apply IH; [exact AI1| |].
  - rewrite Esl1. rewrite fold_len_cons in Hc. lia.
  - rewrite Esl1. cbn [length] in Hf. lia.
Qed.

Lemma fold_len_firstn_le k l : fold_len (firstn k l) <= fold_len l.
Proof.
  revert k. induction l as [|s l IH]; intros k; destruct k; cbn [firstn]; rewrite ?fold_len_nil, ?fold_len_cons; try lia.
  specialize (IH k). lia.
Qed.

Lemma advance_no_panic g n : BInv g -> Anchors.Inv (proj g) -> exists g' k, advance_slices n g = Some (g', k).
Proof.
  intros B AI. unfold advance_slices, stable_slices. destruct (stable_count_some g B) as (sc & -> & Hsc).
  rewrite stable_bytes_upto_spec by lia. rewrite N.add_0_l.
  destruct (cbb_no_panic (S (length (gslices g))) (N.min n (fold_len (nfirstn sc (gslices g)))) g AI) as (g' & ->); [|lia|eauto].
  pose proof (fold_len_firstn_le (N.to_nat sc) (gslices g)). unfold nfirstn. lia.
Qed.

(* ---- the invariant carried through histories ---- *)
Definition NP (h : heap) (g : giov) : Prop := Good h g /\ Anchors.Inv (proj g).
Lemma NP_step h g o h' g' x : NP h g -> g1step h g o = Some (h', g', x) -> NP h' g'.
Proof.
  intros (G & AI) E. split; [eapply Good_step; eauto|].
  destruct G as (I & _). eapply steps_inv; [exact AI|eapply g1step_anchors; eauto].
Qed.
Lemma NP_empty : NP [] empty_iov.
Proof. split; [apply Good_empty; intros c Hc; cbn in Hc; lia|rewrite proj_empty; apply Anchors.empty_inv]. Qed.

Lemma read_loop_no_panic h : forall fuel n g acc, NP h g -> exists r, read_loop fuel h n g acc = Some r.
Proof.
  induction fuel as [|fuel IH]; intros n g acc (G & AI); cbn [read_loop].
  - destruct (n =? 0); eauto.
  - destruct (n =? 0); [eauto|]. pose proof (Good_BInv h g G) as B.
    unfold stable_slices. destruct (stable_count_some g B) as (sc & -> & _).
    destruct (nfirstn sc (gslices g)) as [|s0 rest]; [eauto|].
    destruct (advance_no_panic g (N.min (sl_len s0) n) B AI) as (g1 & k1 & EA). rewrite EA.
    apply IH. apply (NP_step h g (HAdvance (N.min (sl_len s0) n)) h g1 (GCount k1) (conj G AI)). cbn [g1step]. now rewrite EA.
Qed.

(* keys of pending placeholders never exceed the bytes appended so far *)
Lemma pending_keys_le h g b : Good h g -> In b (gbackrefs g) -> bend b <= glogical g.
Proof.
  intros (I & s & Rs & PI) Hb.
  pose proof (PipeProofs.inv_ids s PI (conv b)) as H. rewrite (r_table _ _ _ Rs) in H. specialize (H (in_map conv _ _ Hb)).
  cbn [conv Pipe.br_id] in H. rewrite (r_logical _ _ _ Rs) in H. lia.
Qed.

Lemma register_no_panic h p g : Good h g -> nlen p <= BIG -> exists r, register_patch h p g = Some r.
Proof.
  intros G Hl. unfold register_patch. destruct p as [|p0 pr] eqn:Ep; [eauto|]. rewrite <- Ep in *.
  assert (Hne : p <> []) by (rewrite Ep; discriminate).
  destruct G as (I & s & Rs & PI). assert (G : Good h g) by (split; eauto).
  destruct (push_copy_no_panic h p g I Hl) as (h1 & g1 & EP). rewrite EP.
  destruct (push_copy_core h g s p h1 g1 (Pipe.plain p) I Rs Hne EP (map_fst_plain p)) as (I1 & Ecs & Ebr & El & Esz & merged & Hb).
  (* the copy left a slice *)
  assert (Hsl : gslices g1 <> []).
  { intros Hnil. pose proof (f_equal (@length _) Hb) as HL. rewrite !map_length, Hnil in HL. cbn in HL.
    pose proof (PipeProofs2.push_raw_length merged (Pipe.plain p) (Pipe.slices s)) as (_ & H1). unfold Pipe.mbyte in *. lia. }
  destruct (back (gslices g1)) as [l|] eqn:EB; [|apply back_none in EB; congruence].
  assert (Hpos : 0 < nlen p) by (rewrite Ep, nlen_cons; lia).
  replace (glogical g1 =? 0) with false by (symmetry; apply N.eqb_neq; lia).
  destruct (back (gbackrefs g1)) as [pp|] eqn:EBB; [|eauto].
  cbn [bend]. assert (Hpp : bend pp <= glogical g).
  { apply (pending_keys_le h g pp G). rewrite <- Ebr. destruct (back_snoc _ _ EBB) as (fr & ->). apply in_or_app. right. now left. }
  replace (glogical g1 <=? bend pp) with false by (symmetry; apply N.leb_gt; lia). eauto.
Qed.

Lemma find_unique l b : NoDup (map bend l) -> In b l -> find (fun p => bend p =? bend b) l = Some b.
Proof.
  induction l as [|a l IH]; intros ND Hin; [destruct Hin|]. cbn [map find] in *. inversion ND as [|? ? Hn Hr]; subst.
  destruct Hin as [->|Hin]; [now rewrite N.eqb_refl|].
  destruct (bend a =? bend b) eqn:E; [|now apply IH].
  apply N.eqb_eq in E. exfalso. apply Hn. rewrite E. now apply in_map.
Qed.
Lemma backref_eqb_refl b : backref_eqb b b = true.
Proof. unfold backref_eqb. now rewrite !N.eqb_refl. Qed.

Lemma backfill_no_panic h g b src : Good h g -> In b (gbackrefs g) -> blen b = nlen src -> exists r, backfill h (Some b) src g = Some r.
Proof.
  intros G Hin Hlen. pose proof (Good_BInv h g G) as B. unfold backfill.
  replace (blen b =? nlen src) with true by (symmetry; now apply N.eqb_eq). cbn [negb].
  rewrite (find_unique _ b (bi_keys g B) Hin), backref_eqb_refl. cbn [negb].
  destruct (bi_target g B b Hin) as (H0 & t & Ht & Hb & _).
  replace (bidx b <? gcslices g) with false by (symmetry; apply N.ltb_ge; exact H0).
  unfold tgt in Ht. rewrite Ht.
  replace (sl_len t <? bbegin b + nlen src) with false by (symmetry; apply N.ltb_ge; lia).
  destruct t; eauto.
Qed.

Lemma push_no_panic h s g : GInv h g -> sl_len s <= BIG -> exists h' g', push h s g = Some (h', g').
Proof.
  intros I Hl. unfold push.
  match goal with |- context [if ?c then _ else _] => destruct c eqn:Ec end.
  - apply push_copy_no_panic; [exact I|].
    apply orb_true_iff in Ec. destruct s as [c off len|bs]; cbn [sl_bytes sl_len] in *.
    + rewrite nlen_nfirstn. lia.
    + exact Hl.
  - destruct (push_borrowed_no_panic s g) as (g' & ->). eauto.
Qed.

Lemma anchored_n_no_panic h bs count g : GInv h g -> nlen bs <= count -> count <= BIG -> exists r, anchored_n h bs count g = Some r.
Proof.
  intros I Hc Hb. unfold anchored_n.
  destruct (N.eq_dec count 0) as [->|Hnz].
  { assert (bs = []) by (apply nlen_zero; lia). subst bs. cbn. eauto. }
  assert (Hcpos : 0 < count) by lia.
  destruct (arena_read_n h (gcache_ g) bs count) as [[[[hp kp'] sp] ap]|] eqn:EA.
  - destruct (arena_read_n_spec _ _ _ _ _ _ _ _ (gi_cache h g I) (gi_heap h g I) Hcpos Hc EA)
      as (kp & -> & Hk' & Hh' & _ & Hframe & Hbytes & Enew & _).
    destruct (sl_len sp =? 0); [eauto|].
    assert (I1 : GInv hp (set_cache (Some kp) g)).
    { constructor; cbn [set_cache gslices gcache_]; [exact Hh'|exact Hk'| |apply (gi_sorted h g I)].
      pose proof (gi_slices h g I) as F. rewrite Forall_forall in *. intros s0 Hin. apply Hframe. now apply F. }
    destruct (push_no_panic hp sp (set_cache (Some kp) g) I1) as (h2 & g2 & ->); [rewrite Enew; cbn [sl_len]; lia|eauto].
  - exfalso. unfold arena_read_n in EA.
    replace (count =? 0) with false in EA by (symmetry; apply N.eqb_neq; lia).
    replace (count <? nlen bs) with false in EA by (symmetry; apply N.ltb_ge; lia).
    destruct (alloc_no_panic h (gcache_ g) count Hb) as (h1 & k1 & E1). rewrite E1 in EA. discriminate.
Qed.

(* ---- the documented preconditions ---- *)
Definition pre (g : giov) (o : g1op) : Prop :=
  match o with
  | HPush bs | HPushCopy bs | HPushBorrowed bs | HAnchored bs | HRegister bs => nlen bs <= BIG
  | HExtend items => True
  | HAnchoredN bs count => nlen bs <= count /\ count <= BIG                  (* Read::read never reports more than it was asked for *)
  | HBackfill (Some b) src => In b (gbackrefs g) /\ blen b = nlen src        (* a pending handle of this iovec, of the right length *)
  | HBackfill None src => src = []
  | HPop => exists n, stable_count g = Some n /\ 1 <= n                      (* something is consumable *)
  | HEnsure n => n <= BIG
  | HConsume _ | HAdvance _ | HRead _ | HClear | HFlush => True
  end.

Theorem g1step_no_panic h g o : NP h g -> pre g o -> exists r, g1step h g o = Some r.
Proof.
  intros (G & AI) P. pose proof (Good_BInv h g G) as B. pose proof G as (I & _).
  destruct o as [bs|bs|bs|items|bs|p|b src|k|k| |k| | |k|bs count]; cbn [g1step pre] in *.
  - destruct (push_no_panic h (SExt bs) g I P) as (h' & g' & ->). eauto.
  - destruct (push_copy_no_panic h bs g I P) as (h' & g' & ->). eauto.
  - destruct (push_borrowed_no_panic (SExt bs) g) as (g' & ->). eauto.
  - assert (H : exists g', extend (map SExt items) g = Some g').
    { clear. revert g. induction items as [|bs items IH]; intros g; cbn [map extend]; [eauto|].
      destruct (push_borrowed_no_panic (SExt bs) g) as (g1 & ->). apply IH. }
    destruct H as (g' & ->). eauto.
  - destruct (anchored_n_no_panic h bs (nlen bs) g I (N.le_refl _) P) as ([h' g'] & E). unfold anchored. rewrite E. eauto.
  - destruct (register_no_panic h p g G P) as ([[h' g'] b] & ->). eauto.
  - destruct b as [b|].
    + destruct P as (Hin & Hlen). destruct (backfill_no_panic h g b src G Hin Hlen) as ([h' g'] & ->). eauto.
    + subst src. cbn. eauto.
  - destruct (consume_no_panic g k B AI) as (g' & n & ->). eauto.
  - destruct (advance_no_panic g k B AI) as (g' & n & ->). eauto.
  - destruct P as (n & ES & Hn). unfold pop_front, consume. rewrite ES.
    destruct (gd_consume_no_panic g (N.min 1 n) AI) as (g' & k & EG). rewrite EG.
    assert (k = 1).
    { unfold gd_consume in EG. destruct (drain _ (ganchors g)); [|discriminate].
      match type of EG with (if ?x then _ else _) = _ => destruct x; [discriminate|] end. inversion EG.
      unfold stable_count in ES. destruct (gbackrefs g) as [|b0 ?]; [inversion ES; lia|].
      destruct (bidx b0 <? gcslices g); [discriminate|]. inversion ES. lia. }
    subst k. eauto.
  - destruct (read_loop_no_panic h (S (length (gslices g))) k g [] (conj G AI)) as ([g' out] & E). unfold read. rewrite E. eauto.
  - eauto.
  - eauto.
  - destruct (ensure_no_panic h (gcache_ g) k P) as (h' & k' & ->). eauto.
  - destruct P as (Ec & Hb). replace (nlen bs <=? count) with true by (symmetry; apply N.leb_le; exact Ec).
    destruct (anchored_n_no_panic h bs count g I Ec Hb) as ([h' g'] & ->). eauto.
Qed.

(* every history: if a run panics, then some operation was called outside its documented precondition *)
Theorem g1run_no_panic ops : forall h g, NP h g -> g1run h g ops = None ->
  exists ops1 o ops2 h1 g1 xs, ops = ops1 ++ o :: ops2 /\ g1run h g ops1 = Some (h1, g1, xs) /\ ~ pre g1 o.
Proof.
  induction ops as [|o ops IH]; intros h g N E; cbn [g1run] in E; [discriminate|].
  destruct (g1step h g o) as [[[h1 g1] x]|] eqn:ES.
  - destruct (g1run h1 g1 ops) as [[[h2 g2] xs2]|] eqn:ER; [discriminate|].
    destruct (IH h1 g1 (NP_step _ _ _ _ _ _ N ES) ER) as (ops1 & o' & ops2 & h3 & g3 & xs & Eo & Er & Hp).
    exists (o :: ops1), o', ops2, h3, g3, (x :: xs). split; [rewrite Eo; reflexivity|]. split; [|exact Hp].
    cbn [g1run]. rewrite ES, Er. reflexivity.
  - exists [], o, ops, h, g, []. split; [reflexivity|]. split; [reflexivity|].
    intros P. destruct (g1step_no_panic h g o N P) as (r & Er). congruence.
Qed.
Corollary geo_never_panics ops : g1run [] empty_iov ops = None ->
  exists ops1 o ops2 h1 g1 xs, ops = ops1 ++ o :: ops2 /\ g1run [] empty_iov ops1 = Some (h1, g1, xs) /\ ~ pre g1 o.
Proof. apply g1run_no_panic. apply NP_empty. Qed.

