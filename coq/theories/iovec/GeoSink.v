(* The geometry-faithful OwningIovec (iovec/Geo.v) implements the abstract sink of the encoder model (hcobs/EncSink.v):
   composition of GeoRefine (Geo refines the pipe for the merge decisions it computes) with hcobs/SinkSim (the pipe
   implements the sink up to renaming of hole ids, Reads being particular drains). *)
From Coq Require Import List NArith Bool Arith Lia.
From WP Require Import hcobs.Stuffing hcobs.EncSink hcobs.SinkSim.
From WP Require Import iovec.Geo iovec.GeoMem iovec.GeoProofs iovec.GeoRefine iovec.GeoHistory.
From WP Require iovec.Pipe iovec.PipeProofs iovec.PipeProofs2 iovec.PipeProofs3 iovec.PipeProofs4.
Import ListNotations.
Open Scope nat_scope.

Definition GS (m : nat -> nat) (s : sink) (h : heap) (g : giov) : Prop :=
  GInv h g /\ exists p, SR m s p /\ R h g p /\ PipeProofs.Inv p.

Lemma GS_empty m : GS m s_empty [] empty_iov.
Proof.
  split; [apply GInv_empty; intros c Hc; cbn in Hc; lia|]. exists Pipe.empty_st.
  split; [apply SR_empty|]. split; [apply R_empty|apply PipeProofs4.Inv_empty].
Qed.

Theorem geo_sink_push m s h g bs h' g' : GS m s h g -> push h (SExt bs) g = Some (h', g') -> GS m (s_push s bs) h' g'.
Proof.
  intros (I & p & S & Rs & PI) E. destruct (push_refines _ _ _ _ _ _ I Rs E) as (I' & merged & R').
  split; [exact I'|]. exists (Pipe.push merged bs p). split; [now apply sim_push|]. split; [exact R'|now apply PipeProofs2.push_inv].
Qed.
Theorem geo_sink_push_copy m s h g bs h' g' : GS m s h g -> push_copy h bs g = Some (h', g') -> GS m (s_push s bs) h' g'.
Proof.
  intros (I & p & S & Rs & PI) E. destruct (push_copy_refines _ _ _ _ _ _ I Rs E) as (I' & merged & R').
  split; [exact I'|]. exists (Pipe.push merged bs p). split; [now apply sim_push|]. split; [exact R'|now apply PipeProofs2.push_inv].
Qed.

Theorem geo_sink_register m s h g pat h' g' b : GS m s h g -> pat <> [] -> register_patch h pat g = Some (h', g', b) ->
  exists m', GS m' (fst (s_register s (length pat))) h' g' /\
             option_map (fun b => N.to_nat (bend b)) b = Some (m' (snd (s_register s (length pat)))) /\
             (forall id, id < nid s -> m' id = m id).
Proof.
  intros (I & p & S & Rs & PI) Hne E. destruct (register_refines _ _ _ _ _ _ _ I Rs E) as (I' & merged & R' & Hid).
  destruct (sim_register m s p merged pat S Hne) as (S' & Hid').
  eexists. split; [split; [exact I'|]; eexists; split; [exact S'|]; split; [exact R'|now apply PipeProofs2.register_inv]|].
  split; [rewrite Hid; exact Hid'|].
  intros id Hlt. cbn beta. destruct (Nat.eqb id (nid s)) eqn:Eq; [apply Nat.eqb_eq in Eq; lia|reflexivity].
Qed.

Theorem geo_sink_backfill m s h g id b bs s' h' g' : GS m s h g -> id < nid s -> N.to_nat (bend b) = m id ->
  s_backfill s id bs = Ok s' -> backfill h (Some b) bs g = Some (h', g') -> GS m s' h' g'.
Proof.
  intros (I & p & S & Rs & PI) Hid Hb Es E. destruct (backfill_refines _ _ _ _ _ _ _ I Rs E) as (I' & p' & Ep & R').
  rewrite Hb in Ep. split; [exact I'|]. exists p'. split; [eapply sim_backfill; eauto|]. split; [exact R'|].
  eapply PipeProofs3.backfill_inv; eauto.
Qed.

(* Read: the bytes handed out are what a sequence of drains of the sink hands out *)
Lemma pipe_reads_sink m : forall ws s p, SR m s p -> PipeProofs.Inv p ->
  exists ks, SR m (fold_left s_drain ks s) (fst (pipe_reads ws p)) /\ PipeProofs.Inv (fst (pipe_reads ws p)) /\
             taken (fold_left s_drain ks s) = taken s ++ snd (pipe_reads ws p).
Proof.
  induction ws as [|w ws IH]; intros s p S PI.
  - exists []. cbn. split; [exact S|]. split; [exact PI|now rewrite app_nil_r].
  - cbn [pipe_reads]. destruct (sim_read m s p w S PI) as (S1 & T1).
    destruct (PipeProofs4.read_refines w p PI) as (_ & PI1 & _).
    destruct (Pipe.read w p) as [p1 b1] eqn:ER. cbn [fst snd] in *.
    destruct (IH (s_drain s (length b1)) p1 S1 PI1) as (ks & S2 & PI2 & T2).
    destruct (pipe_reads ws p1) as [p2 b2] eqn:EP. cbn [fst snd] in *.
    exists (length b1 :: ks). cbn [fold_left]. split; [exact S2|]. split; [exact PI2|]. rewrite T2, T1, app_assoc. reflexivity.
Qed.
Theorem geo_sink_read m s h g n g' out : GS m s h g -> read h n g = Some (g', out) ->
  exists ks, GS m (fold_left s_drain ks s) h g' /\ taken (fold_left s_drain ks s) = taken s ++ out.
Proof.
  intros (I & p & S & Rs & PI) E. destruct (read_refines _ _ _ _ _ _ I Rs E) as (I' & ws & R' & Hout).
  destruct (pipe_reads_sink m ws s p S PI) as (ks & S' & PI' & T). exists ks. split; [|now rewrite T, Hout].
  split; [exact I'|]. eauto.
Qed.

(* C09 at slice level, end to end for the models: when the iovec is the sink of an encoder whose sink-level lag
   (cells from the first pending header on) is L, the bytes buffered but not consumable through stable_prefix are fewer
   than L plus the length of the one slice that holds the pending header, and that slice fits in its arena chunk *)
From WP Require iovec.GeoLag.
Theorem geo_sink_lag m s h g : GS m s h g ->
  exists p, R h g p /\ PipeProofs.Inv p /\
    GeoLag.cell_lag p = length (cells s) - length (stable (cells s)) /\
    match gbackrefs g with
    | [] => GeoLag.slice_lag p = 0
    | _ => exists t, nth_error (gslices g) (Pipe.stable_count p) = Some t /\
                     GeoLag.slice_lag p < GeoLag.cell_lag p + N.to_nat (sl_len t) /\
                     (forall c off len, t = SArena c off len -> (len <= nlen (cdata (chunk_at h c)))%N)
    end.
Proof.
  intros (I & p & S & Rs & PI). exists p. split; [exact Rs|]. split; [exact PI|].
  split; [apply (sr_cell_lag m s p S)|]. exact (GeoLag.geo_slice_lag h g p I Rs PI).
Qed.
