(* The geometry-faithful model (iovec/Geo.v) refines the value-level pipe (iovec/Pipe.v): for a single
   OwningIovec with its own heap, every producer operation of Geo is a Pipe operation for the merge
   decision that Geo computes, and every consumer operation returns what Pipe returns.  Hence the
   theorems of C03 / C04 (stated for every merge decision) apply to the model in which the decision is
   computed from the arena geometry as in the source. *)
From Coq Require Import List NArith Bool Arith Lia.
From WP Require Import iovec.Arena iovec.Geo iovec.GeoMem iovec.GeoProofs.
From WP Require iovec.Pipe.
Import ListNotations.
Open Scope N_scope.

Definition conv (b : gbackref) : Pipe.backref :=
  {| Pipe.br_id := N.to_nat (bend b); Pipe.br_idx := N.to_nat (bidx b);
     Pipe.br_begin := N.to_nat (bbegin b); Pipe.br_len := N.to_nat (blen b) |}.

Record R (h : heap) (g : giov) (s : Pipe.st) : Prop := {
  r_bytes : map (map fst) (Pipe.slices s) = map (sl_bytes h) (gslices g);
  r_consumed : Pipe.consumed s = N.to_nat (gcslices g);
  r_table : Pipe.table s = map conv (gbackrefs g);
  r_logical : Pipe.logical s = N.to_nat (glogical g);
  r_taken : Pipe.taken s = N.to_nat (gcsize g) }.

Lemma R_empty h : R h empty_iov Pipe.empty_st.
Proof. constructor; reflexivity. Qed.

Lemma push_raw_snoc ms (front : list (list Pipe.mbyte)) last : Pipe.push_raw true ms (front ++ [last]) = front ++ [last ++ ms].
Proof. unfold Pipe.push_raw. rewrite rev_app_distr. cbn [rev app]. now rewrite rev_involutive. Qed.
Lemma map_fst_plain bs : map fst (Pipe.plain bs) = bs.
Proof. unfold Pipe.plain. rewrite map_map. cbn. apply map_id. Qed.
Lemma map_fst_marked id bs : map fst (Pipe.marked id bs) = bs.
Proof. unfold Pipe.marked. rewrite map_map. cbn. apply map_id. Qed.
Lemma length_plain bs : length (Pipe.plain bs) = length bs.
Proof. unfold Pipe.plain. apply map_length. Qed.

Lemma map_snoc_inv {A B} (f : A -> B) l ys y : map f l = ys ++ [y] -> exists l0 x, l = l0 ++ [x] /\ map f l0 = ys /\ f x = y.
Proof.
  intros H. destruct (rev l) as [|x r] eqn:E.
  - assert (l = []) by (rewrite <- (rev_involutive l), E; reflexivity). subst. destruct ys; discriminate.
  - assert (El : l = rev r ++ [x]) by (rewrite <- (rev_involutive l), E; reflexivity).
    exists (rev r), x. split; [exact El|]. rewrite El, map_app in H. cbn [map] in H.
    apply app_inj_tail in H. tauto.
Qed.

(* the slices of the pipe side, seen through their bytes: appended (not merged) or merged into the last one *)
Lemma bytes_push_new ms (sl : list (list Pipe.mbyte)) bl b :
  map (map fst) sl = bl -> map fst ms = b -> map (map fst) (Pipe.push_raw false ms sl) = bl ++ [b].
Proof. intros <- <-. unfold Pipe.push_raw. now rewrite map_app. Qed.
Lemma bytes_push_merged ms (sl : list (list Pipe.mbyte)) bl last b :
  map (map fst) sl = bl ++ [last] -> map fst ms = b -> map (map fst) (Pipe.push_raw true ms sl) = bl ++ [last ++ b].
Proof.
  intros H <-. destruct (map_snoc_inv _ _ _ _ H) as (front & x & -> & <- & <-).
  rewrite push_raw_snoc, map_app. cbn [map]. now rewrite map_app.
Qed.

(* the generic shape of "a slice with these bytes was appended, then optimize ran" *)
Lemma appended_then_optimized h h' g g1 g' snew bytes (sl : list (list Pipe.mbyte)) ms :
  GInv h g ->
  (forall s0, sl_ok h s0 -> sl_bytes h' s0 = sl_bytes h s0 /\ sl_ok h' s0) ->
  sl_ok h' snew -> sl_bytes h' snew = bytes ->
  (forall s0, In s0 (gslices g) -> sl_before s0 snew) ->
  gslices g1 = gslices g ++ [snew] ->
  optimize g1 = Some g' ->
  map (map fst) sl = map (sl_bytes h) (gslices g) -> map fst ms = bytes ->
  Forall (sl_ok h') (gslices g') /\ pairwise sl_before (gslices g') /\
  exists merged, map (map fst) (Pipe.push_raw merged ms sl) = map (sl_bytes h') (gslices g') /\
                 (merged = false -> gslices g' = gslices g ++ [snew]) /\
                 (merged = true -> length (gslices g') = length (gslices g) /\ gslices g <> []).
Proof.
  intros I Hframe Hok Hbytes Hbefore E1 EO Hsl Hms.
  assert (Hold : map (sl_bytes h') (gslices g) = map (sl_bytes h) (gslices g)).
  { apply map_ext_in. intros s0 Hin. apply Hframe. pose proof (gi_slices h g I) as F. rewrite Forall_forall in F. now apply F. }
  assert (Fold : Forall (sl_ok h') (gslices g)).
  { pose proof (gi_slices h g I) as F. rewrite Forall_forall in *. intros s0 Hin. apply Hframe. now apply F. }
  assert (F1 : Forall (sl_ok h') (gslices g ++ [snew])) by (apply Forall_app; split; [exact Fold|constructor; [exact Hok|constructor]]).
  assert (P1 : pairwise sl_before (gslices g ++ [snew])) by (apply pairwise_snoc; [apply (gi_sorted h g I)|exact Hbefore]).
  destruct (optimize_spec _ _ EO) as (_ & _ & _ & _ & _ & [Esame|(front & c & lo & ll & rl & Eg1 & Eg')]).
  - rewrite Esame, E1. split; [exact F1|]. split; [exact P1|]. exists false. split; [|split; [reflexivity|discriminate]].
    rewrite map_app. cbn [map]. rewrite Hold, Hbytes. apply bytes_push_new; auto.
  - rewrite E1 in Eg1.
    assert (Eg : gslices g = front ++ [SArena c lo ll] /\ snew = SArena c (lo + ll) rl).
    { change (front ++ [SArena c lo ll; SArena c (lo + ll) rl]) with (front ++ [SArena c lo ll] ++ [SArena c (lo + ll) rl]) in Eg1.
      rewrite app_assoc in Eg1. apply app_inj_tail in Eg1. tauto. }
    destruct Eg as (Eg & Enew). rewrite Eg'.
    assert (Fl : sl_ok h' (SArena c lo ll)).
    { rewrite Forall_forall in Fold. apply Fold. rewrite Eg. apply in_or_app. right. now left. }
    split; [|split].
    + apply Forall_app. split.
      * rewrite Eg in Fold. apply Forall_app in Fold. tauto.
      * constructor; [|constructor]. rewrite Enew in Hok. cbn [sl_ok] in *. repeat split; try tauto; lia.
    + (* sortedness: the merged slice starts where the left part started *)
      pose proof (gi_sorted h g I) as PS. rewrite Eg in PS.
      apply pairwise_snoc; [eapply pairwise_prefix; exact PS|].
      intros a Ha. pose proof (pairwise_last_in _ _ _ _ PS Ha) as Hb.
      destruct a as [ca oa la|]; cbn [sl_before] in *; auto.
    + exists true. split; [|split; [discriminate|]].
      * rewrite map_app. cbn [map]. rewrite sl_bytes_join.
        assert (Efront : map (sl_bytes h') front = map (sl_bytes h) front).
        { rewrite Eg, !map_app in Hold. apply app_inj_tail in Hold. tauto. }
        assert (El : sl_bytes h' (SArena c lo ll) = sl_bytes h (SArena c lo ll)).
        { rewrite Eg, !map_app in Hold. cbn [map] in Hold. apply app_inj_tail in Hold. tauto. }
        rewrite Efront, El. rewrite <- Enew, Hbytes.
        apply bytes_push_merged; [|exact Hms]. rewrite Hsl, Eg, map_app. reflexivity.
      * intros _. rewrite Eg, !app_length. cbn [length]. split; [lia|]. destruct front; discriminate.
Qed.

Lemma push_copy_inv h src g h' g' : src <> [] -> push_copy h src g = Some (h', g') ->
  exists k1 snew old' fresh anchors2,
    arena_copy h (gcache_ g) src (back (ganchors g)) = Some (h', k1, snew, old', fresh) /\
    optimize {| gslices := gslices g ++ [snew]; ganchors := anchors2; glogical := glogical g + nlen src;
                gcsize := gcsize g; gcslices := gcslices g; gcache_ := Some k1; gbackrefs := gbackrefs g |} = Some g'.
Proof.
  intros Hne E. unfold push_copy in E. destruct src as [|b0 src0]; [congruence|].
  destruct (arena_copy h (gcache_ g) (b0 :: src0) (back (ganchors g))) as [[[[[h1 k1] snew] old'] fresh]|] eqn:EA; [|discriminate].
  exists k1, snew, old', fresh.
  destruct fresh as [fa|].
  - match type of E with context [optimize ?G] => destruct (optimize G) as [gx|] eqn:EO; [|discriminate] end.
    inversion E; subst h1 gx. eexists. split; [reflexivity|exact EO].
  - destruct (match old' with Some a => set_back (ganchors g) a | None => ganchors g end) as [|a0 al] eqn:EAn; [discriminate|].
    match type of E with context [optimize ?G] => destruct (optimize G) as [gx|] eqn:EO; [|discriminate] end.
    inversion E; subst h1 gx. eexists. split; [reflexivity|exact EO].
Qed.

Lemma in_sl_before_new h g k' n s0 :
  GInv h g -> (forall s1, sl_ok h s1 -> sl_chunk s1 = Some (kchunk k') -> sl_end s1 <= kbump k' - n) ->
  In s0 (gslices g) -> sl_before s0 (SArena (kchunk k') (kbump k' - n) n).
Proof.
  intros I Hend Hin. destruct s0 as [c off len|bs]; cbn [sl_before]; auto. intros ->.
  pose proof (gi_slices h g I) as F. rewrite Forall_forall in F.
  apply (Hend (SArena (kchunk k') off len) (F _ Hin) eq_refl).
Qed.

Theorem push_copy_refines h g s src h' g' :
  GInv h g -> R h g s -> push_copy h src g = Some (h', g') ->
  GInv h' g' /\ exists merged, R h' g' (Pipe.push merged src s).
Proof.
  intros I Rs E. destruct src as [|b0 src0] eqn:Esrc.
  - cbn in E. inversion E; subst h' g'. split; [exact I|]. exists false. exact Rs.
  - rewrite <- Esrc in *. assert (Hne : src <> []) by (rewrite Esrc; discriminate).
    destruct (push_copy_inv _ _ _ _ _ Hne E) as (k1 & snew & old' & fresh & anchors2 & EA & EO).
    destruct (arena_copy_spec _ _ _ _ _ _ _ _ _ (gi_cache h g I) (gi_heap h g I) EA)
      as (_ & Hk' & Hh' & _ & Hframe & Hok & Hbytes & Hle & Enew & Hend & _ & _).
    assert (Hbefore : forall s0, In s0 (gslices g) -> sl_before s0 snew).
    { intros s0 Hin. rewrite Enew. exact (in_sl_before_new h g k1 (nlen src) s0 I Hend Hin). }
    match type of EO with optimize ?G = _ => set (g1 := G) in * end.
    destruct (appended_then_optimized h h' g g1 g' snew src (Pipe.slices s) (Pipe.plain src) I Hframe Hok Hbytes
                Hbefore eq_refl EO (r_bytes _ _ _ Rs) (map_fst_plain src))
      as (F' & P' & merged & Hb & _ & _).
    destruct (optimize_spec _ _ EO) as (Ec & El & Esz & Ecs & Ebr & _). subst g1. cbn [gcache_ glogical gcsize gcslices gbackrefs] in *.
    split.
    + constructor; [exact Hh'|rewrite Ec; exact Hk'|exact F'|exact P'].
    + exists merged. unfold Pipe.push. rewrite Esrc. rewrite <- Esrc.
      constructor; cbn [Pipe.slices Pipe.consumed Pipe.table Pipe.logical Pipe.taken].
      * exact Hb.
      * rewrite Ecs. apply (r_consumed _ _ _ Rs).
      * rewrite Ebr. apply (r_table _ _ _ Rs).
      * rewrite El, (r_logical _ _ _ Rs). unfold nlen. lia.
      * rewrite Esz. apply (r_taken _ _ _ Rs).
Qed.

Lemma frame_id h : forall s0, sl_ok h s0 -> sl_bytes h s0 = sl_bytes h s0 /\ sl_ok h s0.
Proof. auto. Qed.

Theorem push_borrowed_refines h g s bs g' :
  GInv h g -> R h g s -> push_borrowed (SExt bs) g = Some g' ->
  GInv h g' /\ exists merged, R h g' (Pipe.push merged bs s).
Proof.
  intros I Rs E. unfold push_borrowed in E. cbn [sl_len] in E.
  destruct (nlen bs =? 0) eqn:E0.
  - apply N.eqb_eq, nlen_zero in E0. subst bs. inversion E; subst g'. split; [exact I|]. exists false. exact Rs.
  - apply N.eqb_neq in E0. assert (Hne : bs <> []) by (intros ->; apply E0; reflexivity).
    match type of E with context [back ?L] => destruct (back L) as [a|]; [|discriminate] end.
    match type of E with optimize ?G = _ => set (g1 := G) in * end.
    assert (Hbefore : forall s0, In s0 (gslices g) -> sl_before s0 (SExt bs)) by (intros [? ? ?|?] _; exact Logic.I).
    destruct (appended_then_optimized h h g g1 g' (SExt bs) bs (Pipe.slices s) (Pipe.plain bs) I (frame_id h) Hne eq_refl
                Hbefore eq_refl E (r_bytes _ _ _ Rs) (map_fst_plain bs))
      as (F' & P' & merged & Hb & _ & _).
    destruct (optimize_spec _ _ E) as (Ec & El & Esz & Ecs & Ebr & _). subst g1. cbn [gcache_ glogical gcsize gcslices gbackrefs] in *.
    split.
    + constructor; [apply (gi_heap h g I)|rewrite Ec; apply (gi_cache h g I)|exact F'|exact P'].
    + exists merged. unfold Pipe.push. destruct bs as [|b0 bs0] eqn:Ebs; [congruence|]. rewrite <- Ebs in *.
      constructor; cbn [Pipe.slices Pipe.consumed Pipe.table Pipe.logical Pipe.taken].
      * exact Hb.
      * rewrite Ecs. apply (r_consumed _ _ _ Rs).
      * rewrite Ebr. apply (r_table _ _ _ Rs).
      * rewrite El, (r_logical _ _ _ Rs). cbn [sl_len]. unfold nlen. lia.
      * rewrite Esz. apply (r_taken _ _ _ Rs).
Qed.

(* OwningIovec::push on caller memory: whichever way the policy decides, the bytes are appended *)
Theorem push_refines h g s bs h' g' :
  GInv h g -> R h g s -> push h (SExt bs) g = Some (h', g') ->
  GInv h' g' /\ exists merged, R h' g' (Pipe.push merged bs s).
Proof.
  intros I Rs E. unfold push in E.
  match type of E with (if ?c then _ else _) = _ => destruct c end.
  - cbn [sl_bytes] in E. eapply push_copy_refines; eauto.
  - destruct (push_borrowed (SExt bs) g) as [gx|] eqn:EB; [|discriminate]. inversion E; subst h' gx.
    eapply push_borrowed_refines; eauto.
Qed.

(* extend = a sequence of borrowed pushes; on the pipe side a fold of pushes with the computed merge flags *)
Fixpoint pipe_pushes (ms : list bool) (items : list (list N)) (s : Pipe.st) : Pipe.st :=
  match ms, items with
  | m :: ms', bs :: items' => pipe_pushes ms' items' (Pipe.push m bs s)
  | _, _ => s
  end.
Theorem extend_refines h items : forall g s g',
  GInv h g -> R h g s -> extend (map SExt items) g = Some g' ->
  GInv h g' /\ exists ms, length ms = length items /\ R h g' (pipe_pushes ms items s).
Proof.
  induction items as [|bs items IH]; intros g s g' I Rs E.
  - cbn in E. inversion E; subst g'. split; [exact I|]. exists []. split; [reflexivity|exact Rs].
  - cbn [map extend] in E. destruct (push_borrowed (SExt bs) g) as [g1|] eqn:EB; [|discriminate].
    destruct (push_borrowed_refines _ _ _ _ _ I Rs EB) as (I1 & m & R1).
    destruct (IH _ _ _ I1 R1 E) as (I' & ms & Hl & R').
    split; [exact I'|]. exists (m :: ms). split; [cbn; lia|exact R'].
Qed.

(* push_copy seen from any pipe-side representation ms of the copied bytes (plain for push, marked for
   register_patch) *)
Lemma push_copy_core h g s src h' g' ms :
  GInv h g -> R h g s -> src <> [] -> push_copy h src g = Some (h', g') -> map fst ms = src ->
  GInv h' g' /\ gcslices g' = gcslices g /\ gbackrefs g' = gbackrefs g /\ glogical g' = glogical g + nlen src /\
  gcsize g' = gcsize g /\
  exists merged, map (map fst) (Pipe.push_raw merged ms (Pipe.slices s)) = map (sl_bytes h') (gslices g').
Proof.
  intros I Rs Hne E Hms.
  destruct (push_copy_inv _ _ _ _ _ Hne E) as (k1 & snew & old' & fresh & anchors2 & EA & EO).
  destruct (arena_copy_spec _ _ _ _ _ _ _ _ _ (gi_cache h g I) (gi_heap h g I) EA)
    as (_ & Hk' & Hh' & _ & Hframe & Hok & Hbytes & Hle & Enew & Hend & _ & _).
  assert (Hbefore : forall s0, In s0 (gslices g) -> sl_before s0 snew).
  { intros s0 Hin. rewrite Enew. exact (in_sl_before_new h g k1 (nlen src) s0 I Hend Hin). }
  match type of EO with optimize ?G = _ => set (g1 := G) in * end.
  destruct (appended_then_optimized h h' g g1 g' snew src (Pipe.slices s) ms I Hframe Hok Hbytes
              Hbefore eq_refl EO (r_bytes _ _ _ Rs) Hms)
    as (F' & P' & merged & Hb & _ & _).
  destruct (optimize_spec _ _ EO) as (Ec & El & Esz & Ecs & Ebr & _). subst g1. cbn [gcache_ glogical gcsize gcslices gbackrefs] in *.
  split; [constructor; [exact Hh'|rewrite Ec; exact Hk'|exact F'|exact P']|].
  repeat split; auto. exists merged. exact Hb.
Qed.

Lemma back_snoc {A} (l : list A) x : back l = Some x -> exists front, l = front ++ [x].
Proof.
  unfold back. destruct (rev l) as [|y r] eqn:E; [discriminate|]. intros H; inversion H; subst y.
  exists (rev r). rewrite <- (rev_involutive l), E. reflexivity.
Qed.
Lemma back_none {A} (l : list A) : back l = None -> l = [].
Proof.
  unfold back. destruct (rev l) as [|y r] eqn:E; [|discriminate]. intros _.
  rewrite <- (rev_involutive l), E. reflexivity.
Qed.
Lemma last_snoc {A} (l : list A) x d : last (l ++ [x]) d = x.
Proof. induction l as [|a l IH]; [reflexivity|]. cbn [app]. destruct (l ++ [x]) eqn:E; [destruct l; discriminate|]. exact IH. Qed.

Theorem register_refines h g s p h' g' b :
  GInv h g -> R h g s -> register_patch h p g = Some (h', g', b) ->
  GInv h' g' /\ exists merged, R h' g' (fst (Pipe.register merged p s)) /\
                               option_map (fun b => N.to_nat (bend b)) b = snd (Pipe.register merged p s).
Proof.
  intros I Rs E. unfold register_patch in E. destruct p as [|p0 pr] eqn:Ep.
  - inversion E; subst h' g' b. split; [exact I|]. exists false. cbn. auto.
  - rewrite <- Ep in *. assert (Hne : p <> []) by (rewrite Ep; discriminate).
    destruct (push_copy h p g) as [[h1 g1]|] eqn:EP; [|discriminate].
    destruct (back (gslices g1)) as [l|] eqn:EB; [|discriminate].
    destruct (glogical g1 =? 0); [discriminate|].
    set (id := (Pipe.logical s + length p)%nat).
    destruct (push_copy_core h g s p h1 g1 (Pipe.marked id p) I Rs Hne EP (map_fst_marked id p))
      as (I1 & Ecs & Ebr & El & Esz & merged & Hb).
    set (bb := {| bend := glogical g1; bidx := gcslices g1 + nlen (gslices g1) - 1; bbegin := sl_len l - nlen p; blen := nlen p |}) in *.
    assert (Hres : h' = h1 /\ b = Some bb /\ gslices g' = gslices g1 /\ gcslices g' = gcslices g1 /\ glogical g' = glogical g1 /\
                   gcsize g' = gcsize g1 /\ gcache_ g' = gcache_ g1 /\ gbackrefs g' = gbackrefs g1 ++ [bb]).
    { destruct (back (gbackrefs g1)) as [pp|] eqn:EBB.
      - destruct (bend bb <=? bend pp); [discriminate|]. inversion E; subst h' g' b. cbn. repeat split; auto.
      - apply back_none in EBB. inversion E; subst h' g' b. cbn. rewrite EBB. repeat split; auto. }
    destruct Hres as (-> & -> & Esl & Ecs' & El' & Esz' & Ec' & Ebr').
    split.
    + destruct I1 as [H1 H2 H3 H4]. constructor; [exact H1|rewrite Ec'; exact H2|rewrite Esl; exact H3|rewrite Esl; exact H4].
    + exists merged. unfold Pipe.register. rewrite Ep. rewrite <- Ep. fold id.
      cbn [fst snd option_map bend].
      assert (Hid : N.to_nat (glogical g1) = id).
      { unfold id. rewrite El, (r_logical _ _ _ Rs). unfold nlen. lia. }
      split; [|unfold bb; cbn [bend]; now rewrite Hid].
      assert (Hlen : length (Pipe.push_raw merged (Pipe.marked id p) (Pipe.slices s)) = length (gslices g1)).
      { pose proof (f_equal (@length _) Hb) as HbL. rewrite !map_length in HbL. exact HbL. }
      destruct (back_snoc _ _ EB) as (front & Efront).
      assert (Hlast : length (last (Pipe.push_raw merged (Pipe.marked id p) (Pipe.slices s)) []) = N.to_nat (sl_len l)).
      { rewrite Efront, map_app in Hb. cbn [map] in Hb.
        destruct (map_snoc_inv _ _ _ _ Hb) as (pf & px & Epr & _ & Hpx). rewrite Epr, last_snoc.
        pose proof (f_equal (@length _) Hpx) as HpL. rewrite map_length in HpL.
        transitivity (length (sl_bytes h1 l)); [exact HpL|].
        assert (Hok : sl_ok h1 l).
        { pose proof (gi_slices _ _ I1) as F. rewrite Forall_forall in F. apply F. rewrite Efront. apply in_or_app. right. now left. }
        rewrite <- (sl_len_bytes h1 l Hok). unfold nlen. lia. }
      constructor; cbn [Pipe.slices Pipe.consumed Pipe.table Pipe.logical Pipe.taken].
      * rewrite Esl. exact Hb.
      * rewrite Ecs', Ecs. apply (r_consumed _ _ _ Rs).
      * rewrite Ebr', map_app, Ebr, <- (r_table _ _ _ Rs). cbn [map]. f_equal. f_equal.
        unfold conv, bb. cbn [bend bidx bbegin blen]. rewrite Hlen, Hlast, Hid, (r_consumed _ _ _ Rs), Ecs.
        f_equal; unfold nlen; try lia.
      * rewrite El'. symmetry. exact Hid.
      * rewrite Esz', Esz. apply (r_taken _ _ _ Rs).
Qed.

(* ---- backfill ---- *)
Lemma nth_error_ext {A} (l1 l2 : list A) : (forall i, nth_error l1 i = nth_error l2 i) -> l1 = l2.
Proof.
  revert l2. induction l1 as [|x l1 IH]; intros l2 H.
  - destruct l2; [reflexivity|]. specialize (H 0%nat). discriminate.
  - destruct l2 as [|y l2]; [specialize (H 0%nat); discriminate|].
    pose proof (H 0%nat) as H0. cbn in H0. inversion H0; subst y. f_equal. apply IH. intros i. apply (H (S i)).
Qed.
Lemma nth_error_pupdate {A} (f : A -> A) l k i :
  nth_error (Pipe.update_nth k f l) i = if Nat.eqb i k then option_map f (nth_error l i) else nth_error l i.
Proof.
  revert k i. induction l as [|x t IH]; intros k i.
  - destruct k; cbn [Pipe.update_nth]; destruct (Nat.eqb i _); destruct i; reflexivity.
  - destruct k as [|k]; destruct i as [|i]; cbn [Pipe.update_nth nth_error Nat.eqb option_map]; try reflexivity. apply IH.
Qed.
Lemma nth_error_gupdate {A} (f : A -> A) l k i :
  nth_error (Geo.update_nth k f l) i = if Nat.eqb i k then option_map f (nth_error l i) else nth_error l i.
Proof.
  revert k i. induction l as [|x t IH]; intros k i.
  - destruct k; cbn [Geo.update_nth]; destruct (Nat.eqb i _); destruct i; reflexivity.
  - destruct k as [|k]; destruct i as [|i]; cbn [Geo.update_nth nth_error Nat.eqb option_map]; try reflexivity. apply IH.
Qed.

Lemma map_fst_write_at begin src sl :
  map fst (Pipe.write_at begin src sl) = poke (map fst sl) (N.of_nat begin) src.
Proof.
  unfold Pipe.write_at, poke, nfirstn, nskipn, nlen. rewrite !map_app, map_fst_plain, firstn_map, skipn_map.
  rewrite Nat2N.id. repeat f_equal. lia.
Qed.

Lemma find_conv id l b0 : id = N.to_nat (bend b0) ->
  find (fun b' => Nat.eqb (Pipe.br_id b') id) (map conv l) = option_map conv (find (fun p => bend p =? bend b0) l).
Proof.
  intros ->. induction l as [|p l IH]; [reflexivity|]. cbn [map find conv Pipe.br_id].
  destruct (bend p =? bend b0) eqn:E.
  - apply N.eqb_eq in E. rewrite E, Nat.eqb_refl. reflexivity.
  - apply N.eqb_neq in E. destruct (Nat.eqb (N.to_nat (bend p)) (N.to_nat (bend b0))) eqn:E2.
    + apply Nat.eqb_eq in E2. exfalso. apply E. lia.
    + exact IH.
Qed.
Lemma filter_conv id l b0 : id = N.to_nat (bend b0) ->
  filter (fun b' => negb (Nat.eqb (Pipe.br_id b') id)) (map conv l) = map conv (filter (fun p => negb (bend p =? bend b0)) l).
Proof.
  intros ->. induction l as [|p l IH]; [reflexivity|]. cbn [map filter conv Pipe.br_id].
  assert (E : Nat.eqb (N.to_nat (bend p)) (N.to_nat (bend b0)) = (bend p =? bend b0)).
  { destruct (bend p =? bend b0) eqn:E1.
    - apply N.eqb_eq in E1. rewrite E1. apply Nat.eqb_refl.
    - apply N.eqb_neq in E1. apply Nat.eqb_neq. lia. }
  rewrite E. destruct (bend p =? bend b0); cbn [negb]; [exact IH|]. cbn [map]. f_equal. exact IH.
Qed.
Lemma backref_eqb_eq p b : backref_eqb p b = true -> p = b.
Proof.
  unfold backref_eqb. rewrite !andb_true_iff, !N.eqb_eq. intros (((H1 & H2) & H3) & H4).
  destruct p, b; cbn in *; subst; reflexivity.
Qed.

Lemma nth_error_map_eq {A B C} (f : A -> C) (g : B -> C) l1 l2 i y :
  map f l1 = map g l2 -> nth_error l2 i = Some y -> exists x, nth_error l1 i = Some x /\ f x = g y.
Proof.
  revert l2 i. induction l1 as [|a l1 IH]; intros l2 i H Hy.
  - destruct l2; [destruct i; discriminate|discriminate].
  - destruct l2 as [|b l2]; [discriminate|]. cbn [map] in H. inversion H.
    destruct i as [|i]; cbn [nth_error] in *.
    + inversion Hy; subst. eauto.
    + eapply IH; eauto.
Qed.

Lemma map_pupdate {A B} (f : A -> B) w w' i l : (forall x, f (w x) = w' (f x)) ->
  map f (Pipe.update_nth i w l) = Geo.update_nth i w' (map f l).
Proof.
  intros H. revert i. induction l as [|x l IH]; intros i; [destruct i; reflexivity|].
  destruct i; cbn [Pipe.update_nth Geo.update_nth map]; [now rewrite H|now rewrite IH].
Qed.

(* an in-place write inside slice number i of g leaves the bytes of every other slice of g unchanged *)
Lemma poke_other_slices h g i c off len b src j sj :
  GInv h g -> nth_error (gslices g) i = Some (SArena c off len) -> b + nlen src <= len ->
  j <> i -> nth_error (gslices g) j = Some sj ->
  sl_bytes (heap_poke h c (off + b) src) sj = sl_bytes h sj.
Proof.
  intros I Hi Hb Hne Hj.
  pose proof (gi_slices h g I) as F. rewrite Forall_forall in F.
  assert (Oi : sl_ok h (SArena c off len)) by (apply F; eapply nth_error_In; eauto).
  assert (Oj : sl_ok h sj) by (apply F; eapply nth_error_In; eauto).
  destruct sj as [cj oj lj|bs]; [|reflexivity]. cbn [sl_bytes sl_ok] in *.
  destruct (Nat.eq_dec cj c) as [->|Nc]; [|now rewrite chunk_at_poke_other].
  rewrite chunk_at_poke_same by tauto. cbn [cdata].
  destruct (Nat.lt_ge_cases j i) as [Hlt|Hge].
  - pose proof (gi_sorted h g I j i _ _ Hlt Hj Hi) as S. cbn [sl_before] in S. specialize (S eq_refl).
    apply read_poke_before; lia.
  - assert (Hgt : (i < j)%nat) by lia.
    pose proof (gi_sorted h g I i j _ _ Hgt Hi Hj) as S. cbn [sl_before] in S. specialize (S eq_refl).
    f_equal. apply read_poke_after; lia.
Qed.

Lemma GInv_poke h g c p src : GInv h g -> (c < length h)%nat -> p + nlen src <= nlen (cdata (chunk_at h c)) ->
  heap_ok (heap_poke h c p src) /\ cache_ok (heap_poke h c p src) (gcache_ g) /\
  (forall s0, sl_ok h s0 -> sl_ok (heap_poke h c p src) s0).
Proof.
  intros I Hc Hp.
  assert (L : forall c', nlen (cdata (chunk_at (heap_poke h c p src) c')) = nlen (cdata (chunk_at h c'))).
  { intros c'. destruct (Nat.eq_dec c' c) as [->|Ne]; [|now rewrite chunk_at_poke_other].
    rewrite chunk_at_poke_same by exact Hc. cbn [cdata]. now apply nlen_poke. }
  split; [|split].
  - intros c' Hc'. rewrite length_heap_poke in Hc'. rewrite L, ccap_heap_poke. now apply (gi_heap h g I).
  - pose proof (gi_cache h g I) as K. destruct (gcache_ g) as [k|]; [|exact Logic.I]. cbn [cache_ok] in *.
    rewrite length_heap_poke, L. unfold kcap in *. rewrite ccap_heap_poke. exact K.
  - intros [c' o l|bs] H0; cbn [sl_ok] in *; [|exact H0]. rewrite length_heap_poke, L. exact H0.
Qed.

Theorem backfill_refines h g s b src h' g' :
  GInv h g -> R h g s -> backfill h (Some b) src g = Some (h', g') ->
  GInv h' g' /\ exists s', Pipe.backfill (N.to_nat (bend b)) src s = Some s' /\ R h' g' s'.
Proof.
  intros I Rs E. unfold backfill in E.
  destruct (negb (blen b =? nlen src)) eqn:E1; [discriminate|]. apply negb_false_iff, N.eqb_eq in E1.
  destruct (find (fun p => bend p =? bend b) (gbackrefs g)) as [p|] eqn:EF; [|discriminate].
  destruct (negb (backref_eqb p b)) eqn:E2; [discriminate|]. apply negb_false_iff, backref_eqb_eq in E2. subst p.
  destruct (bidx b <? gcslices g) eqn:E3; [discriminate|]. apply N.ltb_ge in E3.
  destruct (nth_error (gslices g) (N.to_nat (bidx b - gcslices g))) as [target|] eqn:ET; [|discriminate].
  destruct (sl_len target <? bbegin b + nlen src) eqn:E4; [discriminate|]. apply N.ltb_ge in E4.
  remember (N.to_nat (bidx b - gcslices g)) as i eqn:Ei.
  (* the pipe side takes the same path *)
  assert (Hsl : exists sl, nth_error (Pipe.slices s) i = Some sl /\ map fst sl = sl_bytes h target).
  { exact (nth_error_map_eq _ _ _ _ i target (r_bytes _ _ _ Rs) ET). }
  destruct Hsl as (sl & Hsl & Hfst).
  assert (Otarget : sl_ok h target).
  { pose proof (gi_slices h g I) as F. rewrite Forall_forall in F. apply F. eapply nth_error_In; eauto. }
  assert (Lsl : length sl = N.to_nat (sl_len target)).
  { pose proof (f_equal (@length _) Hfst) as HL. rewrite map_length in HL.
    transitivity (length (sl_bytes h target)); [exact HL|].
    rewrite <- (sl_len_bytes h target Otarget). unfold nlen. lia. }
  assert (EP : Pipe.backfill (N.to_nat (bend b)) src s =
               Some {| Pipe.slices := Pipe.update_nth i (Pipe.write_at (N.to_nat (bbegin b)) src) (Pipe.slices s);
                       Pipe.consumed := Pipe.consumed s;
                       Pipe.table := filter (fun b' => negb (Nat.eqb (Pipe.br_id b') (N.to_nat (bend b)))) (Pipe.table s);
                       Pipe.logical := Pipe.logical s; Pipe.taken := Pipe.taken s |}).
  { unfold Pipe.backfill. rewrite (r_table _ _ _ Rs), (find_conv _ _ b eq_refl), EF. cbn [option_map conv Pipe.br_len Pipe.br_idx Pipe.br_begin].
    replace (Nat.eqb (N.to_nat (blen b)) (length src)) with true by (symmetry; apply Nat.eqb_eq; unfold nlen in E1; lia).
    cbn [negb]. rewrite (r_consumed _ _ _ Rs).
    replace (N.to_nat (gcslices g) <=? N.to_nat (bidx b))%nat with true by (symmetry; apply Nat.leb_le; lia).
    cbn [negb]. replace (N.to_nat (bidx b) - N.to_nat (gcslices g))%nat with i by (rewrite Ei; lia).
    rewrite Hsl.
    replace (N.to_nat (bbegin b) + length src <=? length sl)%nat with true by (symmetry; apply Nat.leb_le; unfold nlen in E4; lia).
    cbn [negb]. reflexivity. }
  assert (Rrest : forall h1 sl1, map (map fst) (Pipe.update_nth i (Pipe.write_at (N.to_nat (bbegin b)) src) (Pipe.slices s)) = map (sl_bytes h1) sl1 ->
     R h1 {| gslices := sl1; ganchors := ganchors g; glogical := glogical g; gcsize := gcsize g; gcslices := gcslices g;
             gcache_ := gcache_ g; gbackrefs := filter (fun p => negb (bend p =? bend b)) (gbackrefs g) |}
          {| Pipe.slices := Pipe.update_nth i (Pipe.write_at (N.to_nat (bbegin b)) src) (Pipe.slices s);
             Pipe.consumed := Pipe.consumed s;
             Pipe.table := filter (fun b' => negb (Nat.eqb (Pipe.br_id b') (N.to_nat (bend b)))) (Pipe.table s);
             Pipe.logical := Pipe.logical s; Pipe.taken := Pipe.taken s |}).
  { intros h1 sl1 Hb. constructor; cbn [Pipe.slices Pipe.consumed Pipe.table Pipe.logical Pipe.taken gslices gcslices gbackrefs glogical gcsize].
    - exact Hb.
    - apply (r_consumed _ _ _ Rs).
    - rewrite (r_table _ _ _ Rs). apply filter_conv. reflexivity.
    - apply (r_logical _ _ _ Rs).
    - apply (r_taken _ _ _ Rs). }
  assert (Hleft : map (map fst) (Pipe.update_nth i (Pipe.write_at (N.to_nat (bbegin b)) src) (Pipe.slices s)) =
                  Geo.update_nth i (fun x => poke x (bbegin b) src) (map (sl_bytes h) (gslices g))).
  { rewrite <- (r_bytes _ _ _ Rs). apply map_pupdate. intros x. rewrite map_fst_write_at, N2Nat.id. reflexivity. }
  destruct target as [c off len|bs].
  - (* the placeholder lives in arena memory: an in-place write *)
    inversion E; subst h' g'. clear E. cbn [sl_ok sl_len] in *.
    destruct (GInv_poke h g c (off + bbegin b) src I ltac:(tauto) ltac:(lia)) as (Hh' & Hk' & Hs').
    split.
    + constructor; cbn [gslices gcache_]; [exact Hh'|exact Hk'| |apply (gi_sorted h g I)].
      pose proof (gi_slices h g I) as F. rewrite Forall_forall in *. intros s0 Hin. apply Hs'. now apply F.
    + eexists. split; [exact EP|]. apply Rrest. rewrite Hleft.
      apply nth_error_ext. intros j. rewrite nth_error_gupdate, !nth_error_map.
      destruct (Nat.eqb j i) eqn:Eji.
      * apply Nat.eqb_eq in Eji. subst j. rewrite ET. cbn [option_map]. f_equal. symmetry.
        cbn [sl_bytes]. rewrite chunk_at_poke_same by tauto. cbn [cdata]. apply read_poke_inside; lia.
      * apply Nat.eqb_neq in Eji. destruct (nth_error (gslices g) j) as [sj|] eqn:EJ; cbn [option_map]; [|reflexivity].
        f_equal. symmetry. eapply poke_other_slices; eauto.
  - (* caller memory, by value *)
    inversion E; subst h' g'. clear E. cbn [sl_ok sl_len sl_bytes] in *.
    assert (Hnew : poke bs (bbegin b) src <> []).
    { intros Hnil. apply (f_equal nlen) in Hnil. rewrite nlen_poke, nlen_nil in Hnil by lia.
      apply nlen_zero in Hnil. contradiction. }
    split.
    + constructor; cbn [gslices gcache_]; [apply (gi_heap h g I)|apply (gi_cache h g I)| |].
      * pose proof (gi_slices h g I) as F. rewrite Forall_forall in *. intros s0 Hin.
        destruct (In_nth_error _ _ Hin) as (j & Hj). rewrite nth_error_gupdate in Hj.
        destruct (Nat.eqb j i); [|apply F; eapply nth_error_In; eauto].
        destruct (nth_error (gslices g) j); cbn [option_map] in Hj; [|discriminate]. inversion Hj. exact Hnew.
      * intros j1 j2 a1 a2 Hlt H1 H2. rewrite nth_error_gupdate in H1, H2.
        destruct (Nat.eqb j1 i) eqn:E1i.
        { destruct (nth_error (gslices g) j1); cbn [option_map] in H1; [|discriminate]. inversion H1. exact Logic.I. }
        destruct (Nat.eqb j2 i) eqn:E2i.
        { destruct (nth_error (gslices g) j2); cbn [option_map] in H2; [|discriminate]. inversion H2.
          destruct a1; exact Logic.I. }
        exact (gi_sorted h g I j1 j2 a1 a2 Hlt H1 H2).
    + eexists. split; [exact EP|]. apply Rrest. rewrite Hleft.
      apply nth_error_ext. intros j. rewrite !nth_error_gupdate, !nth_error_map, nth_error_gupdate.
      destruct (Nat.eqb j i) eqn:Eji; [|reflexivity].
      apply Nat.eqb_eq in Eji. subst j. rewrite ET. reflexivity.
Qed.
