(* The geometry-faithful model (iovec/Geo.v) refines the value-level pipe (iovec/Pipe.v): for a single
   OwningIovec with its own heap, every producer operation of Geo is a Pipe operation for the merge
   decision that Geo computes, and every consumer operation returns what Pipe returns.  Hence the
   theorems of C03 / C04 (stated for every merge decision) apply to the model in which the decision is
   computed from the arena geometry as in the source. *)
From Coq Require Import List NArith Bool Arith Lia.
From WP Require Import iovec.Arena iovec.Geo iovec.GeoMem iovec.GeoProofs.
From WP Require iovec.Pipe.
Import ListNotations.
Open Scope N_scope.

Definition conv (b : gbackref) : Pipe.backref :=
  {| Pipe.br_id := N.to_nat (bend b); Pipe.br_idx := N.to_nat (bidx b);
     Pipe.br_begin := N.to_nat (bbegin b); Pipe.br_len := N.to_nat (blen b) |}.

Record R (h : heap) (g : giov) (s : Pipe.st) : Prop := {
  r_bytes : map (map fst) (Pipe.slices s) = map (sl_bytes h) (gslices g);
  r_consumed : Pipe.consumed s = N.to_nat (gcslices g);
  r_table : Pipe.table s = map conv (gbackrefs g);
  r_logical : Pipe.logical s = N.to_nat (glogical g);
  r_taken : Pipe.taken s = N.to_nat (gcsize g) }.

Lemma R_empty h : R h empty_iov Pipe.empty_st.
Proof. constructor; reflexivity. Qed.

Lemma push_raw_snoc ms (front : list (list Pipe.mbyte)) last : Pipe.push_raw true ms (front ++ [last]) = front ++ [last ++ ms].
Proof. unfold Pipe.push_raw. rewrite rev_app_distr. cbn [rev app]. now rewrite rev_involutive. Qed.
Lemma map_fst_plain bs : map fst (Pipe.plain bs) = bs.
Proof. unfold Pipe.plain. rewrite map_map. cbn. apply map_id. Qed.
Lemma map_fst_marked id bs : map fst (Pipe.marked id bs) = bs.
Proof. unfold Pipe.marked. rewrite map_map. cbn. apply map_id. Qed.
Lemma length_plain bs : length (Pipe.plain bs) = length bs.
Proof. unfold Pipe.plain. apply map_length. Qed.

Lemma map_snoc_inv {A B} (f : A -> B) l ys y : map f l = ys ++ [y] -> exists l0 x, l = l0 ++ [x] /\ map f l0 = ys /\ f x = y.
Proof.
  intros H. destruct (rev l) as [|x r] eqn:E.
  - assert (l = []) by (rewrite <- (rev_involutive l), E; reflexivity). subst. destruct ys; discriminate.
  - assert (El : l = rev r ++ [x]) by (rewrite <- (rev_involutive l), E; reflexivity).
    exists (rev r), x. split; [exact El|]. rewrite El, map_app in H. cbn [map] in H.
    apply app_inj_tail in H. tauto.
Qed.

(* the slices of the pipe side, seen through their bytes: appended (not merged) or merged into the last one *)
Lemma bytes_push_new ms (sl : list (list Pipe.mbyte)) bl b :
  map (map fst) sl = bl -> map fst ms = b -> map (map fst) (Pipe.push_raw false ms sl) = bl ++ [b].
Proof. intros <- <-. unfold Pipe.push_raw. now rewrite map_app. Qed.
Lemma bytes_push_merged ms (sl : list (list Pipe.mbyte)) bl last b :
  map (map fst) sl = bl ++ [last] -> map fst ms = b -> map (map fst) (Pipe.push_raw true ms sl) = bl ++ [last ++ b].
Proof.
  intros H <-. destruct (map_snoc_inv _ _ _ _ H) as (front & x & -> & <- & <-).
  rewrite push_raw_snoc, map_app. cbn [map]. now rewrite map_app.
Qed.

(* the generic shape of "a slice with these bytes was appended, then optimize ran" *)
Lemma appended_then_optimized h h' g g1 g' snew bytes (sl : list (list Pipe.mbyte)) ms :
  GInv h g ->
  (forall s0, sl_ok h s0 -> sl_bytes h' s0 = sl_bytes h s0 /\ sl_ok h' s0) ->
  sl_ok h' snew -> sl_bytes h' snew = bytes ->
  (forall s0, In s0 (gslices g) -> sl_before s0 snew) ->
  gslices g1 = gslices g ++ [snew] ->
  optimize g1 = Some g' ->
  map (map fst) sl = map (sl_bytes h) (gslices g) -> map fst ms = bytes ->
  Forall (sl_ok h') (gslices g') /\ pairwise sl_before (gslices g') /\
  exists merged, map (map fst) (Pipe.push_raw merged ms sl) = map (sl_bytes h') (gslices g') /\
                 (merged = false -> gslices g' = gslices g ++ [snew]) /\
                 (merged = true -> length (gslices g') = length (gslices g) /\ gslices g <> []).
Proof.
  intros I Hframe Hok Hbytes Hbefore E1 EO Hsl Hms.
  assert (Hold : map (sl_bytes h') (gslices g) = map (sl_bytes h) (gslices g)).
  { apply map_ext_in. intros s0 Hin. apply Hframe. pose proof (gi_slices h g I) as F. rewrite Forall_forall in F. now apply F. }
  assert (Fold : Forall (sl_ok h') (gslices g)).
  { pose proof (gi_slices h g I) as F. rewrite Forall_forall in *. intros s0 Hin. apply Hframe. now apply F. }
  assert (F1 : Forall (sl_ok h') (gslices g ++ [snew])) by (apply Forall_app; split; [exact Fold|constructor; [exact Hok|constructor]]).
  assert (P1 : pairwise sl_before (gslices g ++ [snew])) by (apply pairwise_snoc; [apply (gi_sorted h g I)|exact Hbefore]).
  destruct (optimize_spec _ _ EO) as (_ & _ & _ & _ & _ & [Esame|(front & c & lo & ll & rl & Eg1 & Eg')]).
  - rewrite Esame, E1. split; [exact F1|]. split; [exact P1|]. exists false. split; [|split; [reflexivity|discriminate]].
    rewrite map_app. cbn [map]. rewrite Hold, Hbytes. apply bytes_push_new; auto.
  - rewrite E1 in Eg1.
    assert (Eg : gslices g = front ++ [SArena c lo ll] /\ snew = SArena c (lo + ll) rl).
    { change (front ++ [SArena c lo ll; SArena c (lo + ll) rl]) with (front ++ [SArena c lo ll] ++ [SArena c (lo + ll) rl]) in Eg1.
      rewrite app_assoc in Eg1. apply app_inj_tail in Eg1. tauto. }
    destruct Eg as (Eg & Enew). rewrite Eg'.
    assert (Fl : sl_ok h' (SArena c lo ll)).
    { rewrite Forall_forall in Fold. apply Fold. rewrite Eg. apply in_or_app. right. now left. }
    split; [|split].
    + apply Forall_app. split.
      * rewrite Eg in Fold. apply Forall_app in Fold. tauto.
      * constructor; [|constructor]. rewrite Enew in Hok. cbn [sl_ok] in *. repeat split; try tauto; lia.
    + (* sortedness: the merged slice starts where the left part started *)
      pose proof (gi_sorted h g I) as PS. rewrite Eg in PS.
      apply pairwise_snoc; [eapply pairwise_prefix; exact PS|].
      intros a Ha. pose proof (pairwise_last_in _ _ _ _ PS Ha) as Hb.
      assert (Hin : In a (gslices g)) by (rewrite Eg; apply in_or_app; now left).
      pose proof (Hbefore a Hin) as Hn. rewrite Enew in Hn.
      assert (Hoka : sl_ok h' a) by (rewrite Forall_forall in Fold; now apply Fold).
      destruct a as [ca oa la|]; cbn [sl_before sl_ok] in *; auto. intros ->.
      specialize (Hb eq_refl). specialize (Hn eq_refl). lia.
    + exists true. split; [|split; [discriminate|]].
      * rewrite map_app. cbn [map]. rewrite sl_bytes_join.
        assert (Efront : map (sl_bytes h') front = map (sl_bytes h) front).
        { rewrite Eg, !map_app in Hold. apply app_inj_tail in Hold. tauto. }
        assert (El : sl_bytes h' (SArena c lo ll) = sl_bytes h (SArena c lo ll)).
        { rewrite Eg, !map_app in Hold. cbn [map] in Hold. apply app_inj_tail in Hold. tauto. }
        rewrite Efront, El. rewrite <- Enew, Hbytes.
        apply bytes_push_merged; [|exact Hms]. rewrite Hsl, Eg, map_app. reflexivity.
      * intros _. rewrite Eg, !app_length. cbn [length]. split; [lia|]. destruct front; discriminate.
Qed.

Lemma push_copy_inv h src g h' g' : src <> [] -> push_copy h src g = Some (h', g') ->
  exists k1 snew old' fresh anchors2,
    arena_copy h (gcache_ g) src (back (ganchors g)) = Some (h', k1, snew, old', fresh) /\
    optimize {| gslices := gslices g ++ [snew]; ganchors := anchors2; glogical := glogical g + nlen src;
                gcsize := gcsize g; gcslices := gcslices g; gcache_ := Some k1; gbackrefs := gbackrefs g |} = Some g'.
Proof.
  intros Hne E. unfold push_copy in E. destruct src as [|b0 src0]; [congruence|].
  destruct (arena_copy h (gcache_ g) (b0 :: src0) (back (ganchors g))) as [[[[[h1 k1] snew] old'] fresh]|] eqn:EA; [|discriminate].
  exists k1, snew, old', fresh.
  destruct fresh as [fa|].
  - match type of E with context [optimize ?G] => destruct (optimize G) as [gx|] eqn:EO; [|discriminate] end.
    inversion E; subst h1 gx. eexists. split; [reflexivity|exact EO].
  - destruct (match old' with Some a => set_back (ganchors g) a | None => ganchors g end) as [|a0 al] eqn:EAn; [discriminate|].
    match type of E with context [optimize ?G] => destruct (optimize G) as [gx|] eqn:EO; [|discriminate] end.
    inversion E; subst h1 gx. eexists. split; [reflexivity|exact EO].
Qed.

Lemma in_sl_before_new h g k' n s0 :
  GInv h g -> (forall s1, sl_ok h s1 -> sl_chunk s1 = Some (kchunk k') -> sl_end s1 <= kbump k' - n) ->
  In s0 (gslices g) -> sl_before s0 (SArena (kchunk k') (kbump k' - n) n).
Proof.
  intros I Hend Hin. destruct s0 as [c off len|bs]; cbn [sl_before]; auto. intros ->.
  pose proof (gi_slices h g I) as F. rewrite Forall_forall in F.
  left. apply (Hend (SArena (kchunk k') off len) (F _ Hin) eq_refl).
Qed.

Theorem push_copy_refines h g s src h' g' :
  GInv h g -> R h g s -> push_copy h src g = Some (h', g') ->
  GInv h' g' /\ exists merged, R h' g' (Pipe.push merged src s).
Proof.
  intros I Rs E. destruct src as [|b0 src0] eqn:Esrc.
  - cbn in E. inversion E; subst h' g'. split; [exact I|]. exists false. exact Rs.
  - rewrite <- Esrc in *. assert (Hne : src <> []) by (rewrite Esrc; discriminate).
    destruct (push_copy_inv _ _ _ _ _ Hne E) as (k1 & snew & old' & fresh & anchors2 & EA & EO).
    destruct (arena_copy_spec _ _ _ _ _ _ _ _ _ (gi_cache h g I) (gi_heap h g I) EA)
      as (_ & Hk' & Hh' & _ & Hframe & Hok & Hbytes & Hle & Enew & Hend & _ & _).
    assert (Hbefore : forall s0, In s0 (gslices g) -> sl_before s0 snew).
    { intros s0 Hin. rewrite Enew. exact (in_sl_before_new h g k1 (nlen src) s0 I Hend Hin). }
    match type of EO with optimize ?G = _ => set (g1 := G) in * end.
    destruct (appended_then_optimized h h' g g1 g' snew src (Pipe.slices s) (Pipe.plain src) I Hframe Hok Hbytes
                Hbefore eq_refl EO (r_bytes _ _ _ Rs) (map_fst_plain src))
      as (F' & P' & merged & Hb & _ & _).
    destruct (optimize_spec _ _ EO) as (Ec & El & Esz & Ecs & Ebr & _). subst g1. cbn [gcache_ glogical gcsize gcslices gbackrefs] in *.
    split.
    + constructor; [exact Hh'|rewrite Ec; exact Hk'|exact F'|exact P'].
    + exists merged. unfold Pipe.push. rewrite Esrc. rewrite <- Esrc.
      constructor; cbn [Pipe.slices Pipe.consumed Pipe.table Pipe.logical Pipe.taken].
      * exact Hb.
      * rewrite Ecs. apply (r_consumed _ _ _ Rs).
      * rewrite Ebr. apply (r_table _ _ _ Rs).
      * rewrite El, (r_logical _ _ _ Rs). unfold nlen. lia.
      * rewrite Esz. apply (r_taken _ _ _ Rs).
Qed.

Lemma frame_id h : forall s0, sl_ok h s0 -> sl_bytes h s0 = sl_bytes h s0 /\ sl_ok h s0.
Proof. auto. Qed.

Theorem push_borrowed_gen h g s snew g' :
  GInv h g -> R h g s -> sl_ok h snew -> (forall s0, In s0 (gslices g) -> sl_before s0 snew) ->
  push_borrowed snew g = Some g' ->
  GInv h g' /\ exists merged, R h g' (Pipe.push merged (sl_bytes h snew) s).
Proof.
  intros I Rs Hok Hbefore E. unfold push_borrowed in E.
  pose proof (sl_len_pos h snew Hok) as Hpos. pose proof (sl_len_bytes h snew Hok) as Hlen.
  destruct (sl_len snew =? 0) eqn:E0; [apply N.eqb_eq in E0; lia|].
  set (bs := sl_bytes h snew) in *.
  assert (Hne : bs <> []) by (intros Hnil; rewrite Hnil, nlen_nil in Hlen; lia).
  match type of E with context [back ?L] => destruct (back L) as [a|]; [|discriminate] end.
  match type of E with optimize ?G = _ => set (g1 := G) in * end.
  destruct (appended_then_optimized h h g g1 g' snew bs (Pipe.slices s) (Pipe.plain bs) I (frame_id h) Hok eq_refl
              Hbefore eq_refl E (r_bytes _ _ _ Rs) (map_fst_plain bs))
    as (F' & P' & merged & Hb & _ & _).
  destruct (optimize_spec _ _ E) as (Ec & El & Esz & Ecs & Ebr & _). subst g1. cbn [gcache_ glogical gcsize gcslices gbackrefs] in *.
  split.
  + constructor; [apply (gi_heap h g I)|rewrite Ec; apply (gi_cache h g I)|exact F'|exact P'].
  + exists merged. unfold Pipe.push. destruct bs as [|b0 bs0] eqn:Ebs; [congruence|]. rewrite <- Ebs in *.
    constructor; cbn [Pipe.slices Pipe.consumed Pipe.table Pipe.logical Pipe.taken].
    * exact Hb.
    * rewrite Ecs. apply (r_consumed _ _ _ Rs).
    * rewrite Ebr. apply (r_table _ _ _ Rs).
    * rewrite El, (r_logical _ _ _ Rs). unfold nlen in Hlen. lia.
    * rewrite Esz. apply (r_taken _ _ _ Rs).
Qed.

Theorem push_borrowed_refines h g s bs g' :
  GInv h g -> R h g s -> push_borrowed (SExt bs) g = Some g' ->
  GInv h g' /\ exists merged, R h g' (Pipe.push merged bs s).
Proof.
  intros I Rs E. destruct bs as [|b0 bs0] eqn:Ebs.
  - cbn in E. inversion E; subst g'. split; [exact I|]. exists false. exact Rs.
  - rewrite <- Ebs in *. assert (Hne : bs <> []) by (rewrite Ebs; discriminate).
    apply (push_borrowed_gen h g s (SExt bs) g' I Rs Hne); [|exact E].
    intros [? ? ?|?] _; exact Logic.I.
Qed.

(* OwningIovec::push on caller memory: whichever way the policy decides, the bytes are appended *)
Theorem push_refines h g s bs h' g' :
  GInv h g -> R h g s -> push h (SExt bs) g = Some (h', g') ->
  GInv h' g' /\ exists merged, R h' g' (Pipe.push merged bs s).
Proof.
  intros I Rs E. unfold push in E.
  match type of E with (if ?c then _ else _) = _ => destruct c end.
  - cbn [sl_bytes] in E. eapply push_copy_refines; eauto.
  - destruct (push_borrowed (SExt bs) g) as [gx|] eqn:EB; [|discriminate]. inversion E; subst h' gx.
    eapply push_borrowed_refines; eauto.
Qed.

(* extend = a sequence of borrowed pushes; on the pipe side a fold of pushes with the computed merge flags *)
Fixpoint pipe_pushes (ms : list bool) (items : list (list N)) (s : Pipe.st) : Pipe.st :=
  match ms, items with
  | m :: ms', bs :: items' => pipe_pushes ms' items' (Pipe.push m bs s)
  | _, _ => s
  end.
Theorem extend_refines h items : forall g s g',
  GInv h g -> R h g s -> extend (map SExt items) g = Some g' ->
  GInv h g' /\ exists ms, length ms = length items /\ R h g' (pipe_pushes ms items s).
Proof.
  induction items as [|bs items IH]; intros g s g' I Rs E.
  - cbn in E. inversion E; subst g'. split; [exact I|]. exists []. split; [reflexivity|exact Rs].
  - cbn [map extend] in E. destruct (push_borrowed (SExt bs) g) as [g1|] eqn:EB; [|discriminate].
    destruct (push_borrowed_refines _ _ _ _ _ I Rs EB) as (I1 & m & R1).
    destruct (IH _ _ _ I1 R1 E) as (I' & ms & Hl & R').
    split; [exact I'|]. exists (m :: ms). split; [cbn; lia|exact R'].
Qed.

(* push_copy seen from any pipe-side representation ms of the copied bytes (plain for push, marked for
   register_patch) *)
Lemma push_copy_core h g s src h' g' ms :
  GInv h g -> R h g s -> src <> [] -> push_copy h src g = Some (h', g') -> map fst ms = src ->
  GInv h' g' /\ gcslices g' = gcslices g /\ gbackrefs g' = gbackrefs g /\ glogical g' = glogical g + nlen src /\
  gcsize g' = gcsize g /\
  exists merged, map (map fst) (Pipe.push_raw merged ms (Pipe.slices s)) = map (sl_bytes h') (gslices g').
Proof.
  intros I Rs Hne E Hms.
  destruct (push_copy_inv _ _ _ _ _ Hne E) as (k1 & snew & old' & fresh & anchors2 & EA & EO).
  destruct (arena_copy_spec _ _ _ _ _ _ _ _ _ (gi_cache h g I) (gi_heap h g I) EA)
    as (_ & Hk' & Hh' & _ & Hframe & Hok & Hbytes & Hle & Enew & Hend & _ & _).
  assert (Hbefore : forall s0, In s0 (gslices g) -> sl_before s0 snew).
  { intros s0 Hin. rewrite Enew. exact (in_sl_before_new h g k1 (nlen src) s0 I Hend Hin). }
  match type of EO with optimize ?G = _ => set (g1 := G) in * end.
  destruct (appended_then_optimized h h' g g1 g' snew src (Pipe.slices s) ms I Hframe Hok Hbytes
              Hbefore eq_refl EO (r_bytes _ _ _ Rs) Hms)
    as (F' & P' & merged & Hb & _ & _).
  destruct (optimize_spec _ _ EO) as (Ec & El & Esz & Ecs & Ebr & _). subst g1. cbn [gcache_ glogical gcsize gcslices gbackrefs] in *.
  split; [constructor; [exact Hh'|rewrite Ec; exact Hk'|exact F'|exact P']|].
  repeat split; auto. exists merged. exact Hb.
Qed.

Lemma back_snoc {A} (l : list A) x : back l = Some x -> exists front, l = front ++ [x].
Proof.
  unfold back. destruct (rev l) as [|y r] eqn:E; [discriminate|]. intros H; inversion H; subst y.
  exists (rev r). rewrite <- (rev_involutive l), E. reflexivity.
Qed.
Lemma back_none {A} (l : list A) : back l = None -> l = [].
Proof.
  unfold back. destruct (rev l) as [|y r] eqn:E; [|discriminate]. intros _.
  rewrite <- (rev_involutive l), E. reflexivity.
Qed.
Lemma last_snoc {A} (l : list A) x d : last (l ++ [x]) d = x.
Proof. induction l as [|a l IH]; [reflexivity|]. cbn [app]. destruct (l ++ [x]) eqn:E; [destruct l; discriminate|]. exact IH. Qed.

Theorem register_refines h g s p h' g' b :
  GInv h g -> R h g s -> register_patch h p g = Some (h', g', b) ->
  GInv h' g' /\ exists merged, R h' g' (fst (Pipe.register merged p s)) /\
                               option_map (fun b => N.to_nat (bend b)) b = snd (Pipe.register merged p s).
Proof.
  intros I Rs E. unfold register_patch in E. destruct p as [|p0 pr] eqn:Ep.
  - inversion E; subst h' g' b. split; [exact I|]. exists false. cbn. auto.
  - rewrite <- Ep in *. assert (Hne : p <> []) by (rewrite Ep; discriminate).
    destruct (push_copy h p g) as [[h1 g1]|] eqn:EP; [|discriminate].
    destruct (back (gslices g1)) as [l|] eqn:EB; [|discriminate].
    destruct (glogical g1 =? 0); [discriminate|].
    set (id := (Pipe.logical s + length p)%nat).
    destruct (push_copy_core h g s p h1 g1 (Pipe.marked id p) I Rs Hne EP (map_fst_marked id p))
      as (I1 & Ecs & Ebr & El & Esz & merged & Hb).
    set (bb := {| bend := glogical g1; bidx := gcslices g1 + nlen (gslices g1) - 1; bbegin := sl_len l - nlen p; blen := nlen p |}) in *.
    assert (Hres : h' = h1 /\ b = Some bb /\ gslices g' = gslices g1 /\ gcslices g' = gcslices g1 /\ glogical g' = glogical g1 /\
                   gcsize g' = gcsize g1 /\ gcache_ g' = gcache_ g1 /\ gbackrefs g' = gbackrefs g1 ++ [bb]).
    { destruct (back (gbackrefs g1)) as [pp|] eqn:EBB.
      - destruct (bend bb <=? bend pp); [discriminate|]. inversion E; subst h' g' b. cbn. repeat split; auto.
      - apply back_none in EBB. inversion E; subst h' g' b. cbn. rewrite EBB. repeat split; auto. }
    destruct Hres as (-> & -> & Esl & Ecs' & El' & Esz' & Ec' & Ebr').
    split.
    + destruct I1 as [H1 H2 H3 H4]. constructor; [exact H1|rewrite Ec'; exact H2|rewrite Esl; exact H3|rewrite Esl; exact H4].
    + exists merged. unfold Pipe.register. rewrite Ep. rewrite <- Ep. fold id.
      cbn [fst snd option_map bend].
      assert (Hid : N.to_nat (glogical g1) = id).
      { unfold id. rewrite El, (r_logical _ _ _ Rs). unfold nlen. lia. }
      split; [|unfold bb; cbn [bend]; now rewrite Hid].
      assert (Hlen : length (Pipe.push_raw merged (Pipe.marked id p) (Pipe.slices s)) = length (gslices g1)).
      { pose proof (f_equal (@length _) Hb) as HbL. rewrite !map_length in HbL. exact HbL. }
      destruct (back_snoc _ _ EB) as (front & Efront).
      assert (Hlast : length (last (Pipe.push_raw merged (Pipe.marked id p) (Pipe.slices s)) []) = N.to_nat (sl_len l)).
      { rewrite Efront, map_app in Hb. cbn [map] in Hb.
        destruct (map_snoc_inv _ _ _ _ Hb) as (pf & px & Epr & _ & Hpx). rewrite Epr, last_snoc.
        pose proof (f_equal (@length _) Hpx) as HpL. rewrite map_length in HpL.
        transitivity (length (sl_bytes h1 l)); [exact HpL|].
        assert (Hok : sl_ok h1 l).
        { pose proof (gi_slices _ _ I1) as F. rewrite Forall_forall in F. apply F. rewrite Efront. apply in_or_app. right. now left. }
        rewrite <- (sl_len_bytes h1 l Hok). unfold nlen. lia. }
      constructor; cbn [Pipe.slices Pipe.consumed Pipe.table Pipe.logical Pipe.taken].
      * rewrite Esl. exact Hb.
      * rewrite Ecs', Ecs. apply (r_consumed _ _ _ Rs).
      * rewrite Ebr', map_app, Ebr, <- (r_table _ _ _ Rs). cbn [map]. f_equal. f_equal.
        unfold conv, bb. cbn [bend bidx bbegin blen]. rewrite Hlen, Hlast, Hid, (r_consumed _ _ _ Rs), Ecs.
        f_equal; unfold nlen; try lia.
      * rewrite El'. symmetry. exact Hid.
      * rewrite Esz', Esz. apply (r_taken _ _ _ Rs).
Qed.

(* ---- backfill ---- *)
Lemma nth_error_ext {A} (l1 l2 : list A) : (forall i, nth_error l1 i = nth_error l2 i) -> l1 = l2.
Proof.
  revert l2. induction l1 as [|x l1 IH]; intros l2 H.
  - destruct l2; [reflexivity|]. specialize (H 0%nat). discriminate.
  - destruct l2 as [|y l2]; [specialize (H 0%nat); discriminate|].
    pose proof (H 0%nat) as H0. cbn in H0. inversion H0; subst y. f_equal. apply IH. intros i. apply (H (S i)).
Qed.
Lemma nth_error_pupdate {A} (f : A -> A) l k i :
  nth_error (Pipe.update_nth k f l) i = if Nat.eqb i k then option_map f (nth_error l i) else nth_error l i.
Proof.
  revert k i. induction l as [|x t IH]; intros k i.
  - destruct k; cbn [Pipe.update_nth]; destruct (Nat.eqb i _); destruct i; reflexivity.
  - destruct k as [|k]; destruct i as [|i]; cbn [Pipe.update_nth nth_error Nat.eqb option_map]; try reflexivity. apply IH.
Qed.
Lemma nth_error_gupdate {A} (f : A -> A) l k i :
  nth_error (Geo.update_nth k f l) i = if Nat.eqb i k then option_map f (nth_error l i) else nth_error l i.
Proof.
  revert k i. induction l as [|x t IH]; intros k i.
  - destruct k; cbn [Geo.update_nth]; destruct (Nat.eqb i _); destruct i; reflexivity.
  - destruct k as [|k]; destruct i as [|i]; cbn [Geo.update_nth nth_error Nat.eqb option_map]; try reflexivity. apply IH.
Qed.

Lemma map_fst_write_at begin src sl :
  map fst (Pipe.write_at begin src sl) = poke (map fst sl) (N.of_nat begin) src.
Proof.
  unfold Pipe.write_at, poke, nfirstn, nskipn, nlen. rewrite !map_app, map_fst_plain, firstn_map, skipn_map.
  rewrite Nat2N.id. repeat f_equal. lia.
Qed.

Lemma find_conv id l b0 : id = N.to_nat (bend b0) ->
  find (fun b' => Nat.eqb (Pipe.br_id b') id) (map conv l) = option_map conv (find (fun p => bend p =? bend b0) l).
Proof.
  intros ->. induction l as [|p l IH]; [reflexivity|]. cbn [map find conv Pipe.br_id].
  destruct (bend p =? bend b0) eqn:E.
  - apply N.eqb_eq in E. rewrite E, Nat.eqb_refl. reflexivity.
  - apply N.eqb_neq in E. destruct (Nat.eqb (N.to_nat (bend p)) (N.to_nat (bend b0))) eqn:E2.
    + apply Nat.eqb_eq in E2. exfalso. apply E. lia.
    + exact IH.
Qed.
Lemma filter_conv id l b0 : id = N.to_nat (bend b0) ->
  filter (fun b' => negb (Nat.eqb (Pipe.br_id b') id)) (map conv l) = map conv (filter (fun p => negb (bend p =? bend b0)) l).
Proof.
  intros ->. induction l as [|p l IH]; [reflexivity|]. cbn [map filter conv Pipe.br_id].
  assert (E : Nat.eqb (N.to_nat (bend p)) (N.to_nat (bend b0)) = (bend p =? bend b0)).
  { destruct (bend p =? bend b0) eqn:E1.
    - apply N.eqb_eq in E1. rewrite E1. apply Nat.eqb_refl.
    - apply N.eqb_neq in E1. apply Nat.eqb_neq. lia. }
  rewrite E. destruct (bend p =? bend b0); cbn [negb]; [exact IH|]. cbn [map]. f_equal. exact IH.
Qed.
Lemma backref_eqb_eq p b : backref_eqb p b = true -> p = b.
Proof.
  unfold backref_eqb. rewrite !andb_true_iff, !N.eqb_eq. intros (((H1 & H2) & H3) & H4).
  destruct p, b; cbn in *; subst; reflexivity.
Qed.

Lemma nth_error_map_eq {A B C} (f : A -> C) (g : B -> C) l1 l2 i y :
  map f l1 = map g l2 -> nth_error l2 i = Some y -> exists x, nth_error l1 i = Some x /\ f x = g y.
Proof.
  revert l2 i. induction l1 as [|a l1 IH]; intros l2 i H Hy.
  - destruct l2; [destruct i; discriminate|discriminate].
  - destruct l2 as [|b l2]; [discriminate|]. cbn [map] in H. inversion H.
    destruct i as [|i]; cbn [nth_error] in *.
    + inversion Hy; subst. eauto.
    + eapply IH; eauto.
Qed.

Lemma map_pupdate {A B} (f : A -> B) w w' i l : (forall x, f (w x) = w' (f x)) ->
  map f (Pipe.update_nth i w l) = Geo.update_nth i w' (map f l).
Proof.
  intros H. revert i. induction l as [|x l IH]; intros i; [destruct i; reflexivity|].
  destruct i; cbn [Pipe.update_nth Geo.update_nth map]; [now rewrite H|now rewrite IH].
Qed.

(* an in-place write inside slice number i of g leaves the bytes of every other slice of g unchanged *)
Lemma poke_other_slices h g i c off len b src j sj :
  GInv h g -> nth_error (gslices g) i = Some (SArena c off len) -> b + nlen src <= len ->
  j <> i -> nth_error (gslices g) j = Some sj ->
  sl_bytes (heap_poke h c (off + b) src) sj = sl_bytes h sj.
Proof.
  intros I Hi Hb Hne Hj.
  pose proof (gi_slices h g I) as F. rewrite Forall_forall in F.
  assert (Oi : sl_ok h (SArena c off len)) by (apply F; eapply nth_error_In; eauto).
  assert (Oj : sl_ok h sj) by (apply F; eapply nth_error_In; eauto).
  destruct sj as [cj oj lj|bs]; [|reflexivity]. cbn [sl_bytes sl_ok] in *.
  destruct (Nat.eq_dec cj c) as [->|Nc]; [|now rewrite chunk_at_poke_other].
  rewrite chunk_at_poke_same by tauto. cbn [cdata].
  destruct (Nat.lt_ge_cases j i) as [Hlt|Hge].
  - pose proof (gi_sorted h g I j i _ _ Hlt Hj Hi) as S. cbn [sl_before] in S. specialize (S eq_refl).
    destruct S as [S|S]; [apply read_poke_before; lia|f_equal; apply read_poke_after; lia].
  - assert (Hgt : (i < j)%nat) by lia.
    pose proof (gi_sorted h g I i j _ _ Hgt Hi Hj) as S. cbn [sl_before] in S. specialize (S eq_refl).
    destruct S as [S|S]; [f_equal; apply read_poke_after; lia|apply read_poke_before; lia].
Qed.

Lemma GInv_poke h g c p src : GInv h g -> (c < length h)%nat -> p + nlen src <= nlen (cdata (chunk_at h c)) ->
  heap_ok (heap_poke h c p src) /\ cache_ok (heap_poke h c p src) (gcache_ g) /\
  (forall s0, sl_ok h s0 -> sl_ok (heap_poke h c p src) s0).
Proof.
  intros I Hc Hp.
  assert (L : forall c', nlen (cdata (chunk_at (heap_poke h c p src) c')) = nlen (cdata (chunk_at h c'))).
  { intros c'. destruct (Nat.eq_dec c' c) as [->|Ne]; [|now rewrite chunk_at_poke_other].
    rewrite chunk_at_poke_same by exact Hc. cbn [cdata]. now apply nlen_poke. }
  split; [|split].
  - intros c' Hc'. rewrite length_heap_poke in Hc'. rewrite L, ccap_heap_poke. now apply (gi_heap h g I).
  - pose proof (gi_cache h g I) as K. destruct (gcache_ g) as [k|]; [|exact Logic.I]. cbn [cache_ok] in *.
    rewrite length_heap_poke, L. unfold kcap in *. rewrite ccap_heap_poke. exact K.
  - intros [c' o l|bs] H0; cbn [sl_ok] in *; [|exact H0]. rewrite length_heap_poke, L. exact H0.
Qed.

Theorem backfill_refines h g s b src h' g' :
  GInv h g -> R h g s -> backfill h (Some b) src g = Some (h', g') ->
  GInv h' g' /\ exists s', Pipe.backfill (N.to_nat (bend b)) src s = Some s' /\ R h' g' s'.
Proof.
  intros I Rs E. unfold backfill in E.
  destruct (negb (blen b =? nlen src)) eqn:E1; [discriminate|]. apply negb_false_iff, N.eqb_eq in E1.
  destruct (find (fun p => bend p =? bend b) (gbackrefs g)) as [p|] eqn:EF; [|discriminate].
  destruct (negb (backref_eqb p b)) eqn:E2; [discriminate|]. apply negb_false_iff, backref_eqb_eq in E2. subst p.
  destruct (bidx b <? gcslices g) eqn:E3; [discriminate|]. apply N.ltb_ge in E3.
  destruct (nth_error (gslices g) (N.to_nat (bidx b - gcslices g))) as [target|] eqn:ET; [|discriminate].
  destruct (sl_len target <? bbegin b + nlen src) eqn:E4; [discriminate|]. apply N.ltb_ge in E4.
  remember (N.to_nat (bidx b - gcslices g)) as i eqn:Ei.
  (* the pipe side takes the same path *)
  assert (Hsl : exists sl, nth_error (Pipe.slices s) i = Some sl /\ map fst sl = sl_bytes h target).
  { exact (nth_error_map_eq _ _ _ _ i target (r_bytes _ _ _ Rs) ET). }
  destruct Hsl as (sl & Hsl & Hfst).
  assert (Otarget : sl_ok h target).
  { pose proof (gi_slices h g I) as F. rewrite Forall_forall in F. apply F. eapply nth_error_In; eauto. }
  assert (Lsl : length sl = N.to_nat (sl_len target)).
  { pose proof (f_equal (@length _) Hfst) as HL. rewrite map_length in HL.
    transitivity (length (sl_bytes h target)); [exact HL|].
    rewrite <- (sl_len_bytes h target Otarget). unfold nlen. lia. }
  assert (EP : Pipe.backfill (N.to_nat (bend b)) src s =
               Some {| Pipe.slices := Pipe.update_nth i (Pipe.write_at (N.to_nat (bbegin b)) src) (Pipe.slices s);
                       Pipe.consumed := Pipe.consumed s;
                       Pipe.table := filter (fun b' => negb (Nat.eqb (Pipe.br_id b') (N.to_nat (bend b)))) (Pipe.table s);
                       Pipe.logical := Pipe.logical s; Pipe.taken := Pipe.taken s |}).
  { unfold Pipe.backfill. rewrite (r_table _ _ _ Rs), (find_conv _ _ b eq_refl), EF. cbn [option_map conv Pipe.br_len Pipe.br_idx Pipe.br_begin].
    replace (Nat.eqb (N.to_nat (blen b)) (length src)) with true by (symmetry; apply Nat.eqb_eq; unfold nlen in E1; lia).
    cbn [negb]. rewrite (r_consumed _ _ _ Rs).
    replace (N.to_nat (gcslices g) <=? N.to_nat (bidx b))%nat with true by (symmetry; apply Nat.leb_le; lia).
    cbn [negb]. replace (N.to_nat (bidx b) - N.to_nat (gcslices g))%nat with i by (rewrite Ei; lia).
    rewrite Hsl.
    replace (N.to_nat (bbegin b) + length src <=? length sl)%nat with true by (symmetry; apply Nat.leb_le; unfold nlen in E4; lia).
    cbn [negb]. reflexivity. }
  assert (Rrest : forall h1 sl1, map (map fst) (Pipe.update_nth i (Pipe.write_at (N.to_nat (bbegin b)) src) (Pipe.slices s)) = map (sl_bytes h1) sl1 ->
     R h1 {| gslices := sl1; ganchors := ganchors g; glogical := glogical g; gcsize := gcsize g; gcslices := gcslices g;
             gcache_ := gcache_ g; gbackrefs := filter (fun p => negb (bend p =? bend b)) (gbackrefs g) |}
          {| Pipe.slices := Pipe.update_nth i (Pipe.write_at (N.to_nat (bbegin b)) src) (Pipe.slices s);
             Pipe.consumed := Pipe.consumed s;
             Pipe.table := filter (fun b' => negb (Nat.eqb (Pipe.br_id b') (N.to_nat (bend b)))) (Pipe.table s);
             Pipe.logical := Pipe.logical s; Pipe.taken := Pipe.taken s |}).
  { intros h1 sl1 Hb. constructor; cbn [Pipe.slices Pipe.consumed Pipe.table Pipe.logical Pipe.taken gslices gcslices gbackrefs glogical gcsize].
    - exact Hb.
    - apply (r_consumed _ _ _ Rs).
    - rewrite (r_table _ _ _ Rs). apply filter_conv. reflexivity.
    - apply (r_logical _ _ _ Rs).
    - apply (r_taken _ _ _ Rs). }
  assert (Hleft : map (map fst) (Pipe.update_nth i (Pipe.write_at (N.to_nat (bbegin b)) src) (Pipe.slices s)) =
                  Geo.update_nth i (fun x => poke x (bbegin b) src) (map (sl_bytes h) (gslices g))).
  { rewrite <- (r_bytes _ _ _ Rs). apply map_pupdate. intros x. rewrite map_fst_write_at, N2Nat.id. reflexivity. }
  destruct target as [c off len|bs].
  - (* the placeholder lives in arena memory: an in-place write *)
    inversion E; subst h' g'. clear E. cbn [sl_ok sl_len] in *.
    destruct (GInv_poke h g c (off + bbegin b) src I ltac:(tauto) ltac:(lia)) as (Hh' & Hk' & Hs').
    split.
    + constructor; cbn [gslices gcache_]; [exact Hh'|exact Hk'| |apply (gi_sorted h g I)].
      pose proof (gi_slices h g I) as F. rewrite Forall_forall in *. intros s0 Hin. apply Hs'. now apply F.
    + eexists. split; [exact EP|]. apply Rrest. rewrite Hleft.
      apply nth_error_ext. intros j. rewrite nth_error_gupdate, !nth_error_map.
      destruct (Nat.eqb j i) eqn:Eji.
      * apply Nat.eqb_eq in Eji. subst j. rewrite ET. cbn [option_map]. f_equal. symmetry.
        cbn [sl_bytes]. rewrite chunk_at_poke_same by tauto. cbn [cdata]. apply read_poke_inside; lia.
      * apply Nat.eqb_neq in Eji. destruct (nth_error (gslices g) j) as [sj|] eqn:EJ; cbn [option_map]; [|reflexivity].
        f_equal. symmetry. eapply poke_other_slices; eauto.
  - (* caller memory, by value *)
    inversion E; subst h' g'. clear E. cbn [sl_ok sl_len sl_bytes] in *.
    assert (Hnew : poke bs (bbegin b) src <> []).
    { intros Hnil. apply (f_equal nlen) in Hnil. rewrite nlen_poke, nlen_nil in Hnil by lia.
      apply nlen_zero in Hnil. contradiction. }
    split.
    + constructor; cbn [gslices gcache_]; [apply (gi_heap h g I)|apply (gi_cache h g I)| |].
      * pose proof (gi_slices h g I) as F. rewrite Forall_forall in *. intros s0 Hin.
        destruct (In_nth_error _ _ Hin) as (j & Hj). rewrite nth_error_gupdate in Hj.
        destruct (Nat.eqb j i); [|apply F; eapply nth_error_In; eauto].
        destruct (nth_error (gslices g) j); cbn [option_map] in Hj; [|discriminate]. inversion Hj. exact Hnew.
      * intros j1 j2 a1 a2 Hlt H1 H2. rewrite nth_error_gupdate in H1, H2.
        destruct (Nat.eqb j1 i) eqn:E1i.
        { destruct (nth_error (gslices g) j1); cbn [option_map] in H1; [|discriminate]. inversion H1. exact Logic.I. }
        destruct (Nat.eqb j2 i) eqn:E2i.
        { destruct (nth_error (gslices g) j2); cbn [option_map] in H2; [|discriminate]. inversion H2.
          destruct a1; exact Logic.I. }
        exact (gi_sorted h g I j1 j2 a1 a2 Hlt H1 H2).
    + eexists. split; [exact EP|]. apply Rrest. rewrite Hleft.
      apply nth_error_ext. intros j. rewrite !nth_error_gupdate, !nth_error_map, nth_error_gupdate.
      destruct (Nat.eqb j i) eqn:Eji; [|reflexivity].
      apply Nat.eqb_eq in Eji. subst j. rewrite ET. reflexivity.
Qed.

(* ---- consumer side ---- *)
Lemma fold_len_acc l a : fold_left (fun acc s => acc + sl_len s) l a = a + fold_len l.
Proof.
  unfold fold_len. revert a. induction l as [|s l IH]; intros a; cbn [fold_left]; [lia|].
  rewrite IH, (IH (0 + sl_len s)). lia.
Qed.
Lemma fold_len_cons s l : fold_len (s :: l) = sl_len s + fold_len l.
Proof. unfold fold_len at 1. cbn [fold_left]. rewrite fold_len_acc. lia. Qed.
Lemma fold_len_nil : fold_len [] = 0. Proof. reflexivity. Qed.

Lemma R_lengths h g s : R h g s -> length (Pipe.slices s) = length (gslices g).
Proof. intros Rs. pose proof (f_equal (@length _) (r_bytes _ _ _ Rs)) as H. now rewrite !map_length in H. Qed.

(* the byte count of a prefix of the slices is the same on both sides *)
Lemma concat_len_related h : forall (ps : list (list Pipe.mbyte)) gs,
  map (map fst) ps = map (sl_bytes h) gs -> Forall (sl_ok h) gs ->
  length (concat ps) = N.to_nat (fold_len gs).
Proof.
  induction ps as [|p ps IH]; intros gs H F; destruct gs as [|g0 gs]; try discriminate; [reflexivity|].
  cbn [map] in H. inversion H as [[H1 H2]]. inversion F as [|? ? F1 F2]; subst.
  cbn [concat]. rewrite app_length, fold_len_cons, (IH gs H2 F2).
  pose proof (f_equal (@length _) H1) as HL. rewrite map_length in HL.
  pose proof (sl_len_bytes h g0 F1) as HB. unfold nlen in HB.
  assert (length p = N.to_nat (sl_len g0)) by (transitivity (length (sl_bytes h g0)); [exact HL|lia]). lia.
Qed.

Lemma stable_count_related h g s n : R h g s -> stable_count g = Some n -> Pipe.stable_count s = N.to_nat n.
Proof.
  intros Rs E. unfold stable_count in E. unfold Pipe.stable_count. rewrite (r_table _ _ _ Rs), (r_consumed _ _ _ Rs), (R_lengths _ _ _ Rs).
  destruct (gbackrefs g) as [|b rest]; cbn [map].
  - inversion E. unfold nlen. lia.
  - destruct (bidx b <? gcslices g) eqn:E1; [discriminate|]. apply N.ltb_ge in E1. inversion E. cbn [conv Pipe.br_idx]. unfold nlen. lia.
Qed.

Lemma Forall_skipn {A} (P : A -> Prop) k l : Forall P l -> Forall P (skipn k l).
Proof. revert l. induction k as [|k IH]; intros l H; [exact H|]. destruct l; [constructor|]. inversion H; subst. now apply IH. Qed.
Lemma Forall_firstn {A} (P : A -> Prop) k l : Forall P l -> Forall P (firstn k l).
Proof. revert l. induction k as [|k IH]; intros l H; [constructor|]. destruct l; [constructor|]. inversion H; subst. constructor; auto. Qed.

(* GlobalDeque::consume of whole slices, whatever the anchors do *)
Lemma gd_consume_spec h g c g' k :
  GInv h g -> gd_consume c g = Some (g', k) ->
  k = N.min c (nlen (gslices g)) /\ gslices g' = nskipn k (gslices g) /\ gcslices g' = gcslices g + k /\
  gcsize g' = gcsize g + fold_len (nfirstn k (gslices g)) /\ glogical g' = glogical g /\
  gbackrefs g' = gbackrefs g /\ gcache_ g' = gcache_ g /\ GInv h g'.
Proof.
  intros I E. unfold gd_consume in E.
  destruct (drain (N.min c (nlen (gslices g))) (ganchors g)) as [an|]; [|discriminate].
  match type of E with (if ?c then _ else _) = _ => destruct c; [discriminate|] end.
  inversion E; subst g' k. cbn [gslices gcslices gcsize glogical gbackrefs gcache_].
  do 7 (split; [reflexivity|]).
  constructor; cbn [gslices gcache_]; [apply (gi_heap h g I)|apply (gi_cache h g I)| |].
  - apply Forall_skipn. apply (gi_slices h g I).
  - apply pairwise_skipn. apply (gi_sorted h g I).
Qed.

Theorem consume_refines h g s count g' k :
  GInv h g -> R h g s -> consume count g = Some (g', k) ->
  GInv h g' /\ R h g' (fst (Pipe.consume (N.to_nat count) s)) /\ snd (Pipe.consume (N.to_nat count) s) = N.to_nat k.
Proof.
  intros I Rs E. unfold consume in E. destruct (stable_count g) as [n|] eqn:ES; [|discriminate].
  destruct (gd_consume_spec _ _ _ _ _ I E) as (Ek & Esl & Ecs & Esz & El & Ebr & Ec & I').
  split; [exact I'|].
  pose proof (stable_count_related _ _ _ _ Rs ES) as HS.
  assert (Hn : n <= nlen (gslices g)).
  { unfold stable_count in ES. destruct (gbackrefs g) as [|b0 ?]; [inversion ES; lia|].
    destruct (bidx b0 <? gcslices g); [discriminate|]. inversion ES. lia. }
  unfold Pipe.consume. cbn [fst snd]. rewrite HS.
  assert (Hk : Nat.min (N.to_nat count) (N.to_nat n) = N.to_nat k) by lia.
  rewrite Hk. split; [|reflexivity].
  constructor; cbn [Pipe.slices Pipe.consumed Pipe.table Pipe.logical Pipe.taken].
  - rewrite Esl. unfold nskipn. rewrite <- !skipn_map. f_equal. apply (r_bytes _ _ _ Rs).
  - rewrite Ecs, (r_consumed _ _ _ Rs). lia.
  - rewrite Ebr. apply (r_table _ _ _ Rs).
  - rewrite El. apply (r_logical _ _ _ Rs).
  - rewrite Esz, (r_taken _ _ _ Rs).
    rewrite (concat_len_related h (firstn (N.to_nat k) (Pipe.slices s)) (nfirstn k (gslices g))).
    + lia.
    + unfold nfirstn. rewrite <- !firstn_map. f_equal. apply (r_bytes _ _ _ Rs).
    + apply Forall_firstn. apply (gi_slices h g I).
Qed.

Lemma stable_bytes_upto_spec l count : forall acc, acc <= count ->
  stable_bytes_upto l count acc = N.min count (acc + fold_len l).
Proof.
  induction l as [|s l IH]; intros acc Ha; cbn [stable_bytes_upto].
  - rewrite fold_len_nil. lia.
  - rewrite fold_len_cons. destruct (count - acc <=? sl_len s) eqn:E.
    + apply N.leb_le in E. lia.
    + apply N.leb_gt in E. rewrite IH by lia. lia.
Qed.

Lemma sl_advance_bytes h s n : sl_ok h s -> n < sl_len s ->
  sl_bytes h (sl_advance s n) = nskipn n (sl_bytes h s) /\ sl_ok h (sl_advance s n).
Proof.
  destruct s as [c off len|bs]; cbn [sl_ok sl_len sl_advance sl_bytes]; intros H Hn.
  - split.
    + rewrite <- nskipn_nskipn. unfold nfirstn, nskipn. rewrite skipn_firstn_comm. f_equal. lia.
    + repeat split; try tauto; lia.
  - split; [reflexivity|]. intros Hnil. apply (f_equal nlen) in Hnil. rewrite nlen_nskipn, nlen_nil in Hnil. lia.
Qed.

Lemma drop_bytes_zero (ps : list (list Pipe.mbyte)) : Pipe.drop_bytes 0 ps = (ps, 0%nat).
Proof. destruct ps; reflexivity. Qed.

Lemma cbb_related h : forall fuel g (ps : list (list Pipe.mbyte)) c g',
  GInv h g -> map (map fst) ps = map (sl_bytes h) (gslices g) ->
  consume_by_bytes fuel c g = Some g' ->
  map (map fst) (fst (Pipe.drop_bytes (N.to_nat c) ps)) = map (sl_bytes h) (gslices g') /\
  gcslices g' = gcslices g + N.of_nat (snd (Pipe.drop_bytes (N.to_nat c) ps)) /\ gcsize g' = gcsize g + c /\
  glogical g' = glogical g /\ gbackrefs g' = gbackrefs g /\ gcache_ g' = gcache_ g /\ GInv h g'.
Proof.
  induction fuel as [|fuel IH]; intros g ps c g' I Hb E.
  - cbn [consume_by_bytes] in E. destruct (c =? 0) eqn:E0; [|discriminate]. apply N.eqb_eq in E0. subst c.
    inversion E; subst g'. cbn [N.to_nat]. rewrite drop_bytes_zero. cbn [fst snd].
    split; [exact Hb|split; [lia|split; [lia|split; [reflexivity|split; [reflexivity|split; [reflexivity|exact I]]]]]].
  - cbn [consume_by_bytes] in E. destruct (c =? 0) eqn:E0.
    { apply N.eqb_eq in E0. subst c. inversion E; subst g'. cbn [N.to_nat]. rewrite drop_bytes_zero. cbn [fst snd].
      split; [exact Hb|split; [lia|split; [lia|split; [reflexivity|split; [reflexivity|split; [reflexivity|exact I]]]]]]. }
    apply N.eqb_neq in E0.
    destruct (gslices g) as [|s0 t] eqn:Esl; [discriminate|].
    destruct ps as [|p pt]; [discriminate|]. cbn [map] in Hb. inversion Hb as [[Hp Hpt]].
    pose proof (gi_slices h g I) as F. rewrite Esl in F. inversion F as [|? ? F0 Ft]; subst.
    assert (Lp : length p = N.to_nat (sl_len s0)).
    { pose proof (f_equal (@length _) Hp) as HL. rewrite map_length in HL.
      pose proof (sl_len_bytes h s0 F0) as HB. unfold nlen in HB.
      transitivity (length (sl_bytes h s0)); [exact HL|lia]. }
    destruct (N.to_nat c) as [|c'] eqn:Ec; [lia|]. cbn [Pipe.drop_bytes]. rewrite <- Ec.
    destruct (N.min c (sl_len s0) =? sl_len s0) eqn:Ewhole.
    + (* the whole front slice goes *)
      apply N.eqb_eq in Ewhole.
      destruct (gd_consume 1 g) as [[g1 k1]|] eqn:EG; [|discriminate].
      destruct (gd_consume_spec _ _ _ _ _ I EG) as (Ek & Esl1 & Ecs & Esz & El & Ebr & Ecache & I1).
      rewrite Esl in Ek, Esl1, Esz. rewrite nlen_cons in Ek. assert (Hk1 : k1 = 1) by lia. clear Ek. subst k1.
      change (nskipn 1 (s0 :: t)) with t in Esl1. change (nfirstn 1 (s0 :: t)) with [s0] in Esz.
      rewrite fold_len_cons, fold_len_nil in Esz.
      replace (length p <=? N.to_nat c)%nat with true by (symmetry; apply Nat.leb_le; lia).
      rewrite Ewhole in E.
      assert (Hb1 : map (map fst) pt = map (sl_bytes h) (gslices g1)) by (rewrite Esl1; exact Hpt).
      destruct (IH g1 pt (c - sl_len s0) g' I1 Hb1 E) as (A1 & A2 & A3 & A4 & A5 & A6 & A7).
      replace (N.to_nat c - length p)%nat with (N.to_nat (c - sl_len s0)) by lia.
      destruct (Pipe.drop_bytes (N.to_nat (c - sl_len s0)) pt) as [r k] eqn:ED. cbn [fst snd] in *.
      split; [exact A1|split; [lia|split; [lia|split; [congruence|split; [congruence|split; [congruence|exact A7]]]]]].
    + (* the front slice is advanced in place *)
      apply N.eqb_neq in Ewhole. assert (Hlt : c < sl_len s0) by lia.
      replace (N.min c (sl_len s0)) with c in E by lia.
      inversion E; subst g'. clear E. cbn [gslices gcslices gcsize glogical gbackrefs gcache_].
      replace (length p <=? N.to_nat c)%nat with false by (symmetry; apply Nat.leb_gt; lia).
      cbn [fst snd].
      destruct (sl_advance_bytes h s0 c F0 Hlt) as (Hbytes & Hok).
      split; [|split; [lia|split; [reflexivity|split; [reflexivity|split; [reflexivity|split; [reflexivity|]]]]]].
      * cbn [map]. f_equal; [|exact Hpt]. rewrite Hbytes, <- Hp. unfold nskipn. now rewrite skipn_map.
      * constructor; cbn [gslices gcache_]; [apply (gi_heap h g I)|apply (gi_cache h g I)|constructor; assumption|].
        pose proof (gi_sorted h g I) as PS. rewrite Esl in PS. eapply pairwise_head_change; [exact PS|].
        intros b Hb0. destruct s0 as [c0 o0 l0|bs0]; cbn [sl_advance]; destruct b as [cb ob lb|bb]; cbn [sl_before] in *; auto.
        intros Hc. specialize (Hb0 Hc). cbn [sl_len] in Hlt. lia.
Qed.

Theorem advance_refines h g s count g' n :
  GInv h g -> R h g s -> advance_slices count g = Some (g', n) ->
  GInv h g' /\ R h g' (fst (Pipe.advance (N.to_nat count) s)) /\ snd (Pipe.advance (N.to_nat count) s) = N.to_nat n.
Proof.
  intros I Rs E. unfold advance_slices, stable_slices in E.
  destruct (stable_count g) as [sc|] eqn:ES; [|discriminate].
  match type of E with context [consume_by_bytes ?f ?c g] => destruct (consume_by_bytes f c g) as [gx|] eqn:EC; [|discriminate] end.
  inversion E; subst gx n. clear E.
  rewrite stable_bytes_upto_spec in * by lia. rewrite N.add_0_l in *.
  pose proof (stable_count_related _ _ _ _ Rs ES) as HS.
  assert (Hstable : length (Pipe.stable_bytes s) = N.to_nat (fold_len (nfirstn sc (gslices g)))).
  { unfold Pipe.stable_bytes, Pipe.stable_slices. rewrite map_length, HS.
    apply (concat_len_related h).
    - unfold nfirstn. rewrite <- !firstn_map. f_equal. apply (r_bytes _ _ _ Rs).
    - apply Forall_firstn. apply (gi_slices h g I). }
  set (n := N.min count (fold_len (nfirstn sc (gslices g)))) in *.
  destruct (cbb_related h _ g (Pipe.slices s) n g' I (r_bytes _ _ _ Rs) EC) as (A1 & A2 & A3 & A4 & A5 & A6 & A7).
  unfold Pipe.advance. rewrite Hstable.
  replace (Nat.min (N.to_nat count) (N.to_nat (fold_len (nfirstn sc (gslices g))))) with (N.to_nat n) by (unfold n; lia).
  destruct (Pipe.drop_bytes (N.to_nat n) (Pipe.slices s)) as [r k] eqn:ED. cbn [fst snd] in *.
  split; [exact A7|]. split; [|reflexivity].
  constructor; cbn [Pipe.slices Pipe.consumed Pipe.table Pipe.logical Pipe.taken].
  - exact A1.
  - rewrite A2, (r_consumed _ _ _ Rs). lia.
  - rewrite A5. apply (r_table _ _ _ Rs).
  - rewrite A4. apply (r_logical _ _ _ Rs).
  - rewrite A3, (r_taken _ _ _ Rs). lia.
Qed.

(* ---- operations that do not touch the buffered bytes ---- *)
Lemma R_same_fields h h' g g' s :
  R h g s -> map (sl_bytes h') (gslices g') = map (sl_bytes h) (gslices g) ->
  gcslices g' = gcslices g -> gbackrefs g' = gbackrefs g -> glogical g' = glogical g -> gcsize g' = gcsize g ->
  R h' g' s.
Proof.
  intros Rs Hb H1 H2 H3 H4. constructor.
  - rewrite Hb. apply (r_bytes _ _ _ Rs).
  - rewrite H1. apply (r_consumed _ _ _ Rs).
  - rewrite H2. apply (r_table _ _ _ Rs).
  - rewrite H3. apply (r_logical _ _ _ Rs).
  - rewrite H4. apply (r_taken _ _ _ Rs).
Qed.

Lemma set_cache_refines h g s k : GInv h g -> R h g s -> cache_ok h k -> GInv h (set_cache k g) /\ R h (set_cache k g) s.
Proof.
  intros I Rs Hk. split.
  - constructor; cbn [set_cache gslices gcache_]; [apply (gi_heap h g I)|exact Hk|apply (gi_slices h g I)|apply (gi_sorted h g I)].
  - eapply R_same_fields; eauto.
Qed.

Lemma push_anchor_refines h g s a : GInv h g -> R h g s -> GInv h (push_anchor a g) /\ R h (push_anchor a g) s.
Proof.
  intros I Rs. split.
  - constructor; cbn [push_anchor gslices gcache_]; [apply (gi_heap h g I)|apply (gi_cache h g I)|apply (gi_slices h g I)|apply (gi_sorted h g I)].
  - eapply R_same_fields; eauto.
Qed.

Lemma clear_refines h g s : GInv h g -> GInv h (clear g) /\ R h (clear g) (Pipe.clear s).
Proof.
  intros I. split.
  - constructor; cbn [clear gslices gcache_]; [apply (gi_heap h g I)|apply (gi_cache h g I)|constructor|apply pairwise_nil].
  - constructor; reflexivity.
Qed.

(* a heap that only grew by appends and new chunks: every slice of g reads as before *)
Lemma frame_refines h h' g s k :
  GInv h g -> R h g s -> heap_ok h' -> cache_ok h' k ->
  (forall s0, sl_ok h s0 -> sl_bytes h' s0 = sl_bytes h s0 /\ sl_ok h' s0) ->
  GInv h' (set_cache k g) /\ R h' (set_cache k g) s.
Proof.
  intros I Rs Hh Hk Hframe.
  pose proof (gi_slices h g I) as F. rewrite Forall_forall in F.
  split.
  - constructor; cbn [set_cache gslices gcache_]; [exact Hh|exact Hk| |apply (gi_sorted h g I)].
    rewrite Forall_forall. intros s0 Hin. apply Hframe. now apply F.
  - eapply R_same_fields; eauto. cbn [set_cache gslices]. apply map_ext_in. intros s0 Hin. apply Hframe. now apply F.
Qed.

Theorem ensure_refines h g s n h' k' :
  GInv h g -> R h g s -> ensure_capacity h (gcache_ g) n = Some (h', k') ->
  GInv h' (set_cache (Some k') g) /\ R h' (set_cache (Some k') g) s.
Proof.
  intros I Rs E.
  destruct (ensure_capacity_spec _ _ _ _ _ (gi_cache h g I) (gi_heap h g I) E) as (Hk & Hh & _ & Hcase).
  apply (frame_refines h h' g s (Some k') I Rs Hh Hk).
  destruct Hcase as [(-> & _)|(cap & -> & _ & _)]; [auto|]. intros s0 H0. now apply sl_bytes_new_chunk.
Qed.

(* ---- anchored input ---- *)
Theorem anchored_n_refines h g s bs count h' g' :
  GInv h g -> R h g s -> nlen bs <= count -> anchored_n h bs count g = Some (h', g') ->
  GInv h' g' /\ exists merged, R h' g' (Pipe.push merged bs s).
Proof.
  intros I Rs Hcount E. unfold anchored_n in E.
  destruct (N.eq_dec count 0) as [Hz|Hnz].
  - (* nothing asked for: read_n returns the default slice without touching the arena *)
    subst count. assert (bs = []) by (apply nlen_zero; lia). subst bs. cbn in E. inversion E; subst h' g'.
    destruct (set_cache_refines h g s (gcache_ g) I Rs (gi_cache h g I)) as (I' & R').
    destruct (push_anchor_refines h _ s {| acount := 0; achunk := None |} I' R') as (I2 & R2).
    split; [exact I2|]. exists false. exact R2.
  - assert (Hcpos : 0 < count) by lia.
    destruct (arena_read_n h (gcache_ g) bs count) as [[[[hp kp'] sp] ap]|] eqn:EA; [|discriminate].
    destruct (arena_read_n_spec _ _ _ _ _ _ _ _ (gi_cache h g I) (gi_heap h g I) Hcpos Hcount EA)
      as (kp & -> & Hk' & Hh' & _ & Hframe & Hbytes & Enew & Hle & Hok & Hend & Ea & _).
    destruct (frame_refines h hp g s (Some kp) I Rs Hh' Hk' Hframe) as (I1 & R1).
    destruct bs as [|b0 bs0] eqn:Ebs.
    + (* nothing delivered: the slice is empty, only the cache may have moved *)
      rewrite Enew in E. cbn [sl_len nlen length N.of_nat] in E. cbn in E. inversion E; subst h' g'.
      destruct (push_anchor_refines hp _ s ap I1 R1) as (I2 & R2).
      split; [exact I2|]. exists false. exact R2.
    + rewrite <- Ebs in *. assert (Hne : bs <> []) by (rewrite Ebs; discriminate). specialize (Hok Hne).
      pose proof (sl_len_pos hp sp Hok) as Hpos.
      destruct (sl_len sp =? 0) eqn:E0; [apply N.eqb_eq in E0; lia|].
      destruct (push hp sp (set_cache (Some kp) g)) as [[h2 g2]|] eqn:EP; [|discriminate].
      inversion E; subst h' g'. clear E.
      assert (Hpush : GInv h2 g2 /\ exists merged, R h2 g2 (Pipe.push merged bs s)).
      { unfold push in EP.
        match type of EP with (if ?c then _ else _) = _ => destruct c end.
        - rewrite Hbytes in EP. eapply push_copy_refines; eauto.
        - destruct (push_borrowed sp (set_cache (Some kp) g)) as [gx|] eqn:EB; [|discriminate]. inversion EP; subst h2 gx.
          rewrite <- Hbytes. apply (push_borrowed_gen hp (set_cache (Some kp) g) s sp g2 I1 R1 Hok); [|exact EB].
          cbn [set_cache gslices]. intros s0 Hin. rewrite Enew. exact (in_sl_before_new h g kp (nlen bs) s0 I Hend Hin). }
      destruct Hpush as (I2 & merged & R2).
      destruct (push_anchor_refines h2 g2 _ ap I2 R2) as (I3 & R3).
      split; [exact I3|]. exists merged. exact R3.
Qed.
Theorem anchored_refines h g s bs h' g' :
  GInv h g -> R h g s -> anchored h bs g = Some (h', g') ->
  GInv h' g' /\ exists merged, R h' g' (Pipe.push merged bs s).
Proof. intros I Rs E. apply (anchored_n_refines h g s bs (nlen bs) h' g' I Rs (N.le_refl _)). exact E. Qed.

(* ---- Read: one advance per front slice; on the pipe side a sequence of reads ---- *)
Fixpoint pipe_reads (ws : list nat) (s : Pipe.st) : Pipe.st * list N :=
  match ws with
  | [] => (s, [])
  | w :: r => let '(s1, b1) := Pipe.read w s in let '(s2, b2) := pipe_reads r s1 in (s2, b1 ++ b2)
  end.

Lemma read_front h g s s0 rest w :
  GInv h g -> R h g s -> stable_slices g = Some (s0 :: rest) -> w <= sl_len s0 ->
  snd (Pipe.read (N.to_nat w) s) = nfirstn w (sl_bytes h s0).
Proof.
  intros I Rs ES Hw. unfold stable_slices in ES. destruct (stable_count g) as [sc|] eqn:EC; [|discriminate].
  inversion ES as [ES']. clear ES.
  pose proof (stable_count_related _ _ _ _ Rs EC) as HS.
  destruct (gslices g) as [|g0 gt] eqn:Eg; [unfold nfirstn in ES'; rewrite firstn_nil in ES'; discriminate|].
  assert (Hsc : (0 < N.to_nat sc)%nat).
  { destruct (N.to_nat sc) eqn:En; [|lia]. unfold nfirstn in ES'. rewrite En in ES'. discriminate. }
  assert (g0 = s0).
  { unfold nfirstn in ES'. destruct (N.to_nat sc); [lia|]. cbn [firstn] in ES'. now inversion ES'. }
  subst g0.
  pose proof (r_bytes _ _ _ Rs) as Hb. rewrite Eg in Hb. destruct (Pipe.slices s) as [|p0 pt] eqn:Ep; [discriminate|].
  cbn [map] in Hb. inversion Hb as [[Hp0 Hpt]].
  assert (Ok0 : sl_ok h s0).
  { pose proof (gi_slices h g I) as F. rewrite Eg in F. now inversion F. }
  pose proof (sl_len_bytes h s0 Ok0) as HL. unfold nlen in HL.
  unfold Pipe.read. cbn [snd]. unfold Pipe.stable_bytes, Pipe.stable_slices. rewrite HS, Ep.
  destruct (N.to_nat sc) as [|sc'] eqn:En; [lia|]. cbn [firstn concat]. unfold Pipe.mbyte in *. rewrite map_app.
  assert (Lp0 : length (map fst p0) = length (sl_bytes h s0)) by now rewrite Hp0.
  rewrite app_length, Lp0.
  replace (Nat.min (N.to_nat w) (length (sl_bytes h s0) + length (map fst (concat (firstn sc' pt))))) with (N.to_nat w) by lia.
  unfold nfirstn. rewrite firstn_app, Lp0. replace (N.to_nat w - length (sl_bytes h s0))%nat with 0%nat by lia.
  cbn [firstn]. now rewrite app_nil_r, Hp0.
Qed.

Lemma read_loop_refines h : forall fuel n g s acc g' out,
  GInv h g -> R h g s -> read_loop fuel h n g acc = Some (g', out) ->
  GInv h g' /\ exists ws, R h g' (fst (pipe_reads ws s)) /\ out = acc ++ snd (pipe_reads ws s).
Proof.
  induction fuel as [|fuel IH]; intros n g s acc g' out I Rs E; cbn [read_loop] in E.
  - assert (g' = g /\ out = acc) by (destruct (n =? 0); inversion E; auto). destruct H as (-> & ->).
    split; [exact I|]. exists []. cbn. split; [exact Rs|now rewrite app_nil_r].
  - destruct (n =? 0).
    { inversion E; subst g' out. split; [exact I|]. exists []. cbn. split; [exact Rs|now rewrite app_nil_r]. }
    destruct (stable_slices g) as [[|s0 rest]|] eqn:ES; [| |discriminate].
    { inversion E; subst g' out. split; [exact I|]. exists []. cbn. split; [exact Rs|now rewrite app_nil_r]. }
    destruct (advance_slices (N.min (sl_len s0) n) g) as [[g1 k1]|] eqn:EA; [|discriminate].
    destruct (advance_refines _ _ _ _ _ _ I Rs EA) as (I1 & R1 & _).
    pose proof (read_front h g s s0 rest (N.min (sl_len s0) n) I Rs ES ltac:(lia)) as Hfront.
    destruct (IH _ _ _ _ _ _ I1 R1 E) as (I' & ws & R' & Hout).
    split; [exact I'|]. exists (N.to_nat (N.min (sl_len s0) n) :: ws). cbn [pipe_reads].
    destruct (Pipe.read (N.to_nat (N.min (sl_len s0) n)) s) as [s1 b1] eqn:ER.
    cbn [snd] in Hfront. subst b1.
    assert (Es1 : s1 = fst (Pipe.advance (N.to_nat (N.min (sl_len s0) n)) s)) by (unfold Pipe.read in ER; now inversion ER).
    subst s1.
    destruct (pipe_reads ws (fst (Pipe.advance (N.to_nat (N.min (sl_len s0) n)) s))) as [s2 b2] eqn:EP. cbn [fst snd] in *.
    split; [exact R'|]. rewrite Hout, app_assoc. reflexivity.
Qed.

Theorem read_refines h g s n g' out :
  GInv h g -> R h g s -> read h n g = Some (g', out) ->
  GInv h g' /\ exists ws, R h g' (fst (pipe_reads ws s)) /\ out = snd (pipe_reads ws s).
Proof. intros I Rs E. unfold read in E. exact (read_loop_refines h _ _ _ _ _ _ _ I Rs E). Qed.
