(* Histories of one OwningIovec in the geometry-faithful model (iovec/Geo.v), and the refinement theorem:
   every history that does not panic is matched, operation by operation, by a history of the value-level
   pipe (iovec/Pipe.v) whose merge decisions are the ones Geo computed, with equal outputs; the final states
   are related (same buffered bytes slice by slice, same counters, same pending table) and the pipe state
   satisfies the pipe invariant, so that every theorem of C03 / C04 applies to it. *)
From Coq Require Import List NArith Bool Arith Lia.
From WP Require Import iovec.Arena iovec.Geo iovec.GeoMem iovec.GeoProofs iovec.GeoRefine.
From WP Require iovec.Pipe iovec.PipeProofs iovec.PipeProofs2 iovec.PipeProofs3 iovec.PipeProofs4.
Import ListNotations.
Open Scope N_scope.

Inductive g1op :=
  | HPush (bs : list N) | HPushCopy (bs : list N) | HPushBorrowed (bs : list N) | HExtend (items : list (list N))
  | HAnchored (bs : list N) | HRegister (p : list N) | HBackfill (b : option gbackref) (src : list N)
  | HConsume (k : N) | HAdvance (n : N) | HPop | HRead (n : N) | HClear | HFlush | HEnsure (n : N)
  | HAnchoredN (bs : list N) (count : N).   (* anchored input from a reader that delivers only bs of the count bytes asked for *)
Inductive gout := GUnit | GHandle (b : option gbackref) | GCount (n : N) | GBytes (bs : list N).

Definition g1step (h : heap) (g : giov) (o : g1op) : option (heap * giov * gout) :=
  match o with
  | HPush bs => match push h (SExt bs) g with Some (h', g') => Some (h', g', GUnit) | None => None end
  | HPushCopy bs => match push_copy h bs g with Some (h', g') => Some (h', g', GUnit) | None => None end
  | HPushBorrowed bs => match push_borrowed (SExt bs) g with Some g' => Some (h, g', GUnit) | None => None end
  | HExtend items => match extend (map SExt items) g with Some g' => Some (h, g', GUnit) | None => None end
  | HAnchored bs => match anchored h bs g with Some (h', g') => Some (h', g', GUnit) | None => None end
  | HRegister p => match register_patch h p g with Some (h', g', b) => Some (h', g', GHandle b) | None => None end
  | HBackfill b src => match backfill h b src g with Some (h', g') => Some (h', g', GUnit) | None => None end
  | HConsume k => match consume k g with Some (g', n) => Some (h, g', GCount n) | None => None end
  | HAdvance n => match advance_slices n g with Some (g', c) => Some (h, g', GCount c) | None => None end
  | HPop => match pop_front g with Some g' => Some (h, g', GUnit) | None => None end
  | HRead n => match read h n g with Some (g', bs) => Some (h, g', GBytes bs) | None => None end
  | HClear => Some (h, clear g, GUnit)
  | HFlush => Some (h, set_cache None g, GUnit)
  | HEnsure n => match ensure_capacity h (gcache_ g) n with
                 | Some (h', k') => Some (h', set_cache (Some k') g, GUnit)
                 | None => None
                 end
  | HAnchoredN bs count => if nlen bs <=? count
                           then match anchored_n h bs count g with Some (h', g') => Some (h', g', GUnit) | None => None end
                           else None
  end.

Fixpoint g1run (h : heap) (g : giov) (ops : list g1op) : option (heap * giov * list gout) :=
  match ops with
  | [] => Some (h, g, [])
  | o :: r => match g1step h g o with
              | None => None
              | Some (h1, g1, x) => match g1run h1 g1 r with
                                    | Some (h', g', xs) => Some (h', g', x :: xs)
                                    | None => None
                                    end
              end
  end.

(* what one Geo operation and its output mean on the pipe side *)
Definition matches (o : g1op) (x : gout) (s s' : Pipe.st) : Prop :=
  match o with
  | HPush bs | HPushCopy bs | HPushBorrowed bs | HAnchored bs | HAnchoredN bs _ => exists merged, s' = Pipe.push merged bs s
  | HExtend items => exists ms, length ms = length items /\ s' = pipe_pushes ms items s
  | HRegister p => exists merged b, x = GHandle b /\ s' = fst (Pipe.register merged p s) /\
                                    option_map (fun b => N.to_nat (bend b)) b = snd (Pipe.register merged p s)
  | HBackfill (Some b) src => Pipe.backfill (N.to_nat (bend b)) src s = Some s'
  | HBackfill None src => src = [] /\ s' = s
  | HConsume k => exists n, x = GCount n /\ s' = fst (Pipe.consume (N.to_nat k) s) /\ snd (Pipe.consume (N.to_nat k) s) = N.to_nat n
  | HAdvance k => exists n, x = GCount n /\ s' = fst (Pipe.advance (N.to_nat k) s) /\ snd (Pipe.advance (N.to_nat k) s) = N.to_nat n
  | HPop => s' = fst (Pipe.consume 1 s) /\ snd (Pipe.consume 1 s) = 1%nat
  | HRead n => exists ws bs, x = GBytes bs /\ s' = fst (pipe_reads ws s) /\ bs = snd (pipe_reads ws s)
  | HClear => s' = Pipe.clear s
  | HFlush | HEnsure _ => s' = s
  end.

Inductive pipe_hist : Pipe.st -> list g1op -> list gout -> Pipe.st -> Prop :=
  | ph_nil s : pipe_hist s [] [] s
  | ph_cons s o x s1 ops xs s' : matches o x s s1 -> pipe_hist s1 ops xs s' -> pipe_hist s (o :: ops) (x :: xs) s'.

(* the pipe invariant survives everything `matches` allows *)
Lemma pipe_pushes_inv ms : forall items s, PipeProofs.Inv s -> PipeProofs.Inv (pipe_pushes ms items s).
Proof.
  induction ms as [|m ms IH]; intros items s I; [exact I|]. destruct items as [|bs items]; [exact I|].
  cbn [pipe_pushes]. apply IH. now apply PipeProofs2.push_inv.
Qed.
Lemma pipe_reads_inv ws : forall s, PipeProofs.Inv s -> PipeProofs.Inv (fst (pipe_reads ws s)).
Proof.
  induction ws as [|w ws IH]; intros s I; [exact I|]. cbn [pipe_reads].
  destruct (Pipe.read w s) as [s1 b1] eqn:ER. specialize (IH s1).
  destruct (pipe_reads ws s1) as [s2 b2]. cbn [fst] in *. apply IH.
  apply (PipeProofs4.step_inv s (Pipe.ORead w) s1 (Pipe.UBytes b1) I). cbn [Pipe.step]. now rewrite ER.
Qed.

Lemma matches_inv o x s s' : PipeProofs.Inv s -> matches o x s s' -> PipeProofs.Inv s'.
Proof.
  intros I M. destruct o as [bs|bs|bs|items|bs|p|b src|k|k| |k| | |k|bs count]; cbn [matches] in M.
  - destruct M as (m & ->). now apply PipeProofs2.push_inv.
  - destruct M as (m & ->). now apply PipeProofs2.push_inv.
  - destruct M as (m & ->). now apply PipeProofs2.push_inv.
  - destruct M as (ms & _ & ->). now apply pipe_pushes_inv.
  - destruct M as (m & ->). now apply PipeProofs2.push_inv.
  - destruct M as (m & b & _ & -> & _). now apply PipeProofs2.register_inv.
  - destruct b as [b|]; [eapply PipeProofs3.backfill_inv; eauto|destruct M as (_ & ->); exact I].
  - destruct M as (n & _ & -> & _). now apply PipeProofs.consume_inv.
  - destruct M as (n & _ & -> & _).
    destruct (Pipe.advance (N.to_nat k) s) as [s1 c] eqn:EA. cbn [fst].
    apply (PipeProofs4.step_inv s (Pipe.OAdvance (N.to_nat k)) s1 (Pipe.UCount c) I). cbn [Pipe.step]. now rewrite EA.
  - destruct M as (-> & _). now apply PipeProofs.consume_inv.
  - destruct M as (ws & bs & _ & -> & _). now apply pipe_reads_inv.
  - subst s'. apply PipeProofs4.Inv_empty.
  - now subst.
  - now subst.
  - destruct M as (m & ->). now apply PipeProofs2.push_inv.
Qed.

(* one step *)
Theorem g1step_refines h g s o h' g' x :
  GInv h g -> R h g s -> g1step h g o = Some (h', g', x) ->
  GInv h' g' /\ exists s', matches o x s s' /\ R h' g' s'.
Proof.
  intros I Rs E. destruct o as [bs|bs|bs|items|bs|p|b src|k|k| |k| | |k|bs count]; cbn [g1step] in E.
  - destruct (push h (SExt bs) g) as [[h1 g1]|] eqn:EP; [|discriminate]. inversion E; subst h1 g1 x.
    destruct (push_refines _ _ _ _ _ _ I Rs EP) as (I' & m & R'). split; [exact I'|]. eexists. split; [exists m; reflexivity|exact R'].
  - destruct (push_copy h bs g) as [[h1 g1]|] eqn:EP; [|discriminate]. inversion E; subst h1 g1 x.
    destruct (push_copy_refines _ _ _ _ _ _ I Rs EP) as (I' & m & R'). split; [exact I'|]. eexists. split; [exists m; reflexivity|exact R'].
  - destruct (push_borrowed (SExt bs) g) as [g1|] eqn:EP; [|discriminate]. inversion E; subst h' g1 x.
    destruct (push_borrowed_refines _ _ _ _ _ I Rs EP) as (I' & m & R'). split; [exact I'|]. eexists. split; [exists m; reflexivity|exact R'].
  - destruct (extend (map SExt items) g) as [g1|] eqn:EP; [|discriminate]. inversion E; subst h' g1 x.
    destruct (extend_refines _ _ _ _ _ I Rs EP) as (I' & ms & Hl & R'). split; [exact I'|]. eexists. split; [exists ms; split; [exact Hl|reflexivity]|exact R'].
  - destruct (anchored h bs g) as [[h1 g1]|] eqn:EP; [|discriminate]. inversion E; subst h1 g1 x.
    destruct (anchored_refines _ _ _ _ _ _ I Rs EP) as (I' & m & R'). split; [exact I'|]. eexists. split; [exists m; reflexivity|exact R'].
  - destruct (register_patch h p g) as [[[h1 g1] b]|] eqn:EP; [|discriminate]. inversion E; subst h1 g1 x.
    destruct (register_refines _ _ _ _ _ _ _ I Rs EP) as (I' & m & R' & Hid). split; [exact I'|].
    eexists. split; [exists m, b; split; [reflexivity|split; [reflexivity|exact Hid]]|exact R'].
  - destruct (backfill h b src g) as [[h1 g1]|] eqn:EP; [|discriminate]. inversion E; subst h1 g1 x.
    destruct b as [b|].
    + destruct (backfill_refines _ _ _ _ _ _ _ I Rs EP) as (I' & s' & EB & R'). split; [exact I'|]. exists s'. split; [exact EB|exact R'].
    + cbn [backfill] in EP. destruct src; [|discriminate]. inversion EP; subst h' g'. split; [exact I|]. exists s. cbn. auto.
  - destruct (consume k g) as [[g1 n]|] eqn:EP; [|discriminate]. inversion E; subst h' g1 x.
    destruct (consume_refines _ _ _ _ _ _ I Rs EP) as (I' & R' & Hn). split; [exact I'|].
    eexists. split; [exists n; split; [reflexivity|split; [reflexivity|exact Hn]]|exact R'].
  - destruct (advance_slices k g) as [[g1 c]|] eqn:EP; [|discriminate]. inversion E; subst h' g1 x.
    destruct (advance_refines _ _ _ _ _ _ I Rs EP) as (I' & R' & Hn). split; [exact I'|].
    eexists. split; [exists c; split; [reflexivity|split; [reflexivity|exact Hn]]|exact R'].
  - destruct (pop_front g) as [g1|] eqn:EP; [|discriminate]. inversion E; subst h' g1 x.
    unfold pop_front in EP. destruct (consume 1 g) as [[g2 n]|] eqn:EC; [|discriminate].
    destruct n as [|[p|p|]]; try discriminate. inversion EP; subst g2.
    destruct (consume_refines _ _ _ _ _ _ I Rs EC) as (I' & R' & Hn). split; [exact I'|].
    eexists. split; [split; [reflexivity|exact Hn]|exact R'].
  - destruct (read h k g) as [[g1 bs]|] eqn:EP; [|discriminate]. inversion E; subst h' g1 x.
    destruct (read_refines _ _ _ _ _ _ I Rs EP) as (I' & ws & R' & Hout). split; [exact I'|].
    eexists. split; [exists ws, bs; split; [reflexivity|split; [reflexivity|exact Hout]]|exact R'].
  - inversion E; subst h' g' x. destruct (clear_refines h g s I) as (I' & R'). split; [exact I'|]. eexists. split; [reflexivity|exact R'].
  - inversion E; subst h' g' x. destruct (set_cache_refines h g s None I Rs Logic.I) as (I' & R'). split; [exact I'|]. exists s. split; [reflexivity|exact R'].
  - destruct (ensure_capacity h (gcache_ g) k) as [[h1 k1]|] eqn:EP; [|discriminate]. inversion E; subst h1 g' x.
    destruct (ensure_refines _ _ _ _ _ _ I Rs EP) as (I' & R'). split; [exact I'|]. exists s. split; [reflexivity|exact R'].
  - destruct (nlen bs <=? count) eqn:Ec; [|discriminate]. apply N.leb_le in Ec.
    destruct (anchored_n h bs count g) as [[h1 g1]|] eqn:EP; [|discriminate]. inversion E; subst h1 g1 x.
    destruct (anchored_n_refines _ _ _ _ _ _ _ I Rs Ec EP) as (I' & m & R'). split; [exact I'|]. eexists. split; [exists m; reflexivity|exact R'].
Qed.

(* every history *)
Theorem g1run_refines ops : forall h g s h' g' xs,
  GInv h g -> R h g s -> g1run h g ops = Some (h', g', xs) ->
  GInv h' g' /\ exists s', pipe_hist s ops xs s' /\ R h' g' s'.
Proof.
  induction ops as [|o ops IH]; intros h g s h' g' xs I Rs E; cbn [g1run] in E.
  - inversion E; subst h' g' xs. split; [exact I|]. exists s. split; [constructor|exact Rs].
  - destruct (g1step h g o) as [[[h1 g1] x]|] eqn:ES; [|discriminate].
    destruct (g1run h1 g1 ops) as [[[h2 g2] xs2]|] eqn:ER; [|discriminate]. inversion E; subst h2 g2 xs.
    destruct (g1step_refines _ _ _ _ _ _ _ I Rs ES) as (I1 & s1 & M1 & R1).
    destruct (IH _ _ _ _ _ _ I1 R1 ER) as (I' & s' & PH & R').
    split; [exact I'|]. exists s'. split; [econstructor; eauto|exact R'].
Qed.

Lemma pipe_hist_inv s ops xs s' : PipeProofs.Inv s -> pipe_hist s ops xs s' -> PipeProofs.Inv s'.
Proof. intros I H. induction H as [|s o x s1 ops xs s' M _ IH]; [exact I|]. apply IH. eapply matches_inv; eauto. Qed.

(* from the empty iovec: the end-to-end statement *)
Theorem geo_refines_pipe ops h' g' xs :
  g1run [] empty_iov ops = Some (h', g', xs) ->
  GInv h' g' /\ exists s', pipe_hist Pipe.empty_st ops xs s' /\ R h' g' s' /\ PipeProofs.Inv s'.
Proof.
  intros E.
  assert (H0 : heap_ok []) by (intros c Hc; cbn in Hc; lia).
  destruct (g1run_refines ops [] empty_iov Pipe.empty_st h' g' xs (GInv_empty [] H0) (R_empty []) E) as (I' & s' & PH & R').
  split; [exact I'|]. exists s'. split; [exact PH|]. split; [exact R'|].
  eapply pipe_hist_inv; [apply PipeProofs4.Inv_empty|exact PH].
Qed.

(* what the user sees: the bytes buffered in the geometry-faithful model are the bytes of the related pipe state *)
Lemma R_all_bytes h g s : R h g s -> all_bytes h g = map fst (concat (Pipe.slices s)).
Proof.
  intros Rs. unfold all_bytes. rewrite <- (r_bytes _ _ _ Rs). rewrite concat_map. reflexivity.
Qed.

(* the slices a consumer may look at (stable_prefix) carry exactly the pipe's stable bytes *)
Lemma R_stable_bytes h g s st : R h g s -> stable_slices g = Some st ->
  concat (map (sl_bytes h) st) = Pipe.stable_bytes s.
Proof.
  intros Rs ES. unfold stable_slices in ES. destruct (stable_count g) as [sc|] eqn:EC; [|discriminate].
  inversion ES; subst st. pose proof (stable_count_related _ _ _ _ Rs EC) as HS.
  unfold Pipe.stable_bytes, Pipe.stable_slices. rewrite HS, concat_map. f_equal.
  unfold nfirstn. rewrite <- !firstn_map. f_equal. symmetry. apply (r_bytes _ _ _ Rs).
Qed.

Theorem geo_history_exposes_no_hole ops h' g' xs st :
  g1run [] empty_iov ops = Some (h', g', xs) -> stable_slices g' = Some st ->
  exists s', R h' g' s' /\ PipeProofs.Inv s' /\
             exists t, Pipe.stable_cells (Pipe.abs s') = concat (map (sl_bytes h') st) ++ t.
Proof.
  intros E ES. destruct (geo_refines_pipe ops h' g' xs E) as (_ & s' & _ & R' & I').
  exists s'. split; [exact R'|]. split; [exact I'|].
  rewrite (R_stable_bytes h' g' s' st R' ES). exact (PipeProofs4.stable_before_first_hole s' I').
Qed.
Theorem geo_pending_iff h g s : R h g s -> has_pending g = negb (Pipe.iovs_ok s).
Proof.
  intros Rs. unfold has_pending, Pipe.iovs_ok. rewrite (r_table h g s Rs).
  destruct (gbackrefs g); reflexivity.
Qed.
