(* C10: faithful model of the arena's chunk size policy, ByteArena::find_hint_size
   (owning_iovec/src/byte_arena/mod.rs), over the size sequence and rounding factor translated
   from the source.  usize arithmetic is 64-bit; every assert! is a Panic outcome. *)
From Coq Require Import List NArith Bool.
From WPGen Require Import Params.
Import ListNotations.
Open Scope N_scope.

Definition USIZE_MAX : N := 18446744073709551615.
Definition max_seq : N := last BUMP_REGION_SIZE_SEQUENCE 0.
Definition div_ceil (a b : N) : N := (a + (b - 1)) / b.
Definition sat_mul (a b : N) : N := N.min (a * b) USIZE_MAX.
Definition sat_add (a b : N) : N := N.min (a + b) USIZE_MAX.

Inductive hres := HOk (n : N) | HPanic.

Definition pick (wanted : N) : N :=
  match find (fun s => wanted <=? s) BUMP_REGION_SIZE_SEQUENCE with Some s => s | None => max_seq end.

Definition find_hint_size (len prev : N) : hres :=
  if max_seq <=? len then
    let hint := sat_mul (div_ceil len BUMP_REGION_SIZE_FACTOR) BUMP_REGION_SIZE_FACTOR in
    if hint <? len then HPanic else HOk hint                       (* assert!(hint >= len) *)
  else if max_seq <=? prev then HOk max_seq                        (* len < max: both asserts hold *)
  else
    let wanted := N.max (sat_add prev 1) len in
    if max_seq <? wanted then HPanic                               (* assert!(wanted <= max_size_sequence) *)
    else
      let hint := pick wanted in
      if hint <? len then HPanic                                   (* assert!(hint >= len) *)
      else if hint <=? prev then HPanic                            (* assert!(hint > prev_capacity) *)
      else HOk hint.

(* AllocCache::new(wanted, hint): the capacity of the chunk that is created *)
Definition new_chunk_capacity (len prev : N) : hres :=
  match find_hint_size len prev with HOk h => HOk (N.max h len) | HPanic => HPanic end.
