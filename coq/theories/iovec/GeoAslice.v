(* AnchoredSlice in the geometry-faithful model: whatever is done to it (skip_prefix, drop_suffix, split_at, take, clone),
   the slice stays inside the bytes written to the chunk its own anchor holds; the pieces of a split are disjoint, adjacent,
   and read as the two halves of the original. *)
From Coq Require Import List NArith Bool Arith Lia.
From WP Require Import iovec.Geo iovec.GeoMem iovec.GeoProofs.
Import ListNotations.
Open Scope N_scope.

(* the slice lies in the written part of the chunk that the anchor keeps alive (or is empty caller memory) *)
Definition as_ok (h : heap) (a : aslice) : Prop :=
  match as_sl a with
  | SArena c off len => achunk (as_anchor a) = Some c /\ (c < length h)%nat /\ off + len <= nlen (cdata (chunk_at h c))
  | SExt bs => bs = []
  end.

Lemma as_default_ok h : as_ok h as_default. Proof. reflexivity. Qed.

Theorem as_read_n_ok h k got count h' k' a : cache_ok h k -> heap_ok h -> 0 < count -> nlen got <= count ->
  as_read_n h k got count = Some (h', k', a) -> as_ok h' a /\ sl_bytes h' (as_sl a) = got /\ as_len a = nlen got.
Proof.
  intros Hk Hh Hp Hc E. unfold as_read_n in E. destruct (arena_read_n h k got count) as [[[[h1 k1] s] an]|] eqn:EA; [|discriminate].
  inversion E; subst h' k' a. clear E.
  destruct (arena_read_n_spec _ _ _ _ _ _ _ _ Hk Hh Hp Hc EA) as (kk & -> & (Hc1 & Hd1 & _) & _ & _ & _ & Hb & Es & Hle & _ & _ & Ea & _).
  cbn [as_sl as_anchor as_len]. split; [|split; [exact Hb|rewrite Es; reflexivity]].
  unfold as_ok. cbn [as_sl as_anchor]. rewrite Es, Ea. cbn [achunk]. split; [reflexivity|]. split; [exact Hc1|]. lia.
Qed.

Theorem as_skip_prefix_ok h a n : as_ok h a ->
  as_ok h (fst (as_skip_prefix a n)) /\ snd (as_skip_prefix a n) = N.min n (as_len a) /\
  sl_bytes h (as_sl (fst (as_skip_prefix a n))) = nskipn (N.min n (as_len a)) (sl_bytes h (as_sl a)).
Proof.
  intros H. unfold as_skip_prefix, as_ok, as_len in *. cbn [fst snd as_sl as_anchor].
  destruct (as_sl a) as [c off len|bs]; cbn [sl_skip sl_len sl_bytes] in *.
  - split; [|split; [reflexivity|]].
    + destruct H as (A & B & C). repeat split; auto; lia.
    + set (k := N.min n len). rewrite <- nskipn_nskipn. unfold nfirstn, nskipn. rewrite skipn_firstn_comm. f_equal. lia.
  - subst bs. cbn [nlen length N.of_nat]. split; [unfold nskipn; apply skipn_nil|]. split; [reflexivity|]. unfold nskipn. now rewrite !skipn_nil.
Qed.

Theorem as_drop_suffix_ok h a n : as_ok h a ->
  as_ok h (fst (as_drop_suffix a n)) /\ snd (as_drop_suffix a n) = N.min n (as_len a) /\
  sl_bytes h (as_sl (fst (as_drop_suffix a n))) = nfirstn (as_len a - N.min n (as_len a)) (sl_bytes h (as_sl a)).
Proof.
  intros H. unfold as_drop_suffix, as_ok, as_len in *. cbn [fst snd as_sl as_anchor].
  destruct (as_sl a) as [c off len|bs]; cbn [sl_keep sl_len sl_bytes] in *.
  - split; [|split; [reflexivity|]].
    + destruct H as (A & B & C). repeat split; auto; lia.
    + unfold nfirstn. rewrite firstn_firstn. f_equal. lia.
  - subst bs. cbn [nlen length N.of_nat]. split; [unfold nfirstn; apply firstn_nil|]. split; [reflexivity|]. unfold nfirstn. now rewrite !firstn_nil.
Qed.

(* split_at: both pieces are held by (a clone of) the same anchor; they are adjacent, disjoint and read as the two halves *)
Theorem as_split_at_ok h a mid : as_ok h a ->
  let '(l, r) := as_split_at a mid in
  as_ok h l /\ as_ok h r /\ sl_bytes h (as_sl l) ++ sl_bytes h (as_sl r) = sl_bytes h (as_sl a) /\
  as_len l = N.min mid (as_len a) /\ as_len l + as_len r = as_len a /\
  (mid < as_len a -> as_anchor l = as_anchor a /\ as_anchor r = as_anchor a /\
     match as_sl l, as_sl r with
     | SArena c lo ll, SArena c' ro _ => c = c' /\ lo + ll = ro
     | _, _ => False
     end \/ as_len a = 0).
Proof.
  intros H. unfold as_split_at. destruct (as_len a <=? mid) eqn:E.
  - apply N.leb_le in E. split; [exact H|]. split; [apply as_default_ok|]. cbn [as_default as_sl sl_bytes as_len sl_len nlen length N.of_nat].
    rewrite app_nil_r. split; [reflexivity|]. unfold as_len in *. split; [lia|]. split; [cbn; lia|]. intros Hlt. lia.
  - apply N.leb_gt in E. unfold as_ok, as_len in *. cbn [as_sl as_anchor].
    destruct (as_sl a) as [c off len|bs] eqn:Es; cbn [sl_keep sl_skip sl_len sl_bytes] in *.
    + destruct H as (A & B & C). split; [repeat split; auto; lia|]. split; [repeat split; auto; lia|].
      split.
      * symmetry. replace len with (mid + (len - mid)) at 1 by lia. rewrite nfirstn_add, nskipn_nskipn. reflexivity.
      * split; [lia|]. split; [lia|]. intros _. left. auto.
    + subst bs. cbn in E. lia.
Qed.
