(* Memory lemmas for the geometry-faithful model (iovec/Geo.v): reads through slices are stable under
   appends at the bump offset, new chunks, and in-place writes elsewhere. *)
From Coq Require Import List NArith Bool Arith Lia.
From WP Require Import iovec.Geo.
Import ListNotations.
Open Scope N_scope.

Lemma nlen_app {A} (a b : list A) : nlen (a ++ b) = nlen a + nlen b.
Proof. unfold nlen. rewrite app_length. lia. Qed.
Lemma nlen_nil {A} : nlen (@nil A) = 0. Proof. reflexivity. Qed.
Lemma nlen_cons {A} (x : A) l : nlen (x :: l) = 1 + nlen l.
Proof. unfold nlen. cbn [length]. lia. Qed.
Lemma nlen_zero {A} (l : list A) : nlen l = 0 <-> l = [].
Proof. unfold nlen. destruct l; cbn [length]; split; intros H; try reflexivity; try discriminate; lia. Qed.
Lemma nlen_nfirstn {A} n (l : list A) : nlen (nfirstn n l) = N.min n (nlen l).
Proof. unfold nlen, nfirstn. rewrite firstn_length. lia. Qed.
Lemma nlen_nskipn {A} n (l : list A) : nlen (nskipn n l) = nlen l - n.
Proof. unfold nlen, nskipn. rewrite skipn_length. lia. Qed.
Lemma nlen_map {A B} (f : A -> B) l : nlen (map f l) = nlen l.
Proof. unfold nlen. now rewrite map_length. Qed.

Lemma nfirstn_all {A} n (l : list A) : nlen l <= n -> nfirstn n l = l.
Proof. unfold nlen, nfirstn. intros H. apply firstn_all2. lia. Qed.
Lemma nskipn_all {A} n (l : list A) : nlen l <= n -> nskipn n l = [].
Proof. unfold nlen, nskipn. intros H. apply skipn_all2. lia. Qed.
Lemma nfirstn_0 {A} (l : list A) : nfirstn 0 l = [].
Proof. reflexivity. Qed.
Lemma nskipn_0 {A} (l : list A) : nskipn 0 l = l.
Proof. reflexivity. Qed.

Lemma nfirstn_app_l {A} n (a b : list A) : n <= nlen a -> nfirstn n (a ++ b) = nfirstn n a.
Proof.
  unfold nlen, nfirstn. intros H. rewrite firstn_app.
  replace (N.to_nat n - length a)%nat with 0%nat by lia. cbn [firstn]. now rewrite app_nil_r.
Qed.
Lemma nskipn_app_l {A} n (a b : list A) : n <= nlen a -> nskipn n (a ++ b) = nskipn n a ++ b.
Proof.
  unfold nlen, nskipn. intros H. rewrite skipn_app.
  replace (N.to_nat n - length a)%nat with 0%nat by lia. reflexivity.
Qed.
Lemma nskipn_app_exact {A} (a b : list A) : nskipn (nlen a) (a ++ b) = b.
Proof.
  unfold nlen, nskipn. rewrite Nat2N.id, skipn_app, skipn_all, Nat.sub_diag. reflexivity.
Qed.
Lemma nfirstn_app_exact {A} (a b : list A) : nfirstn (nlen a) (a ++ b) = a.
Proof.
  unfold nlen, nfirstn. rewrite Nat2N.id, firstn_app, firstn_all, Nat.sub_diag. cbn [firstn]. now rewrite app_nil_r.
Qed.
Lemma skipn_skipn' {A} a b (l : list A) : skipn a (skipn b l) = skipn (b + a) l.
Proof.
  revert l. induction b as [|b IH]; intros l; [reflexivity|].
  destruct l as [|x l]; [now rewrite !skipn_nil|]. cbn [skipn Nat.add]. apply IH.
Qed.
Lemma nskipn_nskipn {A} a b (l : list A) : nskipn a (nskipn b l) = nskipn (b + a) l.
Proof. unfold nskipn. rewrite skipn_skipn', N2Nat.inj_add. reflexivity. Qed.
Lemma nfirstn_nskipn_split {A} n (l : list A) : nfirstn n l ++ nskipn n l = l.
Proof. apply firstn_skipn. Qed.
Lemma firstn_add' {A} a b (l : list A) : firstn (a + b) l = firstn a l ++ firstn b (skipn a l).
Proof.
  revert l. induction a as [|a IH]; intros l; [reflexivity|].
  destruct l as [|x l]; [now rewrite !firstn_nil|]. cbn [Nat.add firstn skipn app]. f_equal. apply IH.
Qed.
Lemma nfirstn_add {A} a b (l : list A) : nfirstn (a + b) l = nfirstn a l ++ nfirstn b (nskipn a l).
Proof. unfold nfirstn, nskipn. rewrite N2Nat.inj_add. apply firstn_add'. Qed.

(* reading a range that lies inside the first part of a list *)
Lemma read_app_l {A} off len (a b : list A) : off + len <= nlen a ->
  nfirstn len (nskipn off (a ++ b)) = nfirstn len (nskipn off a).
Proof.
  intros H. rewrite nskipn_app_l by lia. apply nfirstn_app_l. rewrite nlen_nskipn. lia.
Qed.
Lemma read_firstn {A} off len top (d : list A) : off + len <= top ->
  nfirstn len (nskipn off (nfirstn top d)) = nfirstn len (nskipn off d).
Proof.
  intros H. rewrite <- (nfirstn_nskipn_split top d) at 2.
  destruct (N.le_gt_cases top (nlen d)) as [Hd|Hd].
  - symmetry. apply read_app_l. rewrite nlen_nfirstn. lia.
  - rewrite (nskipn_all top d) by lia. now rewrite app_nil_r.
Qed.

(* ---- poke ---- *)
Lemma poke_append d src : poke d (nlen d) src = d ++ src.
Proof.
  unfold poke. rewrite nfirstn_all by lia. rewrite nskipn_all by lia. now rewrite app_nil_r.
Qed.
Lemma nlen_poke d off src : off + nlen src <= nlen d -> nlen (poke d off src) = nlen d.
Proof.
  intros H. unfold poke. rewrite !nlen_app, nlen_nfirstn, nlen_nskipn. lia.
Qed.
(* a range that ends at or before the written range is unchanged *)
Lemma read_poke_before d p src off len : off + len <= p -> p <= nlen d ->
  nfirstn len (nskipn off (poke d p src)) = nfirstn len (nskipn off d).
Proof.
  intros H Hp. unfold poke. rewrite read_app_l by (rewrite nlen_nfirstn; lia).
  apply read_firstn. lia.
Qed.
(* a range that starts at or after the end of the written range is unchanged *)
Lemma read_poke_after d p src off : p + nlen src <= off -> p <= nlen d ->
  nskipn off (poke d p src) = nskipn off d.
Proof.
  intros H Hp. unfold poke. rewrite app_assoc.
  assert (L : nlen (nfirstn p d ++ src) = p + nlen src) by (rewrite nlen_app, nlen_nfirstn; lia).
  replace off with (nlen (nfirstn p d ++ src) + (off - (p + nlen src))) by lia.
  rewrite <- nskipn_nskipn, nskipn_app_exact, nskipn_nskipn. f_equal. lia.
Qed.
Lemma split_at {A} n (l : list A) : n <= nlen l -> exists a r, l = a ++ r /\ nlen a = n.
Proof.
  intros H. exists (nfirstn n l), (nskipn n l). split; [symmetry; apply nfirstn_nskipn_split|].
  rewrite nlen_nfirstn. lia.
Qed.
Lemma nskipn_app_n {A} n k (a x : list A) : nlen a = n -> nskipn (n + k) (a ++ x) = nskipn k x.
Proof. intros <-. now rewrite <- nskipn_nskipn, nskipn_app_exact. Qed.
Lemma nfirstn_app_n {A} n k (a x : list A) : nlen a = n -> nfirstn (n + k) (a ++ x) = a ++ nfirstn k x.
Proof. intros <-. now rewrite nfirstn_add, nfirstn_app_exact, nskipn_app_exact. Qed.
Lemma nskipn_app_n0 {A} n (a x : list A) : nlen a = n -> nskipn n (a ++ x) = x.
Proof. intros <-. apply nskipn_app_exact. Qed.
Lemma nfirstn_app_n0 {A} n (a x : list A) : nlen a = n -> nfirstn n (a ++ x) = a.
Proof. intros <-. apply nfirstn_app_exact. Qed.

(* the range that contains the written range reads as the old contents with src written at the relative offset *)
Lemma read_poke_inside d off len b src : b + nlen src <= len -> off + len <= nlen d ->
  nfirstn len (nskipn off (poke d (off + b) src)) = poke (nfirstn len (nskipn off d)) b src.
Proof.
  intros Hb Hd.
  destruct (split_at off d ltac:(lia)) as (A & R1 & -> & LA). rewrite nlen_app in Hd.
  destruct (split_at b R1 ltac:(lia)) as (B & R2 & -> & LB). rewrite nlen_app in Hd.
  destruct (split_at (nlen src) R2 ltac:(lia)) as (C & R3 & -> & LC). rewrite nlen_app in Hd.
  destruct (split_at (len - b - nlen src) R3 ltac:(lia)) as (E & F & -> & LE).
  (* right-hand side *)
  rewrite (nskipn_app_n0 off A) by exact LA.
  assert (Y : nfirstn len (B ++ C ++ E ++ F) = B ++ C ++ E).
  { replace len with (b + (nlen src + ((len - b - nlen src) + 0))) by lia.
    rewrite (nfirstn_app_n b) by exact LB. rewrite (nfirstn_app_n (nlen src)) by exact LC.
    rewrite (nfirstn_app_n (len - b - nlen src)) by exact LE. rewrite nfirstn_0, app_nil_r. reflexivity. }
  rewrite Y. unfold poke.
  rewrite (nfirstn_app_n0 b B) by exact LB.
  assert (Z : nskipn (b + nlen src) (B ++ C ++ E) = E).
  { replace (b + nlen src) with (b + (nlen src + 0)) by lia.
    rewrite (nskipn_app_n b) by exact LB. rewrite (nskipn_app_n (nlen src)) by exact LC. apply nskipn_0. }
  rewrite Z.
  (* left-hand side *)
  assert (LAB : nlen (A ++ B) = off + b) by (rewrite nlen_app; lia).
  assert (P1 : nfirstn (off + b) (A ++ B ++ C ++ E ++ F) = A ++ B).
  { rewrite (app_assoc A B). apply nfirstn_app_n0. exact LAB. }
  assert (P2 : nskipn (off + b + nlen src) (A ++ B ++ C ++ E ++ F) = E ++ F).
  { rewrite (app_assoc A B). replace (off + b + nlen src) with ((off + b) + (nlen src + 0)) by lia.
    rewrite (nskipn_app_n (off + b)) by exact LAB. rewrite (nskipn_app_n (nlen src)) by exact LC. apply nskipn_0. }
  rewrite P1, P2. rewrite <- (app_assoc A B). rewrite (nskipn_app_n0 off A) by exact LA.
  replace len with (b + (nlen src + ((len - b - nlen src) + 0))) by lia.
  rewrite (nfirstn_app_n b) by exact LB. rewrite (nfirstn_app_n (nlen src)) by reflexivity.
  rewrite (nfirstn_app_n (len - b - nlen src)) by exact LE. rewrite nfirstn_0, app_nil_r. reflexivity.
Qed.

(* ---- heap ---- *)
Lemma length_update_nth {A} n (f : A -> A) l : length (update_nth n f l) = length l.
Proof. revert n. induction l as [|x l IH]; intros n; destruct n; cbn; auto. Qed.
Lemma nth_update_nth_same {A} n (f : A -> A) l d : (n < length l)%nat -> nth n (update_nth n f l) d = f (nth n l d).
Proof. revert n. induction l as [|x l IH]; intros n H; [cbn in H; lia|]. destruct n; cbn; auto. apply IH. cbn in H. lia. Qed.
Lemma nth_update_nth_other {A} n m (f : A -> A) l d : n <> m -> nth m (update_nth n f l) d = nth m l d.
Proof. revert n m. induction l as [|x l IH]; intros n m H; [destruct n; reflexivity|]. destruct n, m; cbn; auto; try congruence. Qed.
Lemma update_nth_overflow {A} n (f : A -> A) l : (length l <= n)%nat -> update_nth n f l = l.
Proof. revert n. induction l as [|x l IH]; intros n H; [destruct n; reflexivity|]. destruct n; cbn in *; [lia|]. f_equal. apply IH. lia. Qed.
Lemma nth_error_update_nth_same {A} n (f : A -> A) l x : nth_error l n = Some x -> nth_error (update_nth n f l) n = Some (f x).
Proof. revert n. induction l as [|y l IH]; intros n H; destruct n; cbn in *; try discriminate; auto. now inversion H. Qed.
Lemma nth_error_update_nth_other {A} n m (f : A -> A) l : n <> m -> nth_error (update_nth n f l) m = nth_error l m.
Proof. revert n m. induction l as [|y l IH]; intros n m H; [destruct n; reflexivity|]. destruct n, m; cbn; auto; try congruence. Qed.

Lemma chunk_at_app_l h x c : (c < length h)%nat -> chunk_at (h ++ x) c = chunk_at h c.
Proof. intros H. unfold chunk_at. now apply app_nth1. Qed.
Lemma chunk_at_new h k : chunk_at (h ++ [k]) (length h) = k.
Proof. unfold chunk_at. rewrite app_nth2, Nat.sub_diag by lia. reflexivity. Qed.

Lemma chunk_at_poke_same h c off src : (c < length h)%nat ->
  chunk_at (heap_poke h c off src) c = {| ccap := ccap (chunk_at h c); cdata := poke (cdata (chunk_at h c)) off src |}.
Proof. intros H. unfold chunk_at, heap_poke. now rewrite nth_update_nth_same. Qed.
Lemma chunk_at_poke_other h c off src c' : c' <> c -> chunk_at (heap_poke h c off src) c' = chunk_at h c'.
Proof. intros H. unfold chunk_at, heap_poke. rewrite nth_update_nth_other; auto. Qed.
Lemma length_heap_poke h c off src : length (heap_poke h c off src) = length h.
Proof. apply length_update_nth. Qed.
Lemma ccap_heap_poke h c off src c' : ccap (chunk_at (heap_poke h c off src) c') = ccap (chunk_at h c').
Proof.
  destruct (Nat.eq_dec c' c) as [->|E]; [|now rewrite chunk_at_poke_other].
  destruct (Nat.lt_ge_cases c (length h)).
  - now rewrite chunk_at_poke_same.
  - unfold heap_poke. now rewrite update_nth_overflow.
Qed.

Lemma chunk_at_truncate_same h c top : (c < length h)%nat ->
  chunk_at (heap_truncate h c top) c = {| ccap := ccap (chunk_at h c); cdata := nfirstn top (cdata (chunk_at h c)) |}.
Proof. intros H. unfold chunk_at, heap_truncate. now rewrite nth_update_nth_same. Qed.
Lemma chunk_at_truncate_other h c top c' : c' <> c -> chunk_at (heap_truncate h c top) c' = chunk_at h c'.
Proof. intros H. unfold chunk_at, heap_truncate. rewrite nth_update_nth_other; auto. Qed.
Lemma length_heap_truncate h c top : length (heap_truncate h c top) = length h.
Proof. apply length_update_nth. Qed.

(* ---- slices in bounds ---- *)
Definition sl_ok (h : heap) (s : gsl) : Prop :=
  match s with
  | SArena c off len => (c < length h)%nat /\ 0 < len /\ off + len <= nlen (cdata (chunk_at h c))
  | SExt bs => bs <> []
  end.

Lemma sl_len_bytes h s : sl_ok h s -> nlen (sl_bytes h s) = sl_len s.
Proof.
  destruct s as [c off len|bs]; cbn [sl_ok sl_bytes sl_len]; [|reflexivity].
  intros (_ & _ & H). rewrite nlen_nfirstn, nlen_nskipn. lia.
Qed.
Lemma sl_len_pos h s : sl_ok h s -> 0 < sl_len s.
Proof.
  destruct s as [c off len|bs]; cbn [sl_ok sl_len]; [tauto|].
  intros H. destruct bs; [congruence|]. rewrite nlen_cons. lia.
Qed.

(* appending at the end of a chunk's data keeps every in-bounds slice readable and unchanged *)
Lemma sl_bytes_append h c src s : (c < length h)%nat -> sl_ok h s ->
  sl_bytes (heap_poke h c (nlen (cdata (chunk_at h c))) src) s = sl_bytes h s /\
  sl_ok (heap_poke h c (nlen (cdata (chunk_at h c))) src) s.
Proof.
  intros Hc Hs. destruct s as [c' off len|bs]; cbn [sl_bytes sl_ok] in *; [|auto].
  destruct Hs as (Hc' & Hl & Hb). rewrite length_heap_poke.
  destruct (Nat.eq_dec c' c) as [->|E].
  - rewrite chunk_at_poke_same by exact Hc. cbn [cdata]. rewrite poke_append. split.
    + now apply read_app_l.
    + repeat split; auto. rewrite nlen_app. lia.
  - rewrite chunk_at_poke_other by exact E. auto.
Qed.
Lemma sl_bytes_new_chunk h k s : sl_ok h s -> sl_bytes (h ++ [k]) s = sl_bytes h s /\ sl_ok (h ++ [k]) s.
Proof.
  intros Hs. destruct s as [c off len|bs]; cbn [sl_bytes sl_ok] in *; [|auto].
  destruct Hs as (Hc & Hl & Hb). rewrite chunk_at_app_l by exact Hc. rewrite app_length. cbn. repeat split; auto; lia.
Qed.
(* the freshly written range reads back *)
Lemma sl_bytes_fresh h c src : (c < length h)%nat ->
  sl_bytes (heap_poke h c (nlen (cdata (chunk_at h c))) src) (SArena c (nlen (cdata (chunk_at h c))) (nlen src)) = src.
Proof.
  intros Hc. cbn [sl_bytes]. rewrite chunk_at_poke_same by exact Hc. cbn [cdata].
  rewrite poke_append, nskipn_app_exact. apply nfirstn_all. lia.
Qed.
(* adjacent slices of one chunk read as the concatenation *)
Lemma sl_bytes_join h c lo ll rl :
  sl_bytes h (SArena c lo (ll + rl)) = sl_bytes h (SArena c lo ll) ++ sl_bytes h (SArena c (lo + ll) rl).
Proof. cbn [sl_bytes]. rewrite nfirstn_add, nskipn_nskipn. reflexivity. Qed.
