(* C09 - Streaming codecs: drained output is a prefix of the result; lag is bounded. *)
From Coq Require Import List NArith Arith Lia.
From WP Require Import hcobs.Stuffing hcobs.EncChunks hcobs.EncChunksProofs hcobs.Dec hcobs.EncSink hcobs.EncSinkProofs hcobs.Format hcobs.ParamsTie.
Import ListNotations.

Section C09.
Variables mi ms : nat.
Hypothesis Hmi : 0 < mi <= 252.
Hypothesis Hms : 0 < ms < RADIX * RADIX.

(* Encoder.  At every point of every history (calls and drains in any order and amount): what was
   drained so far followed by what is consumable now is a prefix of the final output, whatever
   input is still to come; and the cells produced but not yet consumable number at most
   2 + max(mi, ms): the open chunk and its header, independent of the stream length. *)
Theorem C09_encoder_prefix_and_lag ops e2 s :
  (let '(e0, s0) := enc_new s_empty mi in run_enc ms e0 s0 ops) = Ok (e2, s) ->
  (forall z, exists t, encode_ref mi ms (concat (pieces_of ops) ++ z) = (taken s ++ stable (cells s)) ++ t) /\
  length (cells s) - length (stable (cells s)) <= 2 + Nat.max mi ms.
Proof. exact (encoder_prefix_and_lag mi ms Hmi Hms ops e2 s). Qed.

(* draining loses, duplicates and reorders nothing: drained ++ finish is the complete output *)
Theorem C09_encoder_complete ops :
  encoder_output mi ms ops = Ok (Some (encode_ref mi ms (concat (pieces_of ops)))).
Proof. exact (encoder_output_is_reference mi ms Hmi Hms ops). Qed.
End C09.

(* Decoder.  Its model only ever appends decoded bytes (no placeholder is registered), so the lag
   is zero by construction, and the output after a prefix of the calls is a prefix of the output
   after all of them. *)
Theorem C09_decoder_prefix mi ms : forall ps1 ps2 st st2 out2,
  decode_pieces_from mi ms st (ps1 ++ ps2) = Some (st2, out2) ->
  exists st1 out1 t, decode_pieces_from mi ms st ps1 = Some (st1, out1) /\ out2 = out1 ++ t.
Proof.
  induction ps1 as [|p ps IH]; intros ps2 st st2 out2 H; cbn [app decode_pieces_from] in *.
  - exists st, [], out2. split; reflexivity.
  - destruct (decode_piece mi ms st p) as [[s1 o1]|]; [|discriminate].
    destruct (decode_pieces_from mi ms s1 (ps ++ ps2)) as [[s2 o2]|] eqn:E; [|discriminate].
    assert (st2 = s2 /\ out2 = o1 ++ o2) as (-> & ->) by (inversion H; auto).
    destruct (IH ps2 s1 s2 o2 E) as (st1 & out1 & t & E1 & ->). rewrite E1.
    exists st1, (o1 ++ out1), t. split; [reflexivity|now rewrite app_assoc].
Qed.

(* at the production limits: lag <= 2 + 64008 cells *)
Theorem C09_encoder_lag_prod ops e2 s :
  (let '(e0, s0) := enc_new s_empty prod_mi in run_enc prod_ms e0 s0 ops) = Ok (e2, s) ->
  length (cells s) - length (stable (cells s)) <= 2 + prod_ms.
Proof.
  intros H. destruct (encoder_prefix_and_lag prod_mi prod_ms prod_mi_bounds prod_ms_bounds ops e2 s H) as (_ & L).
  pose proof prod_mi_le_ms. lia.
Qed.

Example C09_example :
  (let '(e0, s0) := enc_new s_empty 3 in run_enc 5 e0 s0 [EPiece [49;50;254]%N; EDrain 1; EPiece [253; 7]%N])
  = Ok ({| maxc := 5; cur := 2; mid := false; bid := 1; blen := 2 |},
        {| taken := [3%N]; cells := [CB 49%N; CB 50%N; CB 254%N; CH 1; CH 1; CB 253%N; CB 7%N]; nid := 2 |}).
Proof. vm_compute. reflexivity. Qed.

(* ---- the sink is the real iovec ----
   The theorems above are about the encoder writing into an abstract sink (cells, holes named 0, 1, 2, ...) that a consumer
   may drain cell by cell.  hcobs/SinkSim.v and iovec/GeoSink.v show that the geometry-faithful OwningIovec of iovec/Geo.v
   (slices as pointers into arena chunks, merge decisions computed as in the source) implements that sink: push / push_copy /
   register_patch / backfill produce, up to the renaming of hole ids, the cells the sink produces, and a Read hands out what a
   sequence of drains of the sink hands out (whole slices before the pending header's slice: a particular drain schedule, so
   the "any drain schedule" quantifier above covers it).  This discharges, for the models, the assumption "OwningIovec delivers
   appended bytes in order with backfilled placeholders" under which C01 / C02 / C07 / C09 are stated. *)
From WP Require hcobs.SinkSim iovec.Geo iovec.GeoRefine iovec.GeoLag iovec.GeoSink iovec.Pipe iovec.PipeProofs.
Theorem C09_geo_sink_push m s h g bs h' g' :
  GeoSink.GS m s h g -> Geo.push h (Geo.SExt bs) g = Some (h', g') -> GeoSink.GS m (s_push s bs) h' g'.
Proof. exact (GeoSink.geo_sink_push m s h g bs h' g'). Qed.
Theorem C09_geo_sink_push_copy m s h g bs h' g' :
  GeoSink.GS m s h g -> Geo.push_copy h bs g = Some (h', g') -> GeoSink.GS m (s_push s bs) h' g'.
Proof. exact (GeoSink.geo_sink_push_copy m s h g bs h' g'). Qed.
Theorem C09_geo_sink_register m s h g pat h' g' b :
  GeoSink.GS m s h g -> pat <> [] -> Geo.register_patch h pat g = Some (h', g', b) ->
  exists m', GeoSink.GS m' (fst (s_register s (length pat))) h' g' /\
             option_map (fun b => N.to_nat (Geo.bend b)) b = Some (m' (snd (s_register s (length pat)))) /\
             (forall id, id < nid s -> m' id = m id).
Proof. exact (GeoSink.geo_sink_register m s h g pat h' g' b). Qed.
Theorem C09_geo_sink_backfill m s h g id b bs s' h' g' :
  GeoSink.GS m s h g -> id < nid s -> N.to_nat (Geo.bend b) = m id ->
  s_backfill s id bs = Ok s' -> Geo.backfill h (Some b) bs g = Some (h', g') -> GeoSink.GS m s' h' g'.
Proof. exact (GeoSink.geo_sink_backfill m s h g id b bs s' h' g'). Qed.
Theorem C09_geo_sink_read m s h g n g' out :
  GeoSink.GS m s h g -> Geo.read h n g = Some (g', out) ->
  exists ks, GeoSink.GS m (fold_left s_drain ks s) h g' /\ taken (fold_left s_drain ks s) = taken s ++ out.
Proof. exact (GeoSink.geo_sink_read m s h g n g' out). Qed.
(* the slice-level lag: with a sink-level lag of L cells from the first pending header on (at most 2 + max(mi, ms) by
   C09_encoder_prefix_and_lag), fewer than L + (length of the one slice that holds that header) buffered bytes are not
   consumable, and that slice, an arena slice, fits in the bytes written to its chunk *)
Theorem C09_geo_slice_lag m s h g : GeoSink.GS m s h g ->
  exists p, GeoRefine.R h g p /\ PipeProofs.Inv p /\
    GeoLag.cell_lag p = length (cells s) - length (stable (cells s)) /\
    match Geo.gbackrefs g with
    | [] => GeoLag.slice_lag p = 0
    | _ => exists t, nth_error (Geo.gslices g) (Pipe.stable_count p) = Some t /\
                     GeoLag.slice_lag p < GeoLag.cell_lag p + N.to_nat (Geo.sl_len t) /\
                     (forall c off len, t = Geo.SArena c off len -> (len <= Geo.nlen (Geo.cdata (Geo.chunk_at h c)))%N)
    end.
Proof. exact (GeoSink.geo_sink_lag m s h g). Qed.
Theorem C09_geo_sink_init m : GeoSink.GS m s_empty [] Geo.empty_iov.
Proof. exact (GeoSink.GS_empty m). Qed.

(* the encoder at memory level (hcobs/GeoEnc.v writing into the geometry-faithful iovec): at every point of every history of
   encode / encode_copy / encode_read calls and consumer Reads, what the Reads returned so far followed by the bytes of the
   slices the consumer may look at now (stable_prefix: the slices before the first pending placeholder) is a prefix of the
   final encoding, whatever input is still to come *)
From WP Require iovec.Geo hcobs.GeoEnc hcobs.GeoEncProofs.
Theorem C09_geo_encoder_prefix (mi ms : nat) ops e h g ge' h' g' out st :
  0 < mi <= 252 -> 0 < ms < RADIX * RADIX ->
  Forall GeoEncProofs.simple ops ->
  GeoEnc.ge_new [] Geo.empty_iov mi = Some (e, h, g) ->
  GeoEncProofs.ge_run ms e h g ops = Some (ge', h', g', out) ->
  Geo.stable_slices g' = Some st ->
  forall z, exists t, encode_ref mi ms (concat (GeoEncProofs.gpieces ops) ++ z) = (out ++ concat (map (Geo.sl_bytes h') st)) ++ t.
Proof. intros Hmi Hms. exact (GeoEncProofs.genc_prefix mi ms Hmi Hms ops e h g ge' h' g' out st). Qed.

Print Assumptions C09_encoder_prefix_and_lag.
Print Assumptions C09_geo_sink_push.
Print Assumptions C09_geo_sink_register.
Print Assumptions C09_geo_sink_backfill.
Print Assumptions C09_geo_sink_read.
Print Assumptions C09_geo_slice_lag.
Print Assumptions C09_encoder_complete.
Print Assumptions C09_decoder_prefix.
Print Assumptions C09_encoder_lag_prod.
Print Assumptions C09_geo_encoder_prefix.
