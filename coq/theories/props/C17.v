(* C17 - Arena reads return exactly what the reader delivered, under any I/O faults. *)
From Coq Require Import List NArith.
From WP Require Import io.ReadN io.ReadNProofs.
Import ListNotations.
Open Scope N_scope.

Theorem C17_read_n count max script stream : 0 < count ->
  let o := read_n count max script stream in
  N.of_nat (length (calls o)) <= max /\ length (used o) = length (calls o) /\
  Forall (fun r => 1 <= r <= count) (calls o) /\ requests_ok count 0 (used o) (calls o) /\
  Forall (fun e => is_stop e = false) (removelast (used o)) /\
  match res o with
  | ROk g => g = total_delivered (used o) (calls o) /\ g <= count /\
             data o = firstn (N.to_nat g) stream /\
             (g = 0 -> err_after None (used o) = None)
  | RErr e => total_delivered (used o) (calls o) = 0 /\ err_after None (used o) = Some e /\ data o = []
  end.
Proof. exact (read_n_spec count max script stream). Qed.

Theorem C17_succeeds_iff count max script stream : 0 < count ->
  let o := read_n count max script stream in
  (exists g, res o = ROk g) <-> (0 < total_delivered (used o) (calls o) \/ err_after None (used o) = None).
Proof. exact (read_n_succeeds_iff count max script stream). Qed.

Theorem C17_count_zero max script stream :
  read_n 0 max script stream = {| res := ROk 0; data := []; calls := []; used := [] |}.
Proof. exact (read_n_count_zero max script stream). Qed.

(* non-vacuity: short reads, an interrupt, then a hard error after two bytes *)
Example C17_example :
  read_n 7 10 [Deliver 1; Interrupted; Deliver 5; Fail 3; Deliver 9] [10;11;12;13;14;15;16;17] =
  {| res := ROk 6; data := [10;11;12;13;14;15]; calls := [7;6;6;1]; used := [Deliver 1; Interrupted; Deliver 5; Fail 3] |}.
Proof. vm_compute. reflexivity. Qed.
Example C17_example_intr_eof : res (read_n 5 10 [Interrupted; EofEv] [1;2;3]) = ROk 0.
Proof. reflexivity. Qed.
Example C17_example_all_intr : res (read_n 5 2 [Interrupted; Interrupted; Deliver 3] [1;2;3]) = RErr EIntr.
Proof. reflexivity. Qed.

(* ---- the arena side (geometry-faithful model, iovec/Geo.v) ----
   ByteArena::read_n allocates `count` bytes from the allocation cache (opening a new chunk if they do not fit), lets the
   retry loop above fill a prefix `got` of them, and gives the remainder back.  For every arena state and every delivered
   prefix: the returned slice reads exactly `got`; every earlier allocation (any in-bounds slice of any chunk) reads as before
   and stays in bounds; the cache ends exactly after the delivered bytes, so remaining() is charged for them only; and the
   new slice lies at or above the end of every older slice of its chunk (distinct allocations never overlap). *)
From WP Require iovec.Geo iovec.GeoMem iovec.GeoProofs.
Theorem C17_arena_frame h k got count h' k' s a :
  GeoProofs.cache_ok h k -> GeoProofs.heap_ok h -> 0 < count -> Geo.nlen got <= count ->
  Geo.arena_read_n h k got count = Some (h', k', s, a) ->
  exists k1, k' = Some k1 /\ GeoProofs.cache_ok h' (Some k1) /\ GeoProofs.heap_ok h' /\ (length h <= length h')%nat /\
    (forall s0, GeoMem.sl_ok h s0 -> Geo.sl_bytes h' s0 = Geo.sl_bytes h s0 /\ GeoMem.sl_ok h' s0) /\
    Geo.sl_bytes h' s = got /\ s = Geo.SArena (Geo.kchunk k1) (Geo.kbump k1 - Geo.nlen got) (Geo.nlen got) /\
    Geo.nlen got <= Geo.kbump k1 /\ (got <> [] -> GeoMem.sl_ok h' s) /\
    (forall s0, GeoMem.sl_ok h s0 -> GeoProofs.sl_chunk s0 = Some (Geo.kchunk k1) -> GeoProofs.sl_end s0 <= Geo.kbump k1 - Geo.nlen got) /\
    a = {| Geo.acount := 1; Geo.achunk := Some (Geo.kchunk k1) |} /\
    ((k = Some {| Geo.kchunk := Geo.kchunk k1; Geo.kbump := Geo.kbump k1 - Geo.nlen got |} /\
      h' = Geo.heap_poke h (Geo.kchunk k1) (Geo.kbump k1 - Geo.nlen got) got) \/
     (Geo.kchunk k1 = length h /\ Geo.kbump k1 = Geo.nlen got /\ count <= Geo.kcap h' k1)).
Proof. exact (GeoProofs.arena_read_n_spec h k got count h' k' s a). Qed.
Example C17_arena_example :
  Geo.arena_read_n [{| Geo.ccap := 8; Geo.cdata := [1;2;3] |}] (Some {| Geo.kchunk := 0; Geo.kbump := 3 |}) [7;7] 5 =
  Some ([{| Geo.ccap := 8; Geo.cdata := [1;2;3;7;7] |}], Some {| Geo.kchunk := 0; Geo.kbump := 5 |}, Geo.SArena 0 3 2,
        {| Geo.acount := 1; Geo.achunk := Some 0%nat |}).
Proof. vm_compute. reflexivity. Qed.

Print Assumptions C17_read_n.
Print Assumptions C17_arena_frame.
Print Assumptions C17_succeeds_iff.
Print Assumptions C17_count_zero.
