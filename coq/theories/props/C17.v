(* C17 - Arena reads return exactly what the reader delivered, under any I/O faults. *)
From Coq Require Import List NArith.
From WP Require Import io.ReadN io.ReadNProofs.
Import ListNotations.
Open Scope N_scope.

Theorem C17_read_n count max script stream : 0 < count ->
  let o := read_n count max script stream in
  N.of_nat (length (calls o)) <= max /\ length (used o) = length (calls o) /\
  Forall (fun r => 1 <= r <= count) (calls o) /\ requests_ok count 0 (used o) (calls o) /\
  Forall (fun e => is_stop e = false) (removelast (used o)) /\
  match res o with
  | ROk g => g = total_delivered (used o) (calls o) /\ g <= count /\
             data o = firstn (N.to_nat g) stream /\
             (g = 0 -> err_after None (used o) = None)
  | RErr e => total_delivered (used o) (calls o) = 0 /\ err_after None (used o) = Some e /\ data o = []
  end.
Proof. exact (read_n_spec count max script stream). Qed.

Theorem C17_succeeds_iff count max script stream : 0 < count ->
  let o := read_n count max script stream in
  (exists g, res o = ROk g) <-> (0 < total_delivered (used o) (calls o) \/ err_after None (used o) = None).
Proof. exact (read_n_succeeds_iff count max script stream). Qed.

Theorem C17_count_zero max script stream :
  read_n 0 max script stream = {| res := ROk 0; data := []; calls := []; used := [] |}.
Proof. exact (read_n_count_zero max script stream). Qed.

(* non-vacuity: short reads, an interrupt, then a hard error after two bytes *)
Example C17_example :
  read_n 7 10 [Deliver 1; Interrupted; Deliver 5; Fail 3; Deliver 9] [10;11;12;13;14;15;16;17] =
  {| res := ROk 6; data := [10;11;12;13;14;15]; calls := [7;6;6;1]; used := [Deliver 1; Interrupted; Deliver 5; Fail 3] |}.
Proof. vm_compute. reflexivity. Qed.
Example C17_example_intr_eof : res (read_n 5 10 [Interrupted; EofEv] [1;2;3]) = ROk 0.
Proof. reflexivity. Qed.
Example C17_example_all_intr : res (read_n 5 2 [Interrupted; Interrupted; Deliver 3] [1;2;3]) = RErr EIntr.
Proof. reflexivity. Qed.

Print Assumptions C17_read_n.
Print Assumptions C17_succeeds_iff.
Print Assumptions C17_count_zero.
