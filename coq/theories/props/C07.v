(* C07 - HCOBS wire format: canonical encoder, decoder accepts exactly the format. *)
From Coq Require Import List NArith Arith Lia.
From WP Require Import hcobs.Stuffing hcobs.EncChunks hcobs.EncChunksProofs hcobs.Dec hcobs.EncSink hcobs.EncSinkProofs hcobs.Format hcobs.FormatFacts hcobs.ParamsTie.
Import ListNotations.

Section C07.
Variables mi ms : nat.
Hypothesis Hmi : 0 < mi <= 252.
Hypothesis Hms : 0 < ms < RADIX * RADIX.

(* the encoder's output is byte for byte the reference encoding: greedy chunking (`stuff`: a chunk
   ends at the first FE FD inside the limit, else at the limit, else with the message), one-byte
   header for the first chunk and two little-endian radix-253 digits afterwards (`frame`) *)
Theorem C07_encoder_canonical ops :
  encoder_output mi ms ops = Ok (Some (frame (stuffN mi ms (concat (pieces_of ops))))).
Proof. exact (encoder_output_is_reference mi ms Hmi Hms ops). Qed.

(* ... and that encoding is itself in the format, with the original message as its meaning *)
Theorem C07_reference_in_format m : decode_ref mi ms (encode_ref mi ms m) = Some m.
Proof.
  rewrite <- decoder_exact.
  pose proof (C01_byte_level mi ms Hmi Hms m [encode_ref mi ms m] ltac:(cbn; now rewrite app_nil_r)) as H.
  rewrite decode_pieces_accept, decode_any_segmentation in H by exact I. cbn [concat] in H. now rewrite app_nil_r in H.
Qed.

(* the decoder, fed any byte string in any segmentation, never panics (its model has no Panic
   outcome: the NonZeroU32 unwraps and the assert_eq! of InChunk::update are unreachable by
   construction of `after_header`) and accepts exactly what the format defines ... *)
Theorem C07_decoder_exact pieces : decode_pieces mi ms pieces = decode_ref mi ms (concat pieces).
Proof. exact (decode_pieces_exact mi ms pieces). Qed.

(* ... namely the framings of chunk sequences whose sizes respect the limits and that end on a
   short chunk; the result is their unstuffing *)
Theorem C07_format_iff e m :
  decode_ref mi ms e = Some m <-> exists cs, wf_chunks true mi ms cs /\ e = frame cs /\ unstuff mi ms cs = Some m.
Proof. exact (format_iff mi ms Hmi Hms e m). Qed.
End C07.

(* the constants of the property are the ones in the source *)
Theorem C07_constants :
  WPGen.Params.RADIX = 253%N /\ WPGen.Params.STUFF0 = 254%N /\ WPGen.Params.STUFF1 = 253%N /\
  WPGen.Params.PROD_MAX_INITIAL = 252%N /\ WPGen.Params.PROD_MAX_SUBSEQUENT = 64008%N.
Proof. repeat split; reflexivity. Qed.
Theorem C07_encoder_canonical_prod ops :
  encoder_output prod_mi prod_ms ops = Ok (Some (frame (stuffN prod_mi prod_ms (concat (pieces_of ops))))).
Proof. exact (C07_encoder_canonical prod_mi prod_ms prod_mi_bounds prod_ms_bounds ops). Qed.
Theorem C07_decoder_exact_prod pieces : decode_pieces prod_mi prod_ms pieces = decode_ref prod_mi prod_ms (concat pieces).
Proof. exact (C07_decoder_exact prod_mi prod_ms pieces). Qed.

(* non-vacuity: accepted, rejected for a missing terminator, rejected for an out-of-radix digit *)
Example C07_examples :
  decode_ref 3 5 [3; 49; 50; 51; 0; 0]%N = Some [49; 50; 51]%N /\
  decode_ref 3 5 [3; 49; 50; 51]%N = None /\
  decode_ref 3 5 [2; 49; 50; 253; 0]%N = None /\
  decode_ref 3 5 [0; 0; 0]%N = Some [254; 253]%N.
Proof. vm_compute. repeat split; reflexivity. Qed.

Print Assumptions C07_encoder_canonical.
Print Assumptions C07_reference_in_format.
Print Assumptions C07_decoder_exact.
Print Assumptions C07_format_iff.
Print Assumptions C07_constants.
Print Assumptions C07_encoder_canonical_prod.
