(* C07 - HCOBS wire format: canonical encoder, decoder accepts exactly the format. *)
From Coq Require Import List NArith Arith Lia.
From WP Require Import hcobs.Stuffing hcobs.EncChunks hcobs.EncChunksProofs hcobs.Dec hcobs.EncSink hcobs.EncSinkProofs hcobs.Format hcobs.FormatFacts hcobs.ParamsTie.
Import ListNotations.

Section C07.
Variables mi ms : nat.
Hypothesis Hmi : 0 < mi <= 252.
Hypothesis Hms : 0 < ms < RADIX * RADIX.

(* the encoder's output is byte for byte the reference encoding: greedy chunking (`stuff`: a chunk
   ends at the first FE FD inside the limit, else at the limit, else with the message), one-byte
   header for the first chunk and two little-endian radix-253 digits afterwards (`frame`) *)
Theorem C07_encoder_canonical ops :
  encoder_output mi ms ops = Ok (Some (frame (stuffN mi ms (concat (pieces_of ops))))).
Proof. exact (encoder_output_is_reference mi ms Hmi Hms ops). Qed.

(* ... and that encoding is itself in the format, with the original message as its meaning *)
Theorem C07_reference_in_format m : decode_ref mi ms (encode_ref mi ms m) = Some m.
Proof.
  rewrite <- decoder_exact.
  pose proof (C01_byte_level mi ms Hmi Hms m [encode_ref mi ms m] ltac:(cbn; now rewrite app_nil_r)) as H.
  rewrite decode_pieces_accept, decode_any_segmentation in H by exact I. cbn [concat] in H. now rewrite app_nil_r in H.
Qed.

(* the decoder, fed any byte string in any segmentation, never panics (its model has no Panic
   outcome: the NonZeroU32 unwraps and the assert_eq! of InChunk::update are unreachable by
   construction of `after_header`) and accepts exactly what the format defines ... *)
Theorem C07_decoder_exact pieces : decode_pieces mi ms pieces = decode_ref mi ms (concat pieces).
Proof. exact (decode_pieces_exact mi ms pieces). Qed.

(* ... namely the framings of chunk sequences whose sizes respect the limits and that end on a
   short chunk; the result is their unstuffing *)
Theorem C07_format_iff e m :
  decode_ref mi ms e = Some m <-> exists cs, wf_chunks true mi ms cs /\ e = frame cs /\ unstuff mi ms cs = Some m.
Proof. exact (format_iff mi ms Hmi Hms e m). Qed.
End C07.

(* the constants of the property are the ones in the source *)
Theorem C07_constants :
  WPGen.Params.RADIX = 253%N /\ WPGen.Params.STUFF0 = 254%N /\ WPGen.Params.STUFF1 = 253%N /\
  WPGen.Params.PROD_MAX_INITIAL = 252%N /\ WPGen.Params.PROD_MAX_SUBSEQUENT = 64008%N.
Proof. repeat split; reflexivity. Qed.
Theorem C07_encoder_canonical_prod ops :
  encoder_output prod_mi prod_ms ops = Ok (Some (frame (stuffN prod_mi prod_ms (concat (pieces_of ops))))).
Proof. exact (C07_encoder_canonical prod_mi prod_ms prod_mi_bounds prod_ms_bounds ops). Qed.
Theorem C07_decoder_exact_prod pieces : decode_pieces prod_mi prod_ms pieces = decode_ref prod_mi prod_ms (concat pieces).
Proof. exact (C07_decoder_exact prod_mi prod_ms pieces). Qed.

(* ---- the decoder at memory level (hcobs/GeoDec.v: DecoderState writing into the geometry-faithful OwningIovec of
   iovec/Geo.v through push / push_copy, anchored input read into the iovec's own arena) ----
   For every history of decode (borrowed), decode_copy and decode_read calls interleaved with consumer Reads, up to the first
   call that returns Err: the memory-level decoder returns Err exactly when the byte-level decoder rejects the pieces so far;
   otherwise it is in the same state, and what the Reads returned followed by the bytes left in the iovec is the byte-level
   decoder's output.  With finish (Ok iff the state is BeforeChunk with a pending stuff sequence) this is decode_pieces,
   i.e. (C07_decoder_exact) the format's meaning of the concatenated input. *)
From WP Require iovec.Geo iovec.GeoSink hcobs.EncSink hcobs.GeoDec hcobs.GeoDecProofs.
Theorem C07_geo_decoder (mi ms : nat) ops st ok h g out :
  Forall GeoDecProofs.dsimple ops ->
  GeoDecProofs.gd_run mi ms DInit [] Geo.empty_iov ops = Some (st, ok, h, g, out) ->
  match decode_pieces_from mi ms DInit (GeoDecProofs.gdpieces ops) with
  | Some (st', dout) => ok = true /\ st = st' /\ out ++ Geo.all_bytes h g = dout
  | None => ok = false
  end.
Proof. exact (GeoDecProofs.gdec_refines mi ms ops st ok h g out). Qed.

Theorem C07_geo_decoder_finish (mi ms : nat) ops st h g out :
  Forall GeoDecProofs.dsimple ops ->
  GeoDecProofs.gd_run mi ms DInit [] Geo.empty_iov ops = Some (st, true, h, g, out) ->
  decode_pieces mi ms (GeoDecProofs.gdpieces ops) = (if dterminate st then Some (out ++ Geo.all_bytes h g) else None).
Proof.
  intros Hs E. pose proof (GeoDecProofs.gdec_refines mi ms ops st true h g out Hs E) as H. unfold decode_pieces.
  destruct (decode_pieces_from mi ms DInit (GeoDecProofs.gdpieces ops)) as [[st' dout]|]; [|discriminate].
  destruct H as (_ & <- & <-). reflexivity.
Qed.

(* ... and for histories of decode / decode_copy / decode_read calls of less than 2^62 bytes each, no assertion of the decoder,
   of the iovec or of the arena fires: the memory-level decoder always returns *)
Theorem C07_geo_decoder_never_panics (mi ms : nat) ops : Forall GeoDecProofs.dsmall ops ->
  exists r, GeoDecProofs.gd_run mi ms DInit [] Geo.empty_iov ops = Some r.
Proof.
  intros Hs. exact (GeoDecProofs.gd_run_no_panic mi ms ops DInit [] Geo.empty_iov (fun x => x) EncSink.s_empty Hs (GeoSink.GS_empty _) I).
Qed.

Example C07_geo_example :
  match GeoDecProofs.gd_run 3 5 DInit [] Geo.empty_iov
          [GeoDec.GDBorrow [3; 49]%N; GeoDec.GDRead [50; 254; 5; 0; 253; 49; 50]%N 9%N; GeoDec.GDRd 2%N;
           GeoDec.GDCopy [51; 52; 2; 0; 53; 54; 1; 0; 7]%N] with
  | Some (st, ok, h, g, out) => ok = true /\ dterminate st = true /\
                                out ++ Geo.all_bytes h g = [49;50;254;253;49;50;51;52;53;54;254;253;7]%N
  | None => False
  end.
Proof. vm_compute. repeat split; reflexivity. Qed.

(* non-vacuity: accepted, rejected for a missing terminator, rejected for an out-of-radix digit *)
Example C07_examples :
  decode_ref 3 5 [3; 49; 50; 51; 0; 0]%N = Some [49; 50; 51]%N /\
  decode_ref 3 5 [3; 49; 50; 51]%N = None /\
  decode_ref 3 5 [2; 49; 50; 253; 0]%N = None /\
  decode_ref 3 5 [0; 0; 0]%N = Some [254; 253]%N.
Proof. vm_compute. repeat split; reflexivity. Qed.

Print Assumptions C07_encoder_canonical.
Print Assumptions C07_reference_in_format.
Print Assumptions C07_decoder_exact.
Print Assumptions C07_format_iff.
Print Assumptions C07_constants.
Print Assumptions C07_encoder_canonical_prod.
Print Assumptions C07_geo_decoder.
Print Assumptions C07_geo_decoder_finish.
Print Assumptions C07_geo_decoder_never_panics.
