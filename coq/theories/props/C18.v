(* C18 - AtomicBaseTime readers and try_update never wait for a writer.
   Same model as C13 (time/RA.v at the orderings and access sequences translated from the source).
   This file holds only the property theorems, pinned statements, non-vacuity examples and
   Print Assumptions. *)
From Coq Require Import List NArith Lia Bool Arith.
From Coq Require Import String.
Notation length := List.length.
From WPGen Require Import Orderings.
From WP Require Import time.RA time.SeqlockInv time.SeqlockMono time.SeqlockProgress time.SeqlockExtras
  time.SeqlockTie time.SeqlockTieProofs.
Import ListNotations.

Notation SO := source_orderings.

(* in the source: snapshot (both the slot's and the cell's) performs no lock operation;
   try_update's only lock operation is try_lock, update's is lock, advance_once has none *)
Theorem C18_source_snapshot_lock_free : has_lock_op fn_snapshot_2 = false /\ has_lock_op fn_snapshot = false.
Proof. exact snapshot_lock_free. Qed.
Theorem C18_source_try_update_uses_try_lock :
  filter (fun t => match t with LockOp _ => true | _ => false end) fn_try_update = [LockOp "try_lock"%string] /\
  filter (fun t => match t with LockOp _ => true | _ => false end) fn_update_2 = [LockOp "lock"%string] /\
  has_lock_op fn_advance_once = false.
Proof. exact try_update_uses_try_lock. Qed.
Theorem C18_tie : extract = Some SO.
Proof. exact extract_ok. Qed.

(* in every state satisfying the invariant (all reachable ones do) -- wherever the other threads
   are stopped, a writer holding the lock in the middle of an update included -- a snapshot has an
   enabled step: it is never blocked *)
Theorem C18_snapshot_never_blocked st tid :
  Inv st ->
  (tpc (threads st tid) = Idle -> exists i st', step SO st tid (ASnapStart i) = Some st') /\
  (is_reader_pc (tpc (threads st tid)) = true -> exists i st', step SO st tid (ALoad i) = Some st').
Proof. exact (SeqlockProgress.C18_snapshot_never_blocked SO st tid). Qed.

(* its steps neither read nor write the lock (nor anything else shared) *)
Theorem C18_snapshot_ignores_lock st tid a st' :
  is_reader_pc (tpc (threads st tid)) = true \/ (tpc (threads st tid) = Idle /\ exists i, a = ASnapStart i) ->
  step SO st tid a = Some st' ->
  lock_held st' = lock_held st /\ lock_view st' = lock_view st /\ smem st' = smem st /\ acc st' = acc st.
Proof. exact (reader_step_ignores_lock SO st tid a st'). Qed.

(* run alone, from any point inside snapshot and whatever messages its loads pick, it takes at most
   mu further steps: the current pass plus three per sequence message it has not seen yet *)
Theorem C18_solo_snapshot_bounded (is : list nat) st tid st' :
  Inv st -> is_reader_pc (tpc (threads st tid)) = true ->
  run SO st (map (fun i => (tid, ALoad i)) is) = Some st' ->
  length is <= mu (tpc (threads st tid)) (length (smem st Seq)).
Proof. exact (solo_snapshot_bounded SO src_seq1_acq src_seq2_acq src_v_acq src_t_acq src_st_rel src_sv_rel src_sseq_rel is st tid st'). Qed.

(* it retries only when a write completed: the new sequence number is larger and already published *)
Theorem C18_retry_needs_new_write st tid s v kv t kt i st' s' :
  Inv st -> tpc (threads st tid) = R3 s v kv t kt ->
  step SO st tid (ALoad i) = Some st' -> tpc (threads st' tid) = R1 s' ->
  s < s' /\ s' < length (smem st Seq).
Proof. exact (SeqlockProgress.C18_retry_needs_new_write SO src_seq2_acq st tid s v kv t kt i st' s'). Qed.

(* try_update is always enabled, and on a held lock returns false at once, touching nothing *)
Theorem C18_try_update_nonblocking st tid ut uv :
  tpc (threads st tid) = Idle ->
  exists st', step SO st tid (ATryStart ut uv) = Some st' /\
    (forall h, lock_held st = Some h -> tpc (threads st' tid) = WDone false /\ smem st' = smem st /\ lock_held st' = lock_held st).
Proof. exact (SeqlockProgress.C18_try_update_nonblocking SO st tid ut uv). Qed.

(* non-vacuity: a writer stopped between its two slot stores, holding the lock; a reader then runs
   alone to completion in four steps and a try_update by a third thread returns false *)
Definition stalled_writer := [(0, AUpdStart 10 110); (0, ALoad 0); (0, ALoad 0); (0, ALoad 0); (0, AStep)].
Example C18_reader_completes_under_stalled_writer :
  option_map (fun st => (lock_held st, tpc (threads st 1), tpc (threads st 2)))
    (run SO (init 0 100) (stalled_writer ++ [(1, ASnapStart 0); (1, ALoad 0); (1, ALoad 0); (1, ALoad 0); (2, ATryStart 20 120)]))
  = Some (Some 0, RDone 0 0 100, WDone false).
Proof. vm_compute. reflexivity. Qed.

Check C18_snapshot_never_blocked : forall st tid, Inv st ->
  (tpc (threads st tid) = Idle -> exists i st', step SO st tid (ASnapStart i) = Some st') /\
  (is_reader_pc (tpc (threads st tid)) = true -> exists i st', step SO st tid (ALoad i) = Some st').
Check C18_solo_snapshot_bounded : forall is st tid st', Inv st -> is_reader_pc (tpc (threads st tid)) = true ->
  run SO st (map (fun i => (tid, ALoad i)) is) = Some st' ->
  length is <= mu (tpc (threads st tid)) (length (smem st Seq)).

Print Assumptions C18_source_snapshot_lock_free.
Print Assumptions C18_source_try_update_uses_try_lock.
Print Assumptions C18_tie.
Print Assumptions C18_snapshot_never_blocked.
Print Assumptions C18_snapshot_ignores_lock.
Print Assumptions C18_solo_snapshot_bounded.
Print Assumptions C18_retry_needs_new_write.
Print Assumptions C18_try_update_nonblocking.
