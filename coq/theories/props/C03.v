(* C03 - OwningIovec is a faithful FIFO byte pipe. *)
From Coq Require Import List NArith Arith.
From WP Require Import iovec.Pipe iovec.PipeProofs iovec.PipeProofs2 iovec.PipeProofs3 iovec.PipeProofs4.
Import ListNotations.

(* `abs s` is the specification state: the FIFO of cells (bytes, and holes for pending
   placeholders) still buffered.  Every theorem holds for every merge decision (`merged`), i.e. for
   every arena geometry, and for every reachable state (Inv is preserved by every step: C03_reachable). *)

(* producer side: appended bytes go to the back, in order *)
Theorem C03_push m bs s : abs (push m bs s) = abs s ++ map Byte bs.
Proof. exact (push_refines m bs s). Qed.
Theorem C03_register m p s : p <> [] ->
  abs (fst (register m p s)) = abs s ++ repeat (Hole (logical s + length p)) (length p) /\
  snd (register m p s) = Some (logical s + length p).
Proof. exact (register_refines m p s). Qed.
(* a backfill replaces exactly the holes of that placeholder by the backfilled value *)
Theorem C03_backfill s id src s' : Inv s -> backfill id src s = Some s' -> abs s' = fill_cells id src (abs s).
Proof. exact (backfill_refines s id src s'). Qed.

(* consumer side: every consuming call removes a prefix made of bytes only and reports exactly
   what it removed *)
Theorem C03_consume s k : Inv s ->
  exists removed, abs s = removed ++ abs (fst (consume k s)) /\
                  Forall (fun c => is_hole c = false) removed /\
                  removed = map abs_cell (concat (firstn (snd (consume k s)) (slices s))).
Proof. exact (consume_refines s k). Qed.
Theorem C03_advance n s : Inv s ->
  let c := Nat.min n (length (stable_bytes s)) in
  snd (advance n s) = c /\ Inv (fst (advance n s)) /\ abs s = map Byte (firstn c (stable_bytes s)) ++ abs (fst (advance n s)).
Proof. exact (advance_refines n s). Qed.
Theorem C03_read n s : Inv s ->
  let c := Nat.min n (length (stable_bytes s)) in
  snd (read n s) = firstn c (stable_bytes s) /\ Inv (fst (read n s)) /\ abs s = map Byte (snd (read n s)) ++ abs (fst (read n s)).
Proof. exact (read_refines n s). Qed.

(* the reported total size is appended minus consumed; no exposed slice is empty *)
Theorem C03_total_size s : Inv s -> total_size s = length (abs s).
Proof. exact (total_size_is_buffered s). Qed.
Theorem C03_no_empty_slice s : Inv s -> forall sl, In sl (slices s) -> sl <> [].
Proof. intros I. exact (inv_nonempty s I). Qed.

(* every finite operation sequence from a fresh iovec (and after every clear) stays in Inv *)
Theorem C03_reachable ops s' xs : run empty_st ops = Some (s', xs) -> Inv s'.
Proof. exact (run_inv ops empty_st s' xs Inv_empty). Qed.

(* non-vacuity: merged pushes, two placeholders, out-of-order fills, partial consumption *)
Example C03_example :
  match run empty_st [OPush false [1;2]%N; ORegister true [0]%N; OPush true [3]%N; ORegister false [0;0]%N; OPush false [4]%N;
                      OBackfill 6 [8;9]%N; OConsume 5; OBackfill 3 [7]%N; OAdvance 3; ORead 10] with
  | Some (s, outs) => outs = [UUnit; UId (Some 3); UUnit; UId (Some 6); UUnit; UUnit; UCount 0; UUnit; UCount 3; UBytes [3;8;9;4]%N]
                      /\ abs s = []
  | None => False
  end.
Proof. vm_compute. split; reflexivity. Qed.

(* ---- the geometry-faithful model ----
   iovec/Geo.v models OwningIovec over GlobalDeque, ByteArena, AllocCache and Anchor function by function: slices
   are pointers into arena chunks, and the copy / borrow / merge decisions are computed from the arena geometry
   as in the source (nothing is taken from the implementation).  Every history of one OwningIovec that does not
   panic is matched operation by operation by a history of the pipe above, with the merge decisions Geo computed
   and equal outputs; the final states hold the same bytes slice by slice, and the pipe state is in Inv, so every
   theorem of this file applies to it. *)
From WP Require iovec.Geo iovec.GeoProofs iovec.GeoRefine iovec.GeoHistory.
Theorem C03_geo_refines_pipe ops h' g' xs :
  GeoHistory.g1run [] Geo.empty_iov ops = Some (h', g', xs) ->
  GeoProofs.GInv h' g' /\
  exists s', GeoHistory.pipe_hist empty_st ops xs s' /\ GeoRefine.R h' g' s' /\ Inv s'.
Proof. exact (GeoHistory.geo_refines_pipe ops h' g' xs). Qed.
Theorem C03_geo_bytes h g s : GeoRefine.R h g s -> Geo.all_bytes h g = map fst (concat (slices s)).
Proof. exact (GeoHistory.R_all_bytes h g s). Qed.

(* ... and the model never panics: a history panics only if some operation was called outside its documented precondition
   (pop_front with nothing consumable, backfill with a handle that is not pending or of the wrong length, a size above 2^62,
   a reader reporting more bytes than it was asked for) *)
From WP Require iovec.GeoNoPanic.
Theorem C03_geo_never_panics ops :
  GeoHistory.g1run [] Geo.empty_iov ops = None ->
  exists ops1 o ops2 h1 g1 xs, ops = ops1 ++ o :: ops2 /\ GeoHistory.g1run [] Geo.empty_iov ops1 = Some (h1, g1, xs) /\
                               ~ GeoNoPanic.pre g1 o.
Proof. exact (GeoNoPanic.geo_never_panics ops). Qed.
Theorem C03_geo_step_never_panics h g o : GeoNoPanic.NP h g -> GeoNoPanic.pre g o -> exists r, GeoHistory.g1step h g o = Some r.
Proof. exact (GeoNoPanic.g1step_no_panic h g o). Qed.

(* non-vacuity: a Geo history with merged copies, two placeholders filled out of order, a borrowed slice, anchored
   input, partial consumption; it does not panic, so the theorem applies *)
Example C03_geo_example :
  let b3 := {| Geo.bend := 3; Geo.bidx := 0; Geo.bbegin := 2; Geo.blen := 1 |}%N in
  let b6 := {| Geo.bend := 6; Geo.bidx := 0; Geo.bbegin := 4; Geo.blen := 2 |}%N in
  match GeoHistory.g1run [] Geo.empty_iov
          [GeoHistory.HPushCopy [1;2]%N; GeoHistory.HRegister [0]%N; GeoHistory.HPush [3]%N; GeoHistory.HRegister [0;0]%N;
           GeoHistory.HPushBorrowed [4]%N; GeoHistory.HAnchored [5;5]%N; GeoHistory.HBackfill (Some b6) [8;9]%N;
           GeoHistory.HConsume 5%N; GeoHistory.HBackfill (Some b3) [7]%N; GeoHistory.HAdvance 3%N; GeoHistory.HRead 10%N] with
  | Some (h, g, outs) =>
      outs = [GeoHistory.GUnit; GeoHistory.GHandle (Some b3); GeoHistory.GUnit; GeoHistory.GHandle (Some b6); GeoHistory.GUnit;
              GeoHistory.GUnit; GeoHistory.GUnit; GeoHistory.GCount 0%N; GeoHistory.GUnit; GeoHistory.GCount 3%N;
              GeoHistory.GBytes [3;8;9;4;5;5]%N] /\ Geo.all_bytes h g = []
  | None => False
  end.
Proof. vm_compute. split; reflexivity. Qed.

Print Assumptions C03_push.
Print Assumptions C03_geo_refines_pipe.
Print Assumptions C03_geo_bytes.
Print Assumptions C03_geo_never_panics.
Print Assumptions C03_geo_step_never_panics.
Print Assumptions C03_register.
Print Assumptions C03_backfill.
Print Assumptions C03_consume.
Print Assumptions C03_advance.
Print Assumptions C03_read.
Print Assumptions C03_total_size.
Print Assumptions C03_reachable.
