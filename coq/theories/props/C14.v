(* C14 - VouchedTime exists only inside the allowed window around a vouched base time.
   This file holds only the property theorems, pinned statements, non-vacuity examples and
   Print Assumptions. *)
From Coq Require Import ZArith Lia Bool.
From WP Require Import time.Window time.WindowProofs.
Open Scope Z_scope.

Section C14.
Variable vch : Z -> Z -> bool.   (* raffle's voucher check under the crate's parameters (oracle) *)

(* new succeeds exactly when vouched /\ not before the epoch /\ -59900 <= local - base <= 2990,
   stated in plain Z arithmetic (no modulus), for all 64-bit base times and all local times whose
   millisecond count is below 2^64 (every representable PrimitiveDateTime is below 2^48 ms). *)
Theorem C14_new_iff nanos base voucher :
  local_ms_of nanos < 2 ^ 64 ->
  (exists t, new vch nanos base voucher = NOk t) <->
  (vch base voucher = true /\ 0 <= local_ms_of nanos /\ -59900 <= local_ms_of nanos - base <= 2990).
Proof. exact (new_ok_iff vch nanos base voucher). Qed.

Theorem C14_no_panic nanos base voucher : new vch nanos base voucher <> NPanic.
Proof. exact (new_never_panics vch nanos base voucher). Qed.

Theorem C14_local_time nanos base voucher t :
  new vch nanos base voucher = NOk t -> t = nanos /\ get_local_time vch nanos base voucher = Some nanos.
Proof. exact (new_reports_local vch nanos base voucher t). Qed.

Theorem C14_now clock provider b v :
  provider clock = Some (b, v) -> now vch clock provider = Some (new vch clock b v).
Proof. exact (now_same_rule vch clock provider b v). Qed.
End C14.

Theorem C14_constants : FWD = 2990 /\ BWD = 59900.
Proof. exact window_constants_pinned. Qed.

(* the defect repaired by the fix: commit (F4) stays machine-checked *)
Theorem C14_prefix_form_refuted : exists l b, 0 <= b < U64 /\ window_pinned l b = true /\ ~ window_spec l b.
Proof. exact window_wrapping_refuted. Qed.

(* non-vacuity: both sides of the iff are inhabited by concrete triples *)
Example C14_accepts : new (fun _ _ => true) 1713027661990000000 1713027659000 0 = NOk 1713027661990000000.
Proof. vm_compute. reflexivity. Qed.
Example C14_rejects_ahead : new (fun _ _ => true) 1713027661991000000 1713027659000 0 = NErr (CWindow WAhead).
Proof. vm_compute. reflexivity. Qed.
Example C14_rejects_wrapped : new (fun _ _ => true) 1000000000 (2^64 - 1) 0 = NErr (CWindow WBehind).
Proof. vm_compute. reflexivity. Qed.

Check C14_new_iff : forall vch nanos base voucher, local_ms_of nanos < 2 ^ 64 ->
  (exists t, new vch nanos base voucher = NOk t) <->
  (vch base voucher = true /\ 0 <= local_ms_of nanos /\ -59900 <= local_ms_of nanos - base <= 2990).
Check C14_no_panic : forall vch nanos base voucher, new vch nanos base voucher <> NPanic.

Print Assumptions C14_new_iff.
Print Assumptions C14_no_panic.
Print Assumptions C14_local_time.
Print Assumptions C14_now.
Print Assumptions C14_constants.
Print Assumptions C14_prefix_form_refuted.
