(* C05 - Every slice handed out points into live memory (ownership protocol; PARTIAL, see DESIGN.md). *)
From Coq Require Import List Arith NArith.
From WP Require Import iovec.Anchors.
Import ListNotations.

(* In every state of the anchor deque reachable by copies (joining the back anchor or opening a new
   one), borrowed pushes, merges of the last pair, anchored input (any pieces, then the anchor),
   consume and clear: the counts sum to the number of slices, every arena slice is protected by an
   anchor that holds its chunk and is popped no earlier than the slice, and therefore a chunk
   referenced by a remaining slice is referenced by a remaining anchor -- with Arc semantics it has
   not been released. *)
Theorem C05_core (ops : list op) :
  let g := fold_left (fun g o => apply_op o g) ops {| slices := []; anchors := [] |} in
  Inv g /\ forall p c, nth_error (slices g) p = Some (Some c) -> held g c.
Proof. exact (Anchors.C05_core ops). Qed.

(* arena memory is released only when no slice can reach it: consuming k slices pops only anchors
   whose slices are all consumed; every remaining arena slice stays protected *)
Theorem C05_release_only_unreachable g k : Inv g -> k <= length (slices g) -> Inv (consume k g).
Proof. exact (consume_inv g k). Qed.

(* while pieces of an anchored buffer are being pushed and its anchor is still in the caller's
   hands, every other arena slice stays protected *)
Theorem C05_anchored_window c g subs : Inv g -> WInv c (fold_left (apply_sub c) subs g).
Proof.
  intros I. generalize (Inv_WInv c g I). generalize g. induction subs as [|s subs IH]; intros g0 W; cbn [fold_left]; [exact W|].
  apply IH. destruct s; cbn [apply_sub]; [apply winv_push_borrowed; auto|apply winv_push_owned; auto|apply winv_collapse; auto].
Qed.

(* non-vacuity: an anchored slice, an adjacent copy that may not be merged into it, consumption *)
Example C05_example :
  let g := fold_left (fun g o => apply_op o g)
             [OpCopy 1; OpAnchored 2 [SubBorrow]; OpCopy 2; OpBorrow; OpConsume 1; OpCopy 1] {| slices := []; anchors := [] |} in
  slices g = [Some 2; Some 2; None; Some 1] /\
  anchors g = [{| acount := 1; achunk := Some 1 |}; {| acount := 2; achunk := Some 2 |}; {| acount := 1; achunk := Some 1 |}].
Proof. vm_compute. split; reflexivity. Qed.

(* ---- the geometry-faithful model ----
   iovec/Geo.v models OwningIovec with slices as pointers into arena chunks, the allocation cache, anchors with counts
   and chunks, and computes every copy / borrow / merge decision and every chunk identity (nothing is given).  Its
   projection (chunk of every slice, anchors) follows the protocol above step by step, so in every state a history of
   one OwningIovec reaches: the ownership invariant holds; every arena slice lies inside the bytes written to an existing
   chunk, within its capacity, and that chunk is held by one of the iovec's anchors (Arc semantics: not released);
   and two slices of one chunk never overlap (distinct owned allocations are disjoint). *)
From WP Require iovec.Geo iovec.GeoHistory iovec.GeoAnchors.
Theorem C05_geo_ownership ops h' g' xs :
  GeoHistory.g1run [] Geo.empty_iov ops = Some (h', g', xs) ->
  Inv (GeoAnchors.proj g') /\
  (forall p c off len, nth_error (Geo.gslices g') p = Some (Geo.SArena c off len) ->
     In c (Geo.holders g') /\ (c < length h')%nat /\ (0 < len)%N /\
     (off + len <= Geo.nlen (Geo.cdata (Geo.chunk_at h' c)))%N /\
     (Geo.nlen (Geo.cdata (Geo.chunk_at h' c)) <= Geo.ccap (Geo.chunk_at h' c))%N) /\
  (forall i j c oi li oj lj, i < j -> nth_error (Geo.gslices g') i = Some (Geo.SArena c oi li) ->
     nth_error (Geo.gslices g') j = Some (Geo.SArena c oj lj) -> (oi + li <= oj \/ oj + lj <= oi)%N).
Proof. exact (GeoAnchors.geo_ownership ops h' g' xs). Qed.

(* non-vacuity: anchored input that is borrowed (300 bytes) next to copies, a chunk roll-over, consumption *)
Example C05_geo_example :
  match GeoHistory.g1run [] Geo.empty_iov
          [GeoHistory.HPushCopy (repeat 1%N 4000); GeoHistory.HAnchored (repeat 2%N 300); GeoHistory.HPushCopy (repeat 3%N 10);
           GeoHistory.HConsume 1%N; GeoHistory.HPush (repeat 4%N 100)] with
  | Some (h, g, _) => length h = 2 /\ Geo.holders g = [0; 1; 1] /\ length (Geo.gslices g) = 2
  | None => False
  end.
Proof. vm_compute. repeat split; reflexivity. Qed.

(* ---- AnchoredSlice ---- *)
From WP Require iovec.GeoMem iovec.GeoProofs iovec.GeoAslice.
Theorem C05_aslice_read_n h k got count h' k' a :
  GeoProofs.cache_ok h k -> GeoProofs.heap_ok h -> (0 < count)%N -> (Geo.nlen got <= count)%N ->
  Geo.as_read_n h k got count = Some (h', k', a) ->
  GeoAslice.as_ok h' a /\ Geo.sl_bytes h' (Geo.as_sl a) = got /\ Geo.as_len a = Geo.nlen got.
Proof. exact (GeoAslice.as_read_n_ok h k got count h' k' a). Qed.
Theorem C05_aslice_skip_prefix h a n : GeoAslice.as_ok h a ->
  GeoAslice.as_ok h (fst (Geo.as_skip_prefix a n)) /\ snd (Geo.as_skip_prefix a n) = N.min n (Geo.as_len a) /\
  Geo.sl_bytes h (Geo.as_sl (fst (Geo.as_skip_prefix a n))) = Geo.nskipn (N.min n (Geo.as_len a)) (Geo.sl_bytes h (Geo.as_sl a)).
Proof. exact (GeoAslice.as_skip_prefix_ok h a n). Qed.
Theorem C05_aslice_drop_suffix h a n : GeoAslice.as_ok h a ->
  GeoAslice.as_ok h (fst (Geo.as_drop_suffix a n)) /\ snd (Geo.as_drop_suffix a n) = N.min n (Geo.as_len a) /\
  Geo.sl_bytes h (Geo.as_sl (fst (Geo.as_drop_suffix a n))) =
    Geo.nfirstn (Geo.as_len a - N.min n (Geo.as_len a)) (Geo.sl_bytes h (Geo.as_sl a)).
Proof. exact (GeoAslice.as_drop_suffix_ok h a n). Qed.
Theorem C05_aslice_split_at h a mid : GeoAslice.as_ok h a ->
  let '(l, r) := Geo.as_split_at a mid in
  GeoAslice.as_ok h l /\ GeoAslice.as_ok h r /\
  Geo.sl_bytes h (Geo.as_sl l) ++ Geo.sl_bytes h (Geo.as_sl r) = Geo.sl_bytes h (Geo.as_sl a) /\
  Geo.as_len l = N.min mid (Geo.as_len a) /\ (Geo.as_len l + Geo.as_len r = Geo.as_len a)%N /\
  ((mid < Geo.as_len a)%N -> Geo.as_anchor l = Geo.as_anchor a /\ Geo.as_anchor r = Geo.as_anchor a /\
     match Geo.as_sl l, Geo.as_sl r with
     | Geo.SArena c lo ll, Geo.SArena c' ro _ => c = c' /\ (lo + ll = ro)%N
     | _, _ => False
     end \/ Geo.as_len a = 0%N).
Proof. exact (GeoAslice.as_split_at_ok h a mid). Qed.

(* StreamChunker (hcobs/GeoChunker.v): from any state meeting the chunker invariant, all Data chunks handed out by any
   number of pumps are AnchoredSlices inside the chunks their own anchors hold in the FINAL memory, where they still read
   the bytes they were handed out with (the value-level chunk sequence), and no in-bounds slice of the initial memory
   was changed by the refills *)
From WP Require hcobs.Chunker hcobs.GeoChunker.
Theorem C05_chunker_slices fuel bs h k s hf cs : GeoChunker.CInv h k s ->
  GeoChunker.gpump_all fuel bs h k s = Some (hf, cs) ->
  GeoChunker.frame h hf /\ length h <= length hf /\ Forall (GeoChunker.chunk_ok hf) cs /\
  map (GeoChunker.abs_chunk hf) cs = Chunker.pump_all fuel bs (GeoChunker.abs_st h s).
Proof. exact (GeoChunker.gpump_all_refines fuel bs h k s hf cs). Qed.

Print Assumptions C05_core.
Print Assumptions C05_aslice_read_n.
Print Assumptions C05_aslice_split_at.
Print Assumptions C05_geo_ownership.
Print Assumptions C05_release_only_unreachable.
Print Assumptions C05_anchored_window.
Print Assumptions C05_chunker_slices.
