From WP Require Import iovec.Anchors.
