(* C15 - SlidingDeque behaves like a double-ended queue with a contiguous view. *)
From Coq Require Import List Arith NArith.
From WP Require Import deque.Sliding deque.SlidingProofs.
Import ListNotations.

(* For every history over push_back, pop_front, pop_back, advance, clear, slide, in-range and
   out-of-range writes, front, back -- starting from new() or from any container -- no step
   panics (check_rep included), every returned value and the contiguous view are those of the
   list specification `lrun`, and the representation invariant holds in the final state.  Since
   the statement is for every history, it holds after every prefix (C15_every_prefix). *)
Theorem C15_sliding_refines_list (A : Type) (ops : list (op A)) (init : list A) :
  exists d', run (from_container init) ops = Some (d', snd (lrun init ops)) /\
             view d' = fst (lrun init ops) /\
             2 * consumed d' <= length (cont d') /\ (view d' = [] -> consumed d' = 0).
Proof.
  destruct (run_refines A ops (from_container init) (from_container_rep A init)) as (d' & E & R & V).
  exists d'. rewrite from_container_view in *. apply check_rep_spec in R.
  split; [exact E|]. split; [exact V|]. split; [apply Rep_space; exact R|apply Rep_empty_clean; exact R].
Qed.

Theorem C15_every_prefix (A : Type) (ops1 ops2 : list (op A)) (init : list A) :
  exists d1, run (from_container init) ops1 = Some (d1, snd (lrun init ops1)) /\ Rep A d1 /\
  exists d2, run (from_container init) (ops1 ++ ops2) = Some (d2, snd (lrun init (ops1 ++ ops2))).
Proof. exact (run_prefix_rep A ops1 ops2 (from_container init) (from_container_rep A init)). Qed.

(* the defect repaired by commit a58fd0b stays machine-checked *)
Theorem C15_prefix_pop_back_refuted : f2_history (pop_back_prefix nat) = Panic.
Proof. exact sliding_popback_prefix_refuted. Qed.

(* non-vacuity: a history that slides, pops at both ends, over-advances and writes *)
Example C15_example :
  run (from_container [7; 8]) [PushBack 1; PushBack 2; PopFront; Advance 2%N; PopBack; Write 0 9; Front; Advance 100%N; Back]
  = Some ({| consumed := 0; cont := [] |},
          [OUnit; OUnit; OItem (Some 7); ONat 2; OItem (Some 2); OBool false; OItem None; ONat 0; OItem None]).
Proof. vm_compute. reflexivity. Qed.

Check C15_sliding_refines_list : forall (A : Type) (ops : list (op A)) (init : list A),
  exists d', run (from_container init) ops = Some (d', snd (lrun init ops)) /\
             view d' = fst (lrun init ops) /\
             2 * consumed d' <= length (cont d') /\ (view d' = [] -> consumed d' = 0).
Print Assumptions C15_sliding_refines_list.
Print Assumptions C15_every_prefix.
Print Assumptions C15_prefix_pop_back_refuted.
