(* C04 - Pending backpatches are never observable; filled ones unblock everything. *)
From Coq Require Import List NArith Arith.
From WP Require Import iovec.Pipe iovec.PipeProofs iovec.PipeProofs2 iovec.PipeProofs3 iovec.PipeProofs4.
Import ListNotations.

(* every consumer-visible view (stable_prefix, front, iovs payload, flatten payload, iteration, Read,
   what consume / advance_slices remove) is made of `stable_bytes s`; it consists of bytes only and is
   a prefix of the buffer that stops before the first pending placeholder *)
Theorem C04_holes_invisible s : Inv s -> exists t, stable_cells (abs s) = stable_bytes s ++ t.
Proof. exact (stable_before_first_hole s). Qed.

(* a byte, once observable, never changes: producer steps only extend the hole-free prefix of the
   buffer (consumer steps remove a prefix of it: C03) *)
Theorem C04_observed_stable s o s' x : Inv s -> step s o = Some (s', x) ->
  match o with
  | OPush _ _ | ORegister _ _ | OBackfill _ _ => exists t, stable_cells (abs s') = stable_cells (abs s) ++ t
  | _ => True
  end.
Proof. exact (producer_steps_extend_stable s o s' x). Qed.

(* iovs / flatten / stable_consumer succeed exactly when no placeholder is pending *)
Theorem C04_ok_iff_no_hole s : Inv s -> (iovs_ok s = true <-> has_hole (abs s) = false).
Proof. exact (iovs_ok_iff_no_hole s). Qed.

(* once every placeholder has been backfilled every buffered byte is consumable *)
Theorem C04_all_filled s : Inv s -> table s = [] -> abs s = map Byte (stable_bytes s).
Proof. exact (all_filled_all_stable s). Qed.

(* ... in any order: fills of different placeholders commute *)
Theorem C04_fill_any_order id1 id2 src1 src2 : id1 <> id2 -> forall buf,
  fill_cells id1 src1 (fill_cells id2 src2 buf) = fill_cells id2 src2 (fill_cells id1 src1 buf).
Proof.
  intros Hne buf. revert src1 src2. induction buf as [|c buf IH]; intros src1 src2; [reflexivity|].
  destruct c as [b|i]; cbn [fill_cells]; [now rewrite IH|].
  destruct (Nat.eqb i id2) eqn:E2; destruct (Nat.eqb i id1) eqn:E1.
  - apply Nat.eqb_eq in E1, E2. congruence.
  - destruct src2 as [|x src2']; cbn [fill_cells]; rewrite ?E1, ?E2; cbn [fill_cells]; rewrite ?E1, ?E2; now rewrite IH.
  - destruct src1 as [|x src1']; cbn [fill_cells]; rewrite ?E1, ?E2; cbn [fill_cells]; rewrite ?E1, ?E2; now rewrite IH.
  - cbn [fill_cells]. rewrite ?E1, ?E2. now rewrite IH.
Qed.

(* non-vacuity: two placeholders in one merged slice, filled out of order *)
Example C04_example :
  match run empty_st [OPush false [1]%N; ORegister true [0]%N; ORegister true [0]%N; OPush true [2]%N; OBackfill 3 [9]%N] with
  | Some (s, _) => stable_bytes s = [] /\ iovs_ok s = false /\ abs s = [Byte 1%N; Hole 2; Byte 9%N; Byte 2%N]
  | None => False
  end.
Proof. vm_compute. repeat split; reflexivity. Qed.

(* ---- the geometry-faithful model ----
   what a consumer of the geometry-faithful model (iovec/Geo.v: slices as pointers into arena chunks, merge decisions
   computed) can look at -- the slices of stable_prefix -- holds exactly the stable bytes of the related pipe state;
   with C03_geo_refines_pipe (every Geo history is matched by a pipe history, ending in related states with the pipe
   side in Inv) the theorems above apply: the exposed bytes are a hole-free prefix that never reaches a pending
   placeholder, and iovs() succeeds iff nothing is pending. *)
From WP Require iovec.Geo iovec.GeoProofs iovec.GeoRefine iovec.GeoHistory.
Theorem C04_geo_exposed_bytes h g s st : GeoRefine.R h g s -> Geo.stable_slices g = Some st ->
  concat (map (Geo.sl_bytes h) st) = stable_bytes s.
Proof. exact (GeoHistory.R_stable_bytes h g s st). Qed.
Theorem C04_geo_history_exposes_no_hole ops h' g' xs st :
  GeoHistory.g1run [] Geo.empty_iov ops = Some (h', g', xs) -> Geo.stable_slices g' = Some st ->
  exists s', GeoRefine.R h' g' s' /\ Inv s' /\
             exists t, stable_cells (abs s') = concat (map (Geo.sl_bytes h') st) ++ t.
Proof. exact (GeoHistory.geo_history_exposes_no_hole ops h' g' xs st). Qed.
Theorem C04_geo_pending_iff h g s : GeoRefine.R h g s -> Geo.has_pending g = negb (iovs_ok s).
Proof. exact (GeoHistory.geo_pending_iff h g s). Qed.

Print Assumptions C04_holes_invisible.
Print Assumptions C04_geo_exposed_bytes.
Print Assumptions C04_geo_history_exposes_no_hole.
Print Assumptions C04_geo_pending_iff.
Print Assumptions C04_observed_stable.
Print Assumptions C04_ok_iff_no_hole.
Print Assumptions C04_all_filled.
Print Assumptions C04_fill_any_order.
