(* C13 - AtomicBaseTime snapshots are never torn and never go backwards, on any schedule.
   The program is the seqlock of vouched_time/src/atomic_base_time.rs over a release/acquire view
   memory (time/RA.v); its memory orderings are the ones the translator reads off the source on
   every run (time/SeqlockTie.v).  A schedule is any list of (thread, action) pairs: it chooses
   the interleaving at atomic-operation granularity and, for every load, which message the load
   reads among those the thread's view allows.  Any number of threads, unbounded schedules.
   This file holds only the property theorems, pinned statements, non-vacuity examples and
   Print Assumptions. *)
From Coq Require Import List NArith Lia Bool Arith.
From Coq Require Import ZArith.
From WP Require Import run.RunSeq.
From WP Require Import time.RA time.SeqlockInv time.SeqlockMono time.SeqlockProgress time.SeqlockExtras
  time.SeqlockTie time.SeqlockTieProofs.
Import ListNotations.

Notation SO := source_orderings.

(* the source still has the shape the model implements, and these are its orderings *)
Theorem C13_tie : extract = Some SO.
Proof. exact extract_ok. Qed.

(* never torn: a finished snapshot returns the s-th accepted pair, as a unit *)
Theorem C13_no_tear t0 v0 sched st :
  run SO (init t0 v0) sched = Some st ->
  forall j s t v, tpc (threads st j) = RDone s t v -> nth_error (acc st) s = Some (t, v).
Proof. exact (SeqlockInv.C13_no_tear SO src_seq1_acq src_seq2_acq src_v_acq src_t_acq src_st_rel src_sv_rel src_sseq_rel t0 v0 sched st). Qed.

(* ... and every accepted pair is the initial pair or was passed, as a unit, to update / try_update *)
Theorem C13_accepted_from_calls t0 v0 sched st p :
  run SO (init t0 v0) sched = Some st -> In p (acc st) -> p = (t0, v0) \/ In p (calls sched).
Proof. exact (accepted_from_calls SO t0 v0 sched st p). Qed.

(* never a panic: the implementation's assertion checks the returned pair; it holds as soon as it
   holds of the initial pair and of every pair handed to update (update asserts that on entry) *)
Theorem C13_no_panic (check : N -> N -> bool) t0 v0 sched st j s t v :
  check t0 v0 = true -> (forall ut uv, In (ut, uv) (calls sched) -> check ut uv = true) ->
  run SO (init t0 v0) sched = Some st -> tpc (threads st j) = RDone s t v -> check t v = true.
Proof.
  intros H0 Hc H Hp.
  pose proof (C13_no_tear t0 v0 sched st H j s t v Hp) as A. apply nth_error_In in A.
  destruct (C13_accepted_from_calls t0 v0 sched st (t, v) H A) as [E|E]; [inversion E; subst; exact H0|exact (Hc t v E)].
Qed.

(* recency: whatever update number the thread had already seen when it was not inside a finished
   snapshot (because it published it itself, or acquired the writer lock after it, or read it),
   a later snapshot returns at least that update *)
Theorem C13_recent j sched st st' k s t v :
  Inv st -> run SO st sched = Some st' ->
  k <= tview (threads st j) Seq -> snap_index (tpc (threads st j)) = None ->
  tpc (threads st' j) = RDone s t v -> k <= s.
Proof. exact (recent_from_view SO src_seq1_acq src_seq2_acq src_v_acq src_t_acq src_st_rel src_sv_rel src_sseq_rel j sched st st' k s t v). Qed.

(* a completed update is in its thread's view from the publishing store on *)
Theorem C13_publish_enters_view st tid ut uv n st' :
  Inv st -> tpc (threads st tid) = W6 ut uv n -> step SO st tid AStep = Some st' ->
  tview (threads st' tid) Seq = length (acc st) /\ acc st' = acc st ++ [(ut, uv)].
Proof. exact (publish_enters_view SO st tid ut uv n st'). Qed.

(* successive snapshots of one thread: base times never decrease *)
Theorem C13_monotone t0 v0 sched1 sched2 st1 st2 j s1 t1 v1 s2 t2 v2 :
  run SO (init t0 v0) sched1 = Some st1 -> run SO st1 sched2 = Some st2 ->
  tpc (threads st1 j) = RDone s1 t1 v1 -> tpc (threads st2 j) = RDone s2 t2 v2 -> (t1 <= t2)%N.
Proof. exact (SeqlockMono.C13_monotone SO src_seq1_acq src_seq2_acq src_v_acq src_t_acq src_st_rel src_sv_rel src_sseq_rel t0 v0 sched1 sched2 st1 st2 j s1 t1 v1 s2 t2 v2). Qed.

(* an update older than the current base time is ignored: compared against the latest accepted
   pair, it performs no store and leaves the accepted history alone *)
Theorem C13_stale_update_ignored st tid ut uv cur tc :
  Inv st -> tpc (threads st tid) = W4 ut uv cur tc ->
  (exists tv, nth_error (acc st) (length (acc st) - 1) = Some tv /\ tc = fst tv) /\
  ((ut < tc)%N -> exists st', step SO st tid AStep = Some st' /\
      smem st' = smem st /\ acc st' = acc st /\ tpc (threads st' tid) = W7 false).
Proof. exact (stale_update_ignored SO st tid ut uv cur tc). Qed.

(* every reachable state satisfies the invariant the statements above assume *)
Theorem C13_reachable_inv t0 v0 sched st : run SO (init t0 v0) sched = Some st -> Inv st.
Proof. intros H. exact (run_inv SO src_seq1_acq src_seq2_acq src_v_acq src_t_acq src_st_rel src_sv_rel src_sseq_rel sched _ _ (init_inv t0 v0) H). Qed.

(* the model is not vacuous: with the slot loads weakened to Relaxed the same schedule language
   produces a torn pair, and the source's orderings forbid that schedule *)
Example C13_relaxed_tears :
  option_map (fun st => tpc (threads st 1)) (run relaxed_orderings (init 0 100) torn_sched) = Some (RDone 0 0 120).
Proof. vm_compute. reflexivity. Qed.
Example C13_source_rejects_torn_schedule : run SO (init 0 100) torn_sched = None.
Proof. vm_compute. reflexivity. Qed.
(* a reachable finished snapshot under the source's orderings *)
Example C13_reachable_snapshot :
  option_map (fun st => tpc (threads st 1))
    (run SO (init 0 100) (upd_sched 0 10 110 0 0 0 ++ [(1, ASnapStart 1); (1, ALoad 1); (1, ALoad 1); (1, ALoad 1)]))
  = Some (RDone 1 10 110).
Proof. vm_compute. reflexivity. Qed.

(* the executable runner used by the correspondence check, on one update followed by a snapshot *)
Example C13_runner_smoke :
  run_seq [OCall 0 1 42; OStep 0 0; OStep 0 0; OStep 0 0; OStep 0 0; OStep 0 0; OStep 0 0; OStep 0 0; OStep 0 0;
           OCall 1 0 0; OStep 1 0; OStep 1 0; OStep 1 0; OStep 1 0]%N
  = [[0; 0; 1; 42; 0]; [3; 1]; [1; 0; 0; 0; 0]; [1; 2; 1; 0; 1000003]; [1; 1; 1; 0; 0];
     [2; 3; 2; 1; 42]; [2; 4; 2; 1; 1000045]; [2; 0; 2; 1; 1]; [5; 11];
     [0; 1; 0; 0; 0]; [1; 0; 1; 1; 1]; [1; 4; 1; 1; 1000045]; [1; 3; 1; 1; 42]; [1; 0; 1; 1; 1; 10; 42; 1000045];
     [-1; 2; 1; 1; 2; 2]]%Z.
Proof. vm_compute. reflexivity. Qed.

Check C13_no_tear : forall t0 v0 sched st, run SO (init t0 v0) sched = Some st ->
  forall j s t v, tpc (threads st j) = RDone s t v -> nth_error (acc st) s = Some (t, v).
Check C13_monotone : forall t0 v0 sched1 sched2 st1 st2 j s1 t1 v1 s2 t2 v2,
  run SO (init t0 v0) sched1 = Some st1 -> run SO st1 sched2 = Some st2 ->
  tpc (threads st1 j) = RDone s1 t1 v1 -> tpc (threads st2 j) = RDone s2 t2 v2 -> (t1 <= t2)%N.

Print Assumptions C13_tie.
Print Assumptions C13_no_tear.
Print Assumptions C13_accepted_from_calls.
Print Assumptions C13_no_panic.
Print Assumptions C13_recent.
Print Assumptions C13_publish_enters_view.
Print Assumptions C13_monotone.
Print Assumptions C13_stale_update_ignored.
Print Assumptions C13_reachable_inv.
