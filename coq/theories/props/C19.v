(* C19 - The NFS base time only moves forward, and only on evidence from trusted devices.
   Model: time/Nfs.v (nfs_voucher.rs as a sequential state machine; the filesystem and the
   wall-clock refresh policy are oracles supplied by the history).
   This file holds only the property theorems, pinned statements, non-vacuity examples and
   Print Assumptions. *)
From Coq Require Import List NArith ZArith Lia Bool.
From WPGen Require Import Params.
From WP Require Import time.Nfs time.NfsProofs.
Import ListNotations.
Open Scope N_scope.

Section C19.
Variable vouch : N -> N.                 (* raffle's VOUCH_PARAMS.vouch (oracle) *)
Variable check : N -> N -> bool.         (* BASE_TIME_CHECK.check (oracle) *)
Hypothesis vouch_checks : forall t, check t (vouch t) = true.   (* raffle's contract for a matching parameter pair *)

(* along every history of module calls the base time never decreases *)
Theorem C19_monotone ops s : base s <= base (fst (run vouch s ops)).
Proof. exact (nfs_monotone vouch check vouch_checks ops s). Qed.

(* one call: it changes only to the change-time of a presented file on a device that is trusted
   at that moment or being registered by that very call; trust grows only by registration; every
   pair handed back passes the voucher check *)
Theorem C19_step s o s' r : step vouch s o = (s', r) ->
  base s <= base s' /\
  (forall t v, r = RSome t v -> check t v = true) /\
  (base s' <> base s -> exists dev, In (dev, base s') (evidence o) /\ (is_trusted s dev = true \/ registers o dev)) /\
  (forall d, is_trusted s' d = true -> is_trusted s d = true \/ registers o d) /\
  (forall d, is_trusted s d = true -> is_trusted s' d = true).
Proof. exact (nfs_step vouch check vouch_checks s o s' r). Qed.

Theorem C19_results_check ops s t v : In (RSome t v) (snd (run vouch s ops)) -> check t v = true.
Proof. exact (nfs_results_check vouch check vouch_checks ops s t v). Qed.

(* a file on any other device: nothing reported, nothing changed *)
Theorem C19_observe_untrusted s dev c n :
  is_trusted s dev = false ->
  step vouch s (Observe (StatOk dev c n)) = (s, RNone) /\
  (forall b, fst (step vouch s (MaybeObserve b (StatOk dev c n))) = s).
Proof. exact (observe_untrusted vouch s dev c n). Qed.

(* before trust is established only add_trusted_path moves the base time *)
Theorem C19_nothing_trusted_nothing_moves s o s' r :
  trusted s = [] -> (forall f1 f2, o <> AddTrusted f1 f2) -> step vouch s o = (s', r) -> base s' = base s.
Proof. exact (nothing_trusted_nothing_moves vouch check vouch_checks s o s' r). Qed.

(* the only panic is add_trusted_path's expect, and it needs one open file to change device between two stats *)
Theorem C19_panic_only_on_device_change s o s' : step vouch s o = (s', RPanic) ->
  exists d1 c1 n1 d2 c2 n2, o = AddTrusted (StatOk d1 c1 n1) (StatOk d2 c2 n2) /\ d1 <> d2.
Proof.
  intros H. destruct (no_other_panic vouch check vouch_checks s o s' H) as (f1 & f2 & ->).
  destruct (add_trusted_panics_only_on_device_change vouch s f1 f2 s' H) as (d1 & c1 & n1 & d2 & c2 & n2 & -> & -> & Hne).
  exists d1, c1, n1, d2, c2, n2. auto.
Qed.
End C19.

(* the change-time formula is the exact millisecond count for every stat a kernel produces
   between 1970 and the year 584 million *)
Theorem C19_millis_exact c n : (0 <= c < 18446744073709551)%Z -> (0 <= n < 1000000000)%Z ->
  millis_of c n = Z.to_N (c * 1000 + n / 1000000).
Proof. exact (millis_exact c n). Qed.

Theorem C19_leeway_pinned : DEFAULT_LEEWAY_MS = 1993.
Proof. reflexivity. Qed.

(* non-vacuity: trust established, an older file ignored, a newer one accepted, an untrusted one ignored *)
Example C19_history :
  let ops := [Observe (StatOk 7 100 0); AddTrusted (StatOk 7 100 0) (StatOk 7 100 5000000);
              Observe (StatOk 7 90 0); Observe (StatOk 8 500 0); Observe (StatOk 7 200 999999999); GetUnlocked] in
  run (fun t => t + 1) init ops =
  ({| trusted := [7]; base := 200999 |},
   [RNone; RUnit; RSome 90000 90001; RNone; RSome 200999 201000; RSome 200999 201000]).
Proof. vm_compute. reflexivity. Qed.
Example C19_refresh_threshold :
  let s := {| trusted := [7]; base := 100000 |} in
  step (fun t => t + 1) s (GetBase 101993999999 [StatOk 7 500 0]) = (s, RSome 100000 100001) /\
  step (fun t => t + 1) s (GetBase 101994000000 [StatOk 7 500 0]) = ({| trusted := [7]; base := 500000 |}, RSome 500000 500001).
Proof. vm_compute. split; reflexivity. Qed.

Check C19_monotone : forall vouch check, (forall t, check t (vouch t) = true) -> forall ops s, base s <= base (fst (run vouch s ops)).
Check C19_step : forall vouch check, (forall t, check t (vouch t) = true) -> forall s o s' r, step vouch s o = (s', r) ->
  base s <= base s' /\
  (forall t v, r = RSome t v -> check t v = true) /\
  (base s' <> base s -> exists dev, In (dev, base s') (evidence o) /\ (is_trusted s dev = true \/ registers o dev)) /\
  (forall d, is_trusted s' d = true -> is_trusted s d = true \/ registers o d) /\
  (forall d, is_trusted s d = true -> is_trusted s' d = true).

Print Assumptions C19_monotone.
Print Assumptions C19_step.
Print Assumptions C19_results_check.
Print Assumptions C19_observe_untrusted.
Print Assumptions C19_nothing_trusted_nothing_moves.
Print Assumptions C19_panic_only_on_device_change.
Print Assumptions C19_millis_exact.
