(* C12 - MessageView is total on untrusted bytes and its accessors agree. *)
From Coq Require Import List NArith.
From WP Require Import tlv.View tlv.ViewProofs.
Import ListNotations.
Open Scope N_scope.

(* new never panics, on any byte string *)
Theorem C12_new_total (d : list N) : view_new d <> Panic.
Proof. exact (view_new_total d). Qed.

(* new accepts exactly when the format allows (Wf is stated on the format's total functions
   hdr_n / hdr_offs / hdr_tags, not on the implementation's slicing) *)
Theorem C12_new_accepts_iff (d : list N) :
  view_new d = Ok None <->
  (4 <= lenN d /\ 8 * hdr_n d <= lenN d /\ nondecr (hdr_offs d) /\ nondecr (hdr_tags d) /\
   (forall lo, last_opt (hdr_offs d) = Some lo -> 8 * hdr_n d + lo <= lenN d)).
Proof. exact (view_new_accepts_iff d). Qed.

(* on an accepted message no accessor panics *)
Theorem C12_accessors_no_panic d i j : Wf d ->
  get_value d i <> Panic /\ get d i <> Panic /\ iter d <> Panic /\ tags d <> Panic /\ offsets d <> Panic /\ find d j <> Panic.
Proof. exact (accessors_no_panic d i j). Qed.

(* the value at index i is the i-th piece of the bytes after the header; every index >= N yields nothing *)
Theorem C12_get_value d i : Wf d -> get_value d i = Ok (nthN (spec_values d) i).
Proof. exact (get_value_is_spec_value d i). Qed.
Theorem C12_out_of_range d i : Wf d -> hdr_n d <= i -> get_value d i = Ok None /\ get d i = Ok None.
Proof.
  intros W H. split; [exact (get_value_out_of_range d i W H)|].
  rewrite (get_spec d i W). unfold nthN at 2. rewrite (spec_values_length d W).
  destruct (nthN (hdr_tags d) i); [|reflexivity]. destruct (i <? hdr_n d) eqn:E; [apply N.ltb_lt in E; exfalso; apply (N.lt_irrefl i); eapply N.lt_le_trans; eauto|reflexivity].
Qed.
Theorem C12_count d : Wf d -> lenN (spec_values d) = hdr_n d /\ lenN (hdr_tags d) = hdr_n d.
Proof. intros W. split; [exact (spec_values_length d W)|]. destruct W as (_ & H8 & _). exact (hdr_tags_length d H8). Qed.

(* the values for indices 0..N tile the bytes after the header exactly and in order *)
Theorem C12_values_tile d : Wf d -> 1 <= hdr_n d -> concat (spec_values d) = skipn (N.to_nat (8 * hdr_n d)) d.
Proof. exact (values_tile d). Qed.

(* indexed access, iteration and the tag array agree *)
Theorem C12_get d i : Wf d ->
  get d i = Ok (match nthN (hdr_tags d) i, nthN (spec_values d) i with Some t, Some v => Some (t, v) | _, _ => None end).
Proof. exact (get_spec d i). Qed.
Theorem C12_iter d : Wf d -> iter d = Ok (combine (hdr_tags d) (spec_values d)).
Proof. exact (iter_spec d). Qed.
Theorem C12_iter_get_agree d i its : Wf d -> iter d = Ok its -> i < hdr_n d ->
  exists tv, nth_error its (N.to_nat i) = Some tv /\ get d i = Ok (Some tv).
Proof. exact (iter_get_agree d i its). Qed.

(* tag lookup: whichever index the binary search returns, the value is stored under exactly that
   tag; nothing is returned when the tag is absent *)
Theorem C12_find d t j : Wf d -> bsearch_ok (hdr_tags d) t j ->
  match j with
  | Some j => exists v, find d (Some j) = Ok (Some v) /\ nthN (hdr_tags d) j = Some t /\ nthN (spec_values d) j = Some v
  | None => find d None = Ok None /\ ~ In t (hdr_tags d)
  end.
Proof. exact (find_spec d t j). Qed.

(* the defect repaired by commit 2065279 stays machine-checked *)
Theorem C12_prefix_get_value_refuted :
  let d := [0; 0; 0; 0; 120; 121; 122] in
  view_new d = Ok None /\ hdr_n d = 0 /\ get_value_prefix d 0 = Ok (Some d) /\ get_value d 0 = Ok None.
Proof. exact get_value_empty_refuted. Qed.

(* non-vacuity: an accepted two-pair message with a repeated tag and trailing bytes *)
Example C12_example :
  let d := [2;0;0;0; 3;0;0;0; 5;0;0;0; 5;0;0;0; 97;115;100; 122;120] in
  view_new d = Ok None /\ spec_values d = [[97;115;100]; [122;120]] /\
  iter d = Ok [(5, [97;115;100]); (5, [122;120])] /\ get_value d 2 = Ok None.
Proof. vm_compute. repeat split; reflexivity. Qed.
Example C12_example_wf : Wf [2;0;0;0; 3;0;0;0; 5;0;0;0; 5;0;0;0; 97;115;100; 122;120].
Proof. apply view_new_accepts_iff. vm_compute. reflexivity. Qed.

Check C12_new_total : forall d : list N, view_new d <> Panic.
Check C12_values_tile : forall d, Wf d -> 1 <= hdr_n d -> concat (spec_values d) = skipn (N.to_nat (8 * hdr_n d)) d.
Print Assumptions C12_new_total.
Print Assumptions C12_new_accepts_iff.
Print Assumptions C12_accessors_no_panic.
Print Assumptions C12_get_value.
Print Assumptions C12_out_of_range.
Print Assumptions C12_values_tile.
Print Assumptions C12_iter.
Print Assumptions C12_iter_get_agree.
Print Assumptions C12_find.
Print Assumptions C12_prefix_get_value_refuted.
