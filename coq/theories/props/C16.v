(* C16 - SortedDeque behaves like an ordered map with append-only insertion. *)
From Coq Require Import List ZArith Bool.
From WP Require Import deque.Sliding deque.Sorted deque.SortedProofs deque.SortedGone deque.SortedOverSliding.
Import ListNotations.
Open Scope Z_scope.

(* For every history, starting from the empty deque: the model's outputs equal those of the ordered
   map specification `sstep` (sorted association list of live items, append-only insertion), the
   model panics exactly when the specification does, and otherwise its live items are the map. *)
Theorem C16_sorted_refines_map (ops : list op) :
  fst (run step [] ops) = fst (run sstep [] ops) /\
  match snd (run step [] ops), snd (run sstep [] ops) with
  | Some l', Some m' => filter live l' = m' /\ SS l' /\ check_rep l' = true
  | None, None => True
  | _, _ => False
  end.
Proof. exact (run_refines ops [] Inv_nil). Qed.

(* The specification panics only where the property says it must: pushing a live item whose key
   is not strictly greater than the current last item. *)
Theorem C16_panic_only_on_bad_push m o : sstep m o = None ->
  exists it b, o = Push it /\ live it = true /\ hd_error (rev m) = Some b /\ key it <= key b.
Proof. exact (sstep_panic_only_push m o). Qed.

(* The specification really is an ordered map. *)
Theorem C16_spec_removed_never_found k m : List.find (has_key k) (filter (fun it => negb (has_key k it)) m) = None.
Proof. exact (spec_removed_not_found k m). Qed.
Theorem C16_spec_present_found k m it : MapInv m -> In it m -> key it = k -> List.find (has_key k) m = Some it.
Proof. exact (spec_find_complete k m it). Qed.
Theorem C16_spec_found_present k m it : List.find (has_key k) m = Some it -> In it m /\ key it = k.
Proof. exact (spec_find_sound k m it). Qed.
Theorem C16_spec_first_smallest m a x : MapInv m -> hd_error m = Some a -> In x (tl m) -> key a < key x.
Proof. exact (spec_first_smallest m a x). Qed.
Theorem C16_spec_last_largest m a x : MapInv m -> hd_error (rev m) = Some a -> In x (removelast m) -> key x < key a.
Proof. exact (spec_last_largest m a x). Qed.
Theorem C16_live_items_sorted l : SS l -> MapInv (abs l).
Proof. exact (abs_MapInv l). Qed.

(* "Removed or popped keys are never found, iterated or returned again", at history level and for
   the faithful model itself: split any history at any point; if after the first part no live
   item holds key k (it was removed, popped, cleared away or never pushed -- the three lemmas
   below), then as long as no later operation pushes a live item with key k, no later result of
   find, remove, pop_first, pop_last, first, last or iteration hands out an item with key k. *)
Theorem C16_gone_stays_gone k ops1 ops2 l1 :
  snd (run step [] ops1) = Some l1 -> NoKey k (filter live l1) ->
  forallb (fun o => negb (pushes_key k o)) ops2 = true ->
  forallb (fun x => negb (mentions k x)) (fst (run step l1 ops2)) = true.
Proof. exact (model_gone_stays_gone k ops1 ops2 l1). Qed.
Theorem C16_removed_is_gone k m : NoKey k (filter (fun it => negb (has_key k it)) m).
Proof. exact (removed_gone k m). Qed.
Theorem C16_popped_first_is_gone m a : MapInv m -> hd_error m = Some a -> NoKey (key a) (tl m).
Proof. exact (popped_first_gone m a). Qed.
Theorem C16_popped_last_is_gone m a : MapInv m -> hd_error (rev m) = Some a -> NoKey (key a) (removelast m).
Proof. exact (popped_last_gone m a). Qed.
(* non-vacuity: key 2 removed from the middle, then looked up, iterated and popped around *)
Example C16_gone_example :
  let ops1 := [Push (1, Some 10); Push (2, Some 20); Push (3, Some 30); Remove 2] in
  match snd (run step [] ops1) with
  | Some l1 => existsb (has_key 2) (filter live l1) = false /\
               forallb (fun x => negb (mentions 2 x)) (fst (run step l1 [Find 2; Iter; Remove 2; PopFirst; Last; PopLast])) = true
  | None => False
  end.
Proof. vm_compute. split; reflexivity. Qed.

(* C16 over C15: the list semantics deque/Sorted.v gives to the underlying SlidingDeque is not
   only trusted.  For every SortedDeque operation that the list-level model performs, the calls
   the code makes on self.items (pop_front then advance(first live index or usize::MAX);
   pop_back repeated while the back is erased; push_back; a write through DerefMut for a middle
   mark; clear), run on the faithful SlidingDeque model from ANY representation of the list
   (any consumed prefix), return without panic, keep SlidingDeque's check_rep, and leave the
   view equal to the list state the Sorted model computes.  The only assumption is that the
   container holds at most usize::MAX items. *)
Theorem C16_over_sliding (d : sd item) o l' x :
  Sliding.check_rep d = true -> (N.of_nat (length (view d)) <= usize_max)%N ->
  Sorted.step (view d) o = Some (l', x) ->
  exists d' outs, Sliding.run d (calls (view d) o) = Some (d', outs) /\ Sliding.check_rep d' = true /\ view d' = l'.
Proof. exact (calls_sliding d o l' x). Qed.
(* non-vacuity: consumed prefix 1 of 6, tombstone before the last item, pop_last drops both *)
Example C16_over_sliding_example :
  let d := {| consumed := 1; cont := [(0, Some 0); (1, Some 10); (2, Some 20); (3, Some 30); (4, None); (5, Some 50)] |} in
  Sliding.check_rep d = true /\
  Sorted.step (view d) PopLast = Some ([(1, Some 10); (2, Some 20); (3, Some 30)], OItem (Some (5, Some 50))) /\
  calls (view d) PopLast = [PopBack; PopBack] /\
  option_map (fun r => view (fst r)) (Sliding.run d (calls (view d) PopLast)) = Some [(1, Some 10); (2, Some 20); (3, Some 30)].
Proof. vm_compute. repeat split; reflexivity. Qed.

(* non-vacuity: middle removal, then removals from both ends expose and clean the tombstone *)
Example C16_example :
  run step [] [Push (1, Some 10); Push (2, Some 20); Push (3, Some 30); Push (4, Some 40);
               Remove 2; Find 2; Iter; Remove 1; First; PopLast; Remove 3; IsEmpty; Push (2, Some 21); Push (2, Some 22)]
  = ([OUnit; OUnit; OUnit; OUnit; OItem (Some (2, Some 20)); OItem None;
      OList [(1, Some 10); (3, Some 30); (4, Some 40)]; OItem (Some (1, Some 10)); OItem (Some (3, Some 30));
      OItem (Some (4, Some 40)); OItem (Some (3, Some 30)); OBool true; OUnit], None).
Proof. vm_compute. reflexivity. Qed.

Check C16_sorted_refines_map : forall ops : list op,
  fst (run step [] ops) = fst (run sstep [] ops) /\
  match snd (run step [] ops), snd (run sstep [] ops) with
  | Some l', Some m' => filter live l' = m' /\ SS l' /\ check_rep l' = true
  | None, None => True
  | _, _ => False
  end.
Print Assumptions C16_sorted_refines_map.
Print Assumptions C16_panic_only_on_bad_push.
Print Assumptions C16_spec_present_found.
Print Assumptions C16_spec_last_largest.
Check C16_gone_stays_gone : forall k ops1 ops2 l1,
  snd (run step [] ops1) = Some l1 -> NoKey k (filter live l1) ->
  forallb (fun o => negb (pushes_key k o)) ops2 = true ->
  forallb (fun x => negb (mentions k x)) (fst (run step l1 ops2)) = true.
Print Assumptions C16_gone_stays_gone.
Print Assumptions C16_over_sliding.
Print Assumptions C16_popped_first_is_gone.
Print Assumptions C16_popped_last_is_gone.
