(* C16 - SortedDeque behaves like an ordered map with append-only insertion. *)
From Coq Require Import List ZArith Bool.
From WP Require Import deque.Sorted deque.SortedProofs.
Import ListNotations.
Open Scope Z_scope.

(* For every history, starting from the empty deque: the model's outputs equal those of the ordered
   map specification `sstep` (sorted association list of live items, append-only insertion), the
   model panics exactly when the specification does, and otherwise its live items are the map. *)
Theorem C16_sorted_refines_map (ops : list op) :
  fst (run step [] ops) = fst (run sstep [] ops) /\
  match snd (run step [] ops), snd (run sstep [] ops) with
  | Some l', Some m' => filter live l' = m' /\ SS l' /\ check_rep l' = true
  | None, None => True
  | _, _ => False
  end.
Proof. exact (run_refines ops [] Inv_nil). Qed.

(* The specification panics only where the property says it must: pushing a live item whose key
   is not strictly greater than the current last item. *)
Theorem C16_panic_only_on_bad_push m o : sstep m o = None ->
  exists it b, o = Push it /\ live it = true /\ hd_error (rev m) = Some b /\ key it <= key b.
Proof. exact (sstep_panic_only_push m o). Qed.

(* The specification really is an ordered map. *)
Theorem C16_spec_removed_never_found k m : List.find (has_key k) (filter (fun it => negb (has_key k it)) m) = None.
Proof. exact (spec_removed_not_found k m). Qed.
Theorem C16_spec_present_found k m it : MapInv m -> In it m -> key it = k -> List.find (has_key k) m = Some it.
Proof. exact (spec_find_complete k m it). Qed.
Theorem C16_spec_found_present k m it : List.find (has_key k) m = Some it -> In it m /\ key it = k.
Proof. exact (spec_find_sound k m it). Qed.
Theorem C16_spec_first_smallest m a x : MapInv m -> hd_error m = Some a -> In x (tl m) -> key a < key x.
Proof. exact (spec_first_smallest m a x). Qed.
Theorem C16_spec_last_largest m a x : MapInv m -> hd_error (rev m) = Some a -> In x (removelast m) -> key x < key a.
Proof. exact (spec_last_largest m a x). Qed.
Theorem C16_live_items_sorted l : SS l -> MapInv (abs l).
Proof. exact (abs_MapInv l). Qed.

(* non-vacuity: middle removal, then removals from both ends expose and clean the tombstone *)
Example C16_example :
  run step [] [Push (1, Some 10); Push (2, Some 20); Push (3, Some 30); Push (4, Some 40);
               Remove 2; Find 2; Iter; Remove 1; First; PopLast; Remove 3; IsEmpty; Push (2, Some 21); Push (2, Some 22)]
  = ([OUnit; OUnit; OUnit; OUnit; OItem (Some (2, Some 20)); OItem None;
      OList [(1, Some 10); (3, Some 30); (4, Some 40)]; OItem (Some (1, Some 10)); OItem (Some (3, Some 30));
      OItem (Some (4, Some 40)); OItem (Some (3, Some 30)); OBool true; OUnit], None).
Proof. vm_compute. reflexivity. Qed.

Check C16_sorted_refines_map : forall ops : list op,
  fst (run step [] ops) = fst (run sstep [] ops) /\
  match snd (run step [] ops), snd (run sstep [] ops) with
  | Some l', Some m' => filter live l' = m' /\ SS l' /\ check_rep l' = true
  | None, None => True
  | _, _ => False
  end.
Print Assumptions C16_sorted_refines_map.
Print Assumptions C16_panic_only_on_bad_push.
Print Assumptions C16_spec_present_found.
Print Assumptions C16_spec_last_largest.
