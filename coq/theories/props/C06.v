(* C06 - StreamReader returns exactly the valid delimited records of any byte stream. *)
From Coq Require Import List NArith Arith.
From WP Require Import hcobs.Stuffing hcobs.Dec hcobs.Format hcobs.Chunker hcobs.ReaderRecord hcobs.Reader hcobs.ReaderProofs hcobs.ReaderFacts hcobs.ParamsTie.
Import ListNotations.

(* For every stream, every block size (hence, by C08/C17, every read schedule), every max and limit:
   successive next_record_bytes calls of the faithful model return exactly spec_records -- the
   maximal FE FD-free segments that decode (with the production limits) to at most max bytes, with
   their exact byte ranges, stopping at the first segment that starts at or after limit -- then
   None, and None again on later calls (the `true`), and no assertion fires. *)
Theorem C06_reader_spec (bs : nat) (max limit : N) (stream : list byte) :
  exists lso, all_records prod_mi prod_ms max limit (S (length (chunks_of bs stream))) (chunks_of bs stream) 0
              = (spec_records prod_mi prod_ms max limit stream, true, lso).
Proof.
  destruct (Chunker.C08_tiling bs stream) as (W & E).
  exact (reader_spec prod_mi prod_ms max limit (chunks_of bs stream) stream W E).
Qed.

(* the same for arbitrary codec limits and for any chunk sequence that tiles the stream *)
Theorem C06_reader_spec_general mi ms max limit cs s : wf 0 false cs -> bytes cs = s ->
  exists l, all_records mi ms max limit (S (length cs)) cs 0 = (spec_records mi ms max limit s, true, l).
Proof. exact (reader_spec mi ms max limit cs s). Qed.

(* which segments are records is decided by the format alone (C07's decode_ref) *)
Theorem C06_emit_is_format seg : emit prod_mi prod_ms 18446744073709551615%N seg = 
  match decode_ref prod_mi prod_ms seg with
  | Some m => if (N.of_nat (length m) <=? 18446744073709551615%N)%N then Some m else None
  | None => None
  end.
Proof. unfold emit, decode_seg. rewrite <- decoder_exact. unfold accept. destruct (run _ _ DInit seg) as [[st out]|]; reflexivity. Qed.

(* resynchronisation: a valid record delimited by FE FD is returned intact whatever surrounds it *)
Theorem C06_valid_record_survives (max limit : N) junk1 junk2 m :
  (N.of_nat (length m) <= max)%N ->
  (N.of_nat (length junk1 + 2 + length (encode_ref prod_mi prod_ms m)) < limit)%N ->
  In (m, length junk1 + 2, length junk1 + 2 + length (encode_ref prod_mi prod_ms m))
     (spec_records prod_mi prod_ms max limit (junk1 ++ FE :: FD :: encode_ref prod_mi prod_ms m ++ FE :: FD :: junk2)).
Proof. exact (valid_record_survives prod_mi prod_ms prod_mi_bounds prod_ms_bounds max limit junk1 junk2 m). Qed.

(* ---- next_record_bytes at memory level (hcobs/GeoReader.v: the chunker of hcobs/GeoChunker.v pumping into the arena of the
   reader's iovec, the decoder of hcobs/GeoDec.v on every Data chunk as anchored input, clear / drop of the iovec at
   retries) ----
   One call from any state that construction or an earlier call leaves (RState: heap, cache and iovec well formed, the
   chunker's buffer inside the chunk its anchor holds and overlapping no slice of the iovec).  `tr` is the list of chunks the
   call pumped.  Then: nothing that an in-bounds slice of the old memory reads was written; every chunk handed out still
   lies inside the chunk its anchor holds at the end; read in the final memory the chunks are successive pumps of the
   value-level chunker (to which C08 applies); the state after a call that returned is again an RState; and the call
   returns what the value-level reader (to which C06_reader_spec_general applies) returns on those chunks -- for a record,
   with the same range, and the bytes of the iovec handed out are exactly the record. *)
From WP Require iovec.Geo hcobs.GeoChunker hcobs.GeoReader hcobs.GeoReaderInv hcobs.GeoReaderProofs.
Theorem C06_geo_reader_call (mi ms : nat) (max limit : N) (bs fuel : nat) h r o h' r' tr :
  GeoReaderProofs.RState h r ->
  GeoReader.gnext_record mi ms max limit bs fuel h r = (o, h', r', tr) ->
  GeoReaderInv.FR h h' /\ Forall (GeoChunker.chunk_ok h') tr /\
  GeoReaderProofs.Pumps bs (GeoChunker.abs_st h (GeoReader.rchunker r)) (map (GeoChunker.abs_chunk h') tr)
                           (GeoChunker.abs_st h' (GeoReader.rchunker r')) /\
  (o <> GeoReader.GPanic -> o <> GeoReader.GFuel -> GeoReaderProofs.RState h' r') /\
  forall rst,
    let res := next_record mi ms max limit (map (GeoChunker.abs_chunk h') tr ++ rst) LSkipSentinel 0 0 (GeoReader.rlso r) in
    match o with
    | GeoReader.GRecord rs re => exists out rst', res = (ORecord (out, rs, re), rst', GeoReader.rlso r') /\
                                                  Geo.all_bytes h' (GeoReader.riov r') = out
    | GeoReader.GNone => exists rst', res = (ONone, rst', GeoReader.rlso r')
    | _ => True
    end.
Proof.
  intros S E. pose proof (GeoReaderProofs.greader_call mi ms max limit bs fuel h r S) as H. rewrite E in H.
  destruct H as (A & B & C & D & P). split; [exact A|]. split; [exact B|]. split; [exact C|]. split.
  - intros Hp Hf. exact (GeoReaderProofs.greader_next_state mi ms max limit bs fuel h r o h' r' tr S E Hp Hf).
  - intros rst. exact (P rst).
Qed.

(* any number of successive calls (none of which panicked or ran out of the model's fuel): the reader is again in such a
   state, nothing an in-bounds slice read at the start was written, every chunk ever handed out still lies inside the chunk
   its anchor holds, and ALL chunks pumped by all the calls, read in the final memory, are successive pumps of the value-level
   chunker from the initial state -- hence (C08_pump_spec, by induction) their bytes are exactly the bytes consumed from the stream *)
Theorem C06_geo_reader_calls (mi ms : nat) (max limit : N) (bs n fuel : nat) h r os hF rF trs :
  GeoReaderProofs.RState h r ->
  GeoReaderProofs.gcalls mi ms max limit bs n fuel h r = (os, hF, rF, trs) ->
  Forall (fun o => o <> GeoReader.GPanic /\ o <> GeoReader.GFuel) os ->
  GeoReaderProofs.RState hF rF /\ GeoReaderInv.FR h hF /\ Forall (GeoChunker.chunk_ok hF) trs /\
  GeoReaderProofs.Pumps bs (GeoChunker.abs_st h (GeoReader.rchunker r)) (map (GeoChunker.abs_chunk hF) trs)
                           (GeoChunker.abs_st hF (GeoReader.rchunker rF)) /\
  Chunker.remaining (GeoChunker.abs_st h (GeoReader.rchunker r)) =
    concat (map bytes_of (map (GeoChunker.abs_chunk hF) trs)) ++ Chunker.remaining (GeoChunker.abs_st hF (GeoReader.rchunker rF)).
Proof.
  intros S E Hok. destruct (GeoReaderProofs.greader_calls mi ms max limit bs n fuel h r os hF rF trs S E Hok) as (A & B & C & D).
  split; [exact A|]. split; [exact B|]. split; [exact C|]. split; [exact D|]. exact (GeoReaderProofs.Pumps_bytes bs _ _ _ D).
Qed.

Theorem C06_geo_reader_init stream :
  GeoReaderProofs.RState [] {| GeoReader.rchunker := {| GeoChunker.gbuf := Geo.as_default; GeoChunker.goffset := 0; GeoChunker.grest := stream |};
                               GeoReader.riov := Geo.empty_iov; GeoReader.rlso := 0 |}.
Proof. exact (GeoReaderProofs.RState_init stream). Qed.

Example C06_geo_example :
  let s := [1;97; 254;253; 2;98;99; 254;253; 254;253; 3;100;101;102;103; 254;253; 255;1; 254;253; 1;122]%N in
  match GeoReader.gnext_record prod_mi prod_ms 2%N 18446744073709551615%N 3 30 []
          {| GeoReader.rchunker := {| GeoChunker.gbuf := Geo.as_default; GeoChunker.goffset := 0; GeoChunker.grest := s |};
             GeoReader.riov := Geo.empty_iov; GeoReader.rlso := 0 |} with
  | (GeoReader.GRecord rs re, h1, r1, _) =>
    (rs, re, Geo.all_bytes h1 (GeoReader.riov r1)) = (0, 2, [97]%N) /\
    match GeoReader.gnext_record prod_mi prod_ms 2%N 18446744073709551615%N 3 30 h1 r1 with
    | (GeoReader.GRecord rs2 re2, h2, r2, _) => (rs2, re2, Geo.all_bytes h2 (GeoReader.riov r2)) = (4, 7, [98; 99]%N)
    | _ => False
    end
  | _ => False
  end.
Proof. vm_compute. split; reflexivity. Qed.

(* non-vacuity: valid, missing terminator, over-long, corrupt; limit stops before the last record *)
Example C06_example :
  let s := [1;97; 254;253; 2;98;99; 254;253; 254;253; 3;100;101;102;103; 254;253; 255;1; 254;253; 1;122]%N in
  spec_records prod_mi prod_ms 2%N 18446744073709551615%N s = [([97]%N, 0, 2); ([98;99]%N, 4, 7); ([122]%N, 22, 24)] /\
  spec_records prod_mi prod_ms 1%N 22%N s = [([97]%N, 0, 2)] /\
  fst (fst (all_records prod_mi prod_ms 2%N 18446744073709551615%N 40 (chunks_of 3 s) 0)) = [([97]%N, 0, 2); ([98;99]%N, 4, 7); ([122]%N, 22, 24)].
Proof. vm_compute. repeat split; reflexivity. Qed.

Print Assumptions C06_reader_spec.
Print Assumptions C06_reader_spec_general.
Print Assumptions C06_valid_record_survives.
Print Assumptions C06_geo_reader_call.
Print Assumptions C06_geo_reader_init.
Print Assumptions C06_geo_reader_calls.
