(* C08 - StreamChunker tiles the input stream exactly, sentinels never hidden in data. *)
From Coq Require Import List NArith Arith.
From WP Require Import iovec.Geo iovec.GeoProofs iovec.GeoAslice hcobs.GeoChunker.
From WP Require Import hcobs.Stuffing hcobs.EncChunks hcobs.EncChunksProofs hcobs.Chunker hcobs.ReaderProofs hcobs.ReaderFacts io.ReadN io.ReadNProofs.
Import ListNotations.
Open Scope nat_scope.

(* For every stream and EVERY block size (0 and 1 included) the chunk sequence returned by
   successive pumps up to Eof is well formed (`wf`: exactly one Eof, at the end; each Data is
   non-empty, FE FD-free and its offset is the absolute end of the chunk; each Sentinel advances the
   offset by two; no Data that ends in FE is followed by a Data that starts with FD) and the Data
   payloads plus FE FD for each Sentinel concatenate to the stream. *)
Theorem C08_tiling (bs : nat) (stream : list byte) :
  wf 0 false (chunks_of bs stream) /\ concat (map bytes_of (chunks_of bs stream)) = stream.
Proof. exact (Chunker.C08_tiling bs stream). Qed.

(* every FE FD found by the left-to-right scan of the stream is reported as exactly one Sentinel, at
   that position: the sentinel end offsets are the starts of the 2nd, 3rd, ... segment *)
Theorem C08_sentinels_complete (bs : nat) (stream : list byte) :
  sentinel_ends (chunks_of bs stream) = map fst (tl (segs 0 stream)).
Proof.
  destruct (Chunker.C08_tiling bs stream) as (W & E). symmetry.
  pose proof (sentinels_are_delimiters (chunks_of bs stream) 0 false [] 0 W eq_refl ltac:(congruence) eq_refl) as H.
  cbn [app] in H. unfold bytes in H. rewrite E in H. exact H.
Qed.

(* one pump, from any state *)
Theorem C08_pump_spec bs s c s' :
  pump bs s = (c, s') ->
  remaining s = bytes_of c ++ remaining s' /\
  (c = Eof -> remaining s = []) /\
  (c <> Eof -> bytes_of c <> [] /\ offset s' = offset s + length (bytes_of c) /\ chunk_off c = Some (offset s')) /\
  (forall o d, c = Data o d -> no_stuff d /\ (ends_fe d = true -> hd_fd (remaining s') = false)).
Proof. exact (pump_spec bs s c s'). Qed.

(* the refill is read_n over carry-then-reader with unbounded attempts: for every schedule of short
   reads and interrupted calls it returns the same min(wanted, offered) bytes (C17) *)
Theorem C08_refill_schedule_independent count max script stream :
  (0 < count)%N -> Forall benign script -> (N.of_nat (length script) < max)%N ->
  let o := read_n count max script stream in
  res o = ROk (N.min count (offered script)) /\ data o = firstn (N.to_nat (N.min count (offered script))) stream.
Proof. exact (read_n_benign count max script stream). Qed.

(* ---- the same pump at memory level (hcobs/GeoChunker.v over the geometry-faithful arena of iovec/Geo.v) ----
   The carried-over bytes and every Data chunk are AnchoredSlices of the caller's arena.  One pump from any state that
   meets the invariant (heap and cache well formed, carried slice inside the chunk its anchor holds) either panics in the
   arena's capacity arithmetic (None) or: changes no byte that any in-bounds slice of the old memory reads (frame), keeps
   the invariant, hands out a Data chunk that lies inside the chunk its own anchor holds, and returns exactly the chunk and
   state of the value-level pump above. *)
Theorem C08_geo_pump_refines bs h k s : CInv h k s ->
  match gpump bs h k s with
  | None => True
  | Some (h', k', c, s') =>
    frame h h' /\ length h <= length h' /\ CInv h' k' s' /\ chunk_ok h' c /\
    pump bs (abs_st h s) = (abs_chunk h' c, abs_st h' s')
  end.
Proof. exact (gpump_refines bs h k s). Qed.

(* a whole stream from a fresh arena: all chunks ever handed out, read in the FINAL memory (after every later refill),
   are still inside the chunks their anchors hold and are exactly the value-level chunk sequence, to which C08_tiling
   applies *)
Theorem C08_geo_stream bs stream hf cs : gchunks_of bs stream = Some (hf, cs) ->
  Forall (chunk_ok hf) cs /\ map (abs_chunk hf) cs = chunks_of bs stream.
Proof. exact (gchunks_of_refines bs stream hf cs). Qed.

(* ... and for block sizes below 2^62 the arena's capacity arithmetic never panics, so a pump always returns *)
Theorem C08_geo_pump_never_panics bs h k s : (N.of_nat bs + 2 <= 4611686018427387904)%N -> exists r, gpump bs h k s = Some r.
Proof. exact (gpump_no_panic bs h k s). Qed.

Example C08_geo_example :
  match gchunks_of 1 [1; 97; 254; 253; 2; 98; 99]%N with
  | Some (hf, cs) => map (abs_chunk hf) cs = [Data 2 [1; 97]%N; Sentinel 4; Data 6 [2; 98]%N; Data 7 [99]%N; Eof]
  | None => False
  end.
Proof. vm_compute. reflexivity. Qed.

(* non-vacuity: block size 1 on the stream of finding F1 (fixed by bd69bab): both sentinels reported *)
Example C08_example_block1 :
  chunks_of 1 [1; 97; 254; 253; 2; 98; 99]%N =
  [Data 2 [1; 97]%N; Sentinel 4; Data 6 [2; 98]%N; Data 7 [99]%N; Eof].
Proof. vm_compute. reflexivity. Qed.
Example C08_example_block0 : sentinel_ends (chunks_of 0 [254; 254; 253; 253; 254; 253]%N) = [3; 6].
Proof. vm_compute. reflexivity. Qed.

Print Assumptions C08_tiling.
Print Assumptions C08_sentinels_complete.
Print Assumptions C08_pump_spec.
Print Assumptions C08_refill_schedule_independent.
Print Assumptions C08_geo_pump_refines.
Print Assumptions C08_geo_stream.
Print Assumptions C08_geo_pump_never_panics.
