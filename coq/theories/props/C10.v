(* C10 - Arena memory is reclaimed: no leak after drop, bounded footprint in streaming (PARTIAL). *)
From Coq Require Import List NArith Arith.
From WPGen Require Import Params.
From WP Require Import iovec.Anchors iovec.Arena iovec.ArenaProofs.
Import ListNotations.
Open Scope nat_scope.

(* The chunk size policy (find_hint_size over the size sequence translated from the source): no
   assertion fires, the chunk covers the request, and below the 1 MiB cap each new chunk of an arena
   is strictly larger than the previous one and at most the cap -- so one arena (between two
   flushes) creates at most |sequence| chunks smaller than 1 MiB, whatever is streamed through it. *)
Theorem C10_find_hint_size (len prev : N) : (len <= USIZE_MAX)%N -> (prev <= USIZE_MAX)%N ->
  exists h, find_hint_size len prev = HOk h /\ (len <= h)%N /\
    ((len < max_seq)%N -> (h <= max_seq)%N /\ ((prev < max_seq)%N -> (prev < h)%N) /\ ((max_seq <= prev)%N -> h = max_seq)) /\
    ((max_seq <= len)%N -> (h < len + BUMP_REGION_SIZE_FACTOR)%N \/ h = USIZE_MAX).
Proof. exact (find_hint_size_spec len prev). Qed.
Theorem C10_size_constants : max_seq = 1048576%N /\ BUMP_REGION_SIZE_FACTOR = 4096%N.
Proof. destruct seq_facts as (A & B & _). split; assumption. Qed.

(* liveness is derived from holders (Arc): a chunk referenced by a remaining slice is held; once the
   deque is cleared or fully consumed no anchor -- hence no chunk -- is held by it *)
Theorem C10_live_iff_held (ops : list op) :
  let g := fold_left (fun g o => apply_op o g) ops {| slices := []; anchors := [] |} in
  forall p c, nth_error (slices g) p = Some (Some c) -> held g c.
Proof. intros g. exact (proj2 (Anchors.C05_core ops)). Qed.

Lemma drain_all : forall l, drain (total l) l = [].
Proof.
  induction l as [|a l IH]; [reflexivity|]. cbn [drain]. rewrite total_cons.
  assert (acount a <=? acount a + total l = true) as -> by (apply Nat.leb_le; apply Nat.le_add_r).
  replace (acount a + total l - acount a) with (total l) by (rewrite Nat.add_comm; symmetry; apply Nat.add_sub). exact IH.
Qed.
Theorem C10_no_leak g : Inv g -> anchors (consume (length (slices g)) g) = [] /\ anchors (apply_op OpClear g) = [].
Proof.
  intros I. split; [|reflexivity]. cbn [consume anchors]. rewrite <- (inv_total g I). apply drain_all.
Qed.

Example C10_examples :
  find_hint_size 1%N 0%N = HOk 4096%N /\ find_hint_size 1%N 4096%N = HOk 8192%N /\ find_hint_size 5000%N 0%N = HOk 8192%N /\
  find_hint_size 1%N 1048575%N = HOk 1048576%N /\ find_hint_size 4096%N 2000000%N = HOk 1048576%N /\ find_hint_size 2000000%N 4096%N = HOk 2002944%N.
Proof. vm_compute. repeat split; reflexivity. Qed.

(* ---- the geometry-faithful model: the footprint of a drained producer ----
   In every state a history of one OwningIovec reaches in iovec/Geo.v (chunks, anchors and decisions computed), once no
   slice is buffered every anchor that is left counts no slice (these are the anchors of anchored inputs that contributed
   nothing since the last consume call); and a consume call -- of any count, zero included -- that leaves no slice behind
   leaves no anchor at all: the iovec then holds at most the chunk of its allocation cache, whatever amount of data went
   through it (C10_find_hint_size bounds that chunk's capacity by max(1 MiB, the request rounded up to 4 KiB)).  This is
   the streaming footprint bound for consumers that drain everything with consume, e.g. behind a Decoder (which registers
   no placeholder); for an Encoder the slices behind the pending chunk header remain, and that part of the bound stays
   measured by the harness. *)
From WP Require iovec.Geo iovec.GeoHistory iovec.GeoFootprint.
Theorem C10_geo_drained_footprint ops h' g' xs :
  GeoHistory.g1run [] Geo.empty_iov ops = Some (h', g', xs) -> Geo.gslices g' = [] ->
  Forall (fun a => Geo.acount a = 0%N) (Geo.ganchors g').
Proof. exact (GeoFootprint.geo_drained_footprint ops h' g' xs). Qed.
Theorem C10_geo_consume_releases k g g' n : Geo.consume k g = Some (g', n) -> Geo.gslices g' = [] ->
  Geo.ganchors g' = [] /\ Geo.holders g' = match Geo.gcache_ g' with Some k => [Geo.kchunk k] | None => [] end.
Proof. exact (GeoFootprint.consume_releases k g g' n). Qed.
Example C10_geo_example :
  match GeoHistory.g1run [] Geo.empty_iov
          [GeoHistory.HPushCopy (repeat 1%N 4000); GeoHistory.HAnchored (repeat 2%N 300); GeoHistory.HPushCopy (repeat 3%N 10);
           GeoHistory.HRead 100000%N; GeoHistory.HAnchoredN [] 5000%N; GeoHistory.HPushCopy (repeat 1%N 4000); GeoHistory.HConsume 5%N] with
  | Some (h, g, _) => length h = 2 /\ Geo.gslices g = [] /\ Geo.holders g = [1]
  | None => False
  end.
Proof. vm_compute. repeat split; reflexivity. Qed.

Print Assumptions C10_find_hint_size.
Print Assumptions C10_geo_drained_footprint.
Print Assumptions C10_geo_consume_releases.
Print Assumptions C10_size_constants.
Print Assumptions C10_live_iff_held.
Print Assumptions C10_no_leak.
