(* C02 - HCOBS output never contains the stuff sequence, is split-independent, bounded. *)
From Coq Require Import List NArith Arith Lia.
From WP Require Import hcobs.Stuffing hcobs.EncChunks hcobs.EncChunksProofs hcobs.Dec hcobs.NoStuff hcobs.EncSink hcobs.EncSinkProofs hcobs.Format hcobs.FormatFacts hcobs.ParamsTie.
Import ListNotations.

Section C02.
Variables mi ms : nat.
Hypothesis Hmi : 0 < mi <= 252.
Hypothesis Hms : 0 < ms < RADIX * RADIX.

(* the complete output (drained early ++ left at finish) never contains FE FD -- in particular not
   across internal slices or across what was drained early versus late, since it is one byte string *)
Theorem C02_no_stuff ops : exists out, encoder_output mi ms ops = Ok (Some out) /\ no_stuff out.
Proof.
  exists (encode_ref mi ms (concat (pieces_of ops))). split; [exact (encoder_output_is_reference mi ms Hmi Hms ops)|].
  exact (C02_encode_ref_no_stuff mi ms Hmi Hms _).
Qed.

(* a function of the concatenated input only: not of the split into calls, nor of the drain schedule *)
Theorem C02_split_independent ops1 ops2 : concat (pieces_of ops1) = concat (pieces_of ops2) ->
  encoder_output mi ms ops1 = encoder_output mi ms ops2.
Proof. intros E. rewrite !(encoder_output_is_reference mi ms Hmi Hms), E. reflexivity. Qed.

Theorem C02_length ops : mi <= ms -> exists out, encoder_output mi ms ops = Ok (Some out) /\
  length out <= length (concat (pieces_of ops)) + 1 + 2 * ((length (concat (pieces_of ops)) + (ms - 1)) / ms).
Proof.
  intros Hle. exists (encode_ref mi ms (concat (pieces_of ops))). split; [exact (encoder_output_is_reference mi ms Hmi Hms ops)|].
  pose proof (encode_ref_length mi ms Hmi Hms (concat (pieces_of ops)) Hle) as H.
  pose proof (gfull_ceil ms mi (length (concat (pieces_of ops))) ltac:(lia) ltac:(lia)). lia.
Qed.
End C02.

(* at the production limits: len + 1 + 2 * ceil(len / 64008), 64008 being the translated constant *)
Theorem C02_length_prod ops : exists out, encoder_output prod_mi prod_ms ops = Ok (Some out) /\
  length out <= length (concat (pieces_of ops)) + 1 + 2 * ((length (concat (pieces_of ops)) + (prod_ms - 1)) / prod_ms).
Proof. exact (C02_length prod_mi prod_ms prod_mi_bounds prod_ms_bounds ops prod_mi_le_ms). Qed.
Theorem C02_prod_ms_is_64008 : WPGen.Params.PROD_MAX_SUBSEQUENT = 64008%N.
Proof. exact (proj2 tie_prod_limits). Qed.

Example C02_example : no_stuff [3; 49; 50; 254; 5; 0; 253; 49; 50; 51; 52; 2; 0; 53; 54; 1; 0; 7]%N.
Proof. reflexivity. Qed.

Print Assumptions C02_no_stuff.
Print Assumptions C02_split_independent.
Print Assumptions C02_length.
Print Assumptions C02_length_prod.
