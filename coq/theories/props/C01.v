(* C01 - HCOBS round trip: decoding an encoded message returns the original bytes. *)
From Coq Require Import List NArith Arith.
From WP Require Import hcobs.Stuffing hcobs.EncChunks hcobs.EncChunksProofs hcobs.Dec hcobs.EncSink hcobs.EncSinkProofs hcobs.Format hcobs.ParamsTie.
Import ListNotations.

(* For all limits 0 < mi <= 252, 0 < ms < 253^2: every Encoder history (any segmentation into
   calls, any input method -- byte-equivalent at this level --, consumer drains at any moment)
   trips no assertion and hands the consumer bytes which, fed to the Decoder in any segmentation,
   are accepted and decode to exactly the concatenated input. *)
Theorem C01_roundtrip (mi ms : nat) (ops : list eop) (dec_pieces : list (list byte)) :
  0 < mi <= 252 -> 0 < ms < RADIX * RADIX ->
  exists out, encoder_output mi ms ops = Ok (Some out) /\
    (concat dec_pieces = out -> decode_pieces mi ms dec_pieces = Some (concat (pieces_of ops))).
Proof.
  intros Hmi Hms. exists (encode_ref mi ms (concat (pieces_of ops))).
  split; [exact (encoder_output_is_reference mi ms Hmi Hms ops)|].
  intros E. exact (C01_byte_level mi ms Hmi Hms _ dec_pieces E).
Qed.

(* the same at the production limits read from the source *)
Theorem C01_roundtrip_prod (ops : list eop) (dec_pieces : list (list byte)) :
  exists out, encoder_output prod_mi prod_ms ops = Ok (Some out) /\
    (concat dec_pieces = out -> decode_pieces prod_mi prod_ms dec_pieces = Some (concat (pieces_of ops))).
Proof. exact (C01_roundtrip prod_mi prod_ms ops dec_pieces prod_mi_bounds prod_ms_bounds). Qed.

(* non-vacuity: FE|FD split across calls, a drain in between, a full first chunk *)
Example C01_example :
  encoder_output 3 5 [EPiece [49;50;254]%N; EDrain 1; EPiece [253]%N; EPiece [49;50;51;52;53;54;254;253;7]%N]
  = Ok (Some [3; 49; 50; 254; 5; 0; 253; 49; 50; 51; 52; 2; 0; 53; 54; 1; 0; 7]%N) /\
  decode_pieces 3 5 [[3; 49]%N; [50; 254; 5; 0; 253; 49; 50]%N; [51; 52; 2; 0; 53; 54; 1; 0; 7]%N]
  = Some [49;50;254;253;49;50;51;52;53;54;254;253;7]%N.
Proof. vm_compute. split; reflexivity. Qed.

(* ---- the same encoder at memory level (hcobs/GeoEnc.v: EncoderState writing into the geometry-faithful OwningIovec of
   iovec/Geo.v through push / push_copy / register_patch / backfill_or_panic) ----
   For every history of encode (borrowed), encode_copy and encode_read (read_n into the iovec's own arena, the anchored
   slice encoded piecewise between copies and placeholder writes into the same arena, its anchor queued) calls interleaved
   with consumer Reads: if the run returns (no arena capacity overflow), what the Reads handed out followed by the bytes left in the iovec after finish is the reference
   encoding of the concatenated input -- to which C01_byte_level applies: any segmentation of it decodes to the input. *)
From WP Require iovec.Geo hcobs.GeoEnc hcobs.GeoEncProofs.
Theorem C01_geo_encoder (mi ms : nat) ops e h g ge' h' g' out hf gf (dec_pieces : list (list byte)) :
  0 < mi <= 252 -> 0 < ms < RADIX * RADIX ->
  Forall GeoEncProofs.simple ops ->
  GeoEnc.ge_new [] Geo.empty_iov mi = Some (e, h, g) ->
  GeoEncProofs.ge_run ms e h g ops = Some (ge', h', g', out) ->
  GeoEnc.ge_terminate ge' h' g' = Some (hf, gf) ->
  out ++ Geo.all_bytes hf gf = encode_ref mi ms (concat (GeoEncProofs.gpieces ops)) /\
  (concat dec_pieces = out ++ Geo.all_bytes hf gf ->
   decode_pieces mi ms dec_pieces = Some (concat (GeoEncProofs.gpieces ops))).
Proof.
  intros Hmi Hms Hs E0 E1 E2.
  pose proof (GeoEncProofs.genc_output_is_reference mi ms Hmi Hms ops e h g ge' h' g' out hf gf Hs E0 E1 E2) as H.
  split; [exact H|]. intros E. rewrite H in E. exact (C01_byte_level mi ms Hmi Hms _ dec_pieces E).
Qed.

(* ... and the run always returns: for calls of less than 2^62 bytes each, construction, every encode / encode_copy /
   encode_read call and finish return -- no assertion of the encoder, of the iovec or of the arena fires, and
   backfill_or_panic always finds the encoder's own Backref pending with the length it registered *)
From WP Require hcobs.GeoEncNoPanic.
Theorem C01_geo_encoder_never_panics (mi ms : nat) ops :
  0 < mi <= 252 -> 0 < ms < RADIX * RADIX -> Forall GeoEncNoPanic.esmall ops ->
  exists e h g ge' h' g' out hf gf,
    GeoEnc.ge_new [] Geo.empty_iov mi = Some (e, h, g) /\ GeoEncProofs.ge_run ms e h g ops = Some (ge', h', g', out) /\
    GeoEnc.ge_terminate ge' h' g' = Some (hf, gf).
Proof. intros Hmi Hms. exact (GeoEncNoPanic.genc_never_panics mi ms Hmi Hms ops). Qed.

Example C01_geo_example :
  match GeoEnc.ge_new [] Geo.empty_iov 3 with
  | Some (e, h, g) =>
    match GeoEncProofs.ge_run 5 e h g [GeoEnc.GEBorrow [49;50;254]%N; GeoEnc.GERd 1%N; GeoEnc.GECopy [253]%N;
                                       GeoEnc.GEBorrow [49;50;51;52;53;54;254;253;7]%N] with
    | Some (ge', h', g', out) =>
      match GeoEnc.ge_terminate ge' h' g' with
      | Some (hf, gf) => out ++ Geo.all_bytes hf gf = [3; 49; 50; 254; 5; 0; 253; 49; 50; 51; 52; 2; 0; 53; 54; 1; 0; 7]%N
      | None => False
      end
    | None => False
    end
  | None => False
  end.
Proof. vm_compute. reflexivity. Qed.

Check C01_roundtrip : forall (mi ms : nat) (ops : list eop) (dec_pieces : list (list byte)),
  0 < mi <= 252 -> 0 < ms < RADIX * RADIX ->
  exists out, encoder_output mi ms ops = Ok (Some out) /\
    (concat dec_pieces = out -> decode_pieces mi ms dec_pieces = Some (concat (pieces_of ops))).
Print Assumptions C01_roundtrip.
Print Assumptions C01_roundtrip_prod.
Print Assumptions C01_geo_encoder.
Print Assumptions C01_geo_encoder_never_panics.
