(* C01 - HCOBS round trip: decoding an encoded message returns the original bytes. *)
From Coq Require Import List NArith Arith.
From WP Require Import hcobs.Stuffing hcobs.EncChunks hcobs.EncChunksProofs hcobs.Dec hcobs.EncSink hcobs.EncSinkProofs hcobs.Format hcobs.ParamsTie.
Import ListNotations.

(* For all limits 0 < mi <= 252, 0 < ms < 253^2: every Encoder history (any segmentation into
   calls, any input method -- byte-equivalent at this level --, consumer drains at any moment)
   trips no assertion and hands the consumer bytes which, fed to the Decoder in any segmentation,
   are accepted and decode to exactly the concatenated input. *)
Theorem C01_roundtrip (mi ms : nat) (ops : list eop) (dec_pieces : list (list byte)) :
  0 < mi <= 252 -> 0 < ms < RADIX * RADIX ->
  exists out, encoder_output mi ms ops = Ok (Some out) /\
    (concat dec_pieces = out -> decode_pieces mi ms dec_pieces = Some (concat (pieces_of ops))).
Proof.
  intros Hmi Hms. exists (encode_ref mi ms (concat (pieces_of ops))).
  split; [exact (encoder_output_is_reference mi ms Hmi Hms ops)|].
  intros E. exact (C01_byte_level mi ms Hmi Hms _ dec_pieces E).
Qed.

(* the same at the production limits read from the source *)
Theorem C01_roundtrip_prod (ops : list eop) (dec_pieces : list (list byte)) :
  exists out, encoder_output prod_mi prod_ms ops = Ok (Some out) /\
    (concat dec_pieces = out -> decode_pieces prod_mi prod_ms dec_pieces = Some (concat (pieces_of ops))).
Proof. exact (C01_roundtrip prod_mi prod_ms ops dec_pieces prod_mi_bounds prod_ms_bounds). Qed.

(* non-vacuity: FE|FD split across calls, a drain in between, a full first chunk *)
Example C01_example :
  encoder_output 3 5 [EPiece [49;50;254]%N; EDrain 1; EPiece [253]%N; EPiece [49;50;51;52;53;54;254;253;7]%N]
  = Ok (Some [3; 49; 50; 254; 5; 0; 253; 49; 50; 51; 52; 2; 0; 53; 54; 1; 0; 7]%N) /\
  decode_pieces 3 5 [[3; 49]%N; [50; 254; 5; 0; 253; 49; 50]%N; [51; 52; 2; 0; 53; 54; 1; 0; 7]%N]
  = Some [49;50;254;253;49;50;51;52;53;54;254;253;7]%N.
Proof. vm_compute. split; reflexivity. Qed.

Check C01_roundtrip : forall (mi ms : nat) (ops : list eop) (dec_pieces : list (list byte)),
  0 < mi <= 252 -> 0 < ms < RADIX * RADIX ->
  exists out, encoder_output mi ms ops = Ok (Some out) /\
    (concat dec_pieces = out -> decode_pieces mi ms dec_pieces = Some (concat (pieces_of ops))).
Print Assumptions C01_roundtrip.
Print Assumptions C01_roundtrip_prod.
