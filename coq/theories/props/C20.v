(* C20 - A cloned or taken OwningIovec is an independent snapshot. *)
From Coq Require Import List NArith Lia Arith.
From WP Require Import iovec.World iovec.WorldProofs2.
From WP Require iovec.Pipe iovec.PipeProofs iovec.PipeProofs4.
Import ListNotations.

(* World model: several iovecs over one mutable heap of arena chunks; slices are pointers, copies
   are written in place at the bump pointer of the writer's own allocation cache, a clone copies
   pointers and gets no cache, a backfill overwrites one of its owner's pending placeholders.
   (Borrowed slices are caller memory, immutable while borrowed: they cannot interfere.) *)
Inductive wop :=
| WPush (k : nat) (bs : list byte)                 (* push_copy; also what push / extend do when they copy *)
| WRegister (k : nat) (bs : list byte)             (* register_patch *)
| WBackfill (i c off : nat) (bs : list byte)       (* backfill_or_panic of the placeholder (i, c, off, |bs|) *)
| WShrink (k : nat) (keep : list pslice)           (* consume / advance_slices / Read / clear / drop: slices are only forgotten *)
| WClone (i : nat).

Definition state := (world * list hole)%type.
Definition is_hole_of (i c off : nat) (h : hole) : bool := let '(i', c', off', _) := h in Nat.eqb i' i && Nat.eqb c' c && Nat.eqb off' off.

Definition wstep (st : state) (o : wop) : state :=
  let '(w, hs) := st in
  match o with
  | WPush k bs => (push_copy w k bs, hs)
  | WRegister k bs => let '(c, off) := fresh_range w k bs in (push_copy w k bs, hs ++ [(k, c, off, length bs)])
  | WBackfill i c off bs => (backfill w c off bs, filter (fun h => negb (is_hole_of i c off h)) hs)
  | WShrink k keep => (shrink w k keep, hs)
  | WClone i => (clone w i, hs)
  end.

(* the object whose contents an operation may change *)
Definition target (o : wop) : nat :=
  match o with WPush k _ | WRegister k _ | WShrink k _ => k | WBackfill i _ _ _ => i | WClone i => i end.

Definition valid (st : state) (o : wop) : Prop :=
  let '(w, hs) := st in
  match o with
  | WPush k bs => (exists ok, nth_error (objs w) k = Some ok) /\ length bs <= CAP
  | WRegister k bs => (exists ok, nth_error (objs w) k = Some ok) /\ length bs <= CAP /\ bs <> []
  | WBackfill i c off bs => In (i, c, off, length bs) hs
  | WShrink k keep => exists ok, nth_error (objs w) k = Some ok /\ (forall s, In s keep -> In s (osl ok)) /\
        (forall c off len, In (k, c, off, len) hs -> exists s, In s keep /\ pc s = c /\ poff s <= off /\ off + len <= poff s + plen s)
  | WClone i => (exists oi, nth_error (objs w) i = Some oi) /\ (forall c off len, ~ In (i, c, off, len) hs)
  end.

Definition Good (st : state) : Prop :=
  WI (fst st) /\ HI (fst st) (snd st) /\ (forall i c off len, In (i, c, off, len) (snd st) -> i < length (objs (fst st))).

Lemma objs_length_set w k o h : length (objs (set_obj w k o h)) = length (objs w).
Proof. unfold set_obj. cbn [objs]. apply length_update_nth. Qed.
Lemma push_copy_objs_length w k bs : length (objs (push_copy w k bs)) = length (objs w).
Proof.
  unfold push_copy. destruct (nth_error (objs w) k) as [o|]; [|reflexivity].
  destruct (ocache o) as [[c b]|]; [destruct (_ <=? _)|]; apply objs_length_set.
Qed.

(* one step: everything not targeted is untouched, and the invariants survive *)
Theorem C20_step st o : Good st -> valid st o ->
  Good (wstep st o) /\
  forall j oj, j <> target o -> nth_error (objs (fst st)) j = Some oj ->
    nth_error (objs (fst (wstep st o))) j = Some oj /\ bytes_of (fst (wstep st o)) oj = bytes_of (fst st) oj.
Proof.
  destruct st as [w hs]. intros (I & H & R) V. unfold Good. cbn [fst snd] in *. destruct o as [k bs|k bs|i c off bs|k keep|i]; cbn [wstep valid target] in *.
  - destruct V as ((ok & Hk) & Hcap). cbn [fst snd]. split; [split; [|split]|].
    + eapply push_copy_WI; eauto.
    + eapply push_copy_HI; eauto.
    + intros i c off len Hin. rewrite push_copy_objs_length. eauto.
    + intros j oj Hne Hj. destruct (push_copy_frame w k ok bs I Hk) as (F & _). exact (F j oj Hne Hj).
  - destruct V as ((ok & Hk) & Hcap & Hne). pose proof (register_HI w hs k ok bs I H Hk Hne) as RH.
    destruct (fresh_range w k bs) as [c off]. cbn [fst snd]. split; [split; [|split]|].
    + eapply push_copy_WI; eauto.
    + exact RH.
    + intros i c' off' len Hin. rewrite push_copy_objs_length. apply in_app_or in Hin as [Hin|[Hin|[]]]; [eauto|].
      inversion Hin; subst. apply nth_error_Some. congruence.
    + intros j oj Hnj Hj. destruct (push_copy_frame w k ok bs I Hk) as (F & _). exact (F j oj Hnj Hj).
  - destruct (backfill_frame w hs i c off bs I H V) as (I' & Eo & F & H'). cbn [fst snd]. split; [split; [|split]|].
    + exact I'.
    + exact H'.
    + intros i0 c0 off0 len0 Hin. apply filter_In in Hin as (Hin & _). rewrite Eo. eauto.
    + intros j oj Hne Hj. rewrite Eo. split; [exact Hj|exact (F j oj Hne Hj)].
  - destruct V as (ok & Hk & Hsub & Hkeep). destruct (shrink_frame w hs k ok keep I H Hk Hsub Hkeep) as (I' & H' & Eh & F).
    cbn [fst snd]. split; [split; [|split]|].
    + exact I'.
    + exact H'.
    + intros i c off len Hin. unfold shrink. rewrite Hk. rewrite objs_length_set. eauto.
    + intros j oj Hne Hj. exact (F j oj Hne Hj).
  - destruct V as ((oi & Hi) & Hnone). destruct (clone_spec w i oi I Hi) as (I' & Hnew & Hb & F). cbn [fst snd]. split; [split; [|split]|].
    + exact I'.
    + eapply clone_HI; eauto.
    + intros i0 c off len Hin. unfold clone. rewrite Hi. cbn [objs]. rewrite app_length. specialize (R i0 c off len Hin). cbn [length]. lia.
    + intros j oj _ Hj. exact (F j oj Hj).
Qed.

(* histories *)
Fixpoint wrun (st : state) (ops : list wop) : state := match ops with [] => st | o :: r => wrun (wstep st o) r end.
Fixpoint all_valid (st : state) (ops : list wop) : Prop :=
  match ops with [] => True | o :: r => valid st o /\ all_valid (wstep st o) r end.

Theorem C20_history : forall ops st j oj, Good st -> all_valid st ops -> (forall o, In o ops -> target o <> j) ->
  nth_error (objs (fst st)) j = Some oj ->
  Good (wrun st ops) /\ nth_error (objs (fst (wrun st ops))) j = Some oj /\ bytes_of (fst (wrun st ops)) oj = bytes_of (fst st) oj.
Proof.
  induction ops as [|o r IH]; intros st j oj G V T Hj; cbn [wrun all_valid] in *; [auto|].
  destruct V as (Vo & Vr). destruct (C20_step st o G Vo) as (G' & F).
  destruct (F j oj ltac:(intros E; apply (T o); [now left|now symmetry]) Hj) as (Hj' & Hb').
  destruct (IH (wstep st o) j oj G' Vr ltac:(intros o' Ho'; apply T; now right) Hj') as (G'' & Hj'' & Hb''). rewrite Hb'' . auto.
Qed.

(* Cloning an iovec with no placeholder pending yields a second pipe holding exactly the same
   bytes; afterwards every history of operations on the original and on any other object (pushes
   that extend or merge slices in place, placeholder registration and backfill, consumption,
   clear, drop, further clones) leaves the clone's contents unchanged and its slices valid -- and
   symmetrically every history on the clone leaves the original unchanged. *)
Theorem C20_clone_independent st i oi : Good st -> nth_error (objs (fst st)) i = Some oi ->
  (forall c off len, ~ In (i, c, off, len) (snd st)) ->
  let st1 := wstep st (WClone i) in
  let j := length (objs (fst st)) in
  let oj := {| osl := osl oi; ocache := None |} in
  Good st1 /\ nth_error (objs (fst st1)) j = Some oj /\ bytes_of (fst st1) oj = bytes_of (fst st) oi /\
  nth_error (objs (fst st1)) i = Some oi /\ bytes_of (fst st1) oi = bytes_of (fst st) oi /\
  (forall ops, all_valid st1 ops -> (forall o, In o ops -> target o <> j) ->
     Good (wrun st1 ops) /\ nth_error (objs (fst (wrun st1 ops))) j = Some oj /\ bytes_of (fst (wrun st1 ops)) oj = bytes_of (fst st) oi) /\
  (forall ops, all_valid st1 ops -> (forall o, In o ops -> target o <> i) ->
     Good (wrun st1 ops) /\ nth_error (objs (fst (wrun st1 ops))) i = Some oi /\ bytes_of (fst (wrun st1 ops)) oi = bytes_of (fst st) oi).
Proof.
  intros G Hi Hnone st1 j oj. destruct st as [w hs]. cbn [fst snd] in *.
  assert (V : valid (w, hs) (WClone i)) by (cbn; eauto).
  destruct (C20_step (w, hs) (WClone i) G V) as (G1 & _). fold st1 in G1.
  destruct G as (I & H & R). destruct (clone_spec w i oi I Hi) as (_ & Hnew & Hb & F).
  assert (E1 : fst st1 = clone w i) by reflexivity. destruct (F i oi Hi) as (Hi1 & Hbi).
  split; [exact G1|]. split; [rewrite E1; exact Hnew|]. split; [rewrite E1; exact Hb|]. split; [rewrite E1; exact Hi1|]. split; [rewrite E1; exact Hbi|].
  split; intros ops Vs T.
  - destruct (C20_history ops st1 j oj G1 Vs T ltac:(rewrite E1; exact Hnew)) as (A & B & C). rewrite C, E1. auto.
  - destruct (C20_history ops st1 i oi G1 Vs T ltac:(rewrite E1; exact Hi1)) as (A & B & C). rewrite C, E1. auto.
Qed.

(* take(): the returned value is the whole state (buffered cells, pending placeholders and the
   table that lets them be backfilled); what is left behind is a fresh, empty, usable iovec *)
Definition take (s : Pipe.st) : Pipe.st * Pipe.st := (s, Pipe.empty_st).
Theorem C20_take s : PipeProofs.Inv s ->
  Pipe.abs (fst (take s)) = Pipe.abs s /\ Pipe.table (fst (take s)) = Pipe.table s /\ PipeProofs.Inv (fst (take s)) /\
  Pipe.abs (snd (take s)) = [] /\ PipeProofs.Inv (snd (take s)).
Proof. intros I. unfold take. cbn [fst snd]. split; [reflexivity|]. split; [reflexivity|]. split; [exact I|]. split; [reflexivity|exact PipeProofs4.Inv_empty]. Qed.

(* non-vacuity: the original keeps writing into the shared chunk (a merge and a placeholder that is
   then backfilled); the clone still reads its three bytes *)
Example C20_example :
  let w0 := {| heap := []; objs := [{| osl := []; ocache := None |}] |} in
  let st1 := wrun (w0, []) [WPush 0 [1;2;3]%N; WClone 0; WPush 0 [4]%N; WRegister 0 [0;0]%N; WBackfill 0 0 4 [8;9]%N] in
  option_map (bytes_of (fst st1)) (nth_error (objs (fst st1)) 0) = Some [1;2;3;4;8;9]%N /\
  option_map (bytes_of (fst st1)) (nth_error (objs (fst st1)) 1) = Some [1;2;3]%N /\ snd st1 = [].
Proof. vm_compute. repeat split; reflexivity. Qed.

(* ---- the geometry-faithful model ----
   iovec/GeoWorld.v: any number of OwningIovecs of iovec/Geo.v (slices as pointers, chunks, caches, anchors, pending
   backrefs; every decision computed as in the source) over one heap, with every operation of GeoHistory.g1op on any object,
   clone (of an object with no pending placeholder: the property's precondition), take, drop and new.  Every step keeps the
   world invariant (each object good; allocation caches on distinct chunks; every pending placeholder of one object disjoint
   from every slice of every other object) and leaves every object it does not target exactly as it was, reading the same
   bytes.  Hence a clone holds the bytes the original held at that moment, and afterwards operations on the original (or on
   anything else) never change the clone, nor operations on the clone the original; take() moves the entire state. *)
From WP Require iovec.Geo iovec.GeoHistory iovec.GeoWorld.
Theorem C20_geo_step w op w' :
  GeoWorld.WInv w -> GeoWorld.wstep w op = Some w' ->
  GeoWorld.WInv w' /\
  forall j gj, ~ GeoWorld.targets op j -> GeoWorld.wo w j = Some gj ->
    GeoWorld.wo w' j = Some gj /\ Geo.all_bytes (GeoWorld.wh w') gj = Geo.all_bytes (GeoWorld.wh w) gj.
Proof. exact (GeoWorld.wstep_independent w op w'). Qed.
Theorem C20_geo_history ops w w' :
  GeoWorld.WInv w -> GeoWorld.wrun w ops = Some w' ->
  GeoWorld.WInv w' /\
  forall j gj, (forall op, In op ops -> ~ GeoWorld.targets op j) -> GeoWorld.wo w j = Some gj ->
    GeoWorld.wo w' j = Some gj /\ Geo.all_bytes (GeoWorld.wh w') gj = Geo.all_bytes (GeoWorld.wh w) gj.
Proof. exact (GeoWorld.wrun_independent ops w w'). Qed.
Theorem C20_geo_clone w i j g w1 ops w' :
  GeoWorld.WInv w -> GeoWorld.wo w i = Some g -> GeoWorld.wstep w (GeoWorld.WClone i j) = Some w1 ->
  GeoWorld.wo w1 j = Some (Geo.clone g) /\ Geo.all_bytes (GeoWorld.wh w1) (Geo.clone g) = Geo.all_bytes (GeoWorld.wh w) g /\
  GeoWorld.wo w1 i = Some g /\
  (GeoWorld.wrun w1 ops = Some w' ->
   ((forall op, In op ops -> ~ GeoWorld.targets op j) ->
      GeoWorld.wo w' j = Some (Geo.clone g) /\ Geo.all_bytes (GeoWorld.wh w') (Geo.clone g) = Geo.all_bytes (GeoWorld.wh w) g) /\
   ((forall op, In op ops -> ~ GeoWorld.targets op i) ->
      GeoWorld.wo w' i = Some g /\ Geo.all_bytes (GeoWorld.wh w') g = Geo.all_bytes (GeoWorld.wh w) g)).
Proof. exact (GeoWorld.clone_snapshot_independent w i j g w1 ops w'). Qed.
Theorem C20_geo_take w i j g w1 : GeoWorld.wo w i = Some g -> GeoWorld.wstep w (GeoWorld.WTake i j) = Some w1 ->
  GeoWorld.wo w1 j = Some g /\ GeoWorld.wo w1 i = Some Geo.empty_iov /\ GeoWorld.wh w1 = GeoWorld.wh w.
Proof. exact (GeoWorld.take_moves w i j g w1). Qed.
Theorem C20_geo_init : GeoWorld.WInv {| GeoWorld.wh := []; GeoWorld.wo := fun _ => None |}.
Proof. exact GeoWorld.WInv_init. Qed.

(* non-vacuity: the original keeps writing into the shared chunk (merged copies, a placeholder registered after the clone
   and backfilled), the clone pushes into a chunk of its own; each still reads its own bytes *)
Example C20_geo_example :
  let b := {| Geo.bend := 6; Geo.bidx := 0; Geo.bbegin := 4; Geo.blen := 2 |}%N in
  match GeoWorld.wrun {| GeoWorld.wh := []; GeoWorld.wo := fun _ => None |}
          [GeoWorld.WNew 0; GeoWorld.WOp 0 (GeoHistory.HPushCopy [1;2;3]%N); GeoWorld.WClone 0 1;
           GeoWorld.WOp 0 (GeoHistory.HPushCopy [4]%N); GeoWorld.WOp 0 (GeoHistory.HRegister [0;0]%N);
           GeoWorld.WOp 1 (GeoHistory.HPushCopy [7;7]%N); GeoWorld.WOp 0 (GeoHistory.HBackfill (Some b) [8;9]%N)] with
  | Some w => option_map (Geo.all_bytes (GeoWorld.wh w)) (GeoWorld.wo w 0) = Some [1;2;3;4;8;9]%N /\
              option_map (Geo.all_bytes (GeoWorld.wh w)) (GeoWorld.wo w 1) = Some [1;2;3;7;7]%N /\ length (GeoWorld.wh w) = 2
  | None => False
  end.
Proof. vm_compute. repeat split; reflexivity. Qed.

Print Assumptions C20_step.
Print Assumptions C20_geo_step.
Print Assumptions C20_geo_history.
Print Assumptions C20_geo_clone.
Print Assumptions C20_geo_take.
Print Assumptions C20_history.
Print Assumptions C20_clone_independent.
Print Assumptions C20_take.
