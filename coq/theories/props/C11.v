(* C11 - Rough TLV round trip and layout: encode then view yields the same pairs. *)
From Coq Require Import List NArith Permutation.
From WP Require Import tlv.View tlv.ViewProofs tlv.Wrapper tlv.WrapperProofs.
Import ListNotations.
Open Scope N_scope.

(* MessageWrapper accepts a list exactly when its pair count, every single value length and its
   total encoded length are within i32::MAX; the stored length is what the layout needs.
   (lens = the values' rough_tlv_len, in any order: all three conditions are symmetric.) *)
Theorem C11_accepts_iff (lens : list N) (n : N) :
  compute_len lens = inr n <->
  (lenN lens <= 2147483647 /\ Forall (fun l => l <= 2147483647) lens /\
   4 + 4 * (lenN lens - 1) + 4 * lenN lens + fold_right N.add 0 lens <= 2147483647 /\
   n = 4 + 4 * (lenN lens - 1) + 4 * lenN lens + fold_right N.add 0 lens).
Proof. exact (compute_len_accepts lens n). Qed.

(* new / new_from_slice accept iff compute_len accepts; new_from_sorted additionally rejects exactly
   the lists whose tags decrease somewhere; the entries are then encoded in stable tag order *)
Theorem C11_wrap (V : Type) (vlen : V -> N) (c : ctor) (es : list (N * V)) :
  match c with
  | NewFromSorted =>
      (exists n, wrap vlen c es = inr (n, es)) <->
      (sorted es /\ exists n, compute_len (map (fun e => vlen (snd e)) es) = inr n)
  | _ =>
      (exists n, wrap vlen c es = inr (n, sort es)) <->
      (exists n, compute_len (map (fun e => vlen (snd e)) (sort es)) = inr n)
  end.
Proof.
  destruct c; cbn [wrap].
  1,2: split; [intros (n & H); destruct (compute_len _) as [e|m]; [discriminate|eauto]
              |intros (n & H); rewrite H; eauto].
  destruct (tags_decrease es) eqn:E.
  - split; [intros (n & H); discriminate|]. intros (S & _). apply (tags_decrease_false V) in S. congruence.
  - apply (tags_decrease_false V) in E. split.
    + intros (n & H). split; [exact E|]. destruct (compute_len _) as [e|m]; [discriminate|eauto].
    + intros (_ & n & H). rewrite H. eauto.
Qed.

(* the stable sort: a permutation, ascending tags, ties in insertion order; identity on sorted input *)
Theorem C11_sort (V : Type) (es : list (N * V)) :
  Permutation (sort es) es /\ sorted (sort es) /\
  (forall t, filter (fun e => fst e =? t) (sort es) = filter (fun e => fst e =? t) es) /\
  (sorted es -> sort es = es).
Proof.
  split; [apply sort_perm|]. split; [apply sort_sorted|]. split; [intros t; apply sort_stable|apply sort_sorted_id].
Qed.

(* once constructed, encode trips no assertion and writes exactly the Roughtime layout; the number
   of bytes written is rough_tlv_len *)
Theorem C11_encode_is_layout (es : list entry) (n : N) :
  compute_len (lens_of es) = inr n -> encode es = Ok (layout es) /\ lenN (layout es) = n.
Proof.
  intros H. split; [exact (encode_is_layout es n H)|].
  exact (encode_length es n (layout es) H (encode_is_layout es n H)).
Qed.

(* MessageView accepts the emitted bytes and returns the same pairs in the same order through
   iteration, indexing and tag lookup (tags are u32) *)
Theorem C11_view_round_trip (es : list entry) (n : N) :
  compute_len (lens_of es) = inr n -> sorted es -> Forall (fun e => fst e < 4294967296) es ->
  view_new (layout es) = Ok None /\ iter (layout es) = Ok es /\
  (forall i, get (layout es) i = Ok (nthN es i)) /\
  (forall t j, bsearch_ok (map fst es) t j ->
     match j with
     | Some j => exists v, find (layout es) (Some j) = Ok (Some v) /\ nthN es j = Some (t, v)
     | None => find (layout es) None = Ok None /\ ~ In t (map fst es)
     end).
Proof. exact (view_round_trip es n). Qed.

(* values that are themselves messages *)
Theorem C11_nested_len ps n :
  compute_len (lens_of (sort (map (fun p => (fst p, vbytes (snd p))) ps))) = inr n -> lenN (vbytes (VMsg ps)) = n.
Proof. exact (nested_value_len ps n). Qed.

(* non-vacuity: unsorted input with a repeated tag, an empty value and a nested message *)
Example C11_example :
  let inner := VMsg [(2, VBytes [9]); (1, VBytes [])] in
  let es := map (fun p => (fst p, vbytes (snd p))) [(7, VBytes [1;2]); (3, inner); (7, VBytes []); (3, VBytes [5])] in
  wrap (@lenN N) New es = inr (52, [(3, vbytes inner); (3, [5]); (7, [1;2]); (7, [])]) /\
  encode (sort es) = Ok (layout (sort es)) /\ iter (layout (sort es)) = Ok (sort es).
Proof. vm_compute. repeat split; reflexivity. Qed.
Example C11_limit_examples :
  compute_len [2147483639] = inr 2147483647 /\ compute_len [2147483640] = inl TotalTooLarge /\
  compute_len [1; 2147483648] = inl ValueTooLarge /\ compute_len [18446744073709551615; 18446744073709551615] = inl ValueTooLarge.
Proof. vm_compute. repeat split; reflexivity. Qed.

Check C11_accepts_iff.
Print Assumptions C11_accepts_iff.
Print Assumptions C11_wrap.
Print Assumptions C11_sort.
Print Assumptions C11_encode_is_layout.
Print Assumptions C11_view_round_trip.
Print Assumptions C11_nested_len.
