(* C17: faithful model of ByteArena::read_n / read_n_impl (owning_iovec/src/byte_arena/mod.rs) as a
   function of a reader script.  The reader is the environment: each call either delivers some
   bytes (at most what was asked; a reader never returns more than the buffer it was given),
   is interrupted, reports end of file, or fails with a non-interrupt error.  An exhausted script
   behaves as end of file.  No proofs here. *)
From Coq Require Import List NArith Bool.
Import ListNotations.
Open Scope N_scope.

Inductive ev := Deliver (k : N) | Interrupted | EofEv | Fail (e : N).
Inductive err := EIntr | EOther (e : N).
Inductive result := ROk (got : N) | RErr (e : err).

(* the `for _ in 0..max_attempts` loop of read_n_impl; structural on the script (every iteration
   makes one reader call), `attempts` counts down *)
Fixpoint loop (script : list ev) (attempts count got : N) (last : option err)
  : N * option err * list N * list ev :=
  if attempts =? 0 then (got, last, [], [])
  else
    let req := count - got in
    match script with
    | [] => (got, None, [req], [EofEv])
    | e :: script' =>
      match e with
      | Deliver 0 | EofEv => (got, None, [req], [e])                         (* Ok(0): err = None; break *)
      | Deliver k =>
        let d := N.min k req in
        let got' := got + d in
        if got' =? count then (got', last, [req], [e])                        (* got == slice.len(): break *)
        else let '(g, l, cs, us) := loop script' (attempts - 1) count got' last in (g, l, req :: cs, e :: us)
      | Interrupted =>
        let '(g, l, cs, us) := loop script' (attempts - 1) count got (Some EIntr) in (g, l, req :: cs, e :: us)
      | Fail x => (got, Some (EOther x), [req], [e])                          (* first real error: break *)
      end
    end.

Record out := { res : result; data : list N; calls : list N; used : list ev }.

(* read_n: count == 0 returns the empty slice without touching the reader; otherwise the bytes
   delivered are the next `got` bytes of the reader's stream *)
Definition read_n (count max : N) (script : list ev) (stream : list N) : out :=
  if count =? 0 then {| res := ROk 0; data := []; calls := []; used := [] |}
  else let '(g, l, cs, us) := loop script max count 0 None in
       match g, l with
       | 0, Some e => {| res := RErr e; data := []; calls := cs; used := us |}
       | _, _ => {| res := ROk g; data := firstn (N.to_nat g) stream; calls := cs; used := us |}
       end.

(* what the reader handed over in one event, given how much was asked *)
Definition delivered (e : ev) (req : N) : N := match e with Deliver k => N.min k req | _ => 0 end.
Definition is_stop (e : ev) : bool := match e with EofEv | Fail _ | Deliver 0 => true | _ => false end.
Definition ev_err (e : ev) : option err := match e with Interrupted => Some EIntr | Fail x => Some (EOther x) | _ => None end.
(* error state after consuming events: EOF clears it, errors replace it, deliveries keep it *)
Fixpoint err_after (l0 : option err) (us : list ev) : option err :=
  match us with
  | [] => l0
  | EofEv :: t | Deliver 0 :: t => err_after None t
  | Deliver _ :: t => err_after l0 t
  | e :: t => err_after (ev_err e) t
  end.
