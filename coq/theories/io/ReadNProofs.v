From Coq Require Import List NArith ZArith Bool Lia ZifyBool ZifyNat ZifyN.
From WP Require Import io.ReadN.
Import ListNotations.
Open Scope N_scope.

Definition sumN (l : list N) : N := fold_right N.add 0 l.
(* total handed over by the events, given the request made at each call *)
Fixpoint total_delivered (us : list ev) (cs : list N) : N :=
  match us, cs with e :: us', c :: cs' => delivered e c + total_delivered us' cs' | _, _ => 0 end.
(* request i = count - bytes handed over before call i *)
Fixpoint requests_ok (count got : N) (us : list ev) (cs : list N) : Prop :=
  match us, cs with
  | e :: us', c :: cs' => c = count - got /\ requests_ok count (got + delivered e c) us' cs'
  | [], [] => True
  | _, _ => False
  end.

Lemma loop_spec : forall script attempts count got l0 g l cs us,
  got < count -> loop script attempts count got l0 = (g, l, cs, us) ->
  N.of_nat (length cs) <= attempts /\ length us = length cs /\
  got <= g <= count /\
  Forall (fun r => 1 <= r <= count) cs /\
  requests_ok count got us cs /\ g = got + total_delivered us cs /\
  Forall (fun e => is_stop e = false) (removelast us) /\
  l = err_after l0 us /\
  (g = got -> Forall (fun e => match e with Deliver (N.pos _) => False | _ => True end) us) /\
  (g = count \/ N.of_nat (length cs) = attempts \/ exists e, last us Interrupted = e /\ is_stop e = true).
Proof.
  induction script as [|e script' IH]; intros attempts count got l0 g l cs us Hlt H; cbn [loop] in H;
    destruct (attempts =? 0) eqn:EA.
  1,3: apply N.eqb_eq in EA; inversion H; subst; cbn; repeat split; auto; try lia.
  - apply N.eqb_neq in EA. inversion H; subst. cbn [length removelast err_after last total_delivered requests_ok delivered].
    repeat split; auto; try lia; try (apply Forall_cons; [lia|apply Forall_nil]); try (apply Forall_cons; [auto|apply Forall_nil]); try apply Forall_nil.
    right. right. eexists; split; reflexivity.
  - apply N.eqb_neq in EA. destruct e as [k| | |x].
    + destruct k as [|p].
      { inversion H; subst. cbn [length removelast err_after last total_delivered requests_ok delivered].
        repeat split; auto; try lia; try (apply Forall_cons; [lia|apply Forall_nil]); try (apply Forall_cons; [auto|apply Forall_nil]); try apply Forall_nil.
        right. right. eexists; split; reflexivity. }
      set (k := N.pos p) in *. set (d := N.min k (count - got)) in *.
      assert (Hd : 1 <= d <= count - got) by (unfold d, k; lia).
      destruct (got + d =? count) eqn:Efull.
      * apply N.eqb_eq in Efull. inversion H; subst g l cs us.
        cbn [length removelast err_after last total_delivered requests_ok delivered]. fold k. fold d.
        repeat split; auto; try lia; try (apply Forall_cons; [lia|apply Forall_nil]); try (apply Forall_cons; [auto|apply Forall_nil]); try apply Forall_nil.
        all: try (intros Hg; lia).
      * apply N.eqb_neq in Efull.
        destruct (loop script' (attempts - 1) count (got + d) l0) as [[[g1 l1] cs1] us1] eqn:L.
        inversion H; subst g1 l1 cs us.
        destruct (IH (attempts - 1) count (got + d) l0 g l cs1 us1 ltac:(lia) L) as (A & B & C & D & R & T & E & F & G & St).
        cbn [length err_after total_delivered requests_ok delivered]. fold k. fold d.
        split; [lia|]. split; [lia|]. split; [lia|]. split; [constructor; [lia|exact D]|].
        split; [split; [reflexivity|exact R]|]. split; [lia|].
        split. { destruct us1; [constructor|]. cbn [removelast]. constructor; [reflexivity|exact E]. }
        split; [exact F|]. split; [intros; lia|].
        destruct St as [St|[St|(e & S1 & S2)]]; [left; exact St|right; left; lia|right; right].
        exists e. split; auto. destruct us1 as [|u us1']; [cbn in S1; subst e; discriminate|exact S1].
    + destruct (loop script' (attempts - 1) count got (Some EIntr)) as [[[g1 l1] cs1] us1] eqn:L.
      inversion H; subst g1 l1 cs us.
      destruct (IH (attempts - 1) count got (Some EIntr) g l cs1 us1 Hlt L) as (A & B & C & D & R & T & E & F & G & St).
      cbn [length err_after ev_err total_delivered requests_ok delivered].
      split; [lia|]. split; [lia|]. split; [lia|]. split; [constructor; [lia|exact D]|].
      split; [split; [reflexivity|replace (got + 0) with got by lia; exact R]|]. split; [lia|].
      split. { destruct us1; [constructor|]. cbn [removelast]. constructor; [reflexivity|exact E]. }
      split; [exact F|]. split; [intros Hg; constructor; auto|].
      destruct St as [St|[St|(e & S1 & S2)]]; [left; exact St|right; left; lia|right; right].
      exists e. split; auto. destruct us1 as [|u us1']; [cbn in S1; subst e; discriminate|exact S1].
    + inversion H; subst. cbn [length removelast err_after last total_delivered requests_ok delivered].
      repeat split; auto; try lia; try (apply Forall_cons; [lia|apply Forall_nil]); try (apply Forall_cons; [auto|apply Forall_nil]); try apply Forall_nil.
      right. right. eexists; split; reflexivity.
    + inversion H; subst. cbn [length removelast err_after last ev_err total_delivered requests_ok delivered].
      repeat split; auto; try lia; try (apply Forall_cons; [lia|apply Forall_nil]); try (apply Forall_cons; [auto|apply Forall_nil]); try apply Forall_nil.
      right. right. eexists; split; reflexivity.
Qed.

(* ---- C17, for count > 0 ---- *)
Theorem read_n_spec count max script stream : 0 < count ->
  let o := read_n count max script stream in
  (* at most max reader calls, one per consumed event *)
  N.of_nat (length (calls o)) <= max /\ length (used o) = length (calls o) /\
  (* every call asks for exactly what is still missing: never more than count in total *)
  Forall (fun r => 1 <= r <= count) (calls o) /\ requests_ok count 0 (used o) (calls o) /\
  (* it stops at the first end of file or non-interrupt error *)
  Forall (fun e => is_stop e = false) (removelast (used o)) /\
  match res o with
  | ROk g => g = total_delivered (used o) (calls o) /\ g <= count /\
             data o = firstn (N.to_nat g) stream /\
             (g = 0 -> err_after None (used o) = None)
  | RErr e => total_delivered (used o) (calls o) = 0 /\ err_after None (used o) = Some e /\ data o = []
  end.
Proof.
  intros Hc. unfold read_n. assert (count =? 0 = false) as -> by lia.
  destruct (loop script max count 0 None) as [[[g l] cs] us] eqn:L.
  destruct (loop_spec script max count 0 None g l cs us Hc L) as (A & B & C & D & R & T & E & F & G & St).
  destruct g as [|p]; [destruct l as [e|]|]; cbn [calls used res data].
  - repeat split; auto; try lia; try (now rewrite <- F).
  - repeat split; auto; try lia; try (intros _; now rewrite <- F).
  - repeat split; auto; try lia.
Qed.

(* success exactly when something was delivered or the run ended on an end of file *)
Theorem read_n_succeeds_iff count max script stream : 0 < count ->
  let o := read_n count max script stream in
  (exists g, res o = ROk g) <-> (0 < total_delivered (used o) (calls o) \/ err_after None (used o) = None).
Proof.
  intros Hc o. pose proof (read_n_spec count max script stream Hc) as H. fold o in H.
  destruct H as (_ & _ & _ & _ & _ & H). destruct (res o) as [g|e].
  - destruct H as (Hg & _ & _ & H0). split; [|eauto]. intros _. destruct (N.eq_dec g 0) as [Z|Z]; [right; auto|left; lia].
  - destruct H as (H0 & H1 & _). split; [intros (g & Hg); discriminate|]. intros [H|H]; [lia|congruence].
Qed.

Theorem read_n_count_zero max script stream :
  read_n 0 max script stream = {| res := ROk 0; data := []; calls := []; used := [] |}.
Proof. reflexivity. Qed.

(* an EOF after an interrupted call is a success with nothing read (a case no test reaches) *)
Example intr_then_eof : res (read_n 5 10 [Interrupted; EofEv] [1;2;3]) = ROk 0.
Proof. reflexivity. Qed.
Example all_intr : res (read_n 5 2 [Interrupted; Interrupted; Deliver 3] [1;2;3]) = RErr EIntr.
Proof. reflexivity. Qed.
Example partial_then_error : read_n 5 10 [Deliver 2; Fail 7] [1;2;3] = {| res := ROk 2; data := [1;2]; calls := [5;3]; used := [Deliver 2; Fail 7] |}.
Proof. reflexivity. Qed.

(* ---- schedules without hard errors (used by C08: the chunker's refill) ----
   If the reader only ever delivers (a positive number of bytes) or is interrupted, and there are
   enough attempts to exhaust the script, read_n returns min(count, everything the script would
   deliver): the result does not depend on how the deliveries are cut or where the interrupts fall. *)
Definition benign (e : ev) : Prop := e = Interrupted \/ exists p, e = Deliver (N.pos p).
Fixpoint offered (script : list ev) : N :=
  match script with [] => 0 | Deliver k :: t => k + offered t | _ :: t => offered t end.

Lemma loop_benign : forall script attempts count got l0 g l cs us,
  got < count -> Forall benign script -> N.of_nat (length script) < attempts ->
  loop script attempts count got l0 = (g, l, cs, us) -> g = N.min count (got + offered script).
Proof.
  induction script as [|e t IH]; intros attempts count got l0 g l cs us Hlt HB Ha H; cbn [loop] in H.
  - assert (attempts =? 0 = false) as E by lia. rewrite E in H. inversion H; subst. cbn [offered]. lia.
  - assert (attempts =? 0 = false) as E by (cbn [length] in Ha; lia). rewrite E in H.
    inversion HB as [|? ? Hb Ht]; subst. destruct Hb as [->|(p & ->)].
    + destruct (loop t (attempts - 1) count got (Some EIntr)) as [[[g1 l1] cs1] us1] eqn:L. inversion H; subst.
      cbn [offered]. eapply IH; [exact Hlt|exact Ht| |exact L]. cbn [length] in Ha. lia.
    + set (d := N.min (N.pos p) (count - got)) in *.
      destruct (got + d =? count) eqn:Ef.
      * apply N.eqb_eq in Ef. inversion H; subst g l cs us. cbn [offered]. unfold d in *. lia.
      * apply N.eqb_neq in Ef.
        destruct (loop t (attempts - 1) count (got + d) l0) as [[[g1 l1] cs1] us1] eqn:L. inversion H; subst g1 l1 cs us.
        cbn [offered]. assert (Hd : d = N.pos p) by (unfold d in *; lia).
        rewrite (IH (attempts - 1) count (got + d) l0 g l cs1 us1 ltac:(unfold d in *; lia) Ht ltac:(cbn [length] in Ha; lia) L).
        rewrite Hd. lia.
Qed.

Theorem read_n_benign count max script stream : 0 < count -> Forall benign script -> N.of_nat (length script) < max ->
  let o := read_n count max script stream in
  res o = ROk (N.min count (offered script)) /\ data o = firstn (N.to_nat (N.min count (offered script))) stream.
Proof.
  intros Hc HB Hm. unfold read_n. assert (count =? 0 = false) as -> by lia.
  destruct (loop script max count 0 None) as [[[g l] cs] us] eqn:L.
  pose proof (loop_benign script max count 0 None g l cs us Hc HB Hm L) as Eg. rewrite N.add_0_l in Eg.
  pose proof (loop_spec script max count 0 None g l cs us Hc L) as (_ & _ & _ & _ & _ & _ & _ & F & G & _).
  destruct g as [|p]; [destruct l as [e|]|]; cbn [res data]; rewrite <- Eg; try (split; reflexivity).
  (* nothing delivered and an error pending: only possible if the script offered nothing, and then it
     ended on the synthetic EOF, which clears the error *)
  exfalso. clear G.
  assert (Hz : forall scr att got0 l0' g' l' cs' us', Forall benign scr -> N.of_nat (length scr) < att -> got0 < count ->
               loop scr att count got0 l0' = (g', l', cs', us') -> g' = got0 -> l' = None).
  { induction scr as [|e' t' IHs]; intros att got0 l0' g' l' cs' us' HB' Ha' Hg0 HL Hg; cbn [loop] in HL.
    - assert (att =? 0 = false) as E by lia. rewrite E in HL. inversion HL; reflexivity.
    - assert (att =? 0 = false) as E by (cbn [length] in Ha'; lia). rewrite E in HL.
      inversion HB' as [|? ? Hb' Ht']; subst. destruct Hb' as [->|(p' & ->)].
      + destruct (loop t' (att - 1) count got0 (Some EIntr)) as [[[g1 l1] cs1] us1] eqn:L1. inversion HL; subst.
        eapply IHs; [exact Ht'| |exact Hg0|exact L1|reflexivity]. cbn [length] in Ha'. lia.
      + destruct (got0 + N.min (N.pos p') (count - got0) =? count) eqn:Ef.
        * apply N.eqb_eq in Ef. inversion HL; subst. exfalso. lia.
        * apply N.eqb_neq in Ef.
          destruct (loop t' (att - 1) count (got0 + N.min (N.pos p') (count - got0)) l0') as [[[g1 l1] cs1] us1] eqn:L1.
          inversion HL; subst.
          assert (Hlt2 : got0 + N.min (N.pos p') (count - got0) < count) by lia.
          pose proof (loop_spec t' (att - 1) count _ l0' _ _ cs1 us1 Hlt2 L1) as (_ & _ & Hr & _). exfalso. lia. }
  specialize (Hz script max 0 None 0 (Some e) cs us HB Hm Hc L eq_refl). discriminate.
Qed.
