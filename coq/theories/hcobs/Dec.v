From Coq Require Import List NArith Lia Bool Arith.
Import ListNotations.
From WP Require Import hcobs.Stuffing hcobs.EncChunks hcobs.EncChunksProofs.

(* ---------- framing layer of the reference encoder ---------- *)
Definition RADIX := 253.
Definition hdr (first : bool) (n : nat) : list byte :=
  if first then [N.of_nat n] else [N.of_nat (n mod RADIX); N.of_nat (n / RADIX)].
Fixpoint frame_rest (cs : list (list byte)) : list byte :=
  match cs with [] => [] | c :: t => hdr false (length c) ++ c ++ frame_rest t end.
Definition frame (cs : list (list byte)) : list byte :=
  match cs with [] => [] | c :: t => hdr true (length c) ++ c ++ frame_rest t end.
Definition encode_ref (mi ms : nat) (m : list byte) : list byte := frame (stuffN mi ms m).

(* ---------- faithful decoder (decoder.rs), one state transition per call of `decode` on a state ---------- *)
Inductive dstate :=
| DInit
| DBefore (ins : bool)            (* should_insert_stuff_sequence *)
| DMid (b0 : byte)
| DIn (remaining : nat) (term : bool).

Definition after_header (n limit : nat) : dstate :=
  if 0 <? n then DIn n (n <? limit) else DBefore (n <? limit).

(* one iteration of the `while !input.is_empty()` loop: new state, bytes consumed, bytes pushed; None = Err *)
Definition dec_once (mi ms : nat) (st : dstate) (input : list byte) : option (dstate * nat * list byte) :=
  match input with
  | [] => Some (st, 0, [])
  | b :: _ =>
    match st with
    | DInit => let n := N.to_nat b in
               if mi <? n then None else Some (after_header n mi, 1, [])
    | DBefore ins =>
        if RADIX <=? N.to_nat b then None
        else Some (DMid b, 1, if ins then [FE; FD] else [])
    | DMid b0 =>
        if RADIX <=? N.to_nat b then None
        else let n := N.to_nat b0 + N.to_nat b * RADIX in
             if ms <? n then None else Some (after_header n ms, 1, [])
    | DIn rem term =>
        let k := Nat.min (length input) rem in
        Some ((if k <? rem then DIn (rem - k) term else DBefore term), k, firstn k input)
    end
  end.

Fixpoint dec_loop (fuel : nat) (mi ms : nat) (st : dstate) (input : list byte) : option (dstate * list byte) :=
  match fuel with
  | O => Some (st, [])
  | S fuel =>
    match input with
    | [] => Some (st, [])
    | _ => match dec_once mi ms st input with
           | None => None
           | Some (st', c, out) =>
             match dec_loop fuel mi ms st' (skipn c input) with
             | None => None
             | Some (st'', out') => Some (st'', out ++ out')
             end
           end
    end
  end.
Definition decode_piece mi ms (st : dstate) (piece : list byte) := dec_loop (S (length piece)) mi ms st piece.

Fixpoint decode_pieces_from mi ms (st : dstate) (pieces : list (list byte)) : option (dstate * list byte) :=
  match pieces with
  | [] => Some (st, [])
  | p :: ps => match decode_piece mi ms st p with
               | None => None
               | Some (st', out) => match decode_pieces_from mi ms st' ps with
                                    | None => None
                                    | Some (st'', out') => Some (st'', out ++ out')
                                    end
               end
  end.
Definition dterminate (st : dstate) : bool := match st with DBefore true => true | _ => false end.
Definition decode_pieces mi ms pieces : option (list byte) :=
  match decode_pieces_from mi ms DInit pieces with
  | Some (st, out) => if dterminate st then Some out else None
  | None => None
  end.

(* ---------- byte-at-a-time semantics ---------- *)
Definition dstep (mi ms : nat) (st : dstate) (b : byte) : option (dstate * list byte) :=
  match st with
  | DIn rem term => Some ((if 1 <? rem then DIn (rem - 1) term else DBefore term), [b])
  | _ => match dec_once mi ms st [b] with Some (st', _, out) => Some (st', out) | None => None end
  end.

Fixpoint run (mi ms : nat) (st : dstate) (e : list byte) : option (dstate * list byte) :=
  match e with
  | [] => Some (st, [])
  | b :: t => match dstep mi ms st b with
              | None => None
              | Some (st', out) => match run mi ms st' t with
                                   | None => None
                                   | Some (st'', out') => Some (st'', out ++ out')
                                   end
              end
  end.

Definition bind2 (r : option (dstate * list byte)) (f : dstate -> option (dstate * list byte)) :=
  match r with
  | None => None
  | Some (st, out) => match f st with None => None | Some (st', out') => Some (st', out ++ out') end
  end.

Lemma run_app mi ms st a b : run mi ms st (a ++ b) = bind2 (run mi ms st a) (fun st' => run mi ms st' b).
Proof.
  revert st. induction a as [|x a IH]; intros st; cbn [app run bind2].
  - destruct (run mi ms st b) as [[? ?]|]; reflexivity.
  - destruct (dstep mi ms st x) as [[st' out]|]; [|reflexivity]. rewrite IH.
    destruct (run mi ms st' a) as [[st1 o1]|]; cbn [bind2]; [|reflexivity].
    destruct (run mi ms st1 b) as [[st2 o2]|]; [|reflexivity]. now rewrite app_assoc.
Qed.

(* well-formed states: a chunk in progress has at least one byte to go *)
Definition dwf (st : dstate) : Prop := match st with DIn rem _ => 1 <= rem | _ => True end.

Lemma after_header_wf n limit : dwf (after_header n limit).
Proof. unfold after_header. destruct (0 <? n) eqn:E; cbn; auto. apply Nat.ltb_lt in E. lia. Qed.

Lemma dstep_wf mi ms st b st' out : dwf st -> dstep mi ms st b = Some (st', out) -> dwf st'.
Proof.
  intros W H. destruct st; cbn [dstep dec_once] in H.
  - destruct (mi <? N.to_nat b); inversion H; subst. apply after_header_wf.
  - destruct (RADIX <=? N.to_nat b); inversion H; subst. exact I.
  - destruct (RADIX <=? N.to_nat b); [discriminate|]. destruct (ms <? _); inversion H; subst. apply after_header_wf.
  - inversion H; subst. destruct (1 <? remaining) eqn:E; cbn; auto. apply Nat.ltb_lt in E. lia.
Qed.

(* consuming k bytes of a chunk at once is k single steps *)
Lemma run_in_chunk mi ms : forall k rem term e, 1 <= k -> k <= rem -> k <= length e ->
  run mi ms (DIn rem term) e =
  bind2 (Some ((if k <? rem then DIn (rem - k) term else DBefore term), firstn k e))
        (fun st' => run mi ms st' (skipn k e)).
Proof.
  induction k as [|k IH]; intros rem term e Hk Hr He; [lia|].
  destruct e as [|b t]; [cbn in He; lia|]. cbn [run dstep firstn skipn].
  destruct (Nat.eq_dec k 0) as [->|Hk0].
  - cbn [firstn skipn bind2]. destruct (1 <? rem) eqn:E.
    + replace (rem - 1) with (rem - 1) by lia. destruct (run mi ms (DIn (rem - 1) term) t) as [[? ?]|]; reflexivity.
    + destruct (run mi ms (DBefore term) t) as [[? ?]|]; reflexivity.
  - assert (1 <? rem = true) as -> by (apply Nat.ltb_lt; lia).
    rewrite (IH (rem - 1) term t) by (cbn in He; lia). cbn [bind2].
    replace (rem - 1 - k) with (rem - S k) by lia.
    assert ((k <? rem - 1) = (S k <? rem)) as ->.
    { destruct (k <? rem - 1) eqn:A, (S k <? rem) eqn:B; auto;
        [apply Nat.ltb_lt in A; apply Nat.ltb_ge in B; lia|apply Nat.ltb_ge in A; apply Nat.ltb_lt in B; lia]. }
    destruct (run mi ms _ (skipn k t)) as [[? ?]|]; reflexivity.
Qed.

(* the piecewise loop of the implementation computes the byte-at-a-time semantics *)
Lemma dec_loop_run mi ms : forall fuel st e, dwf st -> length e < fuel -> dec_loop fuel mi ms st e = run mi ms st e.
Proof.
  induction fuel as [|fuel IH]; intros st e W Hf; [lia|].
  destruct e as [|b t]; [reflexivity|]. cbn [dec_loop].
  destruct st as [| ins | b0 | rem term].
  - cbn [dec_once run dstep]. destruct (mi <? N.to_nat b); [reflexivity|]. cbn [skipn].
    rewrite IH; [reflexivity|apply after_header_wf|cbn in Hf; lia].
  - cbn [dec_once run dstep]. destruct (RADIX <=? N.to_nat b); [reflexivity|]. cbn [skipn].
    rewrite IH; [reflexivity|exact I|cbn in Hf; lia].
  - cbn [dec_once run dstep]. destruct (RADIX <=? N.to_nat b); [reflexivity|].
    destruct (ms <? N.to_nat b0 + N.to_nat b * RADIX); [reflexivity|]. cbn [skipn].
    rewrite IH; [reflexivity|apply after_header_wf|cbn in Hf; lia].
  - cbn in W. unfold dec_once. set (e := b :: t) in *.
    set (k := Nat.min (length e) rem).
    assert (Hk : 1 <= k <= rem /\ k <= length e) by (unfold k, e; cbn [length]; lia).
    rewrite (run_in_chunk mi ms k rem term e) by lia. cbn [bind2].
    rewrite IH.
    + reflexivity.
    + destruct (k <? rem) eqn:E; cbn [dwf]; auto. apply Nat.ltb_lt in E. lia.
    + rewrite skipn_length. lia.
Qed.

Lemma decode_piece_run mi ms st p : dwf st -> decode_piece mi ms st p = run mi ms st p.
Proof. intros W. apply dec_loop_run; auto. Qed.

Lemma run_wf mi ms : forall e st st' out, dwf st -> run mi ms st e = Some (st', out) -> dwf st'.
Proof.
  induction e as [|b t IH]; intros st st' out W H; cbn in H.
  - inversion H; subst; auto.
  - destruct (dstep mi ms st b) as [[s1 o1]|] eqn:D; [|discriminate].
    destruct (run mi ms s1 t) as [[s2 o2]|] eqn:R; [|discriminate]. inversion H; subst.
    eapply IH; [|exact R]. eapply dstep_wf; eauto.
Qed.

(* segmentation independence of the decoder: any split into decode calls = one run over the concatenation *)
Theorem decode_any_segmentation mi ms : forall pieces st, dwf st ->
  decode_pieces_from mi ms st pieces = run mi ms st (concat pieces).
Proof.
  induction pieces as [|p ps IH]; intros st W; [reflexivity|].
  cbn [decode_pieces_from concat]. rewrite decode_piece_run by auto. rewrite run_app.
  destruct (run mi ms st p) as [[s1 o1]|] eqn:R; cbn [bind2]; [|reflexivity].
  rewrite IH by (eapply run_wf; eauto). reflexivity.
Qed.

(* ---------- the decoder run over a framed chunk list ---------- *)
Section RoundTrip.
Variables mi ms : nat.
Hypothesis Hmi : 0 < mi <= 252.
Hypothesis Hms : 0 < ms < RADIX * RADIX.

Lemma run_payload st_term c rest : 1 <= length c ->
  run mi ms (DIn (length c) st_term) (c ++ rest) = bind2 (Some (DBefore st_term, c)) (fun st' => run mi ms st' rest).
Proof.
  intros H. rewrite (run_in_chunk mi ms (length c) (length c) st_term (c ++ rest)) by (rewrite ?app_length; lia).
  rewrite Nat.ltb_irrefl. now rewrite firstn_app, firstn_all, Nat.sub_diag, app_nil_r, skipn_app, skipn_all, Nat.sub_diag.
Qed.

Lemma after_header_run n limit c rest : length c = n ->
  run mi ms (after_header n limit) (c ++ rest) = bind2 (Some (DBefore (n <? limit), c)) (fun st' => run mi ms st' rest).
Proof.
  intros L. unfold after_header. destruct (0 <? n) eqn:E.
  - apply Nat.ltb_lt in E. rewrite <- L. apply run_payload. lia.
  - apply Nat.ltb_ge in E. assert (n = 0) by lia. subst n. destruct c; [|discriminate]. cbn [app bind2].
    destruct (run mi ms _ rest) as [[? ?]|]; reflexivity.
Qed.

Lemma hdr2_digits n : n < RADIX * RADIX -> n mod RADIX < RADIX /\ n / RADIX < RADIX /\ n mod RADIX + n / RADIX * RADIX = n.
Proof.
  intros H. unfold RADIX. pose proof (Nat.mod_upper_bound n 253 ltac:(lia)).
  pose proof (Nat.div_mod n 253 ltac:(lia)). 
  assert (n / 253 < 253) by (apply Nat.div_lt_upper_bound; unfold RADIX in *; lia). lia.
Qed.

(* one later chunk: header, payload, and the lazily inserted stuff sequence of its predecessor *)
Lemma run_chunk_rest ins c rest : length c <= ms ->
  run mi ms (DBefore ins) (hdr false (length c) ++ c ++ rest) =
  bind2 (Some (DBefore (length c <? ms), (if ins then [FE; FD] else []) ++ c)) (fun st' => run mi ms st' rest).
Proof.
  intros L. destruct (hdr2_digits (length c) ltac:(unfold RADIX in *; lia)) as (D0 & D1 & DE).
  unfold hdr. cbn [app run dstep dec_once]. rewrite !Nat2N.id.
  assert (RADIX <=? length c mod RADIX = false) as -> by (apply Nat.leb_gt; exact D0).
  cbn [run dstep dec_once]. rewrite !Nat2N.id.
  assert (RADIX <=? length c / RADIX = false) as -> by (apply Nat.leb_gt; exact D1).
  rewrite DE. assert (ms <? length c = false) as -> by (apply Nat.ltb_ge; exact L).
  rewrite (after_header_run (length c) ms c rest eq_refl). cbn [bind2 app].
  destruct (run mi ms (DBefore (length c <? ms)) rest) as [[s o]|]; [|reflexivity].
  f_equal. f_equal. destruct ins; cbn; reflexivity.
Qed.

Lemma run_frame_rest : forall cs ins r,
  cs <> [] -> Forall (fun c => length c <= ms) cs -> unstuff ms ms cs = Some r ->
  run mi ms (DBefore ins) (frame_rest cs) = Some (DBefore true, (if ins then [FE; FD] else []) ++ r).
Proof.
  induction cs as [|c rest IH]; intros ins r Hne Hsz Hu; [congruence|].
  inversion Hsz as [|? ? Hc Hrest]; subst. cbn [frame_rest]. rewrite run_chunk_rest by exact Hc.
  destruct rest as [|c2 rest'].
  - cbn [unstuff] in Hu. destruct (length c <? ms) eqn:E; [|discriminate]. inversion Hu; subst r.
    cbn [frame_rest run bind2]. now rewrite app_nil_r.
  - rewrite unstuff_cons in Hu by discriminate.
    destruct (unstuff ms ms (c2 :: rest')) as [r'|] eqn:U; [|discriminate]. inversion Hu; subst r.
    cbn [bind2]. rewrite (IH (length c <? ms) r') by (auto; discriminate).
    f_equal. f_equal. now rewrite <- !app_assoc.
Qed.

Theorem run_frame cs r :
  match cs with c :: _ => length c <= mi | [] => True end ->
  Forall (fun c => length c <= ms) (tl cs) -> unstuff mi ms cs = Some r ->
  run mi ms DInit (frame cs) = Some (DBefore true, r).
Proof.
  destruct cs as [|c rest]; intros H1 Hsz Hu; [discriminate|]. cbn [tl] in Hsz.
  cbn [frame hdr app run dstep dec_once]. rewrite Nat2N.id.
  assert (mi <? length c = false) as -> by (apply Nat.ltb_ge; exact H1).
  rewrite (after_header_run (length c) mi c (frame_rest rest) eq_refl). cbn [bind2].
  destruct rest as [|c2 rest'].
  - cbn [unstuff] in Hu. destruct (length c <? mi) eqn:E; [|discriminate]. inversion Hu; subst r.
    cbn [frame_rest run]. now rewrite app_nil_r.
  - rewrite unstuff_cons in Hu by discriminate.
    destruct (unstuff ms ms (c2 :: rest')) as [r'|] eqn:U; [|discriminate]. inversion Hu; subst r.
    rewrite (run_frame_rest (c2 :: rest') (length c <? mi) r') by (auto; discriminate). reflexivity.
Qed.

(* chunk sizes produced by the reference stuffing *)
Lemma stuff_sizes : forall fuel limit m, 0 < limit ->
  match stuff fuel limit ms m with c :: _ => length c <= limit | [] => True end /\
  Forall (fun c => length c <= ms) (tl (stuff fuel limit ms m)).
Proof.
  assert (G : forall fuel limit m, 0 < limit -> limit <= ms \/ True ->
            Forall (fun c => length c <= Nat.max limit ms) (stuff fuel limit ms m) /\
            match stuff fuel limit ms m with c :: _ => length c <= limit | [] => True end).
  { induction fuel as [|fuel IH]; intros limit m Hl _; cbn [stuff]; [split; auto|].
    destruct (find_stuff (firstn limit m)) as [i|] eqn:F.
    - apply find_some_len in F as (A & B). destruct (IH ms (skipn (i + 2) m) ltac:(lia) (or_intror I)) as (P & _).
      split; [constructor; [rewrite firstn_length; lia|]|rewrite firstn_length; lia].
      eapply Forall_impl; [|exact P]. intros c Hc. cbn in Hc. lia.
    - destruct (limit <=? length m) eqn:E.
      + destruct (IH ms (skipn limit m) ltac:(lia) (or_intror I)) as (P & _).
        split; [constructor; [rewrite firstn_length; lia|]|rewrite firstn_length; lia].
        eapply Forall_impl; [|exact P]. intros c Hc. cbn in Hc. lia.
      + apply Nat.leb_gt in E. split; [constructor; [lia|constructor]|lia]. }
  intros fuel limit m Hl. destruct fuel as [|fuel]; cbn [stuff]; [split; [exact I|constructor]|].
  destruct (find_stuff (firstn limit m)) as [i|] eqn:F.
  - apply find_some_len in F as (A & B). split; [rewrite firstn_length; lia|]. cbn [tl].
    destruct (G fuel ms (skipn (i + 2) m) ltac:(lia) (or_intror I)) as (P & _).
    eapply Forall_impl; [|exact P]. intros c Hc. cbn in Hc. lia.
  - destruct (limit <=? length m) eqn:E.
    + split; [rewrite firstn_length; lia|]. cbn [tl].
      destruct (G fuel ms (skipn limit m) ltac:(lia) (or_intror I)) as (P & _).
      eapply Forall_impl; [|exact P]. intros c Hc. cbn in Hc. lia.
    + apply Nat.leb_gt in E. split; [lia|constructor].
Qed.

(* ---------- C01 at byte level: any segmentation of the encoder's input, any segmentation of the encoded
   bytes into decode calls ---------- *)
Theorem C01_byte_level (m : list byte) (dec_pieces : list (list byte)) :
  concat dec_pieces = encode_ref mi ms m -> decode_pieces mi ms dec_pieces = Some m.
Proof.
  intros E. unfold decode_pieces. rewrite decode_any_segmentation by exact I. rewrite E. unfold encode_ref.
  destruct (stuff_sizes (S (length m)) mi m ltac:(lia)) as (S1 & S2).
  rewrite (run_frame (stuffN mi ms m) m); auto.
  apply unstuff_stuff; lia.
Qed.

(* and with the streaming encoder in front: its chunks, framed, decode back to the concatenated input *)
Corollary C01_streaming enc_pieces dec_pieces :
  concat dec_pieces = frame (encode_pieces mi ms enc_pieces) ->
  decode_pieces mi ms dec_pieces = Some (concat enc_pieces).
Proof.
  intros E. rewrite (encode_any_segmentation mi ms) in E by lia. now apply C01_byte_level.
Qed.
End RoundTrip.
Print Assumptions C01_streaming.
