(* Ties the constants of the HCOBS development to the values translated from hcobs/src/lib.rs
   (coq/gen/Params.v, regenerated on every run).  Every lemma is closed by computation, so a
   changed RADIX, stuff sequence or production limit in the source breaks this file. *)
From Coq Require Import NArith Arith Lia.
From WPGen Require Import Params.
From WP Require Import hcobs.Stuffing hcobs.Dec.

Lemma tie_radix : N.to_nat Params.RADIX = Dec.RADIX.
Proof. vm_compute. reflexivity. Qed.
Lemma tie_stuff : Params.STUFF0 = FE /\ Params.STUFF1 = FD.
Proof. split; reflexivity. Qed.
(* the limits the property names: 252-byte first chunk, 64008-byte later chunks = RADIX-1, RADIX^2-1 *)
Lemma tie_prod_limits : Params.PROD_MAX_INITIAL = 252%N /\ Params.PROD_MAX_SUBSEQUENT = 64008%N.
Proof. split; reflexivity. Qed.

Definition prod_mi : nat := N.to_nat Params.PROD_MAX_INITIAL.
Definition prod_ms : nat := N.to_nat Params.PROD_MAX_SUBSEQUENT.

Lemma prod_mi_bounds : 0 < prod_mi <= 252.
Proof. split; [apply Nat.ltb_lt|apply Nat.leb_le]; vm_compute; reflexivity. Qed.
Lemma prod_ms_bounds : 0 < prod_ms < Dec.RADIX * Dec.RADIX.
Proof. split; apply Nat.ltb_lt; vm_compute; reflexivity. Qed.
Lemma prod_mi_le_ms : prod_mi <= prod_ms.
Proof. apply Nat.leb_le. vm_compute. reflexivity. Qed.
Lemma prod_limits_are_radix : prod_mi = Dec.RADIX - 1 /\ prod_ms = Dec.RADIX * Dec.RADIX - 1.
Proof. split; apply Nat.eqb_eq; vm_compute; reflexivity. Qed.
