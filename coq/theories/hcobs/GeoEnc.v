(* hcobs/src/encoder.rs (EncoderState) and the Encoder wrapper of hcobs/src/lib.rs at memory level: the encoder writing
   into the geometry-faithful OwningIovec of iovec/Geo.v.  Same control flow as the sink-level model hcobs/EncSink.v (every
   assert! is a None), but the sink operations are the real ones: `write` is OwningIovec::push of a sub-slice of the
   caller's input (borrowed, or copied when small / appendable), `copy` is push_copy, the header placeholder is
   register_patch(&[0]) / (&[0, 0]) and its Backref, encode_header is backfill_or_panic, encode_read reads into the
   iovec's own arena, encodes the anchored slice piecewise and queues its anchor.  No proofs in this file. *)
From Coq Require Import List NArith Bool Arith.
From WP Require Import hcobs.Stuffing hcobs.EncChunks hcobs.Dec iovec.Geo.
Import ListNotations.
Open Scope nat_scope.

Record genc := { gmaxc : nat; gcur : nat; gmid : bool; gbref : option gbackref }.

Definition ge_new (h : heap) (g : giov) (mi : nat) : option (genc * heap * giov) :=
  match register_patch h [0%N] g with
  | Some (h', g', b) => Some ({| gmaxc := mi; gcur := 0; gmid := false; gbref := b |}, h', g')
  | None => None
  end.
Definition ge_new_subsequent (h : heap) (g : giov) (ms : nat) : option (genc * heap * giov) :=
  match register_patch h [0%N; 0%N] g with
  | Some (h', g', b) => Some ({| gmaxc := ms; gcur := 0; gmid := false; gbref := b |}, h', g')
  | None => None
  end.

Definition bref_len (b : option gbackref) : nat := match b with Some b => N.to_nat (blen b) | None => 0 end.

Definition ge_encode_header (n : nat) (h : heap) (g : giov) (b : option gbackref) : option (heap * giov) :=
  if RADIX * RADIX <=? n then None                                            (* assert!(chunk_size < RADIX * RADIX) *)
  else
    let header := [N.of_nat (n mod RADIX); N.of_nat (n / RADIX); 0%N] in
    let len := bref_len b in
    if negb ((1 <=? len) && (len <=? 2)) then None                            (* assert!((1..=2).contains(&len)) *)
    else if negb (N.eqb (nth len header 0%N) 0%N) then None                   (* assert!(header[len] == 0) *)
    else backfill h b (firstn len header) g.

(* ends_fe without the quadratic `rev` (GeoEncProofs.ends_fe_fast_eq) *)
Definition ends_fe_fast (l : list byte) : bool :=
  match l with [] => false | _ => N.eqb (last l 0%N) FE end.

(* a sub-slice of the caller's input *)
Definition sub (inp : gsl) (off n : nat) : gsl := sl_keep (sl_skip inp (N.of_nat off)) (N.of_nat n).

Definition with_cur (e : genc) (c : nat) : genc := {| gmaxc := gmaxc e; gcur := c; gmid := gmid e; gbref := gbref e |}.
Definition gset_mid (e : genc) (m : bool) : genc := {| gmaxc := gmaxc e; gcur := gcur e; gmid := m; gbref := gbref e |}.

(* write (borrow) / copy of input[off .. off + n) *)
Definition ge_write (copy : bool) (inp : gsl) (p : list byte) (e : genc) (h : heap) (g : giov) (off n : nat)
  : option (genc * heap * giov) :=
  match n with
  | O => Some (e, h, g)
  | _ =>
    match (if copy then push_copy h (firstn n (skipn off p)) g else push h (sub inp off n) g) with
    | None => None
    | Some (h', g') =>
      let c := gcur e + n in
      if gmaxc e <? c then None else Some (with_cur e c, h', g')
    end
  end.
Definition ge_write_partial_stuff (e : genc) (h : heap) (g : giov) : option (genc * heap * giov) :=
  match push_copy h [FE] g with
  | None => None
  | Some (h', g') =>
    let c := gcur e + 1 in
    if gmaxc e <? c then None else Some (with_cur e c, h', g')
  end.

(* consume_once on input[off ..]: new state and the number of bytes consumed *)
Definition ge_consume_once (copy : bool) (ms : nat) (inp : gsl) (p : list byte) (e : genc) (h : heap) (g : giov) (off : nat)
  : option (genc * heap * giov * nat) :=
  let input := skipn off p in
  match input with
  | [] => None                                                                 (* assert!(!input.is_empty()) *)
  | b0 :: _ =>
    if negb (gcur e + (if gmid e then 1 else 0) <? gmaxc e) then None
    else
      let close (e1 : genc) (h1 : heap) (g1 : giov) (consumed : nat) : option (genc * heap * giov * nat) :=
        match ge_encode_header (gcur e1) h1 g1 (gbref e1) with
        | None => None
        | Some (h2, g2) =>
          match ge_new_subsequent h2 g2 ms with
          | None => None
          | Some (e3, h3, g3) => Some (e3, h3, g3, consumed)
          end
        end in
      if gmid e && N.eqb b0 FD then close e h g 1
      else
        if negb (gcur e <? gmaxc e) then None
        else
          match (if gmid e then
                   match ge_write_partial_stuff e h g with
                   | None => None
                   | Some (e1, h1, g1) => if negb (gcur e1 <? gmaxc e1) then None else Some (e1, h1, g1)
                   end
                 else Some (e, h, g)) with
          | None => None
          | Some (e1, h1, g1) =>
            let remaining := gmaxc e1 - gcur e1 in
            let window := firstn remaining input in
            match window with
            | [] => None                                                       (* assert!(!input.is_empty()) *)
            | _ =>
              match find_stuff window with
              | Some idx =>
                match ge_write copy inp p e1 h1 g1 off idx with
                | None => None | Some (e2, h2, g2) => close e2 h2 g2 (idx + 2) end
              | None =>
                if length window =? remaining then
                  match ge_write copy inp p e1 h1 g1 off remaining with
                  | None => None | Some (e2, h2, g2) => close e2 h2 g2 remaining end
                else
                  let ret := length window in
                  let m' := ends_fe_fast window in
                  let to_copy := if m' then ret - 1 else ret in
                  match ge_write copy inp p (gset_mid e1 m') h1 g1 off to_copy with
                  | None => None
                  | Some (e2, h2, g2) =>
                    if negb (gcur e2 + (if gmid e2 then 1 else 0) <? gmaxc e2) then None
                    else Some (e2, h2, g2, ret)
                  end
              end
            end
          end
  end.

(* the `while !input.is_empty()` loop of encode_borrow / encode_copy, with its two assertions *)
Fixpoint ge_loop (fuel : nat) (copy : bool) (ms : nat) (inp : gsl) (p : list byte) (e : genc) (h : heap) (g : giov) (off : nat)
  : option (genc * heap * giov) :=
  match fuel with
  | O => Some (e, h, g)
  | S fuel =>
    match skipn off p with
    | [] => Some (e, h, g)
    | _ =>
      match ge_consume_once copy ms inp p e h g off with
      | None => None
      | Some (e', h', g', c) =>
        if negb (c <=? length p - off) then None
        else if negb ((0 <? c) || (negb (gmid e') && gmid e)) then None
        else ge_loop fuel copy ms inp p e' h' g' (off + c)
      end
    end
  end.

(* Encoder::encode / encode_copy of one piece whose memory is `inp` (its bytes are read once, at the call) *)
Definition ge_piece (copy : bool) (ms : nat) (inp : gsl) (e : genc) (h : heap) (g : giov) : option (genc * heap * giov) :=
  let p := sl_bytes h inp in ge_loop (S (S (length p))) copy ms inp p e h g 0.

(* Encoder::encode_anchored *)
Definition ge_anchored (ms : nat) (a : aslice) (e : genc) (h : heap) (g : giov) : option (genc * heap * giov) :=
  if (as_len a =? 0)%N then Some (e, h, g)
  else match ge_piece false ms (as_sl a) e h g with
       | None => None
       | Some (e', h', g') => Some (e', h', push_anchor (as_anchor a) g')
       end.
(* Encoder::encode_read: read_n into the iovec's own arena, then encode_anchored; also returns the byte count *)
Definition ge_read (ms : nat) (got : list byte) (count : N) (e : genc) (h : heap) (g : giov) : option (genc * heap * giov * N) :=
  match as_read_n h (gcache_ g) got count with
  | None => None
  | Some (h1, k1, a) =>
    match ge_anchored ms a e h1 (set_cache k1 g) with
    | None => None
    | Some (e', h', g') => Some (e', h', g', as_len a)
    end
  end.

Definition ge_terminate (e : genc) (h : heap) (g : giov) : option (heap * giov) :=
  match (if gmid e then ge_write_partial_stuff e h g else Some (e, h, g)) with
  | None => None
  | Some (e1, h1, g1) => if negb (gcur e1 <? gmaxc e1) then None else ge_encode_header (gcur e1) h1 g1 (gbref e1)
  end.

(* a history of the Encoder: input by any method, interleaved with the consumer's consume / Read *)
Inductive geop := GEBorrow (p : list byte) | GECopy (p : list byte) | GERead (got : list byte) (count : N)
  | GEConsume (k : N) | GERd (n : N).
Definition ge_step (ms : nat) (e : genc) (h : heap) (g : giov) (o : geop) : option (genc * heap * giov * list N) :=
  match o with
  | GEBorrow p => match ge_piece false ms (SExt p) e h g with Some (e', h', g') => Some (e', h', g', []) | None => None end
  | GECopy p => match ge_piece true ms (SExt p) e h g with Some (e', h', g') => Some (e', h', g', []) | None => None end
  | GERead got count => match ge_read ms got count e h g with Some (e', h', g', n) => Some (e', h', g', [n]) | None => None end
  | GEConsume k => match consume k g with Some (g', n) => Some (e, h, g', [n]) | None => None end
  | GERd n => match read h n g with Some (g', bs) => Some (e, h, g', bs) | None => None end
  end.
