(* StreamReader::next_record_bytes (hcobs/src/stream_reader.rs) at memory level: the StreamChunker of hcobs/GeoChunker.v pumps
   into the arena of the reader's OwningIovec, every Data chunk is an AnchoredSlice that the memory-level Decoder of
   hcobs/GeoDec.v decodes (decode_anchored: sub-slices pushed, the anchor queued), and the record handed out is that
   iovec.  The iovec is cleared at every retry; it is dropped (and replaced by a fresh one with a fresh arena) when the call
   returns None or the decoder refuses to finish.  No proofs in this file. *)
From Coq Require Import List NArith Bool Arith.
From WP Require Import hcobs.Stuffing hcobs.EncChunks hcobs.Dec hcobs.Chunker iovec.Geo hcobs.GeoChunker hcobs.GeoEnc hcobs.GeoDec.
Import ListNotations.
Open Scope nat_scope.

Inductive gjres := GKeepGoing | GSkipRecord | GStop.
Definition gjudge (max limit : N) (range_start : nat) (size : N) : gjres :=
  if (limit <=? N.of_nat range_start)%N then GStop
  else if (max <? size)%N then GSkipRecord
  else GKeepGoing.

Inductive glstate := MSkipSentinel | MDecode (ds : dstate) | MSkip.
Definition is_skip_sentinel (s : glstate) : bool := match s with MSkipSentinel => true | _ => false end.

Record grd := { rchunker : gcst; riov : giov; rlso : nat }.
Definition grd_init : grd := {| rchunker := {| gbuf := as_default; goffset := 0; grest := [] |}; riov := empty_iov; rlso := 0 |}.

(* outcome of one call: a record (range start, range end) whose bytes are in the reader's iovec, nothing, a panic, or
   not enough fuel (the model's own bound, never reached with fuel > number of chunks left) *)
Inductive goutcome := GRecord (rs re : nat) | GNone | GPanic | GFuel.

Section Reader.
Variables mi ms : nat.
Variables max limit : N.
Variable bs : nat.

Definition gres := (goutcome * heap * grd * list gchunk)%type.
Definition cons_tr (ch : gchunk) (r : gres) : gres := let '(o, h, rd, tr) := r in (o, h, rd, ch :: tr).

(* the inner loop and the retry loop in one walk, as in Reader.next_record; the last component is the list of chunks the
   call pumped, in order (ghost output: what the value-level reader of hcobs/Reader.v walks over) *)
Fixpoint gnext (fuel : nat) (h : heap) (c : gcst) (g : giov) (st : glstate) (rs re lso : nat) : gres :=
  let ret o h c g lso := (o, h, {| rchunker := c; riov := g; rlso := lso |}, @nil gchunk) in
  match fuel with
  | O => ret GFuel h c g lso
  | S fuel =>
    if negb (Bool.eqb (rs =? re) (is_skip_sentinel st)) then ret GPanic h c g lso
    else
    match gpump bs h (gcache_ g) c with
    | None => ret GPanic h c g lso
    | Some (h1, k1, ch, c1) =>
      cons_tr ch (
      let g1 := set_cache k1 g in
      (* the record is complete: finish or retry *)
      let complete h2 g2 lso2 :=
        if rs =? re then ret GPanic h2 c1 g2 lso2                               (* assert_ne!(range.start, range.end) *)
        else match st with
             | MDecode ds => if dterminate ds then ret (GRecord rs re) h2 c1 g2 lso2
                             else gnext fuel h2 c1 empty_iov MSkipSentinel 0 0 lso2   (* finish() failed: the iovec is gone *)
             | _ => gnext fuel h2 c1 (clear g2) MSkipSentinel 0 0 lso2                (* take_iovec, continue 'retry: clear *)
             end in
      match ch with
      | GSentinel off =>
        if off <? 2 then ret GPanic h1 c1 g1 lso
        else
          let lso' := off - 2 in
          match st with
          | MSkipSentinel =>
            match gjudge max limit off (total_size g1) with
            | GKeepGoing => gnext fuel h1 c1 g1 MSkipSentinel off off lso'
            | GSkipRecord => gnext fuel h1 c1 g1 MSkip off off lso'
            | GStop => ret GNone h1 c1 empty_iov lso'
            end
          | _ => complete h1 g1 lso'
          end
      | GEof =>
        if rs =? re then ret GNone h1 c1 empty_iov lso
        else complete h1 g1 lso
      | GData off a =>
        if (as_len a =? 0)%N then ret GPanic h1 c1 g1 lso                        (* assert!(!slice.is_empty()) *)
        else
          let '(st1, rs1) := match st with
                             | MSkipSentinel => (MDecode DInit, off - N.to_nat (as_len a))
                             | _ => (st, rs)
                             end in
          match (match st1 with
                 | MDecode ds =>
                   match gd_anchored mi ms a ds h1 g1 with
                   | None => None
                   | Some (ds', true, h2, g2) => Some (MDecode ds', h2, g2)
                   | Some (_, false, h2, g2) => Some (MSkip, h2, g2)
                   end
                 | _ => Some (st1, h1, g1)
                 end) with
          | None => ret GPanic h1 c1 g1 lso
          | Some (st2, h2, g2) =>
            match gjudge max limit rs1 (total_size g2) with
            | GKeepGoing => gnext fuel h2 c1 g2 st2 rs1 off lso
            | GSkipRecord => gnext fuel h2 c1 g2 MSkip rs1 off lso
            | GStop => ret GNone h2 c1 empty_iov lso
            end
          end
      end)
    end
  end.

(* one call of next_record_bytes: the iovec is cleared first *)
Definition gnext_record (fuel : nat) (h : heap) (r : grd) : gres :=
  gnext fuel h (rchunker r) (clear (riov r)) MSkipSentinel 0 0 (rlso r).
End Reader.
