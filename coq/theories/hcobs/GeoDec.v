(* hcobs/src/decoder.rs (DecoderState) and the Decoder wrapper of hcobs/src/lib.rs at memory level: the decoder writing
   into the geometry-faithful OwningIovec of iovec/Geo.v.  Same state machine as hcobs/Dec.v (dec_once), but the output goes
   through the real sink operations: InChunk pushes a sub-slice of the caller's input (borrowed, or copied when small /
   appendable), decode_copy uses push_copy, BeforeChunk copies the pending FE FD BEFORE it looks at the header byte (so a
   bad header leaves it behind), decode_read reads into the iovec's own arena, decodes the anchored slice and queues its
   anchor whether decoding succeeded or not.  After an error the wrapper is left in the initial state.  No proofs here. *)
From Coq Require Import List NArith Bool Arith.
From WP Require Import hcobs.Stuffing hcobs.EncChunks hcobs.Dec iovec.Geo hcobs.GeoEnc.
Import ListNotations.
Open Scope nat_scope.

(* one state transition on input[off ..]: Some (Some (state, consumed) | None = Err, heap, iovec); None = panic *)
Definition gd_once (copy : bool) (mi ms : nat) (inp : gsl) (p : list byte) (st : dstate) (h : heap) (g : giov) (off : nat)
  : option (option (dstate * nat) * heap * giov) :=
  match skipn off p with
  | [] => None                                                                 (* assert!(!input.is_empty()) *)
  | b :: _ =>
    match st with
    | DInit => let n := N.to_nat b in
               if mi <? n then Some (None, h, g) else Some (Some (after_header n mi, 1), h, g)
    | DBefore ins =>
      match (if ins then push_copy h [FE; FD] g else Some (h, g)) with
      | None => None
      | Some (h', g') => if RADIX <=? N.to_nat b then Some (None, h', g') else Some (Some (DMid b, 1), h', g')
      end
    | DMid b0 =>
      if RADIX <=? N.to_nat b then Some (None, h, g)
      else let n := N.to_nat b0 + N.to_nat b * RADIX in
           if ms <? n then Some (None, h, g) else Some (Some (after_header n ms, 1), h, g)
    | DIn rem term =>
      let k := Nat.min (length p - off) rem in
      match (if copy then push_copy h (firstn k (skipn off p)) g else push h (sub inp off k) g) with
      | None => None
      | Some (h', g') => Some (Some ((if k <? rem then DIn (rem - k) term else DBefore term), k), h', g')
      end
    end
  end.

(* the `while !input.is_empty()` loop of decode_borrow / decode_copy: the final state, or None after an Err *)
Fixpoint gd_loop (fuel : nat) (copy : bool) (mi ms : nat) (inp : gsl) (p : list byte) (st : dstate) (h : heap) (g : giov) (off : nat)
  : option (option dstate * heap * giov) :=
  match fuel with
  | O => Some (Some st, h, g)
  | S fuel =>
    match skipn off p with
    | [] => Some (Some st, h, g)
    | _ =>
      match gd_once copy mi ms inp p st h g off with
      | None => None
      | Some (None, h', g') => Some (None, h', g')
      | Some (Some (st', c), h', g') => gd_loop fuel copy mi ms inp p st' h' g' (off + c)
      end
    end
  end.

(* Decoder::decode / decode_copy: the wrapper's new state (the initial state after an error) and whether it was Ok *)
Definition gd_piece (copy : bool) (mi ms : nat) (inp : gsl) (st : dstate) (h : heap) (g : giov) : option (dstate * bool * heap * giov) :=
  let p := sl_bytes h inp in
  match gd_loop (S (length p)) copy mi ms inp p st h g 0 with
  | None => None
  | Some (Some st', h', g') => Some (st', true, h', g')
  | Some (None, h', g') => Some (DInit, false, h', g')
  end.

(* Decoder::decode_anchored: the anchor is queued whatever decode returned *)
Definition gd_anchored (mi ms : nat) (a : aslice) (st : dstate) (h : heap) (g : giov) : option (dstate * bool * heap * giov) :=
  if (as_len a =? 0)%N then Some (st, true, h, g)
  else match gd_piece false mi ms (as_sl a) st h g with
       | None => None
       | Some (st', ok, h', g') => Some (st', ok, h', push_anchor (as_anchor a) g')
       end.
(* Decoder::decode_read *)
Definition gd_read (mi ms : nat) (got : list byte) (count : N) (st : dstate) (h : heap) (g : giov)
  : option (dstate * bool * heap * giov * N) :=
  match as_read_n h (gcache_ g) got count with
  | None => None
  | Some (h1, k1, a) =>
    match gd_anchored mi ms a st h1 (set_cache k1 g) with
    | None => None
    | Some (st', ok, h', g') => Some (st', ok, h', g', as_len a)
    end
  end.

Inductive gdop := GDBorrow (p : list byte) | GDCopy (p : list byte) | GDRead (got : list byte) (count : N)
  | GDConsume (k : N) | GDRd (n : N).
Definition zb (b : bool) : N := if b then 1%N else 0%N.
Definition gd_step (mi ms : nat) (st : dstate) (h : heap) (g : giov) (o : gdop) : option (dstate * heap * giov * list N) :=
  match o with
  | GDBorrow p => match gd_piece false mi ms (SExt p) st h g with Some (st', ok, h', g') => Some (st', h', g', [zb ok]) | None => None end
  | GDCopy p => match gd_piece true mi ms (SExt p) st h g with Some (st', ok, h', g') => Some (st', h', g', [zb ok]) | None => None end
  | GDRead got count => match gd_read mi ms got count st h g with Some (st', ok, h', g', n) => Some (st', h', g', [zb ok; n]) | None => None end
  | GDConsume k => match consume k g with Some (g', n) => Some (st, h, g', [n]) | None => None end
  | GDRd n => match read h n g with Some (g', bs) => Some (st, h, g', bs) | None => None end
  end.
