(* A slice held by a third party (the StreamChunker's carried-over buffer) while the Decoder decodes an anchored input into
   the iovec: every slice the iovec gains is either a sub-slice of the input or a fresh copy, so it does not overlap the
   third party's slice, and the third party's bytes are not written (the decoder never backfills). *)
From Coq Require Import List NArith Bool Arith Lia.
From WP Require Import hcobs.Stuffing hcobs.EncChunks hcobs.Dec hcobs.EncSink hcobs.SinkSim.
From WP Require Import iovec.Geo iovec.GeoMem iovec.GeoProofs iovec.GeoRefine iovec.GeoHistory iovec.GeoSink iovec.GeoWorld.
From WP Require Import hcobs.GeoEnc hcobs.GeoEncInp hcobs.GeoEncProofs hcobs.GeoDec hcobs.GeoDecProofs hcobs.GeoChunkerDis.
Import ListNotations.
Open Scope nat_scope.

Lemma sl_before_sym a b : sl_before a b -> sl_before b a.
Proof. destruct a as [c o l|], b as [c' o' l'|]; cbn [sl_before]; auto. intros H E. symmetry in E. specialize (H E). tauto. Qed.

Definition Keeps (g : giov) (x : gsl) : Prop := forall s', In s' (gslices g) -> nov s' x.

Lemma Keeps_empty g x : sl_len x = 0%N -> Keeps g x.
Proof. intros H s' _. left. exact H. Qed.

Lemma range_of h x : sl_ok h x -> match x with SArena c o l => in_data h (c, o, l) | SExt _ => True end.
Proof. destruct x as [c o l|]; cbn [sl_ok in_data]; auto. Qed.

Lemma rdisj_before c o l s : rdisj (c, o, l) s <-> sl_before s (SArena c o l).
Proof.
  destruct s as [c' o' l'|]; cbn [rdisj sl_before]; [|tauto]. split; intros H E; [symmetry in E|symmetry in E]; specialize (H E); tauto.
Qed.

(* an allocation (push_copy, ...): anything with an `effect` *)
Lemma Keeps_effect h g h' g' x : sl_ok h x -> effect h g h' g' -> Keeps g x -> Keeps g' x.
Proof.
  intros Ox E K. destruct x as [c o l|bs]; [|intros s' _; right; destruct s'; exact Logic.I].
  pose proof (sl_len_pos h _ Ox) as Hp. cbn [sl_len] in Hp.
  assert (K' : forall s, In s (gslices g) -> rdisj (c, o, l) s).
  { intros s Hs. apply rdisj_before. destruct (K s Hs) as [H|H]; [cbn [sl_len] in H; lia|exact H]. }
  intros s' Hs'. right. apply rdisj_before. exact (ef_cover _ _ _ _ E (c, o, l) (range_of h _ Ox) K' s' Hs').
Qed.

(* a borrowed push of a slice that does not overlap x *)
Lemma Keeps_push_borrowed h g snew g' x : sl_ok h snew -> sl_ok h x -> sl_before snew x -> Keeps g x ->
  push_borrowed snew g = Some g' -> Keeps g' x.
Proof.
  intros On Ox Hnx K E. unfold Keeps in *. pose proof (sl_len_pos h _ On) as Hpn. pose proof (sl_len_pos h _ Ox) as Hpx.
  unfold push_borrowed in E. destruct (sl_len snew =? 0)%N eqn:E0; [apply N.eqb_eq in E0; lia|].
  match type of E with context [back ?L] => destruct (back L) as [a|]; [|discriminate] end.
  destruct (optimize_spec _ _ E) as (_ & _ & _ & _ & _ & [Esame|(front & c' & lo & ll & rl & Eg1 & Eg')]); cbn [gslices] in *.
  - rewrite Esame. intros s' Hs'. apply in_app_or in Hs' as [Hs'|[<-|[]]]; [now apply K|right; exact Hnx].
  - change (front ++ [SArena c' lo ll; SArena c' (lo + ll) rl]) with (front ++ [SArena c' lo ll] ++ [SArena c' (lo + ll) rl]) in Eg1.
    rewrite app_assoc in Eg1. apply app_inj_tail in Eg1 as (Eg & Enew). subst snew.
    rewrite Eg'. intros s' Hs'. apply in_app_or in Hs' as [Hs'|[<-|[]]].
    + apply K. rewrite Eg. apply in_or_app. now left.
    + right. assert (Hl : nov (SArena c' lo ll) x) by (apply K; rewrite Eg; apply in_or_app; right; now left).
      destruct Hl as [Hl|Hl]; [lia|].
      destruct x as [cx ox lx|]; cbn [sl_before sl_len] in *; [|exact Logic.I]. intros Ec.
      specialize (Hl Ec). specialize (Hnx Ec). lia.
Qed.

(* OwningIovec::push *)
Lemma Keeps_push h g sl h' g' x : GInv h g -> BInv g -> sl_ok h sl -> sl_ok h x -> sl_before sl x -> Keeps g x ->
  push h sl g = Some (h', g') -> Keeps g' x.
Proof.
  intros I B Os Ox Hsx K E. unfold push in E.
  match type of E with (if ?c then _ else _) = _ => destruct c end.
  - eapply Keeps_effect; [exact Ox| |exact K]. eapply effect_push_copy; eauto.
  - destruct (push_borrowed sl g) as [gx|] eqn:EB; [|discriminate]. inversion E; subst h' gx.
    exact (Keeps_push_borrowed h g sl g' x Os Ox Hsx K EB).
Qed.

Lemma Keeps_same_slices g g' x : gslices g' = gslices g -> Keeps g x -> Keeps g' x.
Proof. intros E K s' Hs'. rewrite E in Hs'. now apply K. Qed.

(* frame: x keeps its bytes and stays in bounds across allocations *)
Lemma frame_effect h g h' g' x : sl_ok h x -> effect h g h' g' -> sl_ok h' x /\ sl_bytes h' x = sl_bytes h x.
Proof.
  intros Ox E. destruct x as [c o l|bs]; [|auto]. cbn [sl_ok sl_bytes] in *. destruct Ox as (A & B & C).
  pose proof (ef_heap _ _ _ _ E) as HE. destruct (he_grow _ _ _ HE c A) as (_ & tail & Et).
  pose proof (he_len _ _ _ HE). split.
  - repeat split; [lia|exact B|]. rewrite Et, nlen_app. lia.
  - rewrite Et. apply read_app_l. lia.
Qed.

(* ---- through the decoder ---- *)
Lemma sl_before_sub inp off k x : sl_before inp x -> (N.of_nat off + N.of_nat k <= sl_len inp)%N -> sl_before (sub inp off k) x.
Proof.
  unfold sub. destruct inp as [c o l|bs]; cbn [sl_skip sl_keep sl_len]; [|intros; destruct x; exact Logic.I].
  destruct x as [cx ox lx|]; cbn [sl_before]; [|auto]. intros H Hle E. specialize (H E). lia.
Qed.

Lemma push_keeps_frame h g sl h' g' x : GInv h g -> BInv g -> sl_ok h sl -> sl_ok h x -> sl_before sl x -> Keeps g x ->
  push h sl g = Some (h', g') -> Keeps g' x /\ sl_ok h' x /\ sl_bytes h' x = sl_bytes h x.
Proof.
  intros I B Os Ox Hsx K E. split; [exact (Keeps_push h g sl h' g' x I B Os Ox Hsx K E)|]. unfold push in E.
  match type of E with (if ?c then _ else _) = _ => destruct c end.
  - exact (frame_effect h g h' g' x Ox (effect_push_copy h g _ h' g' I B E)).
  - destruct (push_borrowed sl g) as [gx|]; [|discriminate]. inversion E; subst. auto.
Qed.
Lemma push_copy_keeps_frame h g src h' g' x : GInv h g -> BInv g -> sl_ok h x -> Keeps g x ->
  push_copy h src g = Some (h', g') -> Keeps g' x /\ sl_ok h' x /\ sl_bytes h' x = sl_bytes h x.
Proof.
  intros I B Ox K E. pose proof (effect_push_copy h g src h' g' I B E) as Ef.
  split; [exact (Keeps_effect h g h' g' x Ox Ef K)|exact (frame_effect h g h' g' x Ox Ef)].
Qed.

Definition KF (h : heap) (g : giov) (h' : heap) (g' : giov) (x : gsl) : Prop :=
  Keeps g' x /\ sl_ok h' x /\ sl_bytes h' x = sl_bytes h x.

Lemma inp_len h g inp p off : InpOK h g inp p off -> sl_len inp = nlen p.
Proof. destruct inp as [c o n|q]; cbn [InpOK sl_len]; [tauto|intros ->; reflexivity]. Qed.

Lemma gd_once_keeps copy mi ms inp p st h g off m s r h' g' x :
  GS m s h g -> InpOK h g inp p off -> dwf st -> sl_ok h x -> sl_before inp x -> Keeps g x ->
  gd_once copy mi ms inp p st h g off = Some (r, h', g') -> KF h g h' g' x.
Proof.
  intros G IO W Ox Hix K E. destruct (GS_good _ _ _ _ G) as (I & B). unfold gd_once in E. unfold byte in *.
  destruct (skipn off p) as [|b t] eqn:Ey; [discriminate|]. cbv beta iota in E. rewrite <- Ey in *.
  assert (Hlen : off < length p).
  { destruct (Nat.lt_ge_cases off (length p)) as [H|H]; [exact H|]. rewrite skipn_all2 in Ey by lia. discriminate. }
  unfold KF. destruct st as [|ins|b0|rem term].
  - destruct (mi <? N.to_nat b); inversion E; subst; auto.
  - destruct ins.
    + cbv beta iota in E. match type of E with context [push_copy ?a ?b ?c] => destruct (push_copy a b c) as [[h1 g1]|] eqn:EP; [|discriminate] end.
      pose proof (push_copy_keeps_frame _ _ _ _ _ _ I B Ox K EP) as H.
      destruct (RADIX <=? N.to_nat b); inversion E; subst; exact H.
    + destruct (RADIX <=? N.to_nat b); inversion E; subst; auto.
  - destruct (RADIX <=? N.to_nat b); [inversion E; subst; auto|].
    destruct (ms <? N.to_nat b0 + N.to_nat b * RADIX); inversion E; subst; auto.
  - cbn [dwf] in W. set (k := Nat.min (length p - off) rem) in *.
    match type of E with match ?y with _ => _ end = _ => destruct y as [[h1 g1]|] eqn:EP; [|discriminate] end.
    inversion E; subst r h1 g1. clear E. destruct copy.
    + exact (push_copy_keeps_frame _ _ _ _ _ _ I B Ox K EP).
    + destruct (sub_ok h g inp p off k IO ltac:(unfold k; lia) ltac:(unfold k; lia)) as (Hok & _ & _).
      apply (push_keeps_frame h g (sub inp off k) h' g' x I B Hok Ox); [|exact K|exact EP].
      apply sl_before_sub; [exact Hix|]. rewrite (inp_len _ _ _ _ _ IO). unfold nlen, k. lia.
Qed.

Lemma KF_trans h g h1 g1 h2 g2 x : KF h g h1 g1 x -> KF h1 g1 h2 g2 x -> KF h g h2 g2 x.
Proof. intros (A & B & C) (A' & B' & C'). unfold KF. split; [exact A'|]. split; [exact B'|congruence]. Qed.

Lemma gd_loop_keeps copy mi ms inp p x : forall fuel st h g off m s r h' g',
  GS m s h g -> InpOK h g inp p off -> dwf st -> sl_ok h x -> sl_before inp x -> Keeps g x ->
  gd_loop fuel copy mi ms inp p st h g off = Some (r, h', g') -> KF h g h' g' x.
Proof.
  induction fuel as [|fuel IH]; intros st h g off m s r h' g' G IO W Ox Hix K E; cbn [gd_loop] in E; unfold byte in *.
  - inversion E; subst. unfold KF. auto.
  - destruct (skipn off p) as [|b t] eqn:Ey; [inversion E; subst; unfold KF; auto|].
    destruct (gd_once copy mi ms inp p st h g off) as [[[r1 h1] g1]|] eqn:E1; [|discriminate].
    pose proof (gd_once_keeps copy mi ms inp p st h g off m s r1 h1 g1 x G IO W Ox Hix K E1) as K1.
    pose proof (GeoDecProofs.sim_gd_once copy mi ms inp p st h g off m s r1 h1 g1 G IO W E1) as S1.
    destruct r1 as [[st1 c1]|]; [|inversion E; subst; exact K1].
    destruct (dec_once mi ms st (skipn off p)) as [[[st1' c1'] out1]|] eqn:D1; [|contradiction].
    destruct S1 as (<- & <- & G1 & IO1).
    pose proof (GeoDecProofs.dec_once_wf _ _ _ _ _ _ _ W D1) as W1.
    destruct K1 as (K1 & O1 & B1).
    pose proof (IH st1 h1 g1 (off + c1) m (s_push s out1) r h' g' G1 IO1 W1 O1 Hix K1 E) as K2.
    eapply KF_trans; [|exact K2]. unfold KF. auto.
Qed.

Lemma gd_piece_keeps copy mi ms inp p st h g m s st' ok h' g' x :
  GS m s h g -> InpOK h g inp p 0 -> sl_bytes h inp = p -> dwf st -> sl_ok h x -> sl_before inp x -> Keeps g x ->
  gd_piece copy mi ms inp st h g = Some (st', ok, h', g') -> KF h g h' g' x.
Proof.
  intros G IO Hp W Ox Hix K E. unfold gd_piece in E. rewrite Hp in E. unfold byte in *.
  destruct (gd_loop (S (length p)) copy mi ms inp p st h g 0) as [[[r h1] g1]|] eqn:EL; [|discriminate].
  pose proof (gd_loop_keeps copy mi ms inp p x _ st h g 0 m s r h1 g1 G IO W Ox Hix K EL) as H.
  destruct r; inversion E; subst; exact H.
Qed.

(* ---- the decoder only ever appends to the heap ---- *)
From WP Require Import hcobs.GeoChunker.
Definition FR (h h' : heap) : Prop := GeoChunker.frame h h' /\ length h <= length h'.
Lemma FR_refl h : FR h h. Proof. split; [apply frame_refl|lia]. Qed.
Lemma FR_trans h1 h2 h3 : FR h1 h2 -> FR h2 h3 -> FR h1 h3.
Proof. intros (A & B) (A' & B'). split; [eapply frame_trans; eauto|lia]. Qed.
Lemma effect_FR h g h' g' : effect h g h' g' -> FR h h'.
Proof.
  intros E. split; [|apply (he_len _ _ _ (ef_heap _ _ _ _ E))].
  intros s0 O0. destruct (frame_effect h g h' g' s0 O0 E) as (A & B). auto.
Qed.
Lemma push_FR h g sl h' g' : GInv h g -> BInv g -> push h sl g = Some (h', g') -> FR h h'.
Proof.
  intros I B E. unfold push in E. match type of E with (if ?c then _ else _) = _ => destruct c end.
  - exact (effect_FR _ _ _ _ (effect_push_copy h g _ h' g' I B E)).
  - destruct (push_borrowed sl g); [|discriminate]. inversion E; subst. apply FR_refl.
Qed.

Lemma gd_once_FR copy mi ms inp p st h g off m s r h' g' :
  GS m s h g -> gd_once copy mi ms inp p st h g off = Some (r, h', g') -> FR h h'.
Proof.
  intros G E. destruct (GS_good _ _ _ _ G) as (I & B). unfold gd_once in E. unfold byte in *.
  destruct (skipn off p) as [|b t]; [discriminate|]. cbv beta iota in E.
  destruct st as [|ins|b0|rem term].
  - destruct (mi <? N.to_nat b); inversion E; subst; apply FR_refl.
  - destruct ins.
    + cbv beta iota in E. match type of E with context [push_copy ?a ?b ?c] => destruct (push_copy a b c) as [[h1 g1]|] eqn:EP; [|discriminate] end.
      pose proof (effect_FR _ _ _ _ (effect_push_copy h g _ h1 g1 I B EP)) as H.
      destruct (RADIX <=? N.to_nat b); inversion E; subst; exact H.
    + destruct (RADIX <=? N.to_nat b); inversion E; subst; apply FR_refl.
  - destruct (RADIX <=? N.to_nat b); [inversion E; subst; apply FR_refl|].
    destruct (ms <? N.to_nat b0 + N.to_nat b * RADIX); inversion E; subst; apply FR_refl.
  - match type of E with match ?y with _ => _ end = _ => destruct y as [[h1 g1]|] eqn:EP; [|discriminate] end.
    inversion E; subst r h1 g1. clear E. destruct copy.
    + exact (effect_FR _ _ _ _ (effect_push_copy h g _ h' g' I B EP)).
    + exact (push_FR h g _ h' g' I B EP).
Qed.

Lemma gd_loop_FR copy mi ms inp p : forall fuel st h g off m s r h' g',
  GS m s h g -> InpOK h g inp p off -> dwf st ->
  gd_loop fuel copy mi ms inp p st h g off = Some (r, h', g') -> FR h h'.
Proof.
  induction fuel as [|fuel IH]; intros st h g off m s r h' g' G IO W E; cbn [gd_loop] in E; unfold byte in *.
  - inversion E; subst. apply FR_refl.
  - destruct (skipn off p) as [|b t] eqn:Ey; [inversion E; subst; apply FR_refl|].
    destruct (gd_once copy mi ms inp p st h g off) as [[[r1 h1] g1]|] eqn:E1; [|discriminate].
    pose proof (gd_once_FR copy mi ms inp p st h g off m s r1 h1 g1 G E1) as F1.
    pose proof (GeoDecProofs.sim_gd_once copy mi ms inp p st h g off m s r1 h1 g1 G IO W E1) as S1.
    destruct r1 as [[st1 c1]|]; [|inversion E; subst; exact F1].
    destruct (dec_once mi ms st (skipn off p)) as [[[st1' c1'] out1]|] eqn:D1; [|contradiction].
    destruct S1 as (<- & <- & G1 & IO1).
    pose proof (GeoDecProofs.dec_once_wf _ _ _ _ _ _ _ W D1) as W1.
    eapply FR_trans; [exact F1|]. exact (IH st1 h1 g1 (off + c1) m (s_push s out1) r h' g' G1 IO1 W1 E).
Qed.

Lemma gd_piece_FR copy mi ms inp p st h g m s st' ok h' g' :
  GS m s h g -> InpOK h g inp p 0 -> sl_bytes h inp = p -> dwf st ->
  gd_piece copy mi ms inp st h g = Some (st', ok, h', g') -> FR h h'.
Proof.
  intros G IO Hp W E. unfold gd_piece in E. rewrite Hp in E. unfold byte in *.
  destruct (gd_loop (S (length p)) copy mi ms inp p st h g 0) as [[[r h1] g1]|] eqn:EL; [|discriminate].
  pose proof (gd_loop_FR copy mi ms inp p _ st h g 0 m s r h1 g1 G IO W EL) as H.
  destruct r; inversion E; subst; exact H.
Qed.

(* ---- sizes and clearing ---- *)
Lemma GS_bytes m s h g out : GS m s h g -> GeoDecProofs.bytes_of_sink s = Some out -> taken s = [] ->
  Geo.all_bytes h g = out /\ total_size g = nlen out.
Proof.
  intros (I & p & SRf & Rf & PI) HB HT. unfold GeoDecProofs.bytes_of_sink in HB. rewrite HT in HB. cbn [app] in HB.
  destruct (EncSink.all_bytes (cells s)) as [r|] eqn:EB; [|discriminate]. inversion HB; subst r.
  destruct (GeoDecProofs.all_bytes_stable _ _ EB) as (_ & Ec).
  pose proof (sr_cells _ _ _ SRf) as HC. rewrite Ec, map_ren_bytes in HC. unfold Pipe.abs in HC. symmetry in HC.
  pose proof (GeoEncProofs.abs_bytes _ _ HC) as HA.
  split; [rewrite (R_all_bytes h g p Rf); exact HA|].
  unfold total_size. pose proof (r_logical _ _ _ Rf) as L. pose proof (r_taken _ _ _ Rf) as T.
  pose proof (PipeProofs.inv_size _ PI) as SZ.
  assert (length (concat (Pipe.slices p)) = length out) by (rewrite <- HA, map_length; reflexivity).
  unfold nlen. lia.
Qed.

Lemma GS_clear m s h g : GS m s h g -> GS m s_empty h (clear g).
Proof.
  intros (I & p & SRf & Rf & PI). destruct (clear_refines h g p I) as (I' & R').
  split; [exact I'|]. exists Pipe.empty_st. split; [apply SR_empty|]. split; [exact R'|apply PipeProofs4.Inv_empty].
Qed.
