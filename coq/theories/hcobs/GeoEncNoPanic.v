(* The memory-level encoder (hcobs/GeoEnc.v) never panics on pieces of less than 2^62 bytes: whenever the sink-level
   encoder returns (and it always does: EncSinkProofs), every assert of the encoder holds in the memory-level run too (the
   states agree), every push / push_copy / register_patch finds room arithmetic that fits in usize, and backfill_or_panic
   finds the encoder's own Backref pending in the iovec with the length it registered. *)
From Coq Require Import List NArith Bool Arith Lia.
From WP Require Import hcobs.Stuffing hcobs.EncChunks hcobs.EncChunksProofs hcobs.Dec hcobs.EncSink hcobs.SinkSim hcobs.EncSinkProofs.
From WP Require Import iovec.Geo iovec.GeoMem iovec.GeoProofs iovec.GeoRefine iovec.GeoHistory iovec.GeoSink iovec.GeoWorld iovec.GeoNoPanic.
From WP Require Import hcobs.GeoEnc hcobs.GeoEncInp hcobs.GeoEncProofs.
From WP Require hcobs.GeoChunker.
Import ListNotations.
Open Scope nat_scope.

Ltac sp := match goal with |- _ /\ _ => split; [|sp] | _ => idtac end.

Lemma GS_Good m s h g : GS m s h g -> Good h g.
Proof. intros (I & p & S & Rs & PI). split; [exact I|]. eauto. Qed.

(* the encoder's handle is pending in the iovec *)
Definition EH (ge : genc) (g : giov) : Prop := exists b, gbref ge = Some b /\ In b (gbackrefs g).

Lemma push_copy_backrefs m s h g src h' g' : GS m s h g -> push_copy h src g = Some (h', g') -> gbackrefs g' = gbackrefs g.
Proof.
  intros (I & p & S & Rs & PI) E. destruct src as [|x t] eqn:Es; [cbn in E; inversion E; reflexivity|]. rewrite <- Es in *.
  assert (Hne : src <> []) by (rewrite Es; discriminate).
  destruct (push_copy_core h g p src h' g' (Pipe.plain src) I Rs Hne E (map_fst_plain src)) as (_ & _ & Ebr & _). exact Ebr.
Qed.
Lemma push_backrefs m s h g sl h' g' : GS m s h g -> push h sl g = Some (h', g') -> gbackrefs g' = gbackrefs g.
Proof.
  intros G E. unfold push in E. match type of E with (if ?c then _ else _) = _ => destruct c end.
  - eapply push_copy_backrefs; eauto.
  - unfold push_borrowed in E. destruct (sl_len sl =? 0)%N; [inversion E; reflexivity|].
    match type of E with context [back ?L] => destruct (back L) as [a|]; [|discriminate] end.
    match type of E with match optimize ?G with _ => _ end = _ => destruct (optimize G) as [gx|] eqn:EO; [|discriminate] end.
    inversion E; subst. destruct (optimize_spec _ _ EO) as (_ & _ & _ & _ & Ebr & _). exact Ebr.
Qed.

Lemma register_handle h pat g h' g' b : register_patch h pat g = Some (h', g', Some b) -> In b (gbackrefs g').
Proof.
  unfold register_patch. destruct pat as [|x t]; [discriminate|].
  destruct (push_copy h (x :: t) g) as [[h1 g1]|]; [|discriminate].
  destruct (back (gslices g1)) as [l|]; [|discriminate].
  destruct (glogical g1 =? 0)%N; [discriminate|].
  destruct (back (gbackrefs g1)) as [q|].
  - match goal with |- context[if ?c then _ else _] => destruct c end; [discriminate|]. intros E; inversion E; subst. cbn [gbackrefs].
    apply in_or_app. right. now left.
  - intros E; inversion E; subst. cbn [gbackrefs]. now left.
Qed.

(* ---- the sink operations the encoder performs ---- *)
Lemma np_write m e ge s h g (copy : bool) inp p off n e' s' : GS m s h g -> ER m e ge s -> InpOK h g inp p off ->
  enc_write e s (firstn n (skipn off p)) = Ok (e', s') -> length (firstn n (skipn off p)) = n -> (nlen p <= BIG)%N ->
  exists ge' h' g', ge_write copy inp p ge h g off n = Some (ge', h', g') /\ (EH ge g -> EH ge' g').
Proof.
  intros G R IO E1 Hlen Hbig. unfold enc_write in E1. unfold ge_write. unfold byte in *.
  destruct n as [|n']; [eauto 6|]. set (n := S n') in *.
  destruct (firstn n (skipn off p)) as [|x t] eqn:EF; [cbn in Hlen; lia|]. rewrite <- EF in *. rewrite Hlen in E1.
  assert (Hle : off + n <= length p) by (rewrite firstn_length, skipn_length in Hlen; lia).
  destruct (GS_good _ _ _ _ G) as (I & B).
  assert (EP : exists h1 g1, (if copy then push_copy h (firstn n (skipn off p)) g else push h (sub inp off n) g) = Some (h1, g1)).
  { destruct copy.
    - apply push_copy_no_panic; [exact I|]. unfold nlen in *. rewrite Hlen. lia.
    - destruct (sub_ok h g inp p off n IO ltac:(unfold n; lia) Hle) as (Hok & _ & Hb).
      apply push_no_panic; [exact I|]. rewrite <- (sl_len_bytes h _ Hok), Hb. unfold nlen in *. rewrite Hlen. lia. }
  destruct EP as (h1 & g1 & EP). rewrite EP.
  assert (Ebr : gbackrefs g1 = gbackrefs g).
  { destruct copy; [eapply push_copy_backrefs; eauto|eapply push_backrefs; eauto]. }
  destruct R as (A & B0 & _). rewrite <- A, <- B0.
  destruct (maxc e <? cur e + n); [discriminate|]. eexists _, h1, g1. split; [reflexivity|].
  intros (b & Eb & Hin). exists b. cbn [with_cur gbref]. rewrite Ebr. auto.
Qed.

Lemma np_partial m e ge s h g e' s' : GS m s h g -> ER m e ge s ->
  enc_write_partial_stuff e s = Ok (e', s') ->
  exists ge' h' g', ge_write_partial_stuff ge h g = Some (ge', h', g') /\ (EH ge g -> EH ge' g').
Proof.
  intros G R E1. unfold enc_write_partial_stuff in E1. unfold ge_write_partial_stuff.
  destruct (GS_good _ _ _ _ G) as (I & B).
  match goal with |- context [push_copy ?a ?b ?c] => destruct (push_copy_no_panic a b c I) as (h1 & g1 & EP); [unfold BIG, nlen; cbn; lia|] end.
  rewrite EP. pose proof (push_copy_backrefs m s h g _ h1 g1 G EP) as Ebr.
  destruct R as (A & B0 & _). rewrite <- A, <- B0. destruct (maxc e <? cur e + 1); [discriminate|]. eexists _, h1, g1. split; [reflexivity|].
  intros (b & Eb & Hin). exists b. cbn [with_cur gbref]. rewrite Ebr. auto.
Qed.

Lemma np_header m e ge s h g n s' : GS m s h g -> ER m e ge s -> EH ge g ->
  encode_header n s e = Ok s' -> exists r, ge_encode_header n h g (gbref ge) = Some r.
Proof.
  intros G (_ & _ & _ & _ & b & Eb & Hl & _) (b' & Eb' & Hin) E1. rewrite Eb in Eb'. inversion Eb'; subst b'.
  unfold encode_header in E1. unfold ge_encode_header. rewrite Eb. cbn [bref_len]. rewrite Hl.
  destruct (RADIX * RADIX <=? n); [discriminate|].
  destruct (negb ((1 <=? EncSink.blen e) && (EncSink.blen e <=? 2))) eqn:Eb2; [discriminate|].
  destruct (negb (N.eqb (nth (EncSink.blen e) [N.of_nat (n mod RADIX); N.of_nat (n / RADIX); 0%N] 0%N) 0%N)); [discriminate|].
  apply (backfill_no_panic h g b); [exact (GS_Good _ _ _ _ G)|exact Hin|].
  apply negb_false_iff, andb_true_iff in Eb2 as (X1 & X2). apply Nat.leb_le in X1, X2.
  unfold nlen. rewrite firstn_length. cbn [length]. lia.
Qed.

Lemma np_new_subsequent m s h g ms : GS m s h g -> exists ge h' g', ge_new_subsequent h g ms = Some (ge, h', g') /\ EH ge g'.
Proof.
  intros G. unfold ge_new_subsequent.
  destruct (register_no_panic h [0%N; 0%N] g (GS_Good _ _ _ _ G) ltac:(unfold BIG, nlen; cbn; lia)) as ([[h1 g1] b] & E). rewrite E.
  destruct (sim_register m s h g [0%N; 0%N] h1 g1 b G ltac:(discriminate) E) as (_ & b0 & -> & _).
  eexists _, h1, g1. split; [reflexivity|]. exists b0. split; [reflexivity|exact (register_handle _ _ _ _ _ _ E)].
Qed.

(* ---- consume_once ---- *)
Lemma np_consume_once m e ge s h g (copy : bool) ms inp p off e' s' c :
  GS m s h g -> ER m e ge s -> EH ge g -> InpOK h g inp p off -> (nlen p <= BIG)%N ->
  consume_once_s ms e s (skipn off p) = Ok (e', s', c) ->
  exists ge' h' g', ge_consume_once copy ms inp p ge h g off = Some (ge', h', g', c) /\ EH ge' g'.
Proof.
  intros G R H IO Hbig E1. unfold consume_once_s in E1. unfold ge_consume_once. unfold byte in *.
  destruct (skipn off p) as [|b0 y0] eqn:Ey; [discriminate|]. cbv beta iota in E1 |- *. rewrite <- Ey in *.
  assert (R0 := R). destruct R0 as (HM & HC & HD & _). rewrite <- HM, <- HC, <- HD.
  destruct (negb (cur e + (if mid e then 1 else 0) <? maxc e)); [discriminate|].
  (* closing a chunk from any related state whose handle is pending *)
  assert (Hclose : forall (e2 : enc) (s2 : sink) (ge2 : genc) (h2 : heap) (g2 : giov) k,
    GS m s2 h2 g2 -> ER m e2 ge2 s2 -> EH ge2 g2 ->
    match encode_header (cur e2) s2 e2 with
    | Panic => Panic
    | Ok s3 => let '(e3, s4) := enc_new_subsequent s3 ms in Ok (e3, s4, k)
    end = Ok (e', s', c) ->
    exists ge' h' g',
      match ge_encode_header (gcur ge2) h2 g2 (gbref ge2) with
      | None => None
      | Some (h3, g3) => match ge_new_subsequent h3 g3 ms with
                         | None => None
                         | Some (e4, h4, g4) => Some (e4, h4, g4, k)
                         end
      end = Some (ge', h', g', c) /\ EH ge' g').
  { intros e2 s2 ge2 h2 g2 k G2 R2 H2 X1.
    destruct (encode_header (cur e2) s2 e2) as [s3|] eqn:EH1; [|discriminate].
    assert (Hc2 : cur e2 = gcur ge2) by (destruct R2 as (_ & B & _); exact B). rewrite <- Hc2.
    destruct (np_header m e2 ge2 s2 h2 g2 (cur e2) s3 G2 R2 H2 EH1) as ([h3 g3] & GH). rewrite GH.
    pose proof (sim_header _ _ _ _ _ _ _ _ _ _ G2 R2 EH1 GH) as G3.
    destruct (np_new_subsequent m s3 h3 g3 ms G3) as (ge4 & h4 & g4 & GN & H4). rewrite GN.
    destruct (enc_new_subsequent s3 ms) as [e3 s4]. inversion X1; subst. eauto. }
  destruct (mid e && N.eqb b0 FD)%bool.
  { rewrite HC. exact (Hclose e s ge h g 1 G R H E1). }
  destruct (negb (cur e <? maxc e)); [discriminate|].
  (* the held-back FE is written first *)
  assert (HW : exists e1 s1 ge1 h1 g1,
    (if mid e then match enc_write_partial_stuff e s with
                   | Panic => Panic
                   | Ok (e1, s1) => if negb (cur e1 <? maxc e1) then Panic else Ok (e1, s1) end
     else Ok (e, s)) = Ok (e1, s1) /\
    (if mid e then match ge_write_partial_stuff ge h g with
                   | None => None
                   | Some (e1, h1, g1) => if negb (gcur e1 <? gmaxc e1) then None else Some (e1, h1, g1) end
     else Some (ge, h, g)) = Some (ge1, h1, g1) /\ GS m s1 h1 g1 /\ ER m e1 ge1 s1 /\ InpOK h1 g1 inp p off /\ EH ge1 g1).
  { destruct (mid e).
    - destruct (enc_write_partial_stuff e s) as [[e1 s1]|] eqn:EP; [|discriminate].
      destruct (np_partial m e ge s h g e1 s1 G R EP) as (ge1 & h1 & g1 & GP & H1). rewrite GP.
      destruct (sim_partial _ _ _ _ _ _ _ _ _ _ _ G R EP GP) as (G1 & R1).
      pose proof (inp_partial m s h g ge ge1 h1 g1 inp p off G GP IO) as IO1.
      assert (R10 := R1). destruct R10 as (A1 & B1 & _). rewrite <- A1, <- B1.
      destruct (negb (cur e1 <? maxc e1)); [discriminate|]. exists e1, s1, ge1, h1, g1. sp; auto.
    - exists e, s, ge, h, g. sp; auto. }
  destruct HW as (e1 & s1 & ge1 & h1 & g1 & W1 & W2 & G1 & R1 & IO1 & H1). rewrite W1 in E1. rewrite W2.
  assert (R10 := R1). destruct R10 as (HM1 & HC1 & HD1 & _). rewrite <- HM1, <- HC1.
  set (remaining := maxc e1 - cur e1) in *. set (window := firstn remaining (skipn off p)) in *.
  destruct window as [|wb wt] eqn:EW; [discriminate|]. rewrite <- EW in *.
  assert (LWin : length window <= remaining) by (unfold window; rewrite firstn_length; lia).
  assert (LWy : length window <= length (skipn off p)) by (unfold window; rewrite firstn_length; lia).
  destruct (find_stuff window) as [idx|] eqn:F.
  - apply find_some_len in F as (F1 & F2). unfold byte in *.
    destruct (enc_write e1 s1 (firstn idx (skipn off p))) as [[e2 s2]|] eqn:EWr; [|discriminate].
    assert (Hl : length (firstn idx (skipn off p)) = idx) by (rewrite firstn_length; lia).
    destruct (np_write m e1 ge1 s1 h1 g1 copy inp p off idx e2 s2 G1 R1 IO1 EWr Hl Hbig) as (ge2 & h2 & g2 & GWr & H2). rewrite GWr.
    destruct (sim_write m e1 ge1 s1 h1 g1 copy inp p off idx e2 s2 ge2 h2 g2 G1 R1 IO1 EWr Hl GWr) as (G2 & R2 & _).
    exact (Hclose e2 s2 ge2 h2 g2 (idx + 2) G2 R2 (H2 H1) E1).
  - destruct (length window =? remaining) eqn:EL.
    + apply Nat.eqb_eq in EL.
      destruct (enc_write e1 s1 window) as [[e2 s2]|] eqn:EWr; [|discriminate].
      assert (Hl : length (firstn remaining (skipn off p)) = remaining) by (fold window; lia).
      destruct (np_write m e1 ge1 s1 h1 g1 copy inp p off remaining e2 s2 G1 R1 IO1 EWr Hl Hbig) as (ge2 & h2 & g2 & GWr & H2). rewrite GWr.
      destruct (sim_write m e1 ge1 s1 h1 g1 copy inp p off remaining e2 s2 ge2 h2 g2 G1 R1 IO1 EWr Hl GWr) as (G2 & R2 & _).
      exact (Hclose e2 s2 ge2 h2 g2 remaining G2 R2 (H2 H1) E1).
    + rewrite ends_fe_fast_eq.
      set (m' := ends_fe window) in *. set (tc := if m' then length window - 1 else length window) in *.
      assert (Rm : ER m (set_mid e1 m') (gset_mid ge1 m') s1).
      { destruct R1 as (A & B & C & D). unfold ER. cbn. auto. }
      assert (Hm1 : EH (gset_mid ge1 m') g1) by (destruct H1 as (b & Eb & Hin); exists b; cbn [gset_mid gbref]; auto).
      destruct (enc_write (set_mid e1 m') s1 (firstn tc (skipn off p))) as [[e2 s2]|] eqn:EWr; [|discriminate].
      assert (Htc : length (firstn tc (skipn off p)) = tc).
      { rewrite firstn_length. unfold tc. destruct m'; lia. }
      destruct (np_write m _ _ s1 h1 g1 copy inp p off tc e2 s2 G1 Rm IO1 EWr Htc Hbig) as (ge2 & h2 & g2 & GWr & H2). rewrite GWr.
      destruct (sim_write m _ _ s1 h1 g1 copy inp p off tc e2 s2 ge2 h2 g2 G1 Rm IO1 EWr Htc GWr) as (G2 & R2 & _).
      assert (R20 := R2). destruct R20 as (HM2 & HC2 & HD2 & _). rewrite <- HM2, <- HC2, <- HD2.
      destruct (negb (cur e2 + (if mid e2 then 1 else 0) <? maxc e2)); [discriminate|].
      inversion E1; subst. eexists _, _, _. split; [reflexivity|exact (H2 Hm1)].
Qed.

(* ---- the encode loop, one piece, terminate ---- *)
Lemma np_loop (copy : bool) ms inp p : (nlen p <= BIG)%N -> forall fuel m e ge s h g off e' s',
  GS m s h g -> ER m e ge s -> EH ge g -> InpOK h g inp p off ->
  encode_loop_s fuel ms e s (skipn off p) = Ok (e', s') ->
  exists ge' h' g', ge_loop fuel copy ms inp p ge h g off = Some (ge', h', g') /\ EH ge' g'.
Proof.
  intros Hbig. induction fuel as [|fuel IH]; intros m e ge s h g off e' s' G R H IO E1; cbn [encode_loop_s ge_loop] in *; unfold byte in *.
  - eauto 6.
  - destruct (skipn off p) as [|b0 y0] eqn:Ey; [eauto 6|]. rewrite <- Ey in *.
    destruct (consume_once_s ms e s (skipn off p)) as [[[e1 s1] c]|] eqn:C1; [|discriminate].
    destruct (np_consume_once m e ge s h g copy ms inp p off e1 s1 c G R H IO Hbig C1) as (ge1 & h1 & g1 & C2 & H1). rewrite C2.
    destruct (sim_consume_once m e ge s h g copy ms inp p off e1 s1 c ge1 h1 g1 c G R IO C1 C2) as (_ & m1 & G1 & R1 & IO1).
    rewrite skipn_length in E1.
    destruct (negb (c <=? length p - off)); [discriminate|].
    assert (Hm : mid e = gmid ge) by (destruct R as (_ & _ & X & _); exact X).
    assert (Hm1 : mid e1 = gmid ge1) by (destruct R1 as (_ & _ & X & _); exact X).
    rewrite <- Hm, <- Hm1.
    destruct (negb ((0 <? c) || negb (mid e1) && mid e)); [discriminate|].
    rewrite GeoMem.skipn_skipn' in E1.
    exact (IH m1 e1 ge1 s1 h1 g1 (off + c) e' s' G1 R1 H1 IO1 E1).
Qed.

Lemma np_piece (copy : bool) ms inp p m e ge s h g e' s' :
  GS m s h g -> ER m e ge s -> EH ge g -> InpOK h g inp p 0 -> sl_bytes h inp = p -> (nlen p <= BIG)%N ->
  encode_piece_s ms e s p = Ok (e', s') ->
  exists ge' h' g', ge_piece copy ms inp ge h g = Some (ge', h', g') /\ EH ge' g'.
Proof.
  intros G R H IO Hp Hbig E1. unfold encode_piece_s in E1. unfold ge_piece. rewrite Hp.
  exact (np_loop copy ms inp p Hbig _ m e ge s h g 0 e' s' G R H IO E1).
Qed.

Lemma np_terminate m e ge s h g s' : GS m s h g -> ER m e ge s -> EH ge g ->
  terminate_s e s = Ok s' -> exists r, ge_terminate ge h g = Some r.
Proof.
  intros G R H E1. unfold terminate_s in E1. unfold ge_terminate.
  assert (Hm : mid e = gmid ge) by (destruct R as (_ & _ & X & _); exact X). rewrite <- Hm.
  assert (HW : exists e1 s1 ge1 h1 g1,
    (if mid e then enc_write_partial_stuff e s else Ok (e, s)) = Ok (e1, s1) /\
    (if mid e then ge_write_partial_stuff ge h g else Some (ge, h, g)) = Some (ge1, h1, g1) /\ GS m s1 h1 g1 /\ ER m e1 ge1 s1 /\ EH ge1 g1).
  { destruct (mid e).
    - destruct (enc_write_partial_stuff e s) as [[e1 s1]|] eqn:EP; [|discriminate].
      destruct (np_partial m e ge s h g e1 s1 G R EP) as (ge1 & h1 & g1 & GP & H1).
      destruct (sim_partial _ _ _ _ _ _ _ _ _ _ _ G R EP GP) as (G1 & R1). exists e1, s1, ge1, h1, g1. sp; auto.
    - exists e, s, ge, h, g. sp; auto. }
  destruct HW as (e1 & s1 & ge1 & h1 & g1 & W1 & W2 & G1 & R1 & H1). rewrite W1 in E1. rewrite W2.
  assert (R10 := R1). destruct R10 as (HM1 & HC1 & _). rewrite <- HM1, <- HC1.
  destruct (negb (cur e1 <? maxc e1)); [discriminate|].
  exact (np_header m e1 ge1 s1 h1 g1 (cur e1) s' G1 R1 H1 E1).
Qed.

(* ---- whole histories of encode / encode_copy / encode_read calls ---- *)
Definition esmall (o : geop) : Prop :=
  match o with
  | GEBorrow p | GECopy p => (nlen p <= BIG)%N
  | GERead got count => (nlen got <= count)%N /\ (count <= BIG)%N
  | _ => False
  end.

Lemma esmall_simple o : esmall o -> simple o.
Proof. destruct o; cbn; tauto. Qed.

Section Hist.
Variables mi ms : nat.
Hypothesis Hmi : 0 < mi <= 252.
Hypothesis Hms : 0 < ms < RADIX * RADIX.

Lemma np_run : forall ops m e2 ge s h g est x,
  Forall esmall ops -> GS m s h g -> ER m e2 ge s -> EH ge g -> Sim mi ms e2 s est -> Rep mi ms est x ->
  exists ge' h' g' out, ge_run ms ge h g ops = Some (ge', h', g', out) /\
    exists m' e2' s' est' x', GS m' s' h' g' /\ ER m' e2' ge' s' /\ EH ge' g' /\ Sim mi ms e2' s' est' /\ Rep mi ms est' x'.
Proof.
  induction ops as [|o r IH]; intros m e2 ge s h g est x Hs G R H S Rp; cbn [ge_run].
  - eexists _, _, _, _. split; [reflexivity|]. exists m, e2, s, est, x. sp; auto.
  - inversion Hs as [|? ? Ho Hr]; subst.
    assert (Hpiece : forall (copy : bool) p ge0 h0 g0 inp m0 (post : giov -> giov),
      GS m0 s h0 g0 -> ER m0 e2 ge0 s -> EH ge0 g0 -> InpOK h0 g0 inp p 0 -> sl_bytes h0 inp = p -> (nlen p <= BIG)%N ->
      (forall m1 s1 h1 g1, GS m1 s1 h1 g1 -> GS m1 s1 h1 (post g1)) -> (forall g1, gbackrefs (post g1) = gbackrefs g1) ->
      exists gex hx gx, ge_piece copy ms inp ge0 h0 g0 = Some (gex, hx, gx) /\
        exists m1 e21 s1, GS m1 s1 hx (post gx) /\ ER m1 e21 gex s1 /\ EH gex (post gx) /\ Sim mi ms e21 s1 (encode_piece ms est p)).
    { intros copy p ge0 h0 g0 inp m0 post G0 R0 H0 IO0 Hb0 Hbig Hpost Hpb.
      destruct (encode_piece_sim mi ms Hmi Hms e2 s est x p S Rp) as (e21 & s1 & E1 & S1 & T1).
      destruct (np_piece copy ms inp p m0 e2 ge0 s h0 g0 e21 s1 G0 R0 H0 IO0 Hb0 Hbig E1) as (gex & hx & gx & EP & Hx).
      destruct (sim_piece copy ms inp p m0 e2 ge0 s h0 g0 e21 s1 gex hx gx G0 R0 IO0 Hb0 E1 EP) as (m1 & G1 & R1).
      exists gex, hx, gx. split; [exact EP|]. exists m1, e21, s1. sp; auto.
      destruct Hx as (b & Eb & Hin). exists b. rewrite Hpb. auto. }
    destruct o as [p|p|got count|k|n]; cbn [esmall] in Ho; try contradiction; cbn [ge_step].
    + destruct (Hpiece false p ge h g (SExt p) m (fun y => y) G R H (InpOK_ext h g p 0) eq_refl Ho (fun _ _ _ _ X => X) (fun _ => eq_refl))
        as (ge1 & h1 & g1 & -> & m1 & e21 & s1 & G1 & R1 & H1 & S1).
      pose proof (encode_piece_rep mi ms ltac:(lia) ltac:(lia) est x p Rp) as Rp1.
      destruct (IH m1 e21 ge1 s1 h1 g1 _ _ Hr G1 R1 H1 S1 Rp1) as (ge' & h' & g' & out & -> & X). eauto 8.
    + destruct (Hpiece true p ge h g (SExt p) m (fun y => y) G R H (InpOK_ext h g p 0) eq_refl Ho (fun _ _ _ _ X => X) (fun _ => eq_refl))
        as (ge1 & h1 & g1 & -> & m1 & e21 & s1 & G1 & R1 & H1 & S1).
      pose proof (encode_piece_rep mi ms ltac:(lia) ltac:(lia) est x p Rp) as Rp1.
      destruct (IH m1 e21 ge1 s1 h1 g1 _ _ Hr G1 R1 H1 S1 Rp1) as (ge' & h' & g' & out & -> & X). eauto 8.
    + destruct Ho as (Hle & Hbig). unfold ge_read.
      destruct (GeoChunker.as_read_n_no_panic h (gcache_ g) got count Hle Hbig) as ([[hr kr] a] & EA). rewrite EA.
      destruct (sim_read_n m s h g got count hr kr a G EA) as (Gr & Hpos).
      assert (Hr0 : EH ge (set_cache kr g)) by (destruct H as (b & Eb & Hin); exists b; auto).
      unfold ge_anchored. destruct (as_len a =? 0)%N eqn:E0.
      * destruct (IH m e2 ge s hr (set_cache kr g) est x Hr Gr R Hr0 S Rp) as (ge' & h' & g' & out & -> & X). eauto 8.
      * destruct (Hpos eq_refl) as (IOr & Hbr).
        destruct (Hpiece false got ge hr (set_cache kr g) (as_sl a) m (push_anchor (as_anchor a)) Gr R Hr0 IOr Hbr (N.le_trans _ _ _ Hle Hbig)
                    (fun m1 s1 h1 g1 X => GS_push_anchor m1 s1 h1 g1 (as_anchor a) X) (fun _ => eq_refl))
          as (ge1 & h1 & g1 & -> & m1 & e21 & s1 & G1 & R1 & H1 & S1).
        pose proof (encode_piece_rep mi ms ltac:(lia) ltac:(lia) est x got Rp) as Rp1.
        destruct (IH m1 e21 ge1 s1 h1 _ _ _ Hr G1 R1 H1 S1 Rp1) as (ge' & h' & g' & out & -> & X). eauto 8.
Qed.

(* C01 at memory level, unconditionally: for every history of encode / encode_copy / encode_read calls of less than 2^62 bytes
   each, construction, every call and finish return (no assertion of the encoder, the iovec or the arena fires) *)
Theorem genc_never_panics ops : Forall esmall ops ->
  exists e h g ge' h' g' out hf gf,
    ge_new [] empty_iov mi = Some (e, h, g) /\ ge_run ms e h g ops = Some (ge', h', g', out) /\
    ge_terminate ge' h' g' = Some (hf, gf).
Proof.
  intros Hs. unfold ge_new.
  destruct (register_no_panic [] [0%N] empty_iov (GS_Good _ _ _ _ (GS_empty (fun y => y))) ltac:(unfold BIG, nlen; cbn; lia)) as ([[h g] b] & E0).
  rewrite E0.
  assert (E0' : ge_new [] empty_iov mi = Some ({| gmaxc := mi; gcur := 0; gmid := false; gbref := b |}, h, g)) by (unfold ge_new; now rewrite E0).
  pose proof (sim_new (fun y => y) s_empty [] empty_iov mi _ h g (GS_empty _) E0') as N0.
  pose proof (init_sim mi ms) as S0. destruct (enc_new s_empty mi) as [e0 s0] eqn:EN.
  destruct N0 as (m0 & G0 & R0).
  assert (H0 : EH {| gmaxc := mi; gcur := 0; gmid := false; gbref := b |} g).
  { destruct (sim_register (fun y => y) s_empty [] empty_iov [0%N] h g b (GS_empty _) ltac:(discriminate) E0) as (_ & b0 & -> & _).
    exists b0. split; [reflexivity|exact (register_handle _ _ _ _ _ _ E0)]. }
  destruct (np_run ops m0 e0 _ s0 h g (init mi) [] Hs G0 R0 H0 S0 (rep_init mi ms ltac:(lia)))
    as (ge' & h' & g' & out & E1 & m' & e2' & s' & est' & x' & G' & R' & H' & S' & Rp').
  destruct (terminate_sim mi ms Hmi Hms e2' s' est' _ S' Rp') as (sf & ET & _).
  destruct (np_terminate m' e2' ge' s' h' g' sf G' R' H' ET) as ([hf gf] & E2).
  eexists _, h, g, ge', h', g', out, hf, gf. sp; [reflexivity|exact E1|exact E2].
Qed.
End Hist.
