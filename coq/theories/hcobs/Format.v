(* The HCOBS wire format as a direct recursive parser (`unframe`), independent of the decoder's
   state machine, and the proof that the faithful decoder accepts exactly what it defines:
   accept (run DInit e) = decode_ref e for every byte string e. *)
From Coq Require Import List NArith Bool Arith Lia.
From WP Require Import hcobs.Stuffing hcobs.EncChunks hcobs.EncChunksProofs hcobs.Dec.
Import ListNotations.

Definition read_hdr (first : bool) (mi ms : nat) (e : list byte) : option (nat * list byte) :=
  if first then
    match e with
    | b :: r => let n := N.to_nat b in if mi <? n then None else Some (n, r)
    | [] => None
    end
  else
    match e with
    | b0 :: b1 :: r =>
      if (RADIX <=? N.to_nat b0) || (RADIX <=? N.to_nat b1) then None
      else let n := N.to_nat b0 + N.to_nat b1 * RADIX in if ms <? n then None else Some (n, r)
    | _ => None
    end.

(* chunk sequence: header, exactly n payload bytes, and so on; must end on a short chunk *)
Fixpoint unframe (fuel : nat) (first : bool) (mi ms : nat) (e : list byte) : option (list (list byte)) :=
  match fuel with
  | O => None
  | S fuel =>
    match read_hdr first mi ms e with
    | None => None
    | Some (n, rest) =>
      if length rest <? n then None
      else
        let c := firstn n rest in
        let rest' := skipn n rest in
        match rest' with
        | [] => if n <? (if first then mi else ms) then Some [c] else None
        | _ => match unframe fuel false mi ms rest' with Some cs => Some (c :: cs) | None => None end
        end
    end
  end.

Definition decode_ref (mi ms : nat) (e : list byte) : option (list byte) :=
  match unframe (S (length e)) true mi ms e with Some cs => unstuff mi ms cs | None => None end.

Definition accept (r : option (dstate * list byte)) : option (list byte) :=
  match r with Some (st, out) => if dterminate st then Some out else None | None => None end.

Lemma accept_bind2 st1 o1 f : accept (bind2 (Some (st1, o1)) f) = option_map (app o1) (accept (f st1)).
Proof. cbn [bind2]. destruct (f st1) as [[s o]|]; cbn [accept option_map]; [destruct (dterminate s)|]; reflexivity. Qed.

Lemma decode_pieces_accept mi ms pieces : decode_pieces mi ms pieces = accept (decode_pieces_from mi ms DInit pieces).
Proof. reflexivity. Qed.

Section Exact.
Variables mi ms : nat.

Lemma unframe_nonempty fuel first e cs : unframe fuel first mi ms e = Some cs -> cs <> [].
Proof.
  destruct fuel; cbn [unframe]; [discriminate|]. destruct (read_hdr first mi ms e) as [[n rest]|]; [|discriminate].
  destruct (length rest <? n); [discriminate|]. destruct (skipn n rest).
  - destruct (n <? _); [|discriminate]. intros H; inversion H; discriminate.
  - destruct (unframe fuel false mi ms _); [|discriminate]. intros H; inversion H; discriminate.
Qed.

(* a payload that is cut short leaves the decoder inside the chunk: not accepted *)
Lemma run_cut_short n term r : length r < n -> accept (run mi ms (DIn n term) r) = None.
Proof.
  intros H. destruct r as [|b t]; [reflexivity|].
  rewrite (run_in_chunk mi ms (length (b :: t)) n term (b :: t)) by (cbn [length] in *; lia).
  assert (length (b :: t) <? n = true) as -> by (apply Nat.ltb_lt; exact H).
  rewrite skipn_all. cbn [run bind2 accept dterminate]. reflexivity.
Qed.

Lemma run_payload' st_term c rest : 1 <= length c ->
  run mi ms (DIn (length c) st_term) (c ++ rest) = bind2 (Some (DBefore st_term, c)) (fun st' => run mi ms st' rest).
Proof.
  intros H. rewrite (run_in_chunk mi ms (length c) (length c) st_term (c ++ rest)) by (rewrite ?app_length; lia).
  rewrite Nat.ltb_irrefl. now rewrite firstn_app, firstn_all, Nat.sub_diag, app_nil_r, skipn_app, skipn_all, Nat.sub_diag.
Qed.
Lemma after_header_run' n limit c rest : length c = n ->
  run mi ms (after_header n limit) (c ++ rest) = bind2 (Some (DBefore (n <? limit), c)) (fun st' => run mi ms st' rest).
Proof.
  intros L. unfold after_header. destruct (0 <? n) eqn:E.
  - apply Nat.ltb_lt in E. rewrite <- L. apply run_payload'. lia.
  - apply Nat.ltb_ge in E. assert (n = 0) by lia. subst n. destruct c; [|discriminate]. cbn [app bind2].
    destruct (run mi ms _ rest) as [[? ?]|]; reflexivity.
Qed.

Lemma after_header_accept n limit r :
  accept (run mi ms (after_header n limit) r) =
  if length r <? n then None
  else option_map (app (firstn n r)) (accept (run mi ms (DBefore (n <? limit)) (skipn n r))).
Proof.
  destruct (length r <? n) eqn:E.
  - apply Nat.ltb_lt in E. unfold after_header. assert (0 <? n = true) as -> by (apply Nat.ltb_lt; lia).
    apply run_cut_short. exact E.
  - apply Nat.ltb_ge in E. rewrite <- (firstn_skipn n r) at 1.
    rewrite (after_header_run' n limit (firstn n r) (skipn n r)) by (rewrite firstn_length; lia).
    apply accept_bind2.
Qed.

Lemma unframe_rest_exact : forall fuel e ins, length e < fuel -> e <> [] ->
  accept (run mi ms (DBefore ins) e) =
  match unframe fuel false mi ms e with
  | Some cs => option_map (app (if ins then [FE; FD] else [])) (unstuff ms ms cs)
  | None => None
  end.
Proof.
  induction fuel as [|fuel IH]; intros e ins Hf Hne; [lia|].
  destruct e as [|b0 t]; [congruence|]. destruct t as [|b1 r].
  { cbn [unframe read_hdr run dstep dec_once].
    destruct (RADIX <=? N.to_nat b0); [reflexivity|]. cbn [run accept dterminate]. reflexivity. }
  cbn [unframe read_hdr]. cbn [run dstep dec_once].
  destruct (RADIX <=? N.to_nat b0) eqn:E0; [reflexivity|]. cbn [orb].
  cbn [run dstep dec_once]. destruct (RADIX <=? N.to_nat b1) eqn:E1; [reflexivity|].
  set (n := N.to_nat b0 + N.to_nat b1 * RADIX). destruct (ms <? n) eqn:En; [reflexivity|].
  change (match run mi ms (after_header n ms) r with
          | Some (st'', out') => Some (st'', [] ++ out') | None => None end) with (bind2 (Some (after_header n ms, [])) (fun st => run mi ms st r)).
  change (match bind2 (Some (after_header n ms, [])) (fun st => run mi ms st r) with
          | Some (st'', out') => Some (st'', (if ins then [FE; FD] else []) ++ out') | None => None end)
    with (bind2 (Some (DMid b0, if ins then [FE; FD] else [])) (fun _ => bind2 (Some (after_header n ms, [])) (fun st => run mi ms st r))).
  rewrite !accept_bind2. cbn [app]. rewrite after_header_accept.
  destruct (length r <? n) eqn:EL; [reflexivity|]. apply Nat.ltb_ge in EL.
  destruct (skipn n r) as [|x rest'] eqn:ES.
  - cbn [run accept dterminate]. destruct (n <? ms) eqn:Enm; cbn [option_map unstuff]; [|reflexivity].
    rewrite firstn_length. replace (Nat.min n (length r)) with n by lia. rewrite Enm. cbn [option_map].
    now rewrite app_nil_r.
  - rewrite <- ES. assert (Hl : length (skipn n r) < fuel) by (rewrite skipn_length; cbn [length] in Hf; lia).
    rewrite (IH (skipn n r) (n <? ms) Hl ltac:(rewrite ES; discriminate)).
    destruct (unframe fuel false mi ms (skipn n r)) as [cs|] eqn:EU; [|reflexivity].
    rewrite unstuff_cons by (eapply unframe_nonempty; eauto).
    destruct (unstuff ms ms cs) as [r'|]; cbn [option_map]; [|reflexivity].
    rewrite firstn_length. replace (Nat.min n (length r)) with n by lia. reflexivity.
Qed.

(* the decoder accepts exactly the format, and returns what the format defines *)
Theorem decoder_exact e : accept (run mi ms DInit e) = decode_ref mi ms e.
Proof.
  unfold decode_ref. destruct e as [|b r]; [reflexivity|]. cbn [unframe read_hdr run dstep dec_once].
  set (n := N.to_nat b). destruct (mi <? n) eqn:En; [reflexivity|].
  change (match run mi ms (after_header n mi) r with
          | Some (st'', out') => Some (st'', [] ++ out') | None => None end) with (bind2 (Some (after_header n mi, [])) (fun st => run mi ms st r)).
  rewrite accept_bind2. cbn [app]. rewrite after_header_accept.
  assert (Hid : forall o : option (list byte), option_map (app []) o = o) by (intros [?|]; reflexivity). rewrite Hid.
  destruct (length r <? n) eqn:EL; [reflexivity|]. apply Nat.ltb_ge in EL.
  destruct (skipn n r) as [|x rest'] eqn:ES.
  - cbn [run accept dterminate]. destruct (n <? mi) eqn:Enm; cbn [option_map unstuff]; [|reflexivity].
    rewrite firstn_length. replace (Nat.min n (length r)) with n by lia. rewrite Enm. now rewrite app_nil_r.
  - rewrite <- ES. assert (Hl : length (skipn n r) < length (b :: r)) by (rewrite skipn_length; cbn [length]; lia).
    rewrite (unframe_rest_exact (length (b :: r)) (skipn n r) (n <? mi) Hl ltac:(rewrite ES; discriminate)).
    destruct (unframe (length (b :: r)) false mi ms (skipn n r)) as [cs|] eqn:EU; [|reflexivity].
    rewrite unstuff_cons by (eapply unframe_nonempty; eauto).
    destruct (unstuff ms ms cs) as [r'|]; cbn [option_map]; [|reflexivity].
    rewrite firstn_length. replace (Nat.min n (length r)) with n by lia. reflexivity.
Qed.

(* independent of how the string is split across decode calls *)
Corollary decode_pieces_exact pieces : decode_pieces mi ms pieces = decode_ref mi ms (concat pieces).
Proof. rewrite decode_pieces_accept, decode_any_segmentation by exact I. apply decoder_exact. Qed.
End Exact.
