(* StreamChunker::pump at memory level: the carried-over bytes and every emitted Data chunk are AnchoredSlices of the
   geometry-faithful arena model (iovec/Geo.v).  The model refines the value-level chunker of hcobs/Chunker.v (same chunk
   sequence, byte for byte), every Data chunk handed out lies inside the chunk its own anchor holds, and a refill never
   changes a byte that an earlier chunk still reads. *)
From Coq Require Import List NArith Lia Bool Arith.
From WP Require Import hcobs.Stuffing hcobs.EncChunks hcobs.Chunker.
From WP Require Import iovec.Geo iovec.GeoMem iovec.GeoProofs iovec.GeoAslice.
Import ListNotations.
Open Scope nat_scope.

Inductive gchunk := GSentinel (off : nat) | GEof | GData (off : nat) (a : aslice).
Record gcst := { gbuf : aslice; goffset : nat; grest : list byte }.

Definition buf_bytes (h : heap) (s : gcst) : list N := sl_bytes h (as_sl (gbuf s)).
Definition abs_st (h : heap) (s : gcst) : cst := {| buf := buf_bytes h s; offset := goffset s; rest := grest s |}.
Definition abs_chunk (h : heap) (c : gchunk) : Chunker.chunk :=
  match c with GSentinel o => Sentinel o | GEof => Eof | GData o a => Data o (sl_bytes h (as_sl a)) end.

(* the refill loop: the carried bytes are re-read through the reader chain (carry first, then the stream) into a fresh
   allocation of the arena; the old buffer is dropped *)
Fixpoint gfill (fuel : nat) (bs : nat) (h : heap) (k : option gcache) (s : gcst)
  : option (heap * option gcache * (gcst + (gchunk * gcst))) :=
  match fuel with
  | O => Some (h, k, inl s)
  | S fuel =>
    let carry := buf_bytes h s in
    if 2 <=? length carry then Some (h, k, inl s)
    else
      let init := length carry in
      let want := init + Nat.max bs 1 in
      let '(got, r') := refill want carry (grest s) in
      match as_read_n h k got (N.of_nat want) with
      | None => None
      | Some (h', k', a) =>
        if N.to_nat (as_len a) =? init then
          (if init =? 0 then Some (h', k', inr (GEof, {| gbuf := as_default; goffset := goffset s; grest := r' |}))
           else Some (h', k', inr (GData (goffset s + N.to_nat (as_len a)) a,
                                    {| gbuf := as_default; goffset := goffset s + N.to_nat (as_len a); grest := r' |})))
        else gfill fuel bs h' k' {| gbuf := a; goffset := goffset s; grest := r' |}
      end
  end.

Definition gpump (bs : nat) (h : heap) (k : option gcache) (s : gcst) : option (heap * option gcache * gchunk * gcst) :=
  match gfill 3 bs h k s with
  | None => None
  | Some (h1, k1, inr (c, s1)) => Some (h1, k1, c, s1)
  | Some (h1, k1, inl s1) =>
    let b := buf_bytes h1 s1 in
    if starts_stuff b then
      Some (h1, k1, GSentinel (goffset s1 + 2),
            {| gbuf := fst (as_skip_prefix (gbuf s1) 2); goffset := goffset s1 + 2; grest := grest s1 |})
    else
      let split_pos := match find_stuff b with
                       | Some i => i
                       | None => if ends_fe b then length b - 1 else length b
                       end in
      let '(prefix, rem) := as_split_at (gbuf s1) (N.of_nat split_pos) in
      Some (h1, k1, GData (goffset s1 + split_pos) prefix,
            {| gbuf := rem; goffset := goffset s1 + split_pos; grest := grest s1 |})
  end.

(* ---- invariant and frame ---- *)
Record CInv (h : heap) (k : option gcache) (s : gcst) : Prop := {
  ci_heap : heap_ok h; ci_cache : cache_ok h k; ci_buf : as_ok h (gbuf s) }.
Definition frame (h h' : heap) : Prop := forall s0, sl_ok h s0 -> sl_bytes h' s0 = sl_bytes h s0 /\ sl_ok h' s0.
Lemma frame_refl h : frame h h. Proof. intros s0 H. auto. Qed.
Lemma frame_trans h1 h2 h3 : frame h1 h2 -> frame h2 h3 -> frame h1 h3.
Proof. intros A B s0 H. destruct (A s0 H) as (E1 & O1). destruct (B s0 O1) as (E2 & O2). split; [congruence|exact O2]. Qed.

Lemma as_ok_frame h h' a : frame h h' -> (length h <= length h')%nat -> as_ok h a -> as_ok h' a /\ sl_bytes h' (as_sl a) = sl_bytes h (as_sl a).
Proof.
  intros F HL H. unfold as_ok in *. destruct (as_sl a) as [c off len|bs] eqn:Es; [|auto].
  destruct H as (A & B & C).
  destruct (N.eq_dec len 0%N) as [->|Hpos].
  - (* an empty slice reads nothing wherever it points *)
    assert (Hgrow : (off <= nlen (cdata (chunk_at h' c)))%N).
    { destruct (N.eq_dec off 0%N) as [->|Ho]; [lia|].
      destruct (F (SArena c (off - 1)%N 1%N)) as (_ & O); [cbn [sl_ok]; repeat split; auto; lia|]. cbn [sl_ok] in O. lia. }
    split; [repeat split; auto; lia|]. cbn [sl_bytes]. reflexivity.
  - destruct (F (SArena c off len)) as (E & O); [cbn [sl_ok]; repeat split; auto; lia|].
    cbn [sl_ok] in O. split; [repeat split; auto; tauto|exact E].
Qed.

Definition chunk_ok (h : heap) (c : gchunk) : Prop := match c with GData _ a => as_ok h a | _ => True end.

(* what one ByteArena::read_n contributes *)
Lemma read_step h k s got want h' k' a :
  CInv h k s -> 0 < want -> length got <= want ->
  as_read_n h k got (N.of_nat want) = Some (h', k', a) ->
  frame h h' /\ length h <= length h' /\ heap_ok h' /\ cache_ok h' k' /\ as_ok h' a /\
  sl_bytes h' (as_sl a) = got /\ N.to_nat (as_len a) = length got.
Proof.
  intros [Hh Hk Hb] Hw Hg E.
  assert (P : (0 < N.of_nat want)%N) by lia.
  assert (Q : (nlen got <= N.of_nat want)%N) by (unfold nlen; lia).
  destruct (as_read_n_ok _ _ _ _ _ _ _ Hk Hh P Q E) as (A1 & A2 & A3).
  unfold as_read_n in E. destruct (arena_read_n h k got (N.of_nat want)) as [[[[h1 k1] s1] an]|] eqn:EA; [|discriminate].
  inversion E; subst h1 k1 a; clear E.
  destruct (arena_read_n_spec _ _ _ _ _ _ _ _ Hk Hh P Q EA) as (kk & -> & Hk' & Hh' & HL & F & _).
  split; [exact F|]. split; [exact HL|]. split; [exact Hh'|]. split; [exact Hk'|]. split; [exact A1|]. split; [exact A2|]. etransitivity; [|apply Nat2N.id]. f_equal. exact A3.
Qed.

Ltac sp := match goal with |- _ /\ _ => split; [|sp] | _ => idtac end.

Lemma gfill_refines : forall fuel bs h k s, CInv h k s ->
  match gfill fuel bs h k s with
  | None => True                                   (* the arena's capacity arithmetic overflowed: a panic *)
  | Some (h', k', inl s1) =>
    frame h h' /\ length h <= length h' /\ CInv h' k' s1 /\ fill fuel bs (abs_st h s) = inl (abs_st h' s1)
  | Some (h', k', inr (c, s1)) =>
    frame h h' /\ length h <= length h' /\ CInv h' k' s1 /\ chunk_ok h' c /\
    fill fuel bs (abs_st h s) = inr (abs_chunk h' c, abs_st h' s1)
  end.
Proof.
  induction fuel as [|fuel IH]; intros bs h k s I; cbn [gfill fill].
  - sp; auto using frame_refl.
  - cbn [abs_st buf offset rest]. unfold byte in *.
    destruct (2 <=? length (buf_bytes h s)) eqn:E2; [sp; auto using frame_refl|].
    destruct (refill (length (buf_bytes h s) + Nat.max bs 1) (buf_bytes h s) (grest s)) as [got r'] eqn:R.
    assert (Hgot : length got <= length (buf_bytes h s) + Nat.max bs 1).
    { unfold refill in R. inversion R. rewrite firstn_length. lia. }
    destruct (as_read_n h k got (N.of_nat (length (buf_bytes h s) + Nat.max bs 1))) as [[[h1 k1] a]|] eqn:EA; [|exact Logic.I].
    assert (Hw : 0 < length (buf_bytes h s) + Nat.max bs 1) by (pose proof (Nat.le_max_r bs 1); lia).
    destruct (read_step _ _ _ _ _ _ _ _ I Hw Hgot EA) as (F & HL & Hh1 & Hk1 & Ha & Eb & El).
    rewrite El. unfold byte in *.
    destruct (length got =? length (buf_bytes h s)) eqn:Ep.
    + rewrite ?Ep. destruct (length (buf_bytes h s) =? 0) eqn:E0; rewrite ?E0.
      * sp; auto; [constructor; auto; apply as_default_ok|exact Logic.I].
      * sp; auto; [constructor; auto; apply as_default_ok|]. cbn [abs_chunk abs_st buf_bytes gbuf goffset grest as_default as_sl sl_bytes].
        rewrite Eb. reflexivity.
    + rewrite ?Ep. specialize (IH bs h1 k1 {| gbuf := a; goffset := goffset s; grest := r' |}).
      assert (I1 : CInv h1 k1 {| gbuf := a; goffset := goffset s; grest := r' |}) by (constructor; auto).
      specialize (IH I1).
      assert (Eabs : abs_st h1 {| gbuf := a; goffset := goffset s; grest := r' |} = {| buf := got; offset := goffset s; rest := r' |}).
      { unfold abs_st, buf_bytes. cbn [gbuf goffset grest]. rewrite Eb. reflexivity. }
      rewrite Eabs in IH.
      destruct (gfill fuel bs h1 k1 {| gbuf := a; goffset := goffset s; grest := r' |}) as [[[h2 k2] [s2|[c s2]]]|]; [| |exact Logic.I].
      * destruct IH as (F2 & HL2 & I2 & E). sp; eauto using frame_trans; lia.
      * destruct IH as (F2 & HL2 & I2 & C2 & E). sp; eauto using frame_trans; lia.
Qed.

Lemma as_ok_len h a : as_ok h a -> length (sl_bytes h (as_sl a)) = N.to_nat (as_len a).
Proof.
  unfold as_ok, as_len. destruct (as_sl a) as [c off len|bs]; cbn [sl_bytes sl_len].
  - intros (_ & _ & C). unfold nfirstn, nskipn. rewrite firstn_length, skipn_length. unfold nlen in C. lia.
  - intros ->. reflexivity.
Qed.

Lemma split_bytes {A} (l r b : list A) n : l ++ r = b -> length l = n -> l = firstn n b /\ r = skipn n b.
Proof.
  intros <- <-. rewrite firstn_app, Nat.sub_diag, firstn_all, skipn_app, Nat.sub_diag, skipn_all. cbn. now rewrite app_nil_r.
Qed.

Theorem gpump_refines bs h k s : CInv h k s ->
  match gpump bs h k s with
  | None => True                                   (* the arena's capacity arithmetic overflowed: a panic *)
  | Some (h', k', c, s') =>
    frame h h' /\ length h <= length h' /\ CInv h' k' s' /\ chunk_ok h' c /\
    pump bs (abs_st h s) = (abs_chunk h' c, abs_st h' s')
  end.
Proof.
  intros I. unfold gpump, pump. pose proof (gfill_refines 3 bs h k s I) as G.
  destruct (gfill 3 bs h k s) as [[[h1 k1] [s1|[c s1]]]|]; [| |exact Logic.I].
  - destruct G as (F & HL & I1 & E). rewrite E. cbn [abs_st buf offset rest]. destruct I1 as [Hh1 Hk1 Hb1].
    pose proof (as_ok_len _ _ Hb1) as Lb. fold (buf_bytes h1 s1) in Lb.
    destruct (starts_stuff (buf_bytes h1 s1)) eqn:ES.
    + destruct (as_skip_prefix_ok h1 (gbuf s1) 2%N Hb1) as (A1 & A2 & A3).
      apply stuff_head_true in ES as (t & Et).
      assert (L2 : (2 <= as_len (gbuf s1))%N) by (rewrite Et in Lb; cbn [length] in Lb; lia).
      sp; auto; [constructor; auto|exact Logic.I|].
      cbn [abs_chunk]. f_equal. unfold abs_st, buf_bytes. cbn [gbuf goffset grest]. f_equal.
      rewrite A3. replace (N.min 2 (as_len (gbuf s1))) with 2%N by lia. reflexivity.
    + set (sp0 := match find_stuff (buf_bytes h1 s1) with
                  | Some i => i
                  | None => if ends_fe (buf_bytes h1 s1) then length (buf_bytes h1 s1) - 1 else length (buf_bytes h1 s1)
                  end).
      pose proof (as_split_at_ok h1 (gbuf s1) (N.of_nat sp0) Hb1) as SP.
      destruct (as_split_at (gbuf s1) (N.of_nat sp0)) as [pre rem].
      destruct SP as (O1 & O2 & Eapp & Elen & _).
      assert (Hsp : sp0 <= length (buf_bytes h1 s1)).
      { unfold sp0. destruct (find_stuff (buf_bytes h1 s1)) as [i|] eqn:Fi.
        - apply find_stuff_some in Fi as (p0 & q0 & E0 & L0 & _). rewrite E0, app_length. cbn [length]. lia.
        - destruct (ends_fe (buf_bytes h1 s1)); lia. }
      pose proof (as_ok_len _ _ O1) as L1.
      destruct (split_bytes _ _ _ sp0 Eapp ltac:(lia)) as (P1 & P2).
      sp; auto; [constructor; auto|].
      cbn [abs_chunk]. unfold abs_st, buf_bytes. cbn [gbuf goffset grest]. rewrite P1, P2. reflexivity.
  - destruct G as (F & HL & I1 & C1 & E). rewrite E. sp; auto.
Qed.

(* ---- a whole stream: every chunk ever handed out, read in the final memory ---- *)
Fixpoint gpump_all (fuel bs : nat) (h : heap) (k : option gcache) (s : gcst) : option (heap * list gchunk) :=
  match fuel with
  | O => Some (h, [])
  | S fuel =>
    match gpump bs h k s with
    | None => None
    | Some (h1, k1, c, s1) =>
      match c with
      | GEof => Some (h1, [GEof])
      | _ => match gpump_all fuel bs h1 k1 s1 with
             | None => None
             | Some (hf, cs) => Some (hf, c :: cs)
             end
      end
    end
  end.

Lemma chunk_frame h h' c : frame h h' -> length h <= length h' -> chunk_ok h c -> chunk_ok h' c /\ abs_chunk h' c = abs_chunk h c.
Proof.
  intros F HL H. destruct c as [o| |o a]; cbn [chunk_ok abs_chunk] in *; auto.
  destruct (as_ok_frame _ _ _ F HL H) as (A & B). split; [exact A|]. now rewrite B.
Qed.

Theorem gpump_all_refines : forall fuel bs h k s hf cs, CInv h k s ->
  gpump_all fuel bs h k s = Some (hf, cs) ->
  frame h hf /\ length h <= length hf /\ Forall (chunk_ok hf) cs /\ map (abs_chunk hf) cs = pump_all fuel bs (abs_st h s).
Proof.
  induction fuel as [|fuel IH]; intros bs h k s hf cs I E; cbn [gpump_all pump_all] in *.
  - inversion E; subst. sp; auto using frame_refl.
  - pose proof (gpump_refines bs h k s I) as G.
    destruct (gpump bs h k s) as [[[[h1 k1] c] s1]|]; [|discriminate].
    destruct G as (F & HL & I1 & C1 & EP). rewrite EP.
    assert (Hrec : forall hf' cs', gpump_all fuel bs h1 k1 s1 = Some (hf', cs') ->
              frame h hf' /\ length h <= length hf' /\ Forall (chunk_ok hf') (c :: cs') /\
              map (abs_chunk hf') (c :: cs') = abs_chunk h1 c :: pump_all fuel bs (abs_st h1 s1)).
    { intros hf' cs' E'. destruct (IH _ _ _ _ _ _ I1 E') as (F' & HL' & O' & M').
      destruct (chunk_frame _ _ _ F' HL' C1) as (Oc & Ec).
      sp; [eapply frame_trans; eauto|lia|constructor; auto|cbn [map]; now rewrite Ec, M']. }
    destruct c as [o| |o a]; cbn [abs_chunk].
    + destruct (gpump_all fuel bs h1 k1 s1) as [[hf' cs']|] eqn:E'; [|discriminate]. inversion E; subst hf' cs. clear E.
      exact (Hrec _ _ eq_refl).
    + inversion E; subst. sp; auto. 
    + destruct (gpump_all fuel bs h1 k1 s1) as [[hf' cs']|] eqn:E'; [|discriminate]. inversion E; subst hf' cs. clear E.
      exact (Hrec _ _ eq_refl).
Qed.

Definition gchunks_of (bs : nat) (stream : list byte) : option (heap * list gchunk) :=
  gpump_all (S (S (length stream))) bs [] None {| gbuf := as_default; goffset := 0; grest := stream |}.

Lemma CInv_init stream : CInv [] None {| gbuf := as_default; goffset := 0; grest := stream |}.
Proof. constructor; [intros c Hc; cbn in Hc; lia|exact Logic.I|apply as_default_ok]. Qed.

Theorem gchunks_of_refines bs stream hf cs : gchunks_of bs stream = Some (hf, cs) ->
  Forall (chunk_ok hf) cs /\ map (abs_chunk hf) cs = chunks_of bs stream.
Proof.
  intros E. destruct (gpump_all_refines _ _ _ _ _ _ _ (CInv_init stream) E) as (_ & _ & O & M). split; [exact O|exact M].
Qed.

(* ---- pump never panics for block sizes below 2^62 ---- *)
From WP Require Import iovec.GeoNoPanic.
Open Scope nat_scope.

Lemma as_read_n_no_panic h k got count : (nlen got <= count)%N -> (count <= BIG)%N -> exists r, as_read_n h k got count = Some r.
Proof.
  intros Hg Hc. unfold as_read_n, arena_read_n.
  destruct (count =? 0)%N; [eauto|].
  destruct (count <? nlen got)%N eqn:E; [apply N.ltb_lt in E; lia|].
  destruct (alloc_no_panic h k count Hc) as (h' & k' & ->). eauto.
Qed.

Lemma gfill_no_panic : forall fuel bs h k s, (N.of_nat bs + 2 <= BIG)%N -> exists r, gfill fuel bs h k s = Some r.
Proof.
  induction fuel as [|fuel IH]; intros bs h k s Hb; cbn [gfill]; [eauto|].
  destruct (2 <=? length (buf_bytes h s)) eqn:E2; [eauto|]. apply Nat.leb_gt in E2.
  destruct (refill (length (buf_bytes h s) + Nat.max bs 1) (buf_bytes h s) (grest s)) as [got r'] eqn:R.
  assert (Hgot : length got <= length (buf_bytes h s) + Nat.max bs 1).
  { unfold refill in R. inversion R. rewrite firstn_length. lia. }
  destruct (as_read_n_no_panic h k got (N.of_nat (length (buf_bytes h s) + Nat.max bs 1))) as ([[h1 k1] a] & ->).
  - unfold nlen, byte in *. lia.
  - unfold BIG, byte in *. destruct (Nat.max_spec bs 1) as [[_ ->]|[_ ->]]; lia.
  - destruct (N.to_nat (as_len a) =? length (buf_bytes h s)); [destruct (length (buf_bytes h s) =? 0); eauto|].
    apply IH. exact Hb.
Qed.

Theorem gpump_no_panic bs h k s : (N.of_nat bs + 2 <= BIG)%N -> exists r, gpump bs h k s = Some r.
Proof.
  intros Hb. unfold gpump. destruct (gfill_no_panic 3 bs h k s Hb) as ([[h1 k1] [s1|[c s1]]] & ->); [|eauto].
  destruct (starts_stuff (buf_bytes h1 s1)); [eauto|].
  destruct (as_split_at _ _). eauto.
Qed.
