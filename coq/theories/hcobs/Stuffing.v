From Coq Require Import List NArith Lia Bool Arith.
Import ListNotations.

Definition byte := N.
Definition FE : byte := 254%N. Definition FD : byte := 253%N.

Definition stuff_head (l : list byte) : bool :=
  match l with a :: b :: _ => (N.eqb a FE && N.eqb b FD)%bool | _ => false end.

Fixpoint find_stuff (l : list byte) : option nat :=
  match l with
  | [] => None
  | _ :: t => if stuff_head l then Some 0 else option_map S (find_stuff t)
  end.

Definition no_stuff l := find_stuff l = None.

Lemma stuff_head_true l : stuff_head l = true -> exists t, l = FE :: FD :: t.
Proof.
  destruct l as [|a [|b t]]; cbn; try discriminate. intros H.
  apply andb_prop in H as [H1 H2]. apply N.eqb_eq in H1, H2. subst. eauto.
Qed.

(* first occurrence decomposition *)
Lemma find_stuff_some l i : find_stuff l = Some i ->
  exists pre post, l = pre ++ FE :: FD :: post /\ length pre = i /\ no_stuff (pre ++ [FE]).
Proof.
  revert i. induction l as [|a t IH]; intros i H; [discriminate|].
  cbn [find_stuff] in H. destruct (stuff_head (a :: t)) eqn:E.
  - inversion H; subst. apply stuff_head_true in E as [t' ->]. exists [], t'. repeat split; reflexivity.
  - destruct (find_stuff t) as [j|] eqn:F; [|discriminate]. cbn in H. inversion H; subst.
    destruct (IH j eq_refl) as (pre & post & -> & L & NS).
    exists (a :: pre), post. repeat split; cbn; [now f_equal|].
    unfold no_stuff in *. cbn [app find_stuff].
    assert (stuff_head (a :: pre ++ [FE]) = false) as ->.
    { destruct pre as [|p pre']; cbn in *.
      - destruct (N.eqb a FE); cbn in *; auto.
      - exact E. }
    fold (pre ++ [FE]). change ((fix app (l m : list byte) {struct l} : list byte := match l with | [] => m | a0 :: l1 => a0 :: app l1 m end) pre [FE]) with (pre ++ [FE]). rewrite NS. reflexivity.
Qed.

Lemma find_stuff_none_app_inv l1 l2 : no_stuff (l1 ++ l2) -> no_stuff l1.
Proof.
  unfold no_stuff. induction l1 as [|a t IH]; cbn [app find_stuff]; auto. intros H.
  destruct (stuff_head (a :: t ++ l2)) eqn:E; [discriminate|].
  destruct (find_stuff (t ++ l2)) eqn:F; [discriminate|].
  rewrite (IH eq_refl).
  assert (stuff_head (a :: t) = false) as ->; auto.
  destruct t as [|b t']; cbn in *; auto.
Qed.

(* ---- stuffing layer *)
Fixpoint stuff (fuel : nat) (limit ms : nat) (m : list byte) : list (list byte) :=
  match fuel with
  | O => []
  | S fuel =>
    match find_stuff (firstn limit m) with
    | Some i => firstn i m :: stuff fuel ms ms (skipn (i + 2) m)
    | None => if limit <=? length m then firstn limit m :: stuff fuel ms ms (skipn limit m)
              else [m]
    end
  end.

Fixpoint unstuff (limit ms : nat) (cs : list (list byte)) : option (list byte) :=
  match cs with
  | [] => None
  | c :: rest =>
    match rest with
    | [] => if length c <? limit then Some c else None
    | _ => match unstuff ms ms rest with
           | Some r => Some (c ++ (if length c <? limit then [FE; FD] else []) ++ r)
           | None => None
           end
    end
  end.

Lemma stuff_nonempty f limit ms m : stuff (S f) limit ms m <> [].
Proof. cbn. destruct (find_stuff _); [discriminate|]. destruct (_ <=? _); discriminate. Qed.

Lemma unstuff_cons limit ms c rest : rest <> [] ->
  unstuff limit ms (c :: rest) = match unstuff ms ms rest with
           | Some r => Some (c ++ (if length c <? limit then [FE; FD] else []) ++ r)
           | None => None end.
Proof. destruct rest; [congruence|reflexivity]. Qed.

Theorem unstuff_stuff : forall fuel limit ms m,
  0 < limit -> 0 < ms -> length m < fuel ->
  unstuff limit ms (stuff fuel limit ms m) = Some m.
Proof.
  induction fuel as [|f IH]; intros limit ms m Hl Hms Hf; [lia|].
  cbn [stuff]. destruct (find_stuff (firstn limit m)) as [i|] eqn:F.
  - apply find_stuff_some in F as (pre & post & E & L & _).
    assert (Hm : m = pre ++ FE :: FD :: skipn (i + 2) m /\ firstn i m = pre /\ i + 2 <= limit /\ i + 2 <= length m).
    { assert (Hlen: length (firstn limit m) = length pre + 2 + length post) by (rewrite E, app_length; cbn; lia).
      rewrite firstn_length in Hlen.
      rewrite <- (firstn_skipn limit m) at 1 2 3. rewrite E.
      assert (firstn i (pre ++ FE :: FD :: post) = pre) as Hp.
      { rewrite <- L. rewrite firstn_app, firstn_all, Nat.sub_diag. cbn. now rewrite app_nil_r. }
      repeat split; try lia.
      - rewrite <- app_assoc. f_equal. cbn. do 2 f_equal.
        rewrite <- L. replace (length pre + 2) with (length (pre ++ [FE;FD])) by (rewrite app_length; cbn; lia).
        replace (pre ++ FE :: FD :: post ++ skipn limit m) with ((pre ++ [FE;FD]) ++ post ++ skipn limit m) by (rewrite <- app_assoc; reflexivity).
        now rewrite skipn_app, skipn_all, Nat.sub_diag.
      - rewrite firstn_app. rewrite app_length in *. cbn [length] in *.
        replace (i - (length pre + S (S (length post)))) with 0 by lia. cbn. rewrite app_nil_r. exact Hp. }
    destruct Hm as (Em & Ep & Hil & Him).
    destruct f as [|f']; [cbn in Hf; lia|].
    rewrite unstuff_cons by apply stuff_nonempty.
    rewrite IH; try lia.
    + rewrite Ep. rewrite L. assert (i <? limit = true) as -> by (apply Nat.ltb_lt; lia).
      f_equal. symmetry. exact Em.
    + rewrite skipn_length. lia.
  - destruct (limit <=? length m) eqn:Le.
    + apply Nat.leb_le in Le. destruct f as [|f']; [lia|].
      rewrite unstuff_cons by apply stuff_nonempty.
      rewrite IH; try lia.
      * rewrite firstn_length_le by lia. rewrite Nat.ltb_irrefl. cbn. now rewrite firstn_skipn.
      * rewrite skipn_length. lia.
    + apply Nat.leb_gt in Le. cbn [unstuff]. apply Nat.ltb_lt in Le. now rewrite Le.
Qed.
Print Assumptions unstuff_stuff.
