(* StreamReader::next_record_bytes at memory level (hcobs/GeoReader.v) refines the value-level reader (hcobs/Reader.v): one
   call returns what Reader.next_record returns on the chunks the call pumped -- which are successive pumps of the value-level
   chunker (hcobs/Chunker.v), read in the final memory -- and the iovec handed out holds exactly the record's bytes.  Along
   the way: the chunker's buffer never overlaps a slice of the iovec, every Data chunk is decoded as anchored input that
   overlaps no slice the iovec already has, and nothing a chunk or the buffer reads is ever written. *)
From Coq Require Import List NArith Bool Arith Lia.
From WP Require Import hcobs.Stuffing hcobs.EncChunks hcobs.Dec hcobs.Chunker hcobs.ReaderRecord hcobs.Reader hcobs.EncSink hcobs.SinkSim.
From WP Require Import iovec.Geo iovec.GeoMem iovec.GeoProofs iovec.GeoRefine iovec.GeoHistory iovec.GeoSink iovec.GeoWorld iovec.GeoAslice.
From WP Require Import hcobs.GeoEnc hcobs.GeoEncInp hcobs.GeoEncProofs hcobs.GeoDec hcobs.GeoDecProofs.
From WP Require Import hcobs.GeoChunker hcobs.GeoChunkerDis hcobs.GeoReaderInv hcobs.GeoReader.
Import ListNotations.
Open Scope nat_scope.

Ltac sp := match goal with |- _ /\ _ => split; [|sp] | _ => idtac end.

Inductive Pumps (bs : nat) : cst -> list Chunker.chunk -> cst -> Prop :=
| P_nil s : Pumps bs s [] s
| P_cons s c s1 cs s2 : pump bs s = (c, s1) -> Pumps bs s1 cs s2 -> Pumps bs s (c :: cs) s2.

Definition RL (st : glstate) (lst : lstate) (h : heap) (g : giov) : Prop :=
  match st, lst with
  | MSkipSentinel, LSkipSentinel => exists m s, GS m s h g /\ bytes_of_sink s = Some [] /\ taken s = []
  | MDecode ds, LDecode ds' out => ds = ds' /\ dwf ds /\ exists m s, GS m s h g /\ bytes_of_sink s = Some out /\ taken s = []
  | MSkip, LSkip _ => exists m s, GS m s h g
  | _, _ => False
  end.
Definition RI (h : heap) (c : gcst) (g : giov) : Prop := CInv h (gcache_ g) c /\ Keeps g (as_sl (gbuf c)).

Lemma RL_GS st lst h g : RL st lst h g -> exists m s, GS m s h g.
Proof.
  destruct st, lst; cbn [RL]; try contradiction.
  - intros (m & s & G & _). eauto.
  - intros (_ & _ & m & s & G & _). eauto.
  - intros (m & s & G). eauto.
Qed.

Lemma RL_size st lst h g : RL st lst h g -> match st with MSkip => True | _ => total_size g = N.of_nat (size_of lst) end.
Proof.
  destruct st, lst; cbn [RL size_of]; try contradiction; auto.
  - intros (m & s & G & B & T). destruct (GS_bytes m s h g [] G B T) as (_ & ->). reflexivity.
  - intros (_ & _ & m & s & G & B & T). destruct (GS_bytes m s h g out G B T) as (_ & ->). reflexivity.
Qed.

Lemma abs_st_frame h h' c : FR h h' -> as_ok h (gbuf c) -> abs_st h' c = abs_st h c /\ as_ok h' (gbuf c).
Proof.
  intros (F & L) O. destruct (as_ok_frame h h' (gbuf c) F L O) as (O' & E). split; [|exact O'].
  unfold abs_st, buf_bytes. now rewrite E.
Qed.

(* an in-bounds AnchoredSlice that overlaps no slice of the iovec is a legitimate anchored input *)
Lemma InpOK_of_aslice h g a : as_ok h a -> as_len a <> 0%N -> (forall s0, In s0 (gslices g) -> nov s0 (as_sl a)) ->
  InpOK h g (as_sl a) (sl_bytes h (as_sl a)) 0 /\ sl_ok h (as_sl a).
Proof.
  intros O Hn Hd. pose proof (as_ok_len h a O) as HL. unfold as_ok, as_len in *.
  destruct (as_sl a) as [c o n|bs] eqn:Es; [|subst bs; cbn in Hn; lia]. cbn [sl_len] in *. destruct O as (_ & O1 & O2).
  assert (Hok : sl_ok h (SArena c o n)) by (cbn [sl_ok]; repeat split; auto; lia).
  split; [|exact Hok]. cbn [InpOK]. split; [unfold nlen; lia|]. split.
  - rewrite N.add_0_r, N.sub_0_r. reflexivity.
  - intros _. unfold rest. rewrite N.add_0_r, N.sub_0_r. split; [exact Hok|].
    intros s0 Hin. apply rdisj_before. destruct (Hd s0 Hin) as [H|H]; [cbn [sl_len] in H; lia|exact H].
Qed.

Lemma match_nonnil {A B} (l : list A) (x y : B) : l <> [] -> match l with [] => x | _ :: _ => y end = y.
Proof. destruct l; [contradiction|reflexivity]. Qed.

Section Reader.
Variables mi ms : nat.
Variables max limit : N.
Variable bs : nat.

(* ---- one pump ---- *)
Lemma pump_step h c g h1 k1 ch c1 : RI h c g -> (exists m s, GS m s h g) ->
  gpump bs h (gcache_ g) c = Some (h1, k1, ch, c1) ->
  FR h h1 /\ CInv h1 k1 c1 /\ chunk_ok h1 ch /\ pump bs (abs_st h c) = (abs_chunk h1 ch, abs_st h1 c1) /\
  Keeps (set_cache k1 g) (as_sl (gbuf c1)) /\
  (forall m s, GS m s h g -> GS m s h1 (set_cache k1 g)) /\
  match ch with
  | GData _ a => (forall s0, In s0 (gslices g) -> nov s0 (as_sl a)) /\ nov (as_sl a) (as_sl (gbuf c1))
  | _ => True
  end.
Proof.
  intros (I & K) (m0 & s0 & G0) E. destruct (GS_good _ _ _ _ G0) as (GI & _).
  pose proof (gpump_refines bs h (gcache_ g) c I) as R1. rewrite E in R1. destruct R1 as (F & L & I1 & C1 & P1).
  pose proof (gpump_dis (fun s => In s (gslices g)) bs h (gcache_ g) c I) as D1. rewrite E in D1.
  assert (HD : forall s, In s (gslices g) -> sl_ok h s).
  { pose proof (gi_slices h g GI) as Fs. rewrite Forall_forall in Fs. exact Fs. }
  destruct (D1 HD K) as (Db & Dc).
  pose proof (gpump_split_dis bs h (gcache_ g) c I) as S1. rewrite E in S1.
  sp; auto.
  - split; auto.
  - intros m s G. exact (GS_set_cache_frame m s h g h1 k1 G (ci_heap _ _ _ I1) (ci_cache _ _ _ I1) F).
  - destruct ch as [o| |o a]; auto.
Qed.

(* ---- decoding one Data chunk ---- *)
Lemma decode_step h1 g1 a ds out x ds' ok h2 g2 :
  dwf ds -> (exists m s, GS m s h1 g1 /\ bytes_of_sink s = Some out /\ taken s = []) ->
  as_ok h1 a -> as_len a <> 0%N -> (forall s0, In s0 (gslices g1) -> nov s0 (as_sl a)) ->
  Keeps g1 x -> nov (as_sl a) x -> (sl_len x <> 0%N -> sl_ok h1 x) ->
  gd_anchored mi ms a ds h1 g1 = Some (ds', ok, h2, g2) ->
  FR h1 h2 /\ Keeps g2 x /\
  match decode_piece mi ms ds (sl_bytes h1 (as_sl a)) with
  | Some (ds'', o1) => ok = true /\ ds' = ds'' /\ dwf ds' /\
                       exists m s, GS m s h2 g2 /\ bytes_of_sink s = Some (out ++ o1) /\ taken s = []
  | None => ok = false /\ exists m s, GS m s h2 g2
  end.
Proof.
  intros W (m & s & G & HB & HT) Oa Hn Hd K Hax Hx E.
  unfold gd_anchored in E. destruct (as_len a =? 0)%N eqn:E0; [apply N.eqb_eq in E0; contradiction|].
  destruct (gd_piece false mi ms (as_sl a) ds h1 g1) as [[[[sp0 okp] hp] gp]|] eqn:EP; [|discriminate].
  inversion E; subst ds' ok h2 g2; clear E.
  destruct (InpOK_of_aslice h1 g1 a Oa Hn Hd) as (IO & Oka).
  pose proof (gd_piece_FR false mi ms (as_sl a) _ ds h1 g1 m s sp0 okp hp gp G IO eq_refl W EP) as F.
  pose proof (sim_gd_piece false mi ms (as_sl a) _ ds h1 g1 m s sp0 okp hp gp G IO eq_refl W EP) as S.
  split; [exact F|]. split.
  - apply (Keeps_same_slices gp); [reflexivity|].
    destruct (N.eq_dec (sl_len x) 0) as [Ez|Enz]; [now apply Keeps_empty|].
    destruct Hax as [Hz|Hax]; [contradiction|].
    destruct (gd_piece_keeps false mi ms (as_sl a) _ ds h1 g1 m s sp0 okp hp gp x G IO eq_refl W (Hx Enz) Hax K EP) as (K' & _). exact K'.
  - destruct (decode_piece mi ms ds (sl_bytes h1 (as_sl a))) as [[ds2 o1]|] eqn:DP.
    + destruct S as (-> & -> & G2). sp; auto.
      * rewrite decode_piece_run in DP by exact W. eapply run_wf; eauto.
      * exists m, (s_push s o1). sp; [now apply GS_push_anchor|now apply bytes_push|exact HT].
    + destruct S as (-> & _ & junk & G2). split; [reflexivity|]. exists m, (s_push s junk). now apply GS_push_anchor.
Qed.

(* ---- small facts ---- *)
Lemma gnext_nil fuel h c g st rs re lso o h' r' :
  gnext mi ms max limit bs fuel h c g st rs re lso = (o, h', r', []) -> o = GFuel \/ o = GPanic.
Proof.
  destruct fuel as [|fuel]; cbn [gnext]; [intros E; inversion E; auto|].
  destruct (negb (Bool.eqb (rs =? re) (is_skip_sentinel st))); [intros E; inversion E; auto|].
  destruct (gpump bs h (gcache_ g) c) as [[[[h1 k1] ch] c1]|]; [|intros E; inversion E; auto].
  match goal with |- context [cons_tr ?a ?X] => destruct X as [[[o0 h0] r0] tr0] end.
  unfold cons_tr. intros E; inversion E.
Qed.

Lemma pump_eof_again (s : cst) : Chunker.remaining s = [] ->
  pump bs s = (Eof, {| buf := []; offset := offset s; Chunker.rest := [] |}).
Proof.
  destruct s as [b o r]. unfold Chunker.remaining. cbn [buf Chunker.rest offset]. intros H. apply app_eq_nil in H as (-> & ->).
  unfold pump. cbn [Chunker.fill buf Chunker.rest length Nat.leb offset]. unfold refill. cbn [app]. rewrite firstn_nil, skipn_nil. reflexivity.
Qed.

Lemma CInv_of_GS m s h g c : GS m s h g -> as_ok h (gbuf c) -> CInv h (gcache_ g) c.
Proof. intros G O. destruct (GS_good _ _ _ _ G) as (I & _). constructor; [apply (gi_heap h g I)|apply (gi_cache h g I)|exact O]. Qed.

Lemma RI_no_slices h c g k : heap_ok h -> cache_ok h k -> as_ok h (gbuf c) -> gslices g = [] -> gcache_ g = k -> RI h c g.
Proof. intros Hh Hk O Es Ek. split; [rewrite Ek; constructor; auto|]. intros s' Hs'. rewrite Es in Hs'. contradiction. Qed.

Lemma judge_rel (skip : bool) rs1 (sz : N) (n : nat) : (skip = false -> sz = N.of_nat n) ->
  match gjudge max limit rs1 sz, chunk_judge max limit rs1 n with
  | GStop, Stop => True
  | GKeepGoing, KeepGoing | GSkipRecord, SkipRecord => True
  | GKeepGoing, SkipRecord | GSkipRecord, KeepGoing => skip = true
  | _, _ => False
  end.
Proof.
  intros H. unfold gjudge, chunk_judge. destruct (limit <=? N.of_nat rs1)%N; [exact Logic.I|].
  destruct skip; [destruct (max <? sz)%N, (max <? N.of_nat n)%N; auto|].
  rewrite (H eq_refl). destruct (max <? N.of_nat n)%N; exact Logic.I.
Qed.

(* putting the pumped chunk in front of what the rest of the call pumped *)
Lemma cons_finish h c h1 ch c1 h2 h' tr' sF :
  FR h h1 -> chunk_ok h1 ch -> pump bs (abs_st h c) = (abs_chunk h1 ch, abs_st h1 c1) -> as_ok h1 (gbuf c1) ->
  FR h1 h2 -> FR h2 h' -> Forall (chunk_ok h') tr' -> Pumps bs (abs_st h2 c1) (map (abs_chunk h') tr') sF ->
  FR h h' /\ Forall (chunk_ok h') (ch :: tr') /\ Pumps bs (abs_st h c) (map (abs_chunk h') (ch :: tr')) sF /\
  abs_chunk h' ch = abs_chunk h1 ch.
Proof.
  intros F1 C1 P1 O1 F12 F2 Ftr Ptr.
  pose proof (FR_trans _ _ _ F12 F2) as F1'. destruct F1' as (Fa & Fb).
  destruct (chunk_frame h1 h' ch Fa Fb C1) as (C' & E').
  destruct (abs_st_frame h1 h2 c1 F12 O1) as (Es & _).
  sp; [exact (FR_trans _ _ _ F1 (conj Fa Fb))|constructor; auto| |exact E'].
  cbn [map]. rewrite E'. econstructor; [exact P1|]. rewrite <- Es. exact Ptr.
Qed.

(* ---- one call ---- *)
Definition Post (o : goutcome) (h' : heap) (r' : grd) (res : outcome * list Chunker.chunk * nat) (rst : list Chunker.chunk) : Prop :=
  match o with
  | GRecord rs' re' => exists out rst', res = (ORecord (out, rs', re'), rst', rlso r') /\ Geo.all_bytes h' (riov r') = out
  | GNone => exists rst', res = (ONone, rst', rlso r')
  | GPanic | GFuel => True
  end.

Definition Good (o : goutcome) (h' : heap) (r' : grd) : Prop :=
  match o with
  | GPanic | GFuel => True
  | _ => RI h' (rchunker r') (riov r') /\ exists m s, GS m s h' (riov r')
  end.

Definition Concl (h : heap) (c : gcst) (lst : lstate) (rs re lso : nat) (x : gres) : Prop :=
  let '(o, h', r', tr) := x in
  FR h h' /\ Forall (chunk_ok h') tr /\ Pumps bs (abs_st h c) (map (abs_chunk h') tr) (abs_st h' (rchunker r')) /\
  Good o h' r' /\
  forall rst, Post o h' r' (next_record mi ms max limit (map (abs_chunk h') tr ++ rst) lst rs re lso) rst.

Lemma Concl_ret_bad h c lst rs re lso o g lso' : (o = GPanic \/ o = GFuel) ->
  Concl h c lst rs re lso (o, h, {| rchunker := c; riov := g; rlso := lso' |}, []).
Proof.
  intros Ho. unfold Concl. cbn [rchunker map]. sp; [apply FR_refl|constructor|constructor| |].
  - destruct Ho as [-> | ->]; exact Logic.I.
  - intros rst. destruct Ho as [-> | ->]; exact Logic.I.
Qed.

Lemma Concl_cons h c lst rs re lso h1 ch c1 h2 o h' r' tr' :
  FR h h1 -> chunk_ok h1 ch -> pump bs (abs_st h c) = (abs_chunk h1 ch, abs_st h1 c1) -> as_ok h1 (gbuf c1) ->
  FR h1 h2 -> FR h2 h' -> Forall (chunk_ok h') tr' ->
  Pumps bs (abs_st h2 c1) (map (abs_chunk h') tr') (abs_st h' (rchunker r')) ->
  Good o h' r' ->
  (forall rst, Post o h' r' (next_record mi ms max limit (abs_chunk h1 ch :: map (abs_chunk h') tr' ++ rst) lst rs re lso) rst) ->
  Concl h c lst rs re lso (cons_tr ch (o, h', r', tr')).
Proof.
  intros F1 C1 P1 O1 F12 F2 Ftr Ptr G HP. unfold cons_tr, Concl.
  destruct (cons_finish h c h1 ch c1 h2 h' tr' _ F1 C1 P1 O1 F12 F2 Ftr Ptr) as (A & B & C & E).
  sp; auto. intros rst. cbn [map app]. rewrite E. apply HP.
Qed.

(* a sub-call's conclusion, unpacked *)
Lemma Concl_inv h c lst rs re lso o h' r' tr : Concl h c lst rs re lso (o, h', r', tr) ->
  FR h h' /\ Forall (chunk_ok h') tr /\ Pumps bs (abs_st h c) (map (abs_chunk h') tr) (abs_st h' (rchunker r')) /\
  Good o h' r' /\
  forall rst, Post o h' r' (next_record mi ms max limit (map (abs_chunk h') tr ++ rst) lst rs re lso) rst.
Proof. exact (fun H => H). Qed.

Lemma RL_skip_flag st lst h g : RL st lst h g -> is_skip_sentinel st = match lst with LSkipSentinel => true | _ => false end.
Proof. destruct st, lst; cbn [RL is_skip_sentinel]; try contradiction; reflexivity. Qed.

Lemma RL_set_cache st lst h g h1 k1 : RL st lst h g ->
  (forall m s, GS m s h g -> GS m s h1 (set_cache k1 g)) -> RL st lst h1 (set_cache k1 g).
Proof.
  intros R T. destruct st, lst; cbn [RL] in *; try contradiction.
  - destruct R as (m & s & G & B & X). exists m, s. auto.
  - destruct R as (A & W & m & s & G & B & X). sp; auto. exists m, s. auto.
  - destruct R as (m & s & G). exists m, s. auto.
Qed.

Lemma RL_fresh h : heap_ok h -> RL MSkipSentinel LSkipSentinel h empty_iov.
Proof. intros Hh. cbn [RL]. exists (fun x => x), s_empty. sp; [|reflexivity|reflexivity].
  split; [now apply GInv_empty|]. exists Pipe.empty_st. sp; [apply SR_empty|apply R_empty|apply PipeProofs4.Inv_empty]. Qed.

Lemma RL_cleared st lst h g : RL st lst h g -> RL MSkipSentinel LSkipSentinel h (clear g).
Proof. intros R. destruct (RL_GS _ _ _ _ R) as (m & s & G). cbn [RL]. exists m, s_empty. sp; [exact (GS_clear m s h g G)|reflexivity|reflexivity]. Qed.

(* a record that is complete (a Sentinel, or Eof with a non-empty range): finish it or retry *)
Definition complete_term (fuel : nat) (h1 : heap) (c1 : gcst) (g1 : giov) (st : glstate) (rs re lso2 : nat) : gres :=
  match st with
  | MDecode ds => if dterminate ds then (GRecord rs re, h1, {| rchunker := c1; riov := g1; rlso := lso2 |}, @nil gchunk)
                  else gnext mi ms max limit bs fuel h1 c1 empty_iov MSkipSentinel 0 0 lso2
  | _ => gnext mi ms max limit bs fuel h1 c1 (clear g1) MSkipSentinel 0 0 lso2
  end.
Definition CC (h1 : heap) (c1 : gcst) (lst : lstate) (rs re lso2 : nat) (x : gres) : Prop :=
  let '(o, h', r', tr') := x in
  FR h1 h' /\ Forall (chunk_ok h') tr' /\ Pumps bs (abs_st h1 c1) (map (abs_chunk h') tr') (abs_st h' (rchunker r')) /\
  Good o h' r' /\
  match finish_record lst rs re with
  | Some (out, a, b) => o = GRecord a b /\ tr' = [] /\ rlso r' = lso2 /\ Geo.all_bytes h' (riov r') = out
  | None => forall rst, Post o h' r' (next_record mi ms max limit (map (abs_chunk h') tr' ++ rst) LSkipSentinel 0 0 lso2) rst
  end.

Lemma complete_step fuel
  (IH : forall h c g st rs re lso lst, RI h c g -> RL st lst h g ->
        Concl h c lst rs re lso (gnext mi ms max limit bs fuel h c g st rs re lso))
  h1 c1 g1 st lst rs re lso2 :
  RI h1 c1 g1 -> RL st lst h1 g1 -> (rs =? re) = false -> is_skip_sentinel st = false ->
  CC h1 c1 lst rs re lso2 (complete_term fuel h1 c1 g1 st rs re lso2).
Proof.
  intros HI HR Hne Hflag. unfold complete_term, CC.
  destruct HI as (I1 & K1). destruct (RL_GS _ _ _ _ HR) as (m0 & s0 & G0). destruct (GS_good _ _ _ _ G0) as (GI & _).
  assert (Hfresh : RI h1 c1 empty_iov /\ RL MSkipSentinel LSkipSentinel h1 empty_iov).
  { split; [|apply RL_fresh; exact (ci_heap _ _ _ I1)].
    apply (RI_no_slices h1 c1 empty_iov None); [exact (ci_heap _ _ _ I1)|exact Logic.I|exact (ci_buf _ _ _ I1)|reflexivity|reflexivity]. }
  assert (Hclear : RI h1 c1 (clear g1) /\ RL MSkipSentinel LSkipSentinel h1 (clear g1)).
  { split; [|eapply RL_cleared; exact HR].
    apply (RI_no_slices h1 c1 (clear g1) (gcache_ g1)); [exact (ci_heap _ _ _ I1)|exact (ci_cache _ _ _ I1)|exact (ci_buf _ _ _ I1)|reflexivity|reflexivity]. }
  destruct st as [|ds|]; [discriminate| |]; destruct lst as [|ds' out|junk]; cbn [RL] in HR; try contradiction; cbn [finish_record].
  - destruct HR as (<- & W & m & s & G & B & T).
    destruct (dterminate ds) eqn:ET.
    + cbv beta iota. cbn [rchunker riov rlso map]. sp; [apply FR_refl|apply Forall_nil|apply P_nil| |reflexivity|reflexivity|reflexivity|exact (proj1 (GS_bytes m s h1 g1 out G B T))].
      cbn [Good]. split; [split; [exact I1|exact K1]|eauto].
    + destruct Hfresh as (HIf & HRf). pose proof (IH h1 c1 empty_iov MSkipSentinel 0 0 lso2 LSkipSentinel HIf HRf) as HC.
      destruct (gnext mi ms max limit bs fuel h1 c1 empty_iov MSkipSentinel 0 0 lso2) as [[[o h'] r'] tr'].
      exact HC.
  - destruct Hclear as (HIc & HRc). pose proof (IH h1 c1 (clear g1) MSkipSentinel 0 0 lso2 LSkipSentinel HIc HRc) as HC.
    destruct (gnext mi ms max limit bs fuel h1 c1 (clear g1) MSkipSentinel 0 0 lso2) as [[[o h'] r'] tr'].
    exact HC.
Qed.

Lemma Good_dropped h1 c1 o lso' : heap_ok h1 -> as_ok h1 (gbuf c1) ->
  Good o h1 {| rchunker := c1; riov := empty_iov; rlso := lso' |}.
Proof.
  intros Hh O. destruct o; cbn [Good rchunker riov]; auto; (split; [apply (RI_no_slices h1 c1 empty_iov None); auto; exact Logic.I|]);
    destruct (RL_fresh h1 Hh) as (m & s & G & _); eauto.
Qed.

(* after a Data chunk: ask the judge, go on / skip / stop *)
Definition judge_term (fuel : nat) (h2 : heap) (c1 : gcst) (g2 : giov) (st2 : glstate) (rs1 off lso : nat) : gres :=
  match gjudge max limit rs1 (total_size g2) with
  | GKeepGoing => gnext mi ms max limit bs fuel h2 c1 g2 st2 rs1 off lso
  | GSkipRecord => gnext mi ms max limit bs fuel h2 c1 g2 MSkip rs1 off lso
  | GStop => (GNone, h2, {| rchunker := c1; riov := empty_iov; rlso := lso |}, @nil gchunk)
  end.
Definition JC (h2 : heap) (c1 : gcst) (st2L : lstate) (rs1 off lso : nat) (x : gres) : Prop :=
  let '(o, h', r', tr') := x in
  FR h2 h' /\ Forall (chunk_ok h') tr' /\ Pumps bs (abs_st h2 c1) (map (abs_chunk h') tr') (abs_st h' (rchunker r')) /\
  Good o h' r' /\
  forall rst, Post o h' r'
    (match chunk_judge max limit rs1 (size_of st2L) with
     | KeepGoing => next_record mi ms max limit (map (abs_chunk h') tr' ++ rst) st2L rs1 off lso
     | SkipRecord => next_record mi ms max limit (map (abs_chunk h') tr' ++ rst) (LSkip (size_of st2L)) rs1 off lso
     | Stop => (ONone, map (abs_chunk h') tr' ++ rst, lso)
     end) rst.

Lemma RL_to_skip st lst h g junk : RL st lst h g -> RL MSkip (LSkip junk) h g.
Proof. intros R. destruct (RL_GS _ _ _ _ R) as (m & s & G). cbn [RL]. eauto. Qed.

Lemma judge_step fuel
  (IH : forall h c g st rs re lso lst, RI h c g -> RL st lst h g ->
        Concl h c lst rs re lso (gnext mi ms max limit bs fuel h c g st rs re lso))
  h2 c1 g2 st2 st2L rs1 off lso :
  RI h2 c1 g2 -> RL st2 st2L h2 g2 -> JC h2 c1 st2L rs1 off lso (judge_term fuel h2 c1 g2 st2 rs1 off lso).
Proof.
  intros HI HR. unfold judge_term, JC.
  pose proof (RL_size _ _ _ _ HR) as Hsz.
  pose proof (judge_rel (match st2 with MSkip => true | _ => false end) rs1 (total_size g2) (size_of st2L)) as HJ.
  assert (Hs : match st2 with MSkip => true | _ => false end = false -> total_size g2 = N.of_nat (size_of st2L)).
  { destruct st2; [auto|auto|discriminate]. }
  specialize (HJ Hs).
  destruct HI as (I2 & K2).
  destruct (gjudge max limit rs1 (total_size g2)); destruct (chunk_judge max limit rs1 (size_of st2L)); try contradiction.
  - pose proof (IH h2 c1 g2 st2 rs1 off lso st2L (conj I2 K2) HR) as HC.
    destruct (gnext mi ms max limit bs fuel h2 c1 g2 st2 rs1 off lso) as [[[o h'] r'] tr']. exact HC.
  - (* the judges disagree only about a record that is already being skipped *)
    destruct st2; try discriminate. destruct st2L; cbn [RL] in HR; try contradiction.
    pose proof (IH h2 c1 g2 MSkip rs1 off lso (LSkip (size_of (LSkip junk))) (conj I2 K2) HR) as HC.
    destruct (gnext mi ms max limit bs fuel h2 c1 g2 MSkip rs1 off lso) as [[[o h'] r'] tr']. exact HC.
  - destruct st2; try discriminate. destruct st2L; cbn [RL] in HR; try contradiction.
    pose proof (IH h2 c1 g2 MSkip rs1 off lso (LSkip junk) (conj I2 K2) HR) as HC.
    destruct (gnext mi ms max limit bs fuel h2 c1 g2 MSkip rs1 off lso) as [[[o h'] r'] tr']. exact HC.
  - pose proof (IH h2 c1 g2 MSkip rs1 off lso (LSkip (size_of st2L)) (conj I2 K2) (RL_to_skip _ _ _ _ _ HR)) as HC.
    destruct (gnext mi ms max limit bs fuel h2 c1 g2 MSkip rs1 off lso) as [[[o h'] r'] tr']. exact HC.
  - cbn [rchunker map]. sp; [apply FR_refl|apply Forall_nil|apply P_nil| |].
    + exact (Good_dropped h2 c1 GNone lso (ci_heap _ _ _ I2) (ci_buf _ _ _ I2)).
    + intros rst. cbn [Post rlso app]. eauto.
Qed.

Theorem sim_gnext : forall fuel h c g st rs re lso lst, RI h c g -> RL st lst h g ->
  Concl h c lst rs re lso (gnext mi ms max limit bs fuel h c g st rs re lso).
Proof.
  induction fuel as [|fuel IH]; intros h c g st rs re lso lst HI HR; cbn [gnext].
  { apply Concl_ret_bad. now right. }
  destruct (negb (Bool.eqb (rs =? re) (is_skip_sentinel st))) eqn:Echk; [apply Concl_ret_bad; now left|].
  destruct (gpump bs h (gcache_ g) c) as [[[[h1 k1] ch] c1]|] eqn:EP; [|apply Concl_ret_bad; now left].
  destruct (pump_step h c g h1 k1 ch c1 HI (RL_GS _ _ _ _ HR) EP) as (F1 & I1 & C1 & P1 & K1 & T1 & D1).
  pose proof (RL_set_cache st lst h g h1 k1 HR T1) as HR1.
  set (g1 := set_cache k1 g) in *.
  assert (HI1 : RI h1 c1 g1) by (split; [exact I1|exact K1]).
  pose proof (RL_skip_flag _ _ _ _ HR) as Hflag.
  pose proof (ci_buf _ _ _ I1) as O1.
  (* the value-level reader's first test is the same one *)
  assert (Hhead : forall ac t,
    next_record mi ms max limit (ac :: t) lst rs re lso =
    match ac with
    | Eof => if rs =? re then (ONone, ac :: t, lso)
             else match finish_record lst rs re with Some r => (ORecord r, ac :: t, lso) | None => (ONone, ac :: t, lso) end
    | Sentinel off =>
      if off <? 2 then (OPanic, ac :: t, lso)
      else match lst with
           | LSkipSentinel => match chunk_judge max limit off 0 with
                              | KeepGoing => next_record mi ms max limit t LSkipSentinel off off (off - 2)
                              | SkipRecord => next_record mi ms max limit t (LSkip 0) off off (off - 2)
                              | Stop => (ONone, t, off - 2)
                              end
           | _ => if rs =? re then (OPanic, ac :: t, lso)
                  else match finish_record lst rs re with
                       | Some r => (ORecord r, t, off - 2)
                       | None => next_record mi ms max limit t LSkipSentinel 0 0 (off - 2)
                       end
           end
    | Data off d =>
      match d with
      | [] => (OPanic, ac :: t, lso)
      | _ => let '(st1, rs1) := match lst with LSkipSentinel => (LDecode DInit [], off - length d) | _ => (lst, rs) end in
             let st2 := match st1 with
                        | LDecode ds out => match decode_piece mi ms ds d with
                                            | Some (ds', o) => LDecode ds' (out ++ o)
                                            | None => LSkip (length out)
                                            end
                        | _ => st1
                        end in
             match chunk_judge max limit rs1 (size_of st2) with
             | KeepGoing => next_record mi ms max limit t st2 rs1 off lso
             | SkipRecord => next_record mi ms max limit t (LSkip (size_of st2)) rs1 off lso
             | Stop => (ONone, t, lso)
             end
      end
    end).
  { intros ac t. cbn [next_record]. rewrite <- Hflag, Echk. reflexivity. }
  assert (Hrsre : forall b, (rs =? re) = b -> is_skip_sentinel st = b).
  { intros b Hb. rewrite Hb in Echk. destruct (is_skip_sentinel st), b; cbn in Echk; congruence. }
  destruct ch as [off| |off a]; cbn [abs_chunk] in P1.
  - (* Sentinel *)
    destruct (off <? 2) eqn:E2.
    { apply (Concl_cons h c lst rs re lso h1 (GSentinel off) c1 h1 GPanic h1 _ []); auto using FR_refl; try (constructor; fail). }
    destruct st as [|ds|].
    + (* SkipSentinel: the sentinel only moves the range *)
      destruct lst; cbn [RL] in HR; try contradiction.
      pose proof (RL_size _ _ _ _ HR1) as Hsz. cbn [size_of] in Hsz. cbv beta iota in Hsz.
      pose proof (judge_rel false off (total_size g1) 0 (fun _ => Hsz)) as HJ.
      destruct (gjudge max limit off (total_size g1)) eqn:EJ; destruct (chunk_judge max limit off 0) eqn:EC; try contradiction; try discriminate.
      * pose proof (IH h1 c1 g1 MSkipSentinel off off (off - 2) LSkipSentinel HI1 HR1) as HC.
        destruct (gnext mi ms max limit bs fuel h1 c1 g1 MSkipSentinel off off (off - 2)) as [[[o h'] r'] tr'].
        destruct (Concl_inv _ _ _ _ _ _ _ _ _ _ HC) as (A & B & C & D & E).
        apply (Concl_cons h c LSkipSentinel rs re lso h1 (GSentinel off) c1 h1 o h' r' tr'); auto using FR_refl.
        intros rst. cbn [abs_chunk]. rewrite Hhead, E2, EC. apply E.
      * assert (HRs : RL MSkip (LSkip 0) h1 g1) by (cbn [RL]; destruct HR1 as (m & s & G & _); eauto).
        pose proof (IH h1 c1 g1 MSkip off off (off - 2) (LSkip 0) HI1 HRs) as HC.
        destruct (gnext mi ms max limit bs fuel h1 c1 g1 MSkip off off (off - 2)) as [[[o h'] r'] tr'].
        destruct (Concl_inv _ _ _ _ _ _ _ _ _ _ HC) as (A & B & C & D & E).
        apply (Concl_cons h c LSkipSentinel rs re lso h1 (GSentinel off) c1 h1 o h' r' tr'); auto using FR_refl.
        intros rst. cbn [abs_chunk]. rewrite Hhead, E2, EC. apply E.
      * apply (Concl_cons h c LSkipSentinel rs re lso h1 (GSentinel off) c1 h1 GNone h1 _ []); auto using FR_refl; try (constructor; fail).
        -- exact (Good_dropped h1 c1 GNone (off - 2) (ci_heap _ _ _ I1) O1).
        -- intros rst. cbn [abs_chunk map app Post rlso]. rewrite Hhead, E2, EC. eauto.
    + (* a record in progress ends here *)
      assert (Hne : (rs =? re) = false) by (destruct (rs =? re) eqn:X; [discriminate (Hrsre true eq_refl)|reflexivity]).
      pose proof (complete_step fuel IH h1 c1 g1 (MDecode ds) lst rs re (off - 2) HI1 HR1 Hne eq_refl) as HX.
      rewrite Hne. change (Concl h c lst rs re lso (cons_tr (GSentinel off) (complete_term fuel h1 c1 g1 (MDecode ds) rs re (off - 2)))).
      destruct (complete_term fuel h1 c1 g1 (MDecode ds) rs re (off - 2)) as [[[o h'] r'] tr']. unfold CC in HX.
      destruct HX as (A & B & C & D & E).
      apply (Concl_cons h c lst rs re lso h1 (GSentinel off) c1 h1 o h' r' tr'); auto using FR_refl.
      intros rst. cbn [abs_chunk]. rewrite Hhead, E2. destruct lst as [|ds' out|junk]; cbn [RL] in HR; try contradiction.
      rewrite Hne. destruct (finish_record (LDecode ds' out) rs re) as [[[out' a] b]|].
      * destruct E as (-> & -> & El & Eb). cbn [Post map app]. exists out', rst. rewrite El. auto.
      * apply E.
    + assert (Hne : (rs =? re) = false) by (destruct (rs =? re) eqn:X; [discriminate (Hrsre true eq_refl)|reflexivity]).
      pose proof (complete_step fuel IH h1 c1 g1 MSkip lst rs re (off - 2) HI1 HR1 Hne eq_refl) as HX.
      rewrite Hne. change (Concl h c lst rs re lso (cons_tr (GSentinel off) (complete_term fuel h1 c1 g1 MSkip rs re (off - 2)))).
      destruct (complete_term fuel h1 c1 g1 MSkip rs re (off - 2)) as [[[o h'] r'] tr']. unfold CC in HX.
      destruct HX as (A & B & C & D & E).
      apply (Concl_cons h c lst rs re lso h1 (GSentinel off) c1 h1 o h' r' tr'); auto using FR_refl.
      intros rst. cbn [abs_chunk]. rewrite Hhead, E2. destruct lst as [|ds' out|junk]; cbn [RL] in HR; try contradiction.
      rewrite Hne. cbn [finish_record] in *. apply E.
  - (* Eof *)
    destruct (pump_spec bs _ _ _ P1) as (Erem & Hrem0 & _). specialize (Hrem0 eq_refl). rewrite Hrem0 in Erem.
    cbn [bytes_of app] in Erem. symmetry in Erem.
    destruct (rs =? re) eqn:Ere.
    + apply (Concl_cons h c lst rs re lso h1 GEof c1 h1 GNone h1 _ []); auto using FR_refl; try (constructor; fail).
      * exact (Good_dropped h1 c1 GNone lso (ci_heap _ _ _ I1) O1).
      * intros rst. cbn [abs_chunk map app Post rlso]. rewrite Hhead. eauto.
    + pose proof (Hrsre false eq_refl) as Hfl.
      pose proof (complete_step fuel IH h1 c1 g1 st lst rs re lso HI1 HR1 Ere Hfl) as HX.
      change (Concl h c lst rs re lso (cons_tr GEof (complete_term fuel h1 c1 g1 st rs re lso))).
      destruct (complete_term fuel h1 c1 g1 st rs re lso) as [[[o h'] r'] tr'] eqn:EX. unfold CC in HX.
      destruct HX as (A & B & C & D & E).
      apply (Concl_cons h c lst rs re lso h1 GEof c1 h1 o h' r' tr'); auto using FR_refl.
      intros rst. cbn [abs_chunk]. rewrite Hhead.
      destruct (finish_record lst rs re) as [[[out' a] b]|] eqn:EF.
      * destruct E as (-> & -> & El & Eb). cbn [Post map app]. exists out', (Eof :: rst). rewrite El. auto.
      * (* the decoder refuses to finish: the retry pumps Eof again and finds an empty range *)
        destruct tr' as [|ch' tr''].
        -- assert (Hbad : o = GFuel \/ o = GPanic).
           { unfold complete_term in EX.
             destruct st as [|ds|]; [discriminate| |]; destruct lst as [|ds' out|junk]; cbn [RL] in HR; try contradiction.
             - cbn [finish_record] in EF. destruct HR as (<- & _). destruct (dterminate ds); [discriminate|]. exact (gnext_nil _ _ _ _ _ _ _ _ _ _ _ EX).
             - exact (gnext_nil _ _ _ _ _ _ _ _ _ _ _ EX). }
           destruct Hbad as [-> | ->]; exact Logic.I.
        -- cbn [map] in C. inversion C as [|s0 c0 s1 cs0 s2 Hp Hrest]; subst.
           rewrite (pump_eof_again _ Erem) in Hp. inversion Hp as [[Hc Hs]].
           specialize (E rst). cbn [map app] in E. rewrite <- Hc in E. cbn [next_record] in E. cbn in E.
           destruct o; cbn [Post] in *; auto.
           ++ destruct E as (out0 & rst0 & E & _). discriminate.
           ++ destruct E as (rst0 & E). inversion E. eauto.
  - (* Data *)
    cbn [chunk_ok] in C1. destruct D1 as (Dg & Dx).
    pose proof (as_ok_len h1 a C1) as Hlen.
    destruct (as_len a =? 0)%N eqn:E0.
    { apply (Concl_cons h c lst rs re lso h1 (GData off a) c1 h1 GPanic h1 _ []); auto using FR_refl; try (constructor; fail). }
    apply N.eqb_neq in E0.
    set (d := sl_bytes h1 (as_sl a)) in *.
    assert (Hd : d <> []) by (intros Hn; rewrite Hn in Hlen; cbn in Hlen; lia).
    assert (Hx : sl_len (as_sl (gbuf c1)) <> 0%N -> sl_ok h1 (as_sl (gbuf c1))).
    { intros Hn. unfold as_ok in O1. destruct (as_sl (gbuf c1)) as [cx ox lx|bx]; cbn [sl_len sl_ok] in *; [|subst bx; cbn in Hn; lia].
      destruct O1 as (_ & A & B). repeat split; auto; lia. }
    (* what the chunk does to the decoder and the iovec *)
    assert (Hdec : (exists st2 h2 g2 st2L rs1,
      (let '(st1, rs1') := match st with MSkipSentinel => (MDecode DInit, off - N.to_nat (as_len a)) | _ => (st, rs) end in
       match (match st1 with
              | MDecode ds => match gd_anchored mi ms a ds h1 g1 with
                              | None => None
                              | Some (ds', true, h2, g2) => Some (MDecode ds', h2, g2)
                              | Some (_, false, h2, g2) => Some (MSkip, h2, g2)
                              end
              | _ => Some (st1, h1, g1)
              end) with
       | None => (GPanic, h1, {| rchunker := c1; riov := g1; rlso := lso |}, @nil gchunk)
       | Some (st2, h2, g2) => judge_term fuel h2 c1 g2 st2 rs1' off lso
       end) = judge_term fuel h2 c1 g2 st2 rs1 off lso /\
      (let '(st1, rs1') := match lst with LSkipSentinel => (LDecode DInit [], off - length d) | _ => (lst, rs) end in
       let st2' := match st1 with
                   | LDecode ds out => match decode_piece mi ms ds d with
                                       | Some (ds', o) => LDecode ds' (out ++ o)
                                       | None => LSkip (length out)
                                       end
                   | _ => st1
                   end in (st2', rs1')) = (st2L, rs1) /\
      FR h1 h2 /\ RI h2 c1 g2 /\ RL st2 st2L h2 g2)
      \/ (let '(st1, rs1') := match st with MSkipSentinel => (MDecode DInit, off - N.to_nat (as_len a)) | _ => (st, rs) end in
          match st1 with MDecode ds => gd_anchored mi ms a ds h1 g1 = None | _ => False end)).
    { assert (Hstep : forall ds out, dwf ds -> (exists m s, GS m s h1 g1 /\ bytes_of_sink s = Some out /\ taken s = []) ->
        match gd_anchored mi ms a ds h1 g1 with
        | None => True
        | Some (ds', ok, h2, g2) =>
          FR h1 h2 /\ RI h2 c1 g2 /\
          match decode_piece mi ms ds d with
          | Some (ds'', o1) => ok = true /\ RL (MDecode ds') (LDecode ds'' (out ++ o1)) h2 g2
          | None => ok = false /\ RL MSkip (LSkip (length out)) h2 g2
          end
        end).
      { intros ds out W HG. destruct (gd_anchored mi ms a ds h1 g1) as [[[[ds' ok] h2] g2]|] eqn:EA; [|exact Logic.I].
        destruct (decode_step h1 g1 a ds out (as_sl (gbuf c1)) ds' ok h2 g2 W HG C1 E0 Dg K1 Dx Hx EA) as (F12 & K2 & HM).
        fold d in HM. split; [exact F12|].
        destruct (abs_st_frame h1 h2 c1 F12 O1) as (_ & O2).
        destruct (decode_piece mi ms ds d) as [[ds2 o1]|].
        - destruct HM as (-> & -> & W2 & m & s & G & B & T). split; [split; [exact (CInv_of_GS m s h2 g2 c1 G O2)|exact K2]|].
          split; [reflexivity|]. cbn [RL]. sp; auto. eauto.
        - destruct HM as (-> & m & s & G). split; [split; [exact (CInv_of_GS m s h2 g2 c1 G O2)|exact K2]|].
          split; [reflexivity|]. cbn [RL]. eauto. }
      destruct st as [|ds|]; destruct lst as [|ds0 out|junk]; cbn [RL] in HR1, HR; try contradiction.
      - (* a new record starts with this chunk *)
        specialize (Hstep DInit [] Logic.I HR1).
        destruct (gd_anchored mi ms a DInit h1 g1) as [[[[ds' ok] h2] g2]|]; [|right; reflexivity].
        destruct Hstep as (F12 & HI2 & HM). left. cbn [app] in HM.
        destruct (decode_piece mi ms DInit d) as [[ds2 o1]|] eqn:DP.
        + destruct HM as (-> & HR2). exists (MDecode ds'), h2, g2, (LDecode ds2 o1), (off - N.to_nat (as_len a)).
          cbn [app]. rewrite Hlen. sp; auto.
        + destruct HM as (-> & HR2). exists MSkip, h2, g2, (LSkip 0), (off - N.to_nat (as_len a)).
          cbn [length]. rewrite Hlen. sp; auto.
      - destruct HR1 as (<- & W & HG). specialize (Hstep ds out W HG).
        destruct (gd_anchored mi ms a ds h1 g1) as [[[[ds' ok] h2] g2]|]; [|right; reflexivity].
        destruct Hstep as (F12 & HI2 & HM). left.
        destruct (decode_piece mi ms ds d) as [[ds2 o1]|] eqn:DP.
        + destruct HM as (-> & HR2). exists (MDecode ds'), h2, g2, (LDecode ds2 (out ++ o1)), rs. sp; auto.
        + destruct HM as (-> & HR2). exists MSkip, h2, g2, (LSkip (length out)), rs. sp; auto.
      - left. exists MSkip, h1, g1, (LSkip junk), rs. sp; auto using FR_refl. }
    destruct Hdec as [(st2 & h2 & g2 & st2L & rs1 & EG & EL & F12 & HI2 & HR2)|Hpanic].
    + match type of EG with ?T = _ => change (Concl h c lst rs re lso (cons_tr (GData off a) T)) end. rewrite EG.
      pose proof (judge_step fuel IH h2 c1 g2 st2 st2L rs1 off lso HI2 HR2) as HX.
      destruct (judge_term fuel h2 c1 g2 st2 rs1 off lso) as [[[o h'] r'] tr']. unfold JC in HX.
      destruct HX as (A & B & C & D & E).
      apply (Concl_cons h c lst rs re lso h1 (GData off a) c1 h2 o h' r' tr'); auto.
      intros rst. cbn [abs_chunk]. fold d. rewrite Hhead. rewrite (match_nonnil _ _ _ Hd).
      destruct lst as [|dsl outl|junkl]; cbv beta iota zeta in EL |- *; inversion EL as [[E1 E2']]; subst st2L rs1; apply E.
    + assert (Hbad : (let '(st1, rs1') := match st with MSkipSentinel => (MDecode DInit, off - N.to_nat (as_len a)) | _ => (st, rs) end in
         match (match st1 with
              | MDecode ds => match gd_anchored mi ms a ds h1 g1 with
                              | None => None
                              | Some (ds', true, h2, g2) => Some (MDecode ds', h2, g2)
                              | Some (_, false, h2, g2) => Some (MSkip, h2, g2)
                              end
              | _ => Some (st1, h1, g1)
              end) with
         | None => (GPanic, h1, {| rchunker := c1; riov := g1; rlso := lso |}, @nil gchunk)
         | Some (st2, h2, g2) => judge_term fuel h2 c1 g2 st2 rs1' off lso
         end) = (GPanic, h1, {| rchunker := c1; riov := g1; rlso := lso |}, @nil gchunk)).
      { destruct st as [|ds|]; cbv beta iota zeta in Hpanic |- *; try contradiction; rewrite Hpanic; reflexivity. }
      match type of Hbad with ?T = _ => change (Concl h c lst rs re lso (cons_tr (GData off a) T)) end. rewrite Hbad.
      apply (Concl_cons h c lst rs re lso h1 (GData off a) c1 h1 GPanic h1 _ []); auto using FR_refl; try (constructor; fail).
Qed.

(* ---- one call of next_record_bytes from any state a previous call (or construction) leaves ---- *)
Definition RState (h : heap) (r : grd) : Prop := RI h (rchunker r) (riov r) /\ exists m s, GS m s h (riov r).

Lemma RState_init stream :
  RState [] {| rchunker := {| gbuf := as_default; goffset := 0; grest := stream |}; riov := empty_iov; rlso := 0 |}.
Proof.
  assert (H0 : heap_ok []) by (intros c Hc; cbn in Hc; lia).
  split; cbn [rchunker riov].
  - apply (RI_no_slices [] _ empty_iov None); auto; [exact Logic.I|apply as_default_ok].
  - destruct (RL_fresh [] H0) as (m & s & G & _). eauto.
Qed.

Theorem greader_call fuel h r : RState h r ->
  Concl h (rchunker r) LSkipSentinel 0 0 (rlso r) (gnext_record mi ms max limit bs fuel h r).
Proof.
  intros ((I & K) & m & s & G). unfold gnext_record. apply sim_gnext.
  - apply (RI_no_slices h (rchunker r) (clear (riov r)) (gcache_ (riov r))); auto;
      [exact (ci_heap _ _ _ I)|exact (ci_cache _ _ _ I)|exact (ci_buf _ _ _ I)].
  - cbn [RL]. exists m, s_empty. sp; [exact (GS_clear m s h (riov r) G)|reflexivity|reflexivity].
Qed.

(* the state after a call that returned is again a state a call can start from *)
Corollary greader_next_state fuel h r o h' r' tr : RState h r ->
  gnext_record mi ms max limit bs fuel h r = (o, h', r', tr) -> o <> GPanic -> o <> GFuel -> RState h' r'.
Proof.
  intros S E Hp Hf. pose proof (greader_call fuel h r S) as H. rewrite E in H. destruct H as (_ & _ & _ & G & _).
  destruct o; cbn [Good] in G; try contradiction; exact G.
Qed.

(* ---- any number of calls ---- *)
Lemma Pumps_app s1 cs1 s2 cs2 s3 : Pumps bs s1 cs1 s2 -> Pumps bs s2 cs2 s3 -> Pumps bs s1 (cs1 ++ cs2) s3.
Proof. induction 1 as [|s c sa cs sb Hp Hr IH]; intros H2; cbn [app]; [exact H2|]. econstructor; [exact Hp|now apply IH]. Qed.

Lemma reabs h' h'' tr : Forall (chunk_ok h') tr -> FR h' h'' ->
  map (abs_chunk h'') tr = map (abs_chunk h') tr /\ Forall (chunk_ok h'') tr.
Proof.
  intros F (Fa & Fb). induction F as [|c tr Hc Ht IH]; [split; constructor|].
  destruct (chunk_frame h' h'' c Fa Fb Hc) as (C' & E'). destruct IH as (IH1 & IH2). cbn [map]. rewrite E', IH1. split; [reflexivity|constructor; auto].
Qed.

(* the bytes of the chunks pumped are exactly the bytes the chunker has consumed from its stream *)
Lemma Pumps_bytes s cs s' : Pumps bs s cs s' ->
  Chunker.remaining s = concat (map bytes_of cs) ++ Chunker.remaining s'.
Proof.
  induction 1 as [|s c s1 cs s2 Hp Hr IH]; [reflexivity|].
  destruct (pump_spec bs s c s1 Hp) as (E & _). cbn [map concat]. rewrite E, IH, app_assoc. reflexivity.
Qed.

(* n successive calls: the outcomes, the final memory and reader, and all chunks pumped *)
Fixpoint gcalls (n fuel : nat) (h : heap) (r : grd) : list goutcome * heap * grd * list gchunk :=
  match n with
  | O => ([], h, r, [])
  | S n =>
    let '(o, h1, r1, tr1) := gnext_record mi ms max limit bs fuel h r in
    let '(os, hF, rF, trs) := gcalls n fuel h1 r1 in
    (o :: os, hF, rF, tr1 ++ trs)
  end.

Theorem greader_calls : forall n fuel h r os hF rF trs, RState h r ->
  gcalls n fuel h r = (os, hF, rF, trs) ->
  Forall (fun o => o <> GPanic /\ o <> GFuel) os ->
  RState hF rF /\ FR h hF /\ Forall (chunk_ok hF) trs /\
  Pumps bs (abs_st h (rchunker r)) (map (abs_chunk hF) trs) (abs_st hF (rchunker rF)).
Proof.
  induction n as [|n IH]; intros fuel h r os hF rF trs S E Hok; cbn [gcalls] in E.
  - inversion E; subst. sp; auto using FR_refl; constructor.
  - destruct (gnext_record mi ms max limit bs fuel h r) as [[[o h1] r1] tr1] eqn:E1.
    destruct (gcalls n fuel h1 r1) as [[[os' hF'] rF'] trs'] eqn:E2. inversion E; subst os hF' rF' trs. clear E.
    inversion Hok as [|? ? (Hp & Hf) Hrest]; subst.
    pose proof (greader_call fuel h r S) as HC. rewrite E1 in HC. destruct HC as (F1 & B1 & P1 & _ & _).
    pose proof (greader_next_state fuel h r o h1 r1 tr1 S E1 Hp Hf) as S1.
    destruct (IH fuel h1 r1 os' hF rF trs' S1 E2 Hrest) as (SF & F2 & B2 & P2).
    destruct (reabs h1 hF tr1 B1 F2) as (Eabs & B1').
    sp; [exact SF|exact (FR_trans _ _ _ F1 F2)|apply Forall_app; auto|].
    rewrite map_app, Eabs. eapply Pumps_app; [exact P1|exact P2].
Qed.
End Reader.
