From Coq Require Import List NArith Lia Bool Arith ZifyNat ZifyN ZifyBool.
From WP Require Import hcobs.Stuffing hcobs.EncChunks hcobs.EncChunksProofs hcobs.Dec hcobs.NoStuff hcobs.Chunker hcobs.ReaderRecord hcobs.Reader.
Import ListNotations.

Definition bytes (cs : list chunk) : list byte := concat (map bytes_of cs).
Definition count_data (cs : list chunk) : nat := length (filter (fun c => match c with Data _ _ => true | _ => false end) cs).

(* ---- segments: fuel independence and unfolding ---- *)
Lemma find_stuff_bound s i : find_stuff s = Some i -> i + 2 <= length s.
Proof. intros F. apply find_stuff_some in F as (pre & post & -> & L & _). rewrite app_length. cbn [length]. lia. Qed.

Lemma segments_from_fuel : forall f1 f2 off s, length s <= f1 -> length s <= f2 -> segments_from f1 off s = segments_from f2 off s.
Proof.
  induction f1 as [|f1 IH]; intros f2 off s H1 H2.
  - assert (s = []) by (destruct s; [reflexivity|cbn in H1; lia]). subst s. destruct f2; reflexivity.
  - destruct f2 as [|f2].
    + assert (s = []) by (destruct s; [reflexivity|cbn in H2; lia]). subst s. reflexivity.
    + cbn [segments_from]. destruct (find_stuff s) as [i|] eqn:F; [|reflexivity].
      pose proof (find_stuff_bound s i F). f_equal. apply IH; rewrite skipn_length; lia.
Qed.
Definition segs (off : nat) (s : list byte) : list (nat * list byte) := segments_from (length s) off s.
Lemma segs_some off s i : find_stuff s = Some i -> segs off s = (off, firstn i s) :: segs (off + i + 2) (skipn (i + 2) s).
Proof.
  intros F. pose proof (find_stuff_bound s i F) as B. unfold segs. destruct (length s) as [|n] eqn:L; [lia|].
  cbn [segments_from]. rewrite F. f_equal. apply segments_from_fuel; rewrite skipn_length; lia.
Qed.
Lemma segs_none off s : find_stuff s = None -> segs off s = [(off, s)].
Proof. intros F. unfold segs. destruct (length s); cbn [segments_from]; [reflexivity|now rewrite F]. Qed.

Section RP.
Variables mi ms : nat.
Variable max limit : N.
Notation spec_walk := (spec_walk mi ms max limit).
Notation next_record := (next_record mi ms max limit).
Notation Rinv := (Rinv mi ms max).

Lemma spec_walk_stopped off s : (limit <= N.of_nat off)%N -> spec_walk (segs off s) = [].
Proof.
  intros H. unfold segs. destruct (length s); cbn [segments_from].
  - cbn [Reader.spec_walk]. assert ((limit <=? N.of_nat off)%N = true) as -> by lia. reflexivity.
  - destruct (find_stuff s); cbn [Reader.spec_walk]; assert ((limit <=? N.of_nat off)%N = true) as -> by lia; reflexivity.
Qed.

Definition to_r (st : lstate) : rstate :=
  match st with LDecode ds out => Dec ds out | LSkip _ => SkipR | LSkipSentinel => Dec DInit [] end.

(* state invariant: `acc` is what the current segment holds so far, `sstart` its first offset *)
Definition StInv (st : lstate) (acc : list byte) (sstart rs re off : nat) : Prop :=
  match st with
  | LSkipSentinel => acc = [] /\ rs = re /\ sstart = off
  | _ => acc <> [] /\ rs = sstart /\ re = off /\ rs + length acc = off /\ (N.of_nat rs < limit)%N /\ Rinv (to_r st) acc
  end.

Lemma stopped_stays t off pf lso : wf off pf t -> (limit <= N.of_nat off)%N ->
  exists t2 l2, next_record t LSkipSentinel 0 0 lso = (ONone, t2, l2).
Proof.
  intros W H. destruct t as [|c t]; [destruct W|]. destruct c as [o| |o d]; cbn [wf] in W.
  - destruct W as (-> & W). cbn [Reader.next_record Nat.eqb Bool.eqb negb]. assert (off + 2 <? 2 = false) as -> by (apply Nat.ltb_ge; lia).
    unfold chunk_judge. assert ((limit <=? N.of_nat (off + 2))%N = true) as -> by lia. eauto.
  - cbn [Reader.next_record Nat.eqb Bool.eqb negb]. eauto.
  - destruct W as (Hd & NS & -> & _). cbn [Reader.next_record Nat.eqb Bool.eqb negb]. destruct d as [|b d']; [congruence|].
    set (dd := b :: d') in *. replace (off + length dd - length dd) with off by lia.
    destruct (decode_piece mi ms DInit dd) as [[ds' o']|]; unfold chunk_judge;
      assert ((limit <=? N.of_nat off)%N = true) as -> by lia; eauto.
Qed.

Lemma emit_of_rinv st acc : Rinv (to_r st) acc -> st <> LSkipSentinel ->
  emit mi ms max acc = match st with LDecode ds out => if dterminate ds then Some out else None | _ => None end.
Proof.
  destruct st as [|ds out|j]; cbn [to_r ReaderRecord.Rinv]; intros H Hn; [congruence| |].
  - destruct H as (_ & R & L). unfold emit, decode_seg. rewrite R. destruct (dterminate ds); [|reflexivity].
    assert ((N.of_nat (length out) <=? max)%N = true) as -> by lia. reflexivity.
  - specialize (H []). now rewrite app_nil_r in H.
Qed.

(* one call, from any point inside or between records *)
Lemma next_record_spec : forall cs off prev_fe st acc sstart rs re lso,
  wf off prev_fe cs -> no_stuff acc -> (acc <> [] -> ends_fe acc = prev_fe) -> (acc = [] -> prev_fe = false) ->
  StInv st acc sstart rs re off ->
  match next_record cs st rs re lso with
  | (ORecord r, t, _) =>
      exists off' pf', wf off' pf' t /\ (pf' = false \/ t = [Eof]) /\
        count_data t + (match acc with [] => 1 | _ => 0 end) <= count_data cs /\
        spec_walk (segs sstart (acc ++ bytes cs)) = r :: spec_walk (segs off' (bytes t))
  | (ONone, t, _) =>
      spec_walk (segs sstart (acc ++ bytes cs)) = [] /\
      (forall l, exists t2 l2, next_record t LSkipSentinel 0 0 l = (ONone, t2, l2))
  | (OPanic, _, _) => False
  end.
Proof.
  induction cs as [|c t IH]; intros off prev_fe st acc sstart rs re lso W NS Hfe Hnil SI; [destruct W|].
  assert (Hassert : negb (Bool.eqb (rs =? re) (match st with LSkipSentinel => true | _ => false end)) = false).
  { destruct st; cbn [StInv] in SI.
    - destruct SI as (_ & -> & _). now rewrite Nat.eqb_refl.
    - destruct SI as (Hne & -> & -> & Hl & _). assert (sstart =? off = false) as -> by (apply Nat.eqb_neq; destruct acc; [congruence|cbn [length] in Hl; lia]). reflexivity.
    - destruct SI as (Hne & -> & -> & Hl & _). assert (sstart =? off = false) as -> by (apply Nat.eqb_neq; destruct acc; [congruence|cbn [length] in Hl; lia]). reflexivity. }
  cbn [Reader.next_record]. rewrite Hassert.
  destruct c as [o| |o d]; cbn [wf] in W.
  - (* ---- Sentinel ---- *)
    destruct W as (-> & W). assert (off + 2 <? 2 = false) as -> by (apply Nat.ltb_ge; lia).
    replace (off + 2 - 2) with off by lia.
    assert (Fs : find_stuff (acc ++ bytes (Sentinel (off + 2) :: t)) = Some (length acc)).
    { unfold bytes. cbn [map concat bytes_of app]. apply find_stuff_at. apply no_stuff_app; [exact NS|reflexivity|intros _; reflexivity]. }
    rewrite (segs_some _ _ _ Fs).
    assert (E1 : firstn (length acc) (acc ++ bytes (Sentinel (off + 2) :: t)) = acc) by (rewrite firstn_app, firstn_all, Nat.sub_diag; cbn [firstn]; apply app_nil_r).
    assert (E2 : skipn (length acc + 2) (acc ++ bytes (Sentinel (off + 2) :: t)) = bytes t).
    { unfold bytes. cbn [map concat bytes_of]. rewrite skipn_app, skipn_all2 by lia. replace (length acc + 2 - length acc) with 2 by lia. reflexivity. }
    rewrite E1, E2. cbn [Reader.spec_walk].
    destruct st as [|ds out|j]; cbn [StInv] in SI.
    + (* between records: an empty segment *)
      destruct SI as (-> & -> & ->). cbn [length]. unfold chunk_judge. cbn [N.of_nat N.ltb]. 
      assert ((max <? 0)%N = false) as -> by lia.
      destruct (limit <=? N.of_nat off)%N eqn:L1.
      * assert ((limit <=? N.of_nat (off + 2))%N = true) as -> by lia. split; [reflexivity|]. intros l. eapply stopped_stays; [exact W|lia].
      * destruct (limit <=? N.of_nat (off + 2))%N eqn:L2.
        -- split; [replace (off + 0 + 2) with (off + 2) by lia; apply spec_walk_stopped; lia|]. intros l. eapply stopped_stays; [exact W|lia].
        -- specialize (IH (off + 2) false LSkipSentinel [] (off + 2) (off + 2) (off + 2) off W eq_refl ltac:(congruence) ltac:(auto) ltac:(cbn; auto)).
           cbn [app] in IH. replace (off + 0 + 2) with (off + 2) by lia.
           destruct (Reader.next_record mi ms max limit t LSkipSentinel (off + 2) (off + 2) off) as [[oc t'] l'].
           destruct oc as [r| |]; [|exact IH|exact IH].
           destruct IH as (off' & pf' & W' & Hpf & Hc & Hs). exists off', pf'. split; [exact W'|]. split; [exact Hpf|]. split; [|exact Hs].
           unfold count_data in *. cbn [filter]. exact Hc.
    + (* a record ends at this sentinel *)
      destruct SI as (Hne & -> & -> & Hl & Hlim & RI).
      assert (sstart =? off = false) as -> by (apply Nat.eqb_neq; destruct acc; [congruence|cbn [length] in Hl; lia]).
      assert ((limit <=? N.of_nat sstart)%N = false) as -> by lia.
      rewrite (emit_of_rinv (LDecode ds out) acc RI ltac:(discriminate)). cbn [finish_record].
      destruct acc as [|a0 acc']; [congruence|]. set (acc := a0 :: acc') in *.
      replace (sstart + length acc + 2) with (off + 2) by lia.
      destruct (dterminate ds).
      * exists (off + 2), false. split; [exact W|]. split; [left; reflexivity|]. split; [unfold count_data; cbn [filter]; lia|].
        replace (sstart + length acc) with off by lia. reflexivity.
      * specialize (IH (off + 2) false LSkipSentinel [] (off + 2) 0 0 off W eq_refl ltac:(congruence) ltac:(auto) ltac:(cbn; auto)).
        cbn [app] in IH.
        destruct (Reader.next_record mi ms max limit t LSkipSentinel 0 0 off) as [[oc t'] l'].
        destruct oc as [r| |]; [|exact IH|exact IH].
        destruct IH as (off' & pf' & W' & Hpf & Hc & Hs). exists off', pf'. split; [exact W'|]. split; [exact Hpf|]. split; [|exact Hs].
        unfold count_data in *. cbn [filter]. lia.
    + destruct SI as (Hne & -> & -> & Hl & Hlim & RI).
      assert (sstart =? off = false) as -> by (apply Nat.eqb_neq; destruct acc; [congruence|cbn [length] in Hl; lia]).
      assert ((limit <=? N.of_nat sstart)%N = false) as -> by lia.
      rewrite (emit_of_rinv (LSkip j) acc RI ltac:(discriminate)). cbn [finish_record].
      destruct acc as [|a0 acc']; [congruence|]. set (acc := a0 :: acc') in *.
      replace (sstart + length acc + 2) with (off + 2) by lia.
      specialize (IH (off + 2) false LSkipSentinel [] (off + 2) 0 0 off W eq_refl ltac:(congruence) ltac:(auto) ltac:(cbn; auto)).
      cbn [app] in IH.
      destruct (Reader.next_record mi ms max limit t LSkipSentinel 0 0 off) as [[oc t'] l'].
      destruct oc as [r| |]; [|exact IH|exact IH].
      destruct IH as (off' & pf' & W' & Hpf & Hc & Hs). exists off', pf'. split; [exact W'|]. split; [exact Hpf|]. split; [|exact Hs].
      unfold count_data in *. cbn [filter]. lia.
  - (* ---- Eof ---- *)
    subst t. assert (Eb : acc ++ bytes [Eof] = acc) by (unfold bytes; cbn; now rewrite app_nil_r). rewrite Eb.
    rewrite (segs_none _ _ NS). cbn [Reader.spec_walk].
    assert (Hnext : forall l, exists t2 l2, Reader.next_record mi ms max limit [Eof] LSkipSentinel 0 0 l = (ONone, t2, l2))
      by (intros l; cbn; eauto).
    destruct st as [|ds out|j]; cbn [StInv] in SI.
    + destruct SI as (-> & -> & ->). rewrite Nat.eqb_refl. split; [|exact Hnext]. destruct (limit <=? N.of_nat off)%N; reflexivity.
    + destruct SI as (Hne & -> & -> & Hl & Hlim & RI).
      assert (sstart =? off = false) as -> by (apply Nat.eqb_neq; destruct acc; [congruence|cbn [length] in Hl; lia]).
      assert ((limit <=? N.of_nat sstart)%N = false) as -> by lia.
      rewrite (emit_of_rinv (LDecode ds out) acc RI ltac:(discriminate)). cbn [finish_record].
      destruct acc as [|a0 acc']; [congruence|]. set (acc := a0 :: acc') in *.
      destruct (dterminate ds).
      * exists off, prev_fe. split; [reflexivity|]. split; [right; reflexivity|]. split; [unfold count_data; cbn; lia|].
        replace (sstart + length acc) with off by lia. f_equal.
        unfold bytes. cbn [map concat bytes_of app]. rewrite (segs_none _ [] eq_refl). cbn [Reader.spec_walk].
        destruct (limit <=? N.of_nat off)%N; reflexivity.
      * split; [reflexivity|exact Hnext].
    + destruct SI as (Hne & -> & -> & Hl & Hlim & RI).
      assert (sstart =? off = false) as -> by (apply Nat.eqb_neq; destruct acc; [congruence|cbn [length] in Hl; lia]).
      assert ((limit <=? N.of_nat sstart)%N = false) as -> by lia.
      rewrite (emit_of_rinv (LSkip j) acc RI ltac:(discriminate)). cbn [finish_record].
      destruct acc as [|a0 acc']; [congruence|]. split; [reflexivity|exact Hnext].
  - (* ---- Data ---- *)
    destruct W as (Hd & NSd & -> & Hpf & W).
    destruct d as [|b0 d']; [congruence|]. set (d := b0 :: d') in *.
    assert (Eb : acc ++ bytes (Data (off + length d) d :: t) = (acc ++ d) ++ bytes t) by (unfold bytes; cbn [map concat bytes_of]; now rewrite app_assoc).
    rewrite Eb.
    assert (NS' : no_stuff (acc ++ d)).
    { apply no_stuff_app; auto. intros He. destruct acc as [|a0 acc']; [discriminate|]. apply Hpf. rewrite <- Hfe by discriminate. exact He. }
    assert (Hfe' : acc ++ d <> [] -> ends_fe (acc ++ d) = ends_fe d) by (intros _; apply ends_fe_app2; discriminate).
    assert (Hne' : acc ++ d <> []) by (destruct acc; discriminate).
    (* the state after the optional SkipSentinel -> DecodeRecord transition *)
    set (st1 := match st with LSkipSentinel => LDecode DInit [] | _ => st end).
    set (rs1 := match st with LSkipSentinel => off + length d - length d | _ => rs end).
    assert (Hrs1 : rs1 = sstart /\ (st = LSkipSentinel \/ (N.of_nat sstart < limit)%N) /\ sstart + length acc = off /\
                   Rinv (to_r st1) acc /\ st1 <> LSkipSentinel).
    { destruct st as [|ds out|j]; cbn [StInv] in SI; unfold rs1, st1.
      - destruct SI as (-> & -> & ->). cbn [length to_r ReaderRecord.Rinv dwf run].
        split; [lia|]. split; [left; reflexivity|]. split; [lia|]. split; [|discriminate].
        split; [exact I|]. split; [reflexivity|]. cbn [length]. lia.
      - destruct SI as (_ & -> & -> & Hl & Hlim & RI). split; [reflexivity|]. split; [right; exact Hlim|]. split; [exact Hl|]. split; [exact RI|discriminate].
      - destruct SI as (_ & -> & -> & Hl & Hlim & RI). split; [reflexivity|]. split; [right; exact Hlim|]. split; [exact Hl|]. split; [exact RI|discriminate]. }
    destruct Hrs1 as (Ers & Hlim & Hl & RI & Hst1).
    assert (Estep : (let '(st1', rs1') := match st with LSkipSentinel => (LDecode DInit [], off + length d - length d) | _ => (st, rs) end in (st1', rs1')) = (st1, rs1))
      by (unfold st1, rs1; destruct st; reflexivity).
    change (match st with LSkipSentinel => (LDecode DInit [], off + length d - length d) | _ => (st, rs) end) with
      (match st with LSkipSentinel => (LDecode DInit [], off + length d - length d) | _ => (st, rs) end) in Estep.
    destruct (match st with LSkipSentinel => (LDecode DInit [], off + length d - length d) | _ => (st, rs) end) as [st1' rs1'] eqn:Em.
    inversion Estep; subst st1' rs1'; clear Estep.
    set (st2 := match st1 with
                | LDecode ds out => match decode_piece mi ms ds d with Some (ds', o) => LDecode ds' (out ++ o) | None => LSkip (length out) end
                | _ => st1 end).
    (* the state after the judge corresponds to ReaderRecord.feed *)
    set (st3 := match chunk_judge max limit sstart (size_of st2) with SkipRecord => LSkip (size_of st2) | _ => st2 end).
    fold st2. rewrite Ers in *. clear Ers.
    destruct (limit <=? N.of_nat sstart)%N eqn:Lim.
    + (* Stop: the record would start at or after the limit *)
      unfold chunk_judge. rewrite Lim. split; [apply spec_walk_stopped; lia|].
      intros l. eapply stopped_stays; [exact W|lia].
    +
      assert (Hfeed : to_r st3 = feed mi ms max (to_r st1) d /\ st3 <> LSkipSentinel).
      { unfold st3, st2, chunk_judge. rewrite Lim. destruct st1 as [|ds out|j]; [congruence| |].
        - cbn [to_r feed]. destruct (decode_piece mi ms ds d) as [[ds' o']|]; cbn [size_of].
          + destruct (max <? N.of_nat (length (out ++ o')))%N; cbn [to_r]; split; try reflexivity; discriminate.
          + destruct (max <? N.of_nat (length out))%N; cbn [to_r]; split; try reflexivity; discriminate.
        - cbn [to_r feed size_of]. destruct (max <? N.of_nat j)%N; cbn [to_r]; split; try reflexivity; discriminate. }
      destruct Hfeed as (Hfeed & Hst3).
      pose proof (feed_inv mi ms max (to_r st1) acc d RI) as RI'. rewrite <- Hfeed in RI'.
      assert (SI' : StInv st3 (acc ++ d) sstart sstart (off + length d) (off + length d)).
      { pose proof Lim as Lim'. apply N.leb_gt in Lim'.
        destruct st3 as [|ds3 o3|j3] eqn:E3; [congruence| |]; cbn [StInv]; rewrite app_length;
          (split; [exact Hne'|]); (split; [reflexivity|]); (split; [reflexivity|]); (split; [lia|]); (split; [lia|exact RI']). }
      assert (Hcont : Reader.next_record mi ms max limit t st3 sstart (off + length d) lso =
                      match chunk_judge max limit sstart (size_of st2) with
                      | KeepGoing => Reader.next_record mi ms max limit t st2 sstart (off + length d) lso
                      | SkipRecord => Reader.next_record mi ms max limit t (LSkip (size_of st2)) sstart (off + length d) lso
                      | Stop => (ONone, t, lso)
                      end).
      { unfold st3, chunk_judge. rewrite Lim. destruct (max <? N.of_nat (size_of st2))%N; reflexivity. }
      rewrite <- Hcont.
      specialize (IH (off + length d) (ends_fe d) st3 (acc ++ d) sstart sstart (off + length d) lso W NS' Hfe'
                     ltac:(intros E; congruence) SI').
      destruct (Reader.next_record mi ms max limit t st3 sstart (off + length d) lso) as [[oc t'] l'].
      destruct oc as [r| |]; [|exact IH|exact IH].
      destruct IH as (off' & pf' & W' & Hpf' & Hc & Hs). exists off', pf'. split; [exact W'|]. split; [exact Hpf'|]. split; [|exact Hs].
      unfold count_data in *. cbn [filter length]. destruct (acc ++ d) eqn:Ead; [congruence|]. destruct acc; lia.
Qed.

(* all successive calls *)
Theorem all_records_spec : forall fuel cs off pf lso, wf off pf cs -> (pf = false \/ cs = [Eof]) -> count_data cs < fuel ->
  exists l, all_records mi ms max limit fuel cs lso = (spec_walk (segs off (bytes cs)), true, l).
Proof.
  induction fuel as [|fuel IH]; intros cs off pf lso W Hpf Hf; [lia|]. cbn [all_records].
  destruct Hpf as [-> | ->].
  - assert (SI : StInv LSkipSentinel [] off 0 0 off) by (cbn; auto).
    pose proof (next_record_spec cs off false LSkipSentinel [] off 0 0 lso W eq_refl ltac:(congruence) ltac:(auto) SI) as H.
    cbn [app] in H.
    destruct (Reader.next_record mi ms max limit cs LSkipSentinel 0 0 lso) as [[oc t] l'].
    destruct oc as [r| |]; [| |destruct H].
    + destruct H as (off' & pf' & W' & Hpf2 & Hc & Hs).
      destruct (IH t off' pf' l' W' Hpf2 ltac:(lia)) as (l & E). rewrite E, Hs. eauto.
    + destruct H as (Hs & Hn). destruct (Hn l') as (t2 & l2 & E2). rewrite E2, Hs. eauto.
  - exists lso. cbn [Reader.next_record Nat.eqb Bool.eqb negb]. unfold bytes. cbn [map concat bytes_of app].
    rewrite (segs_none off [] eq_refl). cbn [Reader.spec_walk].
    destruct (limit <=? N.of_nat off)%N; reflexivity.
Qed.

(* from the start of a stream *)
Corollary reader_spec cs s : wf 0 false cs -> bytes cs = s ->
  exists l, all_records mi ms max limit (S (length cs)) cs 0 = (spec_records mi ms max limit s, true, l).
Proof.
  intros W <-. destruct (all_records_spec (S (length cs)) cs 0 false 0 W (or_introl eq_refl)) as (l & E).
  - unfold count_data. assert (forall (f : chunk -> bool) l, length (filter f l) <= length l) as FL
      by (intros f l; induction l as [|a l' IHl]; cbn [filter length]; [lia|destruct (f a); cbn [length]; lia]).
    pose proof (FL (fun c => match c with Data _ _ => true | _ => false end) cs). lia.
  - exists l. exact E.
Qed.
End RP.
